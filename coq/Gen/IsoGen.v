(* translator py2v_iso FAILED on the current source:
py2v_iso: UNSUPPORTED: Unsupported: IfExp(test=Compare(left=Name(id='mode_to', ctx=Load()), ops=[Eq()], comparators=[Constant(value='absolute')]), body=Name(id='unit_to', ctx=Load()), orelse=Constant(value=None))
*)
Translator_failed_closed.
