(* translator py2v_formulas FAILED on the current source:
py2v_formulas: unsupported construct: /repo/src/pygaps/modelling/bet.py:160: statement if numpy.isnan(res).any():
*)
Translator_failed_closed.
