(* C12 - hand-written model of the decision logic around scipy.optimize.least_squares in
   modelling/base_model.py (initial_guess_bounds, fit, rmse) and core/modelisotherm.py (branch selection in __init__,
   guess: best of the attempts that converged).  One definition, two carriers (RNum: theorems in Fit/FitTheorems.v,
   QNum: executed against the implementation by tools/props/c12.py on every run).
   Not modelled: the optimiser itself, the model-specific initial_guess heuristics, verbose output / plotting. *)
From Coq Require Import QArith ZArith List Bool.
From PG Require Import Lib.Num Lib.Py.
Import ListNotations.

Section Fit.
  Variable N : Num.
  Definition z0 : N := @nofQ N 0%Q.

  (* ---- initial_guess_bounds: two independent tests on the ORIGINAL value, the upper one assigned last *)
  Definition clamp (lo hi v : N) : N :=
    let g := if nltb v lo then lo else v in
    if nltb hi v then hi else g.
  Definition clamp_all (bounds : list (N * N)) (guess : list N) : list N :=
    map (fun bv => clamp (fst (fst bv)) (snd (fst bv)) (snd bv)) (combine bounds guess).

  (* ---- fit: residual vector of the model at parameters x over the data, reported error *)
  Definition point := (N * N)%type.                      (* (pressure, loading) *)
  Definition params := list N.
  Variable calc_loading : bool.                          (* model.calculates == "loading" (else "pressure") *)
  Variable M : params -> N -> N.                         (* model.loading (or model.pressure for Virial-like models) *)
  Definition resid (x : params) (data : list point) : list N :=
    map (fun d => if calc_loading then nsub (M x (fst d)) (snd d) else nsub (M x (snd d)) (fst d)) data.
  Fixpoint sumsq (l : list N) : N := match l with [] => z0 | a :: r => nadd (nmul a a) (sumsq r) end.
  Fixpoint ofnat (n : nat) : N := match n with O => z0 | S k => nadd (@nofQ N 1%Q) (ofnat k) end.
  (* rmse^2 = sum(fun^2) / len(loading) / range^2 ; rmse = sqrt(sum(fun^2)/len(loading)) / range *)
  Definition mse (fun_ : list N) (n : nat) : N := ndiv (sumsq fun_) (ofnat n).
  Definition rmse_sq (fun_ : list N) (n : nat) (range : N) : N := ndiv (mse fun_ n) (nmul range range).

  (* scipy.optimize.least_squares(fun, x0, bounds): None = raised ValueError or success == False (-> CalculationError);
     Some (x, fun) = (opt_res.x, opt_res.fun) *)
  Variable lsq : (params -> list N) -> params -> list (N * N) -> option (params * list N).
  (* fit returns the assigned parameters and the vector from which the error is computed *)
  Definition fit (data : list point) (x0 : params) (bounds : list (N * N)) : res (params * list N) :=
    match lsq (fun x => resid x data) x0 bounds with
    | None => Err CalculationError
    | Some (x, f) => Ok (x, f) end.

  (* ---- ModelIsotherm.__init__: only the rows of the requested branch are fitted (0 = adsorption, 1 = desorption) *)
  Definition row := (point * bool)%type.
  Definition select (des : bool) (rows : list row) : list point :=
    map fst (filter (fun r => Bool.eqb (snd r) des) rows).
  Definition init_fit (des : bool) (rows : list row) (x0 : params) (bounds : list (N * N)) : res (params * list N) :=
    match select des rows with
    | [] => Err ParameterError                       (* "The required isotherm branch does not contain any points." *)
    | d => fit d x0 bounds end.

  (* ---- ModelIsotherm.guess: errors.index(min(errors)) over the attempts that did not raise CalculationError *)
  Fixpoint argmin_from (best : N) (besti i : nat) (l : list N) : nat :=
    match l with
    | [] => besti
    | a :: r => if nltb a best then argmin_from a i (S i) r else argmin_from best besti (S i) r end.
  Definition argmin_first (l : list N) : option nat :=
    match l with [] => None | a :: r => Some (argmin_from a 0 1 r) end.
  (* attempts: per candidate model, None = CalculationError, Some e = its reported rmse; result: position in the candidate list *)
  Fixpoint converged (i : nat) (att : list (option N)) : list (nat * N) :=
    match att with [] => [] | None :: r => converged (S i) r | Some e :: r => (i, e) :: converged (S i) r end.
  Definition best_of (att : list (option N)) : res nat :=
    let c := converged 0 att in
    match argmin_first (map snd c) with
    | None => Err CalculationError                   (* "No model could be reliably fit on the isotherm." *)
    | Some k => Ok (nth k (map fst c) 0%nat) end.
End Fit.
