(* C12 - hand-written model of the decision logic around scipy.optimize.least_squares in
   modelling/base_model.py (initial_guess_bounds, fit, rmse) and core/modelisotherm.py (branch selection in __init__,
   guess: best of the attempts that converged).  One definition, two carriers (RNum: theorems in Fit/FitTheorems.v,
   QNum: executed against the implementation by tools/props/c12.py on every run).
   Bounds and guesses are dictionaries keyed by parameter NAME (association lists in the user's key order); the vectors handed to the
   optimiser are built in param_names order by looking every name up (by_name).  The range that normalises the error is max - min of the
   fitted quantity over the rows actually fitted (any row order).
   Not modelled: the optimiser itself, the model-specific initial_guess heuristics, verbose output / plotting. *)
From Coq Require Import QArith ZArith String List Bool.
From PG Require Import Lib.Num Lib.Py.
Import ListNotations.

Section Fit.
  Variable N : Num.
  Definition z0 : N := @nofQ N 0%Q.

  (* ---- initial_guess_bounds: two independent tests on the ORIGINAL value, the upper one assigned last *)
  Definition clamp (lo hi v : N) : N :=
    let g := if nltb v lo then lo else v in
    if nltb hi v then hi else g.
  Definition clamp_all (bounds : list (N * N)) (guess : list N) : list N :=
    map (fun bv => clamp (fst (fst bv)) (snd (fst bv)) (snd bv)) (combine bounds guess).

  (* ---- BaseModel.__init__: the bounds in force. A non-empty user dictionary is taken as given (its own key order; every key must be a
     parameter name, else ParameterError); otherwise dict(zip(param_names, param_default_bounds)) *)
  Definition bdict := list (string * (N * N)).
  Definition bounds_in_force (names : list string) (defaults : list (N * N)) (user : bdict) : res bdict :=
    match user with
    | [] => Ok (combine names defaults)
    | _ => if forallb (fun kv => existsb (String.eqb (fst kv)) names) user then Ok user else Err ParameterError end.
  (* fit(): [d[p] for p in param_names] - the vector in param_names order, every entry looked up BY NAME (KeyError when missing) *)
  Fixpoint by_name {A} (names : list string) (d : list (string * A)) : res (list A) :=
    match names with
    | [] => Ok []
    | n :: r => match assoc n d with
                | None => Err KeyError
                | Some b => bind (by_name r d) (fun br => Ok (b :: br)) end end.
  (* initial_guess_bounds over a guess dictionary: every entry is trimmed to the bounds OF ITS NAME *)
  Definition clamp_named (d : bdict) (guess : list (string * N)) : res (list (string * N)) :=
    (fix go (g : list (string * N)) : res (list (string * N)) :=
       match g with
       | [] => Ok []
       | (k, v) :: r => match assoc k d with
                        | None => Err KeyError
                        | Some b => bind (go r) (fun gr => Ok ((k, clamp (fst b) (snd b) v) :: gr)) end end) guess.

  (* ---- ModelIsotherm.__init__: pressure_range / loading_range = (min, max) of the fitted rows, whatever their order *)
  Fixpoint minl (a : N) (l : list N) : N := match l with [] => a | b :: r => minl (if nltb b a then b else a) r end.
  Fixpoint maxl (a : N) (l : list N) : N := match l with [] => a | b :: r => maxl (if nltb a b then b else a) r end.
  Definition range_of (l : list N) : N := match l with [] => z0 | a :: r => nsub (maxl a r) (minl a r) end.

  (* ---- fit: residual vector of the model at parameters x over the data, reported error *)
  Definition point := (N * N)%type.                      (* (pressure, loading) *)
  Definition params := list N.
  Variable calc_loading : bool.                          (* model.calculates == "loading" (else "pressure") *)
  Variable M : params -> N -> N.                         (* model.loading (or model.pressure for Virial-like models) *)
  Definition resid (x : params) (data : list point) : list N :=
    map (fun d => if calc_loading then nsub (M x (fst d)) (snd d) else nsub (M x (snd d)) (fst d)) data.
  Fixpoint sumsq (l : list N) : N := match l with [] => z0 | a :: r => nadd (nmul a a) (sumsq r) end.
  Fixpoint ofnat (n : nat) : N := match n with O => z0 | S k => nadd (@nofQ N 1%Q) (ofnat k) end.
  (* rmse^2 = sum(fun^2) / len(loading) / range^2 ; rmse = sqrt(sum(fun^2)/len(loading)) / range *)
  Definition mse (fun_ : list N) (n : nat) : N := ndiv (sumsq fun_) (ofnat n).
  Definition rmse_sq (fun_ : list N) (n : nat) (range : N) : N := ndiv (mse fun_ n) (nmul range range).

  (* scipy.optimize.least_squares(fun, x0, bounds): None = raised ValueError or success == False (-> CalculationError);
     Some (x, fun) = (opt_res.x, opt_res.fun) *)
  Variable lsq : (params -> list N) -> params -> list (N * N) -> option (params * list N).
  (* fit returns the assigned parameters and the vector from which the error is computed *)
  Definition fit (data : list point) (x0 : params) (bounds : list (N * N)) : res (params * list N) :=
    match lsq (fun x => resid x data) x0 bounds with
    | None => Err CalculationError
    | Some (x, f) => Ok (x, f) end.

  (* the range that normalises the error: of the loadings when the model calculates loading, of the pressures otherwise *)
  Definition model_range (data : list point) : N := range_of (map (fun d => if calc_loading then snd d else fst d) data).
  Definition reported_rmse_sq (data : list point) (fun_ : list N) : N := rmse_sq fun_ (length data) (model_range data).
  (* fit with dictionaries: start vector and bound vectors in param_names order, by name *)
  Definition fit_named (names : list string) (d : bdict) (guess : list (string * N)) (data : list point) : res (params * list N) :=
    bind (by_name names guess) (fun x0 => bind (by_name names d) (fun bs => fit data x0 bs)).

  (* ---- ModelIsotherm.__init__: only the rows of the requested branch are fitted (0 = adsorption, 1 = desorption) *)
  Definition row := (point * bool)%type.
  Definition select (des : bool) (rows : list row) : list point :=
    map fst (filter (fun r => Bool.eqb (snd r) des) rows).
  Definition init_fit (des : bool) (rows : list row) (x0 : params) (bounds : list (N * N)) : res (params * list N) :=
    match select des rows with
    | [] => Err ParameterError                       (* "The required isotherm branch does not contain any points." *)
    | d => fit d x0 bounds end.

  (* ---- ModelIsotherm.guess: errors.index(min(errors)) over the attempts that did not raise CalculationError *)
  Fixpoint argmin_from (best : N) (besti i : nat) (l : list N) : nat :=
    match l with
    | [] => besti
    | a :: r => if nltb a best then argmin_from a i (S i) r else argmin_from best besti (S i) r end.
  Definition argmin_first (l : list N) : option nat :=
    match l with [] => None | a :: r => Some (argmin_from a 0 1 r) end.
  (* attempts: per candidate model, None = CalculationError, Some e = its reported rmse; result: position in the candidate list *)
  Fixpoint converged (i : nat) (att : list (option N)) : list (nat * N) :=
    match att with [] => [] | None :: r => converged (S i) r | Some e :: r => (i, e) :: converged (S i) r end.
  Definition best_of (att : list (option N)) : res nat :=
    let c := converged 0 att in
    match argmin_first (map snd c) with
    | None => Err CalculationError                   (* "No model could be reliably fit on the isotherm." *)
    | Some k => Ok (nth k (map fst c) 0%nat) end.
End Fit.
