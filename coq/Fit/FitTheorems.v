(* C12 - theorems about the model of the fitting logic (Fit/FitLogic.v, carrier RNum).
   scipy.optimize.least_squares is a Section variable; its contract (the returned `fun` is the residual vector at the returned
   `x`, and `x` respects the bounds) is a Section hypothesis, i.e. an explicit premise. *)
From Coq Require Import Reals Lra Lia List Bool QArith Qreals.
From PG Require Import Lib.Num Lib.Py Fit.FitLogic.
Import ListNotations.
Open Scope R_scope.

Lemma z0_R : z0 RNum = 0. Proof. unfold z0; simpl; unfold Q2R; simpl; lra. Qed.
Lemma ofnat_R n : ofnat RNum n = INR n.
Proof.
  induction n; [apply z0_R|]. rewrite S_INR. simpl ofnat. rewrite IHn.
  change (Q2R 1 + INR n = INR n + 1). unfold Q2R; simpl; lra.
Qed.

(* ---------------------------------------------------------------- initial_guess_bounds *)
Theorem clamp_in_bounds_R : forall lo hi v : R, lo <= hi -> lo <= clamp RNum lo hi v <= hi.
Proof.
  intros lo hi v H. unfold clamp. simpl. unfold Rltb.
  destruct (Rlt_dec hi v); destruct (Rlt_dec v lo); lra.
Qed.
Theorem clamp_identity_R : forall lo hi v : R, lo <= v <= hi -> clamp RNum lo hi v = v.
Proof.
  intros lo hi v H. unfold clamp. simpl. unfold Rltb.
  destruct (Rlt_dec hi v); destruct (Rlt_dec v lo); lra.
Qed.
Theorem clamp_all_in_bounds : forall (bounds : list (R * R)) (guess : list R),
  Forall (fun b => fst b <= snd b) bounds -> length guess = length bounds ->
  length (clamp_all RNum bounds guess) = length bounds
  /\ Forall2 (fun b v => fst b <= v <= snd b) bounds (clamp_all RNum bounds guess).
Proof.
  unfold clamp_all. induction bounds as [|[lo hi] bs IH]; intros guess Hb L.
  - destruct guess; [|discriminate]. simpl. split; [reflexivity|constructor].
  - destruct guess as [|v guess]; [discriminate|]. inversion Hb; subst. simpl in *.
    destruct (IH guess) as [IL IF]; [assumption|congruence|]. split; [congruence|].
    constructor; [apply clamp_in_bounds_R; assumption|assumption].
Qed.

(* ---------------------------------------------------------------- the reported error *)
Fixpoint sumsqR (l : list R) : R := match l with [] => 0 | a :: r => a * a + sumsqR r end.
Lemma sumsq_R l : sumsq RNum l = sumsqR l.
Proof. induction l; simpl; [apply z0_R|]. rewrite IHl. reflexivity. Qed.
Lemma sumsqR_nonneg l : 0 <= sumsqR l.
Proof. induction l; simpl; [lra|]. pose proof (Rle_0_sqr a) as H. unfold Rsqr in H. lra. Qed.
Lemma sumsqR_zero l : sumsqR l = 0 -> Forall (fun a => a = 0) l.
Proof.
  induction l; simpl; intros H; [constructor|].
  pose proof (Rle_0_sqr a) as Ha. unfold Rsqr in Ha. pose proof (sumsqR_nonneg l).
  constructor; [|apply IHl; lra]. assert (a * a = 0) by lra. destruct (Rmult_integral _ _ H1); assumption.
Qed.
(* the documented normalisation: root of the mean squared residual divided by the range of the fitted quantity *)
Definition rmse (fun_ : list R) (n : nat) (range : R) : R := sqrt (sumsqR fun_ / INR n) / range.
Lemma rmse_sq_is_square : forall f n range, (0 < n)%nat -> range <> 0 -> rmse_sq RNum f n range = rmse f n range * rmse f n range.
Proof.
  intros f n range Hn Hr. unfold rmse_sq, mse, rmse. simpl. rewrite sumsq_R, ofnat_R.
  assert (0 < INR n) by (apply lt_0_INR; assumption).
  assert (Q : 0 <= sumsqR f / INR n). { apply Rmult_le_pos; [apply sumsqR_nonneg|]. left. apply Rinv_0_lt_compat. assumption. }
  transitivity ((sqrt (sumsqR f / INR n) * sqrt (sumsqR f / INR n)) / (range * range)); [rewrite sqrt_sqrt by assumption; reflexivity|].
  field. assumption.
Qed.

Section WithLsq.
  Variable calc_loading : bool.
  Variable M : list R -> R -> R.
  Variable lsq : (list R -> list R) -> list R -> list (R * R) -> option (list R * list R).
  Definition in_bounds (b : list (R * R)) (x : list R) : Prop := Forall2 (fun bd v => fst bd <= v <= snd bd) b x.
  (* contract of scipy.optimize.least_squares: opt_res.fun is fun(opt_res.x); opt_res.x lies within the bounds *)
  Hypothesis lsq_contract : forall f x0 b x fv, lsq f x0 b = Some (x, fv) -> fv = f x /\ in_bounds b x.

  (* whenever fit succeeds: the parameters it assigns respect the bounds in force and the error it reports is the
     root-mean-square deviation between the fitted model and the data, divided by the range, at THOSE parameters *)
  Theorem fit_reports_rms : forall (data : list (R * R)) x0 b x fv range,
    fit RNum calc_loading M lsq data x0 b = Ok (x, fv) ->
    in_bounds b x
    /\ fv = resid RNum calc_loading M x data
    /\ rmse fv (length data) range
       = sqrt (sumsqR (map (fun d => if calc_loading then M x (fst d) - snd d else M x (snd d) - fst d) data) / INR (length data)) / range.
  Proof.
    intros data x0 b x fv range H. unfold fit in H.
    destruct (lsq _ x0 b) as [[x' f']|] eqn:E; [|discriminate]. inversion H; subst.
    destruct (lsq_contract _ _ _ _ _ E) as [Hf Hb]. split; [assumption|]. split; [assumption|].
    rewrite Hf. reflexivity.
  Qed.

  (* only the requested branch is used: the outcome is a function of the selected rows *)
  Theorem init_fit_uses_branch_only : forall des rows rows' x0 b,
    select RNum des rows = select RNum des rows' ->
    init_fit RNum calc_loading M lsq des rows x0 b = init_fit RNum calc_loading M lsq des rows' x0 b.
  Proof. intros des rows rows' x0 b H. unfold init_fit. rewrite H. reflexivity. Qed.
  Theorem select_ignores_other_branch : forall des (rows : list (R * R * bool)) r,
    snd r = negb des -> forall pre post, select RNum des (pre ++ r :: post) = select RNum des (pre ++ post).
  Proof.
    intros des rows r Hr pre post. unfold select. rewrite !filter_app. simpl.
    rewrite Hr. destruct des; simpl; reflexivity.
  Qed.
End WithLsq.

(* ---------------------------------------------------------------- exact data *)
(* data generated from the model at parameters xs: the cost at xs is 0, no parameter vector does better, and any
   parameter vector with cost 0 (in particular any global minimiser) reproduces the data at every sampled pressure *)
Theorem exact_data_zero_is_global_min_R : forall (M : list R -> R -> R) (xs : list R) (ps : list R),
  let data := map (fun p => (p, M xs p)) ps in
  sumsqR (resid RNum true M xs data) = 0
  /\ (forall x, 0 <= sumsqR (resid RNum true M x data))
  /\ (forall x, sumsqR (resid RNum true M x data) = 0 -> Forall (fun p => M x p = M xs p) ps).
Proof.
  intros M xs ps data. split; [|split].
  - unfold data. induction ps; simpl; [reflexivity|]. rewrite IHps. lra.
  - intros x. apply sumsqR_nonneg.
  - intros x H. apply sumsqR_zero in H. unfold data in H. clear data. induction ps; [constructor|].
    simpl in H. inversion H; subst. constructor; [lra|apply IHps; assumption].
Qed.

(* ---------------------------------------------------------------- best of several candidate models *)
Definition is_first_min (l : list R) (k : nat) : Prop :=
  (k < length l)%nat /\ (forall j, (j < length l)%nat -> nth k l 0 <= nth j l 0) /\ (forall j, (j < k)%nat -> nth k l 0 < nth j l 0).
Lemma argmin_from_spec : forall suf pre besti best i,
  best = nth besti pre 0 -> i = length pre ->
  is_first_min pre besti -> is_first_min (pre ++ suf) (argmin_from RNum best besti i suf).
Proof.
  induction suf as [|a suf IH]; intros pre besti best i Eb Ei H.
  - simpl. rewrite app_nil_r. assumption.
  - simpl. change (nltb (n:=RNum) a best) with (Rltb a best).
    destruct H as (Hk & Hmin & Hfirst).
    replace (pre ++ a :: suf) with ((pre ++ [a]) ++ suf) by (rewrite <- app_assoc; reflexivity).
    assert (La : length (pre ++ [a]) = S (length pre)) by (rewrite app_length; simpl; lia).
    assert (Ea : nth (length pre) (pre ++ [a]) 0 = a) by (rewrite app_nth2, Nat.sub_diag by lia; reflexivity).
    unfold Rltb. destruct (Rlt_dec a best) as [Lt|Ge].
    + apply IH; [subst i; symmetry; exact Ea | lia |].
      subst i best. split; [lia|]. rewrite Ea. split.
      * intros j Hj. destruct (Nat.eq_dec j (length pre)) as [->|Ne]; [rewrite Ea; lra|].
        rewrite app_nth1 by lia. specialize (Hmin j ltac:(lia)). lra.
      * intros j Hj. rewrite app_nth1 by lia. specialize (Hmin j Hj). lra.
    + apply IH; [subst best; symmetry; apply app_nth1; assumption | lia |].
      subst i best. split; [lia|]. rewrite app_nth1 by assumption. split.
      * intros j Hj. destruct (Nat.eq_dec j (length pre)) as [->|Ne].
        -- rewrite Ea. lra.
        -- rewrite app_nth1 by lia. apply Hmin. lia.
      * intros j Hj. rewrite app_nth1 by lia. apply Hfirst. assumption.
Qed.
(* errors.index(min(errors)): the first position of the smallest reported error *)
Theorem argmin_first_spec : forall l k, argmin_first RNum l = Some k -> is_first_min l k.
Proof.
  intros [|a r] k H; [discriminate|]. simpl in H. inversion H; subst.
  change (a :: r) with ([a] ++ r).
  apply argmin_from_spec; [reflexivity|reflexivity|]. split; [simpl; lia|]. split.
  - intros j Hj. simpl in Hj. assert (j = 0)%nat by lia. subst. lra.
  - intros j Hj. lia.
Qed.
Theorem argmin_first_total : forall l, l <> [] -> exists k, argmin_first RNum l = Some k.
Proof. intros [|a r] H; [congruence|]. eexists. reflexivity. Qed.

(* the attempts that converged, with their position in the candidate list *)
Lemma converged_spec : forall att i p e, In (p, e) (converged RNum i att) <-> (i <= p)%nat /\ nth_error att (p - i) = Some (Some e).
Proof.
  induction att as [|[a|] att IH]; intros i p e; simpl.
  - split; [intros []|]. intros [_ H]. destruct (p - i)%nat; discriminate.
  - split.
    + intros [Heq|Hin]; [inversion Heq; subst; split; [lia|]; rewrite Nat.sub_diag; reflexivity|].
      apply IH in Hin. destruct Hin as [Hle Hn]. split; [lia|]. replace (p - i)%nat with (S (p - S i)) by lia. exact Hn.
    + intros [Hle Hn]. destruct (Nat.eq_dec p i) as [->|Ne].
      * rewrite Nat.sub_diag in Hn. simpl in Hn. inversion Hn; subst. left. reflexivity.
      * right. apply IH. split; [lia|]. replace (p - i)%nat with (S (p - S i)) in Hn by lia. exact Hn.
  - rewrite IH. split.
    + intros [Hle Hn]. split; [lia|]. replace (p - i)%nat with (S (p - S i)) by lia. exact Hn.
    + intros [Hle Hn]. destruct (Nat.eq_dec p i) as [->|Ne]; [rewrite Nat.sub_diag in Hn; discriminate|].
      split; [lia|]. replace (p - i)%nat with (S (p - S i)) in Hn by lia. exact Hn.
Qed.
Definition d0 : nat * R := (0%nat, 0%R).
Lemma converged_sorted : forall att i j1 j2 c, c = converged RNum i att -> (j1 < j2)%nat -> (j2 < length c)%nat ->
  (fst (nth j1 c d0) < fst (nth j2 c d0))%nat.
Proof.
  induction att as [|[a|] att IH]; intros i j1 j2 c Hc Hlt Hlen; simpl in Hc; subst c.
  - simpl in Hlen. lia.
  - destruct j2 as [|j2]; [lia|]. simpl in Hlen. destruct j1 as [|j1].
    + simpl.
      match goal with |- context [fst ?T] => lazymatch T with nth j2 ?L _ =>
        assert (H : In T L) by (apply nth_In; apply Nat.succ_lt_mono; exact Hlen);
        destruct T as [p e] end end.
      apply converged_spec in H. destruct H as [H _]. simpl. lia.
    + simpl. eapply IH; [reflexivity|lia|apply Nat.succ_lt_mono; exact Hlen].
  - eapply IH; [reflexivity|assumption|assumption].
Qed.
(* ModelIsotherm.guess: the candidate returned is one that converged, no converged candidate has a smaller reported error,
   and among equal errors it is the earliest in the list *)
Theorem best_of_is_argmin : forall (att : list (option R)) (p : nat),
  best_of RNum att = Ok p ->
  exists e, nth_error att p = Some (Some e)
    /\ (forall q e', nth_error att q = Some (Some e') -> e <= e')
    /\ (forall q e', (q < p)%nat -> nth_error att q = Some (Some e') -> e < e').
Proof.
  intros att p H. unfold best_of in H. set (c := converged RNum 0 att) in *.
  destruct (argmin_first RNum (map snd c)) as [k|] eqn:Ek; [|discriminate]. inversion H; subst p. clear H.
  apply argmin_first_spec in Ek. destruct Ek as (Hk & Hmin & Hfirst). rewrite map_length in Hk.
  assert (Hnth : forall j, (j < length c)%nat -> nth j (map snd c) 0 = snd (nth j c d0)).
  { intros j Hj. rewrite (nth_indep _ 0 (snd d0)) by (rewrite map_length; assumption). apply map_nth. }
  assert (Hfst : forall j, (j < length c)%nat -> nth j (map fst c) 0%nat = fst (nth j c d0)).
  { intros j Hj. change 0%nat with (fst d0) at 1. apply map_nth. }
  rewrite Hfst by assumption.
  assert (Hin : In (nth k c d0) c) by (apply nth_In; assumption).
  destruct (nth k c d0) as [p e] eqn:Enk. exists e. simpl.
  pose proof (proj1 (converged_spec att 0 p e) Hin) as [_ Hp]. rewrite Nat.sub_0_r in Hp. split; [assumption|].
  assert (Hq : forall q e', nth_error att q = Some (Some e') -> exists j, (j < length c)%nat /\ nth j c d0 = (q, e')).
  { intros q e' Hq. assert (In (q, e') c) by (apply converged_spec; split; [lia|rewrite Nat.sub_0_r; assumption]).
    destruct (In_nth _ _ d0 H) as (j & Hj & Ej). exists j. split; assumption. }
  split.
  - intros q e' Hqe. destruct (Hq q e' Hqe) as (j & Hj & Ej).
    specialize (Hmin j ltac:(rewrite map_length; assumption)). rewrite !Hnth in Hmin by assumption. rewrite Enk, Ej in Hmin. exact Hmin.
  - intros q e' Hlt Hqe. destruct (Hq q e' Hqe) as (j & Hj & Ej).
    assert (j < k)%nat.
    { destruct (Nat.lt_ge_cases j k) as [|Ge]; [assumption|exfalso].
      destruct (Nat.eq_dec j k) as [->|Ne]; [rewrite Enk in Ej; inversion Ej; lia|].
      pose proof (converged_sorted att 0 k j c eq_refl ltac:(lia) Hj) as S. rewrite Enk, Ej in S. simpl in S. lia. }
    specialize (Hfirst j H). rewrite !Hnth in Hfirst by lia. rewrite Enk, Ej in Hfirst. exact Hfirst.
Qed.

(* ---------------------------------------------------------------- unit changes: the Langmuir family *)
(* cost of parameters x on data, for a model with loading M x p *)
Definition sse (M : list R -> R -> R) (x : list R) (data : list (R * R)) : R := sumsqR (resid RNum true M x data).
Definition langmuirM (x : list R) (p : R) : R := let K := nth 0 x 0 in let nm := nth 1 x 0 in nm * (K * p) / (1 + K * p).
Definition henryM (x : list R) (p : R) : R := nth 0 x 0 * p.
Definition is_minimiser (M : list R -> R -> R) (data : list (R * R)) (x : list R) : Prop := forall y, length y = length x -> sse M x data <= sse M y data.

(* loading expressed in another unit (all loadings times c): costs scale by c^2 under n_m -> c n_m *)
Lemma langmuir_loading_scale : forall c K nm data,
  sse langmuirM [K; c * nm] (map (fun d => (fst d, c * snd d)) data) = c * c * sse langmuirM [K; nm] data.
Proof.
  intros c K nm data. unfold sse. induction data as [|[p l] data IH]; simpl; [lra|].
  simpl in IH. rewrite IH. unfold langmuirM; simpl. unfold Rdiv. ring.
Qed.
(* pressure expressed in another unit (all pressures times c, c <> 0): costs are unchanged under K -> K / c *)
Lemma langmuir_pressure_scale : forall c K nm data, c <> 0 ->
  sse langmuirM [K / c; nm] (map (fun d => (c * fst d, snd d)) data) = sse langmuirM [K; nm] data.
Proof.
  intros c K nm data Hc. unfold sse. induction data as [|[p l] data IH]; simpl; [lra|].
  simpl in IH. rewrite IH. unfold langmuirM; simpl.
  replace (K / c * (c * p)) with (K * p) by (field; assumption). reflexivity.
Qed.
Lemma two_params (y : list R) : length y = 2%nat -> exists a b, y = [a; b].
Proof. destruct y as [|a [|b [|? ?]]]; simpl; intros; try discriminate. eauto. Qed.
(* hence minimisers correspond: the fitted curve changes only by the unit change *)
Theorem langmuir_unit_covariance : forall c K nm data, 0 < c ->
  is_minimiser langmuirM data [K; nm] ->
  is_minimiser langmuirM (map (fun d => (fst d, c * snd d)) data) [K; c * nm]
  /\ is_minimiser langmuirM (map (fun d => (c * fst d, snd d)) data) [K / c; nm]
  /\ (forall p, langmuirM [K; c * nm] p = c * langmuirM [K; nm] p)
  /\ (forall p, langmuirM [K / c; nm] (c * p) = langmuirM [K; nm] p).
Proof.
  intros c K nm data Hc Hmin. split; [|split; [|split]].
  - intros y Ly. destruct (two_params y Ly) as (a & b & ->).
    replace b with (c * (b / c)) by (field; lra). rewrite !langmuir_loading_scale.
    apply Rmult_le_compat_l; [nra|]. apply Hmin. reflexivity.
  - intros y Ly. destruct (two_params y Ly) as (a & b & ->).
    replace a with ((a * c) / c) by (field; lra). rewrite !langmuir_pressure_scale by lra. apply Hmin. reflexivity.
  - intros p. unfold langmuirM; simpl. unfold Rdiv. ring.
  - intros p. unfold langmuirM; simpl. replace (K / c * (c * p)) with (K * p) by (field; lra). reflexivity.
Qed.
Lemma henry_loading_scale c k data : sse henryM [c * k] (map (fun d => (fst d, c * snd d)) data) = c * c * sse henryM [k] data.
Proof. unfold sse. induction data as [|[p l] data IH]; simpl; [lra|]. simpl in IH. rewrite IH. unfold henryM; simpl. ring. Qed.
Lemma henry_pressure_scale c k data : c <> 0 -> sse henryM [k / c] (map (fun d => (c * fst d, snd d)) data) = sse henryM [k] data.
Proof.
  intros Hc. unfold sse. induction data as [|[p l] data IH]; simpl; [lra|]. simpl in IH. rewrite IH. unfold henryM; simpl.
  replace (k / c * (c * p)) with (k * p) by (field; assumption). reflexivity.
Qed.
Theorem henry_unit_covariance : forall c K data, 0 < c ->
  is_minimiser henryM data [K] ->
  is_minimiser henryM (map (fun d => (fst d, c * snd d)) data) [c * K]
  /\ is_minimiser henryM (map (fun d => (c * fst d, snd d)) data) [K / c].
Proof.
  intros c K data Hc Hmin.
  pose proof (fun k => henry_loading_scale c k data) as L1.
  pose proof (fun k => henry_pressure_scale c k data ltac:(lra)) as L2.
  split.
  - intros y Ly. destruct y as [|a [|? ?]]; try discriminate. replace a with (c * (a / c)) by (field; lra). rewrite !L1.
    apply Rmult_le_compat_l; [nra|]. apply Hmin. reflexivity.
  - intros y Ly. destruct y as [|a [|? ?]]; try discriminate. replace a with ((a * c) / c) by (field; lra). rewrite !L2.
    apply Hmin. reflexivity.
Qed.

(* ================================================================ bounds and guesses are applied BY NAME *)
From Coq Require String.
From Coq Require Import Permutation.
Notation string := String.string.
Lemma assoc_perm {A} (k : string) : forall (d d' : list (string * A)),
  Permutation d d' -> NoDup (map fst d) -> assoc k d = assoc k d'.
Proof.
  intros d d' P. induction P as [|[k1 v1] l l' P IH|[k1 v1] [k2 v2] l|l l' l'' P1 IH1 P2 IH2]; intros ND.
  - reflexivity.
  - simpl. destruct (String.eqb k k1); [reflexivity|]. apply IH. simpl in ND. inversion ND; assumption.
  - simpl in *. destruct (String.eqb k k2) eqn:E2; destruct (String.eqb k k1) eqn:E1; try reflexivity.
    apply String.eqb_eq in E1. apply String.eqb_eq in E2. subst. inversion ND as [|? ? Hn _]. exfalso. apply Hn. left. reflexivity.
  - rewrite IH1 by assumption. apply IH2.
    eapply Permutation_NoDup; [apply Permutation_map; exact P1|assumption].
Qed.
(* the vector handed to the optimiser at position i is the entry of param_names[i] *)
Theorem by_name_spec {A} : forall (names : list string) (d : list (string * A)) v, by_name names d = Ok v ->
  length v = length names
  /\ forall i n, nth_error names i = Some n -> exists b, assoc n d = Some b /\ nth_error v i = Some b.
Proof.
  induction names as [|n names IH]; intros d v H; simpl in H.
  - inversion H; subst. split; [reflexivity|]. intros [|i] m Hm; discriminate.
  - destruct (assoc n d) as [b|] eqn:E; [|discriminate].
    destruct (by_name names d) as [br|e] eqn:Eb; simpl in H; [|discriminate]. inversion H; subst.
    destruct (IH d br Eb) as [L S]. split; [simpl; congruence|].
    intros [|i] m Hm; simpl in *.
    + inversion Hm; subst. exists b. split; [assumption|reflexivity].
    + apply S. assumption.
Qed.
(* ... for ANY order in which the user wrote the dictionary *)
Theorem by_name_perm {A} : forall (names : list string) (d d' : list (string * A)),
  Permutation d d' -> NoDup (map fst d) -> by_name names d = by_name names d'.
Proof.
  induction names as [|n names IH]; intros d d' P ND; simpl; [reflexivity|].
  rewrite (assoc_perm n d d' P ND). rewrite (IH d d' P ND). reflexivity.
Qed.
Lemma by_name_skip {A} : forall (names : list string) n (b : A) d, ~ In n names -> by_name names ((n, b) :: d) = by_name names d.
Proof.
  induction names as [|m names IH]; intros n b d Hn; simpl; [reflexivity|].
  destruct (String.eqb m n) eqn:E; [apply String.eqb_eq in E; subst; exfalso; apply Hn; left; reflexivity|].
  rewrite IH by (intros Hi; apply Hn; right; assumption). reflexivity.
Qed.
(* the default dictionary dict(zip(param_names, param_default_bounds)) gives back the default bounds, position by position *)
Theorem by_name_defaults {A} : forall (names : list string) (defaults : list A),
  NoDup names -> length defaults = length names -> by_name names (combine names defaults) = Ok defaults.
Proof.
  induction names as [|n names IH]; intros [|b ds] ND L; simpl in *; try discriminate; [reflexivity|].
  rewrite String.eqb_refl. inversion ND; subst. rewrite by_name_skip by assumption. rewrite IH by (auto; congruence). reflexivity.
Qed.
Lemma Forall2_nth_error {A B} (P : A -> B -> Prop) : forall l1 l2 i a, Forall2 P l1 l2 -> nth_error l1 i = Some a ->
  exists b, nth_error l2 i = Some b /\ P a b.
Proof.
  intros l1 l2 i a F. revert i. induction F as [|x y l1 l2 Pxy F IH]; intros [|i] H; simpl in *; try discriminate.
  - inversion H; subst. exists y. split; [reflexivity|assumption].
  - apply IH. assumption.
Qed.

Lemma F2_length {A B} (P : A -> B -> Prop) l1 l2 : Forall2 P l1 l2 -> List.length l1 = List.length l2.
Proof. induction 1; simpl; congruence. Qed.

Section NamedFit.
  Variable calc_loading : bool.
  Variable M : list R -> R -> R.
  Variable lsq : (list R -> list R) -> list R -> list (R * R) -> option (list R * list R).
  Hypothesis lsq_contract : forall f x0 b x fv, lsq f x0 b = Some (x, fv) -> fv = f x /\ in_bounds b x.

  (* whenever the fit succeeds, the fitted value of EVERY parameter lies within the bounds the dictionary in force gives for that
     parameter's NAME *)
  Theorem fit_named_respects_named_bounds : forall names d guess data x fv,
    fit_named RNum calc_loading M lsq names d guess data = Ok (x, fv) ->
    length x = length names
    /\ forall i n, nth_error names i = Some n ->
       exists b v, assoc n d = Some b /\ nth_error x i = Some v /\ fst b <= v <= snd b.
  Proof.
    intros names d guess data x fv H. unfold fit_named in H.
    match type of H with context [@by_name ?T names guess] => destruct (@by_name T names guess) as [x0|e] eqn:Eg end; simpl in H; [|discriminate].
    match type of H with context [@by_name ?T names d] => destruct (@by_name T names d) as [bs|e] eqn:Eb end; simpl in H; [|discriminate].
    destruct (fit_reports_rms calc_loading M lsq lsq_contract data x0 bs x fv 1 H) as [IB _].
    destruct (by_name_spec names d bs Eb) as [L S].
    split.
    - unfold in_bounds in IB. transitivity (List.length bs); [symmetry; exact (F2_length _ _ _ IB) | exact L].
    - intros i n Hn. destruct (S i n Hn) as (b & Ha & Hb).
      destruct (Forall2_nth_error _ bs x i b IB Hb) as (v & Hv & Hin). exists b, v. auto.
  Qed.
  (* the outcome does not depend on the order in which the user wrote the bounds / guess dictionaries *)
  Theorem fit_named_key_order_irrelevant : forall names d d' guess guess' data,
    Permutation d d' -> NoDup (map fst d) -> Permutation guess guess' -> NoDup (map fst guess) ->
    fit_named RNum calc_loading M lsq names d guess data = fit_named RNum calc_loading M lsq names d' guess' data.
  Proof.
    intros names d d' g g' data Pd Nd Pg Ng. unfold fit_named.
    rewrite (by_name_perm names g g' Pg Ng). rewrite (by_name_perm names d d' Pd Nd). reflexivity.
  Qed.
End NamedFit.

(* a user dictionary is the dictionary in force (every key checked against the parameter names); without one the defaults apply *)
Theorem bounds_in_force_spec : forall names defaults user d,
  bounds_in_force RNum names defaults user = Ok d ->
  (user = [] /\ d = combine names defaults) \/ (user <> [] /\ d = user /\ Forall (fun kv => In (fst kv) names) user).
Proof.
  intros names defaults user d H. unfold bounds_in_force in H. destruct user as [|kv user]; [left; inversion H; auto|].
  right. destruct (forallb _ (kv :: user)) eqn:E; [|discriminate]. inversion H; subst. split; [discriminate|]. split; [reflexivity|].
  rewrite forallb_forall in E. apply Forall_forall. intros x Hx. specialize (E x Hx). apply existsb_exists in E.
  destruct E as (n & Hn & En). apply String.eqb_eq in En. subst. assumption.
Qed.
(* initial_guess_bounds over a dictionary: every value ends inside the bounds of its own name, keys and order unchanged *)
Theorem clamp_named_spec : forall d guess out, clamp_named RNum d guess = Ok out ->
  map fst out = map fst guess
  /\ Forall2 (fun g o => exists b, assoc (fst g) d = Some b /\ snd o = clamp RNum (fst b) (snd b) (snd g)
                          /\ (fst b <= snd b -> fst b <= snd o <= snd b)) guess out.
Proof.
  intros d. induction guess as [|[k v] guess IH]; intros out H; simpl in H.
  - inversion H; subst. split; [reflexivity|constructor].
  - match type of H with context [@assoc ?T k d] => destruct (@assoc T k d) as [b|] eqn:E end; [|discriminate].
    match type of H with bind ?X _ = _ => destruct X as [gr|e] eqn:Eg end; simpl in H; [|discriminate].
    inversion H; subst. destruct (IH gr eq_refl) as [K F]. split; [simpl; f_equal; exact K|].
    constructor; [|assumption]. exists b. simpl. split; [assumption|]. split; [reflexivity|]. apply clamp_in_bounds_R.
Qed.

(* ================================================================ the range that normalises the error *)
Lemma maxl_spec : forall l a, let m := maxl RNum a l in (m = a \/ In m l) /\ a <= m /\ Forall (fun v => v <= m) l.
Proof.
  induction l as [|b l IH]; intros a; simpl.
  - split; [left; reflexivity|]. split; [lra|constructor].
  - change (nltb (n:=RNum) a b) with (Rltb a b). unfold Rltb. destruct (Rlt_dec a b) as [Lt|Ge].
    + destruct (IH b) as (Hin & Hle & Hall). split; [destruct Hin; auto|]. split; [lra|]. constructor; assumption.
    + destruct (IH a) as (Hin & Hle & Hall). split; [destruct Hin; auto|]. split; [lra|]. constructor; [lra|assumption].
Qed.
Lemma minl_spec : forall l a, let m := minl RNum a l in (m = a \/ In m l) /\ m <= a /\ Forall (fun v => m <= v) l.
Proof.
  induction l as [|b l IH]; intros a; simpl.
  - split; [left; reflexivity|]. split; [lra|constructor].
  - change (nltb (n:=RNum) b a) with (Rltb b a). unfold Rltb. destruct (Rlt_dec b a) as [Lt|Ge].
    + destruct (IH b) as (Hin & Hle & Hall). split; [destruct Hin; auto|]. split; [lra|]. constructor; assumption.
    + destruct (IH a) as (Hin & Hle & Hall). split; [destruct Hin; auto|]. split; [lra|]. constructor; [lra|assumption].
Qed.
(* (min(x), max(x)): the range is the largest minus the smallest value of the fitted rows *)
Theorem range_of_is_max_minus_min : forall l, l <> [] ->
  exists mx mn, In mx l /\ In mn l /\ (forall v, In v l -> mn <= v <= mx) /\ range_of RNum l = mx - mn.
Proof.
  intros [|a l] H; [congruence|]. clear H. simpl.
  destruct (maxl_spec l a) as (Hi & Ha & Hall). destruct (minl_spec l a) as (Hi' & Ha' & Hall').
  exists (maxl RNum a l), (minl RNum a l).
  split; [destruct Hi as [->|]; [left; reflexivity|right; assumption]|].
  split; [destruct Hi' as [->|]; [left; reflexivity|right; assumption]|].
  split; [|reflexivity].
  intros v [<-|Hv]; [lra|]. rewrite Forall_forall in Hall, Hall'. specialize (Hall v Hv). specialize (Hall' v Hv). simpl in *. lra.
Qed.
Theorem range_of_nonneg : forall l, 0 <= range_of RNum l.
Proof.
  intros [|a l]; [unfold range_of; rewrite z0_R; lra|].
  destruct (range_of_is_max_minus_min (a :: l) ltac:(discriminate)) as (mx & mn & Hx & Hn & Hb & ->).
  specialize (Hb mx Hx). lra.
Qed.
Theorem range_of_pos : forall l a b, In a l -> In b l -> a < b -> 0 < range_of RNum l.
Proof.
  intros l a b Ha Hb Lt. destruct l as [|c l]; [destruct Ha|].
  destruct (range_of_is_max_minus_min (c :: l) ltac:(discriminate)) as (mx & mn & Hx & Hn & Hbd & ->).
  pose proof (Hbd a Ha). pose proof (Hbd b Hb). lra.
Qed.
(* ... whatever the order of the rows (increasing, decreasing = a desorption branch, unsorted) *)
Theorem range_of_perm : forall l l', Permutation l l' -> range_of RNum l = range_of RNum l'.
Proof.
  intros l l' P. destruct l as [|a l].
  - apply Permutation_nil in P. subst. reflexivity.
  - assert (Hl' : l' <> []) by (intros ->; apply Permutation_sym in P; apply Permutation_nil in P; discriminate).
    destruct (range_of_is_max_minus_min (a :: l) ltac:(discriminate)) as (mx & mn & Hx & Hn & Hb & ->).
    destruct (range_of_is_max_minus_min l' Hl') as (mx' & mn' & Hx' & Hn' & Hb' & ->).
    assert (I1 : forall v, In v (a :: l) -> In v l') by (intros v; apply Permutation_in; assumption).
    assert (I2 : forall v, In v l' -> In v (a :: l)) by (intros v; apply Permutation_in; apply Permutation_sym; assumption).
    pose proof (Hb mx' (I2 _ Hx')). pose proof (Hb mn' (I2 _ Hn')). pose proof (Hb' mx (I1 _ Hx)). pose proof (Hb' mn (I1 _ Hn)). lra.
Qed.
Lemma sumsqR_perm l l' : Permutation l l' -> sumsqR l = sumsqR l'.
Proof. induction 1; simpl; lra. Qed.
(* the reported error is non-negative (positive range) and does not depend on the order of the fitted rows *)
Theorem rmse_nonneg : forall f n range, 0 < range -> 0 <= rmse f n range.
Proof.
  intros f n range H. unfold rmse. apply Rmult_le_pos; [apply sqrt_pos|]. left. apply Rinv_0_lt_compat. assumption.
Qed.
Lemma rmse_sq_congr f f' n n' r r' : sumsqR f = sumsqR f' -> n = n' -> r = r' -> rmse_sq RNum f n r = rmse_sq RNum f' n' r'.
Proof. intros H -> ->. unfold rmse_sq, mse. simpl. rewrite !sumsq_R, H. reflexivity. Qed.
Theorem reported_rmse_order_independent : forall calc_loading (data data' : list (R * R)) fv fv',
  Permutation data data' -> Permutation fv fv' ->
  reported_rmse_sq RNum calc_loading data fv = reported_rmse_sq RNum calc_loading data' fv'.
Proof.
  intros cl data data' fv fv' Pd Pf. unfold reported_rmse_sq, model_range.
  apply rmse_sq_congr; [apply sumsqR_perm; assumption | apply Permutation_length; assumption | apply range_of_perm, Permutation_map; assumption].
Qed.
(* the executed quantity is the square of the documented error: sqrt(sum r^2 / N) / (max - min) *)
Theorem reported_rmse_sq_is_documented : forall calc_loading (data : list (R * R)) fv,
  data <> [] -> 0 < model_range RNum calc_loading data ->
  reported_rmse_sq RNum calc_loading data fv
  = rmse fv (length data) (model_range RNum calc_loading data) * rmse fv (length data) (model_range RNum calc_loading data)
  /\ 0 <= rmse fv (length data) (model_range RNum calc_loading data).
Proof.
  intros cl data fv Hd Hr. split; [|apply rmse_nonneg; assumption].
  unfold reported_rmse_sq. apply rmse_sq_is_square; [destruct data; [congruence|simpl; lia]|lra].
Qed.
