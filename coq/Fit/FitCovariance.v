(* C12 - unit changes and least-squares minimisers, for the GENERATED model formulas (Gen/FormulasGen.v, translated from
   /repo/src/pygaps/modelling/*.py on every run).  A change of loading unit multiplies every loading by c > 0, a change of pressure unit
   every pressure; for each family a re-scaling of the parameter vector (entry-wise factors fs) absorbs it:
       M (scale fs y) p = c * M y p          resp.          M (scale fs y) (c * p) = M y p
   Generic theorems: such a re-scaling maps constrained least-squares minimisers to minimisers (the constraint set is transported
   along), so the fitted curve changes only by the unit change.  The optimiser itself is not modelled. *)
From Coq Require Import Reals Lra Lia List.
From PG Require Import Lib.Num Lib.Py Fit.FitLogic Fit.FitTheorems Models.PyReal Gen.FormulasGen.
Import ListNotations.
Open Scope R_scope.

Definition scale (fs x : list R) : list R := map (fun fv => fst fv * snd fv) (combine fs x).
Lemma scale_length : forall fs x, length x = length fs -> length (scale fs x) = length fs.
Proof. intros fs x L. unfold scale. rewrite map_length, combine_length, L. apply Nat.min_id. Qed.
Lemma scale_inv : forall fs y, Forall (fun f => f <> 0) fs -> length y = length fs -> scale fs (scale (map Rinv fs) y) = y.
Proof.
  induction fs as [|f fs IH]; intros [|v y] H L; unfold scale in *; simpl in *; try discriminate; try reflexivity.
  inversion H; subst. f_equal; [field; assumption|]. apply IH; [assumption|congruence].
Qed.
Lemma scale_inv' : forall fs y, Forall (fun f => f <> 0) fs -> length y = length fs -> scale (map Rinv fs) (scale fs y) = y.
Proof.
  induction fs as [|f fs IH]; intros [|v y] H L; unfold scale in *; simpl in *; try discriminate; try reflexivity.
  inversion H; subst. f_equal; [field; assumption|]. apply IH; [assumption|congruence].
Qed.
(* the usual bounds 0 <= v (upper bound +inf) are invariant under positive factors *)
Lemma nonneg_scale_invariant : forall fs z, Forall (fun f => 0 < f) fs -> length z = length fs ->
  (Forall (fun v => 0 <= v) (scale (map Rinv fs) z) <-> Forall (fun v => 0 <= v) z).
Proof.
  induction fs as [|f fs IH]; intros [|v z] H L; unfold scale in *; simpl in *; try discriminate; try tauto.
  inversion H; subst. specialize (IH z H3 ltac:(congruence)). assert (0 < / f) by (apply Rinv_0_lt_compat; assumption).
  split; intros F; inversion F; subst; constructor; try (apply IH; assumption).
  - apply Rmult_le_reg_l with (/ f); [assumption|]. lra.
  - apply Rmult_le_pos; lra.
Qed.

(* least-squares minimiser among the parameter vectors allowed by the bounds in force *)
Definition is_minimiser_in (B : list R -> Prop) (M : list R -> R -> R) (data : list (R * R)) (x : list R) : Prop :=
  B x /\ forall y, length y = length x -> B y -> sse M x data <= sse M y data.

Section Generic.
  Variable M : list R -> R -> R.
  Variable fs : list R.
  Variable c : R.
  Hypothesis c_pos : 0 < c.
  Hypothesis fs_nz : Forall (fun f => f <> 0) fs.

  Lemma sse_loading_scaled : (forall y p, length y = length fs -> M (scale fs y) p = c * M y p) ->
    forall y data, length y = length fs -> sse M (scale fs y) (map (fun d => (fst d, c * snd d)) data) = c * c * sse M y data.
  Proof.
    intros HM y data Ly. unfold sse. induction data as [|[p l] data IH]; simpl; [lra|].
    simpl in IH. rewrite IH. rewrite HM by assumption. ring.
  Qed.
  Lemma sse_pressure_scaled : (forall y p, length y = length fs -> M (scale fs y) (c * p) = M y p) ->
    forall y data, length y = length fs -> sse M (scale fs y) (map (fun d => (c * fst d, snd d)) data) = sse M y data.
  Proof.
    intros HM y data Ly. unfold sse. induction data as [|[p l] data IH]; simpl; [lra|].
    simpl in IH. rewrite IH. rewrite HM by assumption. reflexivity.
  Qed.

  (* loading unit: every loading times c *)
  Theorem loading_unit_maps_minimisers : (forall y p, length y = length fs -> M (scale fs y) p = c * M y p) ->
    forall B data x, length x = length fs -> is_minimiser_in B M data x ->
      is_minimiser_in (fun z => B (scale (map Rinv fs) z)) M (map (fun d => (fst d, c * snd d)) data) (scale fs x)
      /\ forall p, M (scale fs x) p = c * M x p.
  Proof.
    intros HM B data x Lx [Bx Hmin]. split; [|intros p; apply HM; assumption]. split.
    - rewrite scale_inv' by assumption. assumption.
    - intros z Lz Bz. rewrite scale_length in Lz by assumption.
      rewrite <- (scale_inv fs z fs_nz Lz).
      assert (Lu : length (scale (map Rinv fs) z) = length fs).
      { rewrite <- (map_length Rinv fs). apply scale_length. rewrite map_length. assumption. }
      rewrite !sse_loading_scaled by assumption.
      apply Rmult_le_compat_l; [nra|]. apply Hmin; [congruence|assumption].
  Qed.
  (* pressure unit: every pressure times c *)
  Theorem pressure_unit_maps_minimisers : (forall y p, length y = length fs -> M (scale fs y) (c * p) = M y p) ->
    forall B data x, length x = length fs -> is_minimiser_in B M data x ->
      is_minimiser_in (fun z => B (scale (map Rinv fs) z)) M (map (fun d => (c * fst d, snd d)) data) (scale fs x)
      /\ forall p, M (scale fs x) (c * p) = M x p.
  Proof.
    intros HM B data x Lx [Bx Hmin]. split; [|intros p; apply HM; assumption]. split.
    - rewrite scale_inv' by assumption. assumption.
    - intros z Lz Bz. rewrite scale_length in Lz by assumption.
      rewrite <- (scale_inv fs z fs_nz Lz).
      assert (Lu : length (scale (map Rinv fs) z) = length fs).
      { rewrite <- (map_length Rinv fs). apply scale_length. rewrite map_length. assumption. }
      rewrite !sse_pressure_scaled by assumption.
      apply Hmin; [congruence|assumption].
  Qed.
End Generic.

(* ---------------------------------------------------------------- the generated formulas as functions of the parameter vector (param_names order) *)
Definition p0 (x : list R) := nth 0 x 0. Definition p1 (x : list R) := nth 1 x 0. Definition p2 (x : list R) := nth 2 x 0.
Definition p3 (x : list R) := nth 3 x 0. Definition p4 (x : list R) := nth 4 x 0. Definition p5 (x : list R) := nth 5 x 0.
Definition M_Henry x p := Henry_loading (p0 x) p.
Definition M_Langmuir x p := Langmuir_loading (p0 x) (p1 x) p.
Definition M_DSLangmuir x p := DSLangmuir_loading (p0 x) (p1 x) (p2 x) (p3 x) p.
Definition M_TSLangmuir x p := TSLangmuir_loading (p0 x) (p1 x) (p2 x) (p3 x) (p4 x) (p5 x) p.
Definition M_BET x p := BET_loading (p0 x) (p1 x) (p2 x) p.
Definition M_GAB x p := GAB_loading (p0 x) (p1 x) (p2 x) p.
Definition M_Quadratic x p := Quadratic_loading (p0 x) (p1 x) (p2 x) p.
Definition M_TemkinApprox x p := TemkinApprox_loading (p0 x) (p1 x) (p2 x) p.
Definition M_Toth x p := Toth_loading (p0 x) (p1 x) (p2 x) p.
Definition M_Freundlich x p := Freundlich_loading (p0 x) (p1 x) p.
Definition M_DR (minus_rt : R) x p := DR_loading minus_rt (p0 x) (p1 x) p.
Definition M_DA (minus_rt : R) x p := DA_loading minus_rt (p0 x) (p1 x) (p2 x) p.

Ltac vec1 y := destruct y as [|?a [|? ?]]; try discriminate.
Ltac vec2 y := destruct y as [|?a [|?b [|? ?]]]; try discriminate.
Ltac vec3 y := destruct y as [|?a [|?b [|?d [|? ?]]]]; try discriminate.
Ltac vec4 y := destruct y as [|?a [|?b [|?d [|?e [|? ?]]]]]; try discriminate.
Ltac vec6 y := destruct y as [|?a [|?b [|?d [|?e [|?f [|?g [|? ?]]]]]]]; try discriminate.
Ltac ev := cbv [scale combine map fst snd p0 p1 p2 p3 p4 p5 nth
                M_Henry M_Langmuir M_DSLangmuir M_TSLangmuir M_BET M_GAB M_Quadratic M_TemkinApprox M_Toth M_Freundlich M_DR M_DA
                Henry_loading Langmuir_loading DSLangmuir_loading TSLangmuir_loading BET_loading GAB_loading Quadratic_loading
                TemkinApprox_loading Toth_loading Freundlich_loading DR_loading DA_loading]; rewrite ?Rmult_1_l.
(* K/c * (c p) = K p inside any context *)
Ltac absorb c := repeat match goal with |- context [/ c * ?k * (c * ?p)] => replace (/ c * k * (c * p)) with (k * p) by (field; lra) end.

(* loading unit *)
Lemma Henry_load c y p : length y = 1%nat -> M_Henry (scale [c] y) p = c * M_Henry y p.
Proof. intros L. vec1 y. ev. ring. Qed.
Lemma Langmuir_load c y p : length y = 2%nat -> M_Langmuir (scale [1; c] y) p = c * M_Langmuir y p.
Proof. intros L. vec2 y. ev. unfold Rdiv. ring. Qed.
Lemma DSLangmuir_load c y p : length y = 4%nat -> M_DSLangmuir (scale [c; 1; c; 1] y) p = c * M_DSLangmuir y p.
Proof. intros L. vec4 y. ev. unfold Rdiv. ring. Qed.
Lemma TSLangmuir_load c y p : length y = 6%nat -> M_TSLangmuir (scale [c; c; c; 1; 1; 1] y) p = c * M_TSLangmuir y p.
Proof. intros L. vec6 y. ev. unfold Rdiv. ring. Qed.
Lemma BET_load c y p : length y = 3%nat -> M_BET (scale [c; 1; 1] y) p = c * M_BET y p.
Proof. intros L. vec3 y. ev. unfold Rdiv. ring. Qed.
Lemma GAB_load c y p : length y = 3%nat -> M_GAB (scale [c; 1; 1] y) p = c * M_GAB y p.
Proof. intros L. vec3 y. ev. unfold Rdiv. ring. Qed.
Lemma Quadratic_load c y p : length y = 3%nat -> M_Quadratic (scale [c; 1; 1] y) p = c * M_Quadratic y p.
Proof. intros L. vec3 y. ev. unfold Rdiv. ring. Qed.
Lemma TemkinApprox_load c y p : length y = 3%nat -> M_TemkinApprox (scale [c; 1; 1] y) p = c * M_TemkinApprox y p.
Proof. intros L. vec3 y. ev. unfold Rdiv. ring. Qed.
Lemma Toth_load c y p : length y = 3%nat -> M_Toth (scale [c; 1; 1] y) p = c * M_Toth y p.
Proof. intros L. vec3 y. ev. unfold Rdiv. ring. Qed.
Lemma Freundlich_load c y p : length y = 2%nat -> M_Freundlich (scale [c; 1] y) p = c * M_Freundlich y p.
Proof. intros L. vec2 y. ev. ring. Qed.
Lemma DR_load rt c y p : length y = 2%nat -> M_DR rt (scale [c; 1] y) p = c * M_DR rt y p.
Proof. intros L. vec2 y. ev. ring. Qed.
Lemma DA_load rt c y p : length y = 3%nat -> M_DA rt (scale [c; 1; 1] y) p = c * M_DA rt y p.
Proof. intros L. vec3 y. ev. ring. Qed.
(* pressure unit *)
Lemma Henry_pres c y p : 0 < c -> length y = 1%nat -> M_Henry (scale [/ c] y) (c * p) = M_Henry y p.
Proof. intros C L. vec1 y. ev. field. lra. Qed.
Lemma Langmuir_pres c y p : 0 < c -> length y = 2%nat -> M_Langmuir (scale [/ c; 1] y) (c * p) = M_Langmuir y p.
Proof. intros C L. vec2 y. ev. absorb c. reflexivity. Qed.
Lemma DSLangmuir_pres c y p : 0 < c -> length y = 4%nat -> M_DSLangmuir (scale [1; / c; 1; / c] y) (c * p) = M_DSLangmuir y p.
Proof. intros C L. vec4 y. ev. absorb c. reflexivity. Qed.
Lemma TSLangmuir_pres c y p : 0 < c -> length y = 6%nat -> M_TSLangmuir (scale [1; 1; 1; / c; / c; / c] y) (c * p) = M_TSLangmuir y p.
Proof. intros C L. vec6 y. ev. absorb c. reflexivity. Qed.
Lemma BET_pres c y p : 0 < c -> length y = 3%nat -> M_BET (scale [1; / c; / c] y) (c * p) = M_BET y p.
Proof. intros C L. vec3 y. ev. absorb c. replace (a * (/ c * b) * (c * p)) with (a * b * p) by (field; lra). reflexivity. Qed.
Lemma GAB_pres c y p : 0 < c -> length y = 3%nat -> M_GAB (scale [1; 1; / c] y) (c * p) = M_GAB y p.
Proof. intros C L. vec3 y. ev. absorb c. reflexivity. Qed.
Lemma Quadratic_pres c y p : 0 < c -> length y = 3%nat -> M_Quadratic (scale [1; / c; / (c * c)] y) (c * p) = M_Quadratic y p.
Proof.
  intros C L. vec3 y. ev. absorb c.
  replace (/ (c * c) * d * (c * p) ^ 2) with (d * p ^ 2) by (field; lra).
  replace ((a * (/ c * b + 2 * (/ (c * c) * d) * (c * p))) * (c * p)) with ((a * (b + 2 * d * p)) * p) by (field; lra).
  reflexivity.
Qed.
Lemma TemkinApprox_pres c y p : 0 < c -> length y = 3%nat -> M_TemkinApprox (scale [1; / c; 1] y) (c * p) = M_TemkinApprox y p.
Proof. intros C L. vec3 y. ev. absorb c. reflexivity. Qed.
Lemma Toth_pres c y p : 0 < c -> length y = 3%nat -> M_Toth (scale [1; / c; 1] y) (c * p) = M_Toth y p.
Proof. intros C L. vec3 y. ev. absorb c. reflexivity. Qed.

(* all of it in one statement (what Props/C12.v exposes) *)
Theorem generated_formulas_absorb_unit_changes : forall c, 0 < c ->
  (forall y p, length y = 1%nat -> M_Henry (scale [c] y) p = c * M_Henry y p)
  /\ (forall y p, length y = 2%nat -> M_Langmuir (scale [1; c] y) p = c * M_Langmuir y p)
  /\ (forall y p, length y = 4%nat -> M_DSLangmuir (scale [c; 1; c; 1] y) p = c * M_DSLangmuir y p)
  /\ (forall y p, length y = 6%nat -> M_TSLangmuir (scale [c; c; c; 1; 1; 1] y) p = c * M_TSLangmuir y p)
  /\ (forall y p, length y = 3%nat -> M_BET (scale [c; 1; 1] y) p = c * M_BET y p)
  /\ (forall y p, length y = 3%nat -> M_GAB (scale [c; 1; 1] y) p = c * M_GAB y p)
  /\ (forall y p, length y = 3%nat -> M_Quadratic (scale [c; 1; 1] y) p = c * M_Quadratic y p)
  /\ (forall y p, length y = 3%nat -> M_TemkinApprox (scale [c; 1; 1] y) p = c * M_TemkinApprox y p)
  /\ (forall y p, length y = 3%nat -> M_Toth (scale [c; 1; 1] y) p = c * M_Toth y p)
  /\ (forall y p, length y = 2%nat -> M_Freundlich (scale [c; 1] y) p = c * M_Freundlich y p)
  /\ (forall rt y p, length y = 2%nat -> M_DR rt (scale [c; 1] y) p = c * M_DR rt y p)
  /\ (forall rt y p, length y = 3%nat -> M_DA rt (scale [c; 1; 1] y) p = c * M_DA rt y p)
  /\ (forall y p, length y = 1%nat -> M_Henry (scale [/ c] y) (c * p) = M_Henry y p)
  /\ (forall y p, length y = 2%nat -> M_Langmuir (scale [/ c; 1] y) (c * p) = M_Langmuir y p)
  /\ (forall y p, length y = 4%nat -> M_DSLangmuir (scale [1; / c; 1; / c] y) (c * p) = M_DSLangmuir y p)
  /\ (forall y p, length y = 6%nat -> M_TSLangmuir (scale [1; 1; 1; / c; / c; / c] y) (c * p) = M_TSLangmuir y p)
  /\ (forall y p, length y = 3%nat -> M_BET (scale [1; / c; / c] y) (c * p) = M_BET y p)
  /\ (forall y p, length y = 3%nat -> M_GAB (scale [1; 1; / c] y) (c * p) = M_GAB y p)
  /\ (forall y p, length y = 3%nat -> M_Quadratic (scale [1; / c; / (c * c)] y) (c * p) = M_Quadratic y p)
  /\ (forall y p, length y = 3%nat -> M_TemkinApprox (scale [1; / c; 1] y) (c * p) = M_TemkinApprox y p)
  /\ (forall y p, length y = 3%nat -> M_Toth (scale [1; / c; 1] y) (c * p) = M_Toth y p).
Proof.
  intros c C. repeat split; intros.
  - apply Henry_load; assumption. - apply Langmuir_load; assumption. - apply DSLangmuir_load; assumption.
  - apply TSLangmuir_load; assumption. - apply BET_load; assumption. - apply GAB_load; assumption.
  - apply Quadratic_load; assumption. - apply TemkinApprox_load; assumption. - apply Toth_load; assumption.
  - apply Freundlich_load; assumption. - apply DR_load; assumption. - apply DA_load; assumption.
  - apply Henry_pres; assumption. - apply Langmuir_pres; assumption. - apply DSLangmuir_pres; assumption.
  - apply TSLangmuir_pres; assumption. - apply BET_pres; assumption. - apply GAB_pres; assumption.
  - apply Quadratic_pres; assumption. - apply TemkinApprox_pres; assumption. - apply Toth_pres; assumption.
Qed.

(* an instance spelled out: Toth (n_m, K, t), non-negative parameters; loadings in another unit (times c) and pressures in another unit (times c) *)
Theorem toth_unit_covariance : forall c data x, 0 < c -> length x = 3%nat ->
  is_minimiser_in (Forall (fun v => 0 <= v)) M_Toth data x ->
  is_minimiser_in (Forall (fun v => 0 <= v)) M_Toth (map (fun d => (fst d, c * snd d)) data) (scale [c; 1; 1] x)
  /\ is_minimiser_in (Forall (fun v => 0 <= v)) M_Toth (map (fun d => (c * fst d, snd d)) data) (scale [1; / c; 1] x)
  /\ (forall p, M_Toth (scale [c; 1; 1] x) p = c * M_Toth x p)
  /\ (forall p, M_Toth (scale [1; / c; 1] x) (c * p) = M_Toth x p).
Proof.
  intros c data x C L Hmin.
  assert (I : 0 < / c) by (apply Rinv_0_lt_compat; assumption).
  assert (N1 : Forall (fun f => f <> 0) [c; 1; 1]) by (repeat constructor; lra).
  assert (N2 : Forall (fun f => f <> 0) [1; / c; 1]) by (repeat constructor; lra).
  assert (P1 : Forall (fun f => 0 < f) [c; 1; 1]) by (repeat constructor; lra).
  assert (P2 : Forall (fun f => 0 < f) [1; / c; 1]) by (repeat constructor; lra).
  destruct (loading_unit_maps_minimisers M_Toth [c; 1; 1] c N1 (fun y p Ly => Toth_load c y p Ly) _ data x L Hmin) as [[B1 M1] E1].
  destruct (pressure_unit_maps_minimisers M_Toth [1; / c; 1] c N2 (fun y p Ly => Toth_pres c y p C Ly) _ data x L Hmin) as [[B2 M2] E2].
  split; [|split; [|split]]; try assumption.
  - split.
    + apply (nonneg_scale_invariant [c; 1; 1] _ P1); [apply scale_length; assumption|assumption].
    + intros z Lz Bz. apply M1; [assumption|]. rewrite scale_length in Lz by assumption.
      apply (nonneg_scale_invariant [c; 1; 1] _ P1); assumption.
  - split.
    + apply (nonneg_scale_invariant [1; / c; 1] _ P2); [apply scale_length; assumption|assumption].
    + intros z Lz Bz. apply M2; [assumption|]. rewrite scale_length in Lz by assumption.
      apply (nonneg_scale_invariant [1; / c; 1] _ P2); assumption.
Qed.
