(* C12 - the numpy vocabulary of the generated fit glue (Gen/FitGlueGen.v): vectors are lists of reals.
   numpy.sum / len / numpy.mean / numpy.dot, element-wise power / product / scaling / absolute value. *)
From Coq Require Import Reals List.
Import ListNotations.
Open Scope R_scope.

Definition np_sum (l : list R) : R := fold_right Rplus 0 l.
Definition np_len (l : list R) : R := INR (length l).
Definition np_mean (l : list R) : R := np_sum l / np_len l.
Definition vpowi (l : list R) (k : nat) : list R := map (fun a => a ^ k) l.
Definition vscale (c : R) (l : list R) : list R := map (fun a => c * a) l.
Definition vabs (l : list R) : list R := map Rabs l.
Fixpoint vmul (a b : list R) : list R := match a, b with x :: ar, y :: br => x * y :: vmul ar br | _, _ => [] end.
Definition np_dot (a b : list R) : R := np_sum (vmul a b).
(* a function of two arguments applied row by row (numpy broadcasting of a scalar formula over two arrays of the same length) *)
Fixpoint rows2 {A B C} (f : A -> B -> C) (a : list A) (b : list B) : list C :=
  match a, b with x :: ar, y :: br => f x y :: rows2 f ar br | _, _ => [] end.
