(* C12 - theorems about the GENERATED glue of IsothermBaseModel.fit / Virial.fit (Gen/FitGlueGen.v, translated from the source by
   tools/py2v_fitglue.py): the expression the code assigns to self.rmse IS the documented error - the root of the mean squared residual
   over the fitted rows divided by the range - evaluated on the residual vector of the fitted model at the RETURNED parameters, whatever
   else the optimiser reports (its robustified cost, optimality) and whatever options it was given.
   scipy.optimize.least_squares is a Section variable with its contract (fun = residual at x, x within bounds) as hypothesis. *)
From Coq Require Import Reals Lra Lia List Bool QArith.
From PG Require Import Lib.Num Lib.Py Fit.FitLogic Fit.FitTheorems Fit.FitPre Gen.FitGlueGen.
Import ListNotations.
Open Scope R_scope.

Lemma np_sum_sq : forall f, np_sum (vpowi f 2) = sumsqR f.
Proof.
  induction f as [|a f IH]; [reflexivity|].
  change (np_sum (vpowi (a :: f) 2)) with (a ^ 2 + np_sum (vpowi f 2)). rewrite IH. simpl. ring.
Qed.

(* the generated expression of the reported error is the documented one; the optimiser's own cost / optimality and the returned
   parameter vector do not enter *)
Theorem base_rmse_is_documented : forall fv x cost opt pr ld range,
  BaseFit_rmse fv x cost opt pr ld range = rmse fv (length ld) range.
Proof. intros. unfold BaseFit_rmse, rmse, np_len. rewrite np_sum_sq. reflexivity. Qed.
Theorem virial_rmse_is_documented : forall fv x cost opt pr ld,
  VirialFit_rmse fv x cost opt pr ld = sqrt (sumsqR fv / INR (length ld)).
Proof. intros. unfold VirialFit_rmse, np_len. rewrite np_sum_sq. reflexivity. Qed.
(* the model executed beside the implementation (Fit/FitLogic.v rmse_sq, QNum) computes the square of the generated expression *)
Theorem base_rmse_squared_is_executed_model : forall fv x cost opt pr ld range, ld <> [] -> range <> 0 ->
  rmse_sq RNum fv (length ld) range = BaseFit_rmse fv x cost opt pr ld range * BaseFit_rmse fv x cost opt pr ld range.
Proof.
  intros fv x cost opt pr ld range Hl Hr. rewrite base_rmse_is_documented. apply rmse_sq_is_square; [|assumption].
  destruct ld; [congruence|simpl; lia].
Qed.
(* the generated range and residual are those of the executed model *)
Theorem generated_range_is_max_minus_min : forall calc (lr prr : R * R),
  BaseFit_model_range calc lr prr = if calc then snd lr - fst lr else snd prr - fst prr.
Proof. intros [|] lr prr; reflexivity. Qed.
Lemma rows2_combine {A B C} (f : A -> B -> C) : forall a b, rows2 f a b = map (fun d => f (fst d) (snd d)) (combine a b).
Proof. induction a as [|x a IH]; intros [|y b]; simpl; try reflexivity. rewrite IH. reflexivity. Qed.
Theorem generated_residual_is_executed_model : forall calc (L P : list R -> R -> R) x pr ld,
  rows2 (BaseFit_residual calc (L x) (P x)) pr ld = resid RNum calc (if calc then L else P) x (combine pr ld).
Proof. intros calc L P x pr ld. rewrite rows2_combine. unfold resid, BaseFit_residual. destruct calc; reflexivity. Qed.

Section GenFit.
  Variable calc : bool.                              (* self.calculates == "loading" *)
  Variables L P : list R -> R -> R.                  (* self.loading / self.pressure with self.params = x *)
  (* least_squares(fun, x0, bounds, **optimization_params): None = ValueError or success == False (fit_leastsq raises CalculationError);
     Some (x, fun, cost, optimality) = the OptimizeResult.  Only `fun = residual(x)` and `x within bounds` are assumed - NOT that cost is half
     the sum of squares (it is not, for the robust losses of optimization_params) *)
  Variable lsq : (list R -> list R) -> list R -> list (R * R) -> option (list R * list R * R * R).
  Hypothesis lsq_contract : forall f x0 b x fv c o, lsq f x0 b = Some (x, fv, c, o) -> fv = f x /\ in_bounds b x.

  (* fit_func(x, pressure, loading) = fit_func_base(pressure, loading) with self.params = x, row by row *)
  Definition gen_fit_func (pressure loading : list R) (x : list R) : list R :=
    rows2 (BaseFit_residual calc (L x) (P x)) pressure loading.
  (* fit: -> (self.params, self.rmse) *)
  Definition gen_fit (pressure loading : list R) (loading_range pressure_range : R * R) (x0 : list R) (b : list (R * R)) : res (list R * R) :=
    match lsq (gen_fit_func pressure loading) x0 b with
    | None => Err CalculationError
    | Some (x, fv, c, o) => Ok (x, BaseFit_rmse fv x c o pressure loading (BaseFit_model_range calc loading_range pressure_range)) end.

  (* whenever fit succeeds: the parameters respect the bounds and the reported error is the root-mean-square deviation between the fitted
     model AT THE RETURNED PARAMETERS and the data, divided by the range (max - min of the fitted quantity) *)
  Theorem gen_fit_reports_rms : forall pressure loading lr prr x0 b x e,
    gen_fit pressure loading lr prr x0 b = Ok (x, e) ->
    in_bounds b x
    /\ e = sqrt (sumsqR (map (fun d => if calc then L x (fst d) - snd d else P x (snd d) - fst d) (combine pressure loading)) / INR (length loading))
           / (if calc then snd lr - fst lr else snd prr - fst prr).
  Proof.
    intros pressure loading lr prr x0 b x e H. unfold gen_fit in H.
    destruct (lsq _ x0 b) as [[[[x' fv] c] o]|] eqn:E; [|discriminate]. inversion H; subst. clear H.
    destruct (lsq_contract _ _ _ _ _ _ _ E) as [Hf Hb]. split; [assumption|].
    rewrite base_rmse_is_documented, generated_range_is_max_minus_min. unfold rmse. rewrite Hf.
    unfold gen_fit_func. rewrite rows2_combine. unfold BaseFit_residual. destruct calc; reflexivity.
  Qed.
End GenFit.

(* the premises are satisfiable and the statement is not vacuous: an optimiser that returns the start vector, reports a cost unrelated to
   the residuals, and a Henry-like model n = k p on two rows *)
Example gen_fit_example :
  let lsq := fun (f : list R -> list R) (x0 : list R) (b : list (R * R)) => Some (x0, f x0, 123, 0) in
  gen_fit true (fun x p => nth 0 x 0 * p) (fun _ l => l) lsq [1; 2] [3; 5] (3, 5) (1, 2) [2] []
  = Ok ([2], sqrt (((2 * 1 - 3) * (2 * 1 - 3) + ((2 * 2 - 5) * (2 * 2 - 5) + 0)) / INR 2) / (5 - 3)).
Proof.
  simpl. unfold gen_fit, gen_fit_func. simpl. rewrite base_rmse_is_documented. unfold rmse, BaseFit_residual, BaseFit_model_range. simpl. reflexivity.
Qed.
