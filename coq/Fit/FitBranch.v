(* C12 - branch marks.  `select` (Fit/FitLogic.v) keeps the rows whose MARK is the requested branch - nothing else decides.  This file adds the model of
   the branch GUESS (utilities/math_utilities.py split_ads_data: rows after the first pressure maximum are desorption; a maximum in the first row makes
   everything desorption, in the last row everything adsorption), used by the constructors only when the table carries no marks, and shows why marks
   must travel with the rows: guessing again on the rows of one branch is NOT the identity when that branch is not monotone in pressure.
   guess_marks is executed (QNum) beside the implementation by tools/props/c12.py for tables without marks. *)
From Coq Require Import QArith ZArith List Bool Lia.
Close Scope Q_scope. Close Scope Z_scope.
From PG Require Import Lib.Num Lib.Py Lib.Show Fit.FitLogic.
Import ListNotations.

Section Branch.
  Variable N : Num.
  Fixpoint argmax_from (best : N) (besti i : nat) (l : list N) : nat :=
    match l with [] => besti | a :: r => if nltb best a then argmax_from a i (S i) r else argmax_from best besti (S i) r end.
  Definition guess_marks (ps : list N) : list bool :=
    match ps with
    | [] => []
    | a :: r =>
      let n := length ps in
      let inflexion := S (argmax_from a 0 1 r) in
      if Nat.eqb inflexion n then repeat false n%nat
      else let k := if Nat.eqb inflexion 1 then 0 else inflexion in repeat false k ++ repeat true (n - k)
    end.
  (* the rows of a table without marks, marked by the guess *)
  Definition marked_by_guess (d : list (point N)) : list (row N) := combine d (guess_marks (map fst d)).
  (* what a constructor that receives only the rows of one branch WITHOUT their marks would fit *)
  Definition reguessed (des : bool) (rows : list (row N)) : list (point N) := select N des (marked_by_guess (select N des rows)).

  (* every row belongs to exactly one branch *)
  Theorem select_partition : forall rows : list (row N), length (select N false rows) + length (select N true rows) = length rows.
  Proof.
    unfold select. induction rows as [|[pt b] r IH]; [reflexivity|]. simpl. destruct b; simpl; rewrite ?map_length in *; simpl; lia.
  Qed.
  (* a point is fitted iff it is a row marked with the requested branch: pressures play no part *)
  Theorem select_in_iff : forall des (rows : list (row N)) pt, In pt (select N des rows) <-> In (pt, des) rows.
  Proof.
    intros des rows pt. unfold select. rewrite in_map_iff. split.
    - intros [[q b] [E H]]. simpl in E. subst q. apply filter_In in H. destruct H as [H Hb]. simpl in Hb.
      apply eqb_prop in Hb. subst b. exact H.
    - intro H. exists (pt, des). split; [reflexivity|]. apply filter_In. split; [exact H|]. simpl. apply eqb_reflx.
  Qed.
  (* the selection keeps the order in which the rows were measured *)
  Theorem select_app : forall des (a b : list (row N)), select N des (a ++ b) = select N des a ++ select N des b.
  Proof. intros. unfold select. rewrite filter_app, map_app. reflexivity. Qed.
End Branch.

(* a desorption run whose pressure creeps up once (1.00 | 0.93 0.95 0.80 0.50): guessing again on its own rows calls the first two rows
   adsorption, so a fit that lost the marks would use 2 of the 4 rows; with the marks it uses all 4 *)
Definition creep_table : list (row QNum) :=
  [((0.2, 1.0), false); ((0.6, 2.0), false); ((1.0, 2.5), false); ((0.93, 2.6), true); ((0.95, 2.6), true); ((0.8, 2.55), true); ((0.5, 2.4), true)]%Q.
Example marks_guessed_for_the_whole_table_agree : map snd (marked_by_guess QNum (map fst creep_table)) = map snd creep_table.
Proof. vm_compute. reflexivity. Qed.
Example reguessing_one_branch_loses_rows :
  length (select QNum true creep_table) = 4%nat /\ length (reguessed QNum true creep_table) = 2%nat.
Proof. vm_compute. split; reflexivity. Qed.
(* ... whereas on a branch that is monotone in pressure nothing is lost *)
Example reguessing_a_monotone_branch_is_harmless : reguessed QNum false creep_table = select QNum false creep_table.
Proof. vm_compute. reflexivity. Qed.

(* execution beside the implementation: a table WITHOUT marks, the requested branch, the rows the optimiser received *)
Open Scope Z_scope.
Definition qf (me : Z * Z) : Q := fl (fst me) (snd me).
Fixpoint eq_rows (a : list (point QNum)) (b : list ((Z * Z) * (Z * Z))) : bool :=
  match a, b with
  | [], [] => true
  | (p, l) :: ar, (p', l') :: br => Qeq_bool p (qf p') && Qeq_bool l (qf l') && eq_rows ar br
  | _, _ => false end.
Definition cmp_guess_select (des : bool) (rows : list ((Z * Z) * (Z * Z))) (oc : Z) (used : list ((Z * Z) * (Z * Z))) : Z * Z :=
  let sel := select QNum des (marked_by_guess QNum (map (fun r => (qf (fst r), qf (snd r))) rows)) in
  match sel with
  | [] => (1, if oc =? 1 then 1 else 0)
  | _ => (0, if (oc =? 0) && eq_rows sel used then 1 else 0) end.
