(* C12 - execution of the FitLogic model on QNum against what the implementation did (correspondence part of c12.py).
   +-inf bounds are passed as +-2^1100 (beyond every binary64 value). Only small integers are printed. *)
From Coq Require Import QArith Qabs ZArith List Bool.
From PG Require Import Lib.Num Lib.Py Lib.Show Fit.FitLogic.
Import ListNotations.
Open Scope Z_scope.

Definition q (me : Z * Z) : Q := fl (fst me) (snd me).
Definition b2z (b : bool) : Z := if b then 1 else 0.
Fixpoint eq_all (a b : list Q) : bool :=
  match a, b with [], [] => true | x :: ar, y :: br => Qeq_bool x y && eq_all ar br | _, _ => false end.
(* initial_guess_bounds: exact agreement (no arithmetic involved) *)
Definition cmp_clamp (bounds : list ((Z * Z) * (Z * Z))) (guess out : list (Z * Z)) : Z * Z :=
  (0, b2z (eq_all (clamp_all QNum (map (fun b => (q (fst b), q (snd b))) bounds) (map q guess)) (map q out))).
(* reported error: rmse^2 of the model from opt_res.fun, len(loading) and the range, vs the square of the reported rmse *)
Definition cmp_rmse (fun_ : list (Z * Z)) (n : nat) (range rmse_impl : Z * Z) : Z * Z :=
  (0, b2z (close_q 1 1000000000 (rmse_sq QNum (map q fun_) n (q range)) (q rmse_impl * q rmse_impl))).
(* best of the candidate list: per candidate None (CalculationError) or the reported error; vs the position of the returned model *)
Definition cmp_best (att : list (option (Z * Z))) (oc impl_pos : Z) : Z * Z :=
  match best_of QNum (map (option_map q) att) with
  | Ok p => (0, b2z ((oc =? 0) && (Z.of_nat p =? impl_pos)))
  | Err e => (exn_code e, b2z (oc =? exn_code e)) end.
(* branch selection: the points handed to the optimiser vs the rows of the requested branch *)
Definition cmp_select (des : bool) (rows : list ((Z * Z) * (Z * Z) * bool)) (oc : Z) (used : list ((Z * Z) * (Z * Z))) : Z * Z :=
  let sel := select QNum des (map (fun r => ((q (fst (fst r)), q (snd (fst r))), snd r)) rows) in
  match sel with
  | [] => (1, b2z (oc =? 1))
  | _ => (0, b2z ((oc =? 0) && eq_all (map fst sel) (map (fun u => q (fst u)) used) && eq_all (map snd sel) (map (fun u => q (snd u)) used))) end.
(* bounds / start vector handed to the optimiser vs the dictionaries the user wrote (in the user's key order): the model builds the vectors
   BY NAME in param_names order. guess = None: the implementation did not get as far as a start vector (only the bounds path is compared) *)
Definition qb (b : (Z * Z) * (Z * Z)) : Q * Q := (q (fst b), q (snd b)).
Definition cmp_named (names : list String.string) (defaults : list ((Z * Z) * (Z * Z))) (user : list (String.string * ((Z * Z) * (Z * Z))))
    (guess : option (list (String.string * (Z * Z)))) (oc : Z) (lo hi x0 : list (Z * Z)) : Z * Z :=
  let r := bind (bounds_in_force QNum names (map qb defaults) (map (fun kv => (fst kv, qb (snd kv))) user)) (fun d =>
           bind (match guess with None => Ok [] | Some g => by_name names (map (fun kv => (fst kv, q (snd kv))) g) end) (fun g =>
           bind (by_name names d) (fun bs => Ok (g, bs)))) in
  match r with
  | Ok (g, bs) => (0, b2z (eq_all (map fst bs) (map q lo) && eq_all (map snd bs) (map q hi)
                           && match guess with None => true | Some _ => eq_all g (map q x0) end))
  | Err e => (exn_code e, b2z (oc =? exn_code e)) end.
(* reported error from the rows handed to the optimiser (any order): range = max - min computed by the model; the reported value must be
   non-negative and its square equal to the model's rmse^2 *)
Definition cmp_rmse_data (calc_loading : bool) (data : list ((Z * Z) * (Z * Z))) (fun_ : list (Z * Z)) (rmse_impl : Z * Z) : Z * Z :=
  let d := map (fun r => (q (fst r), q (snd r))) data in
  (0, b2z (Qle_bool 0 (q rmse_impl)
           && close_q 1 1000000000 (reported_rmse_sq QNum calc_loading d (map q fun_)) (q rmse_impl * q rmse_impl))).
