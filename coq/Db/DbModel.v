(* Model of the SQLite store of pyGAPS (parsing/sqlite.py + utilities/sqlite_db_pragmas.py):
   tables as lists of rows with the UNIQUE / NOT NULL / FOREIGN KEY constraints of the schema (foreign keys enforced),
   every public function as the sequence of statements it issues (a program tree, one node per cursor.execute),
   the in-memory registries ADSORBATE_LIST / MATERIAL_LIST as part of the state, with_connection = one transaction.
   Strings and numbers are interned to integers by the harness.  No reals; axiom free. *)
From Coq Require Import ZArith List Bool Lia.
From PG Require Export Db.DbShapeTypes Gen.DbShapeGen.
Import ListNotations.
Open Scope Z_scope.

(* ------------------------------------------------------------------ values *)
(* a Python value handed to sqlite3: None, a number, text, text that LOOKS numeric (t = the text, n = the number it reads as), a bool *)
Inductive val := VNull | VNum (n : Z) | VText (t : Z) | VNumText (t n : Z) | VBool (b : bool).
Definition is_null (v : val) : bool := match v with VNull => true | _ => false end.
(* binding into a column with REAL affinity: bool -> 1/0, numeric-looking text -> the number *)
Definition store_real (v : val) : val :=
  match v with VNumText _ n => VNum n | VBool b => VNum (if b then 1 else 0) | _ => v end.
(* binding into a TEXT column *)
Definition store_text (v : val) : val := match v with VNumText t _ => VText t | _ => v end.
(* integer code used for printing / comparison: text and numeric-looking text with the same characters are the same value *)
Definition vcode (v : val) : Z :=
  match v with VNull => 0 | VNum n => 4 * n + 1 | VText t => 4 * t + 2 | VNumText t _ => 4 * t + 2
             | VBool b => if b then 7 else 3 end.
Definition val_eqb (a b : val) : bool := vcode a =? vcode b.
(* reserved atoms (the harness interns these strings first) *)
Definition A_TRUE : Z := 1.     (* text 'TRUE'  *)
Definition A_FALSE : Z := 0.    (* text 'FALSE' *)
Definition A_iso_type : Z := 2. (* text 'iso_type' *)
Definition A_point : Z := 3.    (* 'pointisotherm' *)
Definition A_model : Z := 4.    (* 'modelisotherm' *)
Definition A_base : Z := 5.     (* 'isotherm' *)

(* ------------------------------------------------------------------ tables *)
Record prow := mkP { p_id : Z; p_own : Z; p_ty : Z; p_val : val }.            (* *_properties *)
Record trow := mkT { t_id : Z; t_ty : Z; t_unit : val; t_desc : val }.        (* *_type tables *)
Record store := mkS { rows : list (Z * Z); nxt : Z;                           (* (id, name) ; AUTOINCREMENT counter *)
                      props : list prow; pnxt : Z; types : list trow; tnxt : Z }.
Record irow := mkI { i_id : Z; i_ty : Z; i_mat : Z; i_ads : Z; i_temp : val }.
Record drow := mkD { d_id : Z; d_iso : Z; d_ty : Z; d_dty : Z; d_data : Z }.
Record db := mkDb { ads : store; mat : store; itypes : list trow; itnxt : Z;
                    isos : list irow; iprops : list prow; ipnxt : Z; idata : list drow; idnxt : Z }.
Record reg := mkReg { r_ads : list Z; r_mat : list Z }.      (* names held by ADSORBATE_LIST / MATERIAL_LIST *)

Inductive ent := EAds | EMat.
Definition gs (e : ent) (d : db) : store := match e with EAds => ads d | EMat => mat d end.
Definition ss (e : ent) (s : store) (d : db) : db :=
  match e with
  | EAds => mkDb s (mat d) (itypes d) (itnxt d) (isos d) (iprops d) (ipnxt d) (idata d) (idnxt d)
  | EMat => mkDb (ads d) s (itypes d) (itnxt d) (isos d) (iprops d) (ipnxt d) (idata d) (idnxt d) end.
Definition greg (e : ent) (r : reg) : list Z := match e with EAds => r_ads r | EMat => r_mat r end.
Definition sreg (e : ent) (l : list Z) (r : reg) : reg :=
  match e with EAds => mkReg l (r_mat r) | EMat => mkReg (r_ads r) l end.

Definition memZ (x : Z) (l : list Z) : bool := existsb (Z.eqb x) l.
Fixpoint remove_first (x : Z) (l : list Z) : list Z :=
  match l with [] => [] | y :: r => if x =? y then r else y :: remove_first x r end.
Definition names (s : store) : list Z := map snd (rows s).
Definition ids (s : store) : list Z := map fst (rows s).
Definition tnames (l : list trow) : list Z := map t_ty l.
Definition iso_ids (d : db) : list Z := map i_id (isos d).
Fixpoint find_id (name : Z) (l : list (Z * Z)) : option Z :=
  match l with [] => None | (i, n) :: r => if n =? name then Some i else find_id name r end.
Fixpoint find_name (i : Z) (l : list (Z * Z)) : option Z :=
  match l with [] => None | (j, n) :: r => if j =? i then Some n else find_name i r end.

(* ------------------------------------------------------------------ errors, statements *)
(* what a statement (or the code between two statements) may raise: the three sqlite3 classes the suite knows, process death, any other
   subclass of Exception (sqlite3.ProgrammingError, KeyError, TypeError, ValueError, AttributeError ...; k names the class) and
   exceptions that derive from BaseException only (KeyboardInterrupt, SystemExit, GeneratorExit; k names the class) *)
Inductive err := EIntegrity | EInterface | EOperational | ECrash | EExc (k : Z) | EBase (k : Z).
Inductive R (A : Type) := Good (a : A) | Bad (e : err).
Arguments Good {A}. Arguments Bad {A}.
Definition stmt (B : Type) := db -> R (B * db).

(* entity tables (adsorbates / materials) *)
Definition ins_ent (e : ent) (name : Z) : stmt Z := fun d =>
  let s := gs e d in
  if memZ name (names s) then Bad EIntegrity          (* UNIQUE(name) *)
  else Good (nxt s, ss e (mkS (rows s ++ [(nxt s, name)]) (nxt s + 1) (props s) (pnxt s) (types s) (tnxt s)) d).
Definition sel_ent_id (e : ent) (name : Z) : stmt (option Z) := fun d => Good (find_id name (rows (gs e d)), d).
Definition ins_prop (e : ent) (own ty : Z) (v : val) : stmt unit := fun d =>
  let s := gs e d in let v' := store_real v in
  if is_null v' then Bad EIntegrity                    (* NOT NULL(value) *)
  else if negb (memZ own (ids s)) || negb (memZ ty (tnames (types s))) then Bad EIntegrity   (* FOREIGN KEYs *)
  else Good (tt, ss e (mkS (rows s) (nxt s) (props s ++ [mkP (pnxt s) own ty v']) (pnxt s + 1) (types s) (tnxt s)) d).
Definition sel_prop_owner (e : ent) (own : Z) : stmt bool := fun d =>
  Good (existsb (fun p => p_own p =? own) (props (gs e d)), d).
Definition del_props (e : ent) (own : Z) : stmt unit := fun d =>
  let s := gs e d in
  Good (tt, ss e (mkS (rows s) (nxt s) (filter (fun p => negb (p_own p =? own)) (props s)) (pnxt s) (types s) (tnxt s)) d).
Definition referenced (e : ent) (name : Z) (d : db) : bool :=
  existsb (fun i => match e with EAds => i_ads i =? name | EMat => i_mat i =? name end) (isos d).
Definition del_ent (e : ent) (i : Z) : stmt unit := fun d =>
  let s := gs e d in
  if existsb (fun p => p_own p =? i) (props s) then Bad EIntegrity
  else if match find_name i (rows s) with Some n => referenced e n d | None => false end then Bad EIntegrity
  else Good (tt, ss e (mkS (filter (fun r => negb (fst r =? i)) (rows s)) (nxt s) (props s) (pnxt s) (types s) (tnxt s)) d).
Definition sel_all (e : ent) : stmt (list (Z * Z)) := fun d => Good (rows (gs e d), d).
Definition sel_props (e : ent) (own : Z) : stmt (list (Z * val)) := fun d =>
  Good (map (fun p => (p_ty p, p_val p)) (filter (fun p => p_own p =? own) (props (gs e d))), d).

(* the *_type tables *)
Inductive tsel := TAds | TMat | TIso | TIsoProp.     (* TIsoProp = isotherm_properties_type, which PRAGMAS never creates *)
Definition gt (t : tsel) (d : db) : list trow * Z :=
  match t with TAds => (types (ads d), tnxt (ads d)) | TMat => (types (mat d), tnxt (mat d)) | _ => (itypes d, itnxt d) end.
Definition st (t : tsel) (l : list trow) (n : Z) (d : db) : db :=
  match t with
  | TAds => ss EAds (let s := ads d in mkS (rows s) (nxt s) (props s) (pnxt s) l n) d
  | TMat => ss EMat (let s := mat d in mkS (rows s) (nxt s) (props s) (pnxt s) l n) d
  | _ => mkDb (ads d) (mat d) l n (isos d) (iprops d) (ipnxt d) (idata d) (idnxt d) end.
Definition type_used (t : tsel) (ty : Z) (d : db) : bool :=
  match t with
  | TAds => existsb (fun p => p_ty p =? ty) (props (ads d))
  | TMat => existsb (fun p => p_ty p =? ty) (props (mat d))
  | _ => existsb (fun i => i_ty i =? ty) (isos d) end.
Definition missing (t : tsel) : bool := match t with TIsoProp => true | _ => false end.
Definition ins_type (t : tsel) (ty : Z) (u ds : val) : stmt unit := fun d =>
  if missing t then Bad EOperational else
  let '(l, n) := gt t d in
  if memZ ty (tnames l) then Bad EIntegrity
  else Good (tt, st t (l ++ [mkT n ty (store_text u) (store_text ds)]) (n + 1) d).
Definition upd_type (t : tsel) (ty : Z) (u ds : val) : stmt unit := fun d =>
  if missing t then Bad EOperational else
  let '(l, n) := gt t d in
  Good (tt, st t (map (fun r => if t_ty r =? ty then mkT (t_id r) ty (store_text u) (store_text ds) else r) l) n d).
Definition sel_types (t : tsel) : stmt (list trow) := fun d =>
  if missing t then Bad EOperational else Good (fst (gt t d), d).
Definition sel_type_exists (t : tsel) (ty : Z) : stmt bool := fun d =>
  if missing t then Bad EOperational else Good (memZ ty (tnames (fst (gt t d))), d).
Definition del_type (t : tsel) (ty : Z) : stmt unit := fun d =>
  if missing t then Bad EOperational else
  let '(l, n) := gt t d in
  if type_used t ty d then Bad EIntegrity
  else Good (tt, st t (filter (fun r => negb (t_ty r =? ty)) l) n d).

(* isotherm tables *)
Definition set_iso (l : list irow) (d : db) : db :=
  mkDb (ads d) (mat d) (itypes d) (itnxt d) l (iprops d) (ipnxt d) (idata d) (idnxt d).
Definition ins_iso (i ty m a : Z) (temp : val) : stmt unit := fun d =>
  let tv := store_real temp in
  if is_null tv then Bad EIntegrity
  else if memZ i (iso_ids d) then Bad EIntegrity
  else if negb (memZ ty (tnames (itypes d))) || negb (memZ m (names (mat d))) || negb (memZ a (names (ads d))) then Bad EIntegrity
  else Good (tt, set_iso (isos d ++ [mkI i ty m a tv]) d).
Definition ins_iprop (i ty : Z) (v : val) : stmt unit := fun d =>
  let v' := store_real v in
  if is_null v' then Bad EIntegrity
  else if negb (memZ i (iso_ids d)) then Bad EIntegrity
  else Good (tt, mkDb (ads d) (mat d) (itypes d) (itnxt d) (isos d) (iprops d ++ [mkP (ipnxt d) i ty v']) (ipnxt d + 1) (idata d) (idnxt d)).
Definition ins_idata (i ty dty data : Z) : stmt unit := fun d =>
  if negb (memZ i (iso_ids d)) then Bad EIntegrity
  else Good (tt, mkDb (ads d) (mat d) (itypes d) (itnxt d) (isos d) (iprops d) (ipnxt d) (idata d ++ [mkD (idnxt d) i ty dty data]) (idnxt d + 1)).
Definition sel_iso_exists (i : Z) : stmt bool := fun d => Good (memZ i (iso_ids d), d).
Definition del_idata (i : Z) : stmt unit := fun d =>
  Good (tt, mkDb (ads d) (mat d) (itypes d) (itnxt d) (isos d) (iprops d) (ipnxt d) (filter (fun r => negb (d_iso r =? i)) (idata d)) (idnxt d)).
Definition del_iprops (i : Z) : stmt unit := fun d =>
  Good (tt, mkDb (ads d) (mat d) (itypes d) (itnxt d) (isos d) (filter (fun r => negb (p_own r =? i)) (iprops d)) (ipnxt d) (idata d) (idnxt d)).
Definition del_iso (i : Z) : stmt unit := fun d =>
  if existsb (fun r => p_own r =? i) (iprops d) || existsb (fun r => d_iso r =? i) (idata d) then Bad EIntegrity
  else Good (tt, set_iso (filter (fun r => negb (i_id r =? i)) (isos d)) d).
(* criteria of isotherms_from_db: optional equality tests on the columns of `isotherms` *)
Record crit := mkC { c_mat : option Z; c_ads : option Z; c_ty : option Z; c_temp : option val }.
Definition omatch (o : option Z) (x : Z) : bool := match o with Some y => x =? y | None => true end.
Definition crit_ok (c : crit) (i : irow) : bool :=
  omatch (c_mat c) (i_mat i) && omatch (c_ads c) (i_ads i) && omatch (c_ty c) (i_ty i)
  && match c_temp c with Some v => val_eqb (store_real v) (i_temp i) | None => true end.
Definition sel_isos (c : crit) : stmt (list irow) := fun d => Good (filter (crit_ok c) (isos d), d).
Definition sel_iprops_in (l : list Z) : stmt (list prow) := fun d => Good (filter (fun p => memZ (p_own p) l) (iprops d), d).
Definition sel_idata_in (l : list Z) : stmt (list drow) := fun d => Good (filter (fun r => memZ (d_iso r) l) (idata d), d).
Definition pragma_fk : stmt unit := fun d => Good (tt, d).

(* ------------------------------------------------------------------ programs: one Exec node per cursor.execute *)
(* h = Some p : the statement sits in a `try: ... except sqlite3.IntegrityError: pass`; an IntegrityError raised by it continues with p *)
Inductive prog (A : Type) : Type :=
| Ret (a : A)
| Raise (e : err)
| Exec {B : Type} (f : stmt B) (h : option (prog A)) (k : B -> prog A)
| RegOp {B : Type} (f : reg -> B * reg) (k : B -> prog A).
Arguments Ret {A}. Arguments Raise {A}. Arguments Exec {A B}. Arguments RegOp {A B}.

Fixpoint bindP {A C} (p : prog A) (g : A -> prog C) : prog C :=
  match p with
  | Ret a => g a
  | Raise e => Raise e
  | Exec f h k => Exec f (match h with Some q => Some (bindP q g) | None => None end) (fun b => bindP (k b) g)
  | RegOp f k => RegOp f (fun b => bindP (k b) g) end.
Definition ex {B} (f : stmt B) : prog B := Exec f None Ret.
Definition seqP {A C} (p : prog A) (q : prog C) : prog C := bindP p (fun _ => q).
Fixpoint forP {X} (l : list X) (f : X -> prog unit) : prog unit :=
  match l with [] => Ret tt | x :: r => seqP (f x) (forP r f) end.

Record state := mkSt { s_db : db; s_reg : reg; s_n : nat }.
(* fault: statement number k (1-based, the PRAGMA of with_connection is number 1) raises e instead of executing *)
Definition fault := option (nat * err).
Definition hits (f : fault) (n : nat) : option err :=
  match f with Some (k, e) => if Nat.eqb k n then Some e else None | None => None end.
Fixpoint run {A} (flt : fault) (p : prog A) (s : state) : R A * state :=
  match p with
  | Ret a => (Good a, s)
  | Raise e => (Bad e, s)
  | Exec f h k =>
      let n := S (s_n s) in
      let s1 := mkSt (s_db s) (s_reg s) n in
      let r := match hits flt n with Some e => Bad e | None => f (s_db s) end in
      match r with
      | Good (b, d') => run flt (k b) (mkSt d' (s_reg s) n)
      | Bad EIntegrity => match h with Some q => run flt q s1 | None => (Bad EIntegrity, s1) end
      | Bad e => (Bad e, s1) end
  | RegOp f k => let '(b, r') := f (s_reg s) in run flt (k b) (mkSt (s_db s) r' (s_n s)) end.

(* ------------------------------------------------------------------ the public functions *)
Definition plist := list (Z * list val).      (* properties.items(): a scalar is a one-element list *)
(* adsorbate_to_db / material_to_db body *)
Definition ent_upload (e : ent) (name : Z) (ps : plist) (autoins overwrite : bool) : prog unit :=
  let te := match e with EAds => TAds | EMat => TMat end in
  let rest (own : Z) : prog unit :=
    seqP (if autoins then
            bindP (ex (sel_types te)) (fun ts =>
              forP (filter (fun p => negb (memZ (fst p) (tnames ts))) ps) (fun p => ex (ins_type te (fst p) VNull VNull)))
          else Ret tt)
    (seqP (forP ps (fun p => forP (snd p) (fun v => ex (ins_prop e own (fst p) v))))
          (RegOp (fun r => (tt, sreg e ((if overwrite && memZ name (greg e r) then remove_first name (greg e r) else greg e r) ++ [name]) r)) Ret)) in
  if overwrite then
    bindP (ex (sel_ent_id e name)) (fun o =>
      match o with
      | None => Raise EIntegrity
      | Some own =>
          (* _delete_by_id inside try/except IntegrityError: pass *)
          Exec (sel_prop_owner e own) (Some (rest own)) (fun found =>
            if found then Exec (del_props e own) (Some (rest own)) (fun _ => rest own) else rest own) end)
  else bindP (ex (ins_ent e name)) rest.
Definition ent_delete (e : ent) (name : Z) : prog unit :=
  bindP (ex (sel_ent_id e name)) (fun o =>
    match o with
    | None => Raise EIntegrity
    | Some i => seqP (ex (del_props e i)) (seqP (ex (del_ent e i))
                  (RegOp (fun r => (tt, sreg e (remove_first name (greg e r)) r)) Ret)) end).
(* materials_from_db builds {type: value}: of several values of one type only the last survives; adsorbates_from_db regroups them in lists *)
Fixpoint collapse (l : list (Z * val)) : list (Z * val) :=
  match l with [] => [] | (k, v) :: r => if memZ k (map fst r) then collapse r else (k, v) :: collapse r end.
Definition ent_get (e : ent) : prog (list (Z * Z * list (Z * val))) :=
  bindP (ex (sel_all e)) (fun rs =>
    (fix go (l : list (Z * Z)) : prog (list (Z * Z * list (Z * val))) :=
       match l with
       | [] => Ret []
       | (i, n) :: r => bindP (ex (sel_props e i)) (fun ps => bindP (go r) (fun acc => Ret ((i, n, match e with EMat => collapse ps | EAds => ps end) :: acc))) end) rs).
Definition type_upload (t : tsel) (ty : Z) (u ds : val) (overwrite : bool) : prog unit :=
  ex (if overwrite then upd_type t ty u ds else ins_type t ty u ds).
Definition type_delete (t : tsel) (ty : Z) : prog unit :=
  bindP (ex (sel_type_exists t ty)) (fun b => if b then ex (del_type t ty) else Raise EIntegrity).
Definition type_get (t : tsel) : prog (list trow) := ex (sel_types t).

Record isoin := mkIn { n_id : Z; n_ty : Z; n_mat : Z; n_matps : plist; n_ads : Z; n_adsps : plist; n_temp : val;
                       n_props : list (Z * val); n_data : list (Z * Z * Z) }.
Definition bool_text (v : val) : val := match v with VBool b => VText (if b then A_TRUE else A_FALSE) | _ => v end.
Definition iso_upload (x : isoin) (am aa : bool) : prog unit :=
  seqP (if am then RegOp (fun r => (memZ (n_mat x) (r_mat r), r))
                     (fun known => if known then Ret tt else ent_upload EMat (n_mat x) (n_matps x) true false) else Ret tt)
  (seqP (if aa then RegOp (fun r => (memZ (n_ads x) (r_ads r), r))
                     (fun known => if known then Ret tt else ent_upload EAds (n_ads x) (n_adsps x) true false) else Ret tt)
  (seqP (ex (ins_iso (n_id x) (n_ty x) (n_mat x) (n_ads x) (n_temp x)))
  (seqP (forP (n_props x) (fun p => ex (ins_iprop (n_id x) (fst p) (bool_text (snd p)))))
        (forP (n_data x) (fun r => let '(ty, dty, data) := r in ex (ins_idata (n_id x) ty dty data)))))).
Definition iso_delete (i : Z) : prog unit :=
  bindP (ex (sel_iso_exists i)) (fun b =>
    if b then seqP (ex (del_idata i)) (seqP (ex (del_iprops i)) (ex (del_iso i))) else Raise EIntegrity).
(* what isotherms_from_db hands to the isotherm constructors: the row WITHOUT id (iso_type stays in: it becomes metadata),
   the properties with 'TRUE'/'FALSE' read back as bools, the data rows *)
Record isoout := mkOut { o_id : Z; o_ty : Z; o_mat : Z; o_ads : Z; o_temp : val; o_props : list (Z * val); o_data : list (Z * Z * Z) }.
Definition check_bool (v : val) : val :=
  match v with VText t => if t =? A_TRUE then VBool true else if t =? A_FALSE then VBool false else v | _ => v end.
Fixpoint chunks (fuel : nat) (n : nat) {X} (l : list X) : list (list X) :=
  match fuel with O => [] | S f => match l with [] => [] | _ => firstn n l :: chunks f n (skipn n l) end end.
(* the isotherm built from one row of `isotherms`, the property rows ps and the data rows ds fetched for its batch *)
Definition mk_out (ps : list prow) (ds : list drow) (i : irow) : isoout :=
  mkOut (i_id i) (i_ty i) (i_mat i) (i_ads i) (i_temp i)
        ((A_iso_type, VText (i_ty i)) :: map (fun p => (p_ty p, check_bool (p_val p))) (filter (fun p => p_own p =? i_id i) ps))
        (map (fun r => (d_ty r, d_dty r, d_data r)) (filter (fun r => d_iso r =? i_id i) ds)).
(* the batch loop: per batch one SELECT on isotherm_properties and one on isotherm_data, `WHERE iso_id IN (ids of the batch)` *)
Fixpoint iso_get_chunks (cs : list (list irow)) : prog (list isoout) :=
  match cs with
  | [] => Ret []
  | ch :: r =>
      bindP (ex (sel_iprops_in (map i_id ch))) (fun ps => bindP (ex (sel_idata_in (map i_id ch))) (fun ds =>
      bindP (iso_get_chunks r) (fun acc => Ret (map (mk_out ps ds) ch ++ acc)))) end.
(* isotherms_from_db: one SELECT on `isotherms` (fetchall), then the batch loop over grouped(alldata, n) *)
Definition iso_get_n (n : nat) (c : crit) : prog (list isoout) :=
  bindP (ex (sel_isos c)) (fun rs => iso_get_chunks (chunks (S (length rs)) n rs)).
(* the batch size is the one found in the source (Gen/DbShapeGen.v, `grouped(alldata, 100)`) *)
Definition iso_get (c : crit) : prog (list isoout) := iso_get_n iso_batch c.

(* ------------------------------------------------------------------ operations and with_connection *)
Inductive op :=
| EntUp (e : ent) (name : Z) (ps : plist) (autoins overwrite : bool)
| EntGet (e : ent)
| EntDel (e : ent) (name : Z)
| TyUp (t : tsel) (ty : Z) (u ds : val) (overwrite : bool)
| TyGet (t : tsel)
| TyDel (t : tsel) (ty : Z)
| IsoUp (x : isoin) (am aa : bool)
| IsoGet (c : crit)
| IsoDel (i : Z).
Inductive ret := RUnit | REnts (l : list (Z * Z * list (Z * val))) | RTypes (l : list trow) | RIsos (l : list isoout).
Definition body (o : op) : prog ret :=
  match o with
  | EntUp e n ps a w => seqP (ent_upload e n ps a w) (Ret RUnit)
  | EntGet e => bindP (ent_get e) (fun l => Ret (REnts l))
  | EntDel e n => seqP (ent_delete e n) (Ret RUnit)
  | TyUp t ty u ds w => seqP (type_upload t ty u ds w) (Ret RUnit)
  | TyGet t => bindP (type_get t) (fun l => Ret (RTypes l))
  | TyDel t ty => seqP (type_delete t ty) (Ret RUnit)
  | IsoUp x am aa => seqP (iso_upload x am aa) (Ret RUnit)
  | IsoGet c => bindP (iso_get c) (fun l => Ret (RIsos l))
  | IsoDel i => seqP (iso_delete i) (Ret RUnit) end.

(* outcome classes seen by the caller *)
Inductive outcome := OOk (r : ret) | OParsing | OOther (e : err) | ODied.
(* process death: at statement k (fault ECrash), or around commit; CCommitRaises e: conn.commit() itself raises e (the storage layer
   reports an error at COMMIT) and nothing is committed *)
Inductive cfault := CNone | CBeforeCommit | CAfterCommit | CCommitRaises (e : err).
(* with_connection: PRAGMA foreign_keys=ON; body; commit in the else-branch; rollback + ParsingError on Integrity/InterfaceError;
   any other exception: close without commit (= rollback) and propagate.  Returns the caller-visible outcome, the database file
   afterwards, the registry afterwards (lost when the process died) and the number of statements executed. *)
Definition with_conn (flt : fault) (cf : cfault) (p : prog ret) (d : db) (r : reg) : outcome * db * reg * nat :=
  let '(res, s) := run flt (seqP (ex pragma_fk) p) (mkSt d r 0) in
  match res with
  | Good a => match cf with
              | CNone => (OOk a, s_db s, s_reg s, s_n s)
              | CBeforeCommit => (ODied, d, s_reg s, s_n s)
              | CAfterCommit => (ODied, s_db s, s_reg s, s_n s)
              | CCommitRaises ECrash => (ODied, d, s_reg s, s_n s)
              | CCommitRaises e => (OOther e, d, s_reg s, s_n s) end
  | Bad EIntegrity | Bad EInterface => (OParsing, d, s_reg s, s_n s)
  | Bad ECrash => (ODied, d, s_reg s, s_n s)
  | Bad e => (OOther e, d, s_reg s, s_n s) end.
Definition run_op (o : op) (d : db) (r : reg) := with_conn None CNone (body o) d r.

(* several database files, one registry per process *)
Definition files := list db.
Fixpoint set_nth {X} (n : nat) (x : X) (l : list X) : list X :=
  match l, n with [], _ => [] | _ :: r, O => x :: r | y :: r, S m => y :: set_nth m x r end.
Definition empty_store := mkS [] 1 [] 1 [] 1.
Definition empty_db := mkDb empty_store empty_store [] 1 [] [] 1 [] 1.
Definition step (fs : files) (r : reg) (fo : nat * op) : outcome * files * reg * nat :=
  let d := nth (fst fo) fs empty_db in
  let '(oc, d', r', n) := run_op (snd fo) d r in (oc, set_nth (fst fo) d' fs, r', n).
Fixpoint run_hist (fs : files) (r : reg) (h : list (nat * op)) : list outcome * files * reg :=
  match h with
  | [] => ([], fs, r)
  | fo :: t => let '(oc, fs', r', _) := step fs r fo in
               let '(ocs, fs'', r'') := run_hist fs' r' t in (oc :: ocs, fs'', r'') end.
