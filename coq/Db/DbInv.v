(* Well-formedness invariant of the table model (Db/DbModel.v) and its preservation:
     unique names / ids / type names / isotherm ids, AUTOINCREMENT counters above every id in use, and NO ORPHANS - every property row
     has its owner and its type, every isotherm its material, adsorbate and type, every isotherm property / data row its isotherm.
   Every statement of the model preserves it (the schema's UNIQUE and FOREIGN KEY constraints, enforced immediately), hence every
   program built from these statements, run under with_connection with ANY fault and crash point, hence every public operation and
   every history (induction over the program tree and over the history). *)
From Coq Require Import ZArith List Bool Lia.
From PG Require Import Db.DbModel.
Import ListNotations.
Open Scope Z_scope.

(* ------------------------------------------------------------------ list facts *)
Lemma memZ_In : forall x l, memZ x l = true <-> In x l.
Proof.
  intros x l. unfold memZ. rewrite existsb_exists. split.
  - intros [y [Hy E]]. apply Z.eqb_eq in E. subst. exact Hy.
  - intro H. exists x. split; [exact H | apply Z.eqb_refl].
Qed.
Lemma memZ_false : forall x l, memZ x l = false <-> ~ In x l.
Proof.
  intros. rewrite <- memZ_In. destruct (memZ x l); split; intros H; try congruence; try (intro; congruence).
Qed.
Lemma NoDup_app_one : forall (x : Z) l, NoDup l -> ~ In x l -> NoDup (l ++ [x]).
Proof.
  induction l; simpl; intros Hn Hx; [constructor; [intros []|constructor]|].
  inversion Hn; subst. constructor.
  - rewrite in_app_iff. simpl. intros [H|[H|[]]]; [auto | subst; auto].
  - apply IHl; auto.
Qed.
Lemma NoDup_map_filter : forall X (f : X -> Z) (g : X -> bool) l, NoDup (map f l) -> NoDup (map f (filter g l)).
Proof.
  induction l; simpl; intros H; [constructor|]. inversion H; subst.
  destruct (g a); simpl; [constructor|]; auto.
  intro Hin. apply H2. apply in_map_iff in Hin. destruct Hin as [y [E Hy]]. apply filter_In in Hy. apply in_map_iff. exists y. tauto.
Qed.
Lemma in_map_filter : forall X (f : X -> Z) (g : X -> bool) l x, In x (map f (filter g l)) -> In x (map f l).
Proof. intros. apply in_map_iff in H. destruct H as [y [E Hy]]. apply filter_In in Hy. apply in_map_iff. exists y. tauto. Qed.
Lemma existsb_false_In : forall X (g : X -> bool) l, existsb g l = false -> forall x, In x l -> g x = false.
Proof.
  intros X g l H x Hx. destruct (g x) eqn:E; auto.
  assert (existsb g l = true) by (apply existsb_exists; exists x; auto). congruence.
Qed.

(* ------------------------------------------------------------------ the invariant *)
Definition store_wf (s : store) : Prop :=
  NoDup (names s) /\ NoDup (ids s) /\ (forall i, In i (ids s) -> i < nxt s) /\
  (forall p, In p (props s) -> In (p_own p) (ids s) /\ In (p_ty p) (tnames (types s))) /\
  NoDup (tnames (types s)).
Definition iso_refs (d : db) : Prop :=
  forall i, In i (isos d) -> In (i_ty i) (tnames (itypes d)) /\ In (i_mat i) (names (mat d)) /\ In (i_ads i) (names (ads d)).
Definition wf (d : db) : Prop :=
  store_wf (ads d) /\ store_wf (mat d) /\ NoDup (tnames (itypes d)) /\ NoDup (iso_ids d) /\ iso_refs d /\
  (forall p, In p (iprops d) -> In (p_own p) (iso_ids d)) /\
  (forall r, In r (idata d) -> In (d_iso r) (iso_ids d)).

(* the part of it that property C09 names: nothing is stored without its parent *)
Definition no_orphans (d : db) : Prop :=
  (forall p, In p (props (ads d)) -> In (p_own p) (ids (ads d))) /\
  (forall p, In p (props (mat d)) -> In (p_own p) (ids (mat d))) /\
  (forall i, In i (isos d) -> In (i_mat i) (names (mat d)) /\ In (i_ads i) (names (ads d))) /\
  (forall p, In p (iprops d) -> In (p_own p) (iso_ids d)) /\
  (forall r, In r (idata d) -> In (d_iso r) (iso_ids d)).
Lemma wf_no_orphans : forall d, wf d -> no_orphans d.
Proof.
  intros d (Ha & Hm & _ & _ & Hr & Hp & Hd).
  destruct Ha as (_ & _ & _ & Hpa & _). destruct Hm as (_ & _ & _ & Hpm & _).
  repeat split; auto; try (intros p Hp0; apply Hpa; auto); try (intros p Hp0; apply Hpm; auto); apply Hr; auto.
Qed.

Lemma empty_store_wf : store_wf empty_store.
Proof. unfold store_wf, empty_store; simpl. repeat split; try constructor; intros; contradiction. Qed.
Lemma empty_db_wf : wf empty_db.
Proof.
  unfold wf, empty_db; simpl. split; [apply empty_store_wf|]. split; [apply empty_store_wf|].
  repeat split; try constructor; intros; contradiction.
Qed.

(* the two entity stores are treated alike: wf seen from the store e and the other one *)
Definition other (e : ent) : ent := match e with EAds => EMat | EMat => EAds end.
Definition ref_of (e : ent) (i : irow) : Z := match e with EAds => i_ads i | EMat => i_mat i end.
Lemma wf_split : forall e d,
  wf d <-> store_wf (gs e d) /\ store_wf (gs (other e) d) /\ NoDup (tnames (itypes d)) /\ NoDup (iso_ids d) /\
           (forall i, In i (isos d) -> In (i_ty i) (tnames (itypes d)) /\ In (ref_of e i) (names (gs e d)) /\ In (ref_of (other e) i) (names (gs (other e) d))) /\
           (forall p, In p (iprops d) -> In (p_own p) (iso_ids d)) /\ (forall r, In r (idata d) -> In (d_iso r) (iso_ids d)).
Proof.
  intros e d. unfold wf, iso_refs. destruct e; simpl; split; intros (H1 & H2 & H3 & H4 & H5 & H6 & H7);
    (split; [assumption|]); (split; [assumption|]); (split; [assumption|]); (split; [assumption|]); (split; [|split; assumption]);
    intros i Hi; destruct (H5 i Hi) as (A & B & C); auto.
Qed.
(* replacing the store e leaves everything else in place *)
Lemma gs_ss_same : forall e s d, gs e (ss e s d) = s. Proof. destruct e; reflexivity. Qed.
Lemma gs_ss_other : forall e s d, gs (other e) (ss e s d) = gs (other e) d. Proof. destruct e; reflexivity. Qed.
Lemma ss_itypes : forall e s d, itypes (ss e s d) = itypes d. Proof. destruct e; reflexivity. Qed.
Lemma ss_isos : forall e s d, isos (ss e s d) = isos d. Proof. destruct e; reflexivity. Qed.
Lemma ss_iprops : forall e s d, iprops (ss e s d) = iprops d. Proof. destruct e; reflexivity. Qed.
Lemma ss_idata : forall e s d, idata (ss e s d) = idata d. Proof. destruct e; reflexivity. Qed.

(* a new content of store e that is itself well formed and still holds every name the isotherms refer to *)
Lemma wf_ss : forall e s d, wf d -> store_wf s ->
  (forall i, In i (isos d) -> In (ref_of e i) (names s)) -> wf (ss e s d).
Proof.
  intros e s d H Hs Hn. apply (wf_split e) in H. apply (wf_split e).
  destruct H as (H1 & H2 & H3 & H4 & H5 & H6 & H7).
  rewrite gs_ss_same, gs_ss_other, ss_itypes. unfold iso_ids in *. rewrite ss_isos, ss_iprops, ss_idata.
  (split; [assumption|]); (split; [assumption|]); (split; [assumption|]); (split; [assumption|]); (split; [|split; assumption]).
  intros i Hi. destruct (H5 i Hi) as (A & B & C). auto.
Qed.

(* ------------------------------------------------------------------ every statement preserves the invariant *)
Definition pres {B} (f : stmt B) : Prop := forall d b d', wf d -> f d = Good (b, d') -> wf d'.

Lemma pres_read : forall B (g : db -> B), pres (fun d => Good (g d, d)).
Proof. intros B g d b d' H E. inversion E; subst; auto. Qed.

Lemma pres_ins_ent : forall e name, pres (ins_ent e name).
Proof.
  intros e name d b d' H E. unfold ins_ent in E.
  destruct (memZ name (names (gs e d))) eqn:Em; [discriminate|]. inversion E; subst; clear E.
  apply memZ_false in Em.
  pose proof H as H0. apply (wf_split e) in H0. destruct H0 as ((N1 & N2 & N3 & N4 & N5) & _ & _ & _ & R & _).
  apply wf_ss; auto.
  - unfold store_wf, names, ids in *; simpl. rewrite !map_app; simpl. repeat split; auto.
    + apply NoDup_app_one; auto.
    + apply NoDup_app_one; auto. intro Hin. apply N3 in Hin. lia.
    + intros i Hi. apply in_app_iff in Hi. destruct Hi as [Hi|[Hi|[]]]; [apply N3 in Hi; lia | lia].
    + apply in_app_iff. left. apply N4; auto.
    + apply N4; auto.
  - intros i Hi. unfold names; simpl. rewrite map_app. apply in_app_iff. left. apply (R i Hi).
Qed.

Lemma pres_ins_prop : forall e own ty v, pres (ins_prop e own ty v).
Proof.
  intros e own ty v d b d' H E. unfold ins_prop in E.
  destruct (is_null (store_real v)); [discriminate|].
  destruct (negb (memZ own (ids (gs e d))) || negb (memZ ty (tnames (types (gs e d))))) eqn:Ef; [discriminate|].
  apply orb_false_iff in Ef. destruct Ef as [E1 E2]. apply negb_false_iff in E1, E2. apply memZ_In in E1, E2.
  inversion E; subst; clear E.
  pose proof H as H0. apply (wf_split e) in H0. destruct H0 as ((N1 & N2 & N3 & N4 & N5) & _ & _ & _ & R & _).
  apply wf_ss; auto.
  - unfold store_wf, names, ids in *; simpl. repeat split; auto; apply in_app_iff in H0; destruct H0 as [H0|[H0|[]]]; subst; simpl; auto; apply N4; auto.
  - intros i Hi. apply (R i Hi).
Qed.

Lemma pres_del_props : forall e own, pres (del_props e own).
Proof.
  intros e own d b d' H E. unfold del_props in E. inversion E; subst; clear E.
  pose proof H as H0. apply (wf_split e) in H0. destruct H0 as ((N1 & N2 & N3 & N4 & N5) & _ & _ & _ & R & _).
  apply wf_ss; auto.
  - unfold store_wf, names, ids in *; simpl. repeat split; auto; apply filter_In in H0; apply N4; tauto.
  - intros i Hi. apply (R i Hi).
Qed.

Lemma find_name_In : forall i l n, find_name i l = Some n -> In (i, n) l.
Proof.
  induction l as [|[j m] l IH]; simpl; intros n H; [discriminate|].
  destruct (j =? i) eqn:E; [apply Z.eqb_eq in E; inversion H; subst; auto | right; auto].
Qed.
Lemma find_name_None : forall i l, find_name i l = None -> ~ In i (map fst l).
Proof.
  induction l as [|[j m] l IH]; simpl; intros H; [tauto|].
  destruct (j =? i) eqn:E; [discriminate|]. apply Z.eqb_neq in E. intros [A|A]; [auto | apply IH; auto].
Qed.
Lemma NoDup_fst_functional : forall (l : list (Z * Z)) i n m, NoDup (map fst l) -> In (i, n) l -> In (i, m) l -> n = m.
Proof.
  induction l as [|[j k] l IH]; simpl; intros i n m Hn H1 H2; [contradiction|]. inversion Hn; subst.
  destruct H1 as [H1|H1], H2 as [H2|H2].
  - congruence.
  - inversion H1; subst. exfalso. apply H3. apply in_map_iff. exists (i, m). auto.
  - inversion H2; subst. exfalso. apply H3. apply in_map_iff. exists (i, n). auto.
  - eapply IH; eauto.
Qed.

Lemma pres_del_ent : forall e i, pres (del_ent e i).
Proof.
  intros e i d b d' H E. unfold del_ent in E.
  destruct (existsb (fun p => p_own p =? i) (props (gs e d))) eqn:Ep; [discriminate|].
  destruct (match find_name i (rows (gs e d)) with Some n => referenced e n d | None => false end) eqn:Er; [discriminate|].
  inversion E; subst; clear E.
  pose proof H as H0. apply (wf_split e) in H0. destruct H0 as ((N1 & N2 & N3 & N4 & N5) & _ & _ & _ & R & _).
  assert (Hkeep : forall j m, In (j, m) (rows (gs e d)) -> j <> i -> In (j, m) (filter (fun r => negb (fst r =? i)) (rows (gs e d)))).
  { intros j m Hin Hne. apply filter_In. split; auto. simpl. apply negb_true_iff. apply Z.eqb_neq. auto. }
  apply wf_ss; auto.
  - unfold store_wf, names, ids in *; simpl. repeat split; auto.
    + apply NoDup_map_filter; auto.
    + apply NoDup_map_filter; auto.
    + intros j Hj. apply in_map_filter in Hj. auto.
    + destruct (N4 p H0) as [A _]. apply in_map_iff in A. destruct A as [[j m] [Ej Hj]]. simpl in Ej. subst j.
      apply in_map_iff. exists (p_own p, m). split; auto. apply Hkeep; auto.
      pose proof (existsb_false_In _ _ _ Ep p H0) as Hq. simpl in Hq. apply Z.eqb_neq in Hq. auto.
    + apply N4; auto.
  - intros x Hx. destruct (R x Hx) as (_ & B & _). unfold names in *; simpl.
    apply in_map_iff in B. destruct B as [[j m] [Em Hj]]. simpl in Em. subst m.
    apply in_map_iff. exists (j, ref_of e x). split; auto. apply Hkeep; auto. intro Eji. subst j.
    destruct (find_name i (rows (gs e d))) as [n|] eqn:Ef.
    + apply find_name_In in Ef. assert (n = ref_of e x) by (eapply NoDup_fst_functional; eauto). subst n.
      unfold referenced in Er. pose proof (existsb_false_In _ _ _ Er x Hx) as Hq. simpl in Hq.
      destruct e; simpl in Hq; rewrite Z.eqb_refl in Hq; discriminate.
    + apply find_name_None in Ef. apply Ef. apply in_map_iff. exists (i, ref_of e x). auto.
Qed.

(* ---- the *_type tables *)
Lemma tnames_upd : forall ty u ds l, tnames (map (fun r => if t_ty r =? ty then mkT (t_id r) ty u ds else r) l) = tnames l.
Proof.
  intros. unfold tnames. rewrite map_map. apply map_ext. intro r. destruct (t_ty r =? ty) eqn:E; simpl; auto. apply Z.eqb_eq in E. auto.
Qed.
(* replacing the list of types of table t by one with (at least) the names in use *)
Lemma wf_st : forall t l n d, wf d -> missing t = false -> NoDup (tnames l) ->
  (forall ty, In ty (tnames (fst (gt t d))) -> type_used t ty d = true -> In ty (tnames l)) -> wf (st t l n d).
Proof.
  intros t l n d H Hm Hn Hk. destruct H as (Ha & Hmt & Ht & Hi & Hr & Hp & Hd).
  assert (Hstore : forall s, store_wf s -> (forall ty, In ty (tnames (types s)) -> existsb (fun p => p_ty p =? ty) (props s) = true -> In ty (tnames l)) ->
                   store_wf (mkS (rows s) (nxt s) (props s) (pnxt s) l n)).
  { intros s (N1 & N2 & N3 & N4 & N5) Hk0. unfold store_wf, names, ids in *; simpl.
    split; [exact N1|]. split; [exact N2|]. split; [exact N3|]. split; [|exact Hn].
    intros p Hp0. destruct (N4 p Hp0) as [A B]. split; [exact A|].
    apply Hk0; [exact B|]. apply existsb_exists. exists p. split; auto. apply Z.eqb_refl. }
  destruct t; simpl in Hm; try discriminate; unfold st, wf, iso_refs in *; simpl in *.
  - split; [apply Hstore; auto|]. split; [exact Hmt|]. split; [exact Ht|]. split; [exact Hi|]. split; [exact Hr|]. split; assumption.
  - split; [exact Ha|]. split; [apply Hstore; auto|]. split; [exact Ht|]. split; [exact Hi|]. split; [exact Hr|]. split; assumption.
  - split; [exact Ha|]. split; [exact Hmt|]. split; [exact Hn|]. split; [exact Hi|]. split; [|split; assumption].
    intros i Hi0. destruct (Hr i Hi0) as (A & B & C). split; [|split; assumption].
    apply Hk; [exact A|]. apply existsb_exists. exists i. split; auto. apply Z.eqb_refl.
Qed.

Lemma pres_ins_type : forall t ty u ds, pres (ins_type t ty u ds).
Proof.
  intros t ty u ds d b d' H E. unfold ins_type in E. destruct (missing t) eqn:Em; [discriminate|].
  destruct (gt t d) as [l n] eqn:Eg. destruct (memZ ty (tnames l)) eqn:Emem; [discriminate|]. inversion E; subst; clear E.
  apply memZ_false in Emem.
  assert (Hl : NoDup (tnames l)).
  { destruct H as (Ha & Hmt & Ht & _). destruct t; simpl in Eg; inversion Eg; subst; try discriminate; [apply Ha | apply Hmt | exact Ht]. }
  apply wf_st; auto.
  - unfold tnames in *. rewrite map_app. simpl. apply NoDup_app_one; auto.
  - intros x Hx _. rewrite Eg in Hx. simpl in Hx. unfold tnames in *. rewrite map_app. apply in_app_iff. auto.
Qed.
Lemma pres_upd_type : forall t ty u ds, pres (upd_type t ty u ds).
Proof.
  intros t ty u ds d b d' H E. unfold upd_type in E. destruct (missing t) eqn:Em; [discriminate|].
  destruct (gt t d) as [l n] eqn:Eg. inversion E; subst; clear E.
  assert (Hl : NoDup (tnames l)).
  { destruct H as (Ha & Hmt & Ht & _). destruct t; simpl in Eg; inversion Eg; subst; try discriminate; [apply Ha | apply Hmt | exact Ht]. }
  apply wf_st; auto.
  - rewrite tnames_upd. auto.
  - intros x Hx _. rewrite Eg in Hx. simpl in Hx. rewrite tnames_upd. auto.
Qed.
Lemma pres_del_type : forall t ty, pres (del_type t ty).
Proof.
  intros t ty d b d' H E. unfold del_type in E. destruct (missing t) eqn:Em; [discriminate|].
  destruct (gt t d) as [l n] eqn:Eg. destruct (type_used t ty d) eqn:Eu; [discriminate|]. inversion E; subst; clear E.
  assert (Hl : NoDup (tnames l)).
  { destruct H as (Ha & Hmt & Ht & _). destruct t; simpl in Eg; inversion Eg; subst; try discriminate; [apply Ha | apply Hmt | exact Ht]. }
  apply wf_st; auto.
  - apply NoDup_map_filter; auto.
  - intros x Hx Hux. rewrite Eg in Hx. simpl in Hx. unfold tnames in *.
    apply in_map_iff in Hx. destruct Hx as [r [Er Hr]]. apply in_map_iff. exists r. split; auto. apply filter_In. split; auto.
    apply negb_true_iff. apply Z.eqb_neq. intro Eq. rewrite Er in Eq. subst x. congruence.
Qed.
Lemma pres_sel_types : forall t, pres (sel_types t).
Proof. intros t d b d' H E. unfold sel_types in E. destruct (missing t); inversion E; subst; auto. Qed.
Lemma pres_sel_type_exists : forall t ty, pres (sel_type_exists t ty).
Proof. intros t ty d b d' H E. unfold sel_type_exists in E. destruct (missing t); inversion E; subst; auto. Qed.

(* ---- the isotherm tables *)
Lemma wf_iso_tables : forall d l ip ipn idt idn, wf d ->
  NoDup (map i_id l) ->
  (forall i, In i l -> In (i_ty i) (tnames (itypes d)) /\ In (i_mat i) (names (mat d)) /\ In (i_ads i) (names (ads d))) ->
  (forall p, In p ip -> In (p_own p) (map i_id l)) -> (forall r, In r idt -> In (d_iso r) (map i_id l)) ->
  wf (mkDb (ads d) (mat d) (itypes d) (itnxt d) l ip ipn idt idn).
Proof.
  intros d l ip ipn idt idn (Ha & Hm & Ht & _) H1 H2 H3 H4. unfold wf, iso_refs, iso_ids; simpl.
  split; [exact Ha|]. split; [exact Hm|]. split; [exact Ht|]. split; [exact H1|]. split; [exact H2|]. split; assumption.
Qed.
Lemma wf_parts : forall d, wf d -> NoDup (map i_id (isos d)) /\
  (forall i, In i (isos d) -> In (i_ty i) (tnames (itypes d)) /\ In (i_mat i) (names (mat d)) /\ In (i_ads i) (names (ads d))) /\
  (forall p, In p (iprops d) -> In (p_own p) (map i_id (isos d))) /\ (forall r, In r (idata d) -> In (d_iso r) (map i_id (isos d))).
Proof. intros d (_ & _ & _ & Hi & Hr & Hp & Hd). repeat split; auto; apply Hr; auto. Qed.

Lemma pres_ins_iso : forall i ty m a temp, pres (ins_iso i ty m a temp).
Proof.
  intros i ty m a temp d b d' H E. unfold ins_iso in E.
  destruct (is_null (store_real temp)); [discriminate|].
  destruct (memZ i (iso_ids d)) eqn:Ei; [discriminate|].
  destruct (negb (memZ ty (tnames (itypes d))) || negb (memZ m (names (mat d))) || negb (memZ a (names (ads d)))) eqn:Ef; [discriminate|].
  apply orb_false_iff in Ef. destruct Ef as [Ef E3]. apply orb_false_iff in Ef. destruct Ef as [E1 E2].
  apply negb_false_iff in E1, E2, E3. apply memZ_In in E1, E2, E3. apply memZ_false in Ei. unfold iso_ids in Ei.
  inversion E; subst; clear E. destruct (wf_parts d H) as (Hi & Hr & Hp & Hd).
  unfold set_iso. apply wf_iso_tables; auto.
  - rewrite map_app. simpl. apply NoDup_app_one; auto.
  - intros x Hx. apply in_app_iff in Hx. destruct Hx as [Hx|[Hx|[]]]; [apply Hr; auto | subst; simpl; auto].
  - intros p Hp0. rewrite map_app. apply in_app_iff. left. auto.
  - intros r Hr0. rewrite map_app. apply in_app_iff. left. auto.
Qed.
Lemma pres_ins_iprop : forall i ty v, pres (ins_iprop i ty v).
Proof.
  intros i ty v d b d' H E. unfold ins_iprop in E.
  destruct (is_null (store_real v)); [discriminate|]. destruct (negb (memZ i (iso_ids d))) eqn:Ei; [discriminate|].
  apply negb_false_iff in Ei. apply memZ_In in Ei. unfold iso_ids in Ei. inversion E; subst; clear E.
  destruct (wf_parts d H) as (Hi & Hr & Hp & Hd). apply wf_iso_tables; auto.
  intros p Hp0. apply in_app_iff in Hp0. destruct Hp0 as [Hp0|[Hp0|[]]]; [auto | subst; auto].
Qed.
Lemma pres_ins_idata : forall i ty dty data, pres (ins_idata i ty dty data).
Proof.
  intros i ty dty data d b d' H E. unfold ins_idata in E. destruct (negb (memZ i (iso_ids d))) eqn:Ei; [discriminate|].
  apply negb_false_iff in Ei. apply memZ_In in Ei. unfold iso_ids in Ei. inversion E; subst; clear E.
  destruct (wf_parts d H) as (Hi & Hr & Hp & Hd). apply wf_iso_tables; auto.
  intros r Hr0. apply in_app_iff in Hr0. destruct Hr0 as [Hr0|[Hr0|[]]]; [auto | subst; auto].
Qed.
Lemma pres_del_idata : forall i, pres (del_idata i).
Proof.
  intros i d b d' H E. unfold del_idata in E. inversion E; subst; clear E.
  destruct (wf_parts d H) as (Hi & Hr & Hp & Hd). apply wf_iso_tables; auto.
  intros r Hr0. apply filter_In in Hr0. apply Hd. tauto.
Qed.
Lemma pres_del_iprops : forall i, pres (del_iprops i).
Proof.
  intros i d b d' H E. unfold del_iprops in E. inversion E; subst; clear E.
  destruct (wf_parts d H) as (Hi & Hr & Hp & Hd). apply wf_iso_tables; auto.
  intros r Hr0. apply filter_In in Hr0. apply Hp. tauto.
Qed.
Lemma pres_del_iso : forall i, pres (del_iso i).
Proof.
  intros i d b d' H E. unfold del_iso in E.
  destruct (existsb (fun r => p_own r =? i) (iprops d) || existsb (fun r => d_iso r =? i) (idata d)) eqn:Ex; [discriminate|].
  apply orb_false_iff in Ex. destruct Ex as [E1 E2]. inversion E; subst; clear E.
  destruct (wf_parts d H) as (Hi & Hr & Hp & Hd).
  assert (Hkeep : forall j, In j (map i_id (isos d)) -> j <> i -> In j (map i_id (filter (fun r => negb (i_id r =? i)) (isos d)))).
  { intros j Hj Hne. apply in_map_iff in Hj. destruct Hj as [x [Ex Hx]]. apply in_map_iff. exists x. split; auto.
    apply filter_In. split; auto. apply negb_true_iff. apply Z.eqb_neq. congruence. }
  unfold set_iso. apply wf_iso_tables; auto.
  - apply NoDup_map_filter; auto.
  - intros x Hx. apply filter_In in Hx. apply Hr; tauto.
  - intros p Hp0. apply Hkeep; auto. pose proof (existsb_false_In _ _ _ E1 p Hp0) as Hq. simpl in Hq. apply Z.eqb_neq in Hq. auto.
  - intros r Hr0. apply Hkeep; auto. pose proof (existsb_false_In _ _ _ E2 r Hr0) as Hq. simpl in Hq. apply Z.eqb_neq in Hq. auto.
Qed.

(* ------------------------------------------------------------------ programs *)
Fixpoint wfprog {A} (p : prog A) : Prop :=
  match p with
  | Ret _ | Raise _ => True
  | Exec f h k => pres f /\ match h with Some q => wfprog q | None => True end /\ forall b, wfprog (k b)
  | RegOp f k => forall b, wfprog (k b) end.

Fixpoint run_wf {A} (p : prog A) : forall flt s, wfprog p -> wf (s_db s) -> wf (s_db (snd (run flt p s))).
Proof.
  destruct p as [a0|e0|B f h kk|B f kk]; intros flt s Hp Hs; simpl in *.
  - exact Hs.
  - exact Hs.
  - destruct Hp as [Hf [Hh Hk]].
    destruct (hits flt (S (s_n s))) as [e|].
    + destruct e; simpl; try exact Hs. destruct h as [q|]; simpl; [|exact Hs]. apply (run_wf _ q); simpl; assumption.
    + destruct (f (s_db s)) as [[b d']|e] eqn:Ef.
      * apply (run_wf _ (kk b)); simpl; [apply Hk | eapply Hf; eassumption].
      * destruct e; simpl; try exact Hs. destruct h as [q|]; simpl; [|exact Hs]. apply (run_wf _ q); simpl; assumption.
  - destruct (f (s_reg s)) as [b r']. apply (run_wf _ (kk b)); simpl; [apply Hp | exact Hs].
Qed.

Lemma wfprog_bind : forall A C (p : prog A) (g : A -> prog C), wfprog p -> (forall a, wfprog (g a)) -> wfprog (bindP p g).
Proof.
  fix IH 3. intros A C p g Hp Hg. destruct p as [a0|e0|B f h kk|B f kk]; simpl in *.
  - apply Hg.
  - exact I.
  - destruct Hp as [Hf [Hh Hk]]. split; [exact Hf|]. split.
    + destruct h as [q|]; [|exact I]. apply IH; [exact Hh | exact Hg].
    + intro b. apply IH; [apply Hk | exact Hg].
  - intro b. apply IH; [apply Hp | exact Hg].
Qed.
Lemma wfprog_ex : forall B (f : stmt B), pres f -> wfprog (ex f).
Proof. intros. simpl. split; [assumption|]. split; [exact I|]. intros; exact I. Qed.
Lemma wfprog_regop : forall A B (f : reg -> B * reg) (k : B -> prog A), (forall b, wfprog (k b)) -> wfprog (RegOp f k).
Proof. intros. exact H. Qed.
Lemma wfprog_seq : forall A C (p : prog A) (q : prog C), wfprog p -> wfprog q -> wfprog (seqP p q).
Proof. intros. apply wfprog_bind; auto. Qed.
Lemma wfprog_for : forall X (l : list X) f, (forall x, wfprog (f x)) -> wfprog (forP l f).
Proof. induction l; simpl; intros; auto. apply wfprog_seq; auto. Qed.

Lemma wfprog_ent_upload : forall e n ps a w, wfprog (ent_upload e n ps a w).
Proof.
  intros. unfold ent_upload.
  assert (Hrest : forall own, wfprog (seqP (if a then bindP (ex (sel_types match e with EAds => TAds | EMat => TMat end))
      (fun ts => forP (filter (fun p => negb (memZ (fst p) (tnames ts))) ps) (fun p => ex (ins_type match e with EAds => TAds | EMat => TMat end (fst p) VNull VNull))) else Ret tt)
      (seqP (forP ps (fun p => forP (snd p) (fun v => ex (ins_prop e own (fst p) v))))
         (RegOp (fun r => (tt, sreg e ((if w && memZ n (greg e r) then remove_first n (greg e r) else greg e r) ++ [n]) r)) Ret)))).
  { intro own. apply wfprog_seq.
    - destruct a; [|exact I]. apply wfprog_bind; [apply wfprog_ex, pres_sel_types|]. intro ts. apply wfprog_for. intro. apply wfprog_ex, pres_ins_type.
    - apply wfprog_seq.
      + apply wfprog_for. intro. apply wfprog_for. intro. apply wfprog_ex, pres_ins_prop.
      + simpl. intro. exact I. }
  destruct w.
  - apply wfprog_bind; [apply wfprog_ex; unfold sel_ent_id; apply pres_read|]. intros [own|]; [|exact I].
    simpl. split; [unfold sel_prop_owner; apply pres_read|]. split; [apply Hrest|].
    intros [|]; [|apply Hrest]. simpl. split; [apply pres_del_props|]. split; [apply Hrest|]. intro. apply Hrest.
  - apply wfprog_bind; [apply wfprog_ex, pres_ins_ent|]. intro own. apply Hrest.
Qed.

Theorem wfprog_body : forall o, wfprog (body o).
Proof.
  intros o. destruct o; unfold body.
  - apply wfprog_seq; [apply wfprog_ent_upload | exact I].
  - apply wfprog_bind; [|intro; exact I]. unfold ent_get. apply wfprog_bind; [apply wfprog_ex; unfold sel_all; apply pres_read|]. intro rs.
    induction rs as [|[i n] rs IH]; [exact I|].
    apply wfprog_bind; [apply wfprog_ex; unfold sel_props; apply pres_read|]. intro ps. apply wfprog_bind; [exact IH|]. intro; exact I.
  - apply wfprog_seq; [|exact I]. unfold ent_delete. apply wfprog_bind; [apply wfprog_ex; unfold sel_ent_id; apply pres_read|]. intros [i|]; [|exact I].
    apply wfprog_seq; [apply wfprog_ex, pres_del_props|]. apply wfprog_seq; [apply wfprog_ex, pres_del_ent|]. simpl. intro; exact I.
  - apply wfprog_seq; [|exact I]. unfold type_upload. destruct overwrite; apply wfprog_ex; [apply pres_upd_type | apply pres_ins_type].
  - apply wfprog_bind; [|intro; exact I]. apply wfprog_ex, pres_sel_types.
  - apply wfprog_seq; [|exact I]. unfold type_delete. apply wfprog_bind; [apply wfprog_ex, pres_sel_type_exists|].
    intros [|]; [apply wfprog_ex, pres_del_type | exact I].
  - apply wfprog_seq; [|exact I]. unfold iso_upload.
    apply wfprog_seq. { destruct am; [|exact I]. apply wfprog_regop. intros [|]; [exact I | apply wfprog_ent_upload]. }
    apply wfprog_seq. { destruct aa; [|exact I]. apply wfprog_regop. intros [|]; [exact I | apply wfprog_ent_upload]. }
    apply wfprog_seq; [apply wfprog_ex, pres_ins_iso|]. apply wfprog_seq.
    + apply wfprog_for. intro. apply wfprog_ex, pres_ins_iprop.
    + apply wfprog_for. intros [[ty dty] data]. apply wfprog_ex, pres_ins_idata.
  - apply wfprog_bind; [|intro; exact I]. unfold iso_get, iso_get_n. apply wfprog_bind; [apply wfprog_ex; unfold sel_isos; apply pres_read|]. intro rs.
    generalize (chunks (S (length rs)) iso_batch rs). intro cs. induction cs as [|ch cs IH]; [exact I|]. cbn [iso_get_chunks].
    apply wfprog_bind; [apply wfprog_ex; unfold sel_iprops_in; apply pres_read|]. intro ps.
    apply wfprog_bind; [apply wfprog_ex; unfold sel_idata_in; apply pres_read|]. intro ds.
    apply wfprog_bind; [exact IH|]. intro; exact I.
  - apply wfprog_seq; [|exact I]. unfold iso_delete. apply wfprog_bind; [apply wfprog_ex; unfold sel_iso_exists; apply pres_read|]. intros [|]; [|exact I].
    apply wfprog_seq; [apply wfprog_ex, pres_del_idata|]. apply wfprog_seq; apply wfprog_ex; [apply pres_del_iprops | apply pres_del_iso].
Qed.

(* ------------------------------------------------------------------ with_connection, operations, histories *)
Definition db_after (x : outcome * db * reg * nat) : db := snd (fst (fst x)).
(* ANY fault (statement k raises any error / the process dies there) and ANY crash point around commit *)
Theorem with_conn_wf : forall (p : prog ret) flt cf d r, wfprog p -> wf d -> wf (db_after (with_conn flt cf p d r)).
Proof.
  intros p flt cf d r Hp Hd. unfold with_conn, db_after.
  assert (Hw : wfprog (seqP (ex pragma_fk) p)).
  { apply wfprog_seq; auto. apply wfprog_ex. unfold pragma_fk. intros d0 b d0' H E. inversion E; subst; auto. }
  pose proof (run_wf _ flt (mkSt d r 0) Hw Hd) as Hs.
  destruct (run flt (seqP (ex pragma_fk) p) (mkSt d r 0)) as [res s]. simpl in Hs.
  destruct res as [a|e]; [destruct cf as [| | |e1]; [| | |destruct e1] | destruct e]; simpl; auto.
Qed.
Theorem faulted_op_wf : forall o flt cf d r, wf d -> wf (db_after (with_conn flt cf (body o) d r)).
Proof. intros. apply with_conn_wf; auto. apply wfprog_body. Qed.
Theorem run_op_wf : forall o d r, wf d -> wf (db_after (run_op o d r)).
Proof. intros. unfold run_op. apply faulted_op_wf; auto. Qed.

(* histories over several files *)
Lemma Forall_set_nth : forall X (P : X -> Prop) l n x, Forall P l -> P x -> Forall P (set_nth n x l).
Proof. induction l; destruct n; simpl; intros; auto; inversion H; subst; constructor; auto. Qed.
Lemma Forall_nth_default : forall X (P : X -> Prop) l n dflt, Forall P l -> P dflt -> P (nth n l dflt).
Proof. induction l; destruct n; simpl; intros; auto; inversion H; subst; auto. Qed.
Theorem run_hist_wf : forall h fs r, Forall wf fs -> Forall wf (snd (fst (run_hist fs r h))).
Proof.
  induction h as [|[f o] t IH]; intros fs r H; simpl; [exact H|].
  unfold step. simpl. pose proof (run_op_wf o (nth f fs empty_db) r (Forall_nth_default _ _ _ _ _ H empty_db_wf)) as Hw.
  destruct (run_op o (nth f fs empty_db) r) as [[[oc d'] r'] n]. unfold db_after in Hw. simpl in Hw.
  specialize (IH (set_nth f d' fs) r' (Forall_set_nth _ _ _ _ _ H Hw)).
  destruct (run_hist (set_nth f d' fs) r' t) as [[ocs fs''] r'']. simpl in *. exact IH.
Qed.

(* one file, a history of calls each with its own fault / crash point; after a process death the registries of the next process are
   arbitrary (regs k) *)
Fixpoint run_faulty (d : db) (regs : nat -> reg) (h : list (op * fault * cfault)) : db :=
  match h with
  | [] => d
  | (o, f, c) :: t => run_faulty (db_after (with_conn f c (body o) d (regs (length t)))) regs t end.
Theorem faulty_history_wf : forall h d regs, wf d -> wf (run_faulty d regs h).
Proof. induction h as [|[[o f] c] t IH]; simpl; intros; auto. apply IH. apply faulted_op_wf; auto. Qed.
Corollary faulty_history_no_orphans : forall h regs, no_orphans (run_faulty empty_db regs h).
Proof. intros. apply wf_no_orphans. apply faulty_history_wf. apply empty_db_wf. Qed.

(* ------------------------------------------------------------------ a decision procedure for the invariant (used by the harness on the
   content that db_create ships, so that the hypothesis `wf d` of the refinement theorems is CHECKED for the files the histories start from) *)
Fixpoint nodupb (l : list Z) : bool := match l with [] => true | x :: r => negb (memZ x r) && nodupb r end.
Lemma nodupb_NoDup : forall l, nodupb l = true -> NoDup l.
Proof.
  induction l; simpl; intros H; [constructor|]. apply andb_true_iff in H. destruct H as [H1 H2].
  apply negb_true_iff in H1. apply memZ_false in H1. constructor; auto.
Qed.
Definition store_wfb (s : store) : bool :=
  nodupb (names s) && nodupb (ids s) && forallb (fun i => i <? nxt s) (ids s)
  && forallb (fun p => memZ (p_own p) (ids s) && memZ (p_ty p) (tnames (types s))) (props s) && nodupb (tnames (types s)).
Definition wfb (d : db) : bool :=
  store_wfb (ads d) && store_wfb (mat d) && nodupb (tnames (itypes d)) && nodupb (iso_ids d)
  && forallb (fun i => memZ (i_ty i) (tnames (itypes d)) && memZ (i_mat i) (names (mat d)) && memZ (i_ads i) (names (ads d))) (isos d)
  && forallb (fun p => memZ (p_own p) (iso_ids d)) (iprops d) && forallb (fun r => memZ (d_iso r) (iso_ids d)) (idata d).
Lemma store_wfb_sound : forall s, store_wfb s = true -> store_wf s.
Proof.
  intros s H. unfold store_wfb in H.
  apply andb_true_iff in H; destruct H as [H He]. apply andb_true_iff in H; destruct H as [H Hd].
  apply andb_true_iff in H; destruct H as [H Hc]. apply andb_true_iff in H; destruct H as [Ha Hb].
  unfold store_wf. split; [apply nodupb_NoDup; exact Ha|]. split; [apply nodupb_NoDup; exact Hb|].
  split; [|split; [|apply nodupb_NoDup; exact He]].
  - intros i Hi. rewrite forallb_forall in Hc. apply Z.ltb_lt. apply Hc; auto.
  - intros p Hp. rewrite forallb_forall in Hd. specialize (Hd p Hp). apply andb_true_iff in Hd. destruct Hd as [A B].
    split; apply memZ_In; assumption.
Qed.
Theorem wfb_sound : forall d, wfb d = true -> wf d.
Proof.
  intros d H. unfold wfb in H.
  apply andb_true_iff in H; destruct H as [H Hg]. apply andb_true_iff in H; destruct H as [H Hf].
  apply andb_true_iff in H; destruct H as [H He]. apply andb_true_iff in H; destruct H as [H Hd].
  apply andb_true_iff in H; destruct H as [H Hc]. apply andb_true_iff in H; destruct H as [Ha Hb].
  unfold wf, iso_refs. split; [apply store_wfb_sound; exact Ha|]. split; [apply store_wfb_sound; exact Hb|].
  split; [apply nodupb_NoDup; exact Hc|]. split; [apply nodupb_NoDup; exact Hd|]. split; [|split].
  - intros i Hi. rewrite forallb_forall in He. specialize (He i Hi). apply andb_true_iff in He. destruct He as [He C].
    apply andb_true_iff in He. destruct He as [A B]. repeat split; apply memZ_In; assumption.
  - intros p Hp. rewrite forallb_forall in Hf. apply memZ_In. apply Hf; auto.
  - intros r Hr. rewrite forallb_forall in Hg. apply memZ_In. apply Hg; auto.
Qed.
