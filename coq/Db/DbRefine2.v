(* C08: refinement of the dictionary model (Db/DbSpec.v) by the table/statement model (Db/DbModel.v) for the entity operations
   (adsorbate / material deletion and upload, with and without overwrite, with and without auto-insert of property types), under the
   well-formedness invariant of Db/DbInv.v - which every operation preserves, so the refinement composes over histories.
   The dictionary keeps values as the REAL-affinity column keeps them (conv = store_real): the difference to the plain dictionary
   (numeric-looking text) is the refuted item numeric_text_property_refuted (C08-F3). *)
From Coq Require Import ZArith List Bool Lia.
From PG Require Import Db.DbModel Db.DbSpec Db.DbRefine Db.DbInv.
Import ListNotations.
Open Scope Z_scope.

Definition oc_of (x : outcome * db * reg * nat) : outcome := fst (fst (fst x)).

(* ------------------------------------------------------------------ abstraction and the store selectors *)
Lemma abs_iso_ext : forall d d', iprops d' = iprops d -> idata d' = idata d -> forall i, abs_iso d' i = abs_iso d i.
Proof. intros d d' H1 H2 i. unfold abs_iso. rewrite H1, H2. reflexivity. Qed.
Lemma abs_ss : forall e s d, abs (ss e s d) = sss e (abs_store s) (abs d).
Proof.
  intros e s d. destruct e; unfold abs, ss, sss; simpl; f_equal; apply map_ext; intro i; apply abs_iso_ext; reflexivity.
Qed.
Lemma sgs_abs : forall e d, sgs e (abs d) = abs_store (gs e d).
Proof. destruct e; reflexivity. Qed.
Lemma keys_abs_store : forall s, keys (s_items (abs_store s)) = names s.
Proof. intros s. unfold keys, abs_store, names; simpl. rewrite map_map. reflexivity. Qed.
Lemma tkeys_abs_store : forall s, tkeys (s_types (abs_store s)) = tnames (types s).
Proof. intros s. unfold tkeys, abs_store, tnames; simpl. rewrite map_map. reflexivity. Qed.
Lemma sreferenced_abs : forall e name d, sreferenced e name (abs d) = referenced e name d.
Proof.
  intros e name d. unfold sreferenced, referenced, abs; simpl. induction (isos d) as [|i l IH]; simpl; [reflexivity|].
  rewrite IH. destruct e; reflexivity.
Qed.

(* ------------------------------------------------------------------ look-ups in well-formed tables *)
Lemma find_id_In : forall name l i, find_id name l = Some i -> In (i, name) l.
Proof.
  induction l as [|[j m] l IH]; simpl; intros i H; [discriminate|].
  destruct (m =? name) eqn:E; [apply Z.eqb_eq in E; inversion H; subst; auto | right; auto].
Qed.
Lemma find_id_None : forall name l, find_id name l = None -> ~ In name (map snd l).
Proof.
  induction l as [|[j m] l IH]; simpl; intros H; [tauto|].
  destruct (m =? name) eqn:E; [discriminate|]. apply Z.eqb_neq in E. intros [A|A]; [auto | apply IH; auto].
Qed.
Lemma find_id_Some : forall name l, In name (map snd l) -> exists i, find_id name l = Some i.
Proof.
  intros name l H. destruct (find_id name l) eqn:E; [eauto|]. apply find_id_None in E. contradiction.
Qed.
Lemma find_name_of_In : forall l i n, NoDup (map fst l) -> In (i, n) l -> find_name i l = Some n.
Proof.
  intros l i n Hn Hin. destruct (find_name i l) as [m|] eqn:E.
  - apply find_name_In in E. f_equal. eapply NoDup_fst_functional; eauto.
  - apply find_name_None in E. exfalso. apply E. apply in_map_iff. exists (i, n). auto.
Qed.
Lemma NoDup_snd_functional : forall (l : list (Z * Z)) i j n, NoDup (map snd l) -> In (i, n) l -> In (j, n) l -> i = j.
Proof.
  induction l as [|[a b] l IH]; simpl; intros i j n Hn H1 H2; [contradiction|]. inversion Hn; subst.
  destruct H1 as [H1|H1], H2 as [H2|H2].
  - congruence.
  - inversion H1; subst. exfalso. apply H3. apply in_map_iff. exists (j, n). auto.
  - inversion H2; subst. exfalso. apply H3. apply in_map_iff. exists (i, n). auto.
  - eapply IH; eauto.
Qed.

(* ------------------------------------------------------------------ deletion of an adsorbate / material *)
Definition item_of (ps : list prow) (r : Z * Z) : Z * sprops :=
  (snd r, map (fun p => (p_ty p, p_val p)) (filter (fun p => p_own p =? fst r) ps)).
Lemma abs_store_items : forall s, s_items (abs_store s) = map (item_of (props s)) (rows s).
Proof. reflexivity. Qed.

Lemma items_after_delete : forall (rs : list (Z * Z)) ps i name,
  (forall j m, In (j, m) rs -> (j = i <-> m = name)) ->
  map (item_of (filter (fun p => negb (p_own p =? i)) ps)) (filter (fun r => negb (fst r =? i)) rs)
  = filter (fun it => negb (fst it =? name)) (map (item_of ps) rs).
Proof.
  induction rs as [|[j m] rs IH]; intros ps i name Hf; simpl; [reflexivity|].
  assert (Hjm := Hf j m (or_introl eq_refl)).
  assert (IH' := IH ps i name (fun j0 m0 H => Hf j0 m0 (or_intror H))).
  destruct (j =? i) eqn:Ej; simpl.
  - apply Z.eqb_eq in Ej. apply Hjm in Ej. subst m. rewrite Z.eqb_refl. simpl. exact IH'.
  - apply Z.eqb_neq in Ej. assert (m <> name) by (intro; apply Ej; apply Hjm; auto).
    apply Z.eqb_neq in H. rewrite H. simpl. f_equal; [|exact IH'].
    unfold item_of; simpl. f_equal. f_equal. apply (filter_filter_other _ p_own i j). auto.
Qed.

Lemma del_ent_after : forall e i S1 d,
  del_ent e i (ss e S1 d) =
  if existsb (fun p => p_own p =? i) (props S1) then Bad EIntegrity
  else if match find_name i (rows S1) with Some n => referenced e n d | None => false end then Bad EIntegrity
  else Good (tt, ss e (mkS (filter (fun r => negb (fst r =? i)) (rows S1)) (nxt S1) (props S1) (pnxt S1) (types S1) (tnxt S1)) d).
Proof. intros. destruct e; reflexivity. Qed.

Theorem ent_delete_refines : forall e name d r, wf d ->
  match s_ent_delete e name (abs d) with
  | Some s' => oc_of (run_op (EntDel e name) d r) = OOk RUnit /\ abs (db_after (run_op (EntDel e name) d r)) = s'
  | None => oc_of (run_op (EntDel e name) d r) = OParsing /\ db_after (run_op (EntDel e name) d r) = d end.
Proof.
  intros e name d r H. pose proof H as H0. apply (wf_split e) in H0. destruct H0 as ((N1 & N2 & N3 & N4 & N5) & _).
  unfold s_ent_delete. rewrite sgs_abs, keys_abs_store, sreferenced_abs.
  unfold run_op, with_conn, body, ent_delete, oc_of, db_after. simpl. unfold sel_ent_id.
  destruct (memZ name (names (gs e d))) eqn:Em; simpl.
  - apply memZ_In in Em. destruct (find_id_Some _ _ Em) as [i Ei]. rewrite Ei. simpl.
    pose proof (find_id_In _ _ _ Ei) as Hin.
    rewrite del_ent_after. simpl.
    rewrite (existsb_filter_neg _ p_own). simpl.
    rewrite (find_name_of_In _ _ _ N2 Hin).
    destruct (referenced e name d) eqn:Er; simpl.
    + split; reflexivity.
    + split; [reflexivity|]. rewrite abs_ss. f_equal. unfold abs_store at 1; simpl. f_equal.
      apply (items_after_delete (rows (gs e d)) (props (gs e d)) i name). intros j m Hjm. split; intro; subst.
      * eapply NoDup_fst_functional; eauto.
      * eapply NoDup_snd_functional; eauto.
  - apply memZ_false in Em. destruct (find_id name (rows (gs e d))) as [i|] eqn:Ei.
    + exfalso. apply Em. apply find_id_In in Ei. apply in_map_iff. exists (i, name). auto.
    + simpl. split; reflexivity.
Qed.

(* ------------------------------------------------------------------ running programs piecewise *)
Lemma run_bind : forall A C (p : prog A) (g : A -> prog C) flt s,
  run flt (bindP p g) s = match run flt p s with (Good a, s') => run flt (g a) s' | (Bad e, s') => (Bad e, s') end.
Proof.
  fix IH 3. intros A C p g flt s. destruct p as [a0|e0|B f h kk|B f kk]; simpl.
  - reflexivity.
  - reflexivity.
  - destruct (match hits flt (S (s_n s)) with Some e => Bad e | None => f (s_db s) end) as [[b d']|e].
    + apply IH.
    + destruct e; try reflexivity. destruct h as [q|]; [apply IH | reflexivity].
  - destruct (f (s_reg s)) as [b r']. apply IH.
Qed.
Lemma run_ex : forall B (f : stmt B) s,
  run None (ex f) s = match f (s_db s) with
                      | Good (b, d') => (Good b, mkSt d' (s_reg s) (S (s_n s)))
                      | Bad e => (Bad e, mkSt (s_db s) (s_reg s) (S (s_n s))) end.
Proof. intros. simpl. destruct (f (s_db s)) as [[b d']|e]; [reflexivity | destruct e; reflexivity]. Qed.
Lemma ss_ss : forall e s1 s2 d, ss e s2 (ss e s1 d) = ss e s2 d.
Proof. destruct e; reflexivity. Qed.
Lemma ss_gs : forall e d, ss e (gs e d) d = d.
Proof. destruct e, d; reflexivity. Qed.

(* ---- the loop `for prop, val in properties.items(): [for v in val:] INSERT INTO <e>_properties` as a function on the store *)
Definition with_props (s : store) (ps : list prow) (n : Z) : store := mkS (rows s) (nxt s) ps n (types s) (tnxt s).
Fixpoint add_props (own : Z) (kvs : list (Z * val)) (s : store) : option store :=
  match kvs with
  | [] => Some s
  | (ty, v) :: r =>
      if is_null (store_real v) then None
      else if negb (memZ own (ids s)) || negb (memZ ty (tnames (types s))) then None
      else add_props own r (with_props s (props s ++ [mkP (pnxt s) own ty (store_real v)]) (pnxt s + 1)) end.
Lemma add_props_app : forall own a b s,
  add_props own (a ++ b) s = match add_props own a s with Some s1 => add_props own b s1 | None => None end.
Proof.
  induction a as [|[ty v] a IH]; intros b s; simpl; [reflexivity|].
  destruct (is_null (store_real v)); [reflexivity|].
  destruct (negb (memZ own (ids s)) || negb (memZ ty (tnames (types s)))); [reflexivity|]. apply IH.
Qed.

Definition res_ok {A} (x : R A * state) : bool := match fst x with Good _ => true | Bad _ => false end.
Definition only_integrity {A} (x : R A * state) : Prop := match fst x with Good _ => True | Bad e => e = EIntegrity end.

Lemma ins_prop_eval : forall e own ty v d,
  ins_prop e own ty v d =
  if is_null (store_real v) then Bad EIntegrity
  else if negb (memZ own (ids (gs e d))) || negb (memZ ty (tnames (types (gs e d)))) then Bad EIntegrity
  else Good (tt, ss e (with_props (gs e d) (props (gs e d) ++ [mkP (pnxt (gs e d)) own ty (store_real v)]) (pnxt (gs e d) + 1)) d).
Proof. reflexivity. Qed.

(* inner loop: the values of one property *)
Lemma run_inner_props : forall e own ty vs s,
  match add_props own (map (fun v => (ty, v)) vs) (gs e (s_db s)) with
  | Some s' => fst (run None (forP vs (fun v => ex (ins_prop e own ty v))) s) = Good tt
               /\ s_db (snd (run None (forP vs (fun v => ex (ins_prop e own ty v))) s)) = ss e s' (s_db s)
               /\ s_reg (snd (run None (forP vs (fun v => ex (ins_prop e own ty v))) s)) = s_reg s
  | None => fst (run None (forP vs (fun v => ex (ins_prop e own ty v))) s) = Bad EIntegrity end.
Proof.
  induction vs as [|v vs IH]; intros s; simpl map; simpl add_props.
  - simpl. rewrite ss_gs. auto.
  - simpl forP. unfold seqP. rewrite run_bind, run_ex. rewrite ins_prop_eval.
    destruct (is_null (store_real v)); [reflexivity|].
    destruct (negb (memZ own (ids (gs e (s_db s)))) || negb (memZ ty (tnames (types (gs e (s_db s)))))); [reflexivity|].
    set (s1 := with_props (gs e (s_db s)) (props (gs e (s_db s)) ++ [mkP (pnxt (gs e (s_db s))) own ty (store_real v)]) (pnxt (gs e (s_db s)) + 1)).
    specialize (IH (mkSt (ss e s1 (s_db s)) (s_reg s) (S (s_n s)))). simpl s_db in IH. rewrite gs_ss_same in IH.
    destruct (add_props own (map (fun v0 => (ty, v0)) vs) s1) as [s'|].
    + destruct IH as (A & B & C). rewrite A, B, C. simpl. rewrite ss_ss. auto.
    + exact IH.
Qed.

Definition prop_prog (e : ent) (own : Z) (ps : plist) : prog unit :=
  forP ps (fun p => forP (snd p) (fun v => ex (ins_prop e own (fst p) v))).
Lemma run_prop_prog : forall e own ps s,
  match add_props own (flatten ps) (gs e (s_db s)) with
  | Some s' => fst (run None (prop_prog e own ps) s) = Good tt
               /\ s_db (snd (run None (prop_prog e own ps) s)) = ss e s' (s_db s)
               /\ s_reg (snd (run None (prop_prog e own ps) s)) = s_reg s
  | None => fst (run None (prop_prog e own ps) s) = Bad EIntegrity end.
Proof.
  induction ps as [|[ty vs] ps IH]; intros s.
  - simpl. rewrite ss_gs. auto.
  - unfold prop_prog. simpl forP. fold (prop_prog e own ps). unfold seqP. rewrite run_bind.
    unfold flatten. simpl flat_map. fold (flatten ps). rewrite add_props_app.
    pose proof (run_inner_props e own ty vs s) as Hin.
    destruct (add_props own (map (fun v => (ty, v)) vs) (gs e (s_db s))) as [s1|].
    + destruct Hin as (A & B & C).
      destruct (run None (forP vs (fun v => ex (ins_prop e own ty v))) s) as [res st1]. simpl in A, B, C. subst res.
      specialize (IH st1). rewrite B, gs_ss_same in IH.
      destruct (add_props own (flatten ps) s1) as [s'|].
      * destruct IH as (A' & B' & C'). rewrite A', B', C'. rewrite ss_ss. auto.
      * exact IH.
    + destruct (run None (forP vs (fun v => ex (ins_prop e own ty v))) s) as [res st1]. simpl in Hin. subst res. reflexivity.
Qed.

(* ---- the auto-insert loop `INSERT INTO <e>_properties_type` for the property names the table does not know yet *)
Definition tsel_of (e : ent) : tsel := match e with EAds => TAds | EMat => TMat end.
Definition with_types (s : store) (l : list trow) (n : Z) : store := mkS (rows s) (nxt s) (props s) (pnxt s) l n.
Fixpoint add_types (tys : list Z) (s : store) : option store :=
  match tys with
  | [] => Some s
  | ty :: r => if memZ ty (tnames (types s)) then None
               else add_types r (with_types s (types s ++ [mkT (tnxt s) ty VNull VNull]) (tnxt s + 1)) end.
Lemma ins_type_eval : forall e ty d,
  ins_type (tsel_of e) ty VNull VNull d =
  if memZ ty (tnames (types (gs e d))) then Bad EIntegrity
  else Good (tt, ss e (with_types (gs e d) (types (gs e d) ++ [mkT (tnxt (gs e d)) ty VNull VNull]) (tnxt (gs e d) + 1)) d).
Proof. intros. destruct e; unfold ins_type; simpl; destruct (memZ ty _); reflexivity. Qed.

Definition type_prog (e : ent) (l : plist) : prog unit := forP l (fun p => ex (ins_type (tsel_of e) (fst p) VNull VNull)).
Lemma run_type_prog : forall e l s,
  match add_types (map fst l) (gs e (s_db s)) with
  | Some s' => fst (run None (type_prog e l) s) = Good tt
               /\ s_db (snd (run None (type_prog e l) s)) = ss e s' (s_db s)
               /\ s_reg (snd (run None (type_prog e l) s)) = s_reg s
  | None => fst (run None (type_prog e l) s) = Bad EIntegrity end.
Proof.
  induction l as [|[ty vs] l IH]; intros s.
  - simpl. rewrite ss_gs. auto.
  - unfold type_prog. simpl forP. fold (type_prog e l). unfold seqP. rewrite run_bind, run_ex. simpl fst. rewrite ins_type_eval.
    simpl map. simpl add_types.
    destruct (memZ ty (tnames (types (gs e (s_db s))))); [reflexivity|].
    set (s1 := with_types (gs e (s_db s)) (types (gs e (s_db s)) ++ [mkT (tnxt (gs e (s_db s))) ty VNull VNull]) (tnxt (gs e (s_db s)) + 1)).
    specialize (IH (mkSt (ss e s1 (s_db s)) (s_reg s) (S (s_n s)))). simpl s_db in IH. rewrite gs_ss_same in IH.
    destruct (add_types (map fst l) s1) as [s'|].
    + destruct IH as (A & B & C). rewrite A, B, C. simpl. rewrite ss_ss. auto.
    + exact IH.
Qed.

(* ---- the common tail of adsorbate_to_db / material_to_db after the row exists: auto-insert of types, properties, registry *)
Definition rest_prog (e : ent) (name : Z) (ps : plist) (autoins overwrite : bool) (own : Z) : prog unit :=
  seqP (if autoins then
          bindP (ex (sel_types (tsel_of e))) (fun ts =>
            forP (filter (fun p => negb (memZ (fst p) (tnames ts))) ps) (fun p => ex (ins_type (tsel_of e) (fst p) VNull VNull)))
        else Ret tt)
  (seqP (forP ps (fun p => forP (snd p) (fun v => ex (ins_prop e own (fst p) v))))
        (RegOp (fun r => (tt, sreg e ((if overwrite && memZ name (greg e r) then remove_first name (greg e r) else greg e r) ++ [name]) r)) Ret)).
Lemma ent_upload_unfold : forall e name ps a w,
  ent_upload e name ps a w =
  if w then
    bindP (ex (sel_ent_id e name)) (fun o =>
      match o with
      | None => Raise EIntegrity
      | Some own =>
          Exec (sel_prop_owner e own) (Some (rest_prog e name ps a w own)) (fun found =>
            if found then Exec (del_props e own) (Some (rest_prog e name ps a w own)) (fun _ => rest_prog e name ps a w own)
            else rest_prog e name ps a w own) end)
  else bindP (ex (ins_ent e name)) (rest_prog e name ps a w).
Proof. intros. destruct e; reflexivity. Qed.

Definition unknown (s : store) (ps : plist) : plist := filter (fun p => negb (memZ (fst p) (tnames (types s)))) ps.
Definition rest_store (own : Z) (a : bool) (ps : plist) (s : store) : option store :=
  match (if a then add_types (map fst (unknown s ps)) s else Some s) with
  | Some s1 => add_props own (flatten ps) s1
  | None => None end.
Lemma sel_types_eval : forall e d, sel_types (tsel_of e) d = Good (types (gs e d), d).
Proof. destruct e; reflexivity. Qed.

Lemma run_rest_prog : forall e name ps a w own s,
  match rest_store own a ps (gs e (s_db s)) with
  | Some s' => fst (run None (rest_prog e name ps a w own) s) = Good tt
               /\ s_db (snd (run None (rest_prog e name ps a w own) s)) = ss e s' (s_db s)
  | None => fst (run None (rest_prog e name ps a w own) s) = Bad EIntegrity end.
Proof.
  intros. unfold rest_prog, rest_store, seqP. rewrite run_bind.
  assert (Htail : forall st, match add_props own (flatten ps) (gs e (s_db st)) with
     | Some s' => fst (run None (bindP (forP ps (fun p => forP (snd p) (fun v => ex (ins_prop e own (fst p) v))))
                    (fun _ => RegOp (fun r => (tt, sreg e ((if w && memZ name (greg e r) then remove_first name (greg e r) else greg e r) ++ [name]) r)) Ret)) st) = Good tt
                  /\ s_db (snd (run None (bindP (forP ps (fun p => forP (snd p) (fun v => ex (ins_prop e own (fst p) v))))
                    (fun _ => RegOp (fun r => (tt, sreg e ((if w && memZ name (greg e r) then remove_first name (greg e r) else greg e r) ++ [name]) r)) Ret)) st)) = ss e s' (s_db st)
     | None => fst (run None (bindP (forP ps (fun p => forP (snd p) (fun v => ex (ins_prop e own (fst p) v))))
                    (fun _ => RegOp (fun r => (tt, sreg e ((if w && memZ name (greg e r) then remove_first name (greg e r) else greg e r) ++ [name]) r)) Ret)) st) = Bad EIntegrity end).
  { intro st. rewrite run_bind. pose proof (run_prop_prog e own ps st) as Hp. unfold prop_prog in Hp.
    destruct (add_props own (flatten ps) (gs e (s_db st))) as [s'|].
    - destruct Hp as (A & B & C).
      destruct (run None (forP ps (fun p => forP (snd p) (fun v => ex (ins_prop e own (fst p) v)))) st) as [res st1]. simpl in A, B, C. subst res.
      simpl. split; [reflexivity | exact B].
    - destruct (run None (forP ps (fun p => forP (snd p) (fun v => ex (ins_prop e own (fst p) v)))) st) as [res st1]. simpl in Hp. subst res. reflexivity. }
  destruct a.
  - rewrite run_bind, run_ex, sel_types_eval.
    pose proof (run_type_prog e (unknown (gs e (s_db s)) ps) (mkSt (s_db s) (s_reg s) (S (s_n s)))) as Ht.
    unfold type_prog, unknown in Ht. simpl s_db in Ht. unfold unknown.
    destruct (add_types (map fst (filter (fun p => negb (memZ (fst p) (tnames (types (gs e (s_db s)))))) ps)) (gs e (s_db s))) as [s1|].
    + destruct Ht as (A & B & C).
      destruct (run None (forP (filter (fun p => negb (memZ (fst p) (tnames (types (gs e (s_db s)))))) ps)
                              (fun p => ex (ins_type (tsel_of e) (fst p) VNull VNull))) (mkSt (s_db s) (s_reg s) (S (s_n s)))) as [res st1].
      simpl in A, B, C. subst res. specialize (Htail st1). rewrite B, gs_ss_same in Htail.
      destruct (add_props own (flatten ps) s1) as [s'|].
      * destruct Htail as (A' & B'). rewrite A', B', ss_ss. auto.
      * exact Htail.
    + destruct (run None (forP (filter (fun p => negb (memZ (fst p) (tnames (types (gs e (s_db s)))))) ps)
                              (fun p => ex (ins_type (tsel_of e) (fst p) VNull VNull))) (mkSt (s_db s) (s_reg s) (S (s_n s)))) as [res st1].
      simpl in Ht. subst res. reflexivity.
  - simpl run at 1. apply (Htail s).
Qed.

(* ------------------------------------------------------------------ what the loops compute *)
Definition kv_ok (s : store) (kv : Z * val) : bool := negb (is_null (store_real (snd kv))) && memZ (fst kv) (tnames (types s)).
Definition prow_kv (p : prow) : Z * val := (p_ty p, p_val p).
Definition trow_t (t : trow) : Z * val * val := (t_ty t, t_unit t, t_desc t).

Lemma add_props_some : forall own kvs s s', add_props own kvs s = Some s' ->
  exists newps, s' = with_props s (props s ++ newps) (pnxt s')
    /\ map prow_kv newps = map (fun kv => (fst kv, store_real (snd kv))) kvs
    /\ (forall p, In p newps -> p_own p = own) /\ forallb (kv_ok s) kvs = true.
Proof.
  induction kvs as [|[ty v] kvs IH]; intros s s' H; simpl in H.
  - inversion H; subst. exists []. rewrite app_nil_r. destruct s'; simpl. repeat split; auto. intros p [].
  - destruct (is_null (store_real v)) eqn:En; [discriminate|].
    destruct (negb (memZ own (ids s)) || negb (memZ ty (tnames (types s)))) eqn:Ef; [discriminate|].
    apply orb_false_iff in Ef. destruct Ef as [_ Ety]. apply negb_false_iff in Ety.
    destruct (IH _ _ H) as (newps & E1 & E2 & E3 & E4). simpl in E1.
    exists (mkP (pnxt s) own ty (store_real v) :: newps). split; [|split; [|split]].
    + rewrite E1. unfold with_props; simpl. rewrite <- app_assoc. reflexivity.
    + simpl. unfold prow_kv at 1; simpl. f_equal. exact E2.
    + intros p [Hp|Hp]; [subst; reflexivity | auto].
    + simpl. unfold kv_ok at 1; simpl. rewrite En, Ety. simpl. exact E4.
Qed.
Lemma add_props_none : forall own kvs s, add_props own kvs s = None -> In own (ids s) -> forallb (kv_ok s) kvs = false.
Proof.
  induction kvs as [|[ty v] kvs IH]; intros s H Hown; simpl in H; [discriminate|].
  simpl. unfold kv_ok at 1; simpl.
  destruct (is_null (store_real v)) eqn:En; [reflexivity|].
  apply memZ_In in Hown. rewrite Hown in H. simpl in H.
  destruct (memZ ty (tnames (types s))) eqn:Ety; simpl in *; [|reflexivity].
  apply (IH _ H). simpl. apply memZ_In. exact Hown.
Qed.

Lemma add_types_some : forall tys s, NoDup tys -> (forall ty, In ty tys -> ~ In ty (tnames (types s))) ->
  exists newts n', add_types tys s = Some (with_types s (types s ++ newts) n') /\ map trow_t newts = map (fun ty => (ty, VNull, VNull)) tys.
Proof.
  induction tys as [|ty tys IH]; intros s Hn Hnot; simpl.
  - exists [], (tnxt s). rewrite app_nil_r. destruct s; auto.
  - inversion Hn; subst.
    assert (Em : memZ ty (tnames (types s)) = false) by (apply memZ_false; apply Hnot; left; reflexivity). rewrite Em.
    destruct (IH (with_types s (types s ++ [mkT (tnxt s) ty VNull VNull]) (tnxt s + 1)) H2) as (newts & n' & E1 & E2).
    + intros ty' Hty'. simpl. unfold tnames. rewrite map_app. simpl. intro Hin. apply in_app_iff in Hin.
      destruct Hin as [Hin|[Hin|[]]]; [apply (Hnot ty'); [right; auto | exact Hin] | subst; contradiction].
    + exists (mkT (tnxt s) ty VNull VNull :: newts), n'. split.
      * rewrite E1. unfold with_types; simpl. rewrite <- app_assoc. reflexivity.
      * simpl. f_equal. exact E2.
Qed.

Lemma forallb_andb : forall X (f g : X -> bool) l, forallb (fun x => f x && g x) l = forallb f l && forallb g l.
Proof. induction l; simpl; auto. rewrite IHl. destruct (f a), (g a), (forallb f l); reflexivity. Qed.
Lemma forallb_negb_existsb : forall X (f : X -> bool) l, forallb (fun x => negb (f x)) l = negb (existsb f l).
Proof. induction l; simpl; auto. rewrite IHl. destruct (f a); reflexivity. Qed.
Definition types_known (l : list Z) (kvs : list (Z * val)) : bool := forallb (fun kv => memZ (fst kv) l) kvs.
Lemma kv_ok_split : forall s kvs,
  forallb (kv_ok s) kvs = negb (existsb (fun p => is_null (store_real (snd p))) kvs) && types_known (tnames (types s)) kvs.
Proof. intros. unfold kv_ok, types_known. rewrite forallb_andb, forallb_negb_existsb. reflexivity. Qed.
Lemma types_known_app : forall l a b, types_known l (a ++ b) = types_known l a && types_known l b.
Proof. intros. unfold types_known. apply forallb_app. Qed.
Lemma types_known_unknown_type : forall ps ts, types_known (tkeys ts) (flatten ps) = negb (unknown_type ps ts).
Proof.
  induction ps as [|[ty vs] ps IH]; intros ts; [reflexivity|].
  unfold flatten. simpl flat_map. fold (flatten ps). rewrite types_known_app, IH. unfold unknown_type. simpl existsb. fold (unknown_type ps ts).
  destruct vs as [|v vs]; simpl.
  - rewrite andb_false_r. reflexivity.
  - destruct (memZ ty (tkeys ts)) eqn:E; simpl.
    + assert (H : types_known (tkeys ts) (map (fun v0 => (ty, v0)) vs) = true).
      { unfold types_known. apply forallb_forall. intros x Hx. apply in_map_iff in Hx. destruct Hx as [v0 [Ex _]]. subst x. exact E. }
      rewrite H. reflexivity.
    + reflexivity.
Qed.
(* with auto-insert every property name is known afterwards *)
Lemma types_known_after_autoins : forall ps l, types_known (l ++ map fst (filter (fun p => negb (memZ (fst p) l)) ps)) (flatten ps) = true.
Proof.
  intros ps l. unfold types_known. apply forallb_forall. intros [ty v] Hin. simpl.
  unfold flatten in Hin. apply in_flat_map in Hin. destruct Hin as [p [Hp Hv]]. apply in_map_iff in Hv. destruct Hv as [v0 [Ev _]]. inversion Ev; subst.
  apply memZ_In. apply in_app_iff. destruct (memZ (fst p) l) eqn:E; [left; apply memZ_In; exact E|].
  right. apply in_map_iff. exists p. split; auto. apply filter_In. split; auto. rewrite E. reflexivity.
Qed.

(* the properties of owner j among old ++ new, when all new ones belong to `own` *)
Lemma filter_own_app : forall (ps newps : list prow) own j, (forall p, In p newps -> p_own p = own) ->
  filter (fun p => p_own p =? j) (ps ++ newps) = filter (fun p => p_own p =? j) ps ++ (if j =? own then newps else []).
Proof.
  intros ps newps own j H. rewrite filter_app. f_equal.
  induction newps as [|p l IH]; simpl; [destruct (j =? own); reflexivity|].
  rewrite (H p (or_introl eq_refl)). rewrite IH by (intros; apply H; right; auto).
  rewrite (Z.eqb_sym own j). destruct (j =? own); reflexivity.
Qed.
Lemma filter_none : forall (ps : list prow) j, (forall p, In p ps -> p_own p <> j) -> filter (fun p => p_own p =? j) ps = [].
Proof.
  induction ps as [|p l IH]; simpl; intros j H; [reflexivity|].
  assert (p_own p <> j) by (apply H; auto). apply Z.eqb_neq in H0. rewrite H0. apply IH. intros; apply H; auto.
Qed.

Lemma tkeys_map_types : forall l, tkeys (map (fun t : trow => (t_ty t, t_unit t, t_desc t)) l) = tnames l.
Proof. intros. unfold tkeys, tnames. rewrite map_map. reflexivity. Qed.
Lemma map_trow_t_names : forall l tys, map trow_t l = map (fun ty => (ty, VNull, VNull)) tys -> map t_ty l = tys.
Proof.
  intros l tys H. assert (E : map (fun x : Z * val * val => fst (fst x)) (map trow_t l) = map (fun x : Z * val * val => fst (fst x)) (map (fun ty => (ty, VNull, VNull)) tys)) by (rewrite H; reflexivity).
  rewrite !map_map in E. simpl in E. rewrite map_id in E. exact E.
Qed.

(* the tail of the upload on a store that holds the row `own`: it succeeds exactly when the dictionary accepts the properties, and then
   appends the kept properties (all owned by `own`) and the auto-inserted types *)
Lemma rest_store_spec : forall own a ps s, In own (ids s) -> NoDup (map fst ps) ->
  match rest_store own a ps s with
  | Some s' =>
      (existsb (fun p => is_null (store_real (snd p))) (flatten ps) || (negb a && unknown_type ps (s_types (abs_store s)))) = false
      /\ exists newps, rows s' = rows s /\ props s' = props s ++ newps /\ map prow_kv newps = keep store_real ps
           /\ (forall p, In p newps -> p_own p = own)
           /\ map trow_t (types s') = (if a then s_types (abs_store s) ++ new_types ps (s_types (abs_store s)) else s_types (abs_store s))
  | None => (existsb (fun p => is_null (store_real (snd p))) (flatten ps) || (negb a && unknown_type ps (s_types (abs_store s)))) = true end.
Proof.
  intros own a ps s Hown Hnd. unfold rest_store. destruct a.
  - destruct (add_types_some (map fst (unknown s ps)) s) as (newts & n' & E1 & E2).
    + unfold unknown. apply NoDup_map_filter. exact Hnd.
    + intros ty Hty. unfold unknown in Hty. apply in_map_iff in Hty. destruct Hty as [p [Ep Hp]]. apply filter_In in Hp. destruct Hp as [_ Hp].
      apply negb_true_iff in Hp. apply memZ_false in Hp. subst ty. exact Hp.
    + rewrite E1. pose proof (map_trow_t_names _ _ E2) as Enames.
      destruct (add_props own (flatten ps) (with_types s (types s ++ newts) n')) as [s'|] eqn:Ea.
      * destruct (add_props_some _ _ _ _ Ea) as (newps & F1 & F2 & F3 & F4). rewrite kv_ok_split in F4. apply andb_true_iff in F4. destruct F4 as [F4 _].
        apply negb_true_iff in F4. split; [rewrite F4; reflexivity|].
        exists newps. rewrite F1. simpl. repeat split; auto.
        rewrite map_app, E2. f_equal. unfold new_types. rewrite tkeys_map_types. unfold unknown. rewrite map_map. reflexivity.
      * apply add_props_none in Ea; [|exact Hown]. rewrite kv_ok_split in Ea. simpl types in Ea.
        assert (Ek : types_known (tnames (types s ++ newts)) (flatten ps) = true).
        { unfold tnames. rewrite map_app. fold (tnames (types s)). rewrite Enames. apply types_known_after_autoins. }
        rewrite Ek, andb_true_r in Ea. apply negb_false_iff in Ea. rewrite Ea. reflexivity.
  - destruct (add_props own (flatten ps) s) as [s'|] eqn:Ea.
    + destruct (add_props_some _ _ _ _ Ea) as (newps & F1 & F2 & F3 & F4). rewrite kv_ok_split in F4. apply andb_true_iff in F4. destruct F4 as [F4 F5].
      apply negb_true_iff in F4. rewrite <- tkeys_abs_store, types_known_unknown_type in F5. apply negb_true_iff in F5.
      split; [rewrite F4, F5; reflexivity|].
      exists newps. rewrite F1. simpl. repeat split; auto.
    + apply add_props_none in Ea; [|exact Hown]. rewrite kv_ok_split in Ea. rewrite <- tkeys_abs_store, types_known_unknown_type in Ea.
      destruct (existsb (fun p => is_null (store_real (snd p))) (flatten ps)); [reflexivity|]. simpl in *. apply negb_false_iff in Ea. exact Ea.
Qed.

Lemma ins_ent_eval : forall e name d,
  ins_ent e name d =
  if memZ name (names (gs e d)) then Bad EIntegrity
  else Good (nxt (gs e d), ss e (mkS (rows (gs e d) ++ [(nxt (gs e d), name)]) (nxt (gs e d) + 1) (props (gs e d)) (pnxt (gs e d)) (types (gs e d)) (tnxt (gs e d))) d).
Proof. reflexivity. Qed.

Definition new_row (s : store) (name : Z) : store :=
  mkS (rows s ++ [(nxt s, name)]) (nxt s + 1) (props s) (pnxt s) (types s) (tnxt s).

(* the call adsorbate_to_db / material_to_db without overwrite, as a function of the store *)
Lemma run_upload_new : forall e name ps a d r,
  if memZ name (names (gs e d))
  then oc_of (run_op (EntUp e name ps a false) d r) = OParsing /\ db_after (run_op (EntUp e name ps a false) d r) = d
  else match rest_store (nxt (gs e d)) a ps (new_row (gs e d) name) with
       | Some s' => oc_of (run_op (EntUp e name ps a false) d r) = OOk RUnit /\ db_after (run_op (EntUp e name ps a false) d r) = ss e s' d
       | None => oc_of (run_op (EntUp e name ps a false) d r) = OParsing /\ db_after (run_op (EntUp e name ps a false) d r) = d end.
Proof.
  intros. unfold run_op, with_conn, body, oc_of, db_after. rewrite ent_upload_unfold. unfold seqP.
  rewrite run_bind, run_ex. unfold pragma_fk. cbn [s_db s_reg s_n].
  rewrite run_bind, run_bind, run_ex. cbn [s_db s_reg s_n]. rewrite ins_ent_eval.
  destruct (memZ name (names (gs e d))).
  - split; reflexivity.
  - fold (new_row (gs e d) name).
    pose proof (run_rest_prog e name ps a false (nxt (gs e d)) (mkSt (ss e (new_row (gs e d) name) d) r 2)) as Hr.
    cbn [s_db] in Hr. rewrite gs_ss_same in Hr.
    destruct (rest_store (nxt (gs e d)) a ps (new_row (gs e d) name)) as [s'|].
    + destruct Hr as [A B].
      destruct (run None (rest_prog e name ps a false (nxt (gs e d))) (mkSt (ss e (new_row (gs e d) name) d) r 2)) as [res st].
      cbn [fst snd] in A, B. subst res. cbn. rewrite B, ss_ss. split; reflexivity.
    + destruct (run None (rest_prog e name ps a false (nxt (gs e d))) (mkSt (ss e (new_row (gs e d) name) d) r 2)) as [res st].
      cbn [fst snd] in Hr. subst res. cbn. split; reflexivity.
Qed.

(* THEOREM: uploading a new adsorbate / material refines the dictionary's insert *)
Theorem ent_upload_new_refines : forall e name ps a d r, wf d -> NoDup (map fst ps) ->
  match s_ent_upload store_real e name ps a false (abs d) with
  | Some s' => oc_of (run_op (EntUp e name ps a false) d r) = OOk RUnit /\ abs (db_after (run_op (EntUp e name ps a false) d r)) = s'
  | None => oc_of (run_op (EntUp e name ps a false) d r) = OParsing /\ db_after (run_op (EntUp e name ps a false) d r) = d end.
Proof.
  intros e name ps a d r H Hnd. pose proof H as H0. apply (wf_split e) in H0. destruct H0 as ((N1 & N2 & N3 & N4 & N5) & _).
  pose proof (run_upload_new e name ps a d r) as Hrun.
  unfold s_ent_upload. rewrite sgs_abs, keys_abs_store.
  destruct (memZ name (names (gs e d))) eqn:Em.
  - destruct (existsb (fun p => is_null (store_real (snd p))) (flatten ps)); [exact Hrun|].
    destruct (negb a && unknown_type ps (s_types (abs_store (gs e d)))); exact Hrun.
  - assert (Hown : In (nxt (gs e d)) (ids (new_row (gs e d) name))).
    { unfold ids, new_row; simpl. rewrite map_app. apply in_app_iff. right. left. reflexivity. }
    pose proof (rest_store_spec (nxt (gs e d)) a ps (new_row (gs e d) name) Hown Hnd) as Hs.
    change (s_types (abs_store (new_row (gs e d) name))) with (s_types (abs_store (gs e d))) in Hs.
    destruct (rest_store (nxt (gs e d)) a ps (new_row (gs e d) name)) as [s'|].
    + destruct Hs as [Hbad (newps & R1 & R2 & R3 & R4 & R5)]. apply orb_false_iff in Hbad. destruct Hbad as [B1 B2]. rewrite B1, B2.
      destruct Hrun as [O1 O2]. split; [exact O1|]. rewrite O2, abs_ss. f_equal.
      assert (Eabs : abs_store s' = mkSS (map (item_of (props s')) (rows s')) (map trow_t (types s'))) by reflexivity.
      rewrite Eabs, R1, R2, R5. simpl rows. simpl props. f_equal.
      rewrite map_app. f_equal.
      * rewrite abs_store_items. apply map_ext_in. intros [j m] Hjm. unfold item_of. simpl fst. simpl snd. f_equal. f_equal.
        rewrite (filter_own_app _ _ (nxt (gs e d)) j R4).
        assert (Hlt : j < nxt (gs e d)) by (apply N3; unfold ids; apply in_map_iff; exists (j, m); auto).
        assert (Hne : j =? nxt (gs e d) = false) by (apply Z.eqb_neq; lia). rewrite Hne, app_nil_r. reflexivity.
      * simpl. f_equal. unfold item_of. simpl fst. simpl snd. f_equal. rewrite (filter_own_app _ _ (nxt (gs e d)) (nxt (gs e d)) R4), Z.eqb_refl.
        rewrite filter_none; [simpl; exact R3|]. intros p Hp Heq. destruct (N4 p Hp) as [Hid _]. rewrite Heq in Hid. apply N3 in Hid. lia.
    + apply orb_true_iff in Hs.
      destruct (existsb (fun p => is_null (store_real (snd p))) (flatten ps)); [exact Hrun|].
      destruct Hs as [Hs|Hs]; [discriminate|]. rewrite Hs. exact Hrun.
Qed.

(* ------------------------------------------------------------------ overwrite=True *)
Lemma run_exec_good : forall A B (f : stmt B) (h : option (prog A)) (k : B -> prog A) s b d',
  f (s_db s) = Good (b, d') -> run None (Exec f h k) s = run None (k b) (mkSt d' (s_reg s) (S (s_n s))).
Proof. intros. simpl. rewrite H. reflexivity. Qed.
Definition cleared (s : store) (own : Z) : store :=
  mkS (rows s) (nxt s) (filter (fun p => negb (p_own p =? own)) (props s)) (pnxt s) (types s) (tnxt s).
Lemma filter_negb_all : forall X (f : X -> bool) l, existsb f l = false -> filter (fun x => negb (f x)) l = l.
Proof. induction l; simpl; intros H; [reflexivity|]. apply orb_false_iff in H. destruct H as [H1 H2]. rewrite H1. simpl. f_equal. auto. Qed.
Lemma filter_filter_neg : forall (l : list prow) own, filter (fun p => p_own p =? own) (filter (fun p => negb (p_own p =? own)) l) = [].
Proof. induction l; simpl; intros; [reflexivity|]. destruct (p_own a =? own) eqn:E; simpl; [auto | rewrite E; auto]. Qed.

Lemma run_upload_over : forall e name ps a d r,
  match find_id name (rows (gs e d)) with
  | None => oc_of (run_op (EntUp e name ps a true) d r) = OParsing /\ db_after (run_op (EntUp e name ps a true) d r) = d
  | Some own =>
      match rest_store own a ps (cleared (gs e d) own) with
      | Some s' => oc_of (run_op (EntUp e name ps a true) d r) = OOk RUnit /\ db_after (run_op (EntUp e name ps a true) d r) = ss e s' d
      | None => oc_of (run_op (EntUp e name ps a true) d r) = OParsing /\ db_after (run_op (EntUp e name ps a true) d r) = d end end.
Proof.
  intros. unfold run_op, with_conn, body, oc_of, db_after. rewrite ent_upload_unfold. unfold seqP.
  rewrite run_bind, run_ex. unfold pragma_fk. cbn [s_db s_reg s_n].
  rewrite run_bind, run_bind, run_ex. cbn [s_db s_reg s_n]. unfold sel_ent_id.
  destruct (find_id name (rows (gs e d))) as [own|].
  - assert (Hgo : forall st, s_db st = d \/ s_db st = ss e (cleared (gs e d) own) d ->
              gs e (s_db st) = cleared (gs e d) own ->
              match rest_store own a ps (cleared (gs e d) own) with
              | Some s' => fst (run None (rest_prog e name ps a true own) st) = Good tt /\ s_db (snd (run None (rest_prog e name ps a true own) st)) = ss e s' d
              | None => fst (run None (rest_prog e name ps a true own) st) = Bad EIntegrity end).
    { intros st Hst Hg. pose proof (run_rest_prog e name ps a true own st) as Hr. rewrite Hg in Hr.
      destruct (rest_store own a ps (cleared (gs e d) own)) as [s'|]; [|exact Hr].
      destruct Hr as [A B]. split; [exact A|]. rewrite B. destruct Hst as [E|E]; rewrite E; [reflexivity | apply ss_ss]. }
    assert (Hsel : sel_prop_owner e own d = Good (existsb (fun p => p_own p =? own) (props (gs e d)), d)) by reflexivity.
    rewrite (run_exec_good _ _ (sel_prop_owner e own) _ _ (mkSt d r 2) _ _ Hsel). cbn [s_db s_reg s_n].
    destruct (existsb (fun p => p_own p =? own) (props (gs e d))) eqn:Ef.
    + assert (Hdel : del_props e own d = Good (tt, ss e (cleared (gs e d) own) d)) by reflexivity.
      rewrite (run_exec_good _ _ (del_props e own) _ _ (mkSt d r 3) _ _ Hdel). cbn [s_db s_reg s_n].
      specialize (Hgo (mkSt (ss e (cleared (gs e d) own) d) r 4) (or_intror eq_refl) (gs_ss_same _ _ _)).
      destruct (rest_store own a ps (cleared (gs e d) own)) as [s'|].
      * destruct Hgo as [A B]. destruct (run None (rest_prog e name ps a true own) (mkSt (ss e (cleared (gs e d) own) d) r 4)) as [res st].
        cbn [fst snd] in A, B. subst res. cbn. rewrite B. split; reflexivity.
      * destruct (run None (rest_prog e name ps a true own) (mkSt (ss e (cleared (gs e d) own) d) r 4)) as [res st].
        cbn [fst snd] in Hgo. subst res. cbn. split; reflexivity.
    + assert (Hc : gs e d = cleared (gs e d) own).
      { unfold cleared. rewrite (filter_negb_all _ (fun p => p_own p =? own) _ Ef). destruct (gs e d); reflexivity. }
      specialize (Hgo (mkSt d r 3) (or_introl eq_refl) Hc).
      destruct (rest_store own a ps (cleared (gs e d) own)) as [s'|].
      * destruct Hgo as [A B]. destruct (run None (rest_prog e name ps a true own) (mkSt d r 3)) as [res st].
        cbn [fst snd] in A, B. subst res. cbn. rewrite B. split; reflexivity.
      * destruct (run None (rest_prog e name ps a true own) (mkSt d r 3)) as [res st].
        cbn [fst snd] in Hgo. subst res. cbn. split; reflexivity.
  - cbn. split; reflexivity.
Qed.

(* THEOREM: overwriting an adsorbate / material refines the dictionary's replace *)
Theorem ent_upload_overwrite_refines : forall e name ps a d r, wf d -> NoDup (map fst ps) ->
  match s_ent_upload store_real e name ps a true (abs d) with
  | Some s' => oc_of (run_op (EntUp e name ps a true) d r) = OOk RUnit /\ abs (db_after (run_op (EntUp e name ps a true) d r)) = s'
  | None => oc_of (run_op (EntUp e name ps a true) d r) = OParsing /\ db_after (run_op (EntUp e name ps a true) d r) = d end.
Proof.
  intros e name ps a d r H Hnd. pose proof H as H0. apply (wf_split e) in H0. destruct H0 as ((N1 & N2 & N3 & N4 & N5) & _).
  pose proof (run_upload_over e name ps a d r) as Hrun.
  unfold s_ent_upload. rewrite sgs_abs, keys_abs_store.
  destruct (find_id name (rows (gs e d))) as [own|] eqn:Ei.
  - pose proof (find_id_In _ _ _ Ei) as Hin.
    assert (Em : memZ name (names (gs e d)) = true) by (apply memZ_In; unfold names; apply in_map_iff; exists (own, name); auto). rewrite Em.
    assert (Hown : In own (ids (cleared (gs e d) own))) by (unfold ids, cleared; simpl; apply in_map_iff; exists (own, name); auto).
    pose proof (rest_store_spec own a ps (cleared (gs e d) own) Hown Hnd) as Hs.
    change (s_types (abs_store (cleared (gs e d) own))) with (s_types (abs_store (gs e d))) in Hs.
    destruct (rest_store own a ps (cleared (gs e d) own)) as [s'|].
    + destruct Hs as [Hbad (newps & R1 & R2 & R3 & R4 & R5)]. apply orb_false_iff in Hbad. destruct Hbad as [B1 B2]. rewrite B1, B2.
      destruct Hrun as [O1 O2]. split; [exact O1|]. rewrite O2, abs_ss. f_equal.
      assert (Eabs : abs_store s' = mkSS (map (item_of (props s')) (rows s')) (map trow_t (types s'))) by reflexivity.
      rewrite Eabs, R1, R2, R5. simpl rows. simpl props. f_equal.
      rewrite abs_store_items, map_map. apply map_ext_in. intros [j m] Hjm. unfold item_of. simpl fst. simpl snd.
      rewrite (filter_own_app _ _ own j R4).
      destruct (j =? own) eqn:Ej.
      * apply Z.eqb_eq in Ej. subst j. assert (m = name) by (eapply NoDup_fst_functional; eauto). subst m.
        rewrite Z.eqb_refl, filter_filter_neg. simpl. f_equal. exact R3.
      * apply Z.eqb_neq in Ej. assert (Hm : m <> name) by (intro; subst m; apply Ej; eapply NoDup_snd_functional; eauto).
        apply Z.eqb_neq in Hm. rewrite Hm, app_nil_r. f_equal. f_equal. apply (filter_filter_other _ p_own own j). auto.
    + apply orb_true_iff in Hs.
      destruct (existsb (fun p => is_null (store_real (snd p))) (flatten ps)); [exact Hrun|].
      destruct Hs as [Hs|Hs]; [discriminate|]. rewrite Hs. exact Hrun.
  - assert (Em : memZ name (names (gs e d)) = false) by (apply memZ_false; apply find_id_None; exact Ei). rewrite Em.
    destruct (existsb (fun p => is_null (store_real (snd p))) (flatten ps)); [exact Hrun|].
    destruct (negb a && unknown_type ps (s_types (abs_store (gs e d)))); exact Hrun.
Qed.

