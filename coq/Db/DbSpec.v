(* The dictionary model of property C08: each database file is a handful of plain keyed collections
   (name -> properties, type -> (unit, description), iso_id -> isotherm).  No row ids, no statements, no registries:
   the outcome of an operation depends on the content of the target file only. *)
From Coq Require Import ZArith List Bool Lia.
From PG Require Import Db.DbModel.
Import ListNotations.
Open Scope Z_scope.

Definition sprops := list (Z * val).                       (* (type, value) in insertion order *)
Record sstore := mkSS { s_items : list (Z * sprops); s_types : list (Z * val * val) }.
Record siso := mkSI { si_id : Z; si_ty : Z; si_mat : Z; si_ads : Z; si_temp : val; si_props : sprops; si_data : list (Z * Z * Z) }.
Record sdb := mkSD { sads : sstore; smat : sstore; sitypes : list (Z * val * val); siptypes : list (Z * val * val); sisos : list siso }.

Definition sgs (e : ent) (d : sdb) : sstore := match e with EAds => sads d | EMat => smat d end.
Definition sss (e : ent) (s : sstore) (d : sdb) : sdb :=
  match e with EAds => mkSD s (smat d) (sitypes d) (siptypes d) (sisos d) | EMat => mkSD (sads d) s (sitypes d) (siptypes d) (sisos d) end.
Definition keys {V} (l : list (Z * V)) : list Z := map fst l.
Definition tkeys (l : list (Z * val * val)) : list Z := map (fun t => fst (fst t)) l.
Definition flatten (ps : plist) : sprops := flat_map (fun p => map (fun v => (fst p, v)) (snd p)) ps.
Definition sreferenced (e : ent) (name : Z) (d : sdb) : bool :=
  existsb (fun i => match e with EAds => si_ads i =? name | EMat => si_mat i =? name end) (sisos d).

Inductive sres := SOk (r : ret) | SRefused.     (* refused = the parsing error of the property text *)

(* types a property list needs that the collection does not know yet (auto-insert) *)
Definition new_types (ps : plist) (ts : list (Z * val * val)) : list (Z * val * val) :=
  map (fun p => (fst p, VNull, VNull)) (filter (fun p => negb (memZ (fst p) (tkeys ts))) ps).
Definition unknown_type (ps : plist) (ts : list (Z * val * val)) : bool :=
  existsb (fun p => negb (memZ (fst p) (tkeys ts)) && match snd p with [] => false | _ => true end) ps.

(* conv = how a value is kept by the collection; the PLAIN dictionary keeps it as given (conv = id) *)
Section Spec.
  Variable conv : val -> val.
  Definition keep (ps : plist) : sprops := map (fun p => (fst p, conv (snd p))) (flatten ps).
  Definition s_ent_upload (e : ent) (name : Z) (ps : plist) (autoins overwrite : bool) (d : sdb) : option sdb :=
    let s := sgs e d in
    let ts := if autoins then s_types s ++ new_types ps (s_types s) else s_types s in
    if existsb (fun p => is_null (conv (snd p))) (flatten ps) then None
    else if negb autoins && unknown_type ps (s_types s) then None
    else if overwrite then
      if memZ name (keys (s_items s))
      then Some (sss e (mkSS (map (fun it => if fst it =? name then (name, keep ps) else it) (s_items s)) ts) d)
      else None
    else if memZ name (keys (s_items s)) then None
    else Some (sss e (mkSS (s_items s ++ [(name, keep ps)]) ts) d).
  Definition s_ent_delete (e : ent) (name : Z) (d : sdb) : option sdb :=
    let s := sgs e d in
    if negb (memZ name (keys (s_items s))) then None
    else if sreferenced e name d then None
    else Some (sss e (mkSS (filter (fun it => negb (fst it =? name)) (s_items s)) (s_types s)) d).
  Definition sgt (t : tsel) (d : sdb) := match t with TAds => s_types (sads d) | TMat => s_types (smat d) | TIso => sitypes d | TIsoProp => siptypes d end.
  Definition sst (t : tsel) (l : list (Z * val * val)) (d : sdb) : sdb :=
    match t with
    | TAds => sss EAds (mkSS (s_items (sads d)) l) d
    | TMat => sss EMat (mkSS (s_items (smat d)) l) d
    | TIso => mkSD (sads d) (smat d) l (siptypes d) (sisos d)
    | TIsoProp => mkSD (sads d) (smat d) (sitypes d) l (sisos d) end.
  Definition stype_used (t : tsel) (ty : Z) (d : sdb) : bool :=
    match t with
    | TAds => existsb (fun it => memZ ty (keys (snd it))) (s_items (sads d))
    | TMat => existsb (fun it => memZ ty (keys (snd it))) (s_items (smat d))
    | TIso => existsb (fun i => si_ty i =? ty) (sisos d)
    | TIsoProp => false end.
  Definition s_type_upload (t : tsel) (ty : Z) (u ds : val) (overwrite : bool) (d : sdb) : option sdb :=
    let l := sgt t d in
    if overwrite then Some (sst t (map (fun r => if fst (fst r) =? ty then (ty, store_text u, store_text ds) else r) l) d)
    else if memZ ty (tkeys l) then None else Some (sst t (l ++ [(ty, store_text u, store_text ds)]) d).
  Definition s_type_delete (t : tsel) (ty : Z) (d : sdb) : option sdb :=
    let l := sgt t d in
    if negb (memZ ty (tkeys l)) then None
    else if stype_used t ty d then None
    else Some (sst t (filter (fun r => negb (fst (fst r) =? ty)) l) d).
  Definition set_sisos (l : list siso) (d : sdb) : sdb := mkSD (sads d) (smat d) (sitypes d) (siptypes d) l.
  Definition s_auto (e : ent) (on : bool) (name : Z) (ps : plist) (d : sdb) : option sdb :=
    if on && negb (memZ name (keys (s_items (sgs e d)))) then s_ent_upload e name ps true false d else Some d.
  Definition s_iso_upload (x : isoin) (am aa : bool) (d : sdb) : option sdb :=
    match s_auto EMat am (n_mat x) (n_matps x) d with
    | None => None
    | Some d1 =>
        match s_auto EAds aa (n_ads x) (n_adsps x) d1 with
        | None => None
        | Some d2 =>
            if is_null (conv (n_temp x)) || existsb (fun p => is_null (conv (snd p))) (n_props x) then None
            else if memZ (n_id x) (map si_id (sisos d2)) then None                          (* duplicate *)
            else if negb (memZ (n_ty x) (tkeys (sitypes d2))) || negb (memZ (n_mat x) (keys (s_items (smat d2))))
                    || negb (memZ (n_ads x) (keys (s_items (sads d2)))) then None           (* unknown reference *)
            else Some (set_sisos (sisos d2 ++ [mkSI (n_id x) (n_ty x) (n_mat x) (n_ads x) (conv (n_temp x))
                                                    (map (fun p => (fst p, conv (snd p))) (n_props x)) (n_data x)]) d2) end end.
  Definition s_iso_delete (i : Z) (d : sdb) : option sdb :=
    if memZ i (map si_id (sisos d)) then Some (set_sisos (filter (fun x => negb (si_id x =? i)) (sisos d)) d) else None.
  Definition scrit_ok (c : crit) (i : siso) : bool :=
    omatch (c_mat c) (si_mat i) && omatch (c_ads c) (si_ads i) && omatch (c_ty c) (si_ty i)
    && match c_temp c with Some v => val_eqb (conv v) (si_temp i) | None => true end.

  (* one operation on one file: outcome class (accepted / refused) and the file's content afterwards; retrievals return the content *)
  Definition sstep (o : op) (d : sdb) : bool * sdb :=
    let upd (r : option sdb) := match r with Some d' => (true, d') | None => (false, d) end in
    match o with
    | EntUp e n ps a w => upd (s_ent_upload e n ps a w d)
    | EntDel e n => upd (s_ent_delete e n d)
    | TyUp t ty u ds w => upd (s_type_upload t ty u ds w d)
    | TyDel t ty => upd (s_type_delete t ty d)
    | IsoUp x am aa => upd (s_iso_upload x am aa d)
    | IsoDel i => upd (s_iso_delete i d)
    | EntGet _ | TyGet _ | IsoGet _ => (true, d) end.
End Spec.

(* ------------------------------------------------------------------ abstraction: tables -> dictionary *)
Definition abs_store (s : store) : sstore :=
  mkSS (map (fun r => (snd r, map (fun p => (p_ty p, p_val p)) (filter (fun p => p_own p =? fst r) (props s)))) (rows s))
       (map (fun t => (t_ty t, t_unit t, t_desc t)) (types s)).
Definition abs_iso (d : db) (i : irow) : siso :=
  mkSI (i_id i) (i_ty i) (i_mat i) (i_ads i) (i_temp i)
       (map (fun p => (p_ty p, check_bool (p_val p))) (filter (fun p => p_own p =? i_id i) (iprops d)))
       (map (fun r => (d_ty r, d_dty r, d_data r)) (filter (fun r => d_iso r =? i_id i) (idata d))).
(* ipt = the isotherm property types; the schema has no table for them, the abstraction of any file has none *)
Definition abs (d : db) : sdb :=
  mkSD (abs_store (ads d)) (abs_store (mat d)) (map (fun t => (t_ty t, t_unit t, t_desc t)) (itypes d)) [] (map (abs_iso d) (isos d)).

(* boolean equality of dictionary states (through the printing code of values), for the run-time oracle *)
Fixpoint list_eqb {X} (f : X -> X -> bool) (a b : list X) : bool :=
  match a, b with [] , [] => true | x :: r, y :: s => f x y && list_eqb f r s | _, _ => false end.
Definition sp_eqb (a b : Z * val) : bool := (fst a =? fst b) && val_eqb (snd a) (snd b).
Definition ty_eqb (a b : Z * val * val) : bool := (fst (fst a) =? fst (fst b)) && val_eqb (snd (fst a)) (snd (fst b)) && val_eqb (snd a) (snd b).
Definition d3_eqb (a b : Z * Z * Z) : bool := let '(x, y, z) := a in let '(u, v, w) := b in (x =? u) && (y =? v) && (z =? w).
Definition ss_eqb (a b : sstore) : bool :=
  list_eqb (fun x y => (fst x =? fst y) && list_eqb sp_eqb (snd x) (snd y)) (s_items a) (s_items b) && list_eqb ty_eqb (s_types a) (s_types b).
Definition si_eqb (a b : siso) : bool :=
  (si_id a =? si_id b) && (si_ty a =? si_ty b) && (si_mat a =? si_mat b) && (si_ads a =? si_ads b) && val_eqb (si_temp a) (si_temp b)
  && list_eqb sp_eqb (si_props a) (si_props b) && list_eqb d3_eqb (si_data a) (si_data b).
(* bit mask of the collections that differ: 1 adsorbates, 2 materials, 4 isotherm types, 8 isotherm property types, 16 isotherms *)
Definition sdb_diff (a b : sdb) : Z :=
  (if ss_eqb (sads a) (sads b) then 0 else 1) + (if ss_eqb (smat a) (smat b) then 0 else 2)
  + (if list_eqb ty_eqb (sitypes a) (sitypes b) then 0 else 4) + (if list_eqb ty_eqb (siptypes a) (siptypes b) then 0 else 8)
  + (if list_eqb si_eqb (sisos a) (sisos b) then 0 else 16).
