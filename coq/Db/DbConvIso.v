(* C08: what an isotherm property handed to isotherm_to_db comes back as from isotherms_from_db (conv_iso, Db/DbRefine4.v =
   check_SQL_bool after the REAL-affinity value column after the 'TRUE'/'FALSE' encoding of booleans), by kind of value.
   Free text - whatever it LOOKS like: 'true', 'False', 'None', 'nan', '0x10' ... are atoms other than the two storage tokens -
   comes back as the same text; booleans come back as booleans; the text of a storage token does not come back as text (finding C08-F8). *)
From Coq Require Import ZArith List Bool Lia.
From PG Require Import Db.DbModel Db.DbRefine4.
Open Scope Z_scope.

Lemma conv_iso_text_verbatim : forall t, t <> A_TRUE -> t <> A_FALSE -> conv_iso (VText t) = VText t.
Proof.
  intros t H1 H0. cbv [conv_iso bool_text store_real check_bool].
  destruct (t =? A_TRUE) eqn:E1; [apply Z.eqb_eq in E1; contradiction|].
  destruct (t =? A_FALSE) eqn:E0; [apply Z.eqb_eq in E0; contradiction|]. reflexivity.
Qed.

Lemma conv_iso_bool : forall b, conv_iso (VBool b) = VBool b.
Proof. destruct b; reflexivity. Qed.

Lemma conv_iso_null_num : forall v, match v with VNull | VNum _ => True | _ => False end -> conv_iso v = v.
Proof. destruct v; simpl; intros H; try contradiction; reflexivity. Qed.

(* the model's verdict on the clause "what comes back equals what was uploaded" for text: false exactly at the two tokens *)
Lemma conv_iso_text_iff : forall t, conv_iso (VText t) = VText t <-> (t <> A_TRUE /\ t <> A_FALSE).
Proof.
  intros t. split.
  - intros H. split; intros E; subst t; discriminate H.
  - intros [H1 H0]. apply conv_iso_text_verbatim; assumption.
Qed.

Lemma conv_iso_booltoken_refuted : exists t, conv_iso (VText t) <> VText t /\ conv_iso (VText t) = VBool true.
Proof. exists A_TRUE. split; [discriminate|reflexivity]. Qed.
