(* C08: refinement of the dictionary model by isotherm upload WITHOUT auto-insert of the material / adsorbate (isotherm_to_db with
   autoinsert_material = autoinsert_adsorbate = False; with auto-insert the call reads the per-process registries: refuted items
   registry_cross_file_refuted, C08-F4/F5).  The dictionary keeps an isotherm property as it comes back from the store
   (conv_iso: booleans travel as the text 'TRUE'/'FALSE' and are read back as booleans; numeric-looking text comes back as a number). *)
From Coq Require Import ZArith List Bool Lia.
From PG Require Import Db.DbModel Db.DbSpec Db.DbRefine Db.DbInv Db.DbRefine2 Db.DbRefine3.
Import ListNotations.
Open Scope Z_scope.

Definition conv_iso (v : val) : val := check_bool (store_real (bool_text v)).
(* the temperature handed to the store is a number (or missing) *)
Definition temp_plain (v : val) : Prop := match v with VNull | VNum _ => True | _ => False end.
Lemma is_null_check_bool : forall v, is_null (check_bool v) = is_null v.
Proof. destruct v; simpl; try reflexivity. destruct (t =? A_TRUE); [reflexivity|]. destruct (t =? A_FALSE); reflexivity. Qed.
Lemma is_null_conv_iso : forall v, is_null (conv_iso v) = is_null (store_real (bool_text v)).
Proof. intros. unfold conv_iso. apply is_null_check_bool. Qed.
Lemma conv_iso_temp : forall v, temp_plain v -> conv_iso v = store_real v.
Proof. destruct v; simpl; intros H; try contradiction; reflexivity. Qed.

(* ---- a loop of statements as a fold *)
Fixpoint fold_stmt {X} (f : X -> stmt unit) (l : list X) (d : db) : option db :=
  match l with [] => Some d | x :: r => match f x d with Good (_, d') => fold_stmt f r d' | Bad _ => None end end.
Lemma run_forP_stmt : forall X (f : X -> stmt unit) (l : list X) s,
  (forall x d e, f x d = Bad e -> e = EIntegrity) ->
  match fold_stmt f l (s_db s) with
  | Some d' => fst (run None (forP l (fun x => ex (f x))) s) = Good tt /\ s_db (snd (run None (forP l (fun x => ex (f x))) s)) = d'
  | None => fst (run None (forP l (fun x => ex (f x))) s) = Bad EIntegrity end.
Proof.
  induction l as [|x l IH]; intros s Hf; simpl fold_stmt.
  - simpl. auto.
  - simpl forP. unfold seqP. rewrite run_bind, run_ex.
    destruct (f x (s_db s)) as [[[] d']|e] eqn:Ef.
    + specialize (IH (mkSt d' (s_reg s) (S (s_n s))) Hf). simpl s_db in IH. exact IH.
    + rewrite (Hf _ _ _ Ef). reflexivity.
Qed.

(* ---- the two loops of isotherm_to_db on a database that holds the isotherm row i *)
Definition with_iso_rows (d : db) (ip : list prow) (ipn : Z) (idt : list drow) (idn : Z) : db :=
  mkDb (ads d) (mat d) (itypes d) (itnxt d) (isos d) ip ipn idt idn.
Lemma fold_iprops : forall i kvs d, In i (iso_ids d) ->
  match fold_stmt (fun p : Z * val => ins_iprop i (fst p) (bool_text (snd p))) kvs d with
  | Some d' => existsb (fun p => is_null (store_real (bool_text (snd p)))) kvs = false
               /\ exists newps n', d' = with_iso_rows d (iprops d ++ newps) n' (idata d) (idnxt d)
                    /\ map (fun p => (p_ty p, check_bool (p_val p))) newps = map (fun p => (fst p, conv_iso (snd p))) kvs
                    /\ (forall p, In p newps -> p_own p = i)
  | None => existsb (fun p => is_null (store_real (bool_text (snd p)))) kvs = true end.
Proof.
  induction kvs as [|[ty v] kvs IH]; intros d Hi; simpl fold_stmt.
  - split; [reflexivity|]. exists [], (ipnxt d). rewrite app_nil_r. destruct d; simpl. repeat split; auto. intros p [].
  - unfold ins_iprop at 1. simpl fst. simpl snd. simpl existsb.
    destruct (is_null (store_real (bool_text v))) eqn:En; [reflexivity|].
    assert (Em : negb (memZ i (iso_ids d)) = false) by (apply negb_false_iff; apply memZ_In; exact Hi). rewrite Em.
    set (d1 := mkDb (ads d) (mat d) (itypes d) (itnxt d) (isos d) (iprops d ++ [mkP (ipnxt d) i ty (store_real (bool_text v))]) (ipnxt d + 1) (idata d) (idnxt d)).
    specialize (IH d1 Hi).
    destruct (fold_stmt (fun p : Z * val => ins_iprop i (fst p) (bool_text (snd p))) kvs d1) as [d'|]; [|exact IH].
    destruct IH as [E0 (newps & n' & E1 & E2 & E3)]. split; [exact E0|].
    exists (mkP (ipnxt d) i ty (store_real (bool_text v)) :: newps), n'. split; [|split].
    + rewrite E1. unfold with_iso_rows, d1; simpl. rewrite <- app_assoc. reflexivity.
    + simpl. f_equal. exact E2.
    + intros p [Hp|Hp]; [subst; reflexivity | auto].
Qed.
Lemma fold_idata : forall i rows d, In i (iso_ids d) ->
  exists newds n', fold_stmt (fun r : Z * Z * Z => let '(ty, dty, data) := r in ins_idata i ty dty data) rows d
                   = Some (with_iso_rows d (iprops d) (ipnxt d) (idata d ++ newds) n')
    /\ map (fun r => (d_ty r, d_dty r, d_data r)) newds = rows /\ (forall r, In r newds -> d_iso r = i).
Proof.
  induction rows as [|[[ty dty] data] rows IH]; intros d Hi; simpl fold_stmt.
  - exists [], (idnxt d). rewrite app_nil_r. destruct d; simpl. repeat split; auto. intros r [].
  - unfold ins_idata at 1.
    assert (Em : negb (memZ i (iso_ids d)) = false) by (apply negb_false_iff; apply memZ_In; exact Hi). rewrite Em.
    set (d1 := mkDb (ads d) (mat d) (itypes d) (itnxt d) (isos d) (iprops d) (ipnxt d) (idata d ++ [mkD (idnxt d) i ty dty data]) (idnxt d + 1)).
    destruct (IH d1 Hi) as (newds & n' & E1 & E2 & E3).
    exists (mkD (idnxt d) i ty dty data :: newds), n'. split; [|split].
    + rewrite E1. unfold with_iso_rows, d1; simpl. rewrite <- app_assoc. reflexivity.
    + simpl. f_equal. exact E2.
    + intros r [Hr|Hr]; [subst; reflexivity | auto].
Qed.

Lemma forP_ext : forall X (l : list X) (f g : X -> prog unit), (forall x, f x = g x) -> forP l f = forP l g.
Proof. induction l; simpl; intros f g H; [reflexivity|]. rewrite (H a), (IHl f g H). reflexivity. Qed.
Lemma run_ret : forall A (a : A) s, run None (Ret a) s = (Good a, s).
Proof. reflexivity. Qed.

Definition f_prop (i : Z) : Z * val -> stmt unit := fun p => ins_iprop i (fst p) (bool_text (snd p)).
Definition f_data (i : Z) : Z * Z * Z -> stmt unit := fun r => let '(ty, dty, data) := r in ins_idata i ty dty data.
Lemma f_prop_err : forall i x d e, f_prop i x d = Bad e -> e = EIntegrity.
Proof.
  intros i x d e. unfold f_prop, ins_iprop. destruct (is_null (store_real (bool_text (snd x)))); [intro H; inversion H; reflexivity|].
  destruct (negb (memZ i (iso_ids d))); intro H; inversion H; reflexivity.
Qed.
Lemma f_data_err : forall i x d e, f_data i x d = Bad e -> e = EIntegrity.
Proof.
  intros i [[ty dty] data] d e. unfold f_data, ins_idata. destruct (negb (memZ i (iso_ids d))); intro H; inversion H; reflexivity.
Qed.
Lemma ins_iso_err : forall i ty m a temp d e, ins_iso i ty m a temp d = Bad e -> e = EIntegrity.
Proof.
  intros i ty m a temp d e. unfold ins_iso. destruct (is_null (store_real temp)); [intro H; inversion H; reflexivity|].
  destruct (memZ i (iso_ids d)); [intro H; inversion H; reflexivity|].
  destruct (negb (memZ ty (tnames (itypes d))) || negb (memZ m (names (mat d))) || negb (memZ a (names (ads d)))); intro H; inversion H; reflexivity.
Qed.

(* isotherm_to_db without auto-insert as a function of the file *)
Definition iso_upload_db (x : isoin) (d : db) : option db :=
  match ins_iso (n_id x) (n_ty x) (n_mat x) (n_ads x) (n_temp x) d with
  | Bad _ => None
  | Good (_, d1) => match fold_stmt (f_prop (n_id x)) (n_props x) d1 with
                    | None => None
                    | Some d2 => fold_stmt (f_data (n_id x)) (n_data x) d2 end end.
Lemma run_iso_upload : forall x d r,
  match iso_upload_db x d with
  | Some d' => oc_of (run_op (IsoUp x false false) d r) = OOk RUnit /\ db_after (run_op (IsoUp x false false) d r) = d'
  | None => oc_of (run_op (IsoUp x false false) d r) = OParsing /\ db_after (run_op (IsoUp x false false) d r) = d end.
Proof.
  intros x d r. unfold iso_upload_db, run_op, with_conn, body, iso_upload, oc_of, db_after, seqP.
  rewrite (forP_ext _ (n_data x) _ (fun r0 => ex (f_data (n_id x) r0))) by (intros [[ty dty] data]; reflexivity).
  change (forP (n_props x) (fun p => ex (ins_iprop (n_id x) (fst p) (bool_text (snd p))))) with (forP (n_props x) (fun p => ex (f_prop (n_id x) p))).
  rewrite run_bind, run_ex. unfold pragma_fk. cbn [s_db s_reg s_n].
  rewrite run_bind. cbn [bindP]. rewrite run_bind, run_ex. cbn [s_db s_reg s_n].
  destruct (ins_iso (n_id x) (n_ty x) (n_mat x) (n_ads x) (n_temp x) d) as [[[] d1]|e] eqn:Ei.
  - rewrite run_bind.
    pose proof (run_forP_stmt _ (f_prop (n_id x)) (n_props x) (mkSt d1 r 2) (f_prop_err (n_id x))) as Hp. cbn [s_db] in Hp.
    destruct (fold_stmt (f_prop (n_id x)) (n_props x) d1) as [d2|].
    + destruct Hp as [A B].
      destruct (run None (forP (n_props x) (fun p => ex (f_prop (n_id x) p))) (mkSt d1 r 2)) as [res st]. cbn [fst snd] in A, B. subst res.
      pose proof (run_forP_stmt _ (f_data (n_id x)) (n_data x) st (f_data_err (n_id x))) as Hd. rewrite B in Hd.
      destruct (fold_stmt (f_data (n_id x)) (n_data x) d2) as [d3|].
      * destruct Hd as [A' B'].
        destruct (run None (forP (n_data x) (fun r0 => ex (f_data (n_id x) r0))) st) as [res st']. cbn [fst snd] in A', B'. subst res.
        cbn. rewrite B'. split; reflexivity.
      * destruct (run None (forP (n_data x) (fun r0 => ex (f_data (n_id x) r0))) st) as [res st']. cbn [fst snd] in Hd. subst res.
        cbn. split; reflexivity.
    + destruct (run None (forP (n_props x) (fun p => ex (f_prop (n_id x) p))) (mkSt d1 r 2)) as [res st]. cbn [fst snd] in Hp. subst res.
      cbn. split; reflexivity.
  - rewrite (ins_iso_err _ _ _ _ _ _ _ Ei). cbn. split; reflexivity.
Qed.

Lemma filter_app_owned : forall X (own : X -> Z) (l new : list X) i j, (forall x, In x new -> own x = i) ->
  filter (fun x => own x =? j) (l ++ new) = filter (fun x => own x =? j) l ++ (if j =? i then new else []).
Proof.
  intros X own l new i j H. rewrite filter_app. f_equal.
  induction new as [|p q IH]; simpl; [destruct (j =? i); reflexivity|].
  rewrite (H p (or_introl eq_refl)). rewrite IH by (intros; apply H; right; auto).
  rewrite (Z.eqb_sym i j). destruct (j =? i); reflexivity.
Qed.
Lemma filter_owned_none : forall X (own : X -> Z) (l : list X) j, (forall x, In x l -> own x <> j) -> filter (fun x => own x =? j) l = [].
Proof.
  induction l as [|p q IH]; simpl; intros j H; [reflexivity|].
  assert (own p <> j) by (apply H; auto). apply Z.eqb_neq in H0. rewrite H0. apply IH. intros; apply H; auto.
Qed.
Lemma ins_iso_eval : forall i ty m a temp d,
  ins_iso i ty m a temp d =
  if is_null (store_real temp) then Bad EIntegrity
  else if memZ i (iso_ids d) then Bad EIntegrity
  else if negb (memZ ty (tnames (itypes d))) || negb (memZ m (names (mat d))) || negb (memZ a (names (ads d))) then Bad EIntegrity
  else Good (tt, set_iso (isos d ++ [mkI i ty m a (store_real temp)]) d).
Proof. reflexivity. Qed.
Lemma existsb_ext : forall X (f g : X -> bool) l, (forall x, f x = g x) -> existsb f l = existsb g l.
Proof. induction l; simpl; intros H; [reflexivity|]. rewrite (H a), (IHl H). reflexivity. Qed.

(* THEOREM: isotherm upload without auto-insert refines the dictionary's insert *)
Theorem iso_upload_plain_refines : forall x d r, wf d -> temp_plain (n_temp x) ->
  match s_iso_upload conv_iso x false false (abs d) with
  | Some s' => oc_of (run_op (IsoUp x false false) d r) = OOk RUnit /\ abs (db_after (run_op (IsoUp x false false) d r)) = s'
  | None => oc_of (run_op (IsoUp x false false) d r) = OParsing /\ db_after (run_op (IsoUp x false false) d r) = d end.
Proof.
  intros x d r H Ht. destruct (wf_parts d H) as (Hnd & Hrefs & Hpo & Hdo).
  pose proof (run_iso_upload x d r) as Hrun. unfold iso_upload_db in Hrun. rewrite ins_iso_eval in Hrun.
  unfold s_iso_upload, s_auto. cbn [andb].
  rewrite (conv_iso_temp _ Ht).
  rewrite (existsb_ext _ (fun p : Z * val => is_null (conv_iso (snd p))) (fun p => is_null (store_real (bool_text (snd p)))) (n_props x))
    by (intro; apply is_null_conv_iso).
  assert (E1 : map si_id (sisos (abs d)) = iso_ids d) by (unfold abs, iso_ids; simpl; rewrite map_map; reflexivity). rewrite E1.
  assert (E2 : tkeys (sitypes (abs d)) = tnames (itypes d)) by (unfold abs; simpl; apply tkeys_map_types). rewrite E2.
  assert (E3 : keys (s_items (smat (abs d))) = names (mat d)) by (apply (keys_abs_store (mat d))). rewrite E3.
  assert (E4 : keys (s_items (sads (abs d))) = names (ads d)) by (apply (keys_abs_store (ads d))). rewrite E4.
  destruct (is_null (store_real (n_temp x))) eqn:En; [exact Hrun|]. cbn [orb].
  destruct (memZ (n_id x) (iso_ids d)) eqn:Edup.
  { destruct (existsb (fun p => is_null (store_real (bool_text (snd p)))) (n_props x)); exact Hrun. }
  destruct (negb (memZ (n_ty x) (tnames (itypes d))) || negb (memZ (n_mat x) (names (mat d))) || negb (memZ (n_ads x) (names (ads d)))) eqn:Efk.
  { destruct (existsb (fun p => is_null (store_real (bool_text (snd p)))) (n_props x)); exact Hrun. }
  set (new := mkI (n_id x) (n_ty x) (n_mat x) (n_ads x) (store_real (n_temp x))) in *.
  set (d1 := set_iso (isos d ++ [new]) d) in *.
  apply memZ_false in Edup.
  assert (Hin1 : In (n_id x) (iso_ids d1)) by (unfold d1, set_iso, iso_ids; simpl; rewrite map_app; apply in_app_iff; right; left; reflexivity).
  pose proof (fold_iprops (n_id x) (n_props x) d1 Hin1) as Hp. unfold f_prop in Hrun.
  destruct (fold_stmt (fun p : Z * val => ins_iprop (n_id x) (fst p) (bool_text (snd p))) (n_props x) d1) as [d2|]; [|rewrite Hp; exact Hrun].
  destruct Hp as [Hnull (newps & n' & F1 & F2 & F3)]. rewrite Hnull.
  assert (Hin2 : In (n_id x) (iso_ids d2)) by (rewrite F1; exact Hin1).
  destruct (fold_idata (n_id x) (n_data x) d2 Hin2) as (newds & n'' & G1 & G2 & G3). unfold f_data in Hrun. rewrite G1 in Hrun.
  destruct Hrun as [O1 O2]. split; [exact O1|]. rewrite O2, F1. unfold with_iso_rows, d1, set_iso, abs, set_sisos; simpl.
  f_equal. rewrite map_app. f_equal.
  - apply map_ext_in. intros i Hi. unfold abs_iso; simpl.
    assert (Hne : i_id i <> n_id x) by (intro E; apply Edup; unfold iso_ids; rewrite <- E; apply in_map; exact Hi).
    apply Z.eqb_neq in Hne.
    rewrite (filter_app_owned _ p_own _ _ (n_id x) (i_id i) F3), (filter_app_owned _ d_iso _ _ (n_id x) (i_id i) G3), Hne, !app_nil_r. reflexivity.
  - simpl. f_equal. unfold abs_iso, new; simpl.
    rewrite (filter_app_owned _ p_own _ _ (n_id x) (n_id x) F3), (filter_app_owned _ d_iso _ _ (n_id x) (n_id x) G3), Z.eqb_refl.
    rewrite (filter_owned_none _ p_own (iprops d)) by (intros p Hp0 E; apply Edup; rewrite <- E; apply Hpo; exact Hp0).
    rewrite (filter_owned_none _ d_iso (idata d)) by (intros q Hq E; apply Edup; rewrite <- E; apply Hdo; exact Hq).
    simpl. rewrite F2, G2. reflexivity.
Qed.

(* ------------------------------------------------------------------ all write operations except auto-inserting isotherm uploads *)
Definition temp_plainb (v : val) : bool := match v with VNull | VNum _ => true | _ => false end.
Lemma temp_plainb_ok : forall v, temp_plainb v = true -> temp_plain v.
Proof. destruct v; simpl; intros; try discriminate; exact I. Qed.
Definition plain_iso_upload (o : op) : bool := match o with IsoUp x false false => temp_plainb (n_temp x) | _ => false end.
(* the dictionary keeps a value as the column it lives in reads it back: REAL affinity for entity properties, and for isotherm
   properties additionally the 'TRUE'/'FALSE' encoding of booleans *)
Definition dict_step (o : op) (s : sdb) : bool * sdb :=
  match o with IsoUp _ _ _ => sstep conv_iso o s | _ => sstep store_real o s end.
Definition covered_all (o : op) : bool := refined_write o || plain_iso_upload o || is_get o.

Theorem op_refines : forall o d r, wf d -> refined_write o || plain_iso_upload o = true ->
  abs (db_after (run_op o d r)) = snd (dict_step o (abs d))
  /\ accepted (oc_of (run_op o d r)) = fst (dict_step o (abs d))
  /\ (fst (dict_step o (abs d)) = false -> oc_of (run_op o d r) = OParsing /\ db_after (run_op o d r) = d).
Proof.
  intros o d r H Ho. apply orb_true_iff in Ho. destruct Ho as [Ho|Ho].
  - assert (E : dict_step o (abs d) = sstep store_real o (abs d)) by (destruct o; simpl in Ho; try discriminate; reflexivity).
    rewrite E. apply write_op_refines; assumption.
  - destruct o; simpl in Ho; try discriminate. destruct am; [discriminate|]. destruct aa; [discriminate|].
    apply temp_plainb_ok in Ho. pose proof (iso_upload_plain_refines x d r H Ho) as Hr. unfold dict_step, sstep.
    destruct (s_iso_upload conv_iso x false false (abs d)) as [s'|]; destruct Hr as [A B]; rewrite A; simpl; repeat split; auto; try discriminate.
    rewrite B. reflexivity.
Qed.

Definition dict_file (s : sdb) (l : list op) : sdb := fold_left (fun s o => snd (dict_step o s)) l s.
(* any history on one file of: adsorbate / material uploads, overwrites, deletions; type uploads, overwrites, deletions; isotherm uploads
   without auto-insert; isotherm deletions; retrievals - from any well-formed content, with any registries *)
Theorem history_refines_all : forall l d r, wf d -> forallb covered_all l = true ->
  wf (run_file d r l) /\ abs (run_file d r l) = dict_file (abs d) l.
Proof.
  induction l as [|o t IH]; intros d r H Hc; simpl; [split; [exact H | reflexivity]|].
  simpl in Hc. apply andb_true_iff in Hc. destruct Hc as [Ho Hc].
  pose proof (run_op_wf o d r H) as Hw. unfold DbInv.db_after in Hw.
  destruct (run_op o d r) as [[[oc d'] r'] n] eqn:Er. simpl in Hw.
  assert (Ed : abs d' = snd (dict_step o (abs d))).
  { unfold covered_all in Ho. apply orb_true_iff in Ho. destruct Ho as [Ho|Ho].
    - pose proof (op_refines o d r H Ho) as (A & _). rewrite Er in A. exact A.
    - destruct (retrieval_changes_nothing o d r oc d' r' n Ho Er) as [E1 _]. subst d'.
      destruct o; simpl in Ho; try discriminate; reflexivity. }
  destruct (IH d' r' Hw Hc) as [W E]. split; [exact W|]. rewrite E, Ed. reflexivity.
Qed.

Example history_refines_all_hypotheses_satisfiable :
  forallb covered_all [TyUp TIso A_point VNull VNull false; EntUp EMat 30 [(20, [VNum 1; VNum 2])] true false; EntUp EAds 10 [] true false;
                       IsoUp (mkIn 100 A_point 30 [] 10 [] (VNum 77) [(40, VBool true); (41, VText 9)] [(50, 51, 52)]) false false;
                       IsoGet (mkC None None None None); IsoDel 100; EntDel EMat 30; TyDel TIso A_point] = true
  /\ wf empty_db.
Proof. split; [vm_compute; reflexivity | apply empty_db_wf]. Qed.
