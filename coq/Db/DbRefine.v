(* Refinement of the dictionary model (Db/DbSpec.v) by the table/statement model (Db/DbModel.v). *)
From Coq Require Import ZArith List Bool Lia.
From PG Require Import Db.DbModel Db.DbSpec.
Import ListNotations.
Open Scope Z_scope.

(* a call that does not return normally leaves the database file as it was: for EVERY program run under with_connection,
   every fault, every state *)
Lemma with_conn_refused_unchanged : forall flt cf p d r oc d' r' n,
  with_conn flt cf p d r = (oc, d', r', n) -> (forall a, oc <> OOk a) -> cf <> CAfterCommit -> d' = d.
Proof.
  intros flt cf p d r oc d' r' n H Hno Hcf. unfold with_conn in H.
  destruct (run flt (seqP (ex pragma_fk) p) (mkSt d r 0)) as [res s].
  destruct res as [a|e].
  - destruct cf as [| | |e1]; [| | |destruct e1]; inversion H; subst; try reflexivity.
    + exfalso. eapply Hno. reflexivity.
    + congruence.
  - destruct e; inversion H; reflexivity.
Qed.

Lemma refused_op_unchanged : forall o d r oc d' r' n,
  run_op o d r = (oc, d', r', n) -> (forall a, oc <> OOk a) -> d' = d.
Proof. intros. eapply with_conn_refused_unchanged; eauto. discriminate. Qed.

(* ------------------------------------------------------------------ retrievals change nothing *)
Fixpoint readonly {A} (p : prog A) : Prop :=
  match p with
  | Ret _ | Raise _ => True
  | Exec f h k => (forall d b d', f d = Good (b, d') -> d' = d) /\ h = None /\ forall b, readonly (k b)
  | RegOp f k => (forall r, snd (f r) = r) /\ forall b, readonly (k b) end.
Lemma readonly_bind : forall A C (p : prog A) (g : A -> prog C), readonly p -> (forall a, readonly (g a)) -> readonly (bindP p g).
Proof.
  induction p; simpl; intros g Hp Hg.
  - auto.
  - auto.
  - destruct Hp as [Hf [Hh Hk]]. subst h. repeat split; auto.
  - destruct Hp as [Hf Hk]. split; auto.
Qed.
Lemma readonly_ex : forall B (f : stmt B), (forall d b d', f d = Good (b, d') -> d' = d) -> readonly (ex f).
Proof. intros. simpl. repeat split; auto. Qed.
Lemma run_readonly : forall A (p : prog A) flt s res s', readonly p -> run flt p s = (res, s') -> s_db s' = s_db s /\ s_reg s' = s_reg s.
Proof.
  induction p; simpl; intros flt s res s' Hr E.
  - inversion E; auto.
  - inversion E; auto.
  - destruct Hr as [Hf [Hh Hk]]. subst h.
    destruct (hits flt (S (s_n s))) as [e|].
    + destruct e; inversion E; auto.
    + destruct (f (s_db s)) as [[b d']|e] eqn:Ef.
      * apply Hf in Ef. subst d'. apply H in E; auto.
      * destruct e; inversion E; auto.
  - destruct Hr as [Hf Hk]. destruct (f (s_reg s)) as [b r'] eqn:Ef.
    specialize (Hf (s_reg s)). rewrite Ef in Hf. simpl in Hf. subst r'.
    apply H in E; auto.
Qed.
Definition is_get (o : op) : bool := match o with EntGet _ | TyGet _ | IsoGet _ => true | _ => false end.
Lemma sel_good_same : forall B (g : db -> B) d b d', (fun d => Good (g d, d)) d = Good (b, d') -> d' = d.
Proof. intros. inversion H; auto. Qed.
Lemma readonly_body : forall o, is_get o = true -> readonly (body o).
Proof.
  intros o Ho. destruct o; simpl in Ho; try discriminate; unfold body.
  - apply readonly_bind; [|intro; exact I]. unfold ent_get. apply readonly_bind.
    + apply readonly_ex. intros d b d' E. inversion E; auto.
    + intro rs. induction rs as [|[i n] rs IH]; [exact I|].
      apply readonly_bind; [apply readonly_ex; intros d b d' E; inversion E; auto|].
      intro ps. apply readonly_bind; [exact IH|]. intro; exact I.
  - apply readonly_bind; [|intro; exact I]. apply readonly_ex. intros d b d' E. unfold sel_types in E.
    destruct (missing t); inversion E; auto.
  - apply readonly_bind; [|intro; exact I]. unfold iso_get, iso_get_n. apply readonly_bind.
    + apply readonly_ex. intros d b d' E. inversion E; auto.
    + intro rs. generalize (chunks (S (length rs)) iso_batch rs). intro cs. induction cs as [|ch cs IH]; [exact I|]. cbn [iso_get_chunks].
      apply readonly_bind; [apply readonly_ex; intros d b d' E; inversion E; auto|]. intro ps.
      apply readonly_bind; [apply readonly_ex; intros d b d' E; inversion E; auto|]. intro ds.
      apply readonly_bind; [exact IH|]. intro; exact I.
Qed.
Theorem retrieval_changes_nothing : forall o d r oc d' r' n,
  is_get o = true -> run_op o d r = (oc, d', r', n) -> d' = d /\ r' = r.
Proof.
  intros o d r oc d' r' n Hg E. unfold run_op, with_conn in E.
  destruct (run None (seqP (ex pragma_fk) (body o)) (mkSt d r 0)) as [res s] eqn:Er.
  assert (Hro : readonly (seqP (ex pragma_fk) (body o))).
  { apply readonly_bind; [apply readonly_ex; intros d0 b d0' E0; inversion E0; auto|]. intro. apply readonly_body; auto. }
  destruct (run_readonly _ _ _ _ _ _ Hro Er) as [H1 H2]. simpl in H1, H2.
  destruct res as [a|e]; [|destruct e]; inversion E; subst; auto.
Qed.

(* ------------------------------------------------------------------ deleting an isotherm: refinement of the dictionary's delete *)
Lemma existsb_filter_neg : forall X (f : X -> Z) i (l : list X),
  existsb (fun r => f r =? i) (filter (fun r => negb (f r =? i)) l) = false.
Proof.
  induction l; simpl; auto. destruct (f a =? i) eqn:E; simpl; auto. rewrite E. simpl. auto.
Qed.
Lemma filter_filter_other : forall X (f : X -> Z) i j (l : list X), j <> i ->
  filter (fun r => f r =? j) (filter (fun r => negb (f r =? i)) l) = filter (fun r => f r =? j) l.
Proof.
  induction l; simpl; intros; auto. destruct (f a =? i) eqn:E; simpl.
  - apply Z.eqb_eq in E. destruct (f a =? j) eqn:E2; [apply Z.eqb_eq in E2; congruence|]. auto.
  - destruct (f a =? j); simpl; rewrite IHl; auto.
Qed.
Lemma memZ_map_abs : forall d0 i l, memZ i (map si_id (map (abs_iso d0) l)) = memZ i (map i_id l).
Proof. intros. rewrite map_map. simpl. reflexivity. Qed.

Definition abs_iso_of (ip : list prow) (idt : list drow) (i : irow) : siso :=
  mkSI (i_id i) (i_ty i) (i_mat i) (i_ads i) (i_temp i)
       (map (fun p => (p_ty p, check_bool (p_val p))) (filter (fun p => p_own p =? i_id i) ip))
       (map (fun r => (d_ty r, d_dty r, d_data r)) (filter (fun r => d_iso r =? i_id i) idt)).
Lemma map_abs_filter : forall ip idt i l,
  map (abs_iso_of (filter (fun r => negb (p_own r =? i)) ip) (filter (fun r => negb (d_iso r =? i)) idt)) (filter (fun r => negb (i_id r =? i)) l)
  = filter (fun x => negb (si_id x =? i)) (map (abs_iso_of ip idt) l).
Proof.
  induction l as [|x l IH]; simpl; auto.
  destruct (i_id x =? i) eqn:Ex; simpl.
  - apply IH.
  - f_equal; [|apply IH]. unfold abs_iso_of. apply Z.eqb_neq in Ex.
    rewrite (filter_filter_other _ p_own i (i_id x)), (filter_filter_other _ d_iso i (i_id x)); auto.
Qed.

Theorem iso_delete_refines : forall i d r,
  match s_iso_delete i (abs d) with
  | Some s' => fst (fst (fst (run_op (IsoDel i) d r))) = OOk RUnit /\ abs (snd (fst (fst (run_op (IsoDel i) d r)))) = s'
  | None => fst (fst (fst (run_op (IsoDel i) d r))) = OParsing /\ snd (fst (fst (run_op (IsoDel i) d r))) = d end.
Proof.
  intros i d r. unfold s_iso_delete. simpl sisos. rewrite memZ_map_abs.
  unfold run_op, with_conn, body, iso_delete. simpl. unfold iso_ids.
  destruct (memZ i (map i_id (isos d))) eqn:Em; simpl.
  - unfold del_iso. simpl. rewrite (existsb_filter_neg _ p_own), (existsb_filter_neg _ d_iso). simpl.
    split; [reflexivity|]. unfold abs, set_iso, set_sisos. simpl. f_equal.
    exact (map_abs_filter (iprops d) (idata d) i (isos d)).
  - split; reflexivity.
Qed.

(* ------------------------------------------------------------------ the registry is the ONLY channel between files *)
(* a program whose control flow and statements do not depend on what it reads from the registry *)
Fixpoint regblind {A} (p : prog A) : Prop :=
  match p with
  | Ret _ | Raise _ => True
  | Exec f h k => match h with Some q => regblind q | None => True end /\ forall b, regblind (k b)
  | RegOp f k => (forall r1 r2, fst (f r1) = fst (f r2)) /\ forall b, regblind (k b) end.
Fixpoint run_regblind {A} (p : prog A) : forall flt d r1 r2 n, regblind p ->
  fst (run flt p (mkSt d r1 n)) = fst (run flt p (mkSt d r2 n))
  /\ s_db (snd (run flt p (mkSt d r1 n))) = s_db (snd (run flt p (mkSt d r2 n)))
  /\ s_n (snd (run flt p (mkSt d r1 n))) = s_n (snd (run flt p (mkSt d r2 n))).
Proof.
  destruct p as [a0|e0|B f h kk|B f kk]; intros flt d r1 r2 n Hb; simpl in *.
  - repeat split; reflexivity.
  - repeat split; reflexivity.
  - destruct Hb as [Hh Hk].
    destruct (match hits flt (S n) with Some e => Bad e | None => f d end) as [[b d']|e].
    + apply (run_regblind _ (kk b)). apply Hk.
    + destruct e; simpl; try (repeat split; reflexivity).
      destruct h as [q|]; simpl; [|repeat split; reflexivity]. apply (run_regblind _ q). exact Hh.
  - destruct Hb as [Hf Hk]. specialize (Hf r1 r2).
    destruct (f r1) as [b1 r1'], (f r2) as [b2 r2']. simpl in Hf. subst b2.
    apply (run_regblind _ (kk b1)). apply Hk.
Qed.
Lemma regblind_bind : forall A C (p : prog A) (g : A -> prog C), regblind p -> (forall a, regblind (g a)) -> regblind (bindP p g).
Proof.
  fix IH 3. intros A C p g Hp Hg. destruct p as [a0|e0|B f h kk|B f kk]; simpl in *.
  - apply Hg.
  - exact I.
  - destruct Hp as [Hh Hk]. split.
    + destruct h as [q|]; [|exact I]. apply IH; [exact Hh|exact Hg].
    + intro b. apply IH; [apply Hk|exact Hg].
  - destruct Hp as [Hf Hk]. split; [exact Hf|]. intro b. apply IH; [apply Hk|exact Hg].
Qed.
Lemma regblind_ex : forall B (f : stmt B), regblind (ex f).
Proof. intros. simpl. split; auto. Qed.
Lemma regblind_for : forall X (l : list X) f, (forall x, regblind (f x)) -> regblind (forP l f).
Proof. induction l; simpl; intros; auto. apply regblind_bind; auto. Qed.
Lemma regblind_reg_write : forall A (g : reg -> reg) (k : prog A), regblind k -> regblind (RegOp (fun r => (tt, g r)) (fun _ => k)).
Proof. intros. simpl. split; auto. Qed.
Lemma regblind_ent_upload : forall e n ps a w, regblind (ent_upload e n ps a w).
Proof.
  intros. unfold ent_upload.
  assert (Hrest : forall own, regblind (seqP (if a then bindP (ex (sel_types match e with EAds => TAds | EMat => TMat end))
      (fun ts => forP (filter (fun p => negb (memZ (fst p) (tnames ts))) ps) (fun p => ex (ins_type match e with EAds => TAds | EMat => TMat end (fst p) VNull VNull))) else Ret tt)
      (seqP (forP ps (fun p => forP (snd p) (fun v => ex (ins_prop e own (fst p) v))))
         (RegOp (fun r => (tt, sreg e ((if w && memZ n (greg e r) then remove_first n (greg e r) else greg e r) ++ [n]) r)) Ret)))).
  { intro own. apply regblind_bind.
    - destruct a; [|exact I]. apply regblind_bind; [apply regblind_ex|]. intro ts. apply regblind_for. intro; apply regblind_ex.
    - intro. apply regblind_bind.
      + apply regblind_for. intro. apply regblind_for. intro. apply regblind_ex.
      + intro. simpl. split; auto. }
  destruct w.
  - apply regblind_bind; [apply regblind_ex|]. intros [own|]; [|exact I].
    simpl. split; [apply Hrest|]. intros [|]; [|apply Hrest]. simpl. split; [apply Hrest|]. intro. apply Hrest.
  - apply regblind_bind; [apply regblind_ex|]. intro own. apply Hrest.
Qed.
Definition uses_registry (o : op) : bool := match o with IsoUp _ am aa => am || aa | _ => false end.
Lemma regblind_body : forall o, uses_registry o = false -> regblind (body o).
Proof.
  intros o Ho. destruct o; simpl in Ho; unfold body.
  - apply regblind_bind; [apply regblind_ent_upload|intro; exact I].
  - apply regblind_bind; [|intro; exact I]. unfold ent_get. apply regblind_bind; [apply regblind_ex|]. intro rs.
    induction rs as [|[i n] rs IH]; [exact I|].
    apply regblind_bind; [apply regblind_ex|]. intro ps. apply regblind_bind; [exact IH|]. intro; exact I.
  - apply regblind_bind; [|intro; exact I]. unfold ent_delete. apply regblind_bind; [apply regblind_ex|]. intros [i|]; [|exact I].
    apply regblind_bind; [apply regblind_ex|]. intro. apply regblind_bind; [apply regblind_ex|]. intro. simpl. split; auto.
  - apply regblind_bind; [|intro; exact I]. apply regblind_ex.
  - apply regblind_bind; [|intro; exact I]. apply regblind_ex.
  - apply regblind_bind; [|intro; exact I]. unfold type_delete. apply regblind_bind; [apply regblind_ex|]. intros [|]; [apply regblind_ex|exact I].
  - apply orb_false_iff in Ho. destruct Ho; subst am aa.
    apply regblind_bind; [|intro; exact I]. unfold iso_upload.
    apply regblind_bind; [exact I|]. intro. apply regblind_bind; [exact I|]. intro.
    apply regblind_bind; [apply regblind_ex|]. intro. apply regblind_bind.
    + apply regblind_for. intro; apply regblind_ex.
    + intro. apply regblind_for. intros [[ty dty] data]. apply regblind_ex.
  - apply regblind_bind; [|intro; exact I]. unfold iso_get, iso_get_n. apply regblind_bind; [apply regblind_ex|]. intro rs.
    generalize (chunks (S (length rs)) iso_batch rs). intro cs. induction cs as [|ch cs IH]; [exact I|]. cbn [iso_get_chunks].
    apply regblind_bind; [apply regblind_ex|]. intro ps. apply regblind_bind; [apply regblind_ex|]. intro ds.
    apply regblind_bind; [exact IH|]. intro; exact I.
  - apply regblind_bind; [|intro; exact I]. unfold iso_delete. apply regblind_bind; [apply regblind_ex|]. intros [|]; [|exact I].
    apply regblind_bind; [apply regblind_ex|]. intro. apply regblind_bind; [apply regblind_ex|]. intro. apply regblind_ex.
Qed.
(* outcome, file content afterwards and number of statements do not depend on the registries (i.e. on earlier uploads of the
   session or on other files) for every operation except isotherm uploads with auto-insert *)
Theorem outcome_depends_on_target_file_only : forall o d r1 r2,
  uses_registry o = false ->
  fst (fst (fst (run_op o d r1))) = fst (fst (fst (run_op o d r2)))
  /\ snd (fst (fst (run_op o d r1))) = snd (fst (fst (run_op o d r2))).
Proof.
  intros o d r1 r2 Hu. unfold run_op, with_conn.
  assert (Hb : regblind (seqP (ex pragma_fk) (body o))).
  { apply regblind_bind; [apply regblind_ex|]. intro. apply regblind_body; auto. }
  destruct (run_regblind _ None d r1 r2 0%nat Hb) as [H1 [H2 H3]].
  destruct (run None (seqP (ex pragma_fk) (body o)) (mkSt d r1 0)) as [res1 s1].
  destruct (run None (seqP (ex pragma_fk) (body o)) (mkSt d r2 0)) as [res2 s2].
  simpl in *. subst res2. destruct res1 as [a|e]; simpl; [rewrite H2; auto|]. destruct e; simpl; auto.
Qed.

(* ------------------------------------------------------------------ several files, arbitrary histories *)
Lemma length_set_nth : forall X (l : list X) n x, length (set_nth n x l) = length l.
Proof. induction l; destruct n; simpl; auto. Qed.
Lemma nth_set_nth_same : forall X (l : list X) n x dflt, (n < length l)%nat -> nth n (set_nth n x l) dflt = x.
Proof. induction l; destruct n; simpl; intros; try lia; auto. apply IHl. lia. Qed.
Lemma nth_set_nth_other : forall X (l : list X) n m x dflt, n <> m -> nth m (set_nth n x l) dflt = nth m l dflt.
Proof. induction l; destruct n, m; simpl; intros; try congruence; auto. Qed.

Definition files_after (x : outcome * files * reg * nat) : files := snd (fst (fst x)).
(* a call never touches another file *)
Theorem other_files_untouched : forall fs r fo j, j <> fst fo -> nth j (files_after (step fs r fo)) empty_db = nth j fs empty_db.
Proof.
  intros fs r [i o] j Hj. unfold step, files_after. simpl.
  destruct (run_op o (nth i fs empty_db) r) as [[[oc d'] r'] n]. simpl. apply nth_set_nth_other. auto.
Qed.

(* the operations aimed at file i, run on that file alone *)
Fixpoint proj (i : nat) (h : list (nat * op)) : list op :=
  match h with [] => [] | (f, o) :: t => if Nat.eqb f i then o :: proj i t else proj i t end.
Fixpoint run_file (d : db) (r : reg) (l : list op) : db :=
  match l with [] => d | o :: t => let '(_, d', r', _) := run_op o d r in run_file d' r' t end.
Definition final_files (x : list outcome * files * reg) : files := snd (fst x).
Theorem history_files_independent : forall h fs r r2 i,
  forallb (fun fo => negb (uses_registry (snd fo))) h = true -> (i < length fs)%nat ->
  nth i (final_files (run_hist fs r h)) empty_db = run_file (nth i fs empty_db) r2 (proj i h).
Proof.
  induction h as [|[f o] t IH]; intros fs r r2 i Hall Hi; simpl.
  - reflexivity.
  - simpl in Hall. apply andb_true_iff in Hall. destruct Hall as [Ho Hall]. apply negb_true_iff in Ho.
    unfold step. simpl.
    destruct (run_op o (nth f fs empty_db) r) as [[[oc d'] r'] n] eqn:E1.
    destruct (run_hist (set_nth f d' fs) r' t) as [[ocs fs''] r''] eqn:E2. simpl.
    assert (Hfin : fs'' = final_files (run_hist (set_nth f d' fs) r' t)) by (rewrite E2; reflexivity).
    destruct (Nat.eqb f i) eqn:Ef.
    + apply Nat.eqb_eq in Ef. subst f. simpl.
      destruct (run_op o (nth i fs empty_db) r2) as [[[oc2 d2] r2'] n2] eqn:E3.
      assert (d2 = d').
      { pose proof (outcome_depends_on_target_file_only o (nth i fs empty_db) r r2 Ho) as [_ H]. rewrite E1, E3 in H. simpl in H. auto. }
      subst d2. change (nth i fs'' empty_db = run_file d' r2' (proj i t)). rewrite Hfin. rewrite (IH _ r' r2' i Hall).
      * rewrite nth_set_nth_same; auto.
      * rewrite length_set_nth. auto.
    + apply Nat.eqb_neq in Ef. change (nth i fs'' empty_db = run_file (nth i fs empty_db) r2 (proj i t)). rewrite Hfin. rewrite (IH _ r' r2 i Hall).
      * rewrite nth_set_nth_other; auto.
      * rewrite length_set_nth. auto.
Qed.

(* ------------------------------------------------------------------ where the implementation (faithfully modelled) leaves the dictionary *)
Definition w_db : db := mkDb (mkS [(1, 10)] 2 [] 1 [] 1) empty_store [mkT 1 A_point VNull VNull] 2 [] [] 1 [] 1.
Definition w_iso : isoin := mkIn 100 A_point 30 [] 10 [] (VNum 7) [(40, VText 41)] [(50, 51, 52)].
Definition plain (v : val) : val := v.
Definition db_after (x : outcome * db * reg * nat) : db := snd (fst (fst x)).
Definition oc_after (x : outcome * db * reg * nat) : outcome := fst (fst (fst x)).
Definition outcomes (x : list outcome * files * reg) := fst (fst x).
(* upload to file 0, then the same upload to the fresh file 1: the material is registered, not inserted, FOREIGN KEY fails *)
Lemma registry_cross_file_w :
  outcomes (run_hist [w_db; w_db] (mkReg [10] []) [(0%nat, IsoUp w_iso true true); (1%nat, IsoUp w_iso true true)]) = [OOk RUnit; OParsing]
  /\ fst (sstep plain (IsoUp w_iso true true) (abs w_db)) = true.
Proof. vm_compute. split; reflexivity. Qed.
(* numeric-looking text comes back as a number (REAL affinity of the value column) *)
Lemma numeric_text_w :
  let d' := db_after (run_op (EntUp EMat 30 [(20, [VNumText 7 8])] true false) w_db (mkReg [] [])) in
  s_items (smat (abs d')) = [(30, [(20, VNum 8)])]
  /\ s_items (smat (snd (sstep plain (EntUp EMat 30 [(20, [VNumText 7 8])] true false) (abs w_db)))) = [(30, [(20, VNumText 7 8)])]
  /\ vcode (VNum 8) <> vcode (VNumText 7 8).
Proof. vm_compute. repeat split; discriminate. Qed.
(* what isotherms_from_db hands to the constructor carries the extra key iso_type: the retrieved isotherm is not the stored one *)
Lemma retrieved_iso_extra_key_w :
  let d' := db_after (run_op (IsoUp w_iso true true) w_db (mkReg [10] [])) in
  match oc_after (run_op (IsoGet (mkC None None None None)) d' (mkReg [10] [30])) with
  | OOk (RIsos [x]) => o_props x = (A_iso_type, VText A_point) :: n_props w_iso /\ o_data x = n_data w_iso
  | _ => False end.
Proof. vm_compute. split; reflexivity. Qed.
(* isotherm property types: the schema has no table isotherm_properties_type *)
Lemma iso_property_types_w : forall d r ty u ds w,
  fst (fst (fst (run_op (TyUp TIsoProp ty u ds w) d r))) = OOther EOperational.
Proof. intros. unfold run_op, with_conn, body, type_upload. destruct w; reflexivity. Qed.
(* a list-valued material property: materials_from_db keeps the last value only *)
Lemma material_list_collapsed_w :
  let d' := db_after (run_op (EntUp EMat 30 [(20, [VText 1; VText 2])] true false) w_db (mkReg [] [])) in
  s_items (smat (abs d')) = [(30, [(20, VText 1); (20, VText 2)])]
  /\ oc_after (run_op (EntGet EMat) d' (mkReg [] [30])) = OOk (REnts [(1, 30, [(20, VText 2)])]).
Proof. vm_compute. split; reflexivity. Qed.
