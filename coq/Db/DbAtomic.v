(* C09: atomicity of with_connection under statement faults and process death, for EVERY program (hence every public
   function, every statement position, every prior content), by induction over the program tree. *)
From Coq Require Import ZArith List Bool Lia.
From PG Require Import Db.DbModel.
Import ListNotations.
Open Scope Z_scope.

(* no statement of the program sits inside `try ... except IntegrityError: pass` *)
Fixpoint tryfree {A} (p : prog A) : Prop :=
  match p with
  | Ret _ | Raise _ => True
  | Exec f h k => h = None /\ forall b, tryfree (k b)
  | RegOp f k => forall b, tryfree (k b) end.

Lemma tryfree_bind : forall A C (p : prog A) (g : A -> prog C), tryfree p -> (forall a, tryfree (g a)) -> tryfree (bindP p g).
Proof.
  induction p; simpl; intros g Hp Hg.
  - auto.
  - auto.
  - destruct Hp as [Hh Hk]. subst h. split; auto.
  - intro b. apply H; auto.
Qed.
Lemma tryfree_ex : forall B (f : stmt B), tryfree (ex f).
Proof. intros. simpl. split; [reflexivity | intros; exact I]. Qed.
Lemma tryfree_regop : forall A B (f : reg -> B * reg) (k : B -> prog A), (forall b, tryfree (k b)) -> tryfree (RegOp f k).
Proof. intros. simpl. auto. Qed.
Lemma tryfree_seq : forall A C (p : prog A) (q : prog C), tryfree p -> tryfree q -> tryfree (seqP p q).
Proof. intros. apply tryfree_bind; auto. Qed.
Lemma tryfree_for : forall X (l : list X) f, (forall x, tryfree (f x)) -> tryfree (forP l f).
Proof. induction l; simpl; intros; auto. apply tryfree_seq; auto. Qed.

(* a run that returns normally although a fault was armed never met the fault (or swallowed an IntegrityError in a try):
   it is the un-faulted run *)
Fixpoint unfaulted_same {A} (p : prog A) : forall k e s a s',
  e <> EIntegrity \/ tryfree p -> run (Some (k, e)) p s = (Good a, s') -> run None p s = (Good a, s').
Proof.
  destruct p as [a0|e0|B f h kk|B f kk]; intros k e s a s' Hc H; simpl in *.
  - exact H.
  - exact H.
  - destruct (Nat.eqb k (S (s_n s))) eqn:Ek.
    + (* the fault fires here *)
      destruct e; try discriminate H.
      * destruct Hc as [Hc|[Hh _]]; [congruence|]. subst h. discriminate H.
    + destruct (f (s_db s)) as [[b d']|e1].
      * apply (unfaulted_same _ (kk b) k e); auto. destruct Hc as [Hc|[_ Hk]]; auto.
      * destruct e1; try discriminate H.
        destruct h as [q|]; [|discriminate H].
        destruct Hc as [Hc|[Hh _]]; [|discriminate Hh].
        apply (unfaulted_same _ q k e); auto.
  - destruct (f (s_reg s)) as [b r']. apply (unfaulted_same _ (kk b) k e); auto.
    destruct Hc as [Hc|Hk]; auto.
Qed.

Definition file_after {X Y Z0} (x : outcome * db * X * Y) (_ : Z0) : db := snd (fst (fst x)).
Definition db_of (x : outcome * db * reg * nat) : db := snd (fst (fst x)).
Definition oc_of (x : outcome * db * reg * nat) : outcome := fst (fst (fst x)).

(* every fault: the file afterwards is the pre-state or the post-state of the un-faulted call *)
Theorem with_conn_atomic : forall (p : prog ret) d r flt cf,
  (match flt with Some (k, e) => e <> EIntegrity \/ tryfree p | None => True end) ->
  db_of (with_conn flt cf p d r) = d \/ db_of (with_conn flt cf p d r) = db_of (with_conn None CNone p d r).
Proof.
  intros p d r flt cf Hc. unfold with_conn, db_of.
  destruct (run flt (seqP (ex pragma_fk) p) (mkSt d r 0)) as [res s] eqn:E.
  destruct res as [a|e].
  - assert (E0 : run None (seqP (ex pragma_fk) p) (mkSt d r 0) = (Good a, s)).
    { destruct flt as [[k e]|]; [|exact E].
      eapply unfaulted_same; [|exact E]. destruct Hc as [Hc|Hc]; [left; exact Hc|right].
      apply tryfree_seq; auto. apply tryfree_ex. }
    rewrite E0. destruct cf as [| | |e1]; [| | |destruct e1]; simpl; auto.
  - left. destruct e; reflexivity.
Qed.
(* the caller sees an error (or the process died before commit returned) => nothing was written *)
Theorem failed_call_writes_nothing : forall (p : prog ret) d r flt cf,
  cf <> CAfterCommit -> (forall a, oc_of (with_conn flt cf p d r) <> OOk a) -> db_of (with_conn flt cf p d r) = d.
Proof.
  intros p d r flt cf Hcf Hno. unfold with_conn, db_of, oc_of in *.
  destruct (run flt (seqP (ex pragma_fk) p) (mkSt d r 0)) as [res s].
  destruct res as [a|e].
  - destruct cf as [| | |e1]; [| | |destruct e1]; simpl in *; auto; try congruence. exfalso. eapply Hno. reflexivity.
  - destruct e; reflexivity.
Qed.
(* a fault at or before the last statement always surfaces: statement faults never produce a silent partial commit,
   as long as no try swallows them *)
Theorem death_after_commit_is_post_state : forall (p : prog ret) d r,
  db_of (with_conn None CAfterCommit p d r) = db_of (with_conn None CNone p d r).
Proof.
  intros. unfold with_conn, db_of. destruct (run None (seqP (ex pragma_fk) p) (mkSt d r 0)) as [res s].
  destruct res as [a|e]; [reflexivity|destruct e; reflexivity].
Qed.

(* which public functions contain no try: all except adsorbate_to_db / material_to_db with overwrite=True *)
Definition is_overwrite_upload (o : op) : bool := match o with EntUp _ _ _ _ true => true | _ => false end.
Lemma tryfree_ent_upload : forall e n ps a, tryfree (ent_upload e n ps a false).
Proof.
  intros. unfold ent_upload. apply tryfree_bind; [apply tryfree_ex|]. intro own.
  apply tryfree_seq.
  - destruct a; [|exact I]. apply tryfree_bind; [apply tryfree_ex|]. intro ts. apply tryfree_for. intro x. apply tryfree_ex.
  - apply tryfree_seq.
    + apply tryfree_for. intro x. apply tryfree_for. intro v. apply tryfree_ex.
    + apply tryfree_regop. intro b. exact I.
Qed.
Lemma tryfree_body : forall o, is_overwrite_upload o = false -> tryfree (body o).
Proof.
  intros o Ho. destruct o; simpl in Ho; unfold body.
  - destruct overwrite; [discriminate|]. apply tryfree_seq; [apply tryfree_ent_upload|exact I].
  - apply tryfree_bind; [|intro; exact I]. unfold ent_get. apply tryfree_bind; [apply tryfree_ex|]. intro rs.
    induction rs as [|[i n] rs IH]; [exact I|].
    apply tryfree_bind; [apply tryfree_ex|]. intro ps. apply tryfree_bind; [exact IH|]. intro; exact I.
  - apply tryfree_seq; [|exact I]. unfold ent_delete. apply tryfree_bind; [apply tryfree_ex|]. intros [i|]; [|exact I].
    apply tryfree_seq; [apply tryfree_ex|]. apply tryfree_seq; [apply tryfree_ex|]. apply tryfree_regop. intro; exact I.
  - apply tryfree_seq; [|exact I]. unfold type_upload. apply tryfree_ex.
  - apply tryfree_bind; [|intro; exact I]. apply tryfree_ex.
  - apply tryfree_seq; [|exact I]. unfold type_delete. apply tryfree_bind; [apply tryfree_ex|]. intros [|]; [apply tryfree_ex|exact I].
  - apply tryfree_seq; [|exact I]. unfold iso_upload.
    apply tryfree_seq.
    { destruct am; [|exact I]. apply tryfree_regop. intros [|]; [exact I|apply tryfree_ent_upload]. }
    apply tryfree_seq.
    { destruct aa; [|exact I]. apply tryfree_regop. intros [|]; [exact I|apply tryfree_ent_upload]. }
    apply tryfree_seq; [apply tryfree_ex|]. apply tryfree_seq.
    + apply tryfree_for. intro; apply tryfree_ex.
    + apply tryfree_for. intros [[ty dty] data]. apply tryfree_ex.
  - apply tryfree_bind; [|intro; exact I]. unfold iso_get, iso_get_n. apply tryfree_bind; [apply tryfree_ex|]. intro rs.
    generalize (chunks (S (length rs)) iso_batch rs). intro cs. induction cs as [|ch cs IH]; [exact I|]. cbn [iso_get_chunks].
    apply tryfree_bind; [apply tryfree_ex|]. intro ps. apply tryfree_bind; [apply tryfree_ex|]. intro ds.
    apply tryfree_bind; [exact IH|]. intro; exact I.
  - apply tryfree_seq; [|exact I]. unfold iso_delete. apply tryfree_bind; [apply tryfree_ex|]. intros [|]; [|exact I].
    apply tryfree_seq; [apply tryfree_ex|]. apply tryfree_seq; apply tryfree_ex.
Qed.

(* THE atomicity statement for the public functions: every operation, every prior content, every statement position k,
   every fault kind (IntegrityError / InterfaceError / OperationalError / process death at k), death before / after commit *)
Theorem public_call_atomic : forall o d r flt cf,
  (match flt with Some (k, e) => e <> EIntegrity \/ is_overwrite_upload o = false | None => True end) ->
  db_of (with_conn flt cf (body o) d r) = d \/ db_of (with_conn flt cf (body o) d r) = db_of (run_op o d r).
Proof.
  intros. apply with_conn_atomic. destruct flt as [[k e]|]; auto.
  destruct H; [left; auto|right; apply tryfree_body; auto].
Qed.

(* the excluded case is real: adsorbate_to_db(overwrite=True) wraps the deletion of the old properties in
   `try: ... except sqlite3.IntegrityError: pass`; an IntegrityError raised by that DELETE (statement 4) is swallowed and the call
   commits the OLD AND the NEW properties - neither pre-state nor post-state *)
Definition wit_db : db :=
  mkDb (mkS [(1, 10)] 2 [mkP 1 1 20 (VNum 5)] 2 [mkT 1 20 VNull VNull] 2) empty_store [] 1 [] [] 1 [] 1.
Definition wit_op : op := EntUp EAds 10 [(20, [VNum 6])] true true.
Theorem overwrite_swallows_integrity_error_refuted :
  let d' := db_of (with_conn (Some (4%nat, EIntegrity)) CNone (body wit_op) wit_db (mkReg [10] [])) in
  oc_of (with_conn (Some (4%nat, EIntegrity)) CNone (body wit_op) wit_db (mkReg [10] [])) = OOk RUnit
  /\ map p_val (props (ads d')) = [VNum 5; VNum 6]
  /\ map p_val (props (ads wit_db)) = [VNum 5]
  /\ map p_val (props (ads (db_of (run_op wit_op wit_db (mkReg [10] []))))) = [VNum 6].
Proof. vm_compute. repeat split. Qed.

(* retry: after a failed call the file is the pre-state; the same call succeeds again iff the registries are those of the
   un-faulted start.  They are not when an auto-insert was rolled back: the name stays in MATERIAL_LIST, the retry skips the
   insert and the isotherm row violates its FOREIGN KEY *)
Definition wit_iso : isoin := mkIn 100 A_point 30 [] 10 [] (VNum 7) [] [].
Definition wit_db2 : db :=
  mkDb (mkS [(1, 10)] 2 [] 1 [] 1) empty_store [mkT 1 A_point VNull VNull] 2 [] [] 1 [] 1.
Theorem retry_after_rolled_back_autoinsert_refuted :
  let r0 := mkReg [10] [] in
  let x := with_conn (Some (4%nat, EOperational)) CNone (body (IsoUp wit_iso true true)) wit_db2 r0 in
  oc_of (run_op (IsoUp wit_iso true true) wit_db2 r0) = OOk RUnit           (* un-faulted: accepted *)
  /\ oc_of x = OOther EOperational /\ db_of x = wit_db2                       (* faulted at the isotherm row: rolled back *)
  /\ r_mat (snd (fst x)) = [30]                                               (* but the material stays registered *)
  /\ oc_of (run_op (IsoUp wit_iso true true) (db_of x) (snd (fst x))) = OParsing.   (* the retry is refused *)
Proof. vm_compute. repeat split. Qed.
Theorem retry_succeeds_partial : forall o d r flt cf,
  db_of (with_conn flt cf (body o) d r) = d -> snd (fst (with_conn flt cf (body o) d r)) = r ->
  run_op o (db_of (with_conn flt cf (body o) d r)) (snd (fst (with_conn flt cf (body o) d r))) = run_op o d r.
Proof. intros o d r flt cf H1 H2. rewrite H1, H2. reflexivity. Qed.
