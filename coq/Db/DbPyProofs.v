(* C08: theorems about operations refused part-way by Python-level code (Db/DbPy.v) and about the wrapper as found in the source. *)
From Coq Require Import ZArith List Bool Lia FunctionalExtensionality.
From PG Require Import Db.DbModel Db.DbSpec Db.DbRefine Db.DbInv Db.DbRefine2 Db.DbAtomic Db.DbPy Db.DbConn Db.DbConnProofs.
Import ListNotations.
Open Scope Z_scope.

(* ------------------------------------------------------------------ a refused call changes nothing *)
(* whatever Python hands over (unbindable values, data columns without an SQL type name, a non-isotherm), whatever statement fails
   in whatever way, whatever happens at commit short of the process dying after it: a call that does not return normally leaves the file
   as it was *)
Theorem py_refused_unchanged : forall po flt cf d r oc d' r' n,
  with_conn flt cf (body_py po) d r = (oc, d', r', n) -> (forall a, oc <> OOk a) -> cf <> CAfterCommit -> d' = d.
Proof. intros. eapply with_conn_refused_unchanged; eauto. Qed.
Theorem py_refused_op_unchanged : forall po d r oc d' r' n,
  run_pyop po d r = (oc, d', r', n) -> (forall a, oc <> OOk a) -> d' = d.
Proof. intros. eapply py_refused_unchanged; eauto. discriminate. Qed.

(* the same for the wrapper AS FOUND IN THE SOURCE (Gen/DbShapeGen.v wc_source, Python's try statement interpreted by Db/DbConn.v, where the
   open transaction holds what the body wrote before it raised): on every path on which the caller does not get a result, nothing the body
   wrote reaches the file.  Breaks when a commit sits on an error path (in a handler, in `finally`). *)
Theorem source_wrapper_refused_unchanged : forall flt cf (p : prog ret) d r oc d' r' n,
  fst (with_conn_gen wc_source flt cf p d r) = Some (oc, d', r', n) -> (forall a, oc <> OOk a) -> cf <> CAfterCommit ->
  d' = d /\ x_file (snd (with_conn_gen wc_source flt cf p d r)) = d'.
Proof.
  intros flt cf p d r oc d' r' n H Hno Hcf. rewrite with_conn_is_source_skeleton in H. inversion H as [H1]. clear H.
  assert (Hd : d' = d) by (eapply with_conn_refused_unchanged; eauto). split; [exact Hd|]. subst d'.
  unfold with_conn in H1. unfold with_conn_gen.
  destruct (run flt (seqP (ex pragma_fk) p) (mkSt d r 0)) as [res s]. cbn.
  destruct res as [a|e].
  - destruct cf as [| | |e1]; [| | |destruct e1]; cbn; try reflexivity; inversion H1; subst; try congruence; exfalso; eapply Hno; reflexivity.
  - destruct e; reflexivity.
Qed.

(* ------------------------------------------------------------------ atomicity (Db/DbAtomic.v is generic in the program) *)
Theorem py_call_atomic : forall po d r flt cf,
  (match flt with Some (k, e) => e <> EIntegrity \/ tryfree (body_py po) | None => True end) ->
  db_of (with_conn flt cf (body_py po) d r) = d \/ db_of (with_conn flt cf (body_py po) d r) = db_of (run_pyop po d r).
Proof. intros. apply with_conn_atomic; assumption. Qed.

(* ------------------------------------------------------------------ the invariant of the tables *)
Lemma pres_bind_fails : forall B k, pres (@bind_fails B k).
Proof. intros B k d b d' _ E. discriminate E. Qed.
Lemma wfprog_bound : forall A v (f : val -> stmt A), (forall x, pres (f x)) -> wfprog (bound v f).
Proof. intros A [x|k] f H; unfold bound; apply wfprog_ex; [apply H | apply pres_bind_fails]. Qed.
Lemma wfprog_ent_upload_py : forall e n ps a w, wfprog (ent_upload_py e n ps a w).
Proof.
  intros. unfold ent_upload_py.
  assert (Hrest : forall own, wfprog (seqP (if a then bindP (ex (sel_types match e with EAds => TAds | EMat => TMat end))
      (fun ts => forP (filter (fun p => negb (memZ (fst p) (tnames ts))) ps) (fun p => ex (ins_type match e with EAds => TAds | EMat => TMat end (fst p) VNull VNull))) else Ret tt)
      (seqP (forP ps (fun p => forP (snd p) (fun v => bound v (ins_prop e own (fst p)))))
         (RegOp (fun r => (tt, sreg e ((if w && memZ n (greg e r) then remove_first n (greg e r) else greg e r) ++ [n]) r)) Ret)))).
  { intro own. apply wfprog_seq.
    - destruct a; [|exact I]. apply wfprog_bind; [apply wfprog_ex, pres_sel_types|]. intro ts. apply wfprog_for. intro. apply wfprog_ex, pres_ins_type.
    - apply wfprog_seq.
      + apply wfprog_for. intro. apply wfprog_for. intro. apply wfprog_bound. intro. apply pres_ins_prop.
      + simpl. intro. exact I. }
  destruct w.
  - apply wfprog_bind; [apply wfprog_ex; unfold sel_ent_id; apply pres_read|]. intros [own|]; [|exact I].
    simpl. split; [unfold sel_prop_owner; apply pres_read|]. split; [apply Hrest|].
    intros [|]; [|apply Hrest]. simpl. split; [apply pres_del_props|]. split; [apply Hrest|]. intro. apply Hrest.
  - apply wfprog_bind; [apply wfprog_ex, pres_ins_ent|]. intro own. apply Hrest.
Qed.
Lemma pres_const_bad : forall B e, pres (fun _ : db => @Bad (B * db) e).
Proof. intros B e d b d' _ E. discriminate E. Qed.
Theorem wfprog_body_py : forall po, wfprog (body_py po).
Proof.
  destruct po as [o|e n ps a w|t ty u ds w|x am aa|k]; simpl body_py.
  - apply wfprog_body.
  - apply wfprog_seq; [apply wfprog_ent_upload_py | exact I].
  - apply wfprog_seq; [|exact I]. unfold type_upload_py. destruct (missing t); [apply wfprog_ex, pres_const_bad|].
    destruct u as [u'|ku]; [destruct ds as [ds'|kd]|]; try (apply wfprog_ex, pres_bind_fails).
    unfold type_upload. destruct w; apply wfprog_ex; [apply pres_upd_type | apply pres_ins_type].
  - apply wfprog_seq; [|exact I]. unfold iso_upload_py.
    apply wfprog_seq. { destruct am; [|exact I]. apply wfprog_regop. intros [|]; [exact I | apply wfprog_ent_upload_py]. }
    apply wfprog_seq. { destruct aa; [|exact I]. apply wfprog_regop. intros [|]; [exact I | apply wfprog_ent_upload_py]. }
    destruct (q_ty x) as [ty|]; [|exact I].
    apply wfprog_seq; [apply wfprog_ex, pres_ins_iso|]. apply wfprog_seq.
    + apply wfprog_for. intro. apply wfprog_bound. intro. apply pres_ins_iprop.
    + apply wfprog_for. intros [ty0 dty data|k]; [apply wfprog_ex, pres_ins_idata | exact I].
  - apply wfprog_seq; [|exact I]. apply wfprog_ex, pres_bind_fails.
Qed.
(* every call, storable input or not, under every fault and every crash point, preserves the well-formedness of the tables *)
Theorem py_operation_preserves_wf : forall po flt cf d r, wf d -> wf (DbInv.db_after (with_conn flt cf (body_py po) d r)).
Proof. intros. apply with_conn_wf; auto. apply wfprog_body_py. Qed.

(* ------------------------------------------------------------------ the refusal nodes are reached: witnesses *)
(* a material with a storable and an unbindable property: the name row, the property type rows and the first property row are written
   (5 statements), the 6th raises ProgrammingError; the caller sees it, the file is the pre-state.  A PointIsotherm with a float and an
   integer column: isotherm row, one property, pressure, loading and the float column are written, then ParsingError from the body. *)
Definition e_db : db := mkDb (mkS [(1, 10)] 2 [] 1 [] 1) (mkS [(1, 30)] 2 [] 1 [] 1) [mkT 1 A_point VNull VNull] 2 [] [] 1 [] 1.
Definition e_mat : pyop := PEntUp EMat 31 [(20, [PV (VNum 6)]); (21, [PBad K_Programming])] true false.
Definition e_iso : pyop :=
  PIsoUp (mkPIn 100 (Some A_point) 30 [] 10 [] (VNum 7) [(40, PV (VText 41))] [DRow 50 51 52; DRow 53 51 54; DRow 55 51 56; DRefuse K_Parsing]) false false.
Lemma py_refusal_witnesses :
  run_pyop e_mat e_db (mkReg [] []) = (OOther (EExc K_Programming), e_db, mkReg [] [], 7%nat)
  /\ names (mat (s_db (snd (run None (body_py e_mat) (mkSt e_db (mkReg [] []) 0))))) = [30; 31]
  /\ length (props (mat (s_db (snd (run None (body_py e_mat) (mkSt e_db (mkReg [] []) 0)))))) = 1%nat
  /\ run_pyop e_iso e_db (mkReg [] []) = (OOther (EExc K_Parsing), e_db, mkReg [] [], 6%nat)
  /\ length (idata (s_db (snd (run None (body_py e_iso) (mkSt e_db (mkReg [] []) 0))))) = 3%nat
  /\ plain_of e_mat = None /\ plain_of e_iso = None.
Proof. vm_compute. repeat split. Qed.
(* a wrapper that commits in `finally` publishes exactly those rows: source_wrapper_refused_unchanged is FALSE for that skeleton *)
Definition wc_commit_in_finally : wcshape :=
  mkWC [AConnect] [APragma; ABody] [mkH [XIntegrityError] [ARollback; ARaiseParsing]; mkH [XInterfaceError] [ARollback; ARaiseParsing]]
       [] [ACommit; AClose] [AReturn].
Lemma commit_in_finally_half_commits :
  match fst (with_conn_gen wc_commit_in_finally None CNone (body_py e_iso) e_db (mkReg [] [])) with
  | Some (oc, d', _, _) => oc = OOther (EExc K_Parsing) /\ iso_ids d' = [100] /\ length (idata d') = 3%nat
  | None => False end.
Proof. vm_compute. repeat split. Qed.

(* ------------------------------------------------------------------ storable input: the programs of Db/DbModel.v *)
(* the programs with refusal nodes, run on input in which every value can be bound and every data column has an SQL type name, ARE the
   programs of Db/DbModel.v (equality of program trees; functional extensionality for the continuations) - so every theorem about the
   operations of Db/DbModel.v (refinement of the dictionary, independence of other files ...) is a theorem about them *)
Lemma forP_vals_inj : forall (vs : list val) (g : val -> stmt unit),
  forP (map PV vs) (fun v => bound v g) = forP vs (fun v => ex (g v)).
Proof. induction vs as [|v vs IH]; intros; simpl; [reflexivity|]. rewrite IH. reflexivity. Qed.
Lemma forP_plist_inj : forall e own (ps : plist),
  forP (inj_plist ps) (fun p => forP (snd p) (fun v => bound v (ins_prop e own (fst p))))
  = forP ps (fun p => forP (snd p) (fun v => ex (ins_prop e own (fst p) v))).
Proof.
  induction ps as [|[k vs] ps IH]; [reflexivity|].
  change (inj_plist ((k, vs) :: ps)) with ((k, map PV vs) :: inj_plist ps).
  cbn [forP fst snd]. rewrite IH. rewrite (forP_vals_inj vs (ins_prop e own k)). reflexivity.
Qed.
Lemma forP_filter_inj : forall (c : Z -> bool) (F : Z -> prog unit) (ps : plist),
  forP (filter (fun p => c (fst p)) (inj_plist ps)) (fun p => F (fst p)) = forP (filter (fun p => c (fst p)) ps) (fun p => F (fst p)).
Proof.
  induction ps as [|[k vs] ps IH]; [reflexivity|].
  change (inj_plist ((k, vs) :: ps)) with ((k, map PV vs) :: inj_plist ps).
  cbn [filter fst]. destruct (c k); cbn [forP fst]; rewrite IH; reflexivity.
Qed.

Definition te_of (e : ent) : tsel := match e with EAds => TAds | EMat => TMat end.
Definition rest_py (e : ent) (name : Z) (ps : pplist) (autoins overwrite : bool) (own : Z) : prog unit :=
    seqP (if autoins then
            bindP (ex (sel_types (te_of e))) (fun ts =>
              forP (filter (fun p => negb (memZ (fst p) (tnames ts))) ps) (fun p => ex (ins_type (te_of e) (fst p) VNull VNull)))
          else Ret tt)
    (seqP (forP ps (fun p => forP (snd p) (fun v => bound v (ins_prop e own (fst p)))))
          (RegOp (fun r => (tt, sreg e ((if overwrite && memZ name (greg e r) then remove_first name (greg e r) else greg e r) ++ [name]) r)) Ret)).
Definition rest_pl (e : ent) (name : Z) (ps : plist) (autoins overwrite : bool) (own : Z) : prog unit :=
    seqP (if autoins then
            bindP (ex (sel_types (te_of e))) (fun ts =>
              forP (filter (fun p => negb (memZ (fst p) (tnames ts))) ps) (fun p => ex (ins_type (te_of e) (fst p) VNull VNull)))
          else Ret tt)
    (seqP (forP ps (fun p => forP (snd p) (fun v => ex (ins_prop e own (fst p) v))))
          (RegOp (fun r => (tt, sreg e ((if overwrite && memZ name (greg e r) then remove_first name (greg e r) else greg e r) ++ [name]) r)) Ret)).
Definition upload_with (e : ent) (name : Z) (overwrite : bool) (rest : Z -> prog unit) : prog unit :=
  if overwrite then
    bindP (ex (sel_ent_id e name)) (fun o =>
      match o with
      | None => Raise EIntegrity
      | Some own =>
          Exec (sel_prop_owner e own) (Some (rest own)) (fun found =>
            if found then Exec (del_props e own) (Some (rest own)) (fun _ => rest own) else rest own) end)
  else bindP (ex (ins_ent e name)) rest.
Lemma ent_upload_py_shape : forall e n ps a w, ent_upload_py e n ps a w = upload_with e n w (rest_py e n ps a w).
Proof. reflexivity. Qed.
Lemma ent_upload_shape : forall e n ps a w, ent_upload e n ps a w = upload_with e n w (rest_pl e n ps a w).
Proof. reflexivity. Qed.
Lemma rest_inj : forall e n ps a w own, rest_py e n (inj_plist ps) a w own = rest_pl e n ps a w own.
Proof.
  intros. unfold rest_py, rest_pl. rewrite forP_plist_inj. destruct a; [|reflexivity].
  replace (fun ts : list trow => forP (filter (fun p : Z * list pyval => negb (memZ (fst p) (tnames ts))) (inj_plist ps))
                                   (fun p => ex (ins_type (te_of e) (fst p) VNull VNull)))
     with (fun ts : list trow => forP (filter (fun p : Z * list val => negb (memZ (fst p) (tnames ts))) ps)
                                   (fun p => ex (ins_type (te_of e) (fst p) VNull VNull))); [reflexivity|].
  extensionality ts. symmetry.
  exact (forP_filter_inj (fun k => negb (memZ k (tnames ts))) (fun k => ex (ins_type (te_of e) k VNull VNull)) ps).
Qed.
(* storable input: the program of Db/DbModel.v *)
Lemma ent_upload_py_inj : forall e n ps a w, ent_upload_py e n (inj_plist ps) a w = ent_upload e n ps a w.
Proof.
  intros. rewrite ent_upload_py_shape, ent_upload_shape. f_equal. extensionality own. apply rest_inj.
Qed.
Lemma forP_props_inj : forall i (l : list (Z * val)),
  forP (map (fun p => (fst p, PV (snd p))) l) (fun p => bound (snd p) (fun v => ins_iprop i (fst p) (bool_text v)))
  = forP l (fun p => ex (ins_iprop i (fst p) (bool_text (snd p)))).
Proof. induction l as [|[k v] l IH]; [reflexivity|]. cbn [map forP fst snd bound]. rewrite IH. reflexivity. Qed.
Lemma forP_data_inj : forall i (l : list (Z * Z * Z)),
  forP (map (fun r : Z * Z * Z => let '(a, b, c) := r in DRow a b c) l)
       (fun r => match r with DRow ty dty data => ex (ins_idata i ty dty data) | DRefuse k => Raise (EExc k) end)
  = forP l (fun r => let '(ty, dty, data) := r in ex (ins_idata i ty dty data)).
Proof. induction l as [|[[a b] c] l IH]; [reflexivity|]. cbn [map forP]. rewrite IH. reflexivity. Qed.
Lemma iso_upload_py_inj : forall x am aa, iso_upload_py (inj_iso x) am aa = iso_upload x am aa.
Proof.
  intros. unfold iso_upload_py, iso_upload, inj_iso. cbn [q_id q_ty q_mat q_matps q_ads q_adsps q_temp q_props q_data].
  rewrite !ent_upload_py_inj, forP_props_inj, forP_data_inj. reflexivity.
Qed.
Theorem storable_pyop_is_plain_op : forall o : op,
  body_py (match o with
           | EntUp e n ps a w => PEntUp e n (inj_plist ps) a w
           | TyUp t ty u ds w => PTyUp t ty (PV u) (PV ds) w
           | IsoUp x am aa => PIsoUp (inj_iso x) am aa
           | _ => POp o end) = body o.
Proof.
  destruct o; try reflexivity; cbn [body_py body].
  - rewrite ent_upload_py_inj. reflexivity.
  - unfold type_upload_py, type_upload. destruct t; try reflexivity.
    (* isotherm_properties_type: the table does not exist; both programs are one statement that raises OperationalError *)
    cbn [missing]. destruct overwrite; reflexivity.
  - rewrite iso_upload_py_inj. reflexivity.
Qed.
