(* C08: refinement of the dictionary model by the property-type operations (adsorbate / material property types and isotherm types:
   upload, overwrite, deletion).  Deletion needs the invariant of Db/DbInv.v ("every property row has its owner"): a type is in use in the
   tables iff it is in use in the dictionary.  The isotherm PROPERTY types (TIsoProp) are excluded: the schema has no table for them
   (refuted item isotherm_property_types_unsupported_refuted). *)
From Coq Require Import ZArith List Bool Lia.
From PG Require Import Db.DbModel Db.DbSpec Db.DbRefine Db.DbInv Db.DbRefine2.
Import ListNotations.
Open Scope Z_scope.

Lemma abs_st : forall t l n d, missing t = false -> abs (st t l n d) = sst t (map trow_t l) (abs d).
Proof.
  intros t l n d Hm. destruct t; simpl in Hm; try discriminate; unfold st, sst.
  - rewrite (abs_ss EAds); try reflexivity.
  - rewrite (abs_ss EMat); try reflexivity.
  - unfold abs; simpl. f_equal; try reflexivity; try (apply map_ext; intro i; apply abs_iso_ext; reflexivity).
Qed.
Lemma sgt_abs : forall t d, missing t = false -> sgt t (abs d) = map trow_t (fst (gt t d)).
Proof. intros t d Hm. destruct t; simpl in Hm; try discriminate; reflexivity. Qed.

Lemma ins_type_eval_gen : forall t ty u ds d, missing t = false ->
  ins_type t ty u ds d =
  if memZ ty (tnames (fst (gt t d))) then Bad EIntegrity
  else Good (tt, st t (fst (gt t d) ++ [mkT (snd (gt t d)) ty (store_text u) (store_text ds)]) (snd (gt t d) + 1) d).
Proof. intros t ty u ds d Hm. destruct t; simpl in Hm; try discriminate; reflexivity. Qed.
Lemma upd_type_eval_gen : forall t ty u ds d, missing t = false ->
  upd_type t ty u ds d =
  Good (tt, st t (map (fun r => if t_ty r =? ty then mkT (t_id r) ty (store_text u) (store_text ds) else r) (fst (gt t d))) (snd (gt t d)) d).
Proof. intros t ty u ds d Hm. destruct t; simpl in Hm; try discriminate; reflexivity. Qed.

Theorem type_upload_refines : forall t ty u ds w d r, missing t = false ->
  match s_type_upload t ty u ds w (abs d) with
  | Some s' => oc_of (run_op (TyUp t ty u ds w) d r) = OOk RUnit /\ abs (db_after (run_op (TyUp t ty u ds w) d r)) = s'
  | None => oc_of (run_op (TyUp t ty u ds w) d r) = OParsing /\ db_after (run_op (TyUp t ty u ds w) d r) = d end.
Proof.
  intros t ty u ds w d r Hm. unfold s_type_upload. rewrite (sgt_abs t d Hm).
  unfold run_op, with_conn, body, type_upload, oc_of, db_after, seqP.
  rewrite run_bind, run_ex. unfold pragma_fk. cbn [s_db s_reg s_n]. rewrite run_bind, run_ex. cbn [s_db s_reg s_n].
  destruct w.
  - rewrite (upd_type_eval_gen t ty u ds d Hm). cbn. split; [reflexivity|]. rewrite (abs_st _ _ _ _ Hm). f_equal.
    rewrite !map_map. apply map_ext. intro x. unfold trow_t; simpl. destruct (t_ty x =? ty); reflexivity.
  - rewrite (ins_type_eval_gen t ty u ds d Hm). rewrite tkeys_map_types.
    destruct (memZ ty (tnames (fst (gt t d)))); cbn; [split; reflexivity|].
    split; [reflexivity|]. rewrite (abs_st _ _ _ _ Hm). f_equal. rewrite map_app. reflexivity.
Qed.

(* a type is used by a property row of the tables iff some item of the dictionary carries a property of that type *)
Lemma items_use_type : forall s ty, (forall p, In p (props s) -> In (p_own p) (ids s)) ->
  existsb (fun it => memZ ty (keys (snd it))) (s_items (abs_store s)) = existsb (fun p => p_ty p =? ty) (props s).
Proof.
  intros s ty Hown. apply eq_iff_eq_true. rewrite !existsb_exists. split.
  - intros [it [Hit Hm]]. rewrite abs_store_items in Hit. apply in_map_iff in Hit. destruct Hit as [r0 [Er Hr]]. subst it.
    unfold item_of in Hm. simpl in Hm. apply memZ_In in Hm. unfold keys in Hm. rewrite map_map in Hm. apply in_map_iff in Hm.
    destruct Hm as [p [Ep Hp]]. apply filter_In in Hp. exists p. split; [tauto|]. simpl in Ep. apply Z.eqb_eq. exact Ep.
  - intros [p [Hp Ep]]. apply Z.eqb_eq in Ep. pose proof (Hown p Hp) as Hid. unfold ids in Hid. apply in_map_iff in Hid.
    destruct Hid as [[j m] [Ej Hj]]. simpl in Ej. exists (item_of (props s) (j, m)). split.
    + rewrite abs_store_items. apply in_map_iff. exists (j, m). auto.
    + unfold item_of. simpl. apply memZ_In. unfold keys. rewrite map_map. apply in_map_iff. exists p. split; [exact Ep|].
      apply filter_In. split; [exact Hp|]. apply Z.eqb_eq. auto.
Qed.
Lemma stype_used_abs : forall t ty d, wf d -> missing t = false -> stype_used t ty (abs d) = type_used t ty d.
Proof.
  intros t ty d H Hm. destruct H as (Ha & Hmt & _). destruct t; simpl in Hm; try discriminate; simpl.
  - apply (items_use_type (ads d)). intros p Hp. destruct Ha as (_ & _ & _ & N4 & _). apply N4; auto.
  - apply (items_use_type (mat d)). intros p Hp. destruct Hmt as (_ & _ & _ & N4 & _). apply N4; auto.
  - induction (isos d) as [|i l IH]; simpl; [reflexivity | rewrite IH; reflexivity].
Qed.

Lemma del_type_eval_gen : forall t ty d, missing t = false ->
  del_type t ty d =
  if type_used t ty d then Bad EIntegrity
  else Good (tt, st t (filter (fun r => negb (t_ty r =? ty)) (fst (gt t d))) (snd (gt t d)) d).
Proof. intros t ty d Hm. destruct t; simpl in Hm; try discriminate; reflexivity. Qed.
Lemma sel_type_exists_eval : forall t ty d, missing t = false -> sel_type_exists t ty d = Good (memZ ty (tnames (fst (gt t d))), d).
Proof. intros t ty d Hm. destruct t; simpl in Hm; try discriminate; reflexivity. Qed.
Lemma map_trow_t_filter : forall ty l,
  map trow_t (filter (fun r => negb (t_ty r =? ty)) l) = filter (fun r : Z * val * val => negb (fst (fst r) =? ty)) (map trow_t l).
Proof. induction l as [|x l IH]; simpl; [reflexivity|]. destruct (t_ty x =? ty); simpl; [exact IH | f_equal; exact IH]. Qed.

Theorem type_delete_refines : forall t ty d r, wf d -> missing t = false ->
  match s_type_delete t ty (abs d) with
  | Some s' => oc_of (run_op (TyDel t ty) d r) = OOk RUnit /\ abs (db_after (run_op (TyDel t ty) d r)) = s'
  | None => oc_of (run_op (TyDel t ty) d r) = OParsing /\ db_after (run_op (TyDel t ty) d r) = d end.
Proof.
  intros t ty d r H Hm. unfold s_type_delete. rewrite (sgt_abs t d Hm), tkeys_map_types, (stype_used_abs t ty d H Hm).
  unfold run_op, with_conn, body, type_delete, oc_of, db_after, seqP.
  rewrite run_bind, run_ex. unfold pragma_fk. cbn [s_db s_reg s_n]. rewrite run_bind, run_bind, run_ex. cbn [s_db s_reg s_n].
  rewrite (sel_type_exists_eval t ty d Hm).
  destruct (memZ ty (tnames (fst (gt t d)))); cbn [negb]; [|cbn; split; reflexivity].
  rewrite run_ex. cbn [s_db s_reg s_n]. rewrite (del_type_eval_gen t ty d Hm).
  destruct (type_used t ty d); cbn; [split; reflexivity|].
  split; [reflexivity|]. rewrite (abs_st _ _ _ _ Hm), map_trow_t_filter. reflexivity.
Qed.

(* ------------------------------------------------------------------ per-operation refinement, composed over histories *)
(* the write operations whose refinement is PROVED (property names of one upload are the keys of a Python dict: distinct) *)
Definition refined_write (o : op) : bool :=
  match o with
  | EntUp _ _ ps _ _ => nodupb (map fst ps)
  | EntDel _ _ | IsoDel _ => true
  | TyUp t _ _ _ _ | TyDel t _ => negb (missing t)
  | _ => false end.
Definition accepted (oc : outcome) : bool := match oc with OOk _ => true | _ => false end.

Theorem write_op_refines : forall o d r, wf d -> refined_write o = true ->
  abs (db_after (run_op o d r)) = snd (sstep store_real o (abs d))
  /\ accepted (oc_of (run_op o d r)) = fst (sstep store_real o (abs d))
  /\ (fst (sstep store_real o (abs d)) = false -> oc_of (run_op o d r) = OParsing /\ db_after (run_op o d r) = d).
Proof.
  intros o d r H Ho. destruct o; simpl in Ho; try discriminate; unfold sstep.
  - apply nodupb_NoDup in Ho. destruct overwrite.
    + pose proof (ent_upload_overwrite_refines e name ps autoins d r H Ho) as Hr.
      destruct (s_ent_upload store_real e name ps autoins true (abs d)) as [s'|]; destruct Hr as [A B]; rewrite A; simpl; repeat split; auto; try discriminate.
      rewrite B. reflexivity.
    + pose proof (ent_upload_new_refines e name ps autoins d r H Ho) as Hr.
      destruct (s_ent_upload store_real e name ps autoins false (abs d)) as [s'|]; destruct Hr as [A B]; rewrite A; simpl; repeat split; auto; try discriminate.
      rewrite B. reflexivity.
  - pose proof (ent_delete_refines e name d r H) as Hr.
    destruct (s_ent_delete e name (abs d)) as [s'|]; destruct Hr as [A B]; rewrite A; simpl; repeat split; auto; try discriminate.
    rewrite B. reflexivity.
  - apply negb_true_iff in Ho. pose proof (type_upload_refines t ty u ds overwrite d r Ho) as Hr.
    destruct (s_type_upload t ty u ds overwrite (abs d)) as [s'|]; destruct Hr as [A B]; rewrite A; simpl; repeat split; auto; try discriminate.
    rewrite B. reflexivity.
  - apply negb_true_iff in Ho. pose proof (type_delete_refines t ty d r H Ho) as Hr.
    destruct (s_type_delete t ty (abs d)) as [s'|]; destruct Hr as [A B]; rewrite A; simpl; repeat split; auto; try discriminate.
    rewrite B. reflexivity.
  - pose proof (iso_delete_refines i d r) as Hr. unfold oc_of, db_after.
    destruct (s_iso_delete i (abs d)) as [s'|]; destruct Hr as [A B]; rewrite A; simpl; repeat split; auto; try discriminate.
    rewrite B. reflexivity.
Qed.

Definition covered (o : op) : bool := refined_write o || is_get o.
Definition spec_file (s : sdb) (l : list op) : sdb := fold_left (fun s o => snd (sstep store_real o s)) l s.
(* any history of covered operations on one file, from any well-formed content and any registries: the abstraction of the file is what the
   dictionary model predicts, step after step (induction over the history; the invariant is carried along by DbInv.run_op_wf) *)
Theorem history_refines_partial : forall l d r, wf d -> forallb covered l = true ->
  wf (run_file d r l) /\ abs (run_file d r l) = spec_file (abs d) l.
Proof.
  induction l as [|o t IH]; intros d r H Hc; simpl; [split; [exact H | reflexivity]|].
  simpl in Hc. apply andb_true_iff in Hc. destruct Hc as [Ho Hc].
  pose proof (run_op_wf o d r H) as Hw. unfold DbInv.db_after in Hw.
  destruct (run_op o d r) as [[[oc d'] r'] n] eqn:Er. simpl in Hw.
  assert (Ed : abs d' = snd (sstep store_real o (abs d))).
  { unfold covered in Ho. apply orb_true_iff in Ho. destruct Ho as [Ho|Ho].
    - pose proof (write_op_refines o d r H Ho) as (A & _). rewrite Er in A. exact A.
    - destruct (retrieval_changes_nothing o d r oc d' r' n Ho Er) as [E1 _]. subst d'.
      destruct o; simpl in Ho; try discriminate; reflexivity. }
  destruct (IH d' r' Hw Hc) as [W E]. split; [exact W|]. rewrite E, Ed. reflexivity.
Qed.

Example history_refines_hypotheses_satisfiable :
  forallb covered [EntUp EMat 30 [(20, [VNum 1; VNum 2]); (21, [VText 5])] true false; EntGet EMat; EntUp EMat 30 [(20, [VNum 3])] false true;
                   TyUp TMat 22 (VText 8) VNull false; TyDel TMat 22; EntDel EMat 30; IsoDel 7; IsoGet (mkC None None None None)] = true
  /\ wf empty_db.
Proof. split; [vm_compute; reflexivity | apply empty_db_wf]. Qed.
