(* Printing side of the C08 correspondence for operations as Python hands them over (Db/DbPy.v): as Db/DbShow.v show_hist, over pyop. *)
From Coq Require Import ZArith List Bool.
From PG Require Import Db.DbModel Db.DbSpec Db.DbShow Db.DbPy.
Import ListNotations.
Open Scope Z_scope.

Definition show_step_py (base : list Z) (o : pyop) (d : db) (r : reg) (res : outcome * db * reg * nat) : list (list (list Z)) :=
  let '(oc, d', r', n) := res in
  [[oc_code oc; Z.of_nat n]; counters d'; py_spec_verdict o d d'] :: diff_tables 0 (tables d r) (tables d' r') ++ [enc_ret base oc].

Fixpoint show_hist_py (base : list Z) (fs : files) (r : reg) (h : list (nat * pyop)) : list (list (list (list Z))) :=
  match h with
  | [] => []
  | fo :: t =>
      let d := nth (fst fo) fs empty_db in
      let res := run_pyop (snd fo) d r in
      let '(oc, d', r', n) := res in
      show_step_py base (snd fo) d r res :: show_hist_py base (set_nth (fst fo) d' fs) r' t end.
(* the implementation's own transition judged by the dictionary model *)
Definition spec_verdict_py (o : pyop) (d d' : db) : list Z := py_spec_verdict o d d'.
