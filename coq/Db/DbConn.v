(* C09: the connection protocol of with_connection.
   Gen/DbShapeGen.v wc_source is the try / except / else / finally statement of the wrapper, transcribed from the source.  This file
   gives it the semantics of Python's try statement over the exception kinds of the model (the three sqlite3 classes, any other
   Exception, BaseException-only exceptions, process death, a failing COMMIT): definitions only, executed against the implementation
   through Db/DbShow.v (the event sequence connect / commit / rollback / close is compared with the calls the implementation makes on
   its connection object on every faulted call of the run, tools/props/c09.py).  The theorems - the hand-written with_conn IS this
   interpretation; the connection is closed on every surviving path - are in Db/DbConnProofs.v. *)
From Coq Require Import ZArith List Bool Lia.
From PG Require Import Db.DbModel.
Import ListNotations.
Open Scope Z_scope.

(* ------------------------------------------------------------------ exception classes *)
(* which exception kinds an `except <class>` clause catches (Python's hierarchy: IntegrityError, OperationalError, ProgrammingError <:
   DatabaseError <: sqlite3.Error <: Exception <: BaseException; InterfaceError <: sqlite3.Error).  Process death is not an exception. *)
Definition catches (c : xcls) (e : err) : bool :=
  match e with
  | ECrash => false
  | EIntegrity => match c with XIntegrityError | XDatabaseError | XSqliteError | XException | XBaseException => true | _ => false end
  | EOperational => match c with XOperationalError | XDatabaseError | XSqliteError | XException | XBaseException => true | _ => false end
  | EInterface => match c with XInterfaceError | XSqliteError | XException | XBaseException => true | _ => false end
  | EExc _ => match c with XException | XBaseException => true | _ => false end
  | EBase _ => match c with XBaseException => true | _ => false end end.
Fixpoint find_handler (hs : list handler) (e : err) : option (list cact) :=
  match hs with
  | [] => None
  | h :: r => if existsb (fun c => catches c e) (h_classes h) then Some (h_body h) else find_handler r e end.

(* ------------------------------------------------------------------ the connection *)
Inductive cev := EvConnect | EvCommit | EvRollback | EvClose.
(* x_file: what every other connection sees; x_work: the content inside this connection's open transaction *)
Record cx := mkCx { x_ev : list cev; x_file : db; x_work : db; x_closed : bool }.
Inductive pend := PErr (e : err) | PParsing.
Inductive ending := Normal | Raised (p : pend) | Returned | Dead.
Definition ev (e : cev) (x : cx) : cx := mkCx (x_ev x ++ [e]) (x_file x) (x_work x) (x_closed x).

(* a block of the wrapper; cur = the exception being handled (inside an except clause) *)
Fixpoint acts (cf : cfault) (cur : option pend) (l : list cact) (x : cx) : cx * ending :=
  match l with
  | [] => (x, Normal)
  | a :: r =>
      match a with
      | AConnect => acts cf cur r (ev EvConnect x)
      | APragma | ABody => acts cf cur r x                         (* run as the try body, see with_conn_gen *)
      | ARollback =>
          if x_closed x then (x, Raised (PErr (EExc 0)))           (* ProgrammingError: Cannot operate on a closed database *)
          else acts cf cur r (mkCx (x_ev x ++ [EvRollback]) (x_file x) (x_file x) false)
      | ACommit =>
          if x_closed x then (x, Raised (PErr (EExc 0)))
          else match cf with
               | CNone => acts cf cur r (mkCx (x_ev x ++ [EvCommit]) (x_work x) (x_work x) false)
               | CBeforeCommit => (x, Dead)
               | CAfterCommit => (mkCx (x_ev x ++ [EvCommit]) (x_work x) (x_work x) false, Dead)
               | CCommitRaises ECrash => (x, Dead)
               | CCommitRaises e => (ev EvCommit x, Raised (PErr e)) end
      | AClose => acts cf cur r (mkCx (x_ev x ++ [EvClose]) (x_file x) (x_file x) true)     (* closing discards an open transaction *)
      | ARaiseParsing => (x, Raised PParsing)
      | AReraise => (x, match cur with Some p => Raised p | None => Raised (PErr (EExc 0)) end)
      | AReturn => (x, Returned) end end.

Definition try_shape_ok (w : wcshape) : bool :=
  match wc_try w with [APragma; ABody] => true | _ => false end.

(* Python's try statement: body; on an exception the first matching handler (its own exceptions replace the one handled), otherwise
   the else block (whose exceptions no handler of this statement sees); the finally block in every case, its own ending (if not
   normal) replacing the pending one; then the statements after the try statement.  None = a path outside the model
   (an exception swallowed by a handler, `return ret` with ret unbound, falling off the end). *)
Definition with_conn_gen (w : wcshape) (flt : fault) (cf : cfault) (p : prog ret) (d : db) (r : reg)
  : option (outcome * db * reg * nat) * cx :=
  let x0 := mkCx [] d d false in
  if negb (try_shape_ok w) then (None, x0) else
  let '(x1, e1) := acts cf None (wc_pre w) x0 in
  match e1 with
  | Normal =>
      let '(res, s) := run flt (seqP (ex pragma_fk) p) (mkSt d r 0) in
      (* the open transaction holds what the body wrote before it returned OR RAISED: a commit on an error path would publish the rows of a
         half-done call *)
      let x1 := mkCx (x_ev x1) (x_file x1) (s_db s) (x_closed x1) in
      match res with
      | Bad ECrash => (Some (ODied, x_file x1, s_reg s, s_n s), x1)
      | _ =>
          let '(x2, e2) :=
            match res with
            | Good _ => acts cf None (wc_else w) x1
            | Bad e => match find_handler (wc_handlers w) e with
                       | Some h => acts cf (Some (PErr e)) h x1
                       | None => (x1, Raised (PErr e)) end end in
          match e2 with
          | Dead => (Some (ODied, x_file x2, s_reg s, s_n s), x2)
          | _ =>
              let '(x3, e3) := acts cf None (wc_finally w) x2 in
              let e3' := match e3 with Normal => e2 | _ => e3 end in
              let '(x4, e4) := match e3' with Normal => acts cf None (wc_post w) x3 | _ => (x3, e3') end in
              (match e4, res with
               | Dead, _ => Some (ODied, x_file x4, s_reg s, s_n s)
               | Returned, Good a => Some (OOk a, x_file x4, s_reg s, s_n s)
               | Raised PParsing, _ => Some (OParsing, x_file x4, s_reg s, s_n s)
               | Raised (PErr e), _ => Some (OOther e, x_file x4, s_reg s, s_n s)
               | _, _ => None end, x4) end end
  | _ => (None, x1) end.

(* the events per fault kind, as compared with the implementation *)
Definition conn_events (flt : fault) (cf : cfault) (p : prog ret) (d : db) (r : reg) : list cev :=
  x_ev (snd (with_conn_gen wc_source flt cf p d r)).
