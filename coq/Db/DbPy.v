(* C08: refusals raised by PYTHON-LEVEL code between two statements of one public call of parsing/sqlite.py.
   Db/DbModel.v refuses an operation only through the constraints of the schema (UNIQUE / NOT NULL / FOREIGN KEY -> IntegrityError, which
   with_connection turns into a ParsingError after a rollback).  The functions can also be refused part-way by code that runs between
   the statements, AFTER the first rows of the call were written:
     - sqlite3 cannot bind a parameter: a property value / metadata value that is a dict, a nested list, any other object
       (sqlite3.ProgrammingError), an integer beyond 64 bits (OverflowError), text with a lone surrogate (UnicodeEncodeError).  The
       cursor.execute call is made (it counts as a statement) and raises before SQLite runs anything;
     - find_SQL_python_type refuses the element type of an extra data column of a PointIsotherm (numpy integers / bools, objects): a
       ParsingError raised by the body itself, before the execute call, after the isotherm row, its properties and the pressure / loading
       rows were inserted;
     - `raise ParsingError("Unknown isotherm type.")` for an argument that is no isotherm, after the auto-inserted material / adsorbate;
     - the first statement of a deletion / retrieval binds an argument that cannot be bound.
   None of these is an IntegrityError / InterfaceError: with_connection has no handler for them, the connection is closed without
   commit.  The programs below are the programs of Db/DbModel.v with these refusal nodes (input: values that may be unbindable, data
   columns that may have no SQL type name); for storable input they ARE the programs of Db/DbModel.v (Db/DbPyProofs.v).
   Hand-written; compared with the implementation on every run (tools/props/c08.py sends every upload through these programs). *)
From Coq Require Import ZArith List Bool Lia.
From PG Require Import Db.DbModel Db.DbSpec.
Import ListNotations.
Open Scope Z_scope.

(* exception classes (EExc k), numbered as in tools/props/c09.py *)
Definition K_Programming : Z := 1.    (* sqlite3.ProgrammingError: Error binding parameter: type ... is not supported *)
Definition K_Overflow : Z := 6.       (* OverflowError: Python int too large to convert to SQLite INTEGER *)
Definition K_UnicodeEncode : Z := 7.  (* UnicodeEncodeError: surrogates not allowed *)
Definition K_Parsing : Z := 8.        (* pygaps ParsingError raised by the body itself (not by with_connection) *)

(* a Python value handed to cursor.execute as a parameter: one sqlite3 can bind, or one whose binding raises class k *)
Inductive pyval := PV (v : val) | PBad (k : Z).
Definition pplist := list (Z * list pyval).
Definition bind_fails {B : Type} (k : Z) : stmt B := fun _ => Bad (EExc k).
(* cursor.execute(sql, {... value ...}) *)
Definition bound {A : Type} (v : pyval) (f : val -> stmt A) : prog A :=
  match v with PV x => ex (f x) | PBad k => ex (bind_fails k) end.

(* adsorbate_to_db / material_to_db: Db/DbModel.v ent_upload, the property values bound one by one *)
Definition ent_upload_py (e : ent) (name : Z) (ps : pplist) (autoins overwrite : bool) : prog unit :=
  let te := match e with EAds => TAds | EMat => TMat end in
  let rest (own : Z) : prog unit :=
    seqP (if autoins then
            bindP (ex (sel_types te)) (fun ts =>
              forP (filter (fun p => negb (memZ (fst p) (tnames ts))) ps) (fun p => ex (ins_type te (fst p) VNull VNull)))
          else Ret tt)
    (seqP (forP ps (fun p => forP (snd p) (fun v => bound v (ins_prop e own (fst p)))))
          (RegOp (fun r => (tt, sreg e ((if overwrite && memZ name (greg e r) then remove_first name (greg e r) else greg e r) ++ [name]) r)) Ret)) in
  if overwrite then
    bindP (ex (sel_ent_id e name)) (fun o =>
      match o with
      | None => Raise EIntegrity
      | Some own =>
          Exec (sel_prop_owner e own) (Some (rest own)) (fun found =>
            if found then Exec (del_props e own) (Some (rest own)) (fun _ => rest own) else rest own) end)
  else bindP (ex (ins_ent e name)) rest.

(* *_property_type_to_db / isotherm_type_to_db: one statement; a missing table is reported when the statement is prepared, before binding *)
Definition type_upload_py (t : tsel) (ty : Z) (u ds : pyval) (overwrite : bool) : prog unit :=
  if missing t then ex (fun _ : db => @Bad (unit * db) EOperational) else
  match u, ds with
  | PV u', PV ds' => type_upload t ty u' ds' overwrite
  | PBad k, _ => ex (bind_fails k)
  | _, PBad k => ex (bind_fails k) end.

(* one entry of the data loop of isotherm_to_db: a row to insert, or a column whose element type find_SQL_python_type refuses
   (raise of class k by the body, BEFORE the execute call) *)
Inductive pdata := DRow (ty dty data : Z) | DRefuse (k : Z).
(* q_ty = None: the argument is none of PointIsotherm / ModelIsotherm / BaseIsotherm *)
Record pisoin := mkPIn { q_id : Z; q_ty : option Z; q_mat : Z; q_matps : pplist; q_ads : Z; q_adsps : pplist; q_temp : val;
                         q_props : list (Z * pyval); q_data : list pdata }.
Definition iso_upload_py (x : pisoin) (am aa : bool) : prog unit :=
  seqP (if am then RegOp (fun r => (memZ (q_mat x) (r_mat r), r))
                     (fun known => if known then Ret tt else ent_upload_py EMat (q_mat x) (q_matps x) true false) else Ret tt)
  (seqP (if aa then RegOp (fun r => (memZ (q_ads x) (r_ads r), r))
                     (fun known => if known then Ret tt else ent_upload_py EAds (q_ads x) (q_adsps x) true false) else Ret tt)
  (match q_ty x with
   | None => Raise (EExc K_Parsing)
   | Some ty =>
      seqP (ex (ins_iso (q_id x) ty (q_mat x) (q_ads x) (q_temp x)))
     (seqP (forP (q_props x) (fun p => bound (snd p) (fun v => ins_iprop (q_id x) (fst p) (bool_text v))))
           (forP (q_data x) (fun r => match r with
                                      | DRow ty dty data => ex (ins_idata (q_id x) ty dty data)
                                      | DRefuse k => Raise (EExc k) end))) end)).

(* the operations as Python hands them over *)
Inductive pyop :=
| POp (o : op)                                                      (* retrievals, deletions: nothing but storable arguments *)
| PEntUp (e : ent) (name : Z) (ps : pplist) (autoins overwrite : bool)
| PTyUp (t : tsel) (ty : Z) (u ds : pyval) (overwrite : bool)
| PIsoUp (x : pisoin) (am aa : bool)
| PArgBad (k : Z).         (* a deletion / retrieval whose FIRST statement binds an argument sqlite3 cannot bind (class k) *)
Definition body_py (o : pyop) : prog ret :=
  match o with
  | POp o => body o
  | PEntUp e n ps a w => seqP (ent_upload_py e n ps a w) (Ret RUnit)
  | PTyUp t ty u ds w => seqP (type_upload_py t ty u ds w) (Ret RUnit)
  | PIsoUp x am aa => seqP (iso_upload_py x am aa) (Ret RUnit)
  | PArgBad k => seqP (ex (@bind_fails unit k)) (Ret RUnit) end.
Definition run_pyop (o : pyop) (d : db) (r : reg) := with_conn None CNone (body_py o) d r.

(* ------------------------------------------------------------------ storable input: the operation of Db/DbModel.v *)
Definition plain_val (v : pyval) : option val := match v with PV x => Some x | PBad _ => None end.
Fixpoint plain_vals (l : list pyval) : option (list val) :=
  match l with
  | [] => Some []
  | v :: r => match plain_val v, plain_vals r with Some x, Some r' => Some (x :: r') | _, _ => None end end.
Fixpoint plain_plist (ps : pplist) : option plist :=
  match ps with
  | [] => Some []
  | (k, vs) :: r => match plain_vals vs, plain_plist r with Some vs', Some r' => Some ((k, vs') :: r') | _, _ => None end end.
Fixpoint plain_props (l : list (Z * pyval)) : option (list (Z * val)) :=
  match l with
  | [] => Some []
  | (k, v) :: r => match plain_val v, plain_props r with Some x, Some r' => Some ((k, x) :: r') | _, _ => None end end.
Fixpoint plain_data (l : list pdata) : option (list (Z * Z * Z)) :=
  match l with
  | [] => Some []
  | DRow a b c :: r => match plain_data r with Some r' => Some ((a, b, c) :: r') | None => None end
  | DRefuse _ :: _ => None end.
Definition plain_iso (x : pisoin) : option isoin :=
  match q_ty x, plain_plist (q_matps x), plain_plist (q_adsps x), plain_props (q_props x), plain_data (q_data x) with
  | Some ty, Some mp, Some ap, Some pr, Some dt => Some (mkIn (q_id x) ty (q_mat x) mp (q_ads x) ap (q_temp x) pr dt)
  | _, _, _, _, _ => None end.
(* Some o: every argument is storable and the call is the operation o of Db/DbModel.v; None: something in it cannot be stored *)
Definition plain_of (o : pyop) : option op :=
  match o with
  | POp o => Some o
  | PEntUp e n ps a w => match plain_plist ps with Some ps' => Some (EntUp e n ps' a w) | None => None end
  | PTyUp t ty u ds w => match plain_val u, plain_val ds with Some u', Some ds' => Some (TyUp t ty u' ds' w) | _, _ => None end
  | PIsoUp x am aa => match plain_iso x with Some x' => Some (IsoUp x' am aa) | None => None end
  | PArgBad _ => None end.
(* injections (storable input as Python input) *)
Definition inj_plist (ps : plist) : pplist := map (fun p => (fst p, map PV (snd p))) ps.
Definition inj_iso (x : isoin) : pisoin :=
  mkPIn (n_id x) (Some (n_ty x)) (n_mat x) (inj_plist (n_matps x)) (n_ads x) (inj_plist (n_adsps x)) (n_temp x)
        (map (fun p => (fst p, PV (snd p))) (n_props x)) (map (fun r => let '(a, b, c) := r in DRow a b c) (n_data x)).

(* the dictionary model's verdict on a step (Db/DbShow.v spec_verdict): storable input is judged as the plain operation; input that
   cannot be stored must be refused and the content must stay what it was *)
Definition py_spec_verdict (o : pyop) (d d' : db) : list Z :=
  match plain_of o with
  | Some o' => let '(ok, s') := sstep (fun v => v) o' (abs d) in [if ok then 1 else 0; sdb_diff (abs d') s']
  | None => [0; sdb_diff (abs d') (abs d)] end.
