(* C09: theorems about the connection protocol of with_connection (definitions: Db/DbConn.v; the skeleton wc_source: Gen/DbShapeGen.v).
   Kept apart from the definitions so that the model can still be EXECUTED against the implementation (Db/DbShow.v) when an edit of the
   wrapper breaks these theorems. *)
From Coq Require Import ZArith List Bool Lia.
From PG Require Import Db.DbModel Db.DbConn.
Import ListNotations.
Open Scope Z_scope.

(* ------------------------------------------------------------------ the hand-written with_conn is the source skeleton *)
Theorem with_conn_is_source_skeleton : forall flt cf (p : prog ret) d r,
  fst (with_conn_gen wc_source flt cf p d r) = Some (with_conn flt cf p d r).
Proof.
  intros. unfold with_conn_gen, with_conn.
  generalize (run flt (seqP (ex pragma_fk) p) (mkSt d r 0)). intros [res s]. cbn.
  destruct res as [a|e].
  - destruct cf as [| | |e1]; [| | |destruct e1]; reflexivity.
  - destruct e; reflexivity.
Qed.

(* ------------------------------------------------------------------ the connection is closed on every surviving path *)
Definition survives (o : option (outcome * db * reg * nat)) : Prop :=
  match o with Some (ODied, _, _, _) => False | Some _ => True | None => False end.
Definition returns_normally (o : option (outcome * db * reg * nat)) : bool :=
  match o with Some (OOk _, _, _, _) => true | _ => false end.
Definition count (e : cev) (l : list cev) : nat := length (filter (fun x => match x, e with EvConnect, EvConnect | EvCommit, EvCommit | EvRollback, EvRollback | EvClose, EvClose => true | _, _ => false end) l).
Definition memE (e : cev) (l : list cev) : bool := negb (Nat.eqb (count e l) 0).

Theorem connection_closed_on_every_path : forall flt cf (p : prog ret) d r,
  let res := with_conn_gen wc_source flt cf p d r in
  survives (fst res) ->
  x_closed (snd res) = true                                  (* closed: no lock, no open transaction is left behind *)
  /\ hd_error (x_ev (snd res)) = Some EvConnect
  /\ last (x_ev (snd res)) EvConnect = EvClose              (* close is the last call made on the connection *)
  /\ count EvClose (x_ev (snd res)) = 1%nat /\ count EvConnect (x_ev (snd res)) = 1%nat
  /\ (returns_normally (fst res) = true -> x_ev (snd res) = [EvConnect; EvCommit; EvClose])
  /\ (returns_normally (fst res) = false -> x_file (snd res) = d).    (* an error seen by the caller: nothing reached the file *)
Proof.
  intros flt cf p d r. unfold with_conn_gen.
  generalize (run flt (seqP (ex pragma_fk) p) (mkSt d r 0)). intros [res s]. cbn.
  destruct res as [a|e].
  - destruct cf as [| | |e1]; [| | |destruct e1]; cbn; intro H; try contradiction; repeat split; try reflexivity; try discriminate.
  - destruct e; cbn; intro H; try contradiction; repeat split; try reflexivity; try discriminate.
Qed.

Theorem events_by_kind : forall k e (p : prog ret) d r a s,
  run (Some (k, e)) (seqP (ex pragma_fk) p) (mkSt d r 0) = (Bad a, s) ->
  conn_events (Some (k, e)) CNone p d r =
  match a with
  | EIntegrity | EInterface => [EvConnect; EvRollback; EvClose]
  | ECrash => [EvConnect]
  | _ => [EvConnect; EvClose] end.
Proof.
  intros k e p d r a s H. unfold conn_events, with_conn_gen. rewrite H. destruct a; reflexivity.
Qed.

(* a wrapper whose close() sits only in the handlers and after the try statement (no finally) leaks the connection for every
   exception kind it does not name: the theorem above is FALSE for that skeleton *)
Definition wc_no_finally : wcshape :=
  mkWC [AConnect] [APragma; ABody] [mkH [XIntegrityError; XInterfaceError] [ARollback; AClose; ARaiseParsing]] [] [] [ACommit; AClose; AReturn].
Lemma no_finally_leaks_connection : forall k d r,
  let res := with_conn_gen wc_no_finally (Some (1%nat, EExc k)) CNone (Ret RUnit) d r in
  fst res = Some (OOther (EExc k), d, r, 1%nat) /\ x_closed (snd res) = false /\ x_ev (snd res) = [EvConnect].
Proof. intros. cbn. repeat split. Qed.

(* the new fault kinds are not vacuous: a KeyError-like Exception (EExc) and a KeyboardInterrupt-like BaseException (EBase) raised after
   the first write of an upload, and a COMMIT that fails: the caller sees that exception, the file is the pre-state, the registries are
   untouched, the connection is closed without commit *)
Definition k_db : db := mkDb empty_store (mkS [] 1 [] 1 [mkT 1 20 VNull VNull] 2) [] 1 [] [] 1 [] 1.
Definition k_op : op := EntUp EMat 30 [(20, [VNum 6])] false false.
Lemma other_fault_kinds_example :
  fst (with_conn_gen wc_source (Some (3%nat, EExc 7)) CNone (body k_op) k_db (mkReg [] [])) = Some (OOther (EExc 7), k_db, mkReg [] [], 3%nat)
  /\ conn_events (Some (3%nat, EExc 7)) CNone (body k_op) k_db (mkReg [] []) = [EvConnect; EvClose]
  /\ fst (with_conn_gen wc_source (Some (3%nat, EBase 1)) CNone (body k_op) k_db (mkReg [] [])) = Some (OOther (EBase 1), k_db, mkReg [] [], 3%nat)
  /\ conn_events (Some (3%nat, EBase 1)) CNone (body k_op) k_db (mkReg [] []) = [EvConnect; EvClose]
  /\ fst (fst (fst (with_conn None (CCommitRaises EOperational) (body k_op) k_db (mkReg [] [])))) = OOther EOperational
  /\ snd (fst (fst (with_conn None (CCommitRaises EOperational) (body k_op) k_db (mkReg [] [])))) = k_db
  /\ conn_events None (CCommitRaises EOperational) (body k_op) k_db (mkReg [] []) = [EvConnect; EvCommit; EvClose]
  /\ names (mat (snd (fst (fst (run_op k_op k_db (mkReg [] [])))))) = [30].
Proof. vm_compute. repeat split. Qed.
