(* C08: the batching of isotherms_from_db.  The function fetches the matching rows of `isotherms`, cuts them into batches of n
   (`grouped(alldata, n)`) and issues per batch one SELECT on isotherm_properties and one on isotherm_data.
   For EVERY batch size n >= 1, every table content and every number of matching rows the batched retrieval returns exactly the
   plain retrieval (each matching row with ITS properties and ITS data, in table order) and issues 1 + 2 * ceil(rows / n)
   statements - the number the harness compares with the cursor.execute calls of the implementation on every call.
   The batch size of the source is Gen/DbShapeGen.v iso_batch; a batch size 0 would retrieve nothing (refuted item). *)
From Coq Require Import ZArith List Bool Lia Arith PeanoNat.
From PG Require Import Db.DbModel Db.DbSpec.
Import ListNotations.
Open Scope Z_scope.

(* plain retrieval: no batches, no statements - a function of the three tables *)
Definition retrieve (c : crit) (d : db) : list isoout :=
  map (mk_out (iprops d) (idata d)) (filter (crit_ok c) (isos d)).
(* number of batches: ceil(m / n) *)
Definition nbatches (n m : nat) : nat := ((m + n - 1) / n)%nat.

(* ------------------------------------------------------------------ chunks is a partition into ceil(m/n) pieces *)
Lemma chunks_concat : forall X fuel n (l : list X), (1 <= n)%nat -> (length l < fuel)%nat -> concat (chunks fuel n l) = l.
Proof.
  induction fuel as [|f IH]; intros n l Hn Hl; [lia|].
  destruct l as [|x r]; [reflexivity|].
  change (chunks (S f) n (x :: r)) with (firstn n (x :: r) :: chunks f n (skipn n (x :: r))).
  simpl concat. rewrite IH; [apply firstn_skipn|exact Hn|].
  rewrite skipn_length. simpl length in *. lia.
Qed.
Lemma nbatches_small : forall n m, (1 <= m)%nat -> (m <= n)%nat -> nbatches n m = 1%nat.
Proof.
  intros n m H1 H2. unfold nbatches. symmetry. apply (Nat.div_unique _ _ _ (m - 1)%nat); lia.
Qed.
Lemma nbatches_step : forall n m, (1 <= n)%nat -> (n <= m)%nat -> nbatches n m = S (nbatches n (m - n)).
Proof.
  intros n m Hn Hm. unfold nbatches.
  replace (m + n - 1)%nat with ((m - n + n - 1) + 1 * n)%nat by lia.
  rewrite Nat.div_add by lia. lia.
Qed.
Lemma nbatches_0 : forall n, (1 <= n)%nat -> nbatches n 0 = 0%nat.
Proof. intros n Hn. unfold nbatches. apply Nat.div_small. lia. Qed.
Lemma chunks_length : forall X fuel n (l : list X), (1 <= n)%nat -> (length l < fuel)%nat ->
  length (chunks fuel n l) = nbatches n (length l).
Proof.
  induction fuel as [|f IH]; intros n l Hn Hl; [lia|].
  destruct l as [|x r]; [simpl; rewrite nbatches_0; auto|].
  change (chunks (S f) n (x :: r)) with (firstn n (x :: r) :: chunks f n (skipn n (x :: r))).
  simpl length at 1. rewrite IH; [|exact Hn|rewrite skipn_length; simpl length in *; lia].
  rewrite skipn_length.
  destruct (le_lt_dec n (length (x :: r))) as [Hle|Hlt].
  - rewrite (nbatches_step n (length (x :: r))); auto.
  - replace (length (x :: r) - n)%nat with 0%nat by lia. rewrite nbatches_0 by exact Hn.
    rewrite nbatches_small; simpl length in *; lia.
Qed.
Lemma chunks_nonempty : forall X fuel n (l : list X) ch, (1 <= n)%nat -> In ch (chunks fuel n l) -> ch <> [] /\ (length ch <= n)%nat.
Proof.
  induction fuel as [|f IH]; intros n l ch Hn Hin; [destruct Hin|].
  destruct l as [|x r]; [destruct Hin|].
  change (chunks (S f) n (x :: r)) with (firstn n (x :: r) :: chunks f n (skipn n (x :: r))) in Hin.
  destruct Hin as [E|Hin]; [|eapply IH; eauto].
  subst ch. split; [|apply firstn_le_length].
  destruct n; [lia|]. simpl. discriminate.
Qed.

(* ------------------------------------------------------------------ one batch: the rows fetched `WHERE iso_id IN (ids of the batch)`
   contain, for every isotherm OF the batch, exactly its rows of the whole table *)
Lemma memZ_map_in : forall (i : irow) ch, In i ch -> memZ (i_id i) (map i_id ch) = true.
Proof.
  intros i ch H. unfold memZ. apply existsb_exists. exists (i_id i). split; [apply in_map; exact H|apply Z.eqb_refl].
Qed.
Lemma filter_filter : forall X (f g : X -> bool) l, filter f (filter g l) = filter (fun x => f x && g x) l.
Proof.
  induction l as [|x r IH]; simpl; [reflexivity|].
  destruct (g x); simpl; destruct (f x); simpl; rewrite ?IH; reflexivity.
Qed.
Lemma filter_ext_in' : forall X (f g : X -> bool) l, (forall x, In x l -> f x = g x) -> filter f l = filter g l.
Proof.
  induction l as [|x r IH]; simpl; intros H; [reflexivity|].
  rewrite (H x (or_introl eq_refl)). rewrite IH; [reflexivity|]. intros y Hy. apply H. right; exact Hy.
Qed.
Lemma mk_out_batch : forall d ch i, In i ch ->
  mk_out (filter (fun p => memZ (p_own p) (map i_id ch)) (iprops d)) (filter (fun r => memZ (d_iso r) (map i_id ch)) (idata d)) i
  = mk_out (iprops d) (idata d) i.
Proof.
  intros d ch i Hi. unfold mk_out. rewrite !filter_filter.
  f_equal; [f_equal; f_equal|f_equal]; apply filter_ext_in'; intros x _.
  - destruct (p_own x =? i_id i) eqn:E; [|reflexivity]. apply Z.eqb_eq in E. rewrite E. rewrite memZ_map_in; auto.
  - destruct (d_iso x =? i_id i) eqn:E; [|reflexivity]. apply Z.eqb_eq in E. rewrite E. rewrite memZ_map_in; auto.
Qed.

(* ------------------------------------------------------------------ the batch loop *)
Lemma run_bind : forall A C flt (p : prog A) (g : A -> prog C) s,
  run flt (bindP p g) s = match run flt p s with (Good a, s') => run flt (g a) s' | (Bad e, s') => (Bad e, s') end.
Proof.
  intros A C flt. fix IH 1. intros p g s. destruct p as [a|e|B f h k|B f k]; simpl.
  - reflexivity.
  - reflexivity.
  - destruct (match hits flt (S (s_n s)) with Some e => Bad e | None => f (s_db s) end) as [[b d']|e].
    + apply IH.
    + destruct e; try reflexivity. destruct h as [q|]; [apply IH|reflexivity].
  - destruct (f (s_reg s)) as [b r']. apply IH.
Qed.
Lemma run_chunks : forall d r cs k,
  run None (iso_get_chunks cs) (mkSt d r k)
  = (Good (map (mk_out (iprops d) (idata d)) (concat cs)), mkSt d r (k + 2 * length cs)).
Proof.
  intros d r cs. induction cs as [|ch cs IH]; intro k.
  - simpl. rewrite Nat.add_0_r. reflexivity.
  - cbn [iso_get_chunks]. rewrite run_bind. simpl run at 1. cbv iota beta.
    rewrite run_bind. simpl run at 1. cbv iota beta.
    rewrite run_bind. rewrite IH. cbv iota beta. simpl run.
    f_equal; [|f_equal; simpl length; lia].
    f_equal. simpl concat. rewrite map_app. f_equal.
    apply map_ext_in. intros i Hi. apply mk_out_batch. exact Hi.
Qed.

(* THE batching theorem: every batch size n >= 1, every criteria, every content, every registry, any number k of statements issued
   before: the batched retrieval returns the plain retrieval, leaves file and registries alone and issues 1 + 2 * ceil(rows / n)
   statements *)
Theorem batched_retrieval_is_plain_retrieval : forall n c d r k, (1 <= n)%nat ->
  run None (iso_get_n n c) (mkSt d r k)
  = (Good (retrieve c d), mkSt d r (k + 1 + 2 * nbatches n (length (filter (crit_ok c) (isos d))))).
Proof.
  intros n c d r k Hn. unfold iso_get_n. rewrite run_bind. simpl run at 1. cbv iota beta.
  rewrite run_chunks. rewrite chunks_concat by (auto; lia). rewrite chunks_length by (auto; lia).
  unfold retrieve. f_equal. f_equal. lia.
Qed.
(* in particular the result does not depend on the batch size *)
Corollary batch_size_is_irrelevant : forall n m c d r k, (1 <= n)%nat -> (1 <= m)%nat ->
  fst (run None (iso_get_n n c) (mkSt d r k)) = fst (run None (iso_get_n m c) (mkSt d r k)).
Proof. intros. rewrite !batched_retrieval_is_plain_retrieval by assumption. reflexivity. Qed.

(* the public function under with_connection: PRAGMA + SELECT + 2 per batch of the generated size *)
Definition statements_of_retrieval (c : crit) (d : db) : nat :=
  (2 + 2 * nbatches iso_batch (length (filter (crit_ok c) (isos d))))%nat.
Theorem isotherms_from_db_is_plain_retrieval : forall c d r, (1 <= iso_batch)%nat ->
  run_op (IsoGet c) d r = (OOk (RIsos (retrieve c d)), d, r, statements_of_retrieval c d).
Proof.
  intros c d r Hb. unfold run_op, with_conn, body, seqP. rewrite run_bind. simpl run at 1. cbv iota beta.
  rewrite run_bind. unfold iso_get. rewrite batched_retrieval_is_plain_retrieval by exact Hb. simpl.
  unfold statements_of_retrieval. do 3 f_equal.
Qed.

(* the hypotheses hold for the skeleton found in the source: batch size >= 1, grouped() iterates over the rows materialised by
   fetchall() (not over the live cursor, which the loop body re-uses for its own SELECTs), one execute before the loop and two per batch *)
Lemma source_batching_hypotheses : (1 <= iso_batch)%nat /\ iso_batch_operand = Materialised
  /\ iso_stmts_before_loop = 1%nat /\ iso_stmts_per_batch = 2%nat.
Proof. repeat split; vm_compute; try reflexivity; repeat constructor. Qed.
Theorem source_isotherms_from_db_is_plain_retrieval : forall c d r,
  run_op (IsoGet c) d r = (OOk (RIsos (retrieve c d)), d, r, statements_of_retrieval c d).
Proof. intros. apply isotherms_from_db_is_plain_retrieval. apply source_batching_hypotheses. Qed.

(* ------------------------------------------------------------------ ... and the plain retrieval is the dictionary's: the isotherms of the
   dictionary (abstraction of the tables) that satisfy the criteria, in insertion order, each with its own properties and data - plus the
   `iso_type` key the row hands to the constructor (the known defect retrieved_isotherm_has_extra_key_refuted) *)
Definition out_of_dict (i : siso) : isoout :=
  mkOut (si_id i) (si_ty i) (si_mat i) (si_ads i) (si_temp i) ((A_iso_type, VText (si_ty i)) :: si_props i) (si_data i).
Definition dict_retrieve (c : crit) (s : sdb) : list isoout := map out_of_dict (filter (scrit_ok store_real c) (sisos s)).
Lemma filter_map_comm : forall X Y (f : X -> Y) (g : Y -> bool) l, filter g (map f l) = map f (filter (fun x => g (f x)) l).
Proof. induction l as [|x r IH]; simpl; [reflexivity|]. destruct (g (f x)); simpl; rewrite IH; reflexivity. Qed.
Lemma retrieve_is_dict_retrieve : forall c d, retrieve c d = dict_retrieve c (abs d).
Proof.
  intros c d. unfold retrieve, dict_retrieve, abs. cbn [sisos]. rewrite filter_map_comm, map_map.
  transitivity (map (fun x => out_of_dict (abs_iso d x)) (filter (crit_ok c) (isos d))).
  - apply map_ext. intro i. reflexivity.
  - reflexivity.
Qed.
Theorem source_isotherms_from_db_refines_dictionary : forall c d r,
  run_op (IsoGet c) d r = (OOk (RIsos (dict_retrieve c (abs d))), d, r, statements_of_retrieval c d).
Proof. intros. rewrite source_isotherms_from_db_is_plain_retrieval, retrieve_is_dict_retrieve. reflexivity. Qed.

(* the hypothesis 1 <= n is needed: with batch size 0 nothing comes back although rows match *)
Definition b_db : db :=
  mkDb (mkS [(1, 10)] 2 [] 1 [] 1) (mkS [(1, 30)] 2 [] 1 [] 1) [mkT 1 A_base VNull VNull] 2
       [mkI 100 A_base 30 10 (VNum 7); mkI 101 A_base 30 10 (VNum 8); mkI 102 A_base 30 10 (VNum 9)] [mkP 1 101 40 (VNum 5)] 2 [] 1.
Lemma zero_batch_retrieves_nothing :
  fst (run None (iso_get_n 0 (mkC None None None None)) (mkSt b_db (mkReg [] []) 0)) = Good []
  /\ length (retrieve (mkC None None None None) b_db) = 3%nat.
Proof. vm_compute. split; reflexivity. Qed.
(* a store larger than the batch: 3 rows in batches of 2 = 2 batches = 1 + 2 * 2 statements, result = plain retrieval *)
Lemma batches_of_two_example :
  run None (iso_get_n 2 (mkC None None None None)) (mkSt b_db (mkReg [] []) 0)
  = (Good (retrieve (mkC None None None None) b_db), mkSt b_db (mkReg [] []) 5)
  /\ map o_props (retrieve (mkC None None None None) b_db)
     = [[(A_iso_type, VText A_base)]; [(A_iso_type, VText A_base); (40, VNum 5)]; [(A_iso_type, VText A_base)]].
Proof. vm_compute. split; reflexivity. Qed.
