(* Printing side of the C08/C09 correspondence: every step of a history becomes nested lists of small integers:
   outcome code + number of statements, per table the row-level difference to the state before the call, the retrieval result. *)
From Coq Require Import ZArith List Bool.
From PG Require Import Db.DbModel Db.DbSpec Db.DbConn.
Import ListNotations.
Open Scope Z_scope.

Definition enc_p (p : prow) : list Z := [p_id p; p_own p; p_ty p; vcode (p_val p)].
Definition enc_t (t : trow) : list Z := [t_id t; t_ty t; vcode (t_unit t); vcode (t_desc t)].
Definition enc_i (i : irow) : list Z := [i_id i; i_ty i; i_mat i; i_ads i; vcode (i_temp i)].
Definition enc_d (r : drow) : list Z := [d_id r; d_iso r; d_ty r; d_dty r; d_data r].
Definition enc_store (s : store) : list (list (list Z)) :=
  [map (fun r => [fst r; snd r]) (rows s); map enc_p (props s); map enc_t (types s)].
(* 0 adsorbates 1 adsorbate_properties 2 adsorbate_properties_type 3 materials 4 material_properties 5 material_properties_type
   6 isotherm_type 7 isotherms 8 isotherm_properties 9 isotherm_data 10 ADSORBATE_LIST 11 MATERIAL_LIST *)
Definition tables (d : db) (r : reg) : list (list (list Z)) :=
  enc_store (ads d) ++ enc_store (mat d) ++
  [map enc_t (itypes d); map enc_i (isos d); map enc_p (iprops d); map enc_d (idata d);
   map (fun x => [x]) (r_ads r); map (fun x => [x]) (r_mat r)].
(* the AUTOINCREMENT counters (sqlite_sequence + 1) *)
Definition counters (d : db) : list Z :=
  [nxt (ads d); pnxt (ads d); tnxt (ads d); nxt (mat d); pnxt (mat d); tnxt (mat d); itnxt d; ipnxt d; idnxt d].

Fixpoint row_eqb (a b : list Z) : bool :=
  match a, b with [], [] => true | x :: r, y :: s => (x =? y) && row_eqb r s | _, _ => false end.
Fixpoint tab_eqb (a b : list (list Z)) : bool :=
  match a, b with [], [] => true | x :: r, y :: s => row_eqb x y && tab_eqb r s | _, _ => false end.
Definition key (r : list Z) : Z := hd 0 r.
(* both tables ascending in the key (tables with an AUTOINCREMENT id always are) *)
Fixpoint diff_merge (fuel : nat) (old new : list (list Z)) : list Z * list (list Z) :=
  match fuel with
  | O => ([], [])
  | S f =>
      match old, new with
      | [], _ => ([], new)
      | _, [] => (map key old, [])
      | o :: ro, n :: rn =>
          if key o <? key n then let '(r, a) := diff_merge f ro new in (key o :: r, a)
          else if key n <? key o then let '(r, a) := diff_merge f old rn in (r, n :: a)
          else if row_eqb o n then diff_merge f ro rn
          else let '(r, a) := diff_merge f ro rn in (key o :: r, n :: a) end end.
Definition mem_row (x : list Z) (l : list (list Z)) : bool := existsb (row_eqb x) l.
(* unordered tables (isotherms: text key; the registries: sets of names) *)
Definition diff_set (old new : list (list Z)) : list Z * list (list Z) :=
  (map key (filter (fun o => negb (mem_row o new)) old),
   fold_right (fun n acc => if mem_row n old || mem_row n acc then acc else n :: acc) [] new).
Definition ordered (i : nat) : bool := negb (Nat.eqb i 7 || Nat.eqb i 10 || Nat.eqb i 11).
Fixpoint diff_tables (i : nat) (old new : list (list (list Z))) : list (list (list Z)) :=
  match old, new with
  | o :: ro, n :: rn =>
      (if tab_eqb o n then [[]; []]
       else let '(r, a) := if ordered i then diff_merge (length o + length n) o n else diff_set o n in [[r]; a])
      ++ diff_tables (S i) ro rn
  | _, _ => [] end.

(* 100 + k: another Exception class (EExc k), 200 + k: a BaseException-only class (EBase k); 13 / 14: an IntegrityError / InterfaceError
   that reaches the caller untranslated (raised by COMMIT, outside the handlers) *)
Definition oc_code (o : outcome) : Z :=
  match o with OOk _ => 0 | OParsing => 3 | OOther EOperational => 10 | OOther EIntegrity => 13 | OOther EInterface => 14
             | OOther (EExc k) => 100 + k | OOther (EBase k) => 200 + k | OOther _ => 11 | ODied => 12 end.
Fixpoint flat2 (l : list (Z * val)) : list Z := match l with [] => [] | (a, v) :: r => a :: vcode v :: flat2 r end.
Fixpoint flat3 (l : list (Z * Z * Z)) : list Z := match l with [] => [] | (a, b, c) :: r => a :: b :: c :: flat3 r end.
(* retrieval results; entities whose name is in `base` (the content db_create ships) are only counted *)
Definition enc_ret (base : list Z) (o : outcome) : list (list Z) :=
  match o with
  | OOk (REnts l) => [Z.of_nat (length l)] :: map (fun x => let '(i, n, ps) := x in n :: flat2 ps) (filter (fun x => negb (memZ (snd (fst x)) base)) l)
  | OOk (RTypes l) => map (fun t => [t_ty t; vcode (t_unit t); vcode (t_desc t)]) l
  | OOk (RIsos l) => flat_map (fun x => [[o_id x; o_ty x; o_mat x; o_ads x; vcode (o_temp x)]; flat2 (o_props x); flat3 (o_data x)]) l
  | _ => [] end.

(* the step judged by the PLAIN dictionary model from the abstraction of the state before the call:
   accepted / refused, and which collections of abs(db after) differ from the dictionary's prediction *)
Definition spec_verdict (o : op) (d d' : db) : list Z :=
  let '(ok, s') := sstep (fun v => v) o (abs d) in [if ok then 1 else 0; sdb_diff (abs d') s'].
Definition show_step (base : list Z) (o : op) (d : db) (r : reg) (res : outcome * db * reg * nat) : list (list (list Z)) :=
  let '(oc, d', r', n) := res in
  [[oc_code oc; Z.of_nat n]; counters d'; spec_verdict o d d'] :: diff_tables 0 (tables d r) (tables d' r') ++ [enc_ret base oc].

Fixpoint show_hist (base : list Z) (fs : files) (r : reg) (h : list (nat * op)) : list (list (list (list Z))) :=
  match h with
  | [] => []
  | fo :: t =>
      let d := nth (fst fo) fs empty_db in
      let res := run_op (snd fo) d r in
      let '(oc, d', r', n) := res in
      show_step base (snd fo) d r res :: show_hist base (set_nth (fst fo) d' fs) r' t end.

(* C09: one faulted call on a prepared state, then the same call again without fault (the retry).
   Prints outcome, statements, whether the file is the pre-state / the un-faulted post-state, and the retry outcome. *)
Definition db_eqb (a b : db) : bool :=
  let e := mkReg [] [] in
  forallb (fun x => x) (map (fun p => tab_eqb (fst p) (snd p)) (combine (tables a e) (tables b e))) && row_eqb (counters a) (counters b).
Definition reg_eqb (a b : reg) : bool :=
  let s (x y : list Z) := forallb (fun n => memZ n y) x && forallb (fun n => memZ n x) y in
  s (r_ads a) (r_ads b) && s (r_mat a) (r_mat b).
Definition ev_code (e : cev) : Z := match e with EvConnect => 1 | EvCommit => 2 | EvRollback => 3 | EvClose => 4 end.
Definition show_fault (flt : fault) (cf : cfault) (reg0 : reg) (o : op) (d : db) (r : reg) : list Z :=
  let '(oc, d1, r1, n) := with_conn flt cf (body o) d r in
  let '(oc0, d0, r0, n0) := run_op o d r in
  let r1' := match oc with ODied => reg0 | _ => r1 end in        (* a new process starts from the shipped registry *)
  let '(oc2, d2, r2, n2) := run_op o d1 r1' in
  let cx := snd (with_conn_gen wc_source flt cf (body o) d r) in
  [oc_code oc; Z.of_nat n; if db_eqb d1 d then 1 else 0; if db_eqb d1 d0 then 1 else 0; oc_code oc0; Z.of_nat n0;
   oc_code oc2; if db_eqb d2 d0 then 1 else 0; if reg_eqb r1 r then 1 else 0;
   (* the connection protocol (Db/DbConn.v): closed when the call ends?  then the calls made on the connection, in order *)
   if x_closed cx then 1 else 0] ++ map ev_code (x_ev cx).
