(* Kelvin radii (models_kelvin.py) over the GENERATED kelvin_radius / kelvin_radius_kjs / get_meniscus_geometry:
   the Kelvin equation per meniscus geometry, monotonicity in p on (0,1), the KJS offset, the meniscus table;
   and monotonicity of the built-in thickness equations (GENERATED thickness_halsey / thickness_harkins_jura). *)
From Coq Require Import Reals Lra QArith Qreals ZArith String List Bool Lia.
From PG Require Import Lib.Num Lib.Py Lib.Tac Gen.CharactGen Charact.Ols.
Import ListNotations.
Open Scope R_scope.
Open Scope string_scope.

Definition gasR : R := 207861565453831 / 25000000000000.
Definition geometry_factor (m : string) : option R :=
  if String.eqb m "cylindrical" then Some 2 else if String.eqb m "hemispherical" then Some 1
  else if String.eqb m "hemicylindrical" then Some (1 / 2) else None.

Lemma ln_neg p : 0 < p < 1 -> ln p < 0.
Proof. intros [H0 H1]. pose proof (ln_increasing p 1 H0 H1). rewrite ln_1 in H. exact H. Qed.

(* r_K * ln(1/p) = 2 gamma V_m / (g R T), V_m = M / rho, with the code's geometry factors g = 2, 1, 1/2 *)
Theorem kelvin_equation : forall (m : string) (g p T rho M gamma : R), geometry_factor m = Some g ->
  0 < p < 1 -> 0 < T -> 0 < rho ->
  exists r, kelvin_radius RNum ln p m T rho M gamma = Ok r /\ r * (g * gasR * T) * ln (/ p) = 2 * gamma * (M / rho).
Proof.
  intros m g p T rho M gamma Hg Hp HT Hrho. pose proof (ln_neg p Hp) as Hl.
  unfold kelvin_radius, geometry_factor in *. rops.
  destruct (m =? "cylindrical") eqn:E1; [|destruct (m =? "hemispherical") eqn:E2; [|destruct (m =? "hemicylindrical") eqn:E3; [|discriminate Hg]]];
    injection Hg as <-; cbn [bind]; eexists; (split; [reflexivity|]); rewrite ln_Rinv by lra;
    replace (Q2R (207861565453831 # 25000000000000)) with gasR by (unfold gasR, Q2R; simpl; lra);
    replace (Q2R (2 # 1)) with 2 by (unfold Q2R; simpl; lra); replace (Q2R (1 # 1)) with 1 by (unfold Q2R; simpl; lra);
    replace (Q2R (1 # 2)) with (1 / 2) by (unfold Q2R; simpl; lra); unfold gasR; field; lra.
Qed.

Theorem kelvin_unknown_geometry_not_a_radius : forall m p T rho M gamma, geometry_factor m = None ->
  kelvin_radius RNum ln p m T rho M gamma = Err FellOffEnd.
Proof.
  intros m p T rho M gamma Hg. unfold kelvin_radius, geometry_factor in *.
  destruct (m =? "cylindrical"); [discriminate Hg|]. destruct (m =? "hemispherical"); [discriminate Hg|].
  destruct (m =? "hemicylindrical"); [discriminate Hg|]. reflexivity.
Qed.

Theorem kelvin_increasing : forall (m : string) (g p q T rho M gamma : R), geometry_factor m = Some g ->
  0 < p -> p < q -> q < 1 -> 0 < T -> 0 < rho -> 0 < M -> 0 < gamma ->
  exists r r', kelvin_radius RNum ln p m T rho M gamma = Ok r /\ kelvin_radius RNum ln q m T rho M gamma = Ok r' /\ 0 < r < r'.
Proof.
  intros m g p q T rho M gamma Hg Hp Hpq Hq HT Hrho HM Hgam.
  assert (Hlp : ln p < 0) by (apply ln_neg; lra). assert (Hlq : ln q < 0) by (apply ln_neg; lra).
  assert (Hlpq : ln p < ln q) by (apply ln_increasing; lra).
  assert (Hgpos : 0 < g).
  { unfold geometry_factor in Hg. destruct (m =? "cylindrical"); [injection Hg as <-; lra|].
    destruct (m =? "hemispherical"); [injection Hg as <-; lra|]. destruct (m =? "hemicylindrical"); [injection Hg as <-; lra|discriminate Hg]. }
  assert (Hform : forall x, kelvin_radius RNum ln x m T rho M gamma = Ok (- (2 * gamma * (M / rho)) / (g * gasR * T * ln x))).
  { intro x. unfold kelvin_radius, geometry_factor in *. rops.
    replace (Q2R (207861565453831 # 25000000000000)) with gasR by (unfold gasR, Q2R; simpl; lra).
    replace (Q2R (2 # 1)) with 2 by (unfold Q2R; simpl; lra). replace (Q2R (1 # 1)) with 1 by (unfold Q2R; simpl; lra).
    replace (Q2R (1 # 2)) with (1 / 2) by (unfold Q2R; simpl; lra).
    destruct (m =? "cylindrical"); [injection Hg as <-; reflexivity|].
    destruct (m =? "hemispherical"); [injection Hg as <-; reflexivity|].
    destruct (m =? "hemicylindrical"); [injection Hg as <-; reflexivity|discriminate Hg]. }
  eexists _, _. split; [apply Hform|]. split; [apply Hform|].
  set (A := 2 * gamma * (M / rho)). assert (HA : 0 < A) by (unfold A; apply Rmult_lt_0_compat; [lra|apply Rdiv_lt_0_compat; lra]).
  set (B := g * gasR * T). assert (HB : 0 < B) by (unfold B, gasR; repeat apply Rmult_lt_0_compat; lra).
  replace (- A / (B * ln p)) with (A / B * / (- ln p)) by (field; lra).
  replace (- A / (B * ln q)) with (A / B * / (- ln q)) by (field; lra).
  assert (HAB : 0 < A / B) by (apply Rdiv_lt_0_compat; lra).
  assert (H1 : 0 < / (- ln p)) by (apply Rinv_0_lt_compat; lra).
  assert (H2 : / (- ln p) < / (- ln q)) by (apply Rinv_lt_contravar; [apply Rmult_lt_0_compat; lra|lra]).
  split; [apply Rmult_lt_0_compat; lra|apply Rmult_lt_compat_l; lra].
Qed.

(* KJS: cylindrical meniscus only, no geometry factor, + 0.3 nm *)
Theorem kjs_offset : forall (m : string) (p T rho M gamma : R),
  kelvin_radius_kjs RNum ln p m T rho M gamma =
  if String.eqb m "cylindrical" then Ok (- (2 * gamma * (M / rho)) / (gasR * T * ln p) + 3 / 10) else Err ParameterError.
Proof.
  intros. unfold kelvin_radius_kjs. rops. destruct (m =? "cylindrical"); [|reflexivity]. simpl. f_equal.
  replace (Q2R (207861565453831 # 25000000000000)) with gasR by (unfold gasR, Q2R; simpl; lra).
  replace (Q2R (2 # 1)) with 2 by (unfold Q2R; simpl; lra). replace (Q2R (3 # 10)) with (3 / 10) by (unfold Q2R; simpl; lra). reflexivity.
Qed.

Theorem meniscus_table :
  map (fun bg => get_meniscus_geometry (fst bg) (snd bg))
      [("ads", "slit"); ("ads", "cylinder"); ("ads", "halfopen-cylinder"); ("ads", "sphere");
       ("des", "slit"); ("des", "cylinder"); ("des", "halfopen-cylinder"); ("des", "sphere"); ("ads", "cone"); ("both", "slit")]
  = [Ok "hemicylindrical"; Ok "cylindrical"; Ok "hemispherical"; Ok "hemispherical";
     Ok "hemicylindrical"; Ok "hemispherical"; Ok "hemispherical"; Ok "hemispherical"; Err ParameterError; Err ParameterError].
Proof. reflexivity. Qed.

(* the built-in thickness equations increase with p on (0,1) *)
Theorem halsey_increasing : forall p q : R, 0 < p -> p < q -> q < 1 ->
  0 < thickness_halsey RNum ln Rpower p < thickness_halsey RNum ln Rpower q.
Proof.
  intros p q Hp Hpq Hq. unfold thickness_halsey. rops.
  assert (Hlp : ln p < 0) by (apply ln_neg; lra). assert (Hlq : ln q < 0) by (apply ln_neg; lra).
  assert (Hlpq : ln p < ln q) by (apply ln_increasing; lra).
  replace (Q2R (177 # 500)) with (177 / 500) by (unfold Q2R; simpl; lra).
  replace (Q2R (-5 # 1)) with (-5) by (unfold Q2R; simpl; lra). replace (Q2R (333 # 1000)) with (333 / 1000) by (unfold Q2R; simpl; lra).
  assert (H1 : 0 < -5 / ln p) by (replace (-5 / ln p) with (5 * / (- ln p)) by (field; lra); apply Rmult_lt_0_compat; [lra|apply Rinv_0_lt_compat; lra]).
  assert (H2 : -5 / ln p < -5 / ln q).
  { replace (-5 / ln p) with (5 * / (- ln p)) by (field; lra). replace (-5 / ln q) with (5 * / (- ln q)) by (field; lra).
    apply Rmult_lt_compat_l; [lra|]. apply Rinv_lt_contravar; [apply Rmult_lt_0_compat; lra|lra]. }
  assert (H3 : Rpower (-5 / ln p) (333 / 1000) < Rpower (-5 / ln q) (333 / 1000)) by (apply Rlt_Rpower_l; lra).
  assert (H4 : 0 < Rpower (-5 / ln p) (333 / 1000)) by (unfold Rpower; apply exp_pos).
  split; [apply Rmult_lt_0_compat; lra|apply Rmult_lt_compat_l; lra].
Qed.
Theorem harkins_jura_increasing : forall p q : R, 0 < p -> p < q -> q < 1 ->
  0 < thickness_harkins_jura RNum ln Rpower p < thickness_harkins_jura RNum ln Rpower q.
Proof.
  intros p q Hp Hpq Hq. unfold thickness_harkins_jura. rops.
  assert (Hlp : ln p < 0) by (apply ln_neg; lra). assert (Hlq : ln q < 0) by (apply ln_neg; lra).
  assert (Hlpq : ln p < ln q) by (apply ln_increasing; lra).
  replace (Q2R (1399 # 10000)) with (1399 / 10000) by (unfold Q2R; simpl; lra).
  replace (Q2R (17 # 500)) with (17 / 500) by (unfold Q2R; simpl; lra). replace (Q2R (10 # 1)) with 10 by (unfold Q2R; simpl; lra).
  replace (Q2R (1 # 2)) with (1 / 2) by (unfold Q2R; simpl; lra).
  assert (H10 : 0 < ln 10) by (rewrite <- ln_1; apply ln_increasing; lra).
  assert (Hdp : 17 / 500 < 17 / 500 - ln p / ln 10).
  { assert (Hi : 0 < / ln 10) by (apply Rinv_0_lt_compat; lra). pose proof (Rmult_lt_0_compat (- ln p) (/ ln 10) ltac:(lra) Hi). unfold Rdiv. lra. }
  assert (Hdq : 17 / 500 < 17 / 500 - ln q / ln 10).
  { assert (Hi : 0 < / ln 10) by (apply Rinv_0_lt_compat; lra). pose proof (Rmult_lt_0_compat (- ln q) (/ ln 10) ltac:(lra) Hi). unfold Rdiv. lra. }
  assert (Hd : 17 / 500 - ln q / ln 10 < 17 / 500 - ln p / ln 10).
  { assert (ln p / ln 10 < ln q / ln 10) by (unfold Rdiv; apply Rmult_lt_compat_r; [apply Rinv_0_lt_compat; lra|lra]). lra. }
  set (dp := 17 / 500 - ln p / ln 10) in *. set (dq := 17 / 500 - ln q / ln 10) in *.
  assert (H1 : 0 < 1399 / 10000 / dp) by (apply Rdiv_lt_0_compat; lra).
  assert (H2 : 1399 / 10000 / dp < 1399 / 10000 / dq).
  { unfold Rdiv. apply Rmult_lt_compat_l; [lra|]. apply Rinv_lt_contravar; [apply Rmult_lt_0_compat; lra|lra]. }
  split; [unfold Rpower; apply exp_pos|apply Rlt_Rpower_l; lra].
Qed.
