(* C15 x adsorbate KINDS. The accessor-invariance theorems of Charact/Invariance.v quantify over an abstract adsorbate record
   (Units/AdsOracle.v) whose saturation pressure is a pascal value converted ONCE to the unit the converter asks for. Here that record is
   instantiated with the adsorbate BUILT FROM THE GENERATED property methods (Gen/AdsMethodsGen.v, translated from the bodies of
   Adsorbate.saturation_pressure, liquid_density, ... by tools/py2v_adsmethods.py; Registry/AdsMethods.v `ads_of`), for every kind of
   adsorbate: a backend that answers (whatever is stored beside it), no backend and a stored property, a backend that fails at the
   isotherm temperature and a stored property. A change of the method bodies that converts the stored value twice, or not at all, on
   one of these paths makes the translation or one of the proofs below fail. *)
From Coq Require Import Reals Lra QArith Qreals ZArith String List Bool.
From PG Require Import Lib.Num Lib.Py Lib.Tac Gen.UnitsGen1 Units.AdsOracle Gen.UnitsGen2 Units.UnitsSpec
  Units.C01Theorems Registry.Backend Gen.AdsMethodsGen Registry.AdsMethods Charact.Invariance.
Import ListNotations.
Open Scope string_scope.
Open Scope R_scope.
Local Notation QT := (@QT RNum).

Section Kinds.
Variable b : backend RNum.
Variable props : list (string * R).

(* where the pascal value of each kind comes from *)
Inductive psat_source (T psat : R) : Prop :=
| from_backend : b "p" (QT 0 T) = Some psat -> psat_source T psat                       (* 'backend' and 'both' *)
| from_dictionary : b "p" (QT 0 T) = None -> assoc "saturation_pressure" props = Some psat -> psat_source T psat.   (* 'stored', 'fallback' *)

Lemma psat_source_pascal T psat : psat_source T psat -> saturation_pressure RNum b props T None true = Ok psat.
Proof.
  destruct (methods_meet_spec b props) as (_ & _ & _ & _ & _ & H & _). rewrite H. unfold three_way.
  intros [Hb|Hb Hd]; rewrite Hb; [f_equal; lra|]. change (t RNum) with R in *. rewrite Hd. f_equal; lra.
Qed.

(* every kind: the value handed to the converter for unit u is the pascal value divided ONCE by the unit's pascal size *)
Theorem saturation_pressure_unit_by_kind T psat (u : punit) :
  psat_source T psat -> saturation_pressure RNum b props T (Some (punit_name u)) true = Ok (psat / pa_per u).
Proof. intro H. apply unit_argument_honoured. now apply psat_source_pascal. Qed.

(* what converter_mode.c_pressure reads from the model adsorbate IS the generated method, for every unit argument *)
Theorem converter_reads_generated_method T u :
  ads_saturation_pressure (ads_of b props) (Some T) u = saturation_pressure RNum b props T u true.
Proof. apply oracle_is_generated_method. Qed.

Lemma ads_of_psat T psat : saturation_pressure RNum b props T None true = Ok psat -> a_psat_Pa (ads_of b props) (Some T) = Some psat.
Proof. intro H. unfold ads_of, with_temp, r2o. cbn [a_psat_Pa]. now rewrite H. Qed.

(* accessor invariance for the adsorbate built from the generated methods, every kind *)
Theorem acquire_invariant_pressure_by_kind T psat : psat_source T psat -> 0 < psat -> T <> 0 ->
  forall (P : list R) (r rt : prep),
  acc_pressure RNum (p_mode r) (p_unit r) (ads_of b props) (Some T) (stored_p psat r P) (p_mode rt) (p_unit rt) = Ok (stored_p psat rt P).
Proof.
  intros Hs Hp HT P r rt. apply acquire_invariant_pressure; [|assumption|assumption].
  apply ads_of_psat. now apply psat_source_pascal.
Qed.
Theorem loading_at_argument_invariant_by_kind T psat : psat_source T psat -> 0 < psat -> T <> 0 ->
  forall p (r rt : prep),
  arg_pressure RNum (p_mode r) (p_unit r) (ads_of b props) (Some T) p (p_mode rt) (p_unit rt) = Ok (spec_conv (p_canon psat rt) (p_canon psat r) p).
Proof.
  intros Hs Hp HT p r rt. apply loading_at_argument_invariant; [|assumption|assumption].
  apply ads_of_psat. now apply psat_source_pascal.
Qed.
End Kinds.

(* the four kinds exist: backend answers (stored value ignored), no backend, failing backend *)
Example kinds_satisfiable :
  (exists b : backend RNum, psat_source b [("saturation_pressure", 98000)] 77 101325)
  /\ psat_source no_backend [("saturation_pressure", 98000)] 90 98000
  /\ (exists b : backend RNum, b "molar_mass" (@NoInput RNum) = Some 0.028 /\ psat_source b [("saturation_pressure", 98000)] 150 98000).
Proof.
  split; [|split].
  - exists (fun k _ => if String.eqb k "p" then Some 101325 else None). now apply from_backend.
  - now apply from_dictionary.
  - exists (fun k i => match i with Backend.NoInput => if String.eqb k "molar_mass" then Some 0.028 else None | _ => None end).
    split; [reflexivity|now apply from_dictionary].
Qed.
