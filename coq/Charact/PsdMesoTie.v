(* C16 / C15 - tie between the hand-written recurrences of Charact/PsdMeso.v (about which the theorems are proved) and the functions
   GENERATED from the bodies of psd_pygapsdh / psd_bjh / psd_dollimore_heal (Gen/PsdMesoGen.v, tools/py2v_psdmeso.py): they are EQUAL, for
   every carrier (reals for the theorems, floating point / rationals for the execution), every input list and every geometry string.
   Every step is closed by conversion: the generated stencils and let-chains unfold to the very arithmetic terms of the hand model, so a
   change of a formula, of the order of the operations, of what the loops carry or of what is returned makes these proofs fail; a statement
   the translator does not know (e.g. a masked assignment to one of the arrays) makes the translation fail. *)
From Coq Require Import QArith ZArith String List Bool.
From PG Require Import Lib.Num Lib.Py Charact.ListAux Charact.PsdMeso Gen.PsdMesoGen.
Import ListNotations.
Open Scope string_scope.

Section Tie.
Variable N : Num.

Lemma rows_step wf v1 t1 k1 v2 t2 k2 (r : list (trip N)) :
  rows N wf ((v1, (t1, k1)) :: (v2, (t2, k2)) :: r) =
  mkRow N (nsub v1 v2) (nsub t1 t2) (avg2 N t1 t2) (avg2 N (wf t1 k1) (wf t2 k2)) (avg2 N k1 k2) (nsub (wf t1 k1) (wf t2 k2))
  :: rows N wf ((v2, (t2, k2)) :: r).
Proof. reflexivity. Qed.

Lemma dh_run_eq c : forall l sac, dh_run N c l sac = dh_loop N c (rows N (width_of N) l) sac.
Proof.
  induction l as [|[v1 [t1 k1]] r IH]; intro sac; [reflexivity|].
  destruct r as [|[v2 [t2 k2]] r']; [reflexivity|].
  rewrite dh_run_step, IH, rows_step. reflexivity.
Qed.
Lemma dhl_run_eq : forall l saf s2pl, dhl_run N l saf s2pl = dhl_loop N (rows N (radius_of N) l) saf s2pl.
Proof.
  induction l as [|[v1 [t1 k1]] r IH]; intros saf s2pl; [reflexivity|].
  destruct r as [|[v2 [t2 k2]] r']; [reflexivity|].
  rewrite dhl_run_step, IH, rows_step. reflexivity.
Qed.
Lemma bjh_run_eq : forall l prev, bjh_run N l prev = bjh_loop N (rows N (radius_of N) l) prev.
Proof.
  induction l as [|[v1 [t1 k1]] r IH]; intro prev; [reflexivity|].
  destruct r as [|[v2 [t2 k2]] r']; [reflexivity|].
  rewrite bjh_run_step, IH, rows_step. reflexivity.
Qed.
Lemma dh_edges_eq : forall l, dh_edges_d_pore_widths N l = map r_dw (rows N (width_of N) l).
Proof.
  induction l as [|[v1 [t1 k1]] r IH]; [reflexivity|].
  destruct r as [|[v2 [t2 k2]] r']; [reflexivity|].
  rewrite dh_edges_step, IH, rows_step. reflexivity.
Qed.
Lemma bjh_edges_eq : forall l, bjh_edges_d_pore_radii N l = map r_dw (rows N (radius_of N) l).
Proof.
  induction l as [|[v1 [t1 k1]] r IH]; [reflexivity|].
  destruct r as [|[v2 [t2 k2]] r']; [reflexivity|].
  rewrite bjh_edges_step, IH, rows_step. reflexivity.
Qed.
Lemma dhl_edges_eq : forall l, dhl_edges_d_pore_radii N l = map r_dw (rows N (radius_of N) l).
Proof.
  induction l as [|[v1 [t1 k1]] r IH]; [reflexivity|].
  destruct r as [|[v2 [t2 k2]] r']; [reflexivity|].
  rewrite dhl_edges_step, IH, rows_step. reflexivity.
Qed.

Theorem psd_pygapsdh_gen_eq vol thick kr g : psd_pygapsdh_gen N vol thick kr g = psd_pygapsdh N vol thick kr g.
Proof.
  unfold psd_pygapsdh_gen, psd_pygapsdh. change (dh_c_length g) with (c_length g).
  destruct (c_length g) as [c|]; [|reflexivity].
  cbv zeta. rewrite dh_run_eq, dh_edges_eq. reflexivity.
Qed.
Theorem psd_bjh_gen_eq vol thick kr g : psd_bjh_gen N vol thick kr g = psd_bjh N vol thick kr g.
Proof.
  unfold psd_bjh_gen, psd_bjh. destruct (negb (g =? "cylinder")); [reflexivity|].
  cbv zeta. rewrite bjh_run_eq, bjh_edges_eq. reflexivity.
Qed.
Theorem psd_dollimore_heal_gen_eq vol thick kr g : psd_dollimore_heal_gen N vol thick kr g = psd_dollimore_heal N vol thick kr g.
Proof.
  unfold psd_dollimore_heal_gen, psd_dollimore_heal. destruct (negb (g =? "cylinder")); [reflexivity|].
  cbv zeta. rewrite dhl_run_eq, dhl_edges_eq. reflexivity.
Qed.
End Tie.

(* ---- the theorems of Charact/PsdMeso.v restated over the GENERATED functions *)
From Coq Require Import Reals.
From PG Require Import Charact.Ols.
Open Scope R_scope.
Theorem zero_thickness_volumes_gen (vol thick kr : list R) (g : string) (r : psd_result RNum) :
  zero_thick (desc RNum vol thick kr) ->
  (psd_pygapsdh_gen RNum vol thick kr g = Ok r \/ psd_bjh_gen RNum vol thick kr g = Ok r \/ psd_dollimore_heal_gen RNum vol thick kr g = Ok r) ->
  p_volumes r = rev (incr (desc RNum vol thick kr)) /\
  Rsum (p_volumes r) = match desc RNum vol thick kr with [] => 0 | x :: _ => fst x - fst (last (desc RNum vol thick kr) x) end.
Proof.
  rewrite psd_pygapsdh_gen_eq, psd_bjh_gen_eq, psd_dollimore_heal_gen_eq. apply zero_thickness_volumes.
Qed.
Theorem widths_are_2_r_plus_t_gen (vol thick kr : list R) (g : string) (r : psd_result RNum) :
  length vol = length thick -> length thick = length kr ->
  (psd_pygapsdh_gen RNum vol thick kr g = Ok r \/ psd_bjh_gen RNum vol thick kr g = Ok r \/ psd_dollimore_heal_gen RNum vol thick kr g = Ok r) ->
  p_widths r = removelast (map2 (fun t k => 2 * (t + k)) thick kr).
Proof.
  rewrite psd_pygapsdh_gen_eq, psd_bjh_gen_eq, psd_dollimore_heal_gen_eq. apply PsdMeso.widths_are_2_r_plus_t.
Qed.

(* ---- psd_mesoporous: the physical inputs of the Kelvin model are read from THIS call's isotherm (its temperature, its adsorbate's molar mass,
   liquid density and surface tension at that temperature, each through one assignment), and no function of psd_meso.py writes to anything
   that outlives the call. Both tables are GENERATED. *)
Lemma kelvin_inputs_documented_l :
  psd_mesoporous_kelvin_inputs =
    [("temperature", IsothermTemperature); ("liquid_density", AdsorbateMethodAtIsothermTemperature "liquid_density");
     ("adsorbate_molar_mass", AdsorbateMethod "molar_mass"); ("adsorbate_surface_tension", AdsorbateMethodAtIsothermTemperature "surface_tension")]%string.
Proof. reflexivity. Qed.
Lemma psd_meso_keeps_no_state_l : psd_meso_module_writes = [].
Proof. reflexivity. Qed.
