(* C18 - theorems about the glue model Charact/Kernel.v over the reals (RNum).
   SLSQP enters as the Section variable `solver` with the documented post-condition of a successful bounded
   minimisation (as many weights as kernel columns, each >= 0) as Section hypothesis; bspline (degree > 0) as the
   Section variable `spline` without any contract; the cubic interpolators are the functions stored in the kernel. *)
From Coq Require Import Reals Lra Lia QArith Qreals ZArith List Bool Arith.
From PG Require Import Lib.Num Lib.Py Charact.Kernel.
Import ListNotations.
Open Scope R_scope.

(* `t RNum` and `R` are convertible but not syntactically equal: normalise before calling lia *)
Ltac nr := change (t RNum) with R in *.
Ltac nring := nr; ring.
Ltac nlra := nr; lra.
Ltac nlia := change (t RNum) with R in *; lia.

Definition Rsum (l : list R) : R := fold_right Rplus 0 l.

Lemma kz_R : kz RNum = 0.
Proof. unfold kz; simpl. unfold Q2R; simpl; nlra. Qed.
Lemma vsum_R l : vsum RNum l = Rsum l.
Proof.
  unfold vsum, Rsum. induction l as [|x l IH]; [apply kz_R|].
  change (x + fold_right (@nadd RNum) (kz RNum) l = x + fold_right Rplus 0 l). f_equal. exact IH.
Qed.
Lemma Rsum_cons x l : Rsum (x :: l) = x + Rsum l.
Proof. reflexivity. Qed.

(* ---- lengths *)
Lemma vadd_length a : forall b, length (vadd RNum a b) = Nat.min (length a) (length b).
Proof. induction a; destruct b; simpl; auto. Qed.
Lemma vsub_length a : forall b, length (vsub RNum a b) = Nat.min (length a) (length b).
Proof. induction a; destruct b; simpl; auto. Qed.
Lemma vmul_length a : forall b, length (vmul RNum a b) = Nat.min (length a) (length b).
Proof. induction a; destruct b; simpl; auto. Qed.
Lemma vdiv_length a : forall b, length (vdiv RNum a b) = Nat.min (length a) (length b).
Proof. induction a; destruct b; simpl; auto. Qed.
Lemma diffs_length ws : forall prev, length (diffs RNum prev ws) = length ws.
Proof. induction ws; simpl; auto. Qed.
Lemma ediff_length ws : length (ediff1d_begin RNum ws) = length ws.
Proof. destruct ws; simpl; [reflexivity | rewrite diffs_length; reflexivity]. Qed.
Lemma cumsum_from_length l : forall acc, length (cumsum_from RNum acc l) = length l.
Proof. induction l; simpl; auto. Qed.
Lemma cumsum_length l : length (cumsum RNum l) = length l.
Proof. destruct l; simpl; [reflexivity | rewrite cumsum_from_length; reflexivity]. Qed.
Lemma kl_length n KP : Forall (fun K => length K = n) KP -> forall x, length (kernel_loading RNum n KP x) = n.
Proof.
  induction 1 as [|K KP HK HF IH]; intros x; simpl.
  - unfold zeros. apply repeat_length.
  - destruct x as [|xj x]; [unfold zeros; apply repeat_length|].
    rewrite vadd_length. unfold vscale. rewrite map_length, HK, IH. apply Nat.min_id.
Qed.

(* ---- the objective *)
Lemma sq_sum_nonneg d : 0 <= Rsum (vmul RNum d d).
Proof.
  induction d as [|x d IH]; [unfold Rsum; simpl; nlra|].
  change (0 <= x * x + Rsum (vmul RNum d d)). pose proof (Rle_0_sqr x) as H; unfold Rsqr in H. nlra.
Qed.
Lemma sq_self_zero a : Rsum (vmul RNum (vsub RNum a a) (vsub RNum a a)) = 0.
Proof.
  induction a as [|x a IH]; [reflexivity|].
  change ((x - x) * (x - x) + Rsum (vmul RNum (vsub RNum a a) (vsub RNum a a)) = 0). rewrite IH. nring.
Qed.
Lemma sq_zero_eq a : forall b, length a = length b ->
  Rsum (vmul RNum (vsub RNum a b) (vsub RNum a b)) = 0 -> a = b.
Proof.
  induction a as [|x a IH]; destruct b as [|y b]; simpl length; intros HL H0; try discriminate; [reflexivity|].
  change ((x - y) * (x - y) + Rsum (vmul RNum (vsub RNum a b) (vsub RNum a b)) = 0) in H0.
  pose proof (sq_sum_nonneg (vsub RNum a b)) as Hn.
  pose proof (Rle_0_sqr (x - y)) as Hs; unfold Rsqr in Hs.
  assert (Hx : (x - y) * (x - y) = 0) by nlra.
  assert (x = y) by (nr; nra). rewrite Hx, Rplus_0_l in H0. subst y. f_equal. apply IH; [simpl in HL; injection HL as HL; exact HL | exact H0].
Qed.
Lemma sq_bound d eps : Rsum (vmul RNum d d) <= eps -> Forall (fun u => u * u <= eps) d.
Proof.
  induction d as [|x d IH]; intros H; [constructor|].
  change (x * x + Rsum (vmul RNum d d) <= eps) in H. constructor.
  - pose proof (sq_sum_nonneg d). nlra.
  - apply IH. pose proof (Rle_0_sqr x) as Hs; unfold Rsqr in Hs. nlra.
Qed.

Lemma sum_squares_R n KP l x :
  sum_squares RNum n KP l x = Rsum (vmul RNum (vsub RNum (kernel_loading RNum n KP x) l) (vsub RNum (kernel_loading RNum n KP x) l)).
Proof. unfold sum_squares. apply vsum_R. Qed.

Lemma exact_combination_zero n KP w :
  sum_squares RNum n KP (kernel_loading RNum n KP w) w = 0.
Proof. rewrite sum_squares_R. apply sq_self_zero. Qed.
Lemma sum_squares_nonneg n KP l x : 0 <= sum_squares RNum n KP l x.
Proof. rewrite sum_squares_R. apply sq_sum_nonneg. Qed.
Lemma zero_residual_reproduces n KP l x :
  Forall (fun K => length K = n) KP -> length l = n ->
  sum_squares RNum n KP l x = 0 -> kernel_loading RNum n KP x = l.
Proof.
  intros HK HL H0. rewrite sum_squares_R in H0. apply sq_zero_eq; [|exact H0].
  rewrite kl_length by assumption. symmetry; assumption.
Qed.

Lemma exact_combination_minimiser n KP w :
  Forall (fun K => length K = n) KP -> length w = length KP -> Forall (Rle 0) w ->
  let l := kernel_loading RNum n KP w in
  sum_squares RNum n KP l w = 0 /\
  (forall x, 0 <= sum_squares RNum n KP l x) /\
  (forall x, (forall y, length y = length KP -> Forall (Rle 0) y -> sum_squares RNum n KP l x <= sum_squares RNum n KP l y) ->
             kernel_loading RNum n KP x = l).
Proof.
  intros HK HLw Hw l. split; [apply exact_combination_zero|]. split; [intro; apply sum_squares_nonneg|].
  intros x Hmin. apply zero_residual_reproduces; auto.
  - unfold l. apply kl_length; assumption.
  - pose proof (Hmin w HLw Hw) as H1. unfold l in H1 at 2. rewrite exact_combination_zero in H1.
    pose proof (sum_squares_nonneg n KP l x). nlra.
Qed.

Lemma residual_bound n KP l x eps :
  sum_squares RNum n KP l x <= eps ->
  Forall (fun u => u * u <= eps) (vsub RNum (kernel_loading RNum n KP x) l).
Proof. rewrite sum_squares_R. apply sq_bound. Qed.

(* ---- cumulative sums *)
Lemma Rsum_firstn_S (l : list R) : forall i, (i < length l)%nat -> Rsum (firstn (S i) l) = Rsum (firstn i l) + nth i l 0.
Proof.
  induction l as [|x l IH]; intros i Hi; simpl in Hi; [nlia|].
  destruct i as [|i].
  - simpl. unfold Rsum; simpl. nring.
  - change (firstn (S (S i)) (x :: l)) with (x :: firstn (S i) l).
    change (firstn (S i) (x :: l)) with (x :: firstn i l).
    rewrite !Rsum_cons. rewrite IH by nlia. simpl. nring.
Qed.
Lemma cumsum_from_nth l : forall acc i, (i < length l)%nat ->
  nth i (cumsum_from RNum acc l) 0 = acc + Rsum (firstn (S i) l).
Proof.
  induction l as [|x l IH]; intros acc i Hi; simpl in Hi; [nlia|].
  destruct i as [|i].
  - unfold Rsum; simpl. nring.
  - change (nth (S i) (cumsum_from RNum acc (x :: l)) 0) with (nth i (cumsum_from RNum (acc + x) l) 0).
    change (firstn (S (S i)) (x :: l)) with (x :: firstn (S i) l).
    rewrite Rsum_cons. rewrite IH by nlia. nring.
Qed.
Lemma cumsum_nth l i : (i < length l)%nat -> nth i (cumsum RNum l) 0 = Rsum (firstn (S i) l).
Proof.
  destruct l as [|x l]; simpl; intros Hi; [nlia|].
  destruct i as [|i].
  - unfold Rsum; simpl. nring.
  - rewrite cumsum_from_nth by nlia. destruct l; reflexivity.
Qed.

Lemma cumsum_step l i : (S i < length l)%nat ->
  nth (S i) (cumsum RNum l) 0 = nth i (cumsum RNum l) 0 + nth (S i) l 0.
Proof. intros Hi. rewrite !cumsum_nth by nlia. apply Rsum_firstn_S. exact Hi. Qed.

Lemma Forall_nth_nonneg (l : list R) : Forall (Rle 0) l -> forall i, 0 <= nth i l 0.
Proof.
  induction 1 as [|x l Hx HF IH]; intros i; destruct i; simpl; try nlra; auto.
Qed.
Lemma cumsum_monotone l : Forall (Rle 0) l -> forall i, (S i < length l)%nat ->
  nth i (cumsum RNum l) 0 <= nth (S i) (cumsum RNum l) 0.
Proof. intros HF i Hi. rewrite cumsum_step by exact Hi. pose proof (Forall_nth_nonneg l HF (S i)). nlra. Qed.

(* ---- widths *)
Fixpoint asc_from (prev : R) (ws : list R) : Prop :=
  match ws with [] => True | w :: r => prev <= w /\ asc_from w r end.
Fixpoint sasc_from (prev : R) (ws : list R) : Prop :=
  match ws with [] => True | w :: r => prev < w /\ sasc_from w r end.
(* widths start at a non-negative / positive value and do not decrease / strictly increase *)
Definition widths_nondecreasing (ws : list R) : Prop := asc_from 0 ws.
Definition widths_increasing (ws : list R) : Prop := sasc_from 0 ws.

Lemma diffs_nonneg ws : forall prev, asc_from prev ws -> Forall (Rle 0) (diffs RNum prev ws).
Proof. induction ws as [|w r IH]; simpl; intros prev H; constructor; [nlra | apply IH; tauto]. Qed.
Lemma diffs_pos ws : forall prev, sasc_from prev ws -> Forall (Rlt 0) (diffs RNum prev ws).
Proof. induction ws as [|w r IH]; simpl; intros prev H; constructor; [nlra | apply IH; tauto]. Qed.
Lemma ediff_nonneg ws : widths_nondecreasing ws -> Forall (Rle 0) (ediff1d_begin RNum ws).
Proof. unfold widths_nondecreasing. destruct ws as [|w r]; simpl; intros H; constructor; [tauto | apply diffs_nonneg; tauto]. Qed.
Lemma ediff_pos ws : widths_increasing ws -> Forall (Rlt 0) (ediff1d_begin RNum ws).
Proof. unfold widths_increasing. destruct ws as [|w r]; simpl; intros H; constructor; [tauto | apply diffs_pos; tauto]. Qed.

Lemma vmul_nonneg a : forall b, Forall (Rle 0) a -> Forall (Rle 0) b -> Forall (Rle 0) (vmul RNum a b).
Proof.
  induction a as [|x a IH]; destruct b as [|y b]; simpl; intros Ha Hb; try constructor.
  - inversion Ha; inversion Hb; subst. apply Rmult_le_pos; assumption.
  - inversion Ha; inversion Hb; subst. apply IH; assumption.
Qed.
Lemma vdiv_nonneg a : forall b, Forall (Rle 0) a -> Forall (Rlt 0) b -> Forall (Rle 0) (vdiv RNum a b).
Proof.
  induction a as [|x a IH]; destruct b as [|y b]; simpl; intros Ha Hb; try constructor.
  - inversion Ha; inversion Hb; subst. unfold Rdiv. apply Rmult_le_pos; [assumption|]. left. apply Rinv_0_lt_compat. assumption.
  - inversion Ha; inversion Hb; subst. apply IH; assumption.
Qed.
Lemma vmul_vdiv a : forall b, length a = length b -> Forall (Rlt 0) b -> vmul RNum (vdiv RNum a b) b = a.
Proof.
  induction a as [|x a IH]; destruct b as [|y b]; simpl; intros HL Hb; try discriminate; [reflexivity|].
  inversion Hb; subst. f_equal; [nr; field; nlra | apply IH; [nlia | assumption]].
Qed.

(* ---- interpolators and refusal *)
Lemma mapM_length {A B} (f : A -> res B) l : forall r, mapM f l = Ok r -> length r = length l.
Proof.
  induction l as [|a l IH]; simpl; intros r H; [inversion H; reflexivity|].
  destruct (f a); simpl in H; [|discriminate]. destruct (mapM f l) eqn:E; simpl in H; [|discriminate].
  inversion H; subst. simpl. f_equal. apply IH. reflexivity.
Qed.
Lemma kernel_points_ok (k : kernel RNum) ps KP : kernel_points RNum k ps = Ok KP ->
  length KP = length k /\ Forall (fun K => length K = length ps) KP.
Proof.
  unfold kernel_points. destruct (mapM _ k) as [r|e] eqn:E; [|destruct e; discriminate].
  intros H; inversion H; subst. split; [eapply mapM_length; exact E|].
  clear H. revert KP E. induction k as [|c k IH]; simpl; intros KP E; [inversion E; constructor|].
  match type of E with bind ?m _ = _ => destruct m eqn:E1 end; simpl in E; [|discriminate].
  match type of E with bind ?m _ = _ => destruct m eqn:E2 end; simpl in E; [|discriminate]. inversion E; subst.
  constructor; [eapply mapM_length; exact E1 | apply IH; exact E2].
Qed.
Lemma mapM_refuse {A B} (f : A -> res B) (l : list A) p :
  (forall q, In q l -> (exists v, f q = Ok v) \/ f q = Err ValueError) ->
  In p l -> f p = Err ValueError -> mapM f l = Err ValueError.
Proof.
  induction l as [|a l IH]; simpl; intros Hall Hin Hp; [contradiction|].
  destruct (Hall a (or_introl eq_refl)) as [[v Hv]|Hv]; rewrite Hv; simpl; [|reflexivity].
  destruct Hin as [->|Hin]; [congruence|].
  rewrite IH; auto.
Qed.

(* every interpolator of the kernel answers inside the range `inr` and raises ValueError outside *)
Definition range_contract (inr : R -> bool) (k : kernel RNum) : Prop :=
  forall c, In c k -> forall q, (inr q = true -> exists v, snd c q = Ok v) /\ (inr q = false -> snd c q = Err ValueError).

Lemma ranged_contract lo hi (cols : list (R * (R -> R))) :
  range_contract (fun q => Rleb lo q && Rleb q hi) (map (fun c => (fst c, ranged RNum lo hi (snd c))) cols).
Proof.
  intros c Hin q. apply in_map_iff in Hin. destruct Hin as [c0 [<- _]]. simpl. unfold ranged. simpl.
  split; intros H; rewrite H; eauto.
Qed.

Lemma kernel_points_refuse inr (k : kernel RNum) ps p :
  k <> [] -> range_contract inr k -> In p ps -> inr p = false -> kernel_points RNum k ps = Err CalculationError.
Proof.
  intros Hk Hc Hin Hp. destruct k as [|c k]; [congruence|]. unfold kernel_points. simpl.
  assert (E : @mapM (t RNum) (t RNum) (snd c) ps = Err ValueError); [|]. 2:{ nr. rewrite E; reflexivity. }
  apply (mapM_refuse _ _ p); [ | exact Hin | ].
  - intros q _. destruct (Hc c (or_introl eq_refl) q) as [H1 H2]. destruct (inr q); [left; auto | right; auto].
  - apply (Hc c (or_introl eq_refl) p). exact Hp.
Qed.

(* ---- the limit window *)
Definition head_ge (v : R) (l : list R) : Prop := match l with [] => True | x :: _ => v <= x end.
Lemma count_lt_all v pre rest : Forall (fun p => p < v) pre -> count_lt RNum v (pre ++ rest) = (length pre + count_lt RNum v rest)%nat.
Proof.
  induction 1 as [|x pre Hx HF IH]; simpl; [reflexivity|].
  replace (Rltb x v) with true by (symmetry; apply Rltb_true; exact Hx). rewrite IH. reflexivity.
Qed.
Lemma count_lt_head v l : head_ge v l -> count_lt RNum v l = 0%nat.
Proof.
  destruct l as [|x l]; simpl; intros H; [reflexivity|].
  replace (Rltb x v) with false; [reflexivity|]. symmetry. apply Rltb_false. nlra.
Qed.
Lemma slice_mid {A} (pre mid post : list A) :
  slice (Z.of_nat (length pre)) (Z.of_nat (length pre + length mid) - 1) (pre ++ mid ++ post) = mid.
Proof.
  unfold slice. replace (Z.to_nat (Z.of_nat (length pre + length mid) - 1 + 1)) with (length pre + length mid)%nat by nlia.
  rewrite Nat2Z.id. rewrite app_assoc. rewrite firstn_app.
  replace (length pre + length mid - length (pre ++ mid))%nat with 0%nat by (rewrite app_length; nlia).
  rewrite firstn_O, app_nil_r. rewrite firstn_all2 by (rewrite app_length; nlia).
  rewrite skipn_app. rewrite skipn_all, Nat.sub_diag. reflexivity.
Qed.
Lemma slice_mid' {A} a b (pre mid post : list A) : a = length pre -> b = length mid ->
  slice (Z.of_nat a) (Z.of_nat (a + b) - 1) (pre ++ mid ++ post) = mid.
Proof. intros -> ->. apply slice_mid. Qed.
Lemma limit_truthy_R v : v <> 0 -> limit_truthy RNum (Some v) = true.
Proof.
  intros H. unfold limit_truthy.
  assert (E : @neqb RNum v (kz RNum) = false).
  { change (Reqb v (kz RNum) = false). apply Reqb_false. rewrite kz_R. exact H. }
  rewrite E. reflexivity.
Qed.

Section WithOracles.
  Variable solver : list (list R) -> list R -> res (list R).
  Variable spline : nat -> list R -> list R -> list R * list R.
  (* documented post-condition of a successful SLSQP run with bounds (0, None) on every variable *)
  Hypothesis solver_post : forall KP l x, solver KP l = Ok x -> length x = length KP /\ Forall (Rle 0) x.

  Let fit := kernel_fit RNum solver spline.
  Let psd := psd_dft RNum solver spline.

  Lemma fit_inv k ps ls deg o : fit k ps ls deg = Ok o ->
    exists KP x, kernel_points RNum k ps = Ok KP /\ solver KP ls = Ok x /\
      bspline RNum spline (map fst k) (vdiv RNum x (ediff1d_begin RNum (map fst k))) deg = Ok (o_widths o, o_dist o) /\
      o_cum o = cumsum RNum (vmul RNum (o_dist o) (ediff1d_begin RNum (o_widths o))) /\
      o_kl o = kernel_loading RNum (length ps) KP x.
  Proof.
    unfold fit, kernel_fit. destruct (length ps =? 0)%nat; [discriminate|].
    destruct (negb _); [discriminate|].
    destruct (kernel_points RNum k ps) as [KP|] eqn:EK; simpl; [|discriminate].
    destruct (solver KP ls) as [x|] eqn:ES; simpl; [|discriminate].
    destruct (bspline _ _ _ _ _) as [[w2 d2]|] eqn:EB; simpl; [|discriminate].
    intros H; inversion H; subst; simpl. exists KP, x. repeat split; auto.
  Qed.

  Theorem fitted_is_kernel_combination k ps ls deg o : fit k ps ls deg = Ok o ->
    exists KP x, kernel_points RNum k ps = Ok KP /\ solver KP ls = Ok x /\
      length x = length k /\ Forall (Rle 0) x /\
      o_kl o = kernel_loading RNum (length ps) KP x /\
      (deg = 0%nat -> widths_increasing (map fst k) ->
         o_widths o = map fst k /\ Forall (Rle 0) (o_dist o) /\
         vmul RNum (o_dist o) (ediff1d_begin RNum (o_widths o)) = x /\
         o_kl o = kernel_loading RNum (length ps) KP (vmul RNum (o_dist o) (ediff1d_begin RNum (o_widths o)))).
  Proof.
    intros H. destruct (fit_inv _ _ _ _ _ H) as [KP [x [EK [ES [EB [EC EL]]]]]].
    destruct (solver_post _ _ _ ES) as [HLx Hx]. destruct (kernel_points_ok _ _ _ EK) as [HLK _].
    exists KP, x. split; [exact EK|]. split; [exact ES|]. assert (HLxk : length x = length k) by (etransitivity; [exact HLx | exact HLK]). split; [exact HLxk|]. split; [exact Hx|]. split; [exact EL|].
    intros -> Hw. unfold bspline in EB. destruct (negb _); [discriminate|]. simpl in EB. inversion EB as [[E1 E2]].
    assert (Hpos := ediff_pos _ Hw).
    assert (HL2 : length x = length (ediff1d_begin RNum (map fst k))) by (rewrite ediff_length, map_length; exact HLxk).
    split; [reflexivity|]. split; [apply vdiv_nonneg; assumption|].
    rewrite vmul_vdiv by assumption. split; [reflexivity | rewrite <- EL; reflexivity].
  Qed.

  Theorem cumulative_is_running_integral k ps ls deg o : fit k ps ls deg = Ok o ->
    length (o_cum o) = Nat.min (length (o_dist o)) (length (o_widths o)) /\
    forall i, (i < length (o_cum o))%nat ->
      nth i (o_cum o) 0 = Rsum (firstn (S i) (vmul RNum (o_dist o) (ediff1d_begin RNum (o_widths o)))).
  Proof.
    intros H. destruct (fit_inv _ _ _ _ _ H) as [KP [x [_ [_ [_ [EC _]]]]]]. rewrite EC.
    rewrite cumsum_length, vmul_length, ediff_length. split; [reflexivity|].
    intros i Hi. apply cumsum_nth. rewrite vmul_length, ediff_length. exact Hi.
  Qed.

  Theorem cumulative_monotone_if_nonneg k ps ls deg o : fit k ps ls deg = Ok o ->
    Forall (Rle 0) (o_dist o) -> widths_nondecreasing (o_widths o) ->
    forall i, (S i < length (o_cum o))%nat -> nth i (o_cum o) 0 <= nth (S i) (o_cum o) 0.
  Proof.
    intros H Hd Hw i Hi. destruct (fit_inv _ _ _ _ _ H) as [KP [x [_ [_ [_ [EC _]]]]]]. rewrite EC in *.
    apply cumsum_monotone; [|rewrite cumsum_length in Hi; exact Hi].
    apply vmul_nonneg; [assumption | apply ediff_nonneg; assumption].
  Qed.

  Lemma sasc_asc ws : forall prev, sasc_from prev ws -> asc_from prev ws.
  Proof. induction ws; simpl; intros prev H; [exact I | split; [nlra | apply IHws; tauto]]. Qed.

  Theorem degree0_cumulative_is_weight_sum k ps ls o : fit k ps ls 0%nat = Ok o -> widths_increasing (map fst k) ->
    exists KP x, kernel_points RNum k ps = Ok KP /\ solver KP ls = Ok x /\ o_cum o = cumsum RNum x /\
      length (o_cum o) = length k /\
      (forall i, (i < length k)%nat -> nth i (o_cum o) 0 = Rsum (firstn (S i) x)) /\
      (forall i, (S i < length k)%nat -> nth i (o_cum o) 0 <= nth (S i) (o_cum o) 0).
  Proof.
    intros H Hw. destruct (fitted_is_kernel_combination _ _ _ _ _ H) as [KP [x [EK [ES [HL [Hx [_ H0]]]]]]].
    destruct (H0 eq_refl Hw) as [EW [Hd [EX _]]].
    destruct (fit_inv _ _ _ _ _ H) as [KP' [x' [_ [_ [_ [EC _]]]]]].
    exists KP, x. rewrite EC, EX. rewrite cumsum_length. repeat split; auto.
    - intros i Hi. apply cumsum_nth. nlia.
    - intros i Hi. apply cumsum_monotone; [assumption | nlia].
  Qed.

  Theorem out_of_range_refused inr k ps ls deg p :
    k <> [] -> range_contract inr k -> length ps = length ls -> In p ps -> inr p = false ->
    fit k ps ls deg = Err CalculationError.
  Proof.
    intros Hk Hc HL Hin Hp. unfold fit, kernel_fit.
    destruct ps as [|p0 ps]; [contradiction|]. simpl (length (p0 :: ps) =? 0)%nat. cbv iota.
    rewrite <- HL, Nat.eqb_refl. simpl negb. cbv iota.
    rewrite (kernel_points_refuse inr k (p0 :: ps) p); auto.
  Qed.

  (* the window: everything before the first point >= lo and from the first point >= hi on is cut away *)
  Theorem only_window_influences k pre mid post lpre lmid lpost lo hi deg :
    length lpre = length pre -> length lmid = length mid ->
    lo <> 0 -> hi <> 0 -> lo <= hi ->
    Forall (fun p => p < lo) pre -> Forall (fun p => lo <= p < hi) mid -> head_ge hi post ->
    psd k (pre ++ mid ++ post) (lpre ++ lmid ++ lpost) (Some lo) (Some hi) deg =
      if (length mid <? 3)%nat then Err CalculationError
      else res_map (fun o => (o, (Z.of_nat (length pre), Z.of_nat (length pre + length mid) - 1)%Z)) (fit k mid lmid deg).
  Proof.
    intros HLp HLm Hlo Hhi Hle Hpre Hmid Hpost. unfold psd, psd_dft.
    assert (Emn : lim_min RNum (Some lo) (pre ++ mid ++ post) = Z.of_nat (length pre)).
    { unfold lim_min. rewrite limit_truthy_R by assumption. rewrite count_lt_all by assumption.
      rewrite count_lt_head; [f_equal; nlia|].
      destruct mid as [|m mid]; simpl.
      - destruct post; simpl in *; [exact I | nlra].
      - inversion Hmid; subst. nlra. }
    assert (Emx : lim_max RNum (Some hi) (pre ++ mid ++ post) = (Z.of_nat (length pre + length mid) - 1)%Z).
    { unfold lim_max. rewrite limit_truthy_R by assumption. rewrite app_assoc. rewrite count_lt_all.
      - rewrite count_lt_head by assumption. rewrite app_length. f_equal. nlia.
      - apply Forall_app. split.
        + eapply Forall_impl; [|exact Hpre]. simpl; intros; nlra.
        + eapply Forall_impl; [|exact Hmid]. simpl; intros; nlra. }
    rewrite Emn, Emx.
    replace (Z.of_nat (length pre + length mid) - 1 - Z.of_nat (length pre) <? 2)%Z with (length mid <? 3)%nat.
    2:{ destruct (Nat.ltb_spec (length mid) 3); symmetry; [apply Z.ltb_lt | apply Z.ltb_ge]; nlia. }
    destruct (length mid <? 3)%nat; [reflexivity|].
    rewrite (slice_mid' _ _ pre mid post) by reflexivity.
    rewrite (slice_mid' _ _ lpre lmid lpost) by (symmetry; assumption). reflexivity.
  Qed.

  (* no limits given: the whole isotherm is the window *)
  Theorem no_limits_whole_isotherm k ps ls deg : length ls = length ps ->
    psd k ps ls None None deg =
      if (length ps <? 3)%nat then Err CalculationError
      else res_map (fun o => (o, (0, Z.of_nat (length ps) - 1)%Z)) (fit k ps ls deg).
  Proof.
    intros HL. unfold psd, psd_dft. simpl lim_min. simpl lim_max. nr.
    replace (Z.of_nat (length ps) - 1 - 0 <? 2)%Z with (length ps <? 3)%nat.
    2:{ destruct (Nat.ltb_spec (length ps) 3); symmetry; [apply Z.ltb_lt | apply Z.ltb_ge]; nlia. }
    destruct (length ps <? 3)%nat; [reflexivity|].
    unfold slice. replace (Z.to_nat (Z.of_nat (length ps) - 1 + 1)) with (length ps) by nlia. simpl skipn.
    rewrite firstn_all. rewrite <- HL, firstn_all. reflexivity.
  Qed.
End WithOracles.

(* ---- the hypotheses are satisfiable: a solver obeying the post-condition, a two-column kernel with ranged
   interpolators, a fit that succeeds, and a refused pressure *)
Definition demo_solver (KP : list (list R)) (l : list R) : res (list R) := Ok (map (fun _ => 1) KP).
Lemma demo_solver_post : forall KP l x, demo_solver KP l = Ok x -> length x = length KP /\ Forall (Rle 0) x.
Proof.
  unfold demo_solver. intros KP l x H; inversion H; subst. split; [apply map_length|].
  apply Forall_forall. intros y Hy. apply in_map_iff in Hy. destruct Hy as [_ [<- _]]. nlra.
Qed.
Definition demo_kernel : kernel RNum := [(1, fun p => Ok p); (3, fun p => Ok (2 * p))].
Lemma demo_fit_succeeds spline :
  exists o, kernel_fit RNum demo_solver spline demo_kernel [1; 2; 3] [3; 6; 9] 0%nat = Ok o /\ o_widths o = [1; 3] /\ length (o_cum o) = 2%nat.
Proof. eexists. split; [reflexivity|]. split; reflexivity. Qed.
Lemma demo_widths : widths_increasing (map fst demo_kernel).
Proof. unfold widths_increasing. simpl. lra. Qed.
