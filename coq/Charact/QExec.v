(* Execution of the characterisation models on rationals (correspondence with the implementation):
   the implementation's floats come in as (mantissa, exponent) pairs and are compared INSIDE Coq; only small
   integers are printed. *)
From Coq Require Import QArith Qabs ZArith String List Bool.
From PG Require Import Lib.Num Lib.Py Lib.Show Gen.CharactGen Charact.Ols Charact.Window Charact.ListAux Charact.BetLang.
Import ListNotations.
Open Scope Z_scope.

(* Carrier for execution: binary floating point with a 256-bit mantissa, represented as rationals m / 2^k.
   The implementation's numbers are binary64 values; the transforms divide (p / (n (1 - p))), so exact rational arithmetic
   makes a 50-point regression reach 10^5..10^6-bit numbers (measured: > 60 s per case). Here every operation is computed
   exactly and then rounded (towards -infinity) to 256 significant bits: relative error 2^-256 per operation, against a
   comparison tolerance of 1e-7. Sums and products of the (53-bit) inputs themselves are exact, so the window decisions
   (pressure against limit, successive n(1-p)) are exact. Same model definitions as for RNum / QNum, different record. *)
Fixpoint strip2 (a b : positive) : positive * positive :=
  match a, b with xO a', xO b' => strip2 a' b' | _, _ => (a, b) end.
Definition norm2 (q : Q) : Q :=
  match Qnum q with
  | Z0 => 0%Q
  | Zpos a => let '(a', d') := strip2 a (Qden q) in (Zpos a' # d')%Q
  | Zneg a => let '(a', d') := strip2 a (Qden q) in (Zneg a' # d')%Q end.
Definition pow2 (k : Z) : positive := Pos.shiftl 1 (Z.to_N k).
(* q = n / 2^k (results of + - * on rounded values): keep the 256 leading bits of n *)
Definition rnd_dy (q : Q) : Q :=
  match Qnum q with
  | Z0 => 0%Q
  | n => let sh := Z.log2 (Z.abs n) - 256 in
         if sh <=? 0 then norm2 q else
         let k := Z.log2 (Zpos (Qden q)) in
         if sh <=? k then norm2 (Z.shiftr n sh # pow2 (k - sh))%Q else (Z.shiftl (Z.shiftr n sh) (sh - k) # 1)%Q end.
(* any rational (results of / and the literals): quotient to 256 significant bits *)
Definition rnd (q : Q) : Q :=
  match Qnum q with
  | Z0 => 0%Q
  | n => let s := Z.max 0 (256 + Z.log2 (Zpos (Qden q)) - Z.log2 (Z.abs n)) in
         norm2 (Z.shiftl n s / Zpos (Qden q) # pow2 s)%Q end.
Definition DNum : Num :=
  mkNum Q rnd (fun a b => rnd_dy (a + b)%Q) (fun a b => rnd_dy (a - b)%Q) (fun a b => rnd_dy (a * b)%Q) (fun a b => rnd (a / b)%Q)
        Qopp (fun a => rnd (/ a)%Q) Qeq_bool Qltb Qle_bool.

(* square root to 20 decimal digits (only bet_parameters' p_monolayer needs it) *)
Definition qsqrt (q : Q) : Q :=
  if Qle_bool q 0 then 0%Q else
  (Z.sqrt (Qnum q * 10 ^ 40 / Zpos (Qden q)) # 100000000000000000000)%Q.

Definition flq (x : Z * Z) : Q := fl (fst x) (snd x).
(* relative tn/td OR absolute an/ad *)
Definition close_ra (tn td an ad : Z) (q p : Q) : bool :=
  close_q tn td q p || Qle_bool (Qabs (q - p) * inject_Z ad) (inject_Z an).
Definition b2z (b : bool) : Z := if b then 1 else 0.
Definition qsign (q : Q) : Z := if Qle_bool q 0 then (if Qeq_bool q 0 then 0 else -1) else 1.

Definition mkfl (l : list (Z * Z)) : list Q := map flq l.
Definition olim (b : bool) (x : Z * Z) : option Q := if b then Some (flq x) else None.

(* impl = [area; c; nm; pm; slope; intercept; r] ; -> (model code, values agree, model min, model max) *)
Definition bet_cmp (tn td : Z) (r : res (bet_result DNum)) (oc : Z) (impl : list (Z * Z)) : Z * Z * Z * Z :=
  match r with
  | Err e => (exn_code e, b2z (oc =? exn_code e), 0, 0)
  | Ok b =>
    match mkfl impl with
    | [a; c; nm; pm; s; i; rr] =>
      (0, b2z ((oc =? 0) && close_q tn td (b_area b) a && close_q tn td (b_c b) c && close_q tn td (b_nm b) nm
               && (Qle_bool (b_c b) 0 || close_q tn td (b_pm b) pm)
               && close_q tn td (b_slope b) s && close_q tn td (b_intercept b) i
               && close_ra tn td 1 1000000000 (b_rsq b) (rr * rr)),
       fst (b_window b), snd (b_window b))
    | _ => (0, 0, 0, 0) end end.
(* impl = [area; k; nm; slope; intercept; r] *)
Definition lang_cmp (tn td : Z) (r : res (lang_result DNum)) (oc : Z) (impl : list (Z * Z)) : Z * Z * Z * Z :=
  match r with
  | Err e => (exn_code e, b2z (oc =? exn_code e), 0, 0)
  | Ok b =>
    match mkfl impl with
    | [a; k; nm; s; i; rr] =>
      (0, b2z ((oc =? 0) && close_q tn td (l_area b) a && close_q tn td (l_k b) k && close_q tn td (l_nm b) nm
               && close_q tn td (l_slope b) s && close_q tn td (l_intercept b) i
               && close_ra tn td 1 1000000000 (l_rsq b) (rr * rr)),
       fst (l_window b), snd (l_window b))
    | _ => (0, 0, 0, 0) end end.
Definition lims (use : bool) (blo bhi : bool) (lo hi : Z * Z) : option (option Q * option Q) :=
  if use then Some (olim blo lo, olim bhi hi) else None.
Definition bet_case (tn td : Z) (p l : list (Z * Z)) (cs : Z * Z) (use blo bhi : bool) (lo hi : Z * Z) (oc : Z) (impl : list (Z * Z)) :=
  bet_cmp tn td (area_BET_raw DNum qsqrt (mkfl p) (mkfl l) (flq cs) (lims use blo bhi lo hi)) oc impl.
Definition lang_case (tn td : Z) (p l : list (Z * Z)) (cs : Z * Z) (use blo bhi : bool) (lo hi : Z * Z) (oc : Z) (impl : list (Z * Z)) :=
  lang_cmp tn td (area_langmuir_raw DNum (mkfl p) (mkfl l) (flq cs) (lims use blo bhi lo hi)) oc impl.

(* ---- t-plot / alpha-s: impl = [slope; intercept; r; volume; area]; -> (model code: 0 Ok-Some, 20 Ok-None, exn; agree) *)
From PG Require Import Charact.TPlot Charact.DrDa.
Definition natsZ (l : list nat) : list Z := map Z.of_nat l.
Fixpoint zlist_eqb (a b : list Z) : bool :=
  match a, b with [], [] => true | x :: a', y :: b' => (x =? y) && zlist_eqb a' b' | _, _ => false end.
Definition tp_cmp (tn td : Z) (r : option (tp_result DNum)) (has : bool) (impl : list (Z * Z)) (sec : list Z) : Z * Z :=
  match r with
  | None => (20, b2z (negb has))
  | Some t =>
    match mkfl impl with
    | [s; i; rr; v; a] =>
      (0, b2z (has && close_q tn td (tp_slope t) s && close_ra tn td 1 1000000000000 (tp_intercept t) i
               && close_ra tn td 1 1000000000 (tp_rsq t) (rr * rr)
               && close_ra tn td 1 1000000000000 (tp_volume t) v && close_q tn td (tp_area t) a
               && zlist_eqb (natsZ (tp_section t)) sec))
    | _ => (0, 0) end end.
Definition tplot_case (tn td : Z) (ls ts : list (Z * Z)) (rho M lo hi : Z * Z) (oc : Z) (has : bool) (impl : list (Z * Z)) (sec : list Z) : Z * Z :=
  match t_plot_raw DNum (mkfl ls) (mkfl ts) (flq rho) (flq M) (flq lo) (flq hi) with
  | Err e => (exn_code e, b2z (oc =? exn_code e))
  | Ok r => let '(c, a) := tp_cmp tn td r has impl sec in (c, if oc =? 0 then a else 0) end.
Definition alphas_case (tn td : Z) (ls refl : list (Z * Z)) (apt aref rho M lo hi : Z * Z) (oc : Z) (has : bool)
           (impl : list (Z * Z)) (sec : list Z) (curve : list (Z * Z)) : Z * Z :=
  match alpha_s_raw DNum (mkfl ls) (mkfl refl) (flq apt) (flq aref) (flq rho) (flq M) (flq lo) (flq hi) with
  | Err e => (exn_code e, b2z (oc =? exn_code e))
  | Ok (r, c) => let '(k, a) := tp_cmp tn td r has impl sec in
                 (k, if (oc =? 0) && all_close tn td c curve then a else 0) end.

(* ---- DR / DA: the window and the regression are rational once the implementation's own log arrays are passed in;
   impl = [slope; intercept; r]; -> (model code, agree, min, max) *)
Definition da_case (tn td : Z) (p : list (Z * Z)) (use blo bhi : bool) (lo hi : Z * Z) (xs ys : list (Z * Z)) (oc : Z) (impl : list (Z * Z))
  : Z * Z * Z * Z :=
  match check3 (da_window_of DNum (mkfl p) (lims use blo bhi lo hi)) with
  | Err e => (exn_code e, b2z (oc =? exn_code e), 0, 0)
  | Ok w =>
    let f := ols DNum (mkfl xs) (mkfl ys) in
    match mkfl impl with
    | [s; i; rr] => (0, b2z ((oc =? 0) && close_q tn td (slope f) s && close_ra tn td 1 1000000000000 (intercept f) i
                             && close_ra tn td 1 1000000000 (rsq f) (rr * rr)
                             && (Z.of_nat (length xs) =? snd w + 1 - fst w)), fst w, snd w)
    | _ => (0, 0, 0, 0) end end.

