(* C17 - small library the GENERATED Horvath-Kawazoe model (Gen/HkGen.v, tools/py2v_hk.py) is written in:
   integer powers over a carrier, and the meaning given to the numpy idioms of the post-processing tail
   (x[:-1], x[1:], numpy.add, numpy.diff, element-wise array arithmetic).  These list combinators are the hand-written
   part of the tie; the check compares them with numpy on the implementation's own arrays on every run (c17.py). *)
From Coq Require Import Reals Lra QArith List Arith Lia.
From PG Require Import Lib.Num.
Import ListNotations.

Section HkLib.
Variable N : Num.

Fixpoint npow (x : N) (n : nat) : N :=
  match n with O => nofQ (1 # 1) | S O => x | S m => nmul x (npow x m) end.

(* numpy element-wise binary operation on two arrays of EQUAL length (numpy raises on a shape mismatch: the
   generated definedness predicate asks for equal lengths) *)
Fixpoint amap2 (f : N -> N -> N) (a b : list N) : list N :=
  match a, b with
  | x :: a', y :: b' => f x y :: amap2 f a' b'
  | _, _ => [] end.

(* numpy.diff *)
Fixpoint adiff (a : list N) : list N :=
  match a with
  | x :: ((y :: _) as r) => nsub y x :: adiff r
  | _ => [] end.

(* x[:-1] *)
Definition but_last (a : list N) : list N := removelast a.
(* x[1:] *)
Definition from_1 (a : list N) : list N := tl a.
(* x[slice(0, n)] *)
Definition upto (n : nat) (a : list N) : list N := firstn n a.

(* the loop of _solve_hk / _solve_hk_cy around the scalar minimiser: one solve per point, the loop stops after the
   first solution that exceeds p_w_max (that solution is kept) *)
Fixpoint solve_loop {A : Type} (sol : A -> N) (p_w_max : N) (pts : list A) : list N :=
  match pts with
  | [] => []
  | p :: r => let x := sol p in x :: (if nltb p_w_max x then [] else solve_loop sol p_w_max r) end.
End HkLib.

Arguments npow {_} _ _. Arguments amap2 {_} _ _ _. Arguments adiff {_} _.
Arguments but_last {_} _. Arguments from_1 {_} _. Arguments upto {_} _ _. Arguments solve_loop {_ _} _ _ _.

(* ------------------------------------------------------------------ facts over the reals *)
Open Scope R_scope.

Lemma npow_R : forall (x : R) n, npow (N:=RNum) x n = x ^ n.
Proof.
  intros x n; induction n as [|m IH]; simpl.
  - unfold Q2R; simpl; lra.
  - destruct m; [simpl; lra|]. change (@nmul RNum) with Rmult. rewrite IH. reflexivity.
Qed.

Lemma amap2_length : forall (f : R -> R -> R) a b, length a = length b -> length (amap2 (N:=RNum) f a b) = length a.
Proof. intros f a; induction a; destruct b; simpl; intros; try lia; auto. Qed.

Lemma amap2_nth : forall (f : R -> R -> R) a b i d, (i < length a)%nat -> (i < length b)%nat ->
  nth i (amap2 (N:=RNum) f a b) d = f (nth i a d) (nth i b d).
Proof.
  intros f a; induction a as [|x a IH]; intros [|y b] i d Ha Hb; simpl in *; try lia.
  destruct i; auto. apply IH; lia.
Qed.

Lemma adiff_length : forall a : list R, length (adiff (N:=RNum) a) = (length a - 1)%nat.
Proof.
  induction a as [|x a IH]; simpl; auto. destruct a as [|y r]; simpl; auto.
  simpl in IH. rewrite IH. lia.
Qed.

Lemma adiff_nth : forall (a : list R) i d, (i + 1 < length a)%nat ->
  nth i (adiff (N:=RNum) a) d = nth (i + 1) a d - nth i a d.
Proof.
  induction a as [|x a IH]; intros i d H; simpl in H; try lia.
  destruct a as [|y r]; simpl in H; try lia.
  destruct i.
  - reflexivity.
  - specialize (IH i d). simpl in IH |- *. apply IH. lia.
Qed.

Lemma removelast_length : forall (a : list R), length (removelast a) = (length a - 1)%nat.
Proof.
  induction a as [|x a IH]; simpl; auto. destruct a; simpl in *; auto. rewrite IH. lia.
Qed.

Lemma removelast_nth : forall (a : list R) i d, (i + 1 < length a)%nat -> nth i (removelast a) d = nth i a d.
Proof.
  induction a as [|x a IH]; intros i d H; simpl in H; try lia.
  destruct a as [|y r]; simpl in H; try lia.
  destruct i; [reflexivity|].
  change (removelast (x :: y :: r)) with (x :: removelast (y :: r)).
  simpl nth. apply IH. simpl; lia.
Qed.

Lemma tl_nth : forall (a : list R) i d, nth i (tl a) d = nth (i + 1) a d.
Proof. intros [|x a] i d; simpl; [destruct i; reflexivity|]. rewrite Nat.add_1_r. reflexivity. Qed.

Lemma tl_length : forall (a : list R), length (tl a) = (length a - 1)%nat.
Proof. intros [|x a]; simpl; lia. Qed.

Lemma map_nth_R : forall (f : R -> R) a i d, (i < length a)%nat -> nth i (map f a) d = f (nth i a d).
Proof. intros f a i d H. rewrite (nth_indep _ d (f d)) by (rewrite map_length; exact H). apply map_nth. Qed.
