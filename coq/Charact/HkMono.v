(* C17 - the published Horvath-Kawazoe slit potential is strictly increasing in the slit distance beyond the geometric
   minimum (so the potential equation has at most one root there). *)
From Coq Require Import Reals Lra Lia QArith Qreals List.
From Coquelicot Require Import Coquelicot.
From Interval Require Import Tactic.
From PG Require Import Lib.Num Charact.HkLib Gen.HkGen Charact.Hk.
Open Scope R_scope.

(* ------------------------------------------------------------------ generic: strictly convex => secant slope increasing *)
Lemma secant_incr_generic : forall (f f' : R -> R) (a : R),
  (forall x, a <= x -> derivable_pt_lim f x (f' x)) ->
  (forall x y, a <= x -> x < y -> f' x < f' y) ->
  forall u v, a < u -> u < v -> (f u - f a) / (u - a) < (f v - f a) / (v - a).
Proof.
  intros f f' a Hd Hinc u v Hau Huv.
  destruct (MVT_cor2 f f' a u Hau) as (c1 & E1 & Hc1).
  { intros c Hc; apply Hd; lra. }
  destruct (MVT_cor2 f f' u v Huv) as (c2 & E2 & Hc2).
  { intros c Hc; apply Hd; lra. }
  assert (H12 : f' c1 < f' c2) by (apply Hinc; lra).
  replace (f u - f a) with (f' c1 * (u - a)) by lra.
  replace (f v - f a) with (f' c1 * (u - a) + f' c2 * (v - u)) by lra.
  replace (f' c1 * (u - a) / (u - a)) with (f' c1) by (field; lra).
  apply Rmult_lt_reg_r with (v - a); [lra|].
  replace ((f' c1 * (u - a) + f' c2 * (v - u)) / (v - a) * (v - a)) with (f' c1 * (u - a) + f' c2 * (v - u)) by (field; lra).
  nra.
Qed.

(* ------------------------------------------------------------------ the 10-4 wall potential integrated: g, g', g'' *)
Definition hk_g (s x : R) : R := s ^ 4 / (3 * x ^ 3) - s ^ 10 / (9 * x ^ 9).
Definition hk_g1 (s x : R) : R := - s ^ 4 / x ^ 4 + s ^ 10 / x ^ 10.
Definition hk_g2 (s x : R) : R := 4 * s ^ 4 / x ^ 5 - 10 * s ^ 10 / x ^ 11.

Lemma hk_g_deriv : forall s x, 0 < x -> derivable_pt_lim (hk_g s) x (hk_g1 s x).
Proof.
  intros s x Hx. apply is_derive_Reals. unfold hk_g, hk_g1.
  auto_derive.
  - assert (0 < x ^ 3) by (apply pow_lt; lra). assert (0 < x ^ 9) by (apply pow_lt; lra). repeat split; lra.
  - simpl. field. lra.
Qed.

Lemma hk_g1_deriv : forall s x, 0 < x -> derivable_pt_lim (hk_g1 s) x (hk_g2 s x).
Proof.
  intros s x Hx. apply is_derive_Reals. unfold hk_g1, hk_g2.
  auto_derive.
  - assert (0 < x ^ 4) by (apply pow_lt; lra). assert (0 < x ^ 10) by (apply pow_lt; lra). repeat split; lra.
  - simpl. field. lra.
Qed.

Lemma pow_lt_strict : forall a b n, 0 <= a -> a < b -> a ^ S n < b ^ S n.
Proof.
  intros a b n Ha Hab; induction n as [|n IH]; [simpl; lra|].
  change (a * a ^ S n < b * b ^ S n).
  assert (0 <= a ^ S n) by (apply pow_le; lra).
  nra.
Qed.

Lemma hk_g2_pos : forall s d0 x, 0 < d0 -> 0 < s -> 5 / 2 * s ^ 6 <= d0 ^ 6 -> d0 < x -> 0 < hk_g2 s x.
Proof.
  intros s d0 x Hd Hs Hk Hx. unfold hk_g2.
  assert (Hx0 : 0 < x) by lra.
  assert (H6 : d0 ^ 6 < x ^ 6) by (apply pow_lt_strict; lra).
  replace (4 * s ^ 4 / x ^ 5 - 10 * s ^ 10 / x ^ 11) with (s ^ 4 * (4 * x ^ 6 - 10 * s ^ 6) / x ^ 11)
    by (field; lra).
  apply Rdiv_lt_0_compat; [|apply pow_lt; lra].
  apply Rmult_lt_0_compat; [apply pow_lt; lra|lra].
Qed.

(* g' is strictly increasing on [d0, +inf) *)
Lemma hk_g1_incr : forall s d0, 0 < d0 -> 0 < s -> 5 / 2 * s ^ 6 <= d0 ^ 6 ->
  forall x y, d0 <= x -> x < y -> hk_g1 s x < hk_g1 s y.
Proof.
  intros s d0 Hd Hs Hk x y Hx Hxy.
  destruct (MVT_cor2 (hk_g1 s) (hk_g2 s) x y Hxy) as (c & E & Hc).
  { intros c Hc; apply hk_g1_deriv; lra. }
  assert (0 < hk_g2 s c) by (apply hk_g2_pos with d0; auto; lra).
  nra.
Qed.

(* the secant slope of g from d0 is strictly increasing *)
Lemma secant_increasing : forall s d0, 0 < d0 -> 0 < s -> 5 / 2 * s ^ 6 <= d0 ^ 6 ->
  forall u v, d0 < u -> u < v ->
  (hk_g s u - hk_g s d0) / (u - d0) < (hk_g s v - hk_g s d0) / (v - d0).
Proof.
  intros s d0 Hd Hs Hk u v Hu Huv.
  apply secant_incr_generic with (f' := hk_g1 s); auto.
  - intros x Hx; apply hk_g_deriv; lra.
  - apply hk_g1_incr; auto.
Qed.

Lemma k_sigma_bound : 0 < Q2R f_sigma /\ 5 / 2 * Q2R f_sigma ^ 6 < 1.
Proof.
  unfold Q2R, f_sigma; simpl. split; lra.
Qed.

Theorem hk_published_phi_increasing : forall T (ads : hkads RNum) (mat : hkmat RNum),
  0 < T -> physical_ads ads -> physical_mat mat ->
  0 < a_surface_density _ ads -> 0 < m_surface_density _ mat ->
  forall x y, a_molecular_diameter _ ads + m_molecular_diameter _ mat < x -> x < y ->
  hk_published_phi RNum (py_const RNum) T
      (a_molecular_diameter _ ads) (a_polarizability _ ads) (a_magnetic_susceptibility _ ads) (a_surface_density _ ads)
      (m_molecular_diameter _ mat) (m_polarizability _ mat) (m_magnetic_susceptibility _ mat) (m_surface_density _ mat) x
  < hk_published_phi RNum (py_const RNum) T
      (a_molecular_diameter _ ads) (a_polarizability _ ads) (a_magnetic_susceptibility _ ads) (a_surface_density _ ads)
      (m_molecular_diameter _ mat) (m_polarizability _ mat) (m_magnetic_susceptibility _ mat) (m_surface_density _ mat) y.
Proof.
  intros T [dg ag xg ng rho M] [dh ah xh nh] HT (Hdg & Hag & Hxg) (Hdh & Hah & Hxh) Hng Hnh x y Hx Hxy; simpl in *.
  ev_gen.
  set (ks := Q2R (7731547454528895 # 9007199254740992)).
  assert (Hks : 0 < ks /\ 5 / 2 * ks ^ 6 < 1) by exact k_sigma_bound.
  clearbody ks. destruct Hks as [Hks0 Hks].
  big_consts.
  match goal with |- ?a * (nh * ?b + ng * ?c) / _ * _ / _ < _ => set (A := a * (nh * b + ng * c)) end.
  assert (HA : 0 < A) by (unfold A; pos).
  clearbody A.
  set (d0 := (dg + dh) / 2).
  assert (Hd0 : 0 < d0) by (unfold d0; lra).
  assert (Hxd : 2 * d0 < x) by (unfold d0; lra).
  clearbody d0.
  set (s := ks * d0).
  assert (Hs : 0 < s) by (unfold s; pos).
  assert (Hs6 : 5 / 2 * s ^ 6 <= d0 ^ 6).
  { replace (s ^ 6) with (ks ^ 6 * d0 ^ 6) by (unfold s; ring).
    assert (0 < d0 ^ 6) by (apply pow_lt; lra). nra. }
  clearbody s.
  set (C := A / ((s * k3) ^ 4 * (k4 * T))).
  assert (HC : 0 < C) by (unfold C; apply Rdiv_lt_0_compat; [lra|]; apply Rmult_lt_0_compat; [apply pow_lt|]; pos).
  match goal with |- ?l < ?r =>
    replace l with (C * ((hk_g s (x - d0) - hk_g s d0) / ((x - d0) - d0)))
      by (unfold C, hk_g; field; repeat split; lra);
    replace r with (C * ((hk_g s (y - d0) - hk_g s d0) / ((y - d0) - d0)))
      by (unfold C, hk_g; field; repeat split; lra)
  end.
  apply Rmult_lt_compat_l; [exact HC|].
  apply secant_increasing; auto; lra.
Qed.
Print Assumptions hk_published_phi_increasing.

(* the same for the GENERATED closure of the implementation (hk_slit_matches_published_l) *)
Corollary hk_slit_potential_increasing : forall T (ads : hkads RNum) (mat : hkmat RNum),
  0 < T -> physical_ads ads -> physical_mat mat ->
  0 < a_surface_density _ ads -> 0 < m_surface_density _ mat ->
  forall x y, a_molecular_diameter _ ads + m_molecular_diameter _ mat < x -> x < y ->
  hk_slit_potential RNum T ads mat x < hk_slit_potential RNum T ads mat y.
Proof.
  intros T ads mat HT Ha Hm Hng Hnh x y Hx Hxy.
  destruct (hk_slit_matches_published_l T ads mat x HT Ha Hm Hx) as [_ ->].
  destruct (hk_slit_matches_published_l T ads mat y HT Ha Hm) as [_ ->]; [lra|].
  apply hk_published_phi_increasing; auto.
Qed.
Print Assumptions hk_slit_potential_increasing.

(* ------------------------------------------------------------------ consequences for the HK slit pipeline *)
(* two exact solutions of the HK slit equation beyond the geometric minimum are ordered like their pressures: no monotonicity
   premise any more *)
Lemma hk_slit_widths_ordered_l : forall T (ads : hkads RNum) (mat : hkmat RNum),
  0 < T -> physical_ads ads -> physical_mat mat ->
  0 < a_surface_density _ ads -> 0 < m_surface_density _ mat ->
  forall L1 L2 p1 p2,
  a_molecular_diameter _ ads + m_molecular_diameter _ mat < L1 ->
  a_molecular_diameter _ ads + m_molecular_diameter _ mat < L2 ->
  exp (hk_slit_potential RNum T ads mat L1) = p1 -> exp (hk_slit_potential RNum T ads mat L2) = p2 ->
  (p1 <= p2 -> L1 <= L2) /\ (p1 < p2 -> L1 < L2) /\ (p1 = p2 -> L1 = L2).
Proof.
  intros T ads mat HT Ha Hm Hsa Hsm L1 L2 p1 p2 H1 H2 E1 E2.
  assert (Hinc : forall x y, a_molecular_diameter _ ads + m_molecular_diameter _ mat < x -> x < y ->
            exp (hk_slit_potential RNum T ads mat x) < exp (hk_slit_potential RNum T ads mat y)).
  { intros x y Hx Hxy. apply exp_increasing. now apply hk_slit_potential_increasing. }
  repeat split.
  - intro Hp. destruct (Rle_lt_dec L1 L2) as [|Hlt]; auto. exfalso. specialize (Hinc L2 L1 H2 Hlt). lra.
  - intro Hp. destruct (Rlt_le_dec L1 L2) as [|Hge]; auto. exfalso.
    destruct (Req_dec L1 L2) as [->|Hne]; [lra|]. assert (Hlt : L2 < L1) by lra. specialize (Hinc L2 L1 H2 Hlt). lra.
  - intro Hp. destruct (Rtotal_order L1 L2) as [Hlt|[->|Hgt]]; auto; exfalso.
    + specialize (Hinc L1 L2 H1 Hlt). lra.
    + specialize (Hinc L2 L1 H2 Hgt). lra.
Qed.

(* the slit pipeline: reported width i lies between the two solved widths and the PUBLISHED equation at it gives a pressure
   between p_i and p_{i+1}: the monotonicity premise of Hk.reported_width_brackets_l is discharged *)
Lemma reported_width_brackets_nomono_l : forall minimise, minimiser_contract minimise ->
  forall T (ads : hkads RNum) (mat : hkmat RNum) pressure loading i a b,
  let phi := hk_published_phi RNum (py_const RNum) T
      (a_molecular_diameter _ ads) (a_polarizability _ ads) (a_magnetic_susceptibility _ ads) (a_surface_density _ ads)
      (m_molecular_diameter _ mat) (m_polarizability _ mat) (m_magnetic_susceptibility _ mat) (m_surface_density _ mat) in
  let d_min := a_molecular_diameter _ ads + m_molecular_diameter _ mat in
  let solved := solve_hk minimise (hk_slit_potential RNum T ads mat) (hk_slit_bound RNum T ads mat) (hk_slit_geo RNum) pressure in
  let reported := fst (fst (hk_slit_pipeline minimise T ads mat pressure loading)) in
  0 < T -> physical_ads ads -> physical_mat mat ->
  0 < a_surface_density _ ads -> 0 < m_surface_density _ mat -> d_min < 50 ->
  length pressure = length loading ->
  (i + 1 < length solved)%nat ->
  d_min < a -> b <= 50 ->
  (exists L, a <= L <= b /\ exp (phi L) = nth i pressure 0) ->
  (exists L, a <= L <= b /\ exp (phi L) = nth (i + 1) pressure 0) ->
  a <= nth i solved 0 <= b -> a <= nth (i + 1) solved 0 <= b ->
  nth i pressure 0 <= nth (i + 1) pressure 0 ->
  let w := nth i reported 0 in
  w = (nth i solved 0 + nth (i + 1) solved 0) / 2 - m_molecular_diameter _ mat /\
  nth i solved 0 - m_molecular_diameter _ mat <= w <= nth (i + 1) solved 0 - m_molecular_diameter _ mat /\
  nth i pressure 0 <= exp (phi (w + m_molecular_diameter _ mat)) <= nth (i + 1) pressure 0.
Proof.
  intros minimise Hmin T ads mat pressure loading i a b phi d_min solved reported HT Ha Hm Hsa Hsm Hd Hlen Hi Hda Hb E1 E2 S1 S2 Hp.
  apply (reported_width_brackets_l minimise Hmin T ads mat pressure loading i a b); auto.
  intros x y Hx Hxy Hy. apply hk_published_phi_increasing; auto. unfold d_min in Hda. lra.
Qed.
