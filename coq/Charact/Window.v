(* Selection of the fitted region, as written in area_bet.py:280-307 (and the identical code of area_lang.py,
   dr_da_plots.py, psd_meso.py): numpy.searchsorted (side='left') on the sorted pressure array, the manual limits
   (`if p_limits[0]:` truthiness: None and 0 mean "no limit"), the `maximum - minimum < 2 -> CalculationError` test,
   the slice [minimum : maximum+1], and the Rouquerol loop of area_BET_raw.
   Hand-written; tied to the code by the correspondence of tools/props/c14.py (indices compared exactly). *)
From Coq Require Import Reals Lra QArith Qreals ZArith List Bool Lia Sorted.
From PG Require Import Lib.Num Lib.Py Lib.Tac Charact.Ols.
Import ListNotations.

Section Window.
  Variable N : Num.
  (* numpy.searchsorted(xs, v) on a sorted array: the first index whose element is >= v *)
  Fixpoint count_lt (v : N) (xs : list N) : nat :=
    match xs with [] => 0 | x :: r => if nltb x v then S (count_lt v r) else 0 end.
  Definition limit_truthy (l : option N) : option N :=
    match l with Some v => if neqb v (n0 N) then None else Some v | None => None end.
  Definition manual_window (p : list N) (lo hi : option N) : Z * Z :=
    (match limit_truthy lo with Some v => Z.of_nat (count_lt v p) | None => 0 end,
     match limit_truthy hi with Some v => Z.of_nat (count_lt v p) - 1 | None => Z.of_nat (length p) - 1 end)%Z.
  Definition check3 (w : Z * Z) : res (Z * Z) :=
    if (snd w - fst w <? 2)%Z then Err CalculationError else Ok w.
  Definition slice {A} (w : Z * Z) (l : list A) : list A :=
    firstn (Z.to_nat (snd w + 1 - fst w)) (skipn (Z.to_nat (fst w)) l).
  (* for index, value in enumerate(roq[:-1]): if value > roq[index + 1]: maximum = index + 1; break *)
  Fixpoint first_decrease (l : list N) (i : nat) : option nat :=
    match l with
    | a :: r => match r with b :: _ => if nltb b a then Some (S i) else first_decrease r (S i) | [] => None end
    | [] => None end.
  Definition rouquerol_window (p roq : list N) : Z * Z :=
    let M := match first_decrease roq 0 with Some k => k | None => (length p - 1)%nat end in
    let min_p := nmul (nth M p (n0 N)) (nofQ (1 # 10)) in
    (Z.of_nat (count_lt min_p p), Z.of_nat M).
  (* t_plot_raw / alpha_s_raw: numpy.flatnonzero((curve > lo) & (curve < hi)) *)
  Fixpoint flatnonzero_open (lo hi : N) (xs : list N) (i : nat) : list nat :=
    match xs with [] => [] | x :: r =>
      (if nltb lo x && nltb x hi then [i] else []) ++ flatnonzero_open lo hi r (S i) end.
  Definition take_idx {A} (d : A) (idx : list nat) (l : list A) : list A := map (fun i => nth i l d) idx.
End Window.
Arguments slice {A} _ _. Arguments take_idx {A} _ _ _.

Open Scope R_scope.

Lemma count_lt_le_len (v : R) (xs : list R) : (count_lt RNum v xs <= length xs)%nat.
Proof. induction xs as [|x r IH]; simpl; [lia|]. destruct (Rltb x v); simpl; lia. Qed.

(* on a sorted array: index i is below searchsorted(xs, v)  <->  xs[i] < v *)
Lemma count_lt_nth (v : R) (xs : list R) : StronglySorted Rle xs ->
  forall i, (i < length xs)%nat -> ((i < count_lt RNum v xs)%nat <-> nth i xs 0 < v).
Proof.
  induction 1 as [|x r Hs IH Hall]; intros i Hi; simpl in Hi; [lia|].
  simpl count_lt. change (@nltb RNum) with Rltb.
  destruct (Rltb x v) eqn:E.
  - apply Rltb_true in E. destruct i as [|i]; simpl; [split; [intros _; exact E | intros _; lia]|].
    rewrite <- (IH i) by lia. lia.
  - apply Rltb_false in E. split; [lia|]. intro Hlt. exfalso. destruct i as [|i]; simpl in Hlt; [lra|].
    assert (Hin : In (nth i r 0) r) by (apply nth_In; lia).
    rewrite Forall_forall in Hall. specialize (Hall _ Hin). lra.
Qed.

Lemma count_lt_filter (v : R) (xs : list R) : StronglySorted Rle xs ->
  count_lt RNum v xs = length (filter (fun x => Rltb x v) xs).
Proof.
  induction 1 as [|x r Hs IH Hall]; simpl; [reflexivity|]. change (@nltb RNum) with Rltb.
  destruct (Rltb x v) eqn:E; simpl; [congruence|].
  apply Rltb_false in E. symmetry. apply length_zero_iff_nil.
  rewrite Forall_forall in Hall.
  assert (G : forall l, (forall y, In y l -> x <= y) -> filter (fun y => Rltb y v) l = []).
  { induction l as [|y l IHl]; intros Hl; simpl; [reflexivity|].
    assert (Rltb y v = false) as -> by (apply Rltb_false; specialize (Hl y (or_introl eq_refl)); lra).
    apply IHl. intros z Hz; apply Hl; right; exact Hz. }
  apply G, Hall.
Qed.

Definition inside (lo hi x : R) : bool := Rleb lo x && Rltb x hi.

Lemma filter_split (lo hi : R) (xs : list R) : lo <= hi ->
  length (filter (fun x => Rltb x hi) xs) =
  (length (filter (fun x => Rltb x lo) xs) + length (filter (inside lo hi) xs))%nat.
Proof.
  intro Hle. induction xs as [|x r IH]; simpl; [reflexivity|]. unfold inside at 1.
  destruct (Rltb x hi) eqn:E1, (Rltb x lo) eqn:E2, (Rleb lo x) eqn:E3; simpl; try lia;
    try apply Rltb_true in E1; try apply Rltb_false in E1; try apply Rltb_true in E2; try apply Rltb_false in E2;
    try apply Rleb_true in E3; try apply Rleb_false in E3; exfalso; lra.
Qed.
Lemma filter_inside_empty (lo hi : R) (xs : list R) : hi < lo -> filter (inside lo hi) xs = [].
Proof.
  intro H. induction xs as [|x r IH]; simpl; [reflexivity|]. unfold inside at 1.
  destruct (Rleb lo x) eqn:E3, (Rltb x hi) eqn:E1; simpl; try exact IH.
  apply Rltb_true in E1; apply Rleb_true in E3; exfalso; lra.
Qed.
Lemma filter_lt_mono (a b : R) (xs : list R) : a <= b ->
  (length (filter (fun x => Rltb x a) xs) <= length (filter (fun x => Rltb x b) xs))%nat.
Proof.
  intro H. induction xs as [|x r IH]; simpl; [lia|].
  destruct (Rltb x a) eqn:E1, (Rltb x b) eqn:E2; simpl; try lia.
  apply Rltb_true in E1; apply Rltb_false in E2; exfalso; lra.
Qed.

Lemma truthy_R (v : R) : v <> 0 -> limit_truthy RNum (Some v) = Some v.
Proof. intro H. unfold limit_truthy. change (@neqb RNum) with Reqb. rewrite n0_R. apply Reqb_false in H. rewrite H. reflexivity. Qed.

(* the fitted region consists exactly of the points inside the limits: lower limit inclusive, upper exclusive *)
Theorem window_exact : forall (p : list R) (lo hi : R), StronglySorted Rle p -> lo <> 0 -> hi <> 0 ->
  forall i, (i < length p)%nat ->
  ((fst (manual_window RNum p (Some lo) (Some hi)) <= Z.of_nat i <= snd (manual_window RNum p (Some lo) (Some hi)))%Z
   <-> lo <= nth i p 0 < hi).
Proof.
  intros p lo hi Hs Hlo Hhi i Hi. unfold manual_window. rewrite !truthy_R by assumption. simpl fst; simpl snd.
  pose proof (count_lt_nth lo p Hs i Hi) as H1. pose proof (count_lt_nth hi p Hs i Hi) as H2.
  split.
  - intros [Ha Hb]. split.
    + destruct (Rle_dec lo (nth i p 0)); [assumption|]. exfalso. assert (nth i p 0 < lo) by lra. apply H1 in H. lia.
    + apply H2. lia.
  - intros [Ha Hb]. apply H2 in Hb. split; [|lia].
    destruct (le_lt_dec (count_lt RNum lo p) i); [lia|]. apply H1 in l. lra.
Qed.

(* the number of selected points = number of points inside the limits; fewer than three -> CalculationError *)
Theorem too_few_refused : forall (p : list R) (lo hi : R), StronglySorted Rle p -> lo <> 0 -> hi <> 0 ->
  (check3 (manual_window RNum p (Some lo) (Some hi)) = Err CalculationError
   <-> (length (filter (inside lo hi) p) < 3)%nat)
  /\ (forall w, check3 (manual_window RNum p (Some lo) (Some hi)) = Ok w ->
        w = manual_window RNum p (Some lo) (Some hi) /\
        length (slice w p) = length (filter (inside lo hi) p)).
Proof.
  intros p lo hi Hs Hlo Hhi. unfold check3, manual_window. rewrite !truthy_R by assumption. simpl fst; simpl snd.
  rewrite !(count_lt_filter _ p Hs).
  assert (Hcases : lo <= hi \/ hi < lo) by lra.
  assert (Hnum : (Z.of_nat (length (filter (fun x => Rltb x hi) p)) - 1 - Z.of_nat (length (filter (fun x => Rltb x lo) p)) <? 2)%Z = true
                 <-> (length (filter (inside lo hi) p) < 3)%nat).
  { rewrite Z.ltb_lt. destruct Hcases as [Hle|Hlt].
    - rewrite (filter_split lo hi p Hle). lia.
    - rewrite (filter_inside_empty lo hi p Hlt). simpl. pose proof (filter_lt_mono hi lo p ltac:(lra)). lia. }
  split.
  - destruct (_ <? 2)%Z eqn:E; split; intro H; try reflexivity; try discriminate.
    + apply Hnum; reflexivity.
    + apply Hnum in H. discriminate.
  - intros w Hw. destruct (_ <? 2)%Z eqn:E; [discriminate|]. injection Hw as <-. split; [reflexivity|].
    unfold slice. simpl fst; simpl snd.
    assert (Hge : ~ (length (filter (inside lo hi) p) < 3)%nat) by (intro H; apply Hnum in H; congruence).
    destruct Hcases as [Hle|Hlt]; [|rewrite (filter_inside_empty lo hi p Hlt) in Hge; simpl in Hge; lia].
    rewrite firstn_length, skipn_length, Nat2Z.id.
    pose proof (filter_split lo hi p Hle) as Hsp.
    pose proof (count_lt_le_len hi p) as Hl. rewrite (count_lt_filter _ p Hs) in Hl. lia.
Qed.

(* ---- Rouquerol loop *)
Lemma first_decrease_some (l : list R) : forall i k, first_decrease RNum l i = Some k ->
  exists j, k = (i + j + 1)%nat /\ (j + 1 < length l)%nat /\ nth (j + 1) l 0 < nth j l 0
            /\ forall j', (j' < j)%nat -> nth j' l 0 <= nth (j' + 1) l 0.
Proof.
  induction l as [|a r IH]; intros i k H; simpl in H; [discriminate|].
  destruct r as [|b r']; [discriminate|]. change (@nltb RNum) with Rltb in H.
  destruct (Rltb b a) eqn:E.
  - injection H as <-. apply Rltb_true in E. exists 0%nat. simpl. repeat split; try lia; try assumption.
  - apply Rltb_false in E. destruct (IH _ _ H) as (j & -> & Hj & Hd & Hbefore).
    exists (S j). repeat split; try (simpl in *; lia).
    + replace (S j + 1)%nat with (S (j + 1)) by lia. exact Hd.
    + intros [|j'] Hj'; [simpl; lra|]. replace (S j' + 1)%nat with (S (j' + 1)) by lia.
      change (nth j' (b :: r') 0 <= nth (j' + 1) (b :: r') 0). apply Hbefore. lia.
Qed.
Lemma first_decrease_none (l : list R) : forall i, first_decrease RNum l i = None ->
  forall j, (j + 1 < length l)%nat -> nth j l 0 <= nth (j + 1) l 0.
Proof.
  induction l as [|a r IH]; intros i H j Hj; simpl in Hj; [lia|].
  destruct r as [|b r']; [simpl in Hj; lia|]. simpl in H. change (@nltb RNum) with Rltb in H.
  destruct (Rltb b a) eqn:E; [discriminate|]. apply Rltb_false in E.
  destruct j as [|j]; [simpl; lra|]. replace (S j + 1)%nat with (S (j + 1)) by lia.
  change (nth j (b :: r') 0 <= nth (j + 1) (b :: r') 0). apply (IH _ H). simpl in *; lia.
Qed.

(* The automatically chosen BET window, as the code computes it:
   upper index M: n(1-p) is non-decreasing over the points 0..M-1 and point M is the first that lies below its
   predecessor (M = last point when there is no decrease); lower index: the first point with p >= p_M / 10. *)
Theorem rouquerol_window_rule : forall (p roq : list R), StronglySorted Rle p -> length roq = length p -> (0 < length p)%nat ->
  exists m M : nat, rouquerol_window RNum p roq = (Z.of_nat m, Z.of_nat M) /\ (M < length p)%nat /\
    (forall j, (j + 1 < M)%nat -> nth j roq 0 <= nth (j + 1) roq 0) /\
    ((1 <= M)%nat /\ nth M roq 0 < nth (M - 1) roq 0
     \/ M = (length p - 1)%nat /\ forall j, (j + 1 < length p)%nat -> nth j roq 0 <= nth (j + 1) roq 0) /\
    (forall i, (i < length p)%nat -> ((m <= i)%nat <-> nth M p 0 / 10 <= nth i p 0)).
Proof.
  intros p roq Hs Hlen Hpos. unfold rouquerol_window.
  assert (Hmin : forall M i, (i < length p)%nat ->
     ((count_lt RNum (@nmul RNum (nth M p (n0 RNum)) (@nofQ RNum (1 # 10))) p <= i)%nat <-> nth M p 0 / 10 <= nth i p 0)).
  { intros M i Hi. change (@nmul RNum) with Rmult. change (@nofQ RNum) with Q2R. rewrite n0_R.
    replace (Q2R (1 # 10)) with (/ 10) by (unfold Q2R; simpl; lra).
    pose proof (count_lt_nth (nth M p 0 * / 10) p Hs i Hi) as H. unfold Rdiv. split; intro G.
    - destruct (Rle_dec (nth M p 0 * / 10) (nth i p 0)); [assumption|]. exfalso.
      assert (nth i p 0 < nth M p 0 * / 10) by lra. apply H in H0. lia.
    - destruct (le_lt_dec (count_lt RNum (nth M p 0 * / 10) p) i); [assumption|]. apply H in l. lra. }
  destruct (first_decrease RNum roq 0) as [k|] eqn:E.
  - destruct (first_decrease_some roq 0 k E) as (j & -> & Hj & Hd & Hb). simpl.
    eexists _, (S j). split; [replace (j + 1)%nat with (S j) by lia; reflexivity|].
    split; [lia|]. split; [intros j' Hj'; apply Hb; lia|]. split.
    + left. split; [lia|]. replace (S j - 1)%nat with j by lia. replace (S j) with (j + 1)%nat by lia. exact Hd.
    + intros i Hi. replace (j + 1)%nat with (S j) by lia. apply Hmin, Hi.
  - eexists _, (length p - 1)%nat. split; [reflexivity|]. split; [lia|].
    pose proof (first_decrease_none roq 0 E) as Hn. rewrite Hlen in Hn.
    split; [intros j Hj; apply Hn; lia|]. split; [right; split; [reflexivity|exact Hn]|].
    intros i Hi. apply Hmin, Hi.
Qed.

(* t-plot / alpha-s manual limits: exactly the indices whose abscissa lies strictly inside (lo, hi) *)
Lemma flatnonzero_open_spec (lo hi : R) (xs : list R) : forall i k,
  In k (flatnonzero_open RNum lo hi xs i) <-> exists j, k = (i + j)%nat /\ (j < length xs)%nat /\ lo < nth j xs 0 < hi.
Proof.
  induction xs as [|x r IH]; intros i k; simpl.
  - split; [tauto|]. intros (j & _ & Hj & _). lia.
  - rewrite in_app_iff, IH. change (@nltb RNum) with Rltb. split.
    + intros [H|(j & -> & Hj & Hin)].
      * destruct (Rltb lo x) eqn:E1, (Rltb x hi) eqn:E2; simpl in H; try tauto. destruct H as [<-|[]].
        apply Rltb_true in E1; apply Rltb_true in E2. exists 0%nat. simpl. repeat split; try lia; lra.
      * exists (S j). simpl. repeat split; try lia; tauto.
    + intros (j & -> & Hj & Hin). destruct j as [|j].
      * left. simpl in Hin. destruct Hin as [Ha Hb]. apply Rltb_true in Ha; apply Rltb_true in Hb. rewrite Ha, Hb. simpl. left; lia.
      * right. exists j. simpl in Hin. repeat split; try lia; tauto.
Qed.

Example window_example :
  manual_window RNum [0.1; 0.2; 0.3; 0.4; 0.5] (Some 0.2) (Some 0.5) = (1, 3)%Z.
Proof.
  unfold manual_window. rewrite !truthy_R by lra. simpl. change (@nltb RNum) with Rltb.
  repeat match goal with |- context [Rltb ?a ?b] =>
    first [ replace (Rltb a b) with true by (symmetry; apply Rltb_true; lra)
          | replace (Rltb a b) with false by (symmetry; apply Rltb_false; lra) ] end.
  reflexivity.
Qed.
