(* da_plot_raw (dr_da_plots.py:288-415) with a given exponent (dr_plot: exponent 2):
   window = the manual limits of Charact/Window.v, x = log_p_exp, y = log_v_adj (GENERATED), least squares,
   microp_volume = exp(intercept), potential = R T / (-slope)^(1/exp) / 1000 (GENERATED da_microp_volume, da_potential).
   The bounded search of the exponent (scipy.optimize.minimize_scalar on the standard error) is an oracle and is not
   modelled: the theorem takes the exponent as given. *)
From Coq Require Import Reals Lra QArith Qreals ZArith String List Bool Lia Sorted.
From PG Require Import Lib.Num Lib.Py Lib.Tac Gen.CharactGen Charact.Ols Charact.Window Charact.ListAux Charact.BetLang.
Import ListNotations.

Section DrDa.
  Variable N : Num.
  Variables (nln nexp : N -> N) (npow : N -> N -> N).
  Record da_result := mkDa { da_volume : N; da_energy : N; da_slope : N; da_intercept : N; da_window : Z * Z;
                             da_rsq : N; da_cov : N }.
  Definition da_xs (p : list N) (e : N) : list N := map (fun x => log_p_exp N nln npow x e) p.
  Definition da_ys (l : list N) (M rho : N) : list N := map (fun x => log_v_adj N nln x M rho) l.
  Definition da_fit (xs ys : list N) (T e : N) (w : Z * Z) : da_result :=
    let f := ols N xs ys in
    mkDa (da_microp_volume N nexp (intercept f)) (da_potential N npow T (slope f) e) (slope f) (intercept f) w (rsq f) (cov_xy f).
  Definition da_window_of (pressure : list N) (limits : option (option N * option N)) : Z * Z :=
    match limits with None => manual_window N pressure None None | Some (lo, hi) => manual_window N pressure lo hi end.
  Definition da_plot_raw (pressure loading : list N) (T M rho e : N) (limits : option (option N * option N)) : res da_result :=
    if (length pressure =? 0)%nat then Err ParameterError else
    if negb (length pressure =? length loading)%nat then Err ParameterError else
    bind (check3 (da_window_of pressure limits)) (fun w =>
      Ok (da_fit (da_xs (slice w pressure) e) (da_ys (slice w loading) M rho) T e w)).
End DrDa.
Arguments da_volume {N}. Arguments da_energy {N}. Arguments da_slope {N}. Arguments da_intercept {N}. Arguments da_window {N}.
Arguments da_rsq {N}. Arguments da_cov {N}.

Open Scope R_scope.
Definition gas_R : R := 207861565453831 / 25000000000000.   (* scipy.constants.gas_constant = 8.31446261815324 *)

(* Dubinin-Astakhov data: V = V0 exp(-((R T / (1000 E)) ln(1/p))^m), loading = V rho / M  [E in kJ/mol] *)
Definition da_data (V0 E m T M rho : R) (p l : R) : Prop :=
  0 < p < 1 /\ l = V0 * exp (- Rpower (gas_R * T / (1000 * E) * - ln p) m) * rho / M.

Lemma da_linear (V0 E m T M rho p l : R) : 0 < V0 -> 0 < E -> 0 < T -> 0 < M -> 0 < rho -> da_data V0 E m T M rho p l ->
  affine (ln V0) (- Rpower (gas_R * T / (1000 * E)) m) (log_p_exp RNum ln Rpower p m) (log_v_adj RNum ln l M rho).
Proof.
  intros HV HE HT HM Hr [[Hp0 Hp1] ->]. unfold affine, log_p_exp, log_v_adj. rops.
  assert (Hl : 0 < - ln p) by (pose proof ln_1; pose proof (ln_increasing p 1 Hp0 Hp1); lra).
  assert (Hk : 0 < gas_R * T / (1000 * E)) by (unfold gas_R; apply Rdiv_lt_0_compat; nra).
  replace (V0 * exp (- Rpower (gas_R * T / (1000 * E) * - ln p) m) * rho / M * M / rho)
    with (V0 * exp (- Rpower (gas_R * T / (1000 * E) * - ln p) m)) by (field; split; lra).
  rewrite ln_mult by (try apply exp_pos; lra). rewrite ln_exp.
  rewrite <- Rpower_mult_distr by assumption. lra.
Qed.

Lemma log_p_exp_injective (m p q : R) : 0 < m -> 0 < p < 1 -> 0 < q < 1 -> p <> q ->
  log_p_exp RNum ln Rpower p m <> log_p_exp RNum ln Rpower q m.
Proof.
  intros Hm Hp Hq Hne. unfold log_p_exp. rops.
  assert (Hlp : 0 < - ln p) by (pose proof ln_1; pose proof (ln_increasing p 1 (proj1 Hp) (proj2 Hp)); lra).
  assert (Hlq : 0 < - ln q) by (pose proof ln_1; pose proof (ln_increasing q 1 (proj1 Hq) (proj2 Hq)); lra).
  destruct (Rlt_dec p q) as [Hlt|Hge].
  - pose proof (ln_increasing p q (proj1 Hp) Hlt).
    assert (Rpower (- ln q) m < Rpower (- ln p) m) by (apply Rlt_Rpower_l; lra). lra.
  - assert (Hlt : q < p) by lra. pose proof (ln_increasing q p (proj1 Hq) Hlt).
    assert (Rpower (- ln p) m < Rpower (- ln q) m) by (apply Rlt_Rpower_l; lra). lra.
Qed.

Lemma two_distinct_map (f : R -> R) (D : R -> Prop) (l : list R) :
  (forall x y, D x -> D y -> x <> y -> f x <> f y) -> (forall x, In x l -> D x) -> two_distinct l -> two_distinct (map f l).
Proof.
  intros Hinj HD (x1 & x2 & H1 & H2 & Hne). exists (f x1), (f x2).
  split; [apply in_map, H1|]. split; [apply in_map, H2|]. apply Hinj; auto.
Qed.

Theorem da_recovers_given_exponent : forall (V0 E m T M rho : R) (p l : list R) limits r,
  0 < V0 -> 0 < E -> 0 < m -> 0 < T -> 0 < M -> 0 < rho ->
  StronglySorted Rlt p -> Forall2 (da_data V0 E m T M rho) p l ->
  da_plot_raw RNum ln exp Rpower p l T M rho m limits = Ok r ->
  da_volume r = V0 /\ da_energy r = E /\ da_slope r = - Rpower (gas_R * T / (1000 * E)) m /\ da_intercept r = ln V0 /\
  da_window r = da_window_of RNum p limits /\ da_rsq r = 1.
Proof.
  intros V0 E m T M rho p l limits r HV HE Hm HT HM Hr Hs HF H. unfold da_plot_raw in H. change (t RNum) with R in *.
  pose proof (F2_length _ _ _ HF) as Hlen.
  destruct (length p =? 0)%nat eqn:E0; [discriminate H|]. apply Nat.eqb_neq in E0.
  rewrite <- Hlen, Nat.eqb_refl in H. simpl in H.
  destruct (check3 (da_window_of RNum p limits)) as [w|e] eqn:Ec; simpl in H; [|discriminate H]. injection H as <-.
  assert (Hb : (0 <= fst (da_window_of RNum p limits))%Z /\ (snd (da_window_of RNum p limits) < Z.of_nat (length p))%Z).
  { unfold da_window_of. destruct limits as [[lo hi]|]; apply manual_window_bounds. }
  destruct (window_ok_two_distinct p _ w Hs (proj1 Hb) (proj2 Hb) Ec) as [-> HD].
  set (w := da_window_of RNum p limits) in *.
  assert (HFs : Forall2 (da_data V0 E m T M rho) (slice w p) (slice w l)) by (apply F2_slice, HF).
  assert (Hin : forall x, In x (slice w p) -> 0 < x < 1).
  { intros x Hx. clear -HFs Hx. induction HFs as [|a b ? ? Hab _ IH]; [destruct Hx|]. destruct Hx as [<-|Hx]; [exact (proj1 Hab)|auto]. }
  assert (HA : Forall2 (affine (ln V0) (- Rpower (gas_R * T / (1000 * E)) m))
                 (da_xs RNum ln Rpower (slice w p) m) (da_ys RNum ln (slice w l) M rho)).
  { unfold da_xs, da_ys. clear -HFs HV HE HT HM Hr. induction HFs; simpl; constructor; auto. apply (da_linear V0 E m T M rho); assumption. }
  assert (HD' : two_distinct (da_xs RNum ln Rpower (slice w p) m)).
  { unfold da_xs. apply (two_distinct_map _ (fun x => 0 < x < 1)); auto. intros x y Hx Hy Hne. apply log_p_exp_injective; assumption. }
  destruct (ols_exact _ _ _ _ HA HD') as (Hsl & Hi & Hrs).
  assert (Hk : 0 < gas_R * T / (1000 * E)) by (unfold gas_R; apply Rdiv_lt_0_compat; nra).
  unfold da_fit. cbv zeta. cbn [da_volume da_energy da_slope da_intercept da_window da_rsq]. rewrite Hsl, Hi.
  unfold da_microp_volume, da_potential. rops.
  repeat split; try reflexivity.
  - apply exp_ln, HV.
  - rewrite Ropp_involutive, Rpower_mult.
    replace (m * (Q2R (1 # 1) / m)) with 1 by (replace (Q2R (1 # 1)) with 1 by (unfold Q2R; simpl; lra); field; lra).
    rewrite Rpower_1 by assumption.
    replace (Q2R (207861565453831 # 25000000000000)) with gas_R by (unfold gas_R, Q2R; simpl; lra).
    replace (Q2R (1000 # 1)) with 1000 by (unfold Q2R; simpl; lra).
    unfold gas_R in *. field. repeat split; lra.
  - apply Hrs. pose proof (exp_pos (m * ln (gas_R * T / (1000 * E)))). unfold Rpower. lra.
Qed.
