(* execution of the mesopore PSD model against the implementation (C16) *)
From Coq Require Import QArith Qabs ZArith String List Bool.
From PG Require Import Lib.Num Lib.Py Lib.Show Gen.CharactGen Charact.Ols Charact.Window Charact.ListAux Charact.QExec.
Import ListNotations.
Open Scope Z_scope.
(* ---- mesopore PSD: the implementation's thickness / Kelvin arrays come in as data; everything else is the model *)
From PG Require Import Charact.PsdMeso.
Open Scope Z_scope.
Fixpoint all_close_ra (tn td : Z) (atol : Q) (qs : list Q) (ps : list (Z * Z)) : bool :=
  match qs, ps with
  | [], [] => true
  | q :: qr, x :: pr => (close_q tn td q (flq x) || Qle_bool (Qabs (q - flq x)) atol) && all_close_ra tn td atol qr pr
  | _, _ => false end.
Definition psd_case (tn td : Z) (method g : string) (p vol thick kr : list (Z * Z)) (use blo bhi : bool) (lo hi : Z * Z) (oc : Z)
           (widths areas volumes dist cumul : list (Z * Z)) (atv ata atd : Z * Z) : Z * Z * Z * Z :=
  match psd_mesoporous DNum method g (mkfl p) (mkfl vol) (mkfl thick) (mkfl kr) (lims use blo bhi lo hi) with
  | Err e => (exn_code e, b2z (oc =? exn_code e), 0, 0)
  | Ok (r, cum, w) =>
      (0, b2z ((oc =? 0) && all_close tn td (p_widths r) widths && all_close_ra tn td (flq ata) (p_areas r) areas
               && all_close_ra tn td (flq atv) (p_volumes r) volumes && all_close_ra tn td (flq atd) (p_dist r) dist
               && all_close_ra tn td (flq atv) cum cumul), fst w, snd w) end.

