(* t_plot_raw / t_plot_parameters (t_plots.py:199-329) and alpha_s_raw / alpha_s_plot_parameters (alphas_plots.py:255-392)
   with manual limits: section = flatnonzero((curve > lo) & (curve < hi)), least squares on the section, the slope test,
   area and volume by the GENERATED lines (Gen/CharactGen.v t_plot_area, t_plot_adsorbed_volume, t_plot_slope_ok,
   alpha_curve_point, alpha_s_area, ...). The thickness curve is an input (thickness_model(pressure), any callable). *)
From Coq Require Import Reals Lra QArith Qreals ZArith String List Bool Lia Sorted.
From PG Require Import Lib.Num Lib.Py Lib.Tac Gen.CharactGen Charact.Ols Charact.Window Charact.ListAux.
Import ListNotations.

Section TPlot.
  Variable N : Num.
  (* Python max() over a non-empty sequence *)
  Definition nmax (l : list N) : N :=
    match l with [] => n0 N | x :: r => fold_left (fun m y => if nltb m y then y else m) r x end.
  Record tp_result := mkTp { tp_section : list nat; tp_slope : N; tp_intercept : N; tp_rsq : N; tp_cov : N;
                             tp_volume : N; tp_area : N }.
  Definition t_plot_parameters (curve loading : list N) (section : list nat) (M rho : N) : option tp_result :=
    let f := ols N (take_idx (n0 N) section curve) (take_idx (n0 N) section loading) in
    if t_plot_slope_ok N (slope f) (nmax curve) (nmax loading)
    then Some (mkTp section (slope f) (intercept f) (rsq f) (cov_xy f)
                    (t_plot_adsorbed_volume N (intercept f) M rho) (t_plot_area N (slope f) M rho))
    else None.
  Definition t_plot_raw (loading curve : list N) (rho M : N) (lo hi : N) : res (option tp_result) :=
    if (length curve =? 0)%nat then Err ParameterError else
    if negb (length curve =? length loading)%nat then Err ParameterError else
    Ok (t_plot_parameters curve loading (flatnonzero_open N lo hi curve 0) M rho).

  Definition alpha_s_plot_parameters (curve loading : list N) (section : list nat) (alpha_pt ref_area M rho : N) : option tp_result :=
    let f := ols N (take_idx (n0 N) section curve) (take_idx (n0 N) section loading) in
    if alpha_s_slope_ok N (slope f) (nmax curve) (nmax loading)
    then Some (mkTp section (slope f) (intercept f) (rsq f) (cov_xy f)
                    (alpha_s_adsorbed_volume N (intercept f) M rho) (alpha_s_area N ref_area alpha_pt (slope f)))
    else None.
  Definition alpha_s_raw (loading ref_loading : list N) (alpha_pt ref_area rho M : N) (lo hi : N) : res (option tp_result * list N) :=
    if (length loading =? 0)%nat then Err ParameterError else
    if negb (length loading =? length ref_loading)%nat then Err ParameterError else
    let curve := map (fun r => alpha_curve_point N r alpha_pt) ref_loading in
    Ok (alpha_s_plot_parameters curve loading (flatnonzero_open N lo hi curve 0) alpha_pt ref_area M rho, curve).
End TPlot.
Arguments tp_section {N}. Arguments tp_slope {N}. Arguments tp_intercept {N}. Arguments tp_rsq {N}. Arguments tp_cov {N}.
Arguments tp_volume {N}. Arguments tp_area {N}.

Open Scope R_scope.

Lemma F2_nth {A B} (P : A -> B -> Prop) d d' : forall l l' i, Forall2 P l l' -> (i < length l)%nat -> P (nth i l d) (nth i l' d').
Proof. intros l l' i H; revert i; induction H; intros [|i] Hi; simpl in *; try lia; auto. apply IHForall2; lia. Qed.
Lemma F2_take_idx {A B} (P : A -> B -> Prop) d d' l l' idx : Forall2 P l l' -> (forall i, In i idx -> (i < length l)%nat) ->
  Forall2 P (take_idx d idx l) (take_idx d' idx l').
Proof.
  intros H. induction idx as [|i r IH]; intros Hi; simpl; constructor.
  - apply F2_nth; [assumption|apply Hi; left; reflexivity].
  - apply IH. intros j Hj; apply Hi; right; assumption.
Qed.
Lemma section_in_range (lo hi : R) (xs : list R) i : In i (flatnonzero_open RNum lo hi xs 0) -> (i < length xs)%nat.
Proof. intro H. apply flatnonzero_open_spec in H. destruct H as (j & -> & Hj & _). lia. Qed.

(* t-plot: loading = s * t + i over the whole curve (hence on the section) *)
Theorem tplot_recovers_all : forall (ts ls : list R) (s i M rho lo hi : R),
  Forall2 (affine i s) ts ls -> (0 < length ts)%nat ->
  two_distinct (take_idx 0 (flatnonzero_open RNum lo hi ts 0) ts) ->
  s * (nmax RNum ts / nmax RNum ls) < 3 ->
  exists r, t_plot_raw RNum ls ts rho M lo hi = Ok (Some r) /\
    tp_slope r = s /\ tp_intercept r = i /\ tp_area r = s * M / rho /\ tp_volume r = i * M / rho / 1000 /\
    (s <> 0 -> tp_rsq r = 1) /\
    (forall k, In k (tp_section r) <-> (k < length ts)%nat /\ lo < nth k ts 0 < hi).
Proof.
  intros ts ls s i M rho lo hi HF Hlen HD Hslope.
  pose proof (F2_length _ _ _ HF) as Hl.
  unfold t_plot_raw. change (t RNum) with R in *.
  destruct (length ts =? 0)%nat eqn:E0; [apply Nat.eqb_eq in E0; lia|].
  rewrite <- Hl, Nat.eqb_refl. simpl negb. cbv iota.
  set (sec := flatnonzero_open RNum lo hi ts 0) in *.
  assert (HA : Forall2 (affine i s) (take_idx 0 sec ts) (take_idx 0 sec ls)).
  { apply F2_take_idx; [assumption|]. intros k Hk. apply (section_in_range lo hi ts k Hk). }
  destruct (ols_exact _ _ _ _ HA HD) as (Hs & Hi & Hr).
  unfold t_plot_parameters. change (t RNum) with R. rewrite n0_R. cbv zeta. rewrite Hs.
  assert (Hok : t_plot_slope_ok RNum s (nmax RNum ts) (nmax RNum ls) = true).
  { unfold t_plot_slope_ok. rops. apply Rltb_true. replace (Q2R (3 # 1)) with 3 by (unfold Q2R; simpl; lra). exact Hslope. }
  rewrite Hok. eexists. split; [reflexivity|]. cbn [tp_slope tp_intercept tp_area tp_volume tp_rsq tp_section].
  rewrite Hi. unfold t_plot_area, t_plot_adsorbed_volume. rops.
  replace (Q2R (1000 # 1)) with 1000 by (unfold Q2R; simpl; lra).
  repeat split; try reflexivity; try exact Hr.
  - apply (section_in_range lo hi ts k H).
  - apply flatnonzero_open_spec in H. destruct H as (j & -> & _ & Hj). exact (proj1 Hj).
  - apply flatnonzero_open_spec in H. destruct H as (j & -> & _ & Hj). exact (proj2 Hj).
  - intros (Hk & Hin). apply flatnonzero_open_spec. exists k. auto.
Qed.

(* alpha-s: loading = s * alpha + i, alpha = reference loading / alpha_pt *)
Theorem alphas_recovers_all : forall (refl ls : list R) (s i apt aref M rho lo hi : R), apt <> 0 ->
  let alpha := map (fun r => r / apt) refl in
  Forall2 (affine i s) alpha ls -> (0 < length ls)%nat ->
  two_distinct (take_idx 0 (flatnonzero_open RNum lo hi alpha 0) alpha) ->
  s * (nmax RNum alpha / nmax RNum ls) < 3 ->
  exists r, alpha_s_raw RNum ls refl apt aref rho M lo hi = Ok (Some r, alpha) /\
    tp_slope r = s /\ tp_intercept r = i /\ tp_area r = aref / apt * s /\ tp_volume r = i * M / rho / 1000 /\
    (forall k, In k (tp_section r) <-> (k < length ls)%nat /\ lo < nth k alpha 0 < hi).
Proof.
  intros refl ls s i apt aref M rho lo hi Hapt alpha HF Hlen HD Hslope.
  pose proof (F2_length _ _ _ HF) as Hl. unfold alpha in Hl. rewrite map_length in Hl.
  unfold alpha_s_raw. change (t RNum) with R in *.
  destruct (length ls =? 0)%nat eqn:E0; [apply Nat.eqb_eq in E0; lia|].
  rewrite Hl, Nat.eqb_refl. simpl negb. cbv iota.
  change (map (fun r : R => alpha_curve_point RNum r apt) refl) with alpha.
  set (sec := flatnonzero_open RNum lo hi alpha 0) in *.
  assert (HA : Forall2 (affine i s) (take_idx 0 sec alpha) (take_idx 0 sec ls)).
  { apply F2_take_idx; [assumption|]. intros k Hk. apply (section_in_range lo hi alpha k Hk). }
  destruct (ols_exact _ _ _ _ HA HD) as (Hs & Hi & Hr).
  unfold alpha_s_plot_parameters. change (t RNum) with R. rewrite n0_R. cbv zeta. rewrite Hs.
  assert (Hok : alpha_s_slope_ok RNum s (nmax RNum alpha) (nmax RNum ls) = true).
  { unfold alpha_s_slope_ok. rops. apply Rltb_true. replace (Q2R (3 # 1)) with 3 by (unfold Q2R; simpl; lra). exact Hslope. }
  rewrite Hok. eexists. split; [reflexivity|]. cbn [tp_slope tp_intercept tp_area tp_volume tp_rsq tp_section].
  rewrite Hi. unfold alpha_s_area, alpha_s_adsorbed_volume. rops.
  replace (Q2R (1000 # 1)) with 1000 by (unfold Q2R; simpl; lra).
  assert (Hla : length alpha = length ls) by (unfold alpha; rewrite map_length; lia).
  repeat split; try reflexivity.
  - rewrite <- Hla. apply (section_in_range lo hi alpha k H).
  - apply flatnonzero_open_spec in H. destruct H as (j & -> & _ & Hj). exact (proj1 Hj).
  - apply flatnonzero_open_spec in H. destruct H as (j & -> & _ & Hj). exact (proj2 Hj).
  - intros (Hk & Hin). apply flatnonzero_open_spec. exists k. rewrite Hla. auto.
Qed.

(* alpha-s of an isotherm against itself returns the reference area *)
Theorem alphas_self_reference_area : forall (ls : list R) (apt aref M rho lo hi : R), apt <> 0 ->
  let alpha := map (fun r => r / apt) ls in
  (0 < length ls)%nat -> two_distinct (take_idx 0 (flatnonzero_open RNum lo hi alpha 0) alpha) ->
  apt * (nmax RNum alpha / nmax RNum ls) < 3 ->
  exists r, alpha_s_raw RNum ls ls apt aref rho M lo hi = Ok (Some r, alpha) /\ tp_area r = aref /\ tp_slope r = apt /\ tp_intercept r = 0.
Proof.
  intros ls apt aref M rho lo hi Hapt alpha Hlen HD Hslope.
  assert (HF : Forall2 (affine 0 apt) alpha ls).
  { unfold alpha. clear -Hapt. induction ls; simpl; constructor; auto. unfold affine. field. exact Hapt. }
  destruct (alphas_recovers_all ls ls apt 0 apt aref M rho lo hi Hapt HF Hlen HD Hslope) as (r & H1 & H2 & H3 & H4 & _).
  exists r. repeat split; auto. rewrite H4. change (t RNum) with R. field. exact Hapt.
Qed.
