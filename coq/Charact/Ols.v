(* Ordinary least squares as scipy.stats.linregress computes it (hand-written model, tied by the
   correspondence of tools/props/c14.py / c19.py):
     xmean, ymean; ssxm = mean((x-xmean)^2), ssym, ssxym = mean((x-xmean)(y-ymean));
     slope = ssxym/ssxm; intercept = ymean - slope*xmean; r = ssxym/sqrt(ssxm*ssym) (0 when degenerate).
   r is reported as r^2 together with the sign of ssxym (no square root in the carrier).
   Theorems (over R): exact recovery of a straight line from >= 2 distinct abscissae for lists of ANY length
   and order; behaviour under an affine change of the ordinates and a scaling of the abscissae. *)
From Coq Require Import Reals Lra QArith Qreals ZArith List Bool.
From PG Require Import Lib.Num Lib.Py Lib.Tac.
Import ListNotations.

Section Ols.
  Variable N : Num.
  Definition n0 : N := nofQ 0.
  Definition nsum (l : list N) : N := fold_right nadd n0 l.
  Definition nlen (l : list N) : N := nofQ (inject_Z (Z.of_nat (length l))).
  Definition nmean (l : list N) : N := ndiv (nsum l) (nlen l).
  Definition dev (m : N) (l : list N) : list N := map (fun x => nsub x m) l.
  Fixpoint dot (a b : list N) : N :=
    match a, b with x :: a', y :: b' => nadd (nmul x y) (dot a' b') | _, _ => n0 end.
  Record fit := mkFit { slope : N; intercept : N; rsq : N; cov_xy : N }.
  Definition ols (xs ys : list N) : fit :=
    let n := nlen xs in
    let xm := nmean xs in let ym := nmean ys in
    let dx := dev xm xs in let dy := dev ym ys in
    let ssxm := ndiv (dot dx dx) n in
    let ssym := ndiv (dot dy dy) n in
    let ssxym := ndiv (dot dx dy) n in
    let sl := ndiv ssxym ssxm in
    mkFit sl (nsub ym (nmul sl xm))
          (if neqb ssxm n0 || neqb ssym n0 then n0 else ndiv (nmul ssxym ssxym) (nmul ssxm ssym))
          ssxym.
End Ols.
Arguments slope {N} _. Arguments intercept {N} _. Arguments rsq {N} _. Arguments cov_xy {N} _.

Open Scope R_scope.

Lemma Q2R_inject_nat n : Q2R (inject_Z (Z.of_nat n)) = INR n.
Proof. unfold Q2R; simpl. rewrite <- INR_IZR_INZ. field. Qed.
Lemma n0_R : n0 RNum = 0.
Proof. unfold n0; simpl. unfold Q2R; simpl; lra. Qed.
Lemma nlen_R (l : list R) : nlen RNum l = INR (length l).
Proof. unfold nlen; simpl. apply Q2R_inject_nat. Qed.

Ltac rops := change (@ndiv RNum) with Rdiv in *; change (@nsub RNum) with Rminus in *; change (@nmul RNum) with Rmult in *;
  change (@nadd RNum) with Rplus in *; change (@neqb RNum) with Reqb in *; change (@nopp RNum) with Ropp in *;
  change (@ninv RNum) with Rinv in *; change (@nltb RNum) with Rltb in *; change (@nleb RNum) with Rleb in *;
  change (@nofQ RNum) with Q2R in *; change (t RNum) with R in *.
Definition Rsum (l : list R) : R := fold_right Rplus 0 l.
Lemma nsum_R (l : list R) : nsum RNum l = Rsum l.
Proof.
  induction l as [|x l IH]; [apply n0_R|].
  change (nsum RNum (x :: l)) with (x + nsum RNum l). rewrite IH. reflexivity.
Qed.

Lemma dot_cons (x y : R) (a b : list R) : dot RNum (x :: a) (y :: b) = x * y + dot RNum a b.
Proof. reflexivity. Qed.
Lemma dot_nil_l (b : list R) : dot RNum [] b = 0.
Proof. simpl. apply Q2R_zero. Qed.
Lemma dev_cons (m x : R) (l : list R) : dev RNum m (x :: l) = (x - m) :: dev RNum m l.
Proof. reflexivity. Qed.
Lemma dev_nil (m : R) : dev RNum m [] = [].
Proof. reflexivity. Qed.
Ltac dsimp := rewrite ?dev_cons, ?dev_nil, ?dot_cons, ?dot_nil_l.
Ltac abs_dot := repeat match goal with
  | |- context [dot RNum ?a ?b] => let d := fresh "d" in set (d := (dot RNum a b : R)) in *; clearbody d
  | H : context [dot RNum ?a ?b] |- _ => let d := fresh "d" in set (d := (dot RNum a b : R)) in *; clearbody d end.

Lemma F2_length {A B} (P : A -> B -> Prop) l l' : Forall2 P l l' -> length l = length l'.
Proof. induction 1; simpl; congruence. Qed.

Definition affine (a b : R) (x y : R) : Prop := y = a + b * x.

Lemma sum_affine (a b : R) (xs ys : list R) : Forall2 (affine a b) xs ys ->
  Rsum ys = INR (length xs) * a + b * Rsum xs.
Proof.
  induction 1 as [|x y xs ys H _ IH]; [simpl; lra|].
  change (length (x :: xs)) with (S (length xs)). rewrite S_INR. simpl. rewrite IH. unfold affine in H. subst y. lra.
Qed.

Lemma dot_dev_affine (a b m : R) (xs ys : list R) : Forall2 (affine a b) xs ys ->
  dot RNum (dev RNum m xs) (dev RNum (a + b * m) ys) = b * dot RNum (dev RNum m xs) (dev RNum m xs)
  /\ dot RNum (dev RNum (a + b * m) ys) (dev RNum (a + b * m) ys) = b * b * dot RNum (dev RNum m xs) (dev RNum m xs).
Proof.
  induction 1 as [|x y xs ys H _ [IH1 IH2]]; dsimp.
  - lra.
  - rewrite IH1, IH2. unfold affine in H; subst y. lra.
Qed.

Lemma dot_dev_nonneg (m : R) (xs : list R) : 0 <= dot RNum (dev RNum m xs) (dev RNum m xs).
Proof. induction xs as [|a xs IH]; dsimp; [lra|]. abs_dot. pose proof (Rle_0_sqr (a - m)) as Hs; unfold Rsqr in Hs. lra. Qed.
Lemma dot_dev_pos (m : R) (xs : list R) (x : R) : In x xs -> x <> m -> 0 < dot RNum (dev RNum m xs) (dev RNum m xs).
Proof.
  induction xs as [|y xs IH]; [simpl; tauto|]. intros [->|Hin] Hne; dsimp.
  - pose proof (dot_dev_nonneg m xs) as Hp.
    assert (0 < (x - m) * (x - m)) by (apply Rsqr_pos_lt; lra). abs_dot. lra.
  - specialize (IH Hin Hne). abs_dot. pose proof (Rle_0_sqr (y - m)) as Hs; unfold Rsqr in Hs. lra.
Qed.

Definition two_distinct (xs : list R) : Prop := exists x1 x2, In x1 xs /\ In x2 xs /\ x1 <> x2.

Lemma two_distinct_spread (m : R) (xs : list R) : two_distinct xs -> 0 < dot RNum (dev RNum m xs) (dev RNum m xs).
Proof.
  intros (x1 & x2 & H1 & H2 & Hne).
  destruct (Req_dec x1 m) as [->|H]; [apply (dot_dev_pos m xs x2); auto | apply (dot_dev_pos m xs x1); auto].
Qed.
Lemma two_distinct_len (xs : list R) : two_distinct xs -> 0 < INR (length xs).
Proof. intros (x1 & _ & H1 & _). destruct xs; [destruct H1|]. apply lt_0_INR. simpl; apply Nat.lt_0_succ. Qed.

(* the carrier tests on R *)
Lemma orb_eqb_false (a b : R) : a <> 0 -> b <> 0 -> (Reqb a (n0 RNum) || Reqb b (n0 RNum))%bool = false.
Proof. intros. rewrite n0_R. apply orb_false_iff; split; apply Reqb_false; assumption. Qed.

Theorem ols_exact : forall (xs ys : list R) (a b : R), Forall2 (affine a b) xs ys -> two_distinct xs ->
  slope (ols RNum xs ys) = b /\ intercept (ols RNum xs ys) = a /\ (b <> 0 -> rsq (ols RNum xs ys) = 1).
Proof.
  intros xs ys a b HF HD.
  pose proof (two_distinct_len xs HD) as Hn.
  pose proof (sum_affine a b xs ys HF) as HS.
  assert (Hlen : length ys = length xs) by (symmetry; eapply F2_length; eauto).
  assert (Hym : nmean RNum ys = a + b * nmean RNum xs).
  { unfold nmean. rewrite !nlen_R, !nsum_R, Hlen, HS. rops. field. lra. }
  pose proof (two_distinct_spread (nmean RNum xs) xs HD) as Hpos.
  destruct (dot_dev_affine a b (nmean RNum xs) xs ys HF) as [H1 H2].
  unfold ols; cbv zeta; cbn [slope intercept rsq cov_xy]. rewrite Hym, H1, H2, !nlen_R. rops.
  set (S := dot RNum (dev RNum (nmean RNum xs) xs) (dev RNum (nmean RNum xs) xs)) in *.
  set (n := INR (length xs)) in *. set (xm := nmean RNum xs) in *.
  repeat split.
  - field. lra.
  - field. lra.
  - intro Hb. rewrite orb_eqb_false.
    + field. repeat split; lra.
    + unfold Rdiv. apply Rmult_integral_contrapositive_currified; [lra | apply Rinv_neq_0_compat; lra].
    + unfold Rdiv. apply Rmult_integral_contrapositive_currified; [| apply Rinv_neq_0_compat; lra].
      repeat apply Rmult_integral_contrapositive_currified; lra.
Qed.

(* affine change of the ordinates y' = c*y + k (ANY data, not only collinear): slope and intercept follow *)
Lemma sum_affine_y (c k : R) (ys ys' : list R) : Forall2 (affine k c) ys ys' -> Rsum ys' = INR (length ys) * k + c * Rsum ys.
Proof. apply sum_affine. Qed.
Lemma dot_dev_affine_y (c k mx my : R) (xs ys ys' : list R) : Forall2 (affine k c) ys ys' -> length xs = length ys ->
  dot RNum (dev RNum mx xs) (dev RNum (k + c * my) ys') = c * dot RNum (dev RNum mx xs) (dev RNum my ys).
Proof.
  intros H; revert xs; induction H as [|y y' ys ys' Hy _ IH]; intros [|x xs] Hl; try discriminate; dsimp; try lra.
  injection Hl as Hl. specialize (IH xs Hl). rewrite IH. unfold affine in Hy; subst y'. lra.
Qed.

Theorem ols_affine_y : forall (xs ys ys' : list R) (c k : R), Forall2 (affine k c) ys ys' -> length xs = length ys -> two_distinct xs ->
  slope (ols RNum xs ys') = c * slope (ols RNum xs ys) /\
  intercept (ols RNum xs ys') = c * intercept (ols RNum xs ys) + k.
Proof.
  intros xs ys ys' c k HF Hl HD.
  pose proof (two_distinct_len xs HD) as Hn.
  pose proof (two_distinct_spread (nmean RNum xs) xs HD) as Hpos.
  assert (Hlen : length ys' = length ys) by (symmetry; eapply F2_length; eauto).
  assert (Hym : nmean RNum ys' = k + c * nmean RNum ys).
  { unfold nmean. rewrite !nlen_R, !nsum_R, Hlen, (sum_affine_y c k ys ys' HF). rops. field. rewrite <- Hl. lra. }
  unfold ols; cbv zeta; cbn [slope intercept rsq cov_xy]. rewrite Hym, (dot_dev_affine_y c k _ _ xs ys ys' HF Hl), !nlen_R. rops.
  set (S := dot RNum (dev RNum (nmean RNum xs) xs) (dev RNum (nmean RNum xs) xs)) in *.
  split; field; lra.
Qed.

(* scaling of the abscissae x' = c*x, c <> 0: slope divided by c, intercept unchanged *)
Lemma sum_scale (c : R) (xs xs' : list R) : Forall2 (affine 0 c) xs xs' -> Rsum xs' = c * Rsum xs.
Proof. intro H. rewrite (sum_affine 0 c xs xs' H). lra. Qed.
Lemma dot_dev_scale_x (c m : R) (xs xs' : list R) : Forall2 (affine 0 c) xs xs' -> forall (my : R) (ys : list R), length ys = length xs ->
  dot RNum (dev RNum (c * m) xs') (dev RNum my ys) = c * dot RNum (dev RNum m xs) (dev RNum my ys)
  /\ dot RNum (dev RNum (c * m) xs') (dev RNum (c * m) xs') = c * c * dot RNum (dev RNum m xs) (dev RNum m xs).
Proof.
  induction 1 as [|x x' xs xs' Hx _ IH]; intros my [|y ys] Hl; try discriminate; dsimp; try lra.
  injection Hl as Hl. destruct (IH my ys Hl) as [I1 I2]. rewrite I1, I2. unfold affine in Hx; subst x'. lra.
Qed.
Theorem ols_scale : forall (xs xs' ys : list R) (c : R), Forall2 (affine 0 c) xs xs' -> length ys = length xs -> c <> 0 -> two_distinct xs ->
  slope (ols RNum xs' ys) = slope (ols RNum xs ys) / c /\ intercept (ols RNum xs' ys) = intercept (ols RNum xs ys).
Proof.
  intros xs xs' ys c HF Hl Hc HD.
  pose proof (two_distinct_len xs HD) as Hn.
  pose proof (two_distinct_spread (nmean RNum xs) xs HD) as Hpos.
  assert (Hlen : length xs' = length xs) by (symmetry; eapply F2_length; eauto).
  assert (Hxm : nmean RNum xs' = c * nmean RNum xs).
  { unfold nmean. rewrite !nlen_R, !nsum_R, Hlen, (sum_scale c xs xs' HF). rops. field. lra. }
  destruct (dot_dev_scale_x c (nmean RNum xs) xs xs' HF (nmean RNum ys) ys Hl) as [H1 H2].
  unfold ols; cbv zeta; cbn [slope intercept rsq cov_xy]. rewrite Hxm, H1, H2, !nlen_R, Hlen. rops.
  set (S := dot RNum (dev RNum (nmean RNum xs) xs) (dev RNum (nmean RNum xs) xs)) in *.
  split; field; repeat split; lra.
Qed.

Example ols_exact_satisfiable : Forall2 (affine 1 2) [0; 1; 3] [1; 3; 7] /\ two_distinct [0; 1; 3].
Proof.
  split.
  - repeat (constructor; [unfold affine; lra|]). constructor.
  - exists 0, 1. simpl. split; [auto|split; [auto|lra]].
Qed.
