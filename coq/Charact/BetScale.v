(* C15, scaling clause for area_BET_raw (model of Charact/BetLang.v over the GENERATED roq_transform / bet_transform /
   bet_parameters): multiplying every loading by c > 0
   - leaves the selected window unchanged, for manual limits and for the automatic (Rouquerol) window: the loop compares
     n(1-p) values with each other, and c > 0 preserves every comparison (an ABSOLUTE tolerance in that test would not);
   - multiplies the monolayer capacity and the area by c, divides slope and intercept by c, leaves the C constant and the
     monolayer pressure unchanged.
   Definedness: n(1-p) <> 0 at every point (the code divides by it), non-zero intercept and C constant (bet_parameters divides). *)
From Coq Require Import Reals Lra QArith Qreals ZArith String List Bool Lia Sorted.
From PG Require Import Lib.Num Lib.Py Lib.Tac Gen.CharactGen Charact.Ols Charact.Window Charact.ListAux Charact.BetLang.
Import ListNotations.
Open Scope R_scope.

Lemma first_decrease_scale (c : R) : 0 < c -> forall (l : list R) i,
  first_decrease RNum (map (Rmult c) l) i = first_decrease RNum l i.
Proof.
  intros Hc. induction l as [|a l IH]; intro i; [reflexivity|]. destruct l as [|b l]; [reflexivity|].
  change (first_decrease RNum (map (Rmult c) (a :: b :: l)) i)
    with (if Rltb (c * b) (c * a) then Some (S i) else first_decrease RNum (map (Rmult c) (b :: l)) (S i)).
  change (first_decrease RNum (a :: b :: l) i) with (if Rltb b a then Some (S i) else first_decrease RNum (b :: l) (S i)).
  rewrite IH.
  assert (Rltb (c * b) (c * a) = Rltb b a) as ->; [|reflexivity].
  destruct (Rltb b a) eqn:E; [apply Rltb_true in E; apply Rltb_true; nra | apply Rltb_false in E; apply Rltb_false; nra].
Qed.
Lemma roq_scale (c : R) : forall p l : list R,
  map2 (roq_transform RNum) p (map (Rmult c) l) = map (Rmult c) (map2 (roq_transform RNum) p l).
Proof. induction p as [|x p IH]; intros [|y l]; try reflexivity. cbn [map map2]. rewrite IH. f_equal. unfold roq_transform. rops. ring. Qed.

Theorem bet_window_scale : forall (c : R) (p l : list R) limits, 0 < c ->
  bet_window RNum p (map (Rmult c) l) limits = bet_window RNum p l limits.
Proof.
  intros c p l [[lo hi]|] Hc; [reflexivity|]. unfold bet_window, rouquerol_window. change (t RNum) with R.
  rewrite roq_scale, first_decrease_scale by exact Hc. reflexivity.
Qed.

Lemma slice_map' {A B} (f : A -> B) (w : Z * Z) (l : list A) : slice w (map f l) = map f (slice w l).
Proof. unfold slice. rewrite skipn_map, firstn_map. reflexivity. Qed.
Lemma Forall_slice {A} (P : A -> Prop) w (l : list A) : Forall P l -> Forall P (slice w l).
Proof. intro H. rewrite Forall_forall in *. intros x Hx. apply H. eapply In_slice, Hx. Qed.

Lemma bet_transform_scale (c : R) : c <> 0 -> forall p l : list R, Forall (fun x => x <> 0) (map2 (roq_transform RNum) p l) ->
  Forall2 (affine 0 (/ c)) (map2 (bet_transform RNum) p l) (map2 (bet_transform RNum) p (map (Rmult c) l)).
Proof.
  intros Hc. induction p as [|x p IH]; intros [|y l] HF; try (constructor; fail). cbn [map map2] in *. inversion HF as [|? ? H0 Hr]; subst.
  constructor; [|apply IH, Hr]. unfold affine, bet_transform, roq_transform in *. rops. field. assert (y <> 0 /\ Q2R 1 - x <> 0) as [? ?] by (split; intro Hz; apply H0; rewrite Hz; ring). repeat split; assumption.
Qed.

Theorem bet_scale : forall (c cs : R) (p l : list R) limits r, 0 < c -> StronglySorted Rlt p -> length l = length p ->
  Forall (fun x => x <> 0) (map2 (roq_transform RNum) p l) ->
  area_BET_raw RNum sqrt p l cs limits = Ok r -> b_intercept r <> 0 -> b_c r <> 0 ->
  exists r', area_BET_raw RNum sqrt p (map (Rmult c) l) cs limits = Ok r' /\
    b_window r' = b_window r /\ b_c r' = b_c r /\ b_pm r' = b_pm r /\
    b_nm r' = c * b_nm r /\ b_area r' = c * b_area r /\ b_slope r' = b_slope r / c /\ b_intercept r' = b_intercept r / c.
Proof.
  intros c cs p l limits r Hc Hs Hl Hroq H Hi HC. unfold area_BET_raw in *. change (t RNum) with R in *. rewrite map_length.
  destruct (length p =? 0)%nat eqn:E0; [discriminate H|]. apply Nat.eqb_neq in E0.
  rewrite <- Hl, Nat.eqb_refl in *. cbn [negb] in *. rewrite bet_window_scale by exact Hc.
  destruct (check3 (bet_window RNum p l limits)) as [w|e] eqn:Ec; cbn [bind] in *; [|discriminate H]. injection H as <-.
  assert (Hb : (0 <= fst (bet_window RNum p l limits))%Z /\ (snd (bet_window RNum p l limits) < Z.of_nat (length p))%Z).
  { unfold bet_window. destruct limits as [[lo hi]|]; [apply manual_window_bounds|].
    apply rouquerol_window_bounds; [apply map2_length; symmetry; exact Hl | lia]. }
  destruct (window_ok_two_distinct p _ w Hs (proj1 Hb) (proj2 Hb) Ec) as [_ HD].
  eexists. split; [reflexivity|]. rewrite slice_map'.
  set (ps := slice w p) in *. set (ls := slice w l) in *.
  assert (Hroq' : Forall (fun x => x <> 0) (map2 (roq_transform RNum) ps ls)).
  { assert (G : forall n (a b : list R), map2 (roq_transform RNum) (skipn n a) (skipn n b) = skipn n (map2 (roq_transform RNum) a b)).
    { induction n; intros [|x a] [|y b]; simpl; try reflexivity; [destruct (skipn n a); reflexivity|apply IHn]. }
    assert (G2 : forall n (a b : list R), map2 (roq_transform RNum) (firstn n a) (firstn n b) = firstn n (map2 (roq_transform RNum) a b)).
    { induction n; intros [|x a] [|y b]; simpl; try reflexivity. f_equal. apply IHn. }
    unfold ps, ls, slice. rewrite G2, G. rewrite Forall_forall in *. intros x Hx. apply Hroq. eapply In_skipn, In_firstn, Hx. }
  assert (Hlen : length ps = length (map2 (bet_transform RNum) ps ls)).
  { symmetry. apply map2_length. unfold ps, ls, slice. rewrite !firstn_length, !skipn_length, Hl. reflexivity. }
  destruct (ols_affine_y ps _ _ (/ c) 0 (bet_transform_scale c ltac:(lra) ps ls Hroq') Hlen HD) as [Hsl Hin].
  unfold bet_core in *. cbv zeta in *. rewrite Hsl, Hin.
  set (f := ols RNum ps (map2 (bet_transform RNum) ps ls)) in *.
  unfold bet_parameters in *. cbv zeta in *. cbn [b_window b_c b_pm b_nm b_area b_slope b_intercept] in *. rops. rewrite !Q1 in *.
  assert (HcC : / c * slope f / (/ c * intercept f + 0) + 1 = slope f / intercept f + 1) by (field; split; lra).
  assert (Hsum : slope f + intercept f <> 0).
  { intro Hz. apply HC. replace (slope f) with (- intercept f) by lra. field. exact Hi. }
  rewrite HcC. repeat split; try reflexivity; field; repeat split; try lra; assumption.
Qed.

Example bet_scale_example : first_decrease RNum (map (Rmult (/ 1000000)) [1; 2; 1.5]) 0 = Some 2%nat.
Proof. rewrite first_decrease_scale by lra. cbn [first_decrease]. change (@nltb RNum) with Rltb.
  assert (Rltb 2 1 = false) as -> by (apply Rltb_false; lra). assert (Rltb 1.5 2 = true) as -> by (apply Rltb_true; lra). reflexivity. Qed.
