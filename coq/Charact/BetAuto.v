(* C14: the automatically chosen BET window is never widened. With p_limits = None the window of area_BET_raw is
   [m, M] of the Rouquerol rule (Charact/Window.v); when it holds fewer than three points the fit is refused with
   CalculationError, otherwise the returned window is exactly [m, M] - in particular it never contains a point below one
   tenth of the upper pressure, however sparse the grid. *)
From Coq Require Import Reals Lra QArith Qreals ZArith String List Bool Lia Sorted.
From PG Require Import Lib.Num Lib.Py Lib.Tac Gen.CharactGen Charact.Ols Charact.Window Charact.ListAux Charact.BetLang.
Import ListNotations.
Open Scope R_scope.

Theorem bet_auto_window : forall (p l : list R) (cs : R), StronglySorted Rlt p -> length l = length p -> (0 < length p)%nat ->
  exists m M : nat,
    (M < length p)%nat /\
    (forall j, (j + 1 < M)%nat -> nth j (map2 (roq_transform RNum) p l) 0 <= nth (j + 1) (map2 (roq_transform RNum) p l) 0) /\
    (forall i, (i < length p)%nat -> ((m <= i)%nat <-> nth M p 0 / 10 <= nth i p 0)) /\
    ((M < m + 2)%nat -> area_BET_raw RNum sqrt p l cs None = Err CalculationError) /\
    ((m + 2 <= M)%nat -> exists r, area_BET_raw RNum sqrt p l cs None = Ok r /\ b_window r = (Z.of_nat m, Z.of_nat M)).
Proof.
  intros p l cs Hs Hl Hp.
  assert (Hlr : length (map2 (roq_transform RNum) p l) = length p) by (apply map2_length; symmetry; exact Hl).
  destruct (rouquerol_window_rule p _ (SS_lt_le p Hs) Hlr Hp) as (m & M & Hw & HM & Hinc & _ & Hlow).
  exists m, M. split; [exact HM|]. split; [exact Hinc|]. split; [exact Hlow|].
  unfold area_BET_raw, bet_window. change (t RNum) with R in *.
  destruct (length p =? 0)%nat eqn:E0; [apply Nat.eqb_eq in E0; lia|].
  rewrite <- Hl, Nat.eqb_refl. cbn [negb]. rewrite Hw. unfold check3. cbn [fst snd].
  split; intro H.
  - assert ((Z.of_nat M - Z.of_nat m <? 2)%Z = true) as -> by (apply Z.ltb_lt; lia). reflexivity.
  - assert ((Z.of_nat M - Z.of_nat m <? 2)%Z = false) as -> by (apply Z.ltb_ge; lia).
    cbn [bind]. eexists. split; [reflexivity|]. unfold bet_core.
    destruct (bet_parameters _ _ _ _ _) as [[[? ?] ?] ?]. reflexivity.
Qed.

(* satisfiable, on the sparse grid of the kind that matters: [0.001; 0.005; 0.01; 0.2; 0.3] has two points in [0.03, 0.3] *)
Example sparse_grid_window :
  let p := [0.001; 0.005; 0.01; 0.2; 0.3] in
  StronglySorted Rlt p /\ count_lt RNum (nth 4 p 0 * Q2R (1 # 10)) p = 3%nat.
Proof.
  split.
  - repeat (constructor; [|repeat (constructor; try lra)]). constructor.
  - cbn [nth count_lt]. change (@nltb RNum) with Rltb.
    assert (Q2R (1 # 10) = / 10) as -> by (unfold Q2R; simpl; lra).
    repeat match goal with |- context [Rltb ?a ?b] =>
      first [ assert (Rltb a b = true) as -> by (apply Rltb_true; lra) | assert (Rltb a b = false) as -> by (apply Rltb_false; lra) ] end.
    reflexivity.
Qed.
