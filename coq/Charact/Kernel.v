(* C18 - kernel (DFT) fitting: hand-written model of the GLUE of
     pygaps/characterisation/psd_kernel.py  psd_dft / psd_dft_kernel_fit / _load_kernel
   around three pieces of numerical-library behaviour that are NOT modelled:
     - scipy.interpolate.interp1d(kind='cubic')  : every kernel column is a function  N -> res N  (ValueError outside its range)
     - scipy.optimize.minimize(method='SLSQP')   : Section variable `solver`, `Err CalculationError` when `not result.success`
     - math_utilities.bspline for degree > 0     : Section variable `spline`
   The model is tied to the code by tools/props/c18.py: on every run the weights returned by the real SLSQP call, the values
   of the real interpolators and (degree > 0) the output of the real bspline are fed into `psd_dft QNum` below, executed with
   vm_compute, and its four outputs + limits are compared inside Coq with what psd_dft returned.
   Definitions are over the carrier record Num (QNum: execution, RNum: theorems in KernelTheorems.v). *)
From Coq Require Import QArith ZArith List Bool Arith.
From PG Require Import Lib.Num Lib.Py.
Import ListNotations.

Section Kernel.
  Variable N : Num.
  Definition kz : N := nofQ 0.

  (* ---- numpy element-wise plumbing *)
  Fixpoint vadd (a b : list N) : list N :=
    match a, b with x :: a', y :: b' => nadd x y :: vadd a' b' | _, _ => [] end.
  Fixpoint vsub (a b : list N) : list N :=
    match a, b with x :: a', y :: b' => nsub x y :: vsub a' b' | _, _ => [] end.
  Fixpoint vmul (a b : list N) : list N :=
    match a, b with x :: a', y :: b' => nmul x y :: vmul a' b' | _, _ => [] end.
  Fixpoint vdiv (a b : list N) : list N :=
    match a, b with x :: a', y :: b' => ndiv x y :: vdiv a' b' | _, _ => [] end.
  Definition vscale (c : N) (a : list N) : list N := map (nmul c) a.
  Definition zeros (n : nat) : list N := repeat kz n.
  Definition vsum (a : list N) : N := fold_right nadd kz a.

  (* kernel_loading(pore_dist) = numpy.multiply(kernel_points, pore_dist[:, newaxis]).sum(axis=0)
     kernel_points : one row per pore width, one entry per pressure (n pressures) *)
  Fixpoint kernel_loading (n : nat) (KP : list (list N)) (x : list N) : list N :=
    match KP, x with
    | K :: KP', xj :: x' => vadd (vscale xj K) (kernel_loading n KP' x')
    | _, _ => zeros n end.
  (* sum_squares(pore_dist) = numpy.square(kernel_loading(pore_dist) - loading).sum() *)
  Definition sum_squares (n : nat) (KP : list (list N)) (loading x : list N) : N :=
    let d := vsub (kernel_loading n KP x) loading in vsum (vmul d d).

  (* numpy.ediff1d(w, to_begin=w[0]) *)
  Fixpoint diffs (prev : N) (ws : list N) : list N :=
    match ws with [] => [] | w :: r => nsub w prev :: diffs w r end.
  Definition ediff1d_begin (ws : list N) : list N :=
    match ws with [] => [] | w0 :: r => w0 :: diffs w0 r end.
  (* numpy.cumsum *)
  Fixpoint cumsum_from (acc : N) (l : list N) : list N :=
    match l with [] => [] | x :: r => nadd acc x :: cumsum_from (nadd acc x) r end.
  Definition cumsum (l : list N) : list N :=
    match l with [] => [] | x :: r => x :: cumsum_from x r end.

  (* ---- the kernel: dict pore-size -> interpolator (insertion order of the csv columns) *)
  Definition column := (N * (N -> res N))%type.          (* (float(key), interp1d object) *)
  Definition kernel := list column.
  Fixpoint mapM {A B} (f : A -> res B) (l : list A) : res (list B) :=
    match l with [] => Ok [] | a :: r => bind (f a) (fun b => bind (mapM f r) (fun bs => Ok (b :: bs))) end.
  (* [kernel[size](pressure) for size in kernel] ; except ValueError -> CalculationError *)
  Definition kernel_points (k : kernel) (ps : list N) : res (list (list N)) :=
    match mapM (fun c : column => mapM (snd c) ps) k with
    | Err ValueError => Err CalculationError
    | r => r end.
  (* an interpolator that refuses outside [lo, hi] (bounds_error=True is interp1d's default) *)
  Definition ranged (lo hi : N) (f : N -> N) : N -> res N :=
    fun p => if nleb lo p && nleb p hi then Ok (f p) else Err ValueError.

  (* ---- oracles *)
  Variable solver : list (list N) -> list N -> res (list N).
  Variable spline : nat -> list N -> list N -> list N * list N.

  (* math_utilities.bspline: the length check and `degree == 0 -> return xs, ys` are the code's, the rest is the oracle *)
  Definition bspline (xs ys : list N) (degree : nat) : res (list N * list N) :=
    if negb (length ys =? length xs)%nat then Err ParameterError
    else if (degree =? 0)%nat then Ok (xs, ys)
    else Ok (spline degree xs ys).

  Record out := mkOut { o_widths : list N; o_dist : list N; o_cum : list N; o_kl : list N }.

  Definition kernel_fit (k : kernel) (ps ls : list N) (degree : nat) : res out :=
    if (length ps =? 0)%nat then Err ParameterError
    else if negb (length ps =? length ls)%nat then Err ParameterError
    else
      bind (kernel_points k ps) (fun KP =>
      let widths := map fst k in
      bind (solver KP ls) (fun x =>
      let kl := kernel_loading (length ps) KP x in
      let dist := vdiv x (ediff1d_begin widths) in
      bind (bspline widths dist degree) (fun wd =>
      let dw := ediff1d_begin (fst wd) in
      Ok (mkOut (fst wd) (snd wd) (cumsum (vmul (snd wd) dw)) kl)))).

  (* ---- psd_dft: the limit window. numpy.searchsorted (side='left') on an ascending array = number of leading
     elements < v. `if p_limits[0]:` is Python truthiness: None and 0 mean "no limit". *)
  Fixpoint count_lt (v : N) (ps : list N) : nat :=
    match ps with [] => 0%nat | p :: r => if nltb p v then S (count_lt v r) else 0%nat end.
  Definition limit_truthy (o : option N) : bool :=
    match o with Some v => negb (neqb v kz) | None => false end.
  Definition lim_min (lo : option N) (ps : list N) : Z :=
    match lo with Some v => if limit_truthy lo then Z.of_nat (count_lt v ps) else 0%Z | None => 0%Z end.
  Definition lim_max (hi : option N) (ps : list N) : Z :=
    match hi with Some v => if limit_truthy hi then (Z.of_nat (count_lt v ps) - 1)%Z else (Z.of_nat (length ps) - 1)%Z
               | None => (Z.of_nat (length ps) - 1)%Z end.
  (* l[minimum : maximum + 1] for 0 <= minimum <= maximum *)
  Definition slice {A} (mn mx : Z) (l : list A) : list A :=
    skipn (Z.to_nat mn) (firstn (Z.to_nat (mx + 1)) l).

  Definition psd_dft (k : kernel) (ps ls : list N) (lo hi : option N) (degree : nat) : res (out * (Z * Z)) :=
    let mn := lim_min lo ps in
    let mx := lim_max hi ps in
    if (mx - mn <? 2)%Z then Err CalculationError
    else res_map (fun o => (o, (mn, mx))) (kernel_fit k (slice mn mx ps) (slice mn mx ls) degree).
End Kernel.

Arguments o_widths {N} _. Arguments o_dist {N} _. Arguments o_cum {N} _. Arguments o_kl {N} _.
Arguments mkOut {N} _ _ _ _.
