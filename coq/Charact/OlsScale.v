(* C15, scaling clause: ordinary least squares under a change of units / a scale factor of the data.
   Self-contained (sums over lists of pairs); slope and intercept as scipy.stats.linregress computes them:
   slope = (n Sxy - Sx Sy) / (n Sxx - Sx^2), intercept = (Sy - slope Sx) / n; through-origin slope = Sxy / Sxx. *)
From Coq Require Import Reals Lra List.
Import ListNotations.
Open Scope R_scope.

Fixpoint rsum (l : list R) : R := match l with [] => 0 | x :: r => x + rsum r end.
Definition sx (d : list (R * R)) := rsum (map fst d).
Definition sy (d : list (R * R)) := rsum (map snd d).
Definition sxy (d : list (R * R)) := rsum (map (fun p => fst p * snd p) d).
Definition sxx (d : list (R * R)) := rsum (map (fun p => fst p * fst p) d).
Definition syy (d : list (R * R)) := rsum (map (fun p => snd p * snd p) d).
Definition nn (d : list (R * R)) := INR (length d).
Definition den (d : list (R * R)) := nn d * sxx d - sx d * sx d.
Definition slope (d : list (R * R)) := (nn d * sxy d - sx d * sy d) / den d.
Definition intercept (d : list (R * R)) := (sy d - slope d * sx d) / nn d.
Definition slope0 (d : list (R * R)) := sxy d / sxx d.
(* squared correlation coefficient *)
Definition r2 (d : list (R * R)) := (nn d * sxy d - sx d * sy d) * (nn d * sxy d - sx d * sy d) / (den d * (nn d * syy d - sy d * sy d)).
Definition scale (a b : R) (d : list (R * R)) := map (fun p => (a * fst p, b * snd p)) d.

Lemma rsum_scale c l : rsum (map (fun x => c * x) l) = c * rsum l.
Proof. induction l; simpl; [lra|]. rewrite IHl. lra. Qed.
Lemma sx_scale a b d : sx (scale a b d) = a * sx d.
Proof. unfold sx, scale. rewrite map_map. simpl. rewrite <- rsum_scale, map_map. reflexivity. Qed.
Lemma sy_scale a b d : sy (scale a b d) = b * sy d.
Proof. unfold sy, scale. rewrite map_map. simpl. rewrite <- rsum_scale, map_map. reflexivity. Qed.
Lemma sxy_scale a b d : sxy (scale a b d) = a * b * sxy d.
Proof. unfold sxy, scale. rewrite map_map. simpl. rewrite <- rsum_scale, map_map. f_equal. apply map_ext. intros; lra. Qed.
Lemma sxx_scale a b d : sxx (scale a b d) = a * a * sxx d.
Proof. unfold sxx, scale. rewrite map_map. simpl. rewrite <- rsum_scale, map_map. f_equal. apply map_ext. intros; lra. Qed.
Lemma syy_scale a b d : syy (scale a b d) = b * b * syy d.
Proof. unfold syy, scale. rewrite map_map. simpl. rewrite <- rsum_scale, map_map. f_equal. apply map_ext. intros; lra. Qed.
Lemma nn_scale a b d : nn (scale a b d) = nn d.
Proof. unfold nn, scale. now rewrite map_length. Qed.
Lemma den_scale a b d : den (scale a b d) = a * a * den d.
Proof. unfold den. rewrite nn_scale, sxx_scale, sx_scale. lra. Qed.

(* definedness: the abscissae are not all equal (den <> 0), there is at least one point *)
Theorem ols_scale a b d : a <> 0 -> den d <> 0 -> nn d <> 0 ->
  slope (scale a b d) = b / a * slope d /\ intercept (scale a b d) = b * intercept d.
Proof.
  intros Ha Hd Hn.
  assert (Hs : slope (scale a b d) = b / a * slope d).
  { unfold slope. rewrite den_scale, nn_scale, sxy_scale, sx_scale, sy_scale. field. auto. }
  split; [exact Hs|]. unfold intercept. rewrite Hs, nn_scale, sy_scale, sx_scale. field. auto.
Qed.
(* multiplying all loadings (ordinates) by c multiplies slope and intercept by c; abscissae untouched *)
Corollary ols_scale_loading c d : den d <> 0 -> nn d <> 0 ->
  slope (scale 1 c d) = c * slope d /\ intercept (scale 1 c d) = c * intercept d.
Proof. intros Hd Hn. assert (H1n : 1 <> 0) by lra. destruct (ols_scale 1 c d H1n Hd Hn) as [H1 H2]. split; [rewrite H1; field|exact H2]. Qed.
(* ... when the loadings are the ABSCISSAE (alpha-s, t-plot: loading against thickness is y; BET: x = p, y = p/(n(1-p))) *)
Corollary ols_scale_inverse_ordinate c d : c <> 0 -> den d <> 0 -> nn d <> 0 ->
  slope (scale 1 (/ c) d) = slope d / c /\ intercept (scale 1 (/ c) d) = intercept d / c.
Proof. intros Hc Hd Hn. assert (H1n : 1 <> 0) by lra. destruct (ols_scale 1 (/ c) d H1n Hd Hn) as [H1 H2]. split; [rewrite H1; field; auto|rewrite H2; field; auto]. Qed.
Theorem r2_scale a b d : a <> 0 -> b <> 0 -> den d <> 0 -> nn d * syy d - sy d * sy d <> 0 -> r2 (scale a b d) = r2 d.
Proof.
  intros Ha Hb Hd Hy. unfold r2. rewrite den_scale, nn_scale, sxy_scale, sx_scale, sy_scale, syy_scale.
  replace (nn d * (b * b * syy d) - b * sy d * (b * sy d)) with (b * b * (nn d * syy d - sy d * sy d)) by ring.
  field. repeat split; auto.
Qed.
Theorem slope0_scale a b d : a <> 0 -> sxx d <> 0 -> slope0 (scale a b d) = b / a * slope0 d.
Proof. intros Ha Hx. unfold slope0. rewrite sxy_scale, sxx_scale. field. auto. Qed.
(* intensive BET / Langmuir constants: C = 1 + slope/intercept and K = slope/intercept do not change *)
Theorem slope_over_intercept_scale c d : c <> 0 -> den d <> 0 -> nn d <> 0 -> intercept d <> 0 ->
  slope (scale 1 c d) / intercept (scale 1 c d) = slope d / intercept d.
Proof. intros Hc Hd Hn Hi. destruct (ols_scale_loading c d Hd Hn) as [-> ->]. field. auto. Qed.

Example ols_hypotheses_satisfiable : let d := [(1, 2); (2, 3); (4, 8)] in den d <> 0 /\ nn d <> 0 /\ intercept d <> 0 /\ sxx d <> 0.
Proof.
  intro d.
  assert (Hn : nn d = 3) by (unfold nn, d; simpl; lra).
  assert (Hx : sx d = 7) by (unfold sx, d; simpl; lra).
  assert (Hy : sy d = 13) by (unfold sy, d; simpl; lra).
  assert (Hxy : sxy d = 40) by (unfold sxy, d; simpl; lra).
  assert (Hxx : sxx d = 21) by (unfold sxx, d; simpl; lra).
  assert (Hd : den d = 14) by (unfold den; rewrite Hn, Hx, Hxx; lra).
  assert (Hs : slope d = 29 / 14) by (unfold slope; rewrite Hd, Hn, Hx, Hy, Hxy; lra).
  assert (Hi : intercept d = - (1 / 2)) by (unfold intercept; rewrite Hs, Hn, Hx, Hy; lra).
  rewrite Hd, Hn, Hi, Hxx. repeat split; lra.
Qed.
