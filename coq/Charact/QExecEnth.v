(* execution of the enthalpy models against the implementation (C19) *)
From Coq Require Import QArith Qabs ZArith String List Bool.
From PG Require Import Lib.Num Lib.Py Lib.Show Gen.CharactGen Charact.Ols Charact.Window Charact.ListAux Charact.QExec.
Import ListNotations.
Open Scope Z_scope.
(* ---- enthalpy methods *)
From PG Require Import Charact.Enthalpy.
Open Scope Z_scope.
Fixpoint rsq_close (tn td : Z) (rows : list (enth_row DNum)) (rs : list (Z * Z)) : bool :=
  match rows, rs with
  | [], [] => true
  | r :: rr, x :: xr => close_ra tn td 1 1000000000 (e_rsq r) (flq x * flq x) && rsq_close tn td rr xr
  | _, _ => false end.
(* the implementation's own numpy.log(pressures) rows come in as data *)
Definition enth_case (tn td : Z) (temps : list (Z * Z)) (logp : list (list (Z * Z))) (enth slopes rs : list (Z * Z)) : Z * Z :=
  let rows := isosteric_from_logs DNum (map mkfl logp) (mkfl temps) in
  (Z.of_nat (length rows), b2z (all_close tn td (map e_enthalpy rows) enth && all_close tn td (map e_slope rows) slopes && rsq_close tn td rows rs)).
(* which loadings the Whittaker loop keeps (the values are checked by interval goals over the generated whittaker_point) *)
Definition opt_fl (b : bool) (x : Z * Z) : option Q := if b then Some (flq x) else None.
Definition whittaker_kept_case (ns : list (Z * Z)) (ps : list (bool * (Z * Z))) (p_sat p_c p_t : Z * Z) (kept : list (Z * Z)) : Z * Z :=
  let pts := combine (mkfl ns) (map (fun bp => opt_fl (fst bp) (snd bp)) ps) in
  let out := whittaker_loop DNum (fun x => x) (fun x _ => x) pts 1%Q 1%Q 1%Q (flq p_sat) (flq p_c) (flq p_t) 1%Q (fun x => x) in
  (Z.of_nat (length out), b2z (all_close 0 1 (map fst out) kept)).
Definition init_case (has : bool) (rows : list (bool * (Z * Z))) (des : bool) (oc : Z) (v : Z * Z) : Z * Z :=
  match initial_enthalpy_point DNum (if has then Some (map (fun r => (fst r, flq (snd r))) rows) else None) des with
  | Ok x => (0, b2z ((oc =? 0) && Qeq_bool x (flq v)))
  | Err e => (exn_code e, b2z (oc =? exn_code e)) end.
