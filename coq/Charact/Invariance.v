(* C15: what a characterisation routine READS does not depend on the representation the isotherm is stored in,
   provided the read names the representation it wants.
   Model of the accessors (hand-written, H; tied to PointIsotherm.pressure()/loading()/loading_at() by the correspondence
   part of tools/props/c15.py on real isotherms): the stored column converted element-wise by the GENERATED
   c_pressure / c_loading (Gen/UnitsGen2.v), with the accessor's "keyword omitted -> use the stored label" rule.
   Theorems follow from the C01 factor theorems (Units/C01Theorems.v). The acquisition table is GENERATED (Gen/AcquireGen.v). *)
From Coq Require Import Reals Lra QArith Qreals ZArith String List Bool.
From PG Require Import Lib.Num Lib.Py Lib.Tac Gen.UnitsGen1 Units.AdsOracle Gen.UnitsGen2 Units.UnitsSpec
  Units.PressureProofs Units.LoadingPhys Units.C01Theorems Charact.Acquire Gen.AcquireGen Charact.OlsScale.
Import ListNotations.
Open Scope string_scope.

Section Acc.
Variable N : Num.
Definition eff (given stored : option string) : option string := if ostr_truthy given then given else stored.
Fixpoint mapM {A B} (f : A -> res B) (l : list A) : res (list B) :=
  match l with
  | [] => Ok []
  | x :: r => bind (f x) (fun y => bind (mapM f r) (fun ys => Ok (y :: ys)))
  end.
(* pointisotherm.py pressure(): except pgError -> CalculationError *)
Definition pgerr {A} (r : res A) : res A :=
  match r with Err ParameterError | Err CalculationError | Err ParsingError => Err CalculationError | x => x end.
(* PointIsotherm.pressure(pressure_mode=pm, pressure_unit=pu) *)
Definition acc_pressure (sm su : option string) (a : adsorbate N) (T : option N) (col : list N) (pm pu : option string) : res (list N) :=
  if ostr_truthy pm || ostr_truthy pu
  then pgerr (mapM (fun v => c_pressure N v sm (eff pm sm) su (eff pu su) a T) col)
  else Ok col.
(* PointIsotherm.loading(loading_basis=lb, loading_unit=lu), material_* omitted: basis defaults to the stored one, the unit does not *)
Definition acc_loading (sb su smb smu : option string) (a : adsorbate N) (T : option N) (col : list N) (lb lu : option string) : res (list N) :=
  if ostr_truthy lb || ostr_truthy lu
  then mapM (fun v => c_loading N v sb (eff lb sb) su lu a T smb smu) col
  else Ok col.
(* loading_at(pressure, pressure_mode=pm, pressure_unit=pu): the ARGUMENT is converted from the named representation to the stored one *)
Definition arg_pressure (sm su : option string) (a : adsorbate N) (T : option N) (p : N) (pm pu : option string) : res N :=
  if ostr_truthy pm || ostr_truthy pu
  then let pm' := eff pm sm in
       if ostr_eqb pm' (Some "absolute") && negb (ostr_truthy pu) then Err ParameterError
       else c_pressure N p pm' sm pu su a T
  else Ok p.
End Acc.
Arguments mapM {A B}. Arguments pgerr {A}.

Open Scope R_scope.
Lemma mapM_ok {A B} (f : A -> res B) (g : A -> B) l : (forall x, In x l -> f x = Ok (g x)) -> mapM f l = Ok (map g l).
Proof.
  induction l as [|x r IH]; intro H; [reflexivity|]. cbn [mapM map]. rewrite (H x) by now left. cbn [bind].
  rewrite IH by (intros; apply H; now right). reflexivity.
Qed.

(* the stored columns of one physical content: P in pascal / Lc in mol, written in representation r *)
Definition stored_p (psat : R) (r : prep) (P : list R) : list R := map (fun p => p / p_canon psat r) P.
Definition stored_l (M rml rmg : R) (r : lrep) (Lc : list R) : list R := map (fun n => n / l_canon_phys M rml rmg r) Lc.

Section Invariance.
Variables (a : adsorbate RNum) (T psat : R).
Hypothesis Hps : a_psat_Pa a (Some T) = Some psat.
Hypothesis Hpos : 0 < psat.
Hypothesis HT : T <> 0.

(* one stored value: the accessor's argument resolution + c_pressure = the SI factor between stored and named representation *)
Lemma acc_pressure_point v (r rt : prep) :
  c_pressure RNum v (p_mode r) (eff (p_mode rt) (p_mode r)) (p_unit r) (eff (p_unit rt) (p_unit r)) a (Some T)
  = Ok (spec_conv (p_canon psat r) (p_canon psat rt) v).
Proof.
  rewrite c_pressure_at_temp. unfold at_temp. rewrite Hps. unfold spec_conv.
  destruct r as [[]| |], rt as [[]| |]; cbn [p_mode p_unit p_canon pa_per punit_name eff ostr_truthy]; solve_conv.
Qed.
Theorem acquire_invariant_pressure (P : list R) (r rt : prep) :
  acc_pressure RNum (p_mode r) (p_unit r) a (Some T) (stored_p psat r P) (p_mode rt) (p_unit rt) = Ok (stored_p psat rt P).
Proof.
  unfold acc_pressure. assert (Hm : ostr_truthy (p_mode rt) = true) by (destruct rt; reflexivity). rewrite Hm. cbn [orb].
  unfold stored_p.
  rewrite (mapM_ok _ (spec_conv (p_canon psat r) (p_canon psat rt))) by (intros v _; apply acc_pressure_point).
  cbn [pgerr]. f_equal. rewrite map_map. apply map_ext. intro p. unfold spec_conv.
  assert (Hc : p_canon psat r <> 0) by (apply Rgt_not_eq, p_canon_pos; assumption).
  assert (Hc2 : p_canon psat rt <> 0) by (apply Rgt_not_eq, p_canon_pos; assumption).
  field. auto.
Qed.
Corollary acquire_invariant_pressure_any_two (P : list R) (r1 r2 rt : prep) :
  acc_pressure RNum (p_mode r1) (p_unit r1) a (Some T) (stored_p psat r1 P) (p_mode rt) (p_unit rt)
  = acc_pressure RNum (p_mode r2) (p_unit r2) a (Some T) (stored_p psat r2 P) (p_mode rt) (p_unit rt).
Proof. now rewrite !acquire_invariant_pressure. Qed.

(* loading_at: a pressure given in the named representation rt lands on the same physical pressure for every stored r *)
Theorem loading_at_argument_invariant p (r rt : prep) :
  arg_pressure RNum (p_mode r) (p_unit r) a (Some T) p (p_mode rt) (p_unit rt) = Ok (spec_conv (p_canon psat rt) (p_canon psat r) p).
Proof.
  unfold arg_pressure. rewrite c_pressure_at_temp. unfold at_temp. rewrite Hps. unfold spec_conv.
  destruct r as [[]| |], rt as [[]| |]; cbn [p_mode p_unit p_canon pa_per punit_name eff ostr_truthy orb andb negb ostr_eqb String.eqb Ascii.eqb Bool.eqb]; solve_conv.
Qed.

(* reads that do NOT name the representation return the stored numbers: covariant with the exact factor *)
Theorem native_pressure_covariant (P : list R) (r1 r2 : prep) :
  acc_pressure RNum (p_mode r1) (p_unit r1) a (Some T) (stored_p psat r1 P) None None = Ok (stored_p psat r1 P)
  /\ stored_p psat r2 P = map (fun v => v * (p_canon psat r1 / p_canon psat r2)) (stored_p psat r1 P).
Proof.
  split; [reflexivity|]. unfold stored_p. rewrite map_map. apply map_ext. intro p.
  assert (Hc : p_canon psat r1 <> 0) by (apply Rgt_not_eq, p_canon_pos; assumption).
  assert (Hc2 : p_canon psat r2 <> 0) by (apply Rgt_not_eq, p_canon_pos; assumption).
  field. auto.
Qed.

(* KNOWN FINDING (alpha_s): the reference look-up names only a pressure UNIT (the sample's), not the mode. A reference stored in
   relative mode is read at the relative pressure p (right); the same reference stored in bar is read at p bar (wrong):
   the physical pressures differ unless psat happens to be 1 bar *)
Theorem alphas_reference_lookup_depends_on_storage p :
  0 < p -> psat <> 100000 ->
  exists x y,
    arg_pressure RNum (p_mode PRel) (p_unit PRel) a (Some T) p None (Some "bar") = Ok x
    /\ arg_pressure RNum (p_mode (PAbs bar)) (p_unit (PAbs bar)) a (Some T) p None (Some "bar") = Ok y
    /\ x * p_canon psat PRel <> y * p_canon psat (PAbs bar).
Proof.
  intros Hp Hne. exists p, p. split; [|split].
  - unfold arg_pressure. cbn [p_mode p_unit eff ostr_truthy orb andb negb ostr_eqb String.eqb Ascii.eqb Bool.eqb]. solve_conv.
  - unfold arg_pressure. cbn [p_mode p_unit eff ostr_truthy orb andb negb ostr_eqb String.eqb Ascii.eqb Bool.eqb punit_name]. solve_conv.
  - cbn [p_canon pa_per]. intro H. apply Hne. nra.
Qed.
End Invariance.

Section LoadingInvariance.
Variables (a : adsorbate RNum) (temp : option R) (M rml rmg : R).
Hypothesis Hat : ads_at a temp M rml rmg.
Hypothesis HM : 0 < M. Hypothesis Hl : 0 < rml. Hypothesis Hg : 0 < rmg.
Theorem acquire_invariant_loading (Lc : list R) (bm um : option string) (r rt : lrep) :
  l_is_phys r = true -> l_is_phys rt = true ->
  acc_loading RNum (l_basis r) (l_unit r) bm um a temp (stored_l M rml rmg r Lc) (l_basis rt) (l_unit rt) = Ok (stored_l M rml rmg rt Lc).
Proof.
  intros P1 P2. unfold acc_loading.
  assert (Hb : ostr_truthy (l_basis rt) = true) by (destruct rt; reflexivity). rewrite Hb. cbn [orb].
  assert (He : eff (l_basis rt) (l_basis r) = l_basis rt) by (unfold eff; now rewrite Hb). rewrite He.
  unfold stored_l.
  rewrite (mapM_ok _ (spec_conv (l_canon_phys M rml rmg r) (l_canon_phys M rml rmg rt)))
    by (intros v _; now apply (c_loading_factor_phys_at M rml rmg temp v bm um r rt a)).
  f_equal. rewrite map_map. apply map_ext. intro n. unfold spec_conv.
  assert (Hc : l_canon_phys M rml rmg r <> 0) by (apply Rgt_not_eq, l_canon_phys_pos; assumption).
  assert (Hc2 : l_canon_phys M rml rmg rt <> 0) by (apply Rgt_not_eq, l_canon_phys_pos; assumption).
  field. auto.
Qed.
Theorem native_loading_covariant (Lc : list R) (bm um : option string) (r1 r2 : lrep) :
  l_is_phys r1 = true -> l_is_phys r2 = true ->
  acc_loading RNum (l_basis r1) (l_unit r1) bm um a temp (stored_l M rml rmg r1 Lc) None None = Ok (stored_l M rml rmg r1 Lc)
  /\ stored_l M rml rmg r2 Lc = map (fun v => v * (l_canon_phys M rml rmg r1 / l_canon_phys M rml rmg r2)) (stored_l M rml rmg r1 Lc).
Proof.
  intros P1 P2. split; [reflexivity|]. unfold stored_l. rewrite map_map. apply map_ext. intro n.
  assert (Hc : l_canon_phys M rml rmg r1 <> 0) by (apply Rgt_not_eq, l_canon_phys_pos; assumption).
  assert (Hc2 : l_canon_phys M rml rmg r2 <> 0) by (apply Rgt_not_eq, l_canon_phys_pos; assumption).
  field. auto.
Qed.
End LoadingInvariance.

(* initial Henry constants: a least-squares slope of native loading against native pressure scales by lfac / pfac exactly *)
Theorem henry_covariant (pf lf : R) (d : list (R * R)) : pf <> 0 -> sxx d <> 0 -> den d <> 0 -> nn d <> 0 ->
  slope0 (scale pf lf d) = lf / pf * slope0 d /\ slope (scale pf lf d) = lf / pf * slope d.
Proof. intros Hp Hx Hd Hn. split; [now apply slope0_scale|]. now apply (ols_scale pf lf d). Qed.

(* isosteric enthalpy: ln p against 1/T. A COMMON unit factor c shifts every ln p by ln c and cancels in a difference;
   a factor applied to ONE isotherm only (mixed units, or relative mode: c = 1/psat(T_i)) does not *)
Theorem log_difference_common_factor c p1 p2 : 0 < c -> 0 < p1 -> 0 < p2 -> ln (c * p2) - ln (c * p1) = ln p2 - ln p1.
Proof. intros. rewrite !ln_mult by assumption. lra. Qed.
Theorem isosteric_mixed_units_shift c p1 p2 : 0 < c -> c <> 1 -> 0 < p1 -> 0 < p2 -> ln (c * p2) - ln p1 <> ln p2 - ln p1.
Proof.
  intros Hc Hne H1 H2. rewrite ln_mult by assumption. intro H. assert (Hl : ln c = 0) by lra.
  apply Hne. rewrite <- (exp_ln c Hc), Hl. apply exp_0.
Qed.
Theorem isosteric_pressure_read_depends_on_storage (a : adsorbate RNum) (T psat : R) (P : list R) (r1 r2 : prep) :
  0 < psat -> P <> [] -> (forall p, In p P -> p <> 0) -> p_canon psat r1 <> p_canon psat r2 ->
  exists c1 c2, acc_pressure RNum (p_mode r1) (p_unit r1) a (Some T) (stored_p psat r1 P) None None = Ok c1
    /\ acc_pressure RNum (p_mode r2) (p_unit r2) a (Some T) (stored_p psat r2 P) None None = Ok c2 /\ c1 <> c2.
Proof.
  intros Hp Hne Hnz Hc. exists (stored_p psat r1 P), (stored_p psat r2 P). split; [reflexivity|split; [reflexivity|]].
  destruct P as [|p r]; [congruence|]. unfold stored_p. cbn [map]. intro H. injection H as H _.
  assert (H1 : p_canon psat r1 <> 0) by (apply Rgt_not_eq, p_canon_pos; assumption).
  assert (H2 : p_canon psat r2 <> 0) by (apply Rgt_not_eq, p_canon_pos; assumption).
  assert (Hpz : p <> 0) by (apply Hnz; now left).
  apply Hc. unfold Rdiv in H. apply Rmult_eq_reg_l in H; [|exact Hpz].
  rewrite <- (Rinv_inv (p_canon psat r1)), <- (Rinv_inv (p_canon psat r2)). now rewrite H.
Qed.

(* ------------------------------------------------------------------ the generated acquisition table *)
Close Scope R_scope.
Definition arg_str (args : list (string * aval)) (k : string) : option (option string) :=
  match assoc k args with
  | None => Some None | Some VNone => Some None | Some (VConst s) => Some (Some s)
  | Some (VParam _) | Some (VIso _) => None end.
Definition oostr_eqb (x : option (option string)) (y : option string) : bool :=
  match x with Some x' => ostr_eqb x' y | None => false end.
Definition named_pressure (args : list (string * aval)) : option prep :=
  List.find (fun r => oostr_eqb (arg_str args "pressure_mode") (p_mode r) && oostr_eqb (arg_str args "pressure_unit") (p_unit r)) all_preps.
Definition named_loading (args : list (string * aval)) : option lrep :=
  List.find (fun r => l_is_phys r && oostr_eqb (arg_str args "loading_basis") (l_basis r) && oostr_eqb (arg_str args "loading_unit") (l_unit r)
                      && oostr_eqb (arg_str args "material_basis") None && oostr_eqb (arg_str args "material_unit") None) all_lreps.
Definition is_some {A} (x : option A) : bool := match x with Some _ => true | None => false end.
Definition row_ok (q : acq) : bool :=
  if String.eqb (q_call q) "pressure" then is_some (named_pressure (q_args q))
  else if String.eqb (q_call q) "loading" then is_some (named_loading (q_args q))
  else if String.eqb (q_call q) "loading_at" then
    is_some (named_pressure (q_args q)) && is_some (named_loading (q_args q))
  else false.
Definition invariant_entries : list string :=
  ["area_BET"; "area_langmuir"; "t_plot"; "dr_plot"; "da_plot"; "psd_mesoporous"; "psd_microporous"].
Definition all_entries : list string :=
  invariant_entries ++ ["alpha_s"; "psd_dft"; "initial_henry_slope"; "initial_henry_virial"; "isosteric_enthalpy"].
Fixpoint smem (s : string) (l : list string) : bool := match l with [] => false | x :: r => String.eqb s x || smem s r end.
Lemma smem_In s l : smem s l = true <-> In s l.
Proof. induction l; simpl; [split; [discriminate|tauto]|]. rewrite orb_true_iff, IHl, String.eqb_eq. split; intros [H|H]; auto. Qed.
Definition no_iso_value (q : acq) : bool := forallb (fun kv => match snd kv with VIso _ => false | _ => true end) (q_args q).

Definition table_chk : bool :=
  (* every invariant entry point is in the table, reads pressure and loading, and every read names its representation *)
  forallb (fun e => existsb (fun q => String.eqb (q_entry q) e && String.eqb (q_call q) "pressure") acquisitions
                    && existsb (fun q => String.eqb (q_entry q) e && String.eqb (q_call q) "loading") acquisitions) invariant_entries
  && forallb (fun q => negb (smem (q_entry q) invariant_entries) || row_ok q) acquisitions
  (* alpha_s: the sample side is fully named, and so is the reducing-pressure look-up except for the loading basis *)
  && forallb (fun q => negb (String.eqb (q_entry q) "alpha_s" && String.eqb (q_recv q) "isotherm") || row_ok q) acquisitions
  (* psd_dft names all six keys from the kernel's declared units, none from the isotherm *)
  && forallb (fun q => negb (String.eqb (q_entry q) "psd_dft") || no_iso_value q) acquisitions
  (* nothing in the table belongs to an unknown entry point *)
  && forallb (fun q => smem (q_entry q) all_entries) acquisitions
  && forallb (fun e => existsb (fun q => String.eqb (q_entry q) e) acquisitions) all_entries.
Lemma table_chk_true : table_chk = true. Proof. vm_compute. reflexivity. Qed.

Lemma find_named_pressure args rt : named_pressure args = Some rt ->
  arg_str args "pressure_mode" = Some (p_mode rt) /\ arg_str args "pressure_unit" = Some (p_unit rt).
Proof.
  intro H. apply find_some in H. destruct H as [_ H]. apply andb_true_iff in H. destruct H as [H1 H2].
  unfold oostr_eqb in *. destruct (arg_str args "pressure_mode") as [m|]; [|discriminate].
  destruct (arg_str args "pressure_unit") as [u|]; [|discriminate].
  apply ostr_eqb_eq in H1, H2. now subst.
Qed.
Lemma find_named_loading args rt : named_loading args = Some rt ->
  l_is_phys rt = true /\ arg_str args "loading_basis" = Some (l_basis rt) /\ arg_str args "loading_unit" = Some (l_unit rt).
Proof.
  intro H. apply find_some in H. destruct H as [_ H]. rewrite !andb_true_iff in H. destruct H as [[[[H0 H1] H2] _] _].
  unfold oostr_eqb in *. destruct (arg_str args "loading_basis") as [m|]; [|discriminate].
  destruct (arg_str args "loading_unit") as [u|]; [|discriminate].
  apply ostr_eqb_eq in H1, H2. now subst.
Qed.

(* INSTANTIATION: every read of every invariant entry point (and of alpha_s on the sample) returns the same numbers whatever
   representation the isotherm is stored in *)
Open Scope R_scope.
Definition reads_invariantly (q : acq) : Prop :=
  (q_call q = "pressure" ->
     exists rt, arg_str (q_args q) "pressure_mode" = Some (p_mode rt) /\ arg_str (q_args q) "pressure_unit" = Some (p_unit rt) /\
       forall (a : adsorbate RNum) T psat P r1 r2, a_psat_Pa a (Some T) = Some psat -> 0 < psat -> T <> 0 ->
         acc_pressure RNum (p_mode r1) (p_unit r1) a (Some T) (stored_p psat r1 P) (p_mode rt) (p_unit rt)
         = acc_pressure RNum (p_mode r2) (p_unit r2) a (Some T) (stored_p psat r2 P) (p_mode rt) (p_unit rt))
  /\ (q_call q = "loading" ->
     exists lt, arg_str (q_args q) "loading_basis" = Some (l_basis lt) /\ arg_str (q_args q) "loading_unit" = Some (l_unit lt) /\
       forall (a : adsorbate RNum) temp M rml rmg Lc bm1 um1 bm2 um2 r1 r2, ads_at a temp M rml rmg -> 0 < M -> 0 < rml -> 0 < rmg ->
         l_is_phys r1 = true -> l_is_phys r2 = true ->
         acc_loading RNum (l_basis r1) (l_unit r1) bm1 um1 a temp (stored_l M rml rmg r1 Lc) (l_basis lt) (l_unit lt)
         = acc_loading RNum (l_basis r2) (l_unit r2) bm2 um2 a temp (stored_l M rml rmg r2 Lc) (l_basis lt) (l_unit lt)).
Lemma row_ok_reads_invariantly q : (q_call q = "pressure" \/ q_call q = "loading") -> row_ok q = true -> reads_invariantly q.
Proof.
  intros Hc Hok. unfold row_ok in Hok. split; intro Hq; rewrite Hq in Hok; cbn [String.eqb Ascii.eqb Bool.eqb] in Hok.
  - destruct (named_pressure (q_args q)) as [rt|] eqn:E; [|cbn [is_some] in Hok; discriminate].
    destruct (find_named_pressure _ _ E) as [H1 H2]. exists rt. split; [exact H1|split; [exact H2|]].
    intros a T psat P r1 r2 Hps Hpos HT. now rewrite !(acquire_invariant_pressure a T psat Hps Hpos HT).
  - destruct (named_loading (q_args q)) as [lt|] eqn:E; [|cbn [is_some] in Hok; discriminate].
    destruct (find_named_loading _ _ E) as (H0 & H1 & H2). exists lt. split; [exact H1|split; [exact H2|]].
    intros a temp M rml rmg Lc bm1 um1 bm2 um2 r1 r2 Hat HM Hl Hg P1 P2.
    now rewrite !(acquire_invariant_loading a temp M rml rmg Hat HM Hl Hg).
Qed.
Theorem entry_points_read_invariantly : forall q, In q acquisitions ->
  (In (q_entry q) invariant_entries \/ (q_entry q = "alpha_s" /\ q_recv q = "isotherm")) ->
  (q_call q = "pressure" \/ q_call q = "loading") /\ reads_invariantly q.
Proof.
  pose proof table_chk_true as H. unfold table_chk in H. rewrite !andb_true_iff in H.
  destruct H as [[[[[_ H1] H2] _] _] _].
  rewrite forallb_forall in H1, H2.
  assert (Hcalls : forallb (fun q => negb (smem (q_entry q) invariant_entries || (String.eqb (q_entry q) "alpha_s" && String.eqb (q_recv q) "isotherm"))
                                      || String.eqb (q_call q) "pressure" || String.eqb (q_call q) "loading") acquisitions = true)
    by (vm_compute; reflexivity).
  rewrite forallb_forall in Hcalls.
  intros q Hq He.
  assert (Hsel : smem (q_entry q) invariant_entries || (String.eqb (q_entry q) "alpha_s" && String.eqb (q_recv q) "isotherm") = true).
  { destruct He as [He|[He1 He2]]; [apply smem_In in He; now rewrite He|]. rewrite He1, He2. apply orb_true_r. }
  assert (Hc : q_call q = "pressure" \/ q_call q = "loading").
  { specialize (Hcalls q Hq). rewrite Hsel in Hcalls. cbn [negb orb] in Hcalls. apply orb_true_iff in Hcalls.
    destruct Hcalls as [Hx|Hx]; apply String.eqb_eq in Hx; auto. }
  split; [exact Hc|]. apply row_ok_reads_invariantly; [exact Hc|].
  destruct He as [He|[He1 He2]].
  - specialize (H1 q Hq). apply smem_In in He. rewrite He in H1. exact H1.
  - specialize (H2 q Hq). rewrite He1, He2 in H2. exact H2.
Qed.

(* the entry points that do NOT fully name what they read (generated table) *)
Theorem alphas_reference_units_refuted : exists q, In q acquisitions /\ q_entry q = "alpha_s" /\ q_recv q = "reference_isotherm"
  /\ q_call q = "loading_at" /\ assoc "pressure_mode" (q_args q) = None /\ assoc "pressure_unit" (q_args q) = Some (VIso "isotherm.pressure_unit")
  /\ assoc "loading_basis" (q_args q) = None /\ row_ok q = false.
Proof.
  exists (mkAcq "alpha_s" "reference_isotherm" "loading_at" [("pressure_unit", VIso "isotherm.pressure_unit"); ("loading_unit", VConst "mmol")]).
  split; [vm_compute; tauto|]. repeat split; reflexivity.
Qed.
Theorem isosteric_pressure_units_refuted : exists q, In q acquisitions /\ q_entry q = "isosteric_enthalpy" /\ q_call q = "pressure_at"
  /\ assoc "pressure_mode" (q_args q) = None /\ assoc "pressure_unit" (q_args q) = None /\ row_ok q = false.
Proof.
  exists (mkAcq "isosteric_enthalpy" "iso" "pressure_at" [("loading_unit", VIso "isotherms[0].loading_unit"); ("material_unit", VIso "isotherms[0].material_unit")]).
  split; [vm_compute; tauto|]. repeat split; reflexivity.
Qed.
Theorem henry_reads_native : forall q, In q acquisitions -> (q_entry q = "initial_henry_slope" \/ q_entry q = "initial_henry_virial") -> q_args q = [].
Proof.
  assert (H : forallb (fun q => negb (String.eqb (q_entry q) "initial_henry_slope" || String.eqb (q_entry q) "initial_henry_virial")
                               || match q_args q with [] => true | _ => false end) acquisitions = true) by (vm_compute; reflexivity).
  rewrite forallb_forall in H. intros q Hq He. specialize (H q Hq).
  assert (Hs : String.eqb (q_entry q) "initial_henry_slope" || String.eqb (q_entry q) "initial_henry_virial" = true).
  { destruct He as [-> | ->]; reflexivity. }
  rewrite Hs in H. cbn [negb orb] in H. destruct (q_args q); [reflexivity|discriminate].
Qed.

(* non-vacuity of the hypotheses used above: nitrogen-like constants *)
Example invariance_hypotheses_satisfiable :
  exists (a : adsorbate RNum), a_psat_Pa a (Some 77.355) = Some 101325 /\ ads_at a (Some 77.355) 28.0134 0.0288 0.000165
    /\ 0 < 101325 /\ 77.355 <> 0 /\ 0 < 28.0134 /\ 0 < 0.0288 /\ 0 < 0.000165.
Proof.
  exists (@ads_const RNum (Some 101325) (Some 28.0134) (Some (0.0288 * 28.0134)) (Some (0.000165 * 28.0134)) (Some 0.0288) (Some 0.000165)).
  unfold ads_at. cbn [a_psat_Pa a_M a_rho_l a_rho_g a_rhom_l a_rhom_g ads_const]. repeat split; lra.
Qed.
