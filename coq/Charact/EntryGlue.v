(* C14: the isotherm ENTRY POINTS. Gen/EntryGlueGen.v (tools/py2v_entryglue.py) lists, per entry point, the scalars handed to the raw
   function under the raw function's parameter names. Here: they are the isotherm's kelvin temperature and the adsorbate's properties AT that
   temperature, so the recovery theorems of the raw functions carry over to area_BET / t_plot / da_plot / dr_plot for an isotherm stored in any
   units (iso_temperature = the `temperature` property, kelvin whatever temperature_unit is; p, l = the relative pressures / molar loadings
   the isotherm yields in the units <entry>_pressure_units / <entry>_loading_units: unit conversion is property C02). *)
From Coq Require Import Reals Lra QArith ZArith String List Bool Sorted.
From PG Require Import Lib.Num Lib.Py Gen.CharactGen Gen.EntryGlueGen Charact.Ols Charact.Window Charact.ListAux Charact.BetLang Charact.TPlot Charact.DrDa.
Import ListNotations.
Open Scope R_scope.

(* the value handed over for the raw parameter `name` (d if none is) *)
Fixpoint arg {A} (name : string) (l : list (string * A)) (d : A) : A :=
  match l with [] => d | (k, v) :: r => if String.eqb k name then v else arg name r d end.

Section Entry.
  Variables (Tk M cs : R) (rho : R -> R).     (* isotherm.temperature [K], molar mass, cross-section, liquid density as a function of T *)

  Lemma glue_scalars :
    da_plot_scalars R Tk M rho = [("iso_temp", Tk); ("molar_mass", M); ("liquid_density", rho Tk)]%string /\
    t_plot_scalars R Tk M rho = [("liquid_density", rho Tk); ("adsorbate_molar_mass", M)]%string /\
    alpha_s_scalars R Tk M rho = [("liquid_density", rho Tk); ("adsorbate_molar_mass", M)]%string /\
    area_BET_scalars R cs = [("cross_section", cs)]%string /\ area_langmuir_scalars R cs = [("cross_section", cs)]%string.
  Proof. repeat split; reflexivity. Qed.

  Lemma glue_units :
    (area_BET_loading_units, area_langmuir_loading_units, da_plot_loading_units) =
      (let u := [("loading_basis", "molar"); ("loading_unit", "mol")]%string in (u, u, u)) /\
    (t_plot_loading_units, alpha_s_loading_units) = (let u := [("loading_basis", "molar"); ("loading_unit", "mmol")]%string in (u, u)) /\
    Forall (fun u => u = [("pressure_mode", "relative")]%string)
      [area_BET_pressure_units; area_langmuir_pressure_units; t_plot_pressure_units; alpha_s_pressure_units; da_plot_pressure_units].
  Proof. repeat split; repeat constructor. Qed.

  (* da_plot / dr_plot (exponent given; dr_plot = da_plot with exponent 2) on an isotherm whose data follow the DA equation at its kelvin
     temperature, with the liquid density the adsorbate has AT that temperature *)
  Lemma da_plot_entry_recovers : forall (V0 E m : R) (p l : list R) limits r,
    0 < V0 -> 0 < E -> 0 < m -> 0 < Tk -> 0 < M -> 0 < rho Tk ->
    StronglySorted Rlt p -> Forall2 (da_data V0 E m Tk M (rho Tk)) p l ->
    (let a := fun n => arg n (da_plot_scalars R Tk M rho) 0 in
     da_plot_raw RNum ln exp Rpower p l (a "iso_temp"%string) (a "molar_mass"%string) (a "liquid_density"%string) m limits) = Ok r ->
    da_volume r = V0 /\ da_energy r = E /\ da_slope r = - Rpower (gas_R * Tk / (1000 * E)) m /\ da_intercept r = ln V0 /\
    da_window r = da_window_of RNum p limits /\ da_rsq r = 1.
  Proof.
    intros V0 E m p l limits r H1 H2 H3 H4 H5 H6 Hs Hd Hr.
    change (da_plot_raw RNum ln exp Rpower p l Tk M (rho Tk) m limits = Ok r) in Hr.
    exact (DrDa.da_recovers_given_exponent V0 E m Tk M (rho Tk) p l limits r H1 H2 H3 H4 H5 H6 Hs Hd Hr).
  Qed.

  Lemma t_plot_entry_recovers : forall (ts ls : list R) (s i lo hi : R),
    Forall2 (affine i s) ts ls -> (0 < length ts)%nat ->
    two_distinct (take_idx 0 (flatnonzero_open RNum lo hi ts 0) ts) ->
    s * (nmax RNum ts / nmax RNum ls) < 3 ->
    let a := fun n => arg n (t_plot_scalars R Tk M rho) 0 in
    exists r, t_plot_raw RNum ls ts (a "liquid_density"%string) (a "adsorbate_molar_mass"%string) lo hi = Ok (Some r) /\
      tp_slope r = s /\ tp_intercept r = i /\ tp_area r = s * M / rho Tk /\ tp_volume r = i * M / rho Tk / 1000.
  Proof.
    intros ts ls s i lo hi Ha Hl Ht Hs a.
    destruct (tplot_recovers_all ts ls s i M (rho Tk) lo hi Ha Hl Ht Hs) as [r [Hr [A [B [C [D _]]]]]].
    exists r. change (a "liquid_density"%string) with (rho Tk). change (a "adsorbate_molar_mass"%string) with M. auto.
  Qed.

  Lemma area_BET_entry_recovers : forall (nm C : R) (p l : list R) limits r, 0 < nm -> 0 < C ->
    StronglySorted Rlt p -> Forall2 (bet_data nm C) p l ->
    area_BET_raw RNum sqrt p l (arg "cross_section"%string (area_BET_scalars R cs) 0) limits = Ok r ->
    b_nm r = nm /\ b_c r = C /\ b_pm r = 1 / (sqrt C + 1) /\ b_area r = nm * cs * / 10 ^ 18 * avogadro.
  Proof.
    intros nm C p l limits r H1 H2 Hs Hd Hr.
    change (area_BET_raw RNum sqrt p l cs limits = Ok r) in Hr.
    destruct (bet_recovers_all nm C cs p l limits r H1 H2 Hs Hd Hr) as [A [B [C' [D _]]]]. auto.
  Qed.
End Entry.
