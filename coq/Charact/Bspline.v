(* C18: the integer bookkeeping of math_utilities.bspline (open curve), GENERATED in Gen/BsplineGen.v: whatever number of pore widths
   a kernel has and whatever spline order is asked for, the degree / knot vector / parameter range handed to scipy's splev are well formed
   (splev needs len(knots) = len(control points) + degree + 1 and a non-degenerate base interval; a degenerate one gives 0/0 = NaN). *)
From Coq Require Import ZArith List Lia.
From PG Require Import Charact.BsplineLib Gen.BsplineGen.
Import ListNotations. Open Scope Z_scope.

Lemma bspline_plan_well_formed_lemma : forall count d : Z,
  1 <= count -> 1 <= d ->
  let k := bspline_open_degree count d in
  let kv := bspline_open_knots count k in
  d <> bspline_identity_degree /\
  k = Z.min d (count - 1) /\ 0 <= k /\ (2 <= count -> 1 <= k) /\
  Z.of_nat (length kv) = count + k + 1 /\
  Forall (fun t => 0 <= t <= bspline_open_range_end count k) kv /\
  0 < bspline_open_range_end count k.
Proof.
  intros count d Hc Hd k kv.
  assert (Hk : k = Z.min d (count - 1)) by (unfold k, bspline_open_degree; lia).
  assert (Hr : bspline_open_range_end count k = count - k) by reflexivity.
  assert (Hkv : kv = zrepeat 0 k ++ zarange (count - k + 1) ++ zrepeat (count - k) k) by reflexivity.
  clearbody k kv.
  assert (H0 : 0 <= k) by lia.
  split; [unfold bspline_identity_degree; lia|].
  split; [exact Hk|]. split; [exact H0|]. split; [lia|].
  split.
  { subst kv. rewrite !app_length, !Nat2Z.inj_add, !zrepeat_length, zarange_length by lia. lia. }
  split; [|lia].
  subst kv. rewrite Hr. apply Forall_app; split; [|apply Forall_app; split].
  - apply zrepeat_forall. lia.
  - eapply Forall_impl; [|apply zarange_forall]. cbv beta. intros. lia.
  - apply zrepeat_forall. lia.
Qed.

(* one control point per pore width: sizes 1, 2, 3, 4 x orders 1, 2, 3 evaluated *)
Example bspline_small_kernels :
  map (fun cd => bspline_open_knots (fst cd) (bspline_open_degree (fst cd) (snd cd))) [(1, 3); (2, 2); (2, 3); (3, 3); (4, 3)]
  = [[0; 1]; [0; 0; 1; 1]; [0; 0; 1; 1]; [0; 0; 0; 1; 1; 1]; [0; 0; 0; 0; 1; 1; 1; 1]].
Proof. vm_compute. reflexivity. Qed.
