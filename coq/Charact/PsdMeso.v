(* The three classical mesopore recurrences of psd_meso.py:267-768 (pygaps-DH, BJH, Dollimore-Heal) and the wrapper
   psd_mesoporous (limits, cumulative curve), hand-written on lists. The thickness and Kelvin-radius arrays are INPUTS
   (in the code: thickness_model(pressure), condensation_model(pressure), any callables); the correspondence passes the
   implementation's own arrays, so the recurrences are compared exactly.
   The vectorised numpy prelude (reverse, -diff, pairwise averages, ratio factors) is written as one recursion over the
   reversed (volume, thickness, Kelvin radius) triples; the loops carry the running sums exactly as the Python loops do. *)
From Coq Require Import Reals Lra QArith Qreals ZArith String List Bool Lia Sorted.
From PG Require Import Lib.Num Lib.Py Lib.Tac Charact.Ols Charact.Window Charact.ListAux.
Import ListNotations.
Open Scope string_scope.

Section Psd.
  Variable N : Num.
  Definition c0 : N := nofQ 0.
  Definition c1 : N := nofQ 1.
  Definition c2 : N := nofQ (2 # 1).
  Definition c1000 : N := nofQ (1000 # 1).
  Definition cm3 : N := nofQ (1 # 1000).
  Definition sq (x : N) : N := nmul x x.
  Definition avg2 (a b : N) : N := ndiv (nadd a b) c2.
  Fixpoint npow_nat (x : N) (k : nat) : N := match k with O => c1 | S k' => nmul x (npow_nat x k') end.
  Definition ndiff (l : list N) : list N := map2 nsub l (tl l).       (* -numpy.diff *)
  Definition trip := (N * (N * N))%type.                               (* (volume, (thickness, kelvin radius)) *)
  Record row := mkRow { r_dv : N; r_dt : N; r_at : N; r_aw : N; r_ak : N; r_dw : N }.
  (* one row per pressure step, from the highest pressure downwards; w = width (pygaps-DH) or radius (BJH, DH) *)
  Fixpoint rows (wf : N -> N -> N) (l : list trip) : list row :=
    match l with
    | (v1, (t1, k1)) :: r =>
        match r with
        | (v2, (t2, k2)) :: _ =>
            mkRow (nsub v1 v2) (nsub t1 t2) (avg2 t1 t2) (avg2 (wf t1 k1) (wf t2 k2)) (avg2 k1 k2) (nsub (wf t1 k1) (wf t2 k2))
            :: rows wf r
        | [] => [] end
    | [] => [] end.
  Definition width_of (t k : N) : N := nmul c2 (nadd t k).
  Definition radius_of (t k : N) : N := nadd t k.

  (* psd_pygapsdh: state = sum_area_correction *)
  Fixpoint dh_loop (c : nat) (rs : list row) (sac : N) : list (N * N) :=
    match rs with
    | [] => []
    | r :: rest =>
        let rf := sq (ndiv (r_aw r) (nsub (r_aw r) (nmul c2 (r_at r)))) in
        let pv := nmul (nsub (r_dv r) (nmul (r_dt r) sac)) rf in
        let gc := npow_nat (ndiv (nsub (r_aw r) (nmul c2 (r_at r))) (r_aw r)) (c - 1) in
        let pa := ndiv (nmul (nmul c2 (nofQ (inject_Z (Z.of_nat c)))) pv) (r_aw r) in
        (pv, nmul pa c1000) :: dh_loop c rest (nadd sac (nmul gc pa)) end.
  (* psd_bjh: state = the (avg radius, area) of all pores emptied so far *)
  Fixpoint bjh_loop (rs : list row) (prev : list (N * N)) : list (N * N) :=
    match rs with
    | [] => []
    | r :: rest =>
        let rf := sq (ndiv (r_aw r) (nadd (r_ak r) (r_dt r))) in
        let saf := fold_left (fun s xa => nadd s (nmul (ndiv (nsub (fst xa) (r_at r)) (fst xa)) (snd xa))) prev c0 in
        let pv := nmul (nsub (r_dv r) (nmul (nmul (r_dt r) saf) cm3)) rf in
        let pa := nmul (ndiv (nmul c2 pv) (r_aw r)) c1000 in
        (pv, pa) :: bjh_loop rest (prev ++ [(r_aw r, pa)]) end.
  (* psd_dollimore_heal: state = sum_area_factor, sum_2pi_length_factor *)
  Fixpoint dhl_loop (rs : list row) (saf s2pl : N) : list (N * N) :=
    match rs with
    | [] => []
    | r :: rest =>
        let rf := sq (ndiv (r_aw r) (nadd (r_ak r) (r_dt r))) in
        let dtv := nsub (nmul (r_dt r) saf) (nmul (nmul (r_dt r) (r_at r)) s2pl) in
        let pv := nmul (nsub (r_dv r) dtv) rf in
        let pa := ndiv (nmul c2 pv) (r_aw r) in
        (pv, nmul pa c1000) :: dhl_loop rest (nadd saf pa) (nadd s2pl (ndiv pa (r_aw r))) end.

  Record psd_result := mkPsd { p_widths : list N; p_areas : list N; p_volumes : list N; p_dist : list N }.
  Definition desc (vol thick kr : list N) : list trip := combine (rev vol) (combine (rev thick) (rev kr)).
  Definition c_length (g : string) : option nat :=
    if String.eqb g "slit" then Some 1%nat else if String.eqb g "cylinder" then Some 2%nat
    else if String.eqb g "sphere" then Some 3%nat else None.
  Definition len_checks {A} (vol kr : list N) (k : res A) : res A :=
    if (length kr =? 0)%nat then Err ParameterError else
    if negb (length vol =? length kr)%nat then Err ParameterError else k.
  Definition psd_pygapsdh (vol thick kr : list N) (g : string) : res psd_result :=
    len_checks vol kr
    (match c_length g with None => Err ParameterError | Some c =>
      let l := desc vol thick kr in
      let rs := rows width_of l in
      let out := dh_loop c rs c0 in
      Ok (mkPsd (rev (tl (map (fun x => width_of (fst (snd x)) (snd (snd x))) l)))
                (rev (map snd out)) (rev (map fst out))
                (rev (map2 ndiv (map fst out) (map r_dw rs)))) end).
  Definition radial_result (l : list trip) (rs : list row) (out : list (N * N)) : psd_result :=
    mkPsd (rev (tl (map (fun x => nmul (radius_of (fst (snd x)) (snd (snd x))) c2) l)))
          (rev (map snd out)) (rev (map fst out))
          (rev (map2 (fun pv dr => ndiv (ndiv pv dr) c2) (map fst out) (map r_dw rs))).
  Definition psd_bjh (vol thick kr : list N) (g : string) : res psd_result :=
    len_checks vol kr
    (if negb (String.eqb g "cylinder") then Err ParameterError else
      let l := desc vol thick kr in let rs := rows radius_of l in
      Ok (radial_result l rs (bjh_loop rs []))).
  Definition psd_dollimore_heal (vol thick kr : list N) (g : string) : res psd_result :=
    len_checks vol kr
    (if negb (String.eqb g "cylinder") then Err ParameterError else
      let l := desc vol thick kr in let rs := rows radius_of l in
      Ok (radial_result l rs (dhl_loop rs c0 c0))).

  (* psd_mesoporous: parameter checks, limits (default (0.1, 0.99)), slices, method, cumulative curve shifted to end at V[-1] *)
  Fixpoint cumsum (l : list N) (acc : N) : list N :=
    match l with [] => [] | x :: r => nadd acc x :: cumsum r (nadd acc x) end.
  Definition cumulative (pv : list N) (vlast : N) : list N :=
    let cs := cumsum pv c0 in let lc := last cs c0 in map (fun c => nadd (nsub c lc) vlast) cs.
  Definition mem (s : string) (l : list string) : bool := existsb (String.eqb s) l.
  Definition psd_mesoporous (method g : string) (pressure vol thick kr : list N) (limits : option (option N * option N))
    : res (psd_result * list N * (Z * Z)) :=
    if negb (mem method ["pygaps-DH"; "BJH"; "DH"]) then Err ParameterError else
    if negb (mem g ["slit"; "cylinder"; "halfopen-cylinder"; "sphere"]) then Err ParameterError else
    let w0 := match limits with None => manual_window N pressure (Some (nofQ (1 # 10))) (Some (nofQ (99 # 100)))
                              | Some (lo, hi) => manual_window N pressure lo hi end in
    bind (check3 w0) (fun w =>
      let v := slice w vol in let t := slice w thick in let k := slice w kr in
      bind (if String.eqb method "pygaps-DH" then psd_pygapsdh v t k g
            else if String.eqb method "BJH" then psd_bjh v t k g else psd_dollimore_heal v t k g)
           (fun r => Ok (r, cumulative (p_volumes r) (last v c0), w))).
End Psd.
Arguments p_widths {N}. Arguments p_areas {N}. Arguments p_volumes {N}. Arguments p_dist {N}.
Arguments r_dv {N}. Arguments r_dt {N}. Arguments r_at {N}. Arguments r_aw {N}. Arguments r_ak {N}. Arguments r_dw {N}.

Open Scope R_scope.
Open Scope list_scope.
Ltac rconst := unfold sq, avg2 in *; unfold c0, c1, c2, c1000, cm3 in *; rops;
  replace (Q2R 0) with 0 in * by (unfold Q2R; simpl; lra); replace (Q2R 1) with 1 in * by (unfold Q2R; simpl; lra);
  replace (Q2R (2 # 1)) with 2 in * by (unfold Q2R; simpl; lra); replace (Q2R (1000 # 1)) with 1000 in * by (unfold Q2R; simpl; lra).

Ltac chk H kr vol := change (t RNum) with R in *;
  destruct (length kr =? 0)%nat; simpl in H; [discriminate H|];
  destruct (negb (length vol =? length kr)%nat); simpl in H; [discriminate H|].
Ltac cyl H g := destruct (negb (g =? "cylinder")%string); simpl in H; [discriminate H|].

(* ---------- zero thickness: the pore volumes are the successive decrements of the adsorbed volume *)
Definition zero_thick (l : list (trip RNum)) : Prop := Forall (fun x : trip RNum => fst (snd x) = 0 /\ 0 < snd (snd x)) l.
Fixpoint incr (l : list (trip RNum)) : list R :=
  match l with x :: r => match r with y :: _ => (fst x - fst y) :: incr r | [] => [] end | [] => [] end.

Lemma rows_zero_width (l : list (trip RNum)) : zero_thick l ->
  Forall (fun r : row RNum => r_dt r = 0 /\ r_at r = 0 /\ 0 < r_aw r /\ r_ak r * 2 = r_aw r) (rows RNum (width_of RNum) l)
  /\ Forall (fun r : row RNum => r_dt r = 0 /\ r_at r = 0 /\ 0 < r_aw r /\ r_ak r = r_aw r) (rows RNum (radius_of RNum) l)
  /\ map r_dv (rows RNum (width_of RNum) l) = incr l /\ map r_dv (rows RNum (radius_of RNum) l) = incr l.
Proof.
  induction l as [|[v1 [t1 k1]] r IH]; intro H; [simpl; repeat split; constructor|].
  inversion H as [|? ? [Ht Hk] Hr]; subst. simpl in Ht, Hk. subst t1. destruct r as [|[v2 [t2 k2]] r'].
  - simpl; repeat split; constructor.
  - destruct (IH Hr) as (I1 & I2 & I3 & I4). inversion Hr as [|? ? [Ht2 Hk2] _]; subst. simpl in Ht2, Hk2. subst t2.
    change (rows RNum (width_of RNum) ((v1, (0, k1)) :: (v2, (0, k2)) :: r'))
      with (mkRow RNum (v1 - v2) (0 - 0) (avg2 RNum 0 0) (avg2 RNum (width_of RNum 0 k1) (width_of RNum 0 k2)) (avg2 RNum k1 k2)
                  (width_of RNum 0 k1 - width_of RNum 0 k2) :: rows RNum (width_of RNum) ((v2, (0, k2)) :: r')).
    change (rows RNum (radius_of RNum) ((v1, (0, k1)) :: (v2, (0, k2)) :: r'))
      with (mkRow RNum (v1 - v2) (0 - 0) (avg2 RNum 0 0) (avg2 RNum (radius_of RNum 0 k1) (radius_of RNum 0 k2)) (avg2 RNum k1 k2)
                  (radius_of RNum 0 k1 - radius_of RNum 0 k2) :: rows RNum (radius_of RNum) ((v2, (0, k2)) :: r')).
    repeat split.
    + constructor; [|exact I1]. cbn [r_dt r_at r_aw r_ak]. unfold width_of. rconst. repeat split; lra.
    + constructor; [|exact I2]. cbn [r_dt r_at r_aw r_ak]. unfold radius_of. rconst. repeat split; lra.
    + cbn [map r_dv]. apply (f_equal (cons (v1 - v2))). exact I3.
    + cbn [map r_dv]. apply (f_equal (cons (v1 - v2))). exact I4.
Qed.

Lemma dh_loop_zero c (rs : list (row RNum)) : Forall (fun r : row RNum => r_dt r = 0 /\ r_at r = 0 /\ 0 < r_aw r /\ r_ak r * 2 = r_aw r) rs ->
  forall sac, map fst (dh_loop RNum c rs sac) = map r_dv rs.
Proof.
  induction 1 as [|r rs (Hdt & Hat & Haw & _) _ IH]; intro sac; [reflexivity|].
  cbn [dh_loop map fst]. rewrite IH. f_equal. rconst. rewrite Hdt, Hat. field. lra.
Qed.
Lemma bjh_loop_zero (rs : list (row RNum)) : Forall (fun r : row RNum => r_dt r = 0 /\ r_at r = 0 /\ 0 < r_aw r /\ r_ak r = r_aw r) rs ->
  forall prev, map fst (bjh_loop RNum rs prev) = map r_dv rs.
Proof.
  induction 1 as [|r rs (Hdt & Hat & Haw & Hak) _ IH]; intro prev; [reflexivity|].
  cbn [bjh_loop map fst]. rewrite IH. f_equal. rconst. rewrite Hdt, Hak.
  set (S := fold_left _ prev 0). field. lra.
Qed.
Lemma dhl_loop_zero (rs : list (row RNum)) : Forall (fun r : row RNum => r_dt r = 0 /\ r_at r = 0 /\ 0 < r_aw r /\ r_ak r = r_aw r) rs ->
  forall saf s2, map fst (dhl_loop RNum rs saf s2) = map r_dv rs.
Proof.
  induction 1 as [|r rs (Hdt & Hat & Haw & Hak) _ IH]; intros saf s2; [reflexivity|].
  cbn [dhl_loop map fst]. rewrite IH. f_equal. rconst. rewrite Hdt, Hak. field. lra.
Qed.

Lemma incr_telescope (l : list (trip RNum)) : Rsum (incr l) = match l with [] => 0 | x :: _ => fst x - fst (last l x) end.
Proof.
  induction l as [|x r IH]; [reflexivity|]. destruct r as [|y r']; [simpl; lra|].
  change (incr (x :: y :: r')) with ((fst x - fst y) :: incr (y :: r')). cbn [Rsum fold_right]. fold (Rsum (incr (y :: r'))).
  rewrite IH. change (last (x :: y :: r') x) with (last (y :: r') x).
  assert (last (y :: r') x = last (y :: r') y) as -> by (clear; revert y; induction r' as [|z r IH]; intro y; [reflexivity|]; simpl in *; destruct r; auto).
  lra.
Qed.
Lemma Rsum_app a b : Rsum (a ++ b) = Rsum a + Rsum b.
Proof. induction a; simpl; [lra|]. unfold Rsum in *. simpl. rewrite IHa. lra. Qed.
Lemma Rsum_rev l : Rsum (rev l) = Rsum l.
Proof. induction l; [reflexivity|]. simpl rev. rewrite Rsum_app, IHl. unfold Rsum; simpl; lra. Qed.

Definition method_result (m : nat) (vol thick kr : list R) : res (psd_result RNum) :=
  match m with O => psd_pygapsdh RNum vol thick kr "cylinder" | 1%nat => psd_bjh RNum vol thick kr "cylinder"
             | _ => psd_dollimore_heal RNum vol thick kr "cylinder" end.

(* all three methods and the three pore geometries of pygaps-DH *)
Theorem zero_thickness_volumes : forall (vol thick kr : list R) (g : string) (r : psd_result RNum),
  zero_thick (desc RNum vol thick kr) ->
  (psd_pygapsdh RNum vol thick kr g = Ok r \/ psd_bjh RNum vol thick kr g = Ok r \/ psd_dollimore_heal RNum vol thick kr g = Ok r) ->
  p_volumes r = rev (incr (desc RNum vol thick kr)) /\
  Rsum (p_volumes r) = match desc RNum vol thick kr with [] => 0 | x :: _ => fst x - fst (last (desc RNum vol thick kr) x) end.
Proof.
  intros vol thick kr g r Hz H.
  destruct (rows_zero_width _ Hz) as (Z1 & Z2 & Z3 & Z4).
  assert (Hv : p_volumes r = rev (incr (desc RNum vol thick kr))).
  { destruct H as [H|[H|H]]; unfold psd_pygapsdh, psd_bjh, psd_dollimore_heal, len_checks in H; chk H kr vol.
    - destruct (c_length g) as [c|]; simpl in H; [|discriminate H]. injection H as <-. cbn [p_volumes].
      rewrite (dh_loop_zero c _ Z1). apply (f_equal (@rev R)). exact Z3.
    - cyl H g. injection H as <-. cbn [radial_result p_volumes].
      rewrite (bjh_loop_zero _ Z2). apply (f_equal (@rev R)). exact Z4.
    - cyl H g. injection H as <-. cbn [radial_result p_volumes].
      rewrite (dhl_loop_zero _ Z2). apply (f_equal (@rev R)). exact Z4. }
  split; [exact Hv|]. rewrite Hv, Rsum_rev. apply incr_telescope.
Qed.

(* ---------- widths *)
Lemma combine_snoc {A B} (a : list A) : forall (b : list B) x y, length a = length b ->
  combine (a ++ [x]) (b ++ [y]) = combine a b ++ [(x, y)].
Proof. induction a; intros [|z b] x y H; simpl in *; try discriminate; [reflexivity|]. f_equal. apply IHa. lia. Qed.
Lemma combine_rev {A B} (a : list A) : forall (b : list B), length a = length b -> combine (rev a) (rev b) = rev (combine a b).
Proof.
  induction a; intros [|y b] H; simpl in *; try discriminate; [reflexivity|].
  rewrite combine_snoc by (rewrite !rev_length; lia). rewrite IHa by lia. reflexivity.
Qed.
Lemma rev_tl_rev {A} (m : list A) : rev (tl (rev m)) = removelast m.
Proof.
  destruct m as [|a m] using rev_ind; [reflexivity|]. rewrite rev_app_distr. simpl. rewrite rev_involutive, removelast_last. reflexivity.
Qed.
Lemma map_combine3 {A B C D} (f : B -> C -> D) : forall (v : list A) (t : list B) (k : list C), length v = length t -> length t = length k ->
  map (fun x : A * (B * C) => f (fst (snd x)) (snd (snd x))) (combine v (combine t k)) = map2 f t k.
Proof. induction v; intros [|b t] [|c k] H1 H2; simpl in *; try discriminate; [reflexivity|]. f_equal. apply IHv; lia. Qed.

Lemma map2_ext {A B C} (f g : A -> B -> C) : (forall x y, f x y = g x y) -> forall a b, map2 f a b = map2 g a b.
Proof. intros H; induction a; intros [|y b]; simpl; auto. rewrite H, IHa. reflexivity. Qed.

(* reported widths = 2 (r_K + t) at the measured pressures (all but the highest), in the order of the pressures *)
Theorem widths_are_2_r_plus_t : forall (vol thick kr : list R) (g : string) (r : psd_result RNum),
  length vol = length thick -> length thick = length kr ->
  (psd_pygapsdh RNum vol thick kr g = Ok r \/ psd_bjh RNum vol thick kr g = Ok r \/ psd_dollimore_heal RNum vol thick kr g = Ok r) ->
  p_widths r = removelast (map2 (fun t k => 2 * (t + k)) thick kr).
Proof.
  intros vol thick kr g r H1 H2 H.
  assert (Hd : desc RNum vol thick kr = rev (combine vol (combine thick kr))).
  { unfold desc. change (t RNum) with R in *. rewrite (combine_rev thick kr H2). apply combine_rev. rewrite combine_length, <- H2, <- H1. apply eq_sym, Nat.min_id. }
  destruct H as [H|[H|H]]; unfold psd_pygapsdh, psd_bjh, psd_dollimore_heal, len_checks in H; chk H kr vol.
  - destruct (c_length g) as [c|]; simpl in H; [|discriminate H]. injection H as <-. cbn [p_widths]. rewrite Hd, map_rev, rev_tl_rev.
    rewrite (@map_combine3 R R R R (width_of RNum)) by assumption. f_equal. apply map2_ext. intros; unfold width_of; rconst; lra.
  - cyl H g. injection H as <-. cbn [radial_result p_widths]. rewrite Hd, map_rev, rev_tl_rev.
    rewrite (@map_combine3 R R R R (fun t k => nmul (radius_of RNum t k) (c2 RNum))) by assumption. f_equal.
    apply map2_ext. intros; unfold radius_of; rconst; lra.
  - cyl H g. injection H as <-. cbn [radial_result p_widths]. rewrite Hd, map_rev, rev_tl_rev.
    rewrite (@map_combine3 R R R R (fun t k => nmul (radius_of RNum t k) (c2 RNum))) by assumption. f_equal.
    apply map2_ext. intros; unfold radius_of; rconst; lra.
Qed.

Lemma map2_lower (a b : R) : forall (t k : list R), Forall (Rlt a) t -> Forall (Rlt b) k ->
  Forall (Rlt (2 * (a + b))) (map2 (fun t k => 2 * (t + k)) t k).
Proof. induction t; intros [|y k] Ht Hk; simpl; try constructor; inversion Ht; inversion Hk; subst; [lra|auto]. Qed.
Theorem widths_increasing : forall thick kr : list R, StronglySorted Rlt thick -> StronglySorted Rlt kr ->
  StronglySorted Rlt (map2 (fun t k => 2 * (t + k)) thick kr).
Proof.
  induction thick as [|t thick IH]; intros [|k kr] Ht Hk; simpl; try constructor.
  - apply IH; [inversion Ht|inversion Hk]; assumption.
  - apply map2_lower; [inversion Ht|inversion Hk]; assumption.
Qed.

(* ---------- distribution x width increment = volume (descending-pressure order, as the code computes it) *)
Lemma map2_div_mul : forall a b : list R, Forall (fun x => x <> 0) b -> length a = length b ->
  map2 Rmult (map2 Rdiv a b) b = a.
Proof. induction a; intros [|y b] Hb Hl; simpl in *; try discriminate; [reflexivity|]. inversion Hb; subst. f_equal; [field; assumption|apply IHa; [assumption|lia]]. Qed.
Lemma map2_div2_mul : forall a b : list R, Forall (fun x => x <> 0) b -> length a = length b ->
  map2 Rmult (map2 (fun pv dr => pv / dr / 2) a b) (map (fun dr => 2 * dr) b) = a.
Proof. induction a; intros [|y b] Hb Hl; simpl in *; try discriminate; [reflexivity|]. inversion Hb; subst. f_equal; [field; assumption|apply IHa; [assumption|lia]]. Qed.
Lemma dh_loop_len c rs : forall s, length (dh_loop RNum c rs s) = length rs.
Proof. induction rs; intro s; simpl; [reflexivity|]. rewrite IHrs. reflexivity. Qed.
Lemma bjh_loop_len rs : forall s, length (bjh_loop RNum rs s) = length rs.
Proof. induction rs; intro s; simpl; [reflexivity|]. rewrite IHrs. reflexivity. Qed.
Lemma dhl_loop_len rs : forall s s', length (dhl_loop RNum rs s s') = length rs.
Proof. induction rs; intros s s'; simpl; [reflexivity|]. rewrite IHrs. reflexivity. Qed.

(* stated per method, with the non-zero width increments as hypothesis *)
Theorem distribution_times_dwidth_dh : forall (vol thick kr : list R) (g : string) (r : psd_result RNum),
  psd_pygapsdh RNum vol thick kr g = Ok r ->
  Forall (fun x => x <> 0) (map r_dw (rows RNum (width_of RNum) (desc RNum vol thick kr))) ->
  map2 Rmult (rev (p_dist r)) (map r_dw (rows RNum (width_of RNum) (desc RNum vol thick kr))) = rev (p_volumes r).
Proof.
  intros vol thick kr g r H F. unfold psd_pygapsdh, len_checks in H. chk H kr vol.
  destruct (c_length g) as [c|]; simpl in H; [|discriminate H]. injection H as <-. cbn [p_dist p_volumes]. rewrite !rev_involutive.
  change (@ndiv RNum) with Rdiv. apply map2_div_mul; [exact F|]. rewrite !map_length. apply dh_loop_len.
Qed.
Theorem distribution_times_dwidth_radial : forall (vol thick kr : list R) (g : string) (r : psd_result RNum),
  psd_bjh RNum vol thick kr g = Ok r \/ psd_dollimore_heal RNum vol thick kr g = Ok r ->
  Forall (fun x => x <> 0) (map r_dw (rows RNum (radius_of RNum) (desc RNum vol thick kr))) ->
  map2 Rmult (rev (p_dist r)) (map (fun dr => 2 * dr) (map r_dw (rows RNum (radius_of RNum) (desc RNum vol thick kr)))) = rev (p_volumes r).
Proof.
  intros vol thick kr g r H F.
  destruct H as [H|H]; unfold psd_bjh, psd_dollimore_heal, len_checks in H; chk H kr vol; cyl H g;
    injection H as <-; cbn [radial_result p_dist p_volumes]; rewrite !rev_involutive.
  - replace (fun pv dr : RNum => ndiv (ndiv pv dr) (c2 RNum)) with (fun pv dr : R => pv / dr / 2) by (rconst; reflexivity).
    apply map2_div2_mul; [exact F|]. rewrite !map_length. apply bjh_loop_len.
  - replace (fun pv dr : RNum => ndiv (ndiv pv dr) (c2 RNum)) with (fun pv dr : R => pv / dr / 2) by (rconst; reflexivity).
    apply map2_div2_mul; [exact F|]. rewrite !map_length. apply dhl_loop_len.
Qed.

(* ---------- cumulative curve *)
Lemma last_map {A B} (f : A -> B) (l : list A) d d' : l <> [] -> last (map f l) d' = f (last l d).
Proof. induction l as [|a l IH]; [congruence|]. intros _. destruct l; [reflexivity|]. simpl in *. apply IH. congruence. Qed.
Lemma cumsum_nonempty (l : list R) a : l <> [] -> cumsum RNum l a <> [].
Proof. destruct l; [congruence|]. simpl. congruence. Qed.
Theorem cumulative_ends_at_last : forall (pv : list R) (vlast : R), pv <> [] -> last (cumulative RNum pv vlast) 0 = vlast.
Proof.
  intros pv vlast H. unfold cumulative. cbv zeta.
  rewrite (last_map _ _ (c0 RNum)) by (apply cumsum_nonempty, H). rconst. lra.
Qed.

Lemma zero_thick_example : zero_thick (desc RNum [1; 2; 4] [0; 0; 0] [1; 2; 3]).
Proof. repeat constructor; simpl; lra. Qed.
