(* Execution helpers for the C15 correspondence: the accessor model of Charact/Invariance.v on QNum against
   PointIsotherm.pressure() / loading() / loading_at(); comparisons inside Coq, small integers printed. *)
From Coq Require Import QArith ZArith String List Bool.
From PG Require Import Lib.Num Lib.Py Lib.Show Gen.UnitsGen1 Units.AdsOracle Gen.UnitsGen2 Charact.Invariance.
Import ListNotations.
Definition cmp_list (r : res (list Q)) (oc : Z) (exp : list (Z * Z)) : Z * Z :=
  match r with
  | Ok l => (0%Z, if (oc =? 0)%Z && all_close 1 100000000000 l exp then 1%Z else 0%Z)
  | Err e => (exn_code e, if (oc =? exn_code e)%Z then 1%Z else 0%Z) end.
Definition show_acc_p (sm su : option string) (a : adsorbate QNum) (T : option Q) (col : list Q) (pm pu : option string) (oc : Z) (exp : list (Z * Z)) :=
  cmp_list (acc_pressure QNum sm su a T col pm pu) oc exp.
Definition show_acc_l (sb su smb smu : option string) (a : adsorbate QNum) (T : option Q) (col : list Q) (lb lu : option string) (oc : Z) (exp : list (Z * Z)) :=
  cmp_list (acc_loading QNum sb su smb smu a T col lb lu) oc exp.
Definition show_arg_p (sm su : option string) (a : adsorbate QNum) (T : option Q) (p : Q) (pm pu : option string) (oc m e : Z) :=
  cmpq 1 100000000000 (arg_pressure QNum sm su a T p pm pu) oc m e.
