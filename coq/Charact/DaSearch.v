(* C14: the exponent search of da_plot_raw (exp = None).
   The code minimises, over the exponent e in [1, 3], the objective `stderr / abs(slope)` of the regression of ln V against
   (-ln p)^e (GENERATED: da_search_objective, da_search_lower / upper from the nested dr_fit and the minimize_scalar call).
   stderr is scipy.stats.linregress's standard error of the slope, sqrt((1 - r^2) * ssym / ssxm / (n - 2)).
   On data generated exactly by the Dubinin-Astakhov equation with exponent m:
     - the objective is 0 at e = m and >= 0 everywhere: m is a global minimiser            (da_generating_exponent_minimises)
     - with at least three points it is > 0 at every other e > 0: m is the ONLY minimiser   (da_objective_positive_elsewhere)
       [three points of the graph of u |-> u^(m/e) are never collinear: mean value theorem on two adjacent chords]
     - hence an optimiser that returns a global minimiser of the objective on [1, 3] returns m, and da_plot_raw then returns
       V0 and E                                                                              (da_search_recovers_under_contract)
   What is NOT proved: that scipy's bounded Brent search meets that contract (it is a local method; the objective is not shown
   to be unimodal) - validated on the implementation by tools/props/c14.py (exponent recovered to the optimiser's xatol). *)
From Coq Require Import Reals Lra QArith Qreals ZArith String List Bool Lia Sorted.
From PG Require Import Lib.Num Lib.Py Lib.Tac Gen.CharactGen Charact.Ols Charact.Window Charact.ListAux Charact.BetLang Charact.DrDa.
Import ListNotations.
Open Scope R_scope.

(* ---------- scipy.stats.linregress: standard error of the slope *)
Definition ssq (xs : list R) : R := dot RNum (dev RNum (nmean RNum xs) xs) (dev RNum (nmean RNum xs) xs).
Definition sxy (xs ys : list R) : R := dot RNum (dev RNum (nmean RNum xs) xs) (dev RNum (nmean RNum ys) ys).
Definition ols_stderr (xs ys : list R) : R :=
  let n := INR (length xs) in
  sqrt ((1 - rsq (ols RNum xs ys)) * (ssq ys / n) / (ssq xs / n) / (n - 2)).
Definition da_objective (ps ls : list R) (M rho e : R) : R :=
  let xs := da_xs RNum ln Rpower ps e in let ys := da_ys RNum ln ls M rho in
  da_search_objective RNum Rabs (ols_stderr xs ys) (slope (ols RNum xs ys)).

(* ---------- residual sum of squares *)
Definition resid (sl : R) (dx dy : list R) : list R := map2 (fun a b => b - sl * a) dx dy.
Lemma dot_resid (sl : R) : forall dx dy : list R, length dx = length dy ->
  dot RNum (resid sl dx dy) (resid sl dx dy) = dot RNum dy dy - 2 * sl * dot RNum dx dy + sl * sl * dot RNum dx dx.
Proof.
  induction dx as [|a dx IH]; intros [|b dy] Hl; try discriminate; [unfold resid; simpl; dsimp; lra|].
  injection Hl as Hl. unfold resid in *. cbn [map2]. rewrite !dot_cons, (IH dy Hl). rops. ring.
Qed.
Lemma dot_self_nonneg (r : list R) : 0 <= dot RNum r r.
Proof. induction r as [|a r IH]; dsimp; [lra|]. pose proof (Rle_0_sqr a) as Hs; unfold Rsqr in Hs. lra. Qed.
Lemma dot_self_zero (r : list R) : dot RNum r r = 0 -> Forall (fun x => x = 0) r.
Proof.
  induction r as [|a r IH]; intro H; [constructor|]. rewrite dot_cons in H.
  pose proof (dot_self_nonneg r) as Hr. pose proof (Rle_0_sqr a) as Hs; unfold Rsqr in Hs.
  assert (Ha : a * a = 0) by lra. assert (Hd : dot RNum r r = 0) by lra.
  constructor; [|apply IH, Hd]. destruct (Rmult_integral _ _ Ha); assumption.
Qed.
Lemma resid_zero_affine (sl xm ym : R) : forall xs ys : list R, length xs = length ys ->
  Forall (fun x => x = 0) (resid sl (dev RNum xm xs) (dev RNum ym ys)) -> Forall2 (affine (ym - sl * xm) sl) xs ys.
Proof.
  induction xs as [|x xs IH]; intros [|y ys] Hl H; try discriminate; [constructor|].
  injection Hl as Hl. unfold resid in H. rewrite !dev_cons in H. cbn [map2] in H. inversion H as [|? ? H0 Hr]; subst.
  constructor; [unfold affine; lra|]. apply IH; assumption.
Qed.
Lemma dev_length (m : R) (l : list R) : length (dev RNum m l) = length l.
Proof. unfold dev. apply map_length. Qed.

(* (1 - r^2) ssym / ssxm = RSS / ssx: the quantity under the square root is RSS / ssx / (n - 2) *)
Definition rss (xs ys : list R) : R :=
  let r := resid (slope (ols RNum xs ys)) (dev RNum (nmean RNum xs) xs) (dev RNum (nmean RNum ys) ys) in dot RNum r r.
Lemma stderr_radicand (xs ys : list R) : length xs = length ys -> 0 < ssq xs -> 0 < ssq ys -> 0 < INR (length xs) ->
  (1 - rsq (ols RNum xs ys)) * (ssq ys / INR (length xs)) / (ssq xs / INR (length xs)) = rss xs ys / ssq xs.
Proof.
  intros Hl Hx Hy Hn. unfold rss. cbv zeta. rewrite dot_resid by (rewrite !dev_length; exact Hl).
  unfold ols; cbv zeta; cbn [slope rsq]. rewrite !nlen_R. rops.
  fold (ssq xs) (ssq ys) (sxy xs ys).
  set (n := INR (length xs)) in *. set (A := ssq xs) in *. set (B := ssq ys) in *. set (C := sxy xs ys).
  rewrite orb_eqb_false.
  - field. repeat split; lra.
  - unfold Rdiv. apply Rmult_integral_contrapositive_currified; [lra | apply Rinv_neq_0_compat; lra].
  - unfold Rdiv. apply Rmult_integral_contrapositive_currified; [lra | apply Rinv_neq_0_compat; lra].
Qed.
Lemma rss_nonneg xs ys : 0 <= rss xs ys.
Proof. apply dot_self_nonneg. Qed.
Lemma rss_zero_affine xs ys : length xs = length ys -> rss xs ys = 0 -> exists a b, Forall2 (affine a b) xs ys.
Proof.
  intros Hl H. apply dot_self_zero in H. eexists; eexists. apply (resid_zero_affine _ _ _ xs ys Hl H).
Qed.

(* ---------- three points of the graph of u |-> u^k, k <> 0, 1, are not collinear *)
Lemma Rpower_strict_mono_exp (c1 c2 d : R) : 0 < c1 -> c1 < c2 -> d <> 0 -> Rpower c1 d <> Rpower c2 d.
Proof.
  intros H1 H2 Hd. destruct (Rlt_dec 0 d) as [Hp|Hn].
  - pose proof (Rlt_Rpower_l c1 c2 d Hp (conj H1 H2)). lra.
  - assert (Hq : 0 < - d) by lra.
    pose proof (Rlt_Rpower_l c1 c2 (- d) Hq (conj H1 H2)) as Hlt.
    rewrite !Rpower_Ropp in Hlt. intro Heq. rewrite Heq in Hlt. lra.
Qed.
Lemma power_chords (k u1 u2 u3 a b : R) : k <> 0 -> k <> 1 -> 0 < u1 -> u1 < u2 -> u2 < u3 ->
  Rpower u1 k = a + b * u1 -> Rpower u2 k = a + b * u2 -> Rpower u3 k = a + b * u3 -> False.
Proof.
  intros Hk0 Hk1 H1 H12 H23 E1 E2 E3.
  set (f := fun u : R => Rpower u k). set (f' := fun u : R => k * Rpower u (k - 1)).
  assert (D : forall a0 b0, 0 < a0 -> forall c, a0 <= c <= b0 -> derivable_pt_lim f c (f' c)).
  { intros a0 b0 Ha c Hc. apply derivable_pt_lim_power. lra. }
  destruct (MVT_cor2 f f' u1 u2 H12 (D u1 u2 H1)) as (c1 & Hc1 & Hr1).
  destruct (MVT_cor2 f f' u2 u3 H23 (D u2 u3 ltac:(lra))) as (c2 & Hc2 & Hr2).
  unfold f, f' in Hc1, Hc2. rewrite E1, E2 in Hc1. rewrite E2, E3 in Hc2.
  assert (S1 : k * Rpower c1 (k - 1) = b) by (apply (Rmult_eq_reg_r (u2 - u1)); lra).
  assert (S2 : k * Rpower c2 (k - 1) = b) by (apply (Rmult_eq_reg_r (u3 - u2)); lra).
  assert (Heq : Rpower c1 (k - 1) = Rpower c2 (k - 1)) by (apply (Rmult_eq_reg_l k); lra).
  apply (Rpower_strict_mono_exp c1 c2 (k - 1)); lra.
Qed.

(* ---------- exact Dubinin-Astakhov data *)
Lemma da_ps_unit (V0 E m T M rho : R) (ps ls : list R) : Forall2 (da_data V0 E m T M rho) ps ls -> forall x, In x ps -> 0 < x < 1.
Proof. induction 1 as [|a b ? ? Hab _ IH]; intros x Hx; [destruct Hx|]. destruct Hx as [<-|Hx]; [exact (proj1 Hab)|auto]. Qed.
Lemma da_ys_affine (V0 E m T M rho : R) (ps ls : list R) : 0 < V0 -> 0 < E -> 0 < T -> 0 < M -> 0 < rho ->
  Forall2 (da_data V0 E m T M rho) ps ls ->
  Forall2 (affine (ln V0) (- Rpower (gas_R * T / (1000 * E)) m)) (da_xs RNum ln Rpower ps m) (da_ys RNum ln ls M rho).
Proof. intros HV HE HT HM Hr. unfold da_xs, da_ys. induction 1; simpl; constructor; auto. apply (da_linear V0 E m T M rho); assumption. Qed.
Lemma affine_image (a b : R) : forall xs ys, Forall2 (affine a b) xs ys -> forall x, In x xs -> In (a + b * x) ys.
Proof. induction 1 as [|x0 y0 ? ? Hab _ IH]; intros x Hx; [destruct Hx|]. destruct Hx as [<-|Hx]; [left; exact Hab|right; auto]. Qed.

Lemma sorted_three (ps : list R) : StronglySorted Rlt ps -> (3 <= length ps)%nat -> (forall x, In x ps -> 0 < x < 1) ->
  exists p1 p2 p3 rest, ps = p1 :: p2 :: p3 :: rest /\ 0 < p1 /\ p1 < p2 /\ p2 < p3 /\ p3 < 1.
Proof.
  intros Hs Hl Hu. destruct ps as [|p1 [|p2 [|p3 rest]]]; simpl in Hl; try lia.
  exists p1, p2, p3, rest. split; [reflexivity|].
  pose proof (Hu p1 (or_introl eq_refl)). pose proof (Hu p3 (or_intror (or_intror (or_introl eq_refl)))).
  inversion Hs as [|? ? Hs2 Ha1]; subst. inversion Hs2 as [|? ? _ Ha2]; subst.
  inversion Ha1; subst. inversion Ha2; subst. lra.
Qed.

Section Exact.
  Variables (V0 E m T M rho : R).
  Hypotheses (HV : 0 < V0) (HE : 0 < E) (Hm : 0 < m) (HT : 0 < T) (HM : 0 < M) (Hr : 0 < rho).
  Variables (ps ls : list R).
  Hypothesis Hs : StronglySorted Rlt ps.
  Hypothesis HF : Forall2 (da_data V0 E m T M rho) ps ls.

  Let B := - Rpower (gas_R * T / (1000 * E)) m.
  Lemma B_neg : B < 0.
  Proof. unfold B. pose proof (exp_pos (m * ln (gas_R * T / (1000 * E)))). unfold Rpower. lra. Qed.
  Lemma ps_unit : forall x, In x ps -> 0 < x < 1.
  Proof. exact (da_ps_unit V0 E m T M rho ps ls HF). Qed.
  Lemma ys_affine_m : Forall2 (affine (ln V0) B) (da_xs RNum ln Rpower ps m) (da_ys RNum ln ls M rho).
  Proof. exact (da_ys_affine V0 E m T M rho ps ls HV HE HT HM Hr HF). Qed.
  Lemma xs_distinct e : 0 < e -> (2 <= length ps)%nat -> two_distinct (da_xs RNum ln Rpower ps e).
  Proof.
    intros He Hl. unfold da_xs. apply (two_distinct_map _ (fun x => 0 < x < 1)); [|apply ps_unit|apply SS_two_distinct; assumption].
    intros x y Hx Hy Hne. apply log_p_exp_injective; assumption.
  Qed.
  Lemma ys_distinct : (2 <= length ps)%nat -> two_distinct (da_ys RNum ln ls M rho).
  Proof.
    intro Hl. destruct (xs_distinct m Hm Hl) as (x1 & x2 & H1 & H2 & Hne).
    pose proof ys_affine_m as HA. pose proof B_neg as HB.
    exists (ln V0 + B * x1), (ln V0 + B * x2). split; [eapply affine_image; eauto|]. split; [eapply affine_image; eauto|]. nra.
  Qed.
  Lemma lens e : length (da_xs RNum ln Rpower ps e) = length (da_ys RNum ln ls M rho).
  Proof. unfold da_xs, da_ys. rewrite !map_length. eapply F2_length, HF. Qed.

  (* the generating exponent is a global minimiser of the search objective (value 0) *)
  Theorem da_generating_exponent_minimises : (2 <= length ps)%nat ->
    da_objective ps ls M rho m = 0 /\
    (forall e, 0 < e -> slope (ols RNum (da_xs RNum ln Rpower ps e) (da_ys RNum ln ls M rho)) <> 0 -> 0 <= da_objective ps ls M rho e).
  Proof.
    intro Hl. split.
    - unfold da_objective, da_search_objective, ols_stderr. cbv zeta. rops.
      destruct (ols_exact _ _ _ _ ys_affine_m (xs_distinct m Hm Hl)) as (_ & _ & Hrs).
      rewrite Hrs by (pose proof B_neg; lra).
      match goal with |- sqrt ?q / _ = 0 => replace q with 0 by (unfold Rdiv; ring) end.
      rewrite sqrt_0. unfold Rdiv. ring.
    - intros e He Hsl. unfold da_objective, da_search_objective. cbv zeta. rops.
      apply Rmult_le_pos; [apply sqrt_pos|]. left. apply Rinv_0_lt_compat, Rabs_pos_lt, Hsl.
  Qed.

  (* ... and the only one: at any other exponent the objective is positive (at least three points) *)
  Lemma three_points : (3 <= length ps)%nat -> exists p1 p2 p3 rest, ps = p1 :: p2 :: p3 :: rest /\ 0 < p1 /\ p1 < p2 /\ p2 < p3 /\ p3 < 1.
  Proof. intro Hl. exact (sorted_three ps Hs Hl ps_unit). Qed.

  Theorem da_objective_positive_elsewhere : (3 <= length ps)%nat -> forall e, 0 < e -> e <> m ->
    slope (ols RNum (da_xs RNum ln Rpower ps e) (da_ys RNum ln ls M rho)) <> 0 -> 0 < da_objective ps ls M rho e.
  Proof.
    intros Hl e He Hne Hsl.
    assert (Hl2 : (2 <= length ps)%nat) by lia.
    set (xs := da_xs RNum ln Rpower ps e) in *. set (ys := da_ys RNum ln ls M rho) in *.
    assert (Hxy : length xs = length ys) by apply lens.
    assert (Hlx : length xs = length ps) by (unfold xs, da_xs; apply map_length).
    pose proof (two_distinct_spread (nmean RNum xs) xs (xs_distinct e He Hl2)) as Hx. fold (ssq xs) in Hx.
    pose proof (two_distinct_spread (nmean RNum ys) ys (ys_distinct Hl2)) as Hy. fold (ssq ys) in Hy.
    assert (Hn3 : 3 <= INR (length xs)) by (rewrite Hlx; replace 3 with (INR 3) by (simpl; lra); apply le_INR; exact Hl).
    unfold da_objective, da_search_objective, ols_stderr. cbv zeta. fold xs ys. rops.
    rewrite (stderr_radicand xs ys Hxy Hx Hy ltac:(lra)).
    apply Rmult_lt_0_compat; [|apply Rinv_0_lt_compat, Rabs_pos_lt, Hsl].
    apply sqrt_lt_R0.
    assert (Hpos : 0 < rss xs ys).
    { destruct (Rle_lt_or_eq_dec _ _ (rss_nonneg xs ys)) as [Hp|Hz]; [exact Hp|]. exfalso.
      destruct (rss_zero_affine xs ys Hxy (eq_sym Hz)) as (a & b & HA).
      (* then (-ln p)^m is affine in (-ln p)^e at three distinct points *)
      destruct (three_points Hl) as (p1 & p2 & p3 & rest & Eps & H0 & H12 & H23 & H31).
      pose proof ys_affine_m as HAm. pose proof B_neg as HB.
      unfold xs, ys, da_xs, da_ys in HA, HAm. rewrite Eps in HA, HAm.
      destruct ls as [|l1 [|l2 [|l3 lrest]]]; simpl in HA, HAm; try (inversion HAm; fail);
        try (inversion HAm as [|? ? ? ? _ HAm2]; inversion HAm2; fail);
        try (inversion HAm as [|? ? ? ? _ HAm2]; inversion HAm2 as [|? ? ? ? _ HAm3]; inversion HAm3; fail).
      inversion HA as [|? ? ? ? A1 HA2]; subst. inversion HA2 as [|? ? ? ? A2 HA3]; subst. inversion HA3 as [|? ? ? ? A3 _]; subst.
      inversion HAm as [|? ? ? ? M1 HM2]; subst. inversion HM2 as [|? ? ? ? M2 HM3]; subst. inversion HM3 as [|? ? ? ? M3 _]; subst.
      unfold affine, log_p_exp in *. rops.
      assert (L1 : 0 < - ln p1) by (pose proof ln_1; pose proof (ln_increasing p1 1 H0 ltac:(lra)); lra).
      assert (L12 : - ln p2 < - ln p1) by (pose proof (ln_increasing p1 p2 H0 H12); lra).
      assert (L23 : - ln p3 < - ln p2) by (pose proof (ln_increasing p2 p3 ltac:(lra) H23); lra).
      assert (L3 : 0 < - ln p3) by (pose proof ln_1; pose proof (ln_increasing p3 1 ltac:(lra) H31); lra).
      set (t1 := - ln p1) in *. set (t2 := - ln p2) in *. set (t3 := - ln p3) in *.
      (* u = t^e, u^(m/e) = t^m *)
      assert (P : forall t, Rpower (Rpower t e) (m / e) = Rpower t m).
      { intro t. rewrite Rpower_mult. f_equal. field. lra. }
      apply (power_chords (m / e) (Rpower t3 e) (Rpower t2 e) (Rpower t1 e) ((a - ln V0) / B) (b / B)).
      - unfold Rdiv. apply Rmult_integral_contrapositive_currified; [lra | apply Rinv_neq_0_compat; lra].
      - intro Hk. apply Hne. apply (Rmult_eq_reg_r (/ e)); [|apply Rinv_neq_0_compat; lra]. unfold Rdiv in Hk. rewrite Hk. field. lra.
      - unfold Rpower. apply exp_pos.
      - apply Rlt_Rpower_l; lra.
      - apply Rlt_Rpower_l; lra.
      - rewrite P. apply (Rmult_eq_reg_l B); [|lra]. replace (B * ((a - ln V0) / B + b / B * Rpower t3 e)) with (a - ln V0 + b * Rpower t3 e) by (field; lra). lra.
      - rewrite P. apply (Rmult_eq_reg_l B); [|lra]. replace (B * ((a - ln V0) / B + b / B * Rpower t2 e)) with (a - ln V0 + b * Rpower t2 e) by (field; lra). lra.
      - rewrite P. apply (Rmult_eq_reg_l B); [|lra]. replace (B * ((a - ln V0) / B + b / B * Rpower t1 e)) with (a - ln V0 + b * Rpower t1 e) by (field; lra). lra. }
    unfold Rdiv. apply Rmult_lt_0_compat; [apply Rmult_lt_0_compat; [exact Hpos|apply Rinv_0_lt_compat, Hx]|apply Rinv_0_lt_compat; lra].
  Qed.
End Exact.

(* ---------- the search, with the optimiser as an oracle under an explicit contract *)
Lemma search_bounds : da_search_lower RNum = 1 /\ da_search_upper RNum = 3.
Proof. unfold da_search_lower, da_search_upper. rops. unfold Q2R; simpl. split; lra. Qed.

(* ---------- the fitted slope is negative at EVERY exponent e > 0 (so the objective never divides by zero):
   y is a decreasing and x_e an increasing function of -ln p; covariance of oppositely ordered sequences (Chebyshev) *)
Lemma Rsum_dev (m : R) (xs : list R) : Rsum (dev RNum m xs) = Rsum xs - INR (length xs) * m.
Proof.
  induction xs as [|x xs IH]; [simpl; lra|]. rewrite dev_cons. change (length (x :: xs)) with (S (length xs)). rewrite S_INR.
  unfold Rsum in *. cbn [fold_right]. rewrite IH. lra.
Qed.
Lemma Rsum_dev_mean (xs : list R) : 0 < INR (length xs) -> Rsum (dev RNum (nmean RNum xs) xs) = 0.
Proof. intro Hn. rewrite Rsum_dev. unfold nmean. rewrite nlen_R, nsum_R. rops. field. lra. Qed.
Lemma dot_dev_shift (xm c c' : R) : forall xs ys : list R, length xs = length ys ->
  dot RNum (dev RNum xm xs) (dev RNum c ys) = dot RNum (dev RNum xm xs) (dev RNum c' ys) + (c' - c) * Rsum (dev RNum xm xs).
Proof.
  induction xs as [|x xs IH]; intros [|y ys] Hl; try discriminate; [dsimp; simpl; lra|].
  injection Hl as Hl. rewrite !dev_cons, !dot_cons, (IH ys Hl). unfold Rsum. cbn [fold_right]. rops. ring.
Qed.
Lemma power_order (x xm k : R) : 0 < x -> 0 < xm -> 0 < k ->
  0 <= (x - xm) * (Rpower x k - Rpower xm k) /\ (x <> xm -> 0 < (x - xm) * (Rpower x k - Rpower xm k)).
Proof.
  intros Hx Hm Hk. destruct (Rtotal_order x xm) as [Hlt|[->|Hgt]].
  - pose proof (Rlt_Rpower_l x xm k Hk (conj Hx Hlt)). split; [|intros _]; nra.
  - split; [lra|intro H; exfalso; apply H; reflexivity].
  - pose proof (Rlt_Rpower_l xm x k Hk (conj Hm Hgt)). split; [|intros _]; nra.
Qed.
Lemma dot_opposite_order (a B k xm : R) : B < 0 -> 0 < k -> 0 < xm -> forall xs ys : list R,
  Forall2 (fun x y => 0 < x /\ y = a + B * Rpower x k) xs ys ->
  dot RNum (dev RNum xm xs) (dev RNum (a + B * Rpower xm k) ys) <= 0 /\
  ((exists x, In x xs /\ x <> xm) -> dot RNum (dev RNum xm xs) (dev RNum (a + B * Rpower xm k) ys) < 0).
Proof.
  intros HB Hk Hm. induction 1 as [|x y xs ys [Hx ->] _ [IH1 IH2]]; [dsimp; split; [lra|intros (? & [] & _)]|].
  rewrite !dev_cons, dot_cons. destruct (power_order x xm k Hx Hm Hk) as [P1 P2].
  replace ((x - xm) * (a + B * Rpower x k - (a + B * Rpower xm k))) with (B * ((x - xm) * (Rpower x k - Rpower xm k))) by ring.
  split.
  - abs_dot. nra.
  - intros (z & [<-|Hz] & Hne).
    + specialize (P2 Hne). abs_dot. nra.
    + assert (Hd := IH2 (ex_intro _ z (conj Hz Hne))). abs_dot. nra.
Qed.
Lemma Rsum_pos (xs : list R) : Forall (Rlt 0) xs -> xs <> [] -> 0 < Rsum xs.
Proof.
  induction 1 as [|x xs Hx _ IH]; intro Hne; [congruence|]. unfold Rsum in *. cbn [fold_right].
  destruct xs as [|x' xs']; [simpl; lra|]. assert (x' :: xs' <> []) by congruence. specialize (IH H). lra.
Qed.

Lemma da_slope_negative (V0 E m T M rho e : R) (ps ls : list R) :
  0 < V0 -> 0 < E -> 0 < m -> 0 < T -> 0 < M -> 0 < rho -> 0 < e ->
  StronglySorted Rlt ps -> Forall2 (da_data V0 E m T M rho) ps ls -> (2 <= length ps)%nat ->
  slope (ols RNum (da_xs RNum ln Rpower ps e) (da_ys RNum ln ls M rho)) < 0.
Proof.
  intros HV HE Hm HT HM Hr He Hs HF Hl.
  set (xs := da_xs RNum ln Rpower ps e). set (ys := da_ys RNum ln ls M rho).
  set (B := - Rpower (gas_R * T / (1000 * E)) m).
  assert (HB : B < 0) by (apply (B_neg E m T)).
  assert (HD : two_distinct xs) by (apply (xs_distinct V0 E m T M rho ps ls Hs HF e He Hl)).
  pose proof (two_distinct_len xs HD) as Hn.
  pose proof (two_distinct_spread (nmean RNum xs) xs HD) as Hpos.
  assert (Hxy : length xs = length ys) by (apply (lens V0 E m T M rho ps ls HF)).
  (* every abscissa is positive and the ordinate is a + B x^(m/e) *)
  assert (HR : Forall2 (fun x y => 0 < x /\ y = ln V0 + B * Rpower x (m / e)) xs ys).
  { unfold xs, ys, da_xs, da_ys. clear -HF HV HE HT HM Hr He. induction HF as [|p l ps' ls' Hpl _ IH]; simpl; constructor; [|exact IH].
    pose proof (da_linear V0 E m T M rho p l HV HE HT HM Hr Hpl) as HA. unfold affine in HA. unfold log_p_exp in *. rops.
    split; [unfold Rpower; apply exp_pos|]. rewrite HA, Rpower_mult. do 3 f_equal. field. lra. }
  assert (Hxpos : Forall (Rlt 0) xs) by (clear -HR; induction HR as [|? ? ? ? [H _] _ IH]; constructor; auto).
  assert (Hxm : 0 < nmean RNum xs).
  { unfold nmean. rewrite nlen_R, nsum_R. rops. apply Rdiv_lt_0_compat; [|exact Hn].
    apply Rsum_pos; [exact Hxpos|]. destruct HD as (x1 & _ & H1 & _). intro H0. rewrite H0 in H1. destruct H1. }
  assert (Hk : 0 < m / e) by (apply Rdiv_lt_0_compat; assumption).
  destruct (dot_opposite_order (ln V0) B (m / e) (nmean RNum xs) HB Hk Hxm xs ys HR) as [_ Hneg].
  assert (Hex : exists x, In x xs /\ x <> nmean RNum xs).
  { destruct HD as (x1 & x2 & H1 & H2 & Hne). destruct (Req_dec x1 (nmean RNum xs)) as [E1|E1]; [exists x2|exists x1]; split; auto. congruence. }
  specialize (Hneg Hex).
  rewrite (dot_dev_shift _ _ (nmean RNum ys) xs ys Hxy), (Rsum_dev_mean xs Hn), Rmult_0_r, Rplus_0_r in Hneg.
  unfold ols; cbv zeta; cbn [slope]. rewrite !nlen_R. rops. fold xs ys.
  set (S := dot RNum (dev RNum (nmean RNum xs) xs) (dev RNum (nmean RNum xs) xs)) in *.
  set (C := dot RNum (dev RNum (nmean RNum xs) xs) (dev RNum (nmean RNum ys) ys)) in *.
  replace (C / INR (length xs) / (S / INR (length xs))) with (C / S) by (field; lra).
  unfold Rdiv. pose proof (Rinv_0_lt_compat S Hpos). nra.
Qed.

(* The optimiser (scipy.optimize.minimize_scalar, bounded Brent) is an oracle. CONTRACT: the exponent it returns is a global
   minimiser of the objective on the search bracket. Under it the returned exponent IS the generating one. (That Brent's local
   search meets the contract is not proved; the check validates the recovered exponent on the implementation on every run.) *)
Theorem da_search_recovers_under_contract : forall (V0 E m T M rho : R) (p l : list R) limits w (e : R),
  0 < V0 -> 0 < E -> 0 < T -> 0 < M -> 0 < rho -> da_search_lower RNum <= m <= da_search_upper RNum ->
  StronglySorted Rlt p -> Forall2 (da_data V0 E m T M rho) p l ->
  check3 (da_window_of RNum p limits) = Ok w ->
  (forall x, da_search_lower RNum <= x <= da_search_upper RNum ->
     slope (ols RNum (da_xs RNum ln Rpower (slice w p) x) (da_ys RNum ln (slice w l) M rho)) <> 0) ->
  da_search_lower RNum <= e <= da_search_upper RNum ->
  (forall x, da_search_lower RNum <= x <= da_search_upper RNum ->
     da_objective (slice w p) (slice w l) M rho e <= da_objective (slice w p) (slice w l) M rho x) ->
  e = m /\
  forall r, da_plot_raw RNum ln exp Rpower p l T M rho e limits = Ok r -> da_volume r = V0 /\ da_energy r = E /\ da_rsq r = 1.
Proof.
  intros V0 E m T M rho p l limits w e HV HE HT HM Hr Hb Hs HF Hw Hsl Hin Hmin.
  destruct search_bounds as [Hlo Hhi]. rewrite Hlo, Hhi in *.
  assert (Hm : 0 < m) by lra.
  assert (Hbw : (0 <= fst (da_window_of RNum p limits))%Z /\ (snd (da_window_of RNum p limits) < Z.of_nat (length p))%Z).
  { unfold da_window_of. destruct limits as [[lo hi]|]; apply manual_window_bounds. }
  assert (Hw' := Hw). unfold check3 in Hw'. destruct (snd (da_window_of RNum p limits) - fst (da_window_of RNum p limits) <? 2)%Z eqn:E2; [discriminate|].
  injection Hw' as Hweq. apply Z.ltb_ge in E2.
  assert (Hlen : (3 <= length (slice w p))%nat) by (rewrite <- Hweq, slice_length by tauto; lia).
  assert (Hss : StronglySorted Rlt (slice w p)) by (unfold slice; apply SS_firstn, SS_skipn, Hs).
  assert (HFs : Forall2 (da_data V0 E m T M rho) (slice w p) (slice w l)) by (apply F2_slice, HF).
  destruct (da_generating_exponent_minimises V0 E m T M rho HV HE Hm HT HM Hr _ _ Hss HFs ltac:(lia)) as [H0 _].
  assert (He : e = m).
  { destruct (Req_dec e m) as [Heq|Hne]; [exact Heq|]. exfalso.
    pose proof (da_objective_positive_elsewhere V0 E m T M rho HV HE Hm HT HM Hr _ _ Hss HFs Hlen e ltac:(lra) Hne (Hsl e Hin)) as Hpos.
    specialize (Hmin m Hb). lra. }
  split; [exact He|]. intros r Hr0. rewrite He in Hr0.
  destruct (da_recovers_given_exponent V0 E m T M rho p l limits r HV HE Hm HT HM Hr Hs HF Hr0) as (A & B & _ & _ & _ & C). auto.
Qed.

(* ---------- final statements (the slope hypothesis discharged by da_slope_negative) *)
Theorem da_generating_exponent_is_the_global_minimiser : forall (V0 E m T M rho : R) (ps ls : list R),
  0 < V0 -> 0 < E -> 0 < m -> 0 < T -> 0 < M -> 0 < rho ->
  StronglySorted Rlt ps -> Forall2 (da_data V0 E m T M rho) ps ls -> (3 <= length ps)%nat ->
  da_objective ps ls M rho m = 0 /\ forall e, 0 < e -> e <> m -> 0 < da_objective ps ls M rho e.
Proof.
  intros V0 E m T M rho ps ls HV HE Hm HT HM Hr Hs HF Hl. split.
  - apply (da_generating_exponent_minimises V0 E m T M rho HV HE Hm HT HM Hr ps ls Hs HF). lia.
  - intros e He Hne. apply (da_objective_positive_elsewhere V0 E m T M rho HV HE Hm HT HM Hr ps ls Hs HF Hl e He Hne).
    pose proof (da_slope_negative V0 E m T M rho e ps ls HV HE Hm HT HM Hr He Hs HF ltac:(lia)). lra.
Qed.

Theorem da_search_recovers : forall (V0 E m T M rho : R) (p l : list R) limits w (e : R),
  0 < V0 -> 0 < E -> 0 < T -> 0 < M -> 0 < rho -> da_search_lower RNum <= m <= da_search_upper RNum ->
  StronglySorted Rlt p -> Forall2 (da_data V0 E m T M rho) p l ->
  check3 (da_window_of RNum p limits) = Ok w ->
  da_search_lower RNum <= e <= da_search_upper RNum ->
  (forall x, da_search_lower RNum <= x <= da_search_upper RNum ->
     da_objective (slice w p) (slice w l) M rho e <= da_objective (slice w p) (slice w l) M rho x) ->
  e = m /\
  forall r, da_plot_raw RNum ln exp Rpower p l T M rho e limits = Ok r -> da_volume r = V0 /\ da_energy r = E /\ da_rsq r = 1.
Proof.
  intros V0 E m T M rho p l limits w e HV HE HT HM Hr Hb Hs HF Hw Hin Hmin.
  apply (da_search_recovers_under_contract V0 E m T M rho p l limits w e HV HE HT HM Hr Hb Hs HF Hw); [|exact Hin|exact Hmin].
  intros x Hx. destruct search_bounds as [Hlo Hhi]. rewrite Hlo, Hhi in *.
  assert (Hw' := Hw). unfold check3 in Hw'. destruct (snd (da_window_of RNum p limits) - fst (da_window_of RNum p limits) <? 2)%Z eqn:E2; [discriminate|].
  injection Hw' as Hweq. apply Z.ltb_ge in E2.
  assert (Hbw : (0 <= fst (da_window_of RNum p limits))%Z /\ (snd (da_window_of RNum p limits) < Z.of_nat (length p))%Z).
  { unfold da_window_of. destruct limits as [[lo hi]|]; apply manual_window_bounds. }
  assert (Hlen : (3 <= length (slice w p))%nat) by (rewrite <- Hweq, slice_length by tauto; lia).
  pose proof (da_slope_negative V0 E m T M rho x (slice w p) (slice w l) HV HE ltac:(lra) HT HM Hr ltac:(lra)
                ltac:(unfold slice; apply SS_firstn, SS_skipn, Hs) (F2_slice _ _ _ _ HF) ltac:(lia)). lra.
Qed.

(* the contract premise is satisfiable: on exact data the generating exponent itself meets it *)
Lemma da_search_contract_satisfiable : forall (V0 E m T M rho : R) (ps ls : list R),
  0 < V0 -> 0 < E -> 0 < T -> 0 < M -> 0 < rho -> da_search_lower RNum <= m <= da_search_upper RNum ->
  StronglySorted Rlt ps -> Forall2 (da_data V0 E m T M rho) ps ls -> (3 <= length ps)%nat ->
  forall x, da_search_lower RNum <= x <= da_search_upper RNum -> da_objective ps ls M rho m <= da_objective ps ls M rho x.
Proof.
  intros V0 E m T M rho ps ls HV HE HT HM Hr Hb Hs HF Hl x Hx. destruct search_bounds as [Hlo Hhi]. rewrite Hlo, Hhi in *.
  destruct (da_generating_exponent_is_the_global_minimiser V0 E m T M rho ps ls HV HE ltac:(lra) HT HM Hr Hs HF Hl) as [H0 Hp].
  destruct (Req_dec x m) as [->|Hne]; [lra|]. specialize (Hp x ltac:(lra) Hne). lra.
Qed.
(* concrete exact data: three points of V = exp(-(k t)^2) ... *)
Lemma da_data_example : let k := gas_R * 77 / (1000 * 10) in
  Forall2 (da_data 1 10 2 77 28 0.8) [/ 8; / 4; / 2]
    (map (fun p => 1 * exp (- Rpower (k * - ln p) 2) * 0.8 / 28) [/ 8; / 4; / 2]) /\ StronglySorted Rlt [/ 8; / 4; / 2].
Proof.
  intro k. split.
  - simpl. repeat (constructor; [split; [lra|reflexivity]|]). constructor.
  - repeat (constructor; [|repeat (constructor; try lra)]). constructor.
Qed.
