(* list plumbing shared by the characterisation models: map2, slices of related lists, sorted slices *)
From Coq Require Import Reals Lra ZArith List Bool Lia Sorted.
From PG Require Import Lib.Num Lib.Py Charact.Ols Charact.Window.
Import ListNotations.

Section Map2.
  Context {A B C : Type}.
  Fixpoint map2 (f : A -> B -> C) (a : list A) (b : list B) : list C :=
    match a, b with x :: a', y :: b' => f x y :: map2 f a' b' | _, _ => [] end.
End Map2.

Lemma F2_firstn {A B} (P : A -> B -> Prop) n : forall l l', Forall2 P l l' -> Forall2 P (firstn n l) (firstn n l').
Proof. induction n; intros l l' H; simpl; [constructor|]. destruct H; constructor; auto. Qed.
Lemma F2_skipn {A B} (P : A -> B -> Prop) n : forall l l', Forall2 P l l' -> Forall2 P (skipn n l) (skipn n l').
Proof. induction n; intros l l' H; simpl; [assumption|]. destruct H; [constructor|auto]. Qed.
Lemma F2_slice {A B} (P : A -> B -> Prop) w l l' : Forall2 P l l' -> Forall2 P (slice w l) (slice w l').
Proof. intro H. unfold slice. apply F2_firstn, F2_skipn, H. Qed.
Lemma F2_map2 {A B C} (P : A -> C -> Prop) (f : A -> B -> C) l l' :
  Forall2 (fun x y => P x (f x y)) l l' -> Forall2 P l (map2 f l l').
Proof. induction 1; simpl; constructor; auto. Qed.
Lemma F2_impl {A B} (P Q : A -> B -> Prop) l l' : (forall x y, P x y -> Q x y) -> Forall2 P l l' -> Forall2 Q l l'.
Proof. intros H; induction 1; constructor; auto. Qed.
Lemma F2_map_r {A B} (P : A -> B -> Prop) (f : A -> B) l : (forall x, In x l -> P x (f x)) -> Forall2 P l (map f l).
Proof. induction l; simpl; intros H; constructor; auto. Qed.

Lemma In_firstn {A} n : forall (l : list A) x, In x (firstn n l) -> In x l.
Proof. induction n; intros [|a l] x H; simpl in *; try tauto. destruct H; [left|right]; auto. Qed.
Lemma In_skipn {A} n : forall (l : list A) x, In x (skipn n l) -> In x l.
Proof. induction n; intros [|a l] x H; simpl in *; try tauto. right; auto. Qed.

Open Scope R_scope.
Lemma SS_skipn n : forall l : list R, StronglySorted Rlt l -> StronglySorted Rlt (skipn n l).
Proof. induction n; intros l H; simpl; [assumption|]. destruct H; [constructor|auto]. Qed.
Lemma SS_firstn n : forall l : list R, StronglySorted Rlt l -> StronglySorted Rlt (firstn n l).
Proof.
  induction n; intros l H; simpl; [constructor|]. destruct H as [|a l Hs Hall]; constructor; auto.
  rewrite Forall_forall in *. intros x Hx. apply Hall. eapply In_firstn, Hx.
Qed.
Lemma SS_lt_le (l : list R) : StronglySorted Rlt l -> StronglySorted Rle l.
Proof. induction 1; constructor; auto. eapply Forall_impl; [|eassumption]. intros; lra. Qed.
Lemma SS_two_distinct (l : list R) : StronglySorted Rlt l -> (2 <= length l)%nat -> two_distinct l.
Proof.
  intros H Hl. destruct l as [|a [|b r]]; simpl in Hl; try lia.
  inversion H as [|? ? _ Hall]; subst. inversion Hall; subst.
  exists a, b. simpl. split; [auto|split; [auto|lra]].
Qed.
Lemma slice_length {A} (w : Z * Z) (l : list A) : (0 <= fst w)%Z -> (snd w < Z.of_nat (length l))%Z ->
  length (slice w l) = Z.to_nat (snd w + 1 - fst w).
Proof. intros H1 H2. unfold slice. rewrite firstn_length, skipn_length. lia. Qed.
Lemma slice_two_distinct (w : Z * Z) (p : list R) : StronglySorted Rlt p ->
  (0 <= fst w)%Z -> (snd w < Z.of_nat (length p))%Z -> (2 <= snd w - fst w)%Z -> two_distinct (slice w p).
Proof.
  intros Hs H1 H2 H3. apply SS_two_distinct; [unfold slice; apply SS_firstn, SS_skipn, Hs|].
  rewrite slice_length by assumption. lia.
Qed.
Lemma In_slice {A} (w : Z * Z) (l : list A) x : In x (slice w l) -> In x l.
Proof.
  unfold slice. intro H. eapply In_skipn, In_firstn, H.
Qed.

(* window bounds of both selection rules *)
Lemma manual_window_bounds (p : list R) lo hi :
  (0 <= fst (manual_window RNum p lo hi))%Z /\ (snd (manual_window RNum p lo hi) < Z.of_nat (length p))%Z.
Proof.
  unfold manual_window. split; simpl.
  - destruct (limit_truthy RNum lo); lia.
  - destruct (limit_truthy RNum hi) as [v|]; [pose proof (count_lt_le_len v p)|]; lia.
Qed.
