(* Enthalpy methods:
   - isosteric_enthalpy_raw (isosteric_enth.py:161-228): per loading, least squares of ln p against 1/T, enthalpy by the
     GENERATED line iso_enthalpy_of_slope (-R*slope/1000);
   - enthalpy_sorption_whittaker (enth_sorp_whittaker.py:108-186): the skip conditions and the triple-point cap are hand-written,
     the value is the GENERATED whittaker_point;
   - initial_enthalpy_point (initial_enth.py:384-428): first element of the chosen branch of the enthalpy column. *)
From Coq Require Import Reals Lra QArith Qreals ZArith String List Bool Lia.
From PG Require Import Lib.Num Lib.Py Lib.Tac Gen.CharactGen Charact.Ols Charact.ListAux.
Import ListNotations.

Section Enthalpy.
  Variable N : Num.
  Variables (nln : N -> N) (npow : N -> N -> N).
  Record enth_row := mkEnth { e_enthalpy : N; e_slope : N; e_rsq : N; e_cov : N }.
  (* the loop over loadings, given the logarithms of the pressures *)
  Definition isosteric_from_logs (logp : list (list N)) (temps : list N) : list enth_row :=
    let inv_t := map (fun T => ndiv (nofQ 1) T) temps in
    map (fun lp => let f := ols N inv_t lp in mkEnth (iso_enthalpy_of_slope N (slope f)) (slope f) (rsq f) (cov_xy f)) logp.
  Definition isosteric_enthalpy_raw (pressures : list (list N)) (temps : list N) : res (list enth_row) :=
    match pressures with
    | [] => Err KeyError     (* pressures[0] on an empty list: IndexError *)
    | r0 :: _ => if negb (length r0 =? length temps)%nat then Err ParameterError
                 else Ok (isosteric_from_logs (map (map nln) pressures) temps) end.

  (* Whittaker: points = (loading, pressure_at(loading) | nan) ; hvap = adsorbate.enthalpy_vaporisation (oracle, kJ/mol) *)
  Definition w_keep (n : N) (p : option N) (p_c p_sat : N) : option N :=
    if neqb n (nofQ 0) then None else
    match p with None => None | Some x => if nltb x (nofQ 0) || nltb p_c x || nltb p_sat x then None else Some x end.
  Definition whittaker_loop (pts : list (N * option N)) (T K t p_sat p_c p_t n_m : N) (hvap : N -> N) : list (N * N) :=
    flat_map (fun np => match w_keep (fst np) (snd np) p_c p_sat with
                        | None => []
                        | Some p => let p' := if nltb p p_t then p_t else p in    (* max(p, p_t) *)
                                    [(fst np, whittaker_point N nln npow T K t p_sat (fst np) n_m (hvap p'))] end) pts.

  (* initial_enthalpy_point: rows = (is_desorption, enthalpy) in stored order *)
  Definition initial_enthalpy_point (rows : option (list (bool * N))) (des : bool) : res N :=
    match rows with
    | None => Err ParameterError
    | Some l => match filter (fun r => Bool.eqb (fst r) des) l with x :: _ => Ok (snd x) | [] => Err KeyError end end.
End Enthalpy.
Arguments e_enthalpy {N}. Arguments e_slope {N}. Arguments e_rsq {N}. Arguments e_cov {N}.

Open Scope R_scope.
Definition gas_const : R := 207861565453831 / 25000000000000.

(* van 't Hoff data at one loading: ln p = a - dH * 1000 / (R T)   [dH in kJ/mol, positive for adsorption] *)
Definition vant_hoff (a dH : R) (T lnp : R) : Prop := T <> 0 /\ lnp = a - dH * 1000 / (gas_const * T).

Lemma inv_two_distinct (temps : list R) : (forall T, In T temps -> T <> 0) -> two_distinct temps ->
  two_distinct (map (fun T => Q2R 1 / T) temps).
Proof.
  intros Hnz (T1 & T2 & H1 & H2 & Hne). exists (Q2R 1 / T1), (Q2R 1 / T2).
  split; [apply (in_map (fun T => Q2R 1 / T)), H1|]. split; [apply (in_map (fun T => Q2R 1 / T)), H2|].
  replace (Q2R 1) with 1 by (unfold Q2R; simpl; lra). intro He. apply Hne.
  pose proof (Hnz _ H1). pose proof (Hnz _ H2).
  assert (H3 : / T1 = / T2) by lra. rewrite <- (Rinv_inv T1), <- (Rinv_inv T2), H3. reflexivity.
Qed.

Lemma vh_affine (a dH : R) (temps lp : list R) : Forall2 (vant_hoff a dH) temps lp ->
  Forall2 (affine a (- dH * 1000 / gas_const)) (map (fun T => Q2R 1 / T) temps) lp /\ (forall T, In T temps -> T <> 0).
Proof.
  induction 1 as [|T x temps lp [HT Hx] _ [IH1 IH2]]; simpl; split; try constructor; auto; try tauto.
  - unfold affine. rewrite Hx. replace (Q2R 1) with 1 by (unfold Q2R; simpl; lra). unfold gas_const. field. lra.
  - intros T' [<-|Hin]; auto.
Qed.

(* Clausius-Clapeyron: ANY number >= 2 of distinct temperatures in ANY order; every loading returns dH *)
Theorem clausius_clapeyron_recovers_all : forall (temps : list R) (pressures : list (list R)) (dH : R),
  two_distinct temps -> pressures <> [] ->
  Forall (fun row => exists a, Forall2 (fun T p => vant_hoff a dH T (ln p)) temps row) pressures ->
  exists rows, isosteric_enthalpy_raw RNum ln pressures temps = Ok rows /\ length rows = length pressures /\
               Forall (fun r : enth_row RNum => e_enthalpy r = dH /\ (dH <> 0 -> e_rsq r = 1)) rows.
Proof.
  intros temps pressures dH HD Hne HF. unfold isosteric_enthalpy_raw.
  destruct pressures as [|r0 rest]; [congruence|].
  assert (Hl0 : length r0 = length temps).
  { inversion HF as [|? ? [a Ha] _]; subst. symmetry. eapply F2_length; eauto. }
  change (t RNum) with R in *. rewrite Hl0, Nat.eqb_refl. simpl negb. cbv iota.
  eexists. split; [reflexivity|]. unfold isosteric_from_logs. rewrite !map_length. split; [reflexivity|].
  rewrite Forall_forall. intros r Hr. rewrite map_map in Hr. apply in_map_iff in Hr. destruct Hr as (row & <- & Hin).
  rewrite Forall_forall in HF. destruct (HF row Hin) as [a Ha].
  assert (Ha' : Forall2 (vant_hoff a dH) temps (map ln row)).
  { clear -Ha. induction Ha; simpl; constructor; auto. }
  destruct (vh_affine a dH temps (map ln row) Ha') as [HA Hnz].
  pose proof (inv_two_distinct temps Hnz HD) as HD'.
  change (@ndiv RNum) with Rdiv. change (@nofQ RNum) with Q2R.
  destruct (ols_exact _ _ _ _ HA HD') as (Hs & _ & Hrs). cbn [e_enthalpy e_rsq]. change (t RNum) with R in *. rewrite Hs. split.
  - unfold iso_enthalpy_of_slope. rops. replace (Q2R (207861565453831 # 25000000000000)) with gas_const by (unfold gas_const, Q2R; simpl; lra).
    replace (Q2R (1000 # 1)) with 1000 by (unfold Q2R; simpl; lra). unfold gas_const. field.
  - intro HdH. apply Hrs. unfold gas_const. intro Hz. apply HdH.
    assert (- dH * 1000 = 0) by (apply (Rmult_eq_reg_r (/ (207861565453831 / 25000000000000))); [unfold Rdiv in Hz; lra|apply Rinv_neq_0_compat; lra]). lra.
Qed.

(* a common multiplicative pressure unit does not change the result (any data, not only exact) *)
Theorem cc_unit_invariant_all : forall (temps : list R) (pressures : list (list R)) (c : R), 0 < c ->
  two_distinct temps -> (forall T, In T temps -> T <> 0) ->
  Forall (fun row => length row = length temps /\ Forall (fun p => 0 < p) row) pressures ->
  map e_enthalpy (isosteric_from_logs RNum (map (map ln) (map (map (Rmult c)) pressures)) temps)
  = map e_enthalpy (isosteric_from_logs RNum (map (map ln) pressures) temps).
Proof.
  intros temps pressures c Hc HD Hnz HF. unfold isosteric_from_logs. rewrite !map_map.
  apply map_ext_in. intros row Hin. rewrite Forall_forall in HF. destruct (HF row Hin) as [Hl Hpos].
  cbn [e_enthalpy]. f_equal.
  pose proof (inv_two_distinct temps Hnz HD) as HD'.
  assert (HA : Forall2 (affine (ln c) 1) (map ln row) (map ln (map (Rmult c) row))).
  { clear -Hpos Hc. induction row; simpl; constructor.
    - unfold affine. inversion Hpos; subst. rewrite ln_mult by assumption. lra.
    - apply IHrow. inversion Hpos; assumption. }
  change (@ndiv RNum) with Rdiv. change (@nofQ RNum) with Q2R. change (t RNum) with R in *.
  destruct (ols_affine_y (map (fun T => Q2R 1 / T) temps) (map ln row) (map ln (map (Rmult c) row)) 1 (ln c) HA) as [H1 _];
    [rewrite !map_length; lia|exact HD'|]. rewrite H1. lra.
Qed.

(* isotherm families p(n, T) = f(n) / K(T), K(T) = K0 exp(dH*1000/(R T)) (Langmuir, Toth, ... with fixed capacity) *)
Theorem vant_hoff_family : forall (f K0 dH T : R), 0 < f -> 0 < K0 -> T <> 0 ->
  vant_hoff (ln (f / K0)) dH T (ln (f / (K0 * exp (dH * 1000 / (gas_const * T))))).
Proof.
  intros f K0 dH T Hf HK HT. split; [exact HT|].
  pose proof (exp_pos (dH * 1000 / (gas_const * T))) as He.
  replace (f / (K0 * exp (dH * 1000 / (gas_const * T)))) with (f / K0 * / exp (dH * 1000 / (gas_const * T))) by (field; split; lra).
  rewrite ln_mult; [|apply Rdiv_lt_0_compat; lra|apply Rinv_0_lt_compat; lra].
  rewrite ln_Rinv by lra. rewrite ln_exp. lra.
Qed.
Theorem vant_hoff_langmuir : forall (nm K0 dH T n : R), 0 < n < nm -> 0 < K0 -> T <> 0 ->
  let K := K0 * exp (dH * 1000 / (gas_const * T)) in
  let p := n / (K * (nm - n)) in      (* the Langmuir pressure at loading n: n = nm K p / (1 + K p) *)
  n = nm * K * p / (1 + K * p) /\ vant_hoff (ln (n / (nm - n) / K0)) dH T (ln p).
Proof.
  intros nm K0 dH T n Hn HK HT K p.
  pose proof (exp_pos (dH * 1000 / (gas_const * T))) as He.
  assert (HKpos : 0 < K) by (unfold K; apply Rmult_lt_0_compat; lra).
  split.
  - unfold p. field. repeat split; try lra; try nra.
  - replace p with (n / (nm - n) / (K0 * exp (dH * 1000 / (gas_const * T)))) by (unfold p, K; field; repeat split; lra).
    apply vant_hoff_family; try assumption. apply Rdiv_lt_0_compat; lra.
Qed.

(* Whittaker: the generated expression is lambda + dh_vap + RT with lambda = RT ln(p_sat K (theta^t / (1 - theta^t))^((t-1)/t)) *)
Theorem whittaker_closed_form_all : forall (T K t p_sat n n_m hvap : R), 0 < K -> 0 < t -> 0 < p_sat -> 0 < n -> n < n_m ->
  whittaker_point RNum ln Rpower T K t p_sat n n_m hvap =
  (gas_const * T * ln (p_sat * K * Rpower (Rpower (n / n_m) t / (1 - Rpower (n / n_m) t)) ((t - 1) / t)) + hvap * 1000 + gas_const * T) / 1000.
Proof.
  intros T K t p_sat n n_m hvap HK Ht Hp Hn Hnm. unfold whittaker_point. rops.
  replace (Q2R (207861565453831 # 25000000000000)) with gas_const by (unfold gas_const, Q2R; simpl; lra).
  replace (Q2R (1000 # 1)) with 1000 by (unfold Q2R; simpl; lra). replace (Q2R (1 # 1)) with 1 by (unfold Q2R; simpl; lra).
  assert (Hb : Rpower (1 / Rpower K t) (1 / t) = / K).
  { replace (1 / Rpower K t) with (Rpower K (- t)) by (rewrite Rpower_Ropp; field; unfold Rpower; pose proof (exp_pos (t * ln K)); lra).
    rewrite Rpower_mult. replace (- t * (1 / t)) with (- (1)) by (field; lra). rewrite Rpower_Ropp, Rpower_1 by assumption. reflexivity. }
  rewrite Hb. replace (p_sat / / K) with (p_sat * K) by (field; lra). reflexivity.
Qed.
Theorem whittaker_langmuir_all : forall (T K p_sat n n_m hvap : R), 0 < K -> 0 < p_sat -> 0 < n -> n < n_m ->
  whittaker_point RNum ln Rpower T K 1 p_sat n n_m hvap = (gas_const * T * ln (p_sat * K) + hvap * 1000 + gas_const * T) / 1000.
Proof.
  intros. rewrite whittaker_closed_form_all by lra. replace ((1 - 1) / 1) with 0 by field. rewrite Rpower_O.
  - rewrite Rmult_1_r. reflexivity.
  - rewrite Rpower_1 by (apply Rdiv_lt_0_compat; lra).
    assert (n / n_m < 1) by (apply (Rmult_lt_reg_r n_m); [lra|]; unfold Rdiv; rewrite Rmult_assoc, Rinv_l by lra; lra).
    apply Rdiv_lt_0_compat; [apply Rdiv_lt_0_compat; lra|lra].
Qed.

(* the loadings kept: non-zero loading and 0 <= p <= min(p_c, p_sat) ; nothing else is omitted *)
Theorem whittaker_omits_exactly_all : forall (pts : list (R * option R)) (T K t p_sat p_c p_t n_m : R) (hvap : R -> R) (n : R),
  In n (map fst (whittaker_loop RNum ln Rpower pts T K t p_sat p_c p_t n_m hvap)) <->
  exists p, In (n, Some p) pts /\ n <> 0 /\ 0 <= p /\ p <= p_c /\ p <= p_sat.
Proof.
  intros pts T K t p_sat p_c p_t n_m hvap n. unfold whittaker_loop. induction pts as [|[m op] pts IH]; simpl.
  - split; [tauto|]. intros (p & [] & _).
  - rewrite map_app, in_app_iff, IH. clear IH. unfold w_keep. simpl fst; simpl snd. rops. rewrite Q2R_zero.
    split.
    + intros [H|(p & Hin & Hc)]; [|exists p; split; [right; exact Hin|exact Hc]].
      destruct (Reqb m 0) eqn:E0; [destruct H|]. destruct op as [x|]; [|destruct H].
      destruct (Rltb x 0) eqn:E1; [destruct H|]. destruct (Rltb p_c x) eqn:E2; [destruct H|]. destruct (Rltb p_sat x) eqn:E3; [destruct H|].
      simpl in H. destruct H as [<-|[]]. exists x. apply Reqb_false in E0. apply Rltb_false in E1. apply Rltb_false in E2. apply Rltb_false in E3.
      split; [left; reflexivity|]. repeat split; lra.
    + intros (p & [Heq|Hin] & Hn0 & H0 & Hc & Hs); [|right; exists p; auto].
      injection Heq as -> ->. left.
      assert (Reqb n 0 = false) as -> by (apply Reqb_false; exact Hn0).
      assert (Rltb p 0 = false) as -> by (apply Rltb_false; lra).
      assert (Rltb p_c p = false) as -> by (apply Rltb_false; lra).
      assert (Rltb p_sat p = false) as -> by (apply Rltb_false; lra). simpl. left; reflexivity.
Qed.

(* initial_enthalpy_point: the first measured enthalpy of the chosen branch *)
Theorem initial_point_is_first_all : forall (pre post : list (bool * R)) (des : bool) (x : R),
  Forall (fun r => fst r = negb des) pre ->
  initial_enthalpy_point RNum (Some (pre ++ (des, x) :: post)%list) des = Ok x.
Proof.
  intros pre post des x Hpre. unfold initial_enthalpy_point. change (t RNum) with R. rewrite filter_app.
  induction Hpre as [|r pre Hr _ IH]; simpl.
  - rewrite Bool.eqb_reflx. reflexivity.
  - rewrite Hr. destruct des; simpl; exact IH.
Qed.

Lemma vant_hoff_example : two_distinct [300; 250; 280] /\
  Forall2 (fun T p => vant_hoff 1 25 T (ln p)) [300; 250; 280]
          (map (fun T => exp (1 - 25 * 1000 / (gas_const * T))) [300; 250; 280]).
Proof.
  split; [exists 300, 250; simpl; split; [auto|split; [auto|lra]]|].
  simpl. repeat (constructor; [split; [lra|rewrite ln_exp; reflexivity]|]). constructor.
Qed.
