(* C17 - Rege-Yang cylinder: layer count, per-layer populations and the population-weighted average.
   ry_cylinder_layer_count_arg / ry_cylinder_layer_width / ry_cylinder_layer_population / ry_cylinder_average are GENERATED from the closure
   `potential` of the cylinder branch of psd_horvath_kawazoe_ry (Gen/HkGen.v, tools/py2v_hk.py ry_cylinder_layers: one assignment of
   `width`, one two-armed `if` assigning `layer_population`, the returned weighted average; anything else fails closed).
   The PUBLISHED rule (Rege & Yang, AIChE J. 46 (2000) 734; docstring of the function) is written here by hand:
     layers        M   = int[((2L - d_h)/d_g - 1)/2] + 1
     ring radius   r_i = L - d_0 - (i - 1) d_g,  d_0 = (d_g + d_h)/2
     population    n_i = pi / asin(d_g / (2 r_i))   when a ring of radius r_i holds two molecules (d_g <= 2 r_i),
                   n_i = 1                          otherwise: ONE molecule on the pore axis
     average       eps = sum n_i eps_i / sum n_i *)
From Coq Require Import Reals Lra List.
From PG Require Import Lib.Num Charact.HkLib Gen.HkGen.
Import ListNotations.
Open Scope R_scope.

Definition ry_ring_radius (d_g d_h L i : R) : R := L - (d_g + d_h) / 2 - (i - 1) * d_g.
Definition ry_published_population (d_g r : R) : R := if Rle_dec d_g (2 * r) then PI / asin (d_g / (2 * r)) else 1.
Definition ry_published_layer_count_arg (d_g d_h L : R) : R := ((2 * L - d_h) / d_g - 1) / 2.
Definition ry_published_average (ns es : list R) : R :=
  fold_right Rplus 0 (map (fun p => fst p * snd p) (combine ns es)) / fold_right Rplus 0 ns.

Ltac open_pop := cbv beta zeta delta [ry_cylinder_layer_population ry_cylinder_layer_width ry_published_population ry_ring_radius].

(* generated = published, for every layer index and every real input (both sides branch on the same comparison) *)
Lemma ry_cylinder_population_published_l : forall d_g d_h L i,
  ry_cylinder_layer_population d_g d_h ((d_g + d_h) / 2) L i = ry_published_population d_g (ry_ring_radius d_g d_h L i).
Proof.
  intros. open_pop.
  destruct (Rle_dec d_g (2 * (L - (d_g + d_h) / 2 - (i - 1) * d_g))); reflexivity.
Qed.

Lemma ry_cylinder_layer_count_published_l : forall d_g d_h d_eff L,
  ry_cylinder_layer_count_arg d_g d_h d_eff L = ry_published_layer_count_arg d_g d_h L.
Proof. intros. reflexivity. Qed.

Lemma ry_cylinder_average_published_l : forall k ns es, ry_cylinder_average k ns es = k * ry_published_average ns es.
Proof. intros. unfold ry_cylinder_average, ry_published_average. unfold Rdiv. ring. Qed.

(* the single molecule on the axis counts ONCE *)
Lemma ry_cylinder_axial_molecule_counts_once_l : forall d_g d_h L i,
  2 * ry_ring_radius d_g d_h L i < d_g ->
  ry_cylinder_layer_population d_g d_h ((d_g + d_h) / 2) L i = 1.
Proof.
  intros d_g d_h L i H. rewrite ry_cylinder_population_published_l. unfold ry_published_population.
  destruct (Rle_dec d_g (2 * ry_ring_radius d_g d_h L i)); [lra | reflexivity].
Qed.

Lemma asin_pos : forall x, 0 < x <= 1 -> 0 < asin x.
Proof.
  intros x Hx. destruct (Rlt_or_le 0 (asin x)) as [|Hle]; [assumption|exfalso].
  assert (Hb := asin_bound x).
  assert (Hs : sin (asin x) = x) by (apply sin_asin; lra).
  assert (H0 : 0 <= sin (- asin x)) by (apply sin_ge_0; assert (HP := PI_RGT_0); lra).
  rewrite sin_neg in H0. lra.
Qed.

(* a ring holds at least two molecules (exactly two when they touch on the axis) *)
Lemma ry_cylinder_ring_population_l : forall d_g d_h L i,
  0 < d_g -> d_g <= 2 * ry_ring_radius d_g d_h L i ->
  ry_cylinder_layer_population d_g d_h ((d_g + d_h) / 2) L i = PI / asin (d_g / (2 * ry_ring_radius d_g d_h L i)) /\
  2 <= ry_cylinder_layer_population d_g d_h ((d_g + d_h) / 2) L i.
Proof.
  intros d_g d_h L i Hg H. rewrite ry_cylinder_population_published_l. unfold ry_published_population.
  destruct (Rle_dec d_g (2 * ry_ring_radius d_g d_h L i)); [|lra].
  split; [reflexivity|].
  set (r2 := 2 * ry_ring_radius d_g d_h L i) in *.
  assert (Hx : 0 < d_g / r2 <= 1).
  { split. apply Rdiv_lt_0_compat; lra. apply Rmult_le_reg_r with r2; [lra|]. unfold Rdiv. rewrite Rmult_assoc, Rinv_l by lra. lra. }
  assert (Hp := asin_pos _ Hx). assert (Hb := asin_bound (d_g / r2)). assert (HP := PI_RGT_0).
  apply Rmult_le_reg_r with (asin (d_g / r2)); [assumption|].
  unfold Rdiv at 2. rewrite Rmult_assoc, Rinv_l by lra. lra.
Qed.

Lemma ry_cylinder_two_molecules_at_contact_l : forall d_g d_h L i,
  0 < d_g -> 2 * ry_ring_radius d_g d_h L i = d_g ->
  ry_cylinder_layer_population d_g d_h ((d_g + d_h) / 2) L i = 2.
Proof.
  intros d_g d_h L i Hg H. destruct (ry_cylinder_ring_population_l d_g d_h L i Hg) as [E _]; [lra|].
  rewrite E, H. unfold Rdiv at 2. rewrite Rinv_r by lra. rewrite asin_1. assert (HP := PI_RGT_0). field. lra.
Qed.

(* the innermost of the M = int(c) + 1 layers, c = ((2L - d_h)/d_g - 1)/2, lies on a circle of radius d_g * frac(c) *)
Lemma ry_innermost_radius_l : forall d_g d_h d_eff L, 0 < d_g ->
  ry_ring_radius d_g d_h L (IZR (Int_part (ry_cylinder_layer_count_arg d_g d_h d_eff L)) + 1) =
  d_g * frac_part (ry_cylinder_layer_count_arg d_g d_h d_eff L).
Proof.
  intros. unfold frac_part, ry_ring_radius, ry_cylinder_layer_count_arg. field. lra.
Qed.

(* ... so it is the single axial molecule (weight 1) exactly when frac(c) < 1/2, and a ring (weight >= 2) otherwise *)
Lemma ry_cylinder_innermost_layer_weight_l : forall d_g d_h L, 0 < d_g ->
  let d_eff := (d_g + d_h) / 2 in
  let c := ry_cylinder_layer_count_arg d_g d_h d_eff L in
  let M := IZR (Int_part c) + 1 in
  (frac_part c < 1 / 2 -> ry_cylinder_layer_population d_g d_h d_eff L M = 1) /\
  (1 / 2 <= frac_part c -> 2 <= ry_cylinder_layer_population d_g d_h d_eff L M).
Proof.
  intros d_g d_h L Hg d_eff c M.
  assert (Hr := ry_innermost_radius_l d_g d_h d_eff L Hg). fold c in Hr. fold M in Hr.
  split; intro Hf.
  - apply ry_cylinder_axial_molecule_counts_once_l. rewrite Hr. nra.
  - apply ry_cylinder_ring_population_l; [assumption|]. rewrite Hr. nra.
Qed.

(* the weighted average of a pore whose second and innermost layer is the axial molecule: weights n_1 and 1 *)
Lemma ry_cylinder_two_layers_axial_l : forall k d_g d_h L e1 e2,
  2 * ry_ring_radius d_g d_h L 2 < d_g ->
  let n i := ry_cylinder_layer_population d_g d_h ((d_g + d_h) / 2) L i in
  ry_cylinder_average k [n 1; n 2] [e1; e2] = k * (n 1 * e1 + e2) / (n 1 + 1).
Proof.
  intros k d_g d_h L e1 e2 H n. unfold n. rewrite (ry_cylinder_axial_molecule_counts_once_l d_g d_h L 2 H).
  unfold ry_cylinder_average. simpl. unfold Rdiv. rewrite !Rplus_0_r, Rmult_1_l. ring.
Qed.

(* with one layer the population cancels: the average is the potential of that layer *)
Lemma ry_cylinder_one_layer_l : forall k n e, n <> 0 -> ry_cylinder_average k [n] [e] = k * e.
Proof. intros. unfold ry_cylinder_average. simpl. rewrite !Rplus_0_r. field. assumption. Qed.

(* hypotheses are satisfiable: nitrogen (0.3 nm) in a carbon (0.34 nm) cylinder of radius 0.7 nm (width 1.06 nm): the second layer is the axial molecule *)
Example ry_cylinder_axial_example :
  2 * ry_ring_radius 0.3 0.34 0.7 2 < 0.3 /\ ry_cylinder_layer_population 0.3 0.34 ((0.3 + 0.34) / 2) 0.7 2 = 1.
Proof.
  assert (H : 2 * ry_ring_radius 0.3 0.34 0.7 2 < 0.3) by (unfold ry_ring_radius; lra).
  split; [exact H | apply ry_cylinder_axial_molecule_counts_once_l; exact H].
Qed.
