(* C15, scaling clause for the classical mesopore methods: the three recurrences of Charact/PsdMeso.v (pygaps-DH, BJH,
   Dollimore-Heal) and the wrapper psd_mesoporous are homogeneous of degree 1 in the adsorbed volumes. Multiplying every
   loading by c multiplies pore volumes, pore areas, the distribution and the cumulative curve by c and leaves the pore
   widths and the selected window unchanged - for data lists of ANY length (induction over the rows, carrying the running
   sums of each loop), every geometry, any thickness / Kelvin arrays, any limits. No quotient has a scaled denominator, so no
   definedness hypothesis is needed (the statement does not lean on x/0). *)
From Coq Require Import Reals Lra QArith Qreals ZArith String List Bool Lia Sorted.
From PG Require Import Lib.Num Lib.Py Lib.Tac Charact.Ols Charact.Window Charact.ListAux Charact.PsdMeso.
Import ListNotations.
Open Scope string_scope.
Open Scope R_scope.
Open Scope list_scope.

Definition sc_trip (c : R) (x : trip RNum) : trip RNum := (c * fst x, snd x).
Definition sc_row (c : R) (r : row RNum) : row RNum := mkRow RNum (c * r_dv r) (r_dt r) (r_at r) (r_aw r) (r_ak r) (r_dw r).
Definition sc_out (c : R) (x : R * R) : R * R := (c * fst x, c * snd x).
Definition sc_prev (c : R) (x : R * R) : R * R := (fst x, c * snd x).
Definition sc_res (c : R) (r : psd_result RNum) : psd_result RNum :=
  mkPsd RNum (p_widths r) (map (Rmult c) (p_areas r)) (map (Rmult c) (p_volumes r)) (map (Rmult c) (p_dist r)).

Lemma combine_map_l {A B C} (f : A -> C) : forall (a : list A) (b : list B),
  combine (map f a) b = map (fun x => (f (fst x), snd x)) (combine a b).
Proof. induction a; intros [|y b]; simpl; try reflexivity. rewrite IHa. reflexivity. Qed.

Lemma desc_scale c (vol thick kr : list R) : desc RNum (map (Rmult c) vol) thick kr = map (sc_trip c) (desc RNum vol thick kr).
Proof. unfold desc. change (t RNum) with R. rewrite <- map_rev. apply combine_map_l. Qed.

Lemma rows_scale c wf (l : list (trip RNum)) : rows RNum wf (map (sc_trip c) l) = map (sc_row c) (rows RNum wf l).
Proof.
  induction l as [|[v1 [t1 k1]] r IH]; [reflexivity|]. destruct r as [|[v2 [t2 k2]] r']; [reflexivity|].
  change (map (sc_trip c) ((v1, (t1, k1)) :: (v2, (t2, k2)) :: r'))
    with ((c * v1, (t1, k1)) :: map (sc_trip c) ((v2, (t2, k2)) :: r')).
  change (rows RNum wf ((v1, (t1, k1)) :: (v2, (t2, k2)) :: r'))
    with (mkRow RNum (v1 - v2) (t1 - t2) (avg2 RNum t1 t2) (avg2 RNum (wf t1 k1) (wf t2 k2)) (avg2 RNum k1 k2) (wf t1 k1 - wf t2 k2)
          :: rows RNum wf ((v2, (t2, k2)) :: r')).
  change (rows RNum wf ((c * v1, (t1, k1)) :: map (sc_trip c) ((v2, (t2, k2)) :: r')))
    with (mkRow RNum (c * v1 - c * v2) (t1 - t2) (avg2 RNum t1 t2) (avg2 RNum (wf t1 k1) (wf t2 k2)) (avg2 RNum k1 k2) (wf t1 k1 - wf t2 k2)
          :: rows RNum wf (map (sc_trip c) ((v2, (t2, k2)) :: r'))).
  cbn [map]. f_equal; [|exact IH]. unfold sc_row. cbn [r_dv r_dt r_at r_aw r_ak r_dw]. f_equal. ring.
Qed.

Lemma map_dw_scale c (rs : list (row RNum)) : map r_dw (map (sc_row c) rs) = map r_dw rs.
Proof. rewrite map_map. reflexivity. Qed.

(* ---------- the three loops, with their running sums scaled *)
Lemma dh_loop_scale c k (rs : list (row RNum)) : forall sac,
  dh_loop RNum k (map (sc_row c) rs) (c * sac) = map (sc_out c) (dh_loop RNum k rs sac).
Proof.
  induction rs as [|r rs IH]; intro sac; [reflexivity|].
  cbn [map dh_loop]. unfold sc_row in *. cbn [r_dv r_dt r_at r_aw r_ak r_dw].
  match goal with |- _ :: dh_loop _ _ _ ?s = _ :: map _ (dh_loop _ _ _ ?s0) =>
    replace s with (c * s0) by (rconst; unfold Rdiv; ring) end.
  f_equal; [|apply IH]. unfold sc_out. cbn [fst snd]. f_equal; rconst; unfold Rdiv; ring.
Qed.

Lemma fold_saf_scale c (at_ : R) (prev : list (R * R)) : forall s,
  fold_left (fun s xa => s + (fst xa - at_) / fst xa * snd xa) (map (sc_prev c) prev) (c * s)
  = c * fold_left (fun s xa => s + (fst xa - at_) / fst xa * snd xa) prev s.
Proof.
  induction prev as [|x prev IH]; intro s; [reflexivity|]. cbn [map fold_left].
  replace (c * s + (fst (sc_prev c x) - at_) / fst (sc_prev c x) * snd (sc_prev c x)) with (c * (s + (fst x - at_) / fst x * snd x))
    by (unfold sc_prev; cbn [fst snd]; unfold Rdiv; ring).
  apply IH.
Qed.

Lemma bjh_loop_scale c (rs : list (row RNum)) : forall prev,
  bjh_loop RNum (map (sc_row c) rs) (map (sc_prev c) prev) = map (sc_out c) (bjh_loop RNum rs prev).
Proof.
  induction rs as [|r rs IH]; intro prev; [reflexivity|].
  cbn [map bjh_loop]. unfold sc_row in *. cbn [r_dv r_dt r_at r_aw r_ak r_dw].
  rconst.
  pose proof (fold_saf_scale c (r_at r) prev 0) as Hf. rewrite Rmult_0_r in Hf. rewrite Hf.
  set (S := fold_left _ prev 0).
  f_equal; [unfold sc_out; cbn [fst snd]; f_equal; unfold Rdiv; ring|].
  match goal with |- _ = map _ (bjh_loop _ _ ?q) =>
    transitivity (bjh_loop RNum (map (sc_row c) rs) (map (sc_prev c) q)); [|apply IH] end.
  f_equal. rewrite map_app. cbn [map]. f_equal. unfold sc_prev. cbn [fst snd].
  apply (f_equal (fun z : R => [(r_aw r, z)])). unfold Rdiv. ring.
Qed.

Lemma dhl_loop_scale c (rs : list (row RNum)) : forall saf s2,
  dhl_loop RNum (map (sc_row c) rs) (c * saf) (c * s2) = map (sc_out c) (dhl_loop RNum rs saf s2).
Proof.
  induction rs as [|r rs IH]; intros saf s2; [reflexivity|].
  cbn [map dhl_loop]. unfold sc_row in *. cbn [r_dv r_dt r_at r_aw r_ak r_dw].
  match goal with |- _ :: dhl_loop _ _ ?s ?u = _ :: map _ (dhl_loop _ _ ?s0 ?u0) =>
    replace s with (c * s0) by (rconst; unfold Rdiv; ring); replace u with (c * u0) by (rconst; unfold Rdiv; ring) end.
  f_equal; [|apply IH]. unfold sc_out. cbn [fst snd]. f_equal; rconst; unfold Rdiv; ring.
Qed.

(* ---------- assembling the results *)
Lemma map_fst_out c (o : list (R * R)) : map fst (map (sc_out c) o) = map (Rmult c) (map fst o).
Proof. rewrite !map_map. reflexivity. Qed.
Lemma map_snd_out c (o : list (R * R)) : map snd (map (sc_out c) o) = map (Rmult c) (map snd o).
Proof. rewrite !map_map. reflexivity. Qed.
Lemma map2_div_scale c : forall a b : list R, map2 Rdiv (map (Rmult c) a) b = map (Rmult c) (map2 Rdiv a b).
Proof. induction a; intros [|y b]; simpl; try reflexivity. rewrite IHa. f_equal. unfold Rdiv; ring. Qed.
Lemma map2_div2_scale c : forall a b : list R,
  map2 (fun pv dr => pv / dr / 2) (map (Rmult c) a) b = map (Rmult c) (map2 (fun pv dr => pv / dr / 2) a b).
Proof. induction a; intros [|y b]; simpl; try reflexivity. rewrite IHa. f_equal. unfold Rdiv; ring. Qed.
Lemma widths_trip_scale (f : R -> R -> R) c (l : list (trip RNum)) :
  map (fun x : trip RNum => f (fst (snd x)) (snd (snd x))) (map (sc_trip c) l) = map (fun x : trip RNum => f (fst (snd x)) (snd (snd x))) l.
Proof. rewrite map_map. reflexivity. Qed.

Lemma c0_scale c : c0 RNum = c * c0 RNum.
Proof. rconst. ring. Qed.

Theorem pygapsdh_scale : forall (c : R) (vol thick kr : list R) (g : string) (r : psd_result RNum),
  psd_pygapsdh RNum vol thick kr g = Ok r -> psd_pygapsdh RNum (map (Rmult c) vol) thick kr g = Ok (sc_res c r).
Proof.
  intros c vol thick kr g r H. unfold psd_pygapsdh, len_checks in *. change (t RNum) with R in *. rewrite map_length.
  destruct (length kr =? 0)%nat; cbv iota in H |- *; [discriminate H|].
  destruct (negb (length vol =? length kr)%nat); cbv iota in H |- *; [discriminate H|].
  destruct (c_length g) as [k|]; [|discriminate H]. injection H as <-. cbv zeta.
  rewrite desc_scale, rows_scale.
  set (L := desc RNum vol thick kr). set (RS := rows RNum (width_of RNum) L).
  assert (E : dh_loop RNum k (map (sc_row c) RS) (c0 RNum) = map (sc_out c) (dh_loop RNum k RS (c0 RNum)))
    by (rewrite (c0_scale c) at 1; apply dh_loop_scale).
  rewrite E. set (O := dh_loop RNum k RS (c0 RNum)).
  unfold sc_res. cbn [p_widths p_areas p_volumes p_dist].
  rewrite (widths_trip_scale (width_of RNum)), map_fst_out, map_snd_out, map_dw_scale.
  change (@ndiv RNum) with Rdiv. rewrite map2_div_scale, !map_rev. reflexivity.
Qed.

Lemma radial_scale c (l : list (trip RNum)) (rs : list (row RNum)) (out : list (R * R)) :
  radial_result RNum (map (sc_trip c) l) (map (sc_row c) rs) (map (sc_out c) out) = sc_res c (radial_result RNum l rs out).
Proof.
  unfold radial_result, sc_res. cbn [p_widths p_areas p_volumes p_dist].
  rewrite (widths_trip_scale (fun t k => nmul (radius_of RNum t k) (c2 RNum))), map_fst_out, map_snd_out, map_dw_scale.
  replace (fun pv dr : RNum => ndiv (ndiv pv dr) (c2 RNum)) with (fun pv dr : R => pv / dr / 2) by (rconst; reflexivity).
  rewrite map2_div2_scale, !map_rev. reflexivity.
Qed.

Theorem bjh_scale : forall (c : R) (vol thick kr : list R) (g : string) (r : psd_result RNum),
  psd_bjh RNum vol thick kr g = Ok r -> psd_bjh RNum (map (Rmult c) vol) thick kr g = Ok (sc_res c r).
Proof.
  intros c vol thick kr g r H. unfold psd_bjh, len_checks in *. change (t RNum) with R in *. rewrite map_length.
  destruct (length kr =? 0)%nat; simpl in H |- *; [discriminate H|].
  destruct (negb (length vol =? length kr)%nat); simpl in H |- *; [discriminate H|].
  destruct (negb (g =? "cylinder")%string); [discriminate H|]. injection H as <-. cbv zeta.
  rewrite desc_scale, rows_scale. change (@nil (R * R)) with (map (sc_prev c) []) at 1. rewrite bjh_loop_scale.
  rewrite radial_scale. reflexivity.
Qed.

Theorem dollimore_heal_scale : forall (c : R) (vol thick kr : list R) (g : string) (r : psd_result RNum),
  psd_dollimore_heal RNum vol thick kr g = Ok r -> psd_dollimore_heal RNum (map (Rmult c) vol) thick kr g = Ok (sc_res c r).
Proof.
  intros c vol thick kr g r H. unfold psd_dollimore_heal, len_checks in *. change (t RNum) with R in *. rewrite map_length.
  destruct (length kr =? 0)%nat; simpl in H |- *; [discriminate H|].
  destruct (negb (length vol =? length kr)%nat); simpl in H |- *; [discriminate H|].
  destruct (negb (g =? "cylinder")%string); [discriminate H|]. injection H as <-. cbv zeta.
  rewrite desc_scale, rows_scale. rewrite (c0_scale c) at 1 2. rewrite dhl_loop_scale.
  rewrite radial_scale. reflexivity.
Qed.

(* ---------- the wrapper: window from the pressures only, cumulative curve *)
Lemma cumsum_scale c (l : list R) : forall acc, cumsum RNum (map (Rmult c) l) (c * acc) = map (Rmult c) (cumsum RNum l acc).
Proof.
  induction l as [|x l IH]; intro acc; [reflexivity|]. cbn [map cumsum]. rops.
  replace (c * acc + c * x) with (c * (acc + x)) by ring. rewrite IH. reflexivity.
Qed.
Lemma last_scale c (l : list R) : last (map (Rmult c) l) 0 = c * last l 0.
Proof.
  induction l as [|x l IH]; [simpl; ring|]. destruct l as [|y l]; [reflexivity|].
  change (last (map (Rmult c) (x :: y :: l)) 0) with (last (map (Rmult c) (y :: l)) 0). rewrite IH. reflexivity.
Qed.
Lemma cumulative_scale c (pv : list R) (vl : R) : cumulative RNum (map (Rmult c) pv) (c * vl) = map (Rmult c) (cumulative RNum pv vl).
Proof.
  unfold cumulative. cbv zeta.
  assert (E : cumsum RNum (map (Rmult c) pv) (c0 RNum) = map (Rmult c) (cumsum RNum pv (c0 RNum)))
    by (rewrite (c0_scale c) at 1; apply cumsum_scale).
  rewrite E. replace (c0 RNum) with 0 by (rconst; reflexivity). rops. rewrite last_scale, !map_map.
  apply map_ext. intro x. rops. ring.
Qed.
Lemma slice_map {A B} (f : A -> B) (w : Z * Z) (l : list A) : slice w (map f l) = map f (slice w l).
Proof. unfold slice. rewrite skipn_map, firstn_map. reflexivity. Qed.

Theorem psd_mesoporous_scale : forall (c : R) (method g : string) (pressure vol thick kr : list R) limits r cum w,
  psd_mesoporous RNum method g pressure vol thick kr limits = Ok (r, cum, w) ->
  psd_mesoporous RNum method g pressure (map (Rmult c) vol) thick kr limits = Ok (sc_res c r, map (Rmult c) cum, w).
Proof.
  intros c method g pressure vol thick kr limits r cum w H. unfold psd_mesoporous in *.
  destruct (negb (mem method ["pygaps-DH"; "BJH"; "DH"])); [discriminate H|].
  destruct (negb (mem g ["slit"; "cylinder"; "halfopen-cylinder"; "sphere"])); [discriminate H|].
  cbv zeta in *.
  destruct (check3 _) as [w0|e]; simpl in H |- *; [|discriminate H].
  change (t RNum) with R in *. rewrite slice_map.
  set (v := slice w0 vol) in *. set (tt := slice w0 thick) in *. set (kk := slice w0 kr) in *.
  destruct (method =? "pygaps-DH")%string.
  - destruct (psd_pygapsdh RNum v tt kk g) as [r0|e] eqn:E; simpl in H; [|discriminate H]. injection H as <- <- <-.
    rewrite (pygapsdh_scale c _ _ _ _ _ E). simpl. replace (Q2R 0) with 0 by (unfold Q2R; simpl; lra). rewrite last_scale, cumulative_scale. reflexivity.
  - destruct (method =? "BJH")%string.
    + destruct (psd_bjh RNum v tt kk g) as [r0|e] eqn:E; simpl in H; [|discriminate H]. injection H as <- <- <-.
      rewrite (bjh_scale c _ _ _ _ _ E). simpl. replace (Q2R 0) with 0 by (unfold Q2R; simpl; lra). rewrite last_scale, cumulative_scale. reflexivity.
    + destruct (psd_dollimore_heal RNum v tt kk g) as [r0|e] eqn:E; simpl in H; [|discriminate H]. injection H as <- <- <-.
      rewrite (dollimore_heal_scale c _ _ _ _ _ E). simpl. replace (Q2R 0) with 0 by (unfold Q2R; simpl; lra). rewrite last_scale, cumulative_scale. reflexivity.
Qed.

Theorem psd_meso_scale : forall (c : R) (vol thick kr : list R) (g : string) (r : psd_result RNum),
  (psd_pygapsdh RNum vol thick kr g = Ok r -> psd_pygapsdh RNum (map (Rmult c) vol) thick kr g = Ok (sc_res c r)) /\
  (psd_bjh RNum vol thick kr g = Ok r -> psd_bjh RNum (map (Rmult c) vol) thick kr g = Ok (sc_res c r)) /\
  (psd_dollimore_heal RNum vol thick kr g = Ok r -> psd_dollimore_heal RNum (map (Rmult c) vol) thick kr g = Ok (sc_res c r)).
Proof. intros. split; [apply pygapsdh_scale|split; [apply bjh_scale|apply dollimore_heal_scale]]. Qed.

Lemma sc_res_fields c (r : psd_result RNum) :
  p_widths (sc_res c r) = p_widths r /\ p_volumes (sc_res c r) = map (Rmult c) (p_volumes r) /\
  p_areas (sc_res c r) = map (Rmult c) (p_areas r) /\ p_dist (sc_res c r) = map (Rmult c) (p_dist r).
Proof. repeat split; reflexivity. Qed.

(* the same statements without the auxiliary sc_res *)
Definition scaled_by (c : R) (r r' : psd_result RNum) : Prop :=
  p_widths r' = p_widths r /\ p_volumes r' = map (Rmult c) (p_volumes r) /\
  p_areas r' = map (Rmult c) (p_areas r) /\ p_dist r' = map (Rmult c) (p_dist r).
Theorem psd_meso_scale_explicit : forall (c : R) (vol thick kr : list R) (g : string) (r : psd_result RNum),
  (psd_pygapsdh RNum vol thick kr g = Ok r -> exists r', psd_pygapsdh RNum (map (Rmult c) vol) thick kr g = Ok r' /\ scaled_by c r r') /\
  (psd_bjh RNum vol thick kr g = Ok r -> exists r', psd_bjh RNum (map (Rmult c) vol) thick kr g = Ok r' /\ scaled_by c r r') /\
  (psd_dollimore_heal RNum vol thick kr g = Ok r -> exists r', psd_dollimore_heal RNum (map (Rmult c) vol) thick kr g = Ok r' /\ scaled_by c r r').
Proof.
  intros c vol thick kr g r. destruct (psd_meso_scale c vol thick kr g r) as (H1 & H2 & H3).
  repeat split; intro H; exists (sc_res c r); (split; [auto|apply sc_res_fields]).
Qed.
Theorem psd_mesoporous_scale_explicit : forall (c : R) (method g : string) (pressure vol thick kr : list R) limits r cum w,
  psd_mesoporous RNum method g pressure vol thick kr limits = Ok (r, cum, w) ->
  exists r', psd_mesoporous RNum method g pressure (map (Rmult c) vol) thick kr limits = Ok (r', map (Rmult c) cum, w) /\ scaled_by c r r'.
Proof.
  intros c method g pressure vol thick kr limits r cum w H. exists (sc_res c r). split; [apply psd_mesoporous_scale, H|apply sc_res_fields].
Qed.

(* the hypotheses are satisfiable: each method returns a result on a three-point branch *)
Lemma psd_scale_example :
  (exists r, psd_pygapsdh RNum [1; 2; 4] [0; 0; 0] [1; 2; 3] "sphere" = Ok r) /\
  (exists r, psd_bjh RNum [1; 2; 4] [0; 0; 0] [1; 2; 3] "cylinder" = Ok r) /\
  (exists r, psd_dollimore_heal RNum [1; 2; 4] [0; 0; 0] [1; 2; 3] "cylinder" = Ok r).
Proof. repeat split; eexists; reflexivity. Qed.
