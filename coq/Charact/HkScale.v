(* C15, scaling clause for the Horvath-Kawazoe family (psd_microporous: HK, HK-CY, RY, RY-CY).
   The pore widths are solved from the PRESSURES (and, for the Cheng-Yang variants, from the coverages l / (1.01 max l));
   the loadings enter the result only through the distribution tail (GENERATED hk_tail / ry_tail, Gen/HkGen.v).
   - hk_tail_scale : multiplying every loading by c multiplies the distribution and the cumulative volume by c and leaves the
     reported (mid-point) widths unchanged, for lists of any length;
   - coverage_scale : for c > 0 the coverages handed to the Cheng-Yang solver do not change. *)
From Coq Require Import String Reals Lra QArith ZArith List Bool Lia.
From PG Require Import Lib.Num Charact.HkLib Gen.HkGen.
Import ListNotations.
Open Scope R_scope.

Lemma Q2R_1000' : Q2R (1000 # 1) = 1000. Proof. unfold Q2R; simpl; lra. Qed.
Lemma upto_map (f : R -> R) n (l : list R) : upto (N:=RNum) n (map f l) = map f (upto (N:=RNum) n l).
Proof. unfold upto. apply firstn_map. Qed.
Lemma adiff_scale c : forall l : list R, adiff (N:=RNum) (map (Rmult c) l) = map (Rmult c) (adiff (N:=RNum) l).
Proof.
  induction l as [|x l IH]; [reflexivity|]. destruct l as [|y l]; [reflexivity|].
  change (adiff (N:=RNum) (map (Rmult c) (x :: y :: l))) with ((c * y - c * x) :: adiff (N:=RNum) (map (Rmult c) (y :: l))).
  change (adiff (N:=RNum) (x :: y :: l)) with ((y - x) :: adiff (N:=RNum) (y :: l)).
  rewrite IH. cbn [map]. f_equal. ring.
Qed.
Lemma amap2_div_scale c : forall a b : list R, amap2 (N:=RNum) Rdiv (map (Rmult c) a) b = map (Rmult c) (amap2 (N:=RNum) Rdiv a b).
Proof. induction a as [|x a IH]; intros [|y b]; try reflexivity. cbn [map amap2]. rewrite IH. f_equal. unfold Rdiv; ring. Qed.

Lemma tl_map {A B} (f : A -> B) (l : list A) : tl (map f l) = map f (tl l).
Proof. destruct l; reflexivity. Qed.
Lemma vol_scale (c M d k : R) (L : list R) :
  map (fun x => x / k) (map (fun x => x / d) (map (fun x => x * M) (map (Rmult c) L)))
  = map (Rmult c) (map (fun x => x / k) (map (fun x => x / d) (map (fun x => x * M) L))).
Proof. rewrite !map_map. apply map_ext. intro x. unfold Rdiv. ring. Qed.

Theorem hk_tail_scale : forall (c : R) (ads : hkads RNum) (W P Ld : list R),
  hk_tail RNum ads W P (map (Rmult c) Ld) =
  (fst (fst (hk_tail RNum ads W P Ld)), map (Rmult c) (snd (fst (hk_tail RNum ads W P Ld))), map (Rmult c) (snd (hk_tail RNum ads W P Ld)))
  /\ ry_tail RNum ads W P (map (Rmult c) Ld) =
  (fst (fst (ry_tail RNum ads W P Ld)), map (Rmult c) (snd (fst (ry_tail RNum ads W P Ld))), map (Rmult c) (snd (ry_tail RNum ads W P Ld))).
Proof.
  intros c ads W P Ld.
  assert (H : hk_tail RNum ads W P (map (Rmult c) Ld) =
    (fst (fst (hk_tail RNum ads W P Ld)), map (Rmult c) (snd (fst (hk_tail RNum ads W P Ld))), map (Rmult c) (snd (hk_tail RNum ads W P Ld)))).
  { unfold hk_tail. cbv zeta. cbn [fst snd]. cbv [ndiv nmul nofQ RNum]. change (t RNum) with R. rewrite upto_map, vol_scale.
    rewrite adiff_scale, amap2_div_scale. unfold from_1. rewrite tl_map. reflexivity. }
  split; [exact H|exact H].
Qed.

(* the coverage l / (1.01 max l) handed to the Cheng-Yang solver is unchanged by a positive scale factor *)
Fixpoint lmax (l : list R) : R := match l with [] => 0 | [x] => x | x :: r => Rmax x (lmax r) end.
Lemma lmax_scale c : 0 <= c -> forall l, lmax (map (Rmult c) l) = c * lmax l.
Proof.
  intros Hc. induction l as [|x l IH]; [simpl; ring|]. destruct l as [|y l]; [reflexivity|].
  change (lmax (map (Rmult c) (x :: y :: l))) with (Rmax (c * x) (lmax (map (Rmult c) (y :: l)))).
  change (lmax (x :: y :: l)) with (Rmax x (lmax (y :: l))). rewrite IH. apply RmaxRmult, Hc.
Qed.
Theorem coverage_scale : forall (c : R) (loading : list R), 0 < c -> lmax loading <> 0 ->
  map (solve_hk_cy_coverage RNum (lmax (map (Rmult c) loading))) (map (Rmult c) loading)
  = map (solve_hk_cy_coverage RNum (lmax loading)) loading.
Proof.
  intros c loading Hc Hm. rewrite lmax_scale by lra. rewrite map_map. apply map_ext. intro x.
  unfold solve_hk_cy_coverage. cbv [ndiv nmul nofQ RNum t].
  assert (Q2R (101 # 100) <> 0) by (unfold Q2R; simpl; lra). field. repeat split; try assumption; lra.
Qed.

Example hk_scale_hypotheses_satisfiable : lmax [1; 3; 2] <> 0.
Proof. simpl. unfold Rmax. destruct (Rle_dec 3 2); [lra|]. destruct (Rle_dec 1 3); lra. Qed.
