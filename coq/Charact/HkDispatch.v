(* C17 - the HIGH-LEVEL entry point psd_microporous: which model name selects which low-level function and whether the
   Cheng-Yang correction is on.  `psd_microporous_dispatch`, `micro_psd_models`, `pore_geometries` are GENERATED (Gen/HkGen.v,
   tools/py2v_hk.py evaluates the dispatch block of psd_microporous for every accepted model name); here: the table is the
   documented one, and - composed with the solver theorems of Charact/Hk.v - a width obtained through psd_microporous(name)
   solves the equation NAMED by `name` (plain for "HK"/"RY", Cheng-Yang corrected for "HK-CY"/"RY-CY"). *)
From Coq Require Import String Reals Lra Lia List Bool Arith.
From PG Require Import Lib.Num Charact.HkLib Gen.HkGen Charact.Hk.
Import ListNotations.
Open Scope R_scope.

Fixpoint dispatch_lookup (name : string) (tbl : list (string * (hk_family * bool))) : option (hk_family * bool) :=
  match tbl with [] => None | (k, v) :: r => if String.eqb name k then Some v else dispatch_lookup name r end.

Definition family_name (f : hk_family) : string := match f with FamHK => "HK"%string | FamRY => "RY"%string end.
Definition cy_suffix (cy : bool) : string := if cy then "-CY"%string else EmptyString.

(* the generated table is the documented one *)
Lemma dispatch_documented_l :
  micro_psd_models = ["HK"; "HK-CY"; "RY"; "RY-CY"]%string /\
  pore_geometries = ["slit"; "cylinder"; "sphere"]%string /\
  psd_microporous_dispatch =
    [("HK", (FamHK, false)); ("HK-CY", (FamHK, true)); ("RY", (FamRY, false)); ("RY-CY", (FamRY, true))]%string.
Proof. repeat split; reflexivity. Qed.

(* the same, as the documentation words it: every accepted name has an entry, and the entry of a name is
   (family, cy) exactly when the name is the family name with "-CY" appended iff cy *)
Lemma dispatch_by_name_l :
  map fst psd_microporous_dispatch = micro_psd_models /\
  (forall name f cy, dispatch_lookup name psd_microporous_dispatch = Some (f, cy) <-> name = (family_name f ++ cy_suffix cy)%string).
Proof.
  split; [reflexivity|].
  intros name f cy. split.
  - unfold psd_microporous_dispatch. simpl.
    repeat match goal with |- context [String.eqb ?a ?b] => destruct (String.eqb_spec a b) end;
      intro H; try discriminate; injection H as <- <-; subst; reflexivity.
  - intros ->. destruct f, cy; reflexivity.
Qed.

Section Micro.
Variable minimise : (R -> R) -> R -> R -> R.
Hypothesis minimise_spec : minimiser_contract minimise.

(* every solved width of the Cheng-Yang loop (any list length) solves the corrected equation at ITS pressure and coverage *)
Lemma solve_hk_cy_each_l : forall hk_fun bound geo pressure loading i,
  bound < 50 -> length pressure = length loading ->
  (i < length (solve_hk_cy minimise hk_fun bound geo pressure loading))%nat ->
  let sf := solve_hk_cy_sf_corr (solve_hk_cy_coverage RNum (list_max loading) (nth i loading 0)) in
  (exists L, bound <= L <= 50 /\ exp (hk_fun L - sf) = nth i pressure 0) ->
  bound <= nth i (solve_hk_cy minimise hk_fun bound geo pressure loading) 0 <= 50 /\
  exp (hk_fun (nth i (solve_hk_cy minimise hk_fun bound geo pressure loading) 0) - sf) = nth i pressure 0.
Proof.
  intros hk_fun bound geo pressure loading i Hb Hlen Hi sf Hex. unfold solve_hk_cy in *.
  pose proof (solve_loop_length
    (fun pc : R * R => minimise (solve_hk_cy_objective hk_fun (solve_hk_cy_sf_corr (snd pc)) (fst pc)) bound (solve_hk_upper RNum))
    (solve_hk_p_w_max RNum geo) (combine pressure (map (solve_hk_cy_coverage RNum (list_max loading)) loading))) as Hle.
  pose proof (solve_loop_nth _ _ _ _ (0, 0) 0 Hi) as E. change (t RNum) with R in *.
  rewrite combine_length, map_length in Hle.
  rewrite E. rewrite combine_nth by (rewrite map_length; exact Hlen). simpl fst; simpl snd.
  rewrite (map_nth_R (solve_hk_cy_coverage RNum (list_max loading)) loading i 0) by lia.
  apply solved_width_solves_cy_l; auto.
Qed.

(* psd_microporous up to the solver call: look the name up, pick the potential of the family, run the plain or the
   Cheng-Yang loop *)
Definition micro_solve (name : string) (phi_hk phi_ry : R -> R) (bound geo : R) (pressure loading : list R) : option (list R) :=
  match dispatch_lookup name psd_microporous_dispatch with
  | None => None
  | Some (fam, cy) =>
      let phi := match fam with FamHK => phi_hk | FamRY => phi_ry end in
      Some (if cy then solve_hk_cy minimise phi bound geo pressure loading else solve_hk minimise phi bound geo pressure)
  end.

Lemma micro_solve_table_l : forall phi_hk phi_ry bound geo pressure loading,
  micro_solve "HK" phi_hk phi_ry bound geo pressure loading = Some (solve_hk minimise phi_hk bound geo pressure) /\
  micro_solve "HK-CY" phi_hk phi_ry bound geo pressure loading = Some (solve_hk_cy minimise phi_hk bound geo pressure loading) /\
  micro_solve "RY" phi_hk phi_ry bound geo pressure loading = Some (solve_hk minimise phi_ry bound geo pressure) /\
  micro_solve "RY-CY" phi_hk phi_ry bound geo pressure loading = Some (solve_hk_cy minimise phi_ry bound geo pressure loading) /\
  (forall name, ~ In name micro_psd_models -> micro_solve name phi_hk phi_ry bound geo pressure loading = None).
Proof.
  intros. repeat split; try reflexivity.
  intros name Hn. unfold micro_solve, psd_microporous_dispatch, micro_psd_models in *. simpl in *.
  repeat match goal with |- context [String.eqb ?a ?b] => destruct (String.eqb_spec a b) end; try reflexivity; subst; exfalso; tauto.
Qed.

(* the name decides the equation: potential of the family the name starts with, Cheng-Yang term iff the name ends in "-CY" *)
Fixpoint is_suffix (suf s : string) : bool :=
  String.eqb suf s || match s with EmptyString => false | String _ r => is_suffix suf r end.
Definition named_phi (name : string) (phi_hk phi_ry : R -> R) : R -> R := if String.prefix "HK" name then phi_hk else phi_ry.
Definition named_sf (name : string) (loading : list R) (i : nat) : R :=
  if is_suffix "-CY" name then solve_hk_cy_sf_corr (solve_hk_cy_coverage RNum (list_max loading) (nth i loading 0)) else 0.

Lemma micro_widths_solve_named_equation_l : forall name phi_hk phi_ry bound geo pressure loading solved i,
  micro_solve name phi_hk phi_ry bound geo pressure loading = Some solved ->
  bound < 50 -> length pressure = length loading -> (i < length solved)%nat ->
  (exists L, bound <= L <= 50 /\ exp (named_phi name phi_hk phi_ry L - named_sf name loading i) = nth i pressure 0) ->
  bound <= nth i solved 0 <= 50 /\
  exp (named_phi name phi_hk phi_ry (nth i solved 0) - named_sf name loading i) = nth i pressure 0.
Proof.
  intros name phi_hk phi_ry bound geo pressure loading solved i Hs Hb Hlen Hi Hex.
  unfold micro_solve in Hs.
  destruct (dispatch_lookup name psd_microporous_dispatch) as [[f cy]|] eqn:E; [|discriminate].
  apply (proj2 dispatch_by_name_l) in E. subst name. injection Hs as <-.
  set (sfc := solve_hk_cy_sf_corr (solve_hk_cy_coverage RNum (list_max loading) (nth i loading 0))) in *.
  destruct f, cy.
  - change (named_phi (family_name FamHK ++ cy_suffix true) phi_hk phi_ry) with phi_hk in *.
    change (named_sf (family_name FamHK ++ cy_suffix true) loading i) with sfc in *.
    apply solve_hk_cy_each_l; auto.
  - change (named_phi (family_name FamHK ++ cy_suffix false) phi_hk phi_ry) with phi_hk in *.
    change (named_sf (family_name FamHK ++ cy_suffix false) loading i) with 0 in *.
    assert (Hex' : exists L, bound <= L <= 50 /\ exp (phi_hk L) = nth i pressure 0).
    { destruct Hex as (L & HL & HE). exists L. split; [exact HL|]. rewrite <- HE. f_equal. lra. }
    destruct (solve_hk_each_l minimise minimise_spec phi_hk bound geo pressure i Hb Hi Hex') as [H1 H2].
    split; [exact H1|]. rewrite <- H2. f_equal. lra.
  - change (named_phi (family_name FamRY ++ cy_suffix true) phi_hk phi_ry) with phi_ry in *.
    change (named_sf (family_name FamRY ++ cy_suffix true) loading i) with sfc in *.
    apply solve_hk_cy_each_l; auto.
  - change (named_phi (family_name FamRY ++ cy_suffix false) phi_hk phi_ry) with phi_ry in *.
    change (named_sf (family_name FamRY ++ cy_suffix false) loading i) with 0 in *.
    assert (Hex' : exists L, bound <= L <= 50 /\ exp (phi_ry L) = nth i pressure 0).
    { destruct Hex as (L & HL & HE). exists L. split; [exact HL|]. rewrite <- HE. f_equal. lra. }
    destruct (solve_hk_each_l minimise minimise_spec phi_ry bound geo pressure i Hb Hi Hex') as [H1 H2].
    split; [exact H1|]. rewrite <- H2. f_equal. lra.
Qed.
End Micro.

(* ---- psd_microporous(adsorbate_model=None): where the adsorbate parameter record comes from, and what the module remembers.
   `psd_microporous_adsorbate_model` and `psd_micro_module_writes` are GENERATED (tools/py2v_hk.py: every assignment to
   `adsorbate_model` in the function with its guards and sources; every write of a function of psd_micro.py to a module-level name,
   function attribute or argument, every memoising decorator). *)
Lemma adsorbate_model_documented_l :
  psd_microporous_adsorbate_model =
    [("adsorbate_model is None",
      [("molecular_diameter", FromProperty "molecular_diameter"); ("polarizability", FromProperty "polarizability");
       ("magnetic_susceptibility", FromProperty "magnetic_susceptibility"); ("surface_density", FromProperty "surface_density");
       ("liquid_density", FromMethodAtIsothermTemperature "liquid_density"); ("adsorbate_molar_mass", FromMethod "molar_mass")])]%string.
Proof. reflexivity. Qed.
Lemma module_keeps_no_state_l : psd_micro_module_writes = [].
Proof. reflexivity. Qed.

Section DefaultAdsorbate.
Variable prop : string -> R.            (* isotherm.adsorbate.get_prop(key) *)
Variable method0 : string -> R.         (* isotherm.adsorbate.<method>() *)
Variable methodT : string -> R -> R.    (* isotherm.adsorbate.<method>(temperature) *)
Definition source_value (T : R) (s : ads_source) : option R :=
  match s with
  | FromProperty k => Some (prop k) | FromMethodAtIsothermTemperature m => Some (methodT m T) | FromMethod m => Some (method0 m)
  | OtherSource _ => None end.
Fixpoint source_of (key : string) (tbl : list (string * ads_source)) : option ads_source :=
  match tbl with [] => None | (k, v) :: r => if String.eqb key k then Some v else source_of key r end.
Definition key_value (T : R) (tbl : list (string * ads_source)) (key : string) : option R :=
  match source_of key tbl with Some s => source_value T s | None => None end.
(* the record handed to the low-level function for an isotherm at temperature T: the ONLY assignment, taken when no model was passed *)
Definition default_hkads (T : R) : option (hkads RNum) :=
  match psd_microporous_adsorbate_model with
  | [(g, tbl)] =>
      if negb (String.eqb g "adsorbate_model is None") then None else
      match key_value T tbl "molecular_diameter", key_value T tbl "polarizability", key_value T tbl "magnetic_susceptibility",
            key_value T tbl "surface_density", key_value T tbl "liquid_density", key_value T tbl "adsorbate_molar_mass" with
      | Some a, Some b, Some c, Some d, Some e, Some f => Some (mk_hkads RNum a b c d e f)
      | _, _, _, _, _, _ => None end
  | _ => None end.
(* it is a function of THIS call's adsorbate and temperature only: four stored properties, the liquid density at the isotherm
   temperature, the molar mass *)
Lemma default_hkads_l : forall T,
  default_hkads T = Some (mk_hkads RNum (prop "molecular_diameter") (prop "polarizability") (prop "magnetic_susceptibility")
                                   (prop "surface_density") (methodT "liquid_density" T) (method0 "molar_mass")).
Proof. reflexivity. Qed.
(* ... hence the cumulative pore volume of a default call is the loading as liquid volume AT THE ISOTHERM'S OWN TEMPERATURE *)
Lemma default_cumulative_l : forall T ads (W P Ld : list R), default_hkads T = Some ads ->
  (length W <= length Ld)%nat -> forall i, (i + 1 < length W)%nat ->
  nth i (snd (hk_tail RNum ads W P Ld)) 0 = nth (i + 1) Ld 0 * method0 "molar_mass" / methodT "liquid_density" T / 1000.
Proof.
  intros T ads W P Ld H Hl i Hi. rewrite default_hkads_l in H. injection H as <-.
  rewrite (tail_cumulative _ W P Ld Hl i Hi). reflexivity.
Qed.
End DefaultAdsorbate.
