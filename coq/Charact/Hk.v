(* C17 - Horvath-Kawazoe pore widths solve the method's potential equation.
   Generated (Gen/HkGen.v, tools/py2v_hk.py, from psd_micro.py / models_hk.py): the slit potential closures, _N_over_RT, the
   Kirkwood-Mueller constants, the parameter sets, per geometry the lower bound / geo / width post-processing, the distribution
   tail, the numbers of _solve_hk(_cy).   Hand-written here: the PUBLISHED slit equation (from the formula in the docstring of
   psd_horvath_kawazoe = Horvath & Kawazoe 1983), scipy's bounded scalar minimiser as a Section variable with its contract as
   a Section hypothesis, and the theorems. *)
From Coq Require Import String Reals Lra Lia QArith Qreals List Arith.
From Interval Require Import Tactic.
From PG Require Import Lib.Num Charact.HkLib Gen.HkGen.
Import ListNotations.
Open Scope R_scope.

(* ------------------------------------------------------------------ the published slit equation *)
(* Written over a carrier N : Num so that the SAME definition is the reals formula of the theorems (RNum) and can be evaluated
   exactly on rationals (QNum) by the check, which compares it with the implementation's closure at sampled widths. *)
Declare Scope hkn_scope.
Section Published.
Variable N : Num.
(* physical constants and unit factors the equation is written with *)
Record hkconst := mk_hkconst {
  c_NA : N;      (* Avogadro *)
  c_R : N;       (* gas constant *)
  c_me : N;      (* electron mass *)
  c_c : N;       (* speed of light *)
  k_m3 : N;      (* nm3 -> m3 (polarizability, susceptibility) *)
  k_m : N;       (* nm -> m *)
  k_sigma : N    (* sigma / d0 = (2/5)^(1/6) *)
}.
Local Notation "a + b" := (nadd a b) : hkn_scope.
Local Notation "a - b" := (nsub a b) : hkn_scope.
Local Notation "a * b" := (nmul a b) : hkn_scope.
Local Notation "a / b" := (ndiv a b) : hkn_scope.
Local Notation "a ^ n" := (npow a n) : hkn_scope.
Local Notation "' k" := (@nofQ N (inject_Z k)) (at level 1, format "' k") : hkn_scope.
Local Open Scope hkn_scope.
(* Kirkwood-Mueller dispersion constants:  A_gg = 3/2 m c^2 a_g X_g ;  A_gh = 6 m c^2 a_g a_h / (a_g/X_g + a_h/X_h) *)
Definition km_A_gg (K : hkconst) (ag xg : N) : N := '3 / '2 * c_me K * (c_c K) ^ 2 * ag * xg.
Definition km_A_gh (K : hkconst) (ag xg ah xh : N) : N := '6 * c_me K * (c_c K) ^ 2 * ag * ah / (ag / xg + ah / xh).
(* RT ln(p/p0) = N_A (n_h A_gh + n_g A_gg) / (sigma^4 (L - 2 d0))
                 * [ sigma^10/(9 d0^9) - sigma^4/(3 d0^3) - sigma^10/(9 (L-d0)^9) + sigma^4/(3 (L-d0)^3) ]
   (g = guest/adsorbate, h = host/adsorbent; lengths in nm inside the bracket, sigma in m in the prefactor) *)
Definition hk_published_rhs (K : hkconst) (dg ag xg ng dh ah xh nh L : N) : N :=
  let d0 := (dg + dh) / '2 in
  let s := k_sigma K * d0 in
  let Agg := km_A_gg K (ag * k_m3 K) (xg * k_m3 K) in
  let Agh := km_A_gh K (ag * k_m3 K) (xg * k_m3 K) (ah * k_m3 K) (xh * k_m3 K) in
  c_NA K * (nh * Agh + ng * Agg) / ((s * k_m K) ^ 4 * (L - '2 * d0))
  * (s ^ 10 / ('9 * d0 ^ 9) - s ^ 4 / ('3 * d0 ^ 3) - s ^ 10 / ('9 * (L - d0) ^ 9) + s ^ 4 / ('3 * (L - d0) ^ 3)).
(* ln(p/p0) as a function of the slit distance L *)
Definition hk_published_phi (K : hkconst) (T dg ag xg ng dh ah xh nh L : N) : N :=
  hk_published_rhs K dg ag xg ng dh ah xh nh L / (c_R K * T).

(* the binary64 values of the decimal literals 1e-27, 1e-9, 0.8583742 the code is written with *)
Definition f_1e_27 : Q := 348449143727041 # 348449143727040986586495598010130648530944.
Definition f_1e_9 : Q := 4835703278458517 # 4835703278458516698824704.
Definition f_sigma : Q := 7731547454528895 # 9007199254740992.
Definition py_const : hkconst :=
  mk_hkconst (nofQ const_Avogadro) (nofQ const_gas_constant) (nofQ const_electron_mass) (nofQ const_speed_of_light)
             (nofQ f_1e_27) (nofQ f_1e_9) (nofQ f_sigma).
End Published.

(* the constants of the implementation are the literature values (CODATA 2018/2022; the electron mass differs between the two
   adjustments in the 9th digit) and sigma/d0 is (2/5)^(1/6) to 7 digits *)
Lemma py_const_literature :
  Rabs (c_NA _ (py_const RNum) - 6.02214076e23) <= 1e-15 * 6.02214076e23 /\
  Rabs (c_R _ (py_const RNum) - 8.314462618) <= 1e-9 /\
  Rabs (c_me _ (py_const RNum) - 9.1093837e-31) <= 1e-8 * 9.1093837e-31 /\
  c_c _ (py_const RNum) = 299792458 /\
  Rabs (k_m3 _ (py_const RNum) - 1e-27) <= 1e-15 * 1e-27 /\
  Rabs (k_m _ (py_const RNum) - 1e-9) <= 1e-15 * 1e-9 /\
  Rabs (k_sigma _ (py_const RNum) - Rpower (2 / 5) (1 / 6)) <= 5e-8.
Proof.
  unfold py_const; simpl. unfold Q2R, f_1e_27, f_1e_9, f_sigma; simpl.
  repeat split; try interval with (i_prec 120).
  lra.
Qed.

Definition physical_ads (a : hkads RNum) : Prop :=
  0 < a_molecular_diameter _ a /\ 0 < a_polarizability _ a /\ 0 < a_magnetic_susceptibility _ a.
Definition physical_mat (m : hkmat RNum) : Prop :=
  0 < m_molecular_diameter _ m /\ 0 < m_polarizability _ m /\ 0 < m_magnetic_susceptibility _ m.

Ltac pos :=
  match goal with
  | |- 0 < ?a * ?b => apply Rmult_lt_0_compat; pos
  | |- 0 < ?a / ?b => apply Rdiv_lt_0_compat; pos
  | |- 0 < ?a + ?b => first [lra | apply Rplus_lt_0_compat; pos]
  | |- 0 < / ?a => apply Rinv_0_lt_compat; pos
  | |- _ => lra
  end.
Ltac nz := first [ lra | apply Rgt_not_eq; unfold Rgt; pos ].

Lemma Q2R_0 : Q2R (0 # 1) = 0. Proof. unfold Q2R; simpl; lra. Qed.
Lemma Q2R_1 : Q2R (1 # 1) = 1. Proof. unfold Q2R; simpl; lra. Qed.
Lemma Q2R_2 : Q2R (2 # 1) = 2. Proof. unfold Q2R; simpl; lra. Qed.
Lemma Q2R_3 : Q2R (3 # 1) = 3. Proof. unfold Q2R; simpl; lra. Qed.
Lemma Q2R_6 : Q2R (6 # 1) = 6. Proof. unfold Q2R; simpl; lra. Qed.
Lemma Q2R_9 : Q2R (9 # 1) = 9. Proof. unfold Q2R; simpl; lra. Qed.
Lemma Q2R_10 : Q2R (10 # 1) = 10. Proof. unfold Q2R; simpl; lra. Qed.
Lemma Q2R_50 : Q2R (50 # 1) = 50. Proof. unfold Q2R; simpl; lra. Qed.
Lemma Q2R_1000 : Q2R (1000 # 1) = 1000. Proof. unfold Q2R; simpl; lra. Qed.
Lemma Q2R_3_2 : Q2R (3 # 2) = 3 / 2. Proof. unfold Q2R; simpl; lra. Qed.
Ltac small_consts := rewrite ?Q2R_0, ?Q2R_1, ?Q2R_2, ?Q2R_3, ?Q2R_6, ?Q2R_9, ?Q2R_10, ?Q2R_50, ?Q2R_1000, ?Q2R_3_2.
(* every remaining Q2R literal (scipy constants, binary64 values of decimal literals) becomes an opaque positive real *)
Ltac big_consts :=
  repeat match goal with |- context [Q2R ?q] =>
    let r := fresh "k" in let Hr := fresh "Hk" in
    set (r := Q2R q);
    assert (Hr : 0 < r) by (unfold r, Q2R; simpl; apply Rmult_lt_0_compat; [|apply Rinv_0_lt_compat]; apply IZR_lt; reflexivity);
    clearbody r end.
Ltac ev_gen := cbv -[Rmult Rdiv Rinv Rplus Rminus Ropp IZR pow Q2R Rlt Rle Rltb Rleb Reqb exp ln]; small_consts.

(* THE constants-pinning theorem: for every parameter set, temperature and slit distance beyond the geometric minimum the
   generated closure is defined (no division by zero) and equals the published equation *)
Lemma hk_slit_matches_published_l : forall T (ads : hkads RNum) (mat : hkmat RNum) L,
  0 < T -> physical_ads ads -> physical_mat mat ->
  a_molecular_diameter _ ads + m_molecular_diameter _ mat < L ->
  hk_slit_potential_def RNum T ads mat L /\
  hk_slit_potential RNum T ads mat L =
    hk_published_phi RNum (py_const RNum) T
      (a_molecular_diameter _ ads) (a_polarizability _ ads) (a_magnetic_susceptibility _ ads) (a_surface_density _ ads)
      (m_molecular_diameter _ mat) (m_polarizability _ mat) (m_magnetic_susceptibility _ mat) (m_surface_density _ mat) L.
Proof.
  intros T [dg ag xg ng rho M] [dh ah xh nh] L HT (Hdg & Hag & Hxg) (Hdh & Hah & Hxh) HL; simpl in *.
  split.
  - ev_gen. big_consts. repeat split; nz.
  - ev_gen. big_consts. field. repeat split; first [nz | nra].
Qed.

(* slit lower bound = 2 d_eff = d_ads + d_mat (the geometric minimum), post-processing = L - d_mat *)
Lemma hk_slit_bound_post_l : forall T (ads : hkads RNum) (mat : hkmat RNum) w,
  hk_slit_bound RNum T ads mat = a_molecular_diameter _ ads + m_molecular_diameter _ mat /\
  hk_slit_post RNum T ads mat w = w - m_molecular_diameter _ mat /\
  ry_slit_bound RNum T ads mat = a_molecular_diameter _ ads + m_molecular_diameter _ mat /\
  ry_slit_post RNum T ads mat w = w - m_molecular_diameter _ mat /\
  hk_slit_geo RNum = 1 /\ ry_slit_geo RNum = 1.
Proof.
  intros T [dg ag xg ng rho M] [dh ah xh nh] w; simpl.
  repeat split; ev_gen; try reflexivity; field.
Qed.

(* cylinder / sphere: lower bound d_eff, the solved quantity is a radius: width = 2 L - d_mat *)
Lemma hk_round_bound_post_l : forall T (ads : hkads RNum) (mat : hkmat RNum) w,
  let d_eff := (a_molecular_diameter _ ads + m_molecular_diameter _ mat) / 2 in
  let post := 2 * w - m_molecular_diameter _ mat in
  (hk_cylinder_bound RNum T ads mat = d_eff /\ hk_cylinder_post RNum T ads mat w = post) /\
  (hk_sphere_bound RNum T ads mat = d_eff /\ hk_sphere_post RNum T ads mat w = post) /\
  (ry_cylinder_bound RNum T ads mat = d_eff /\ ry_cylinder_post RNum T ads mat w = post) /\
  (ry_sphere_bound RNum T ads mat = d_eff /\ ry_sphere_post RNum T ads mat w = post).
Proof.
  intros T [dg ag xg ng rho M] [dh ah xh nh] w; simpl.
  repeat split; ev_gen; reflexivity.
Qed.

(* the three built-in adsorbent parameter sets are the published ones (Horvath-Kawazoe carbon; Saito-Foley oxide ions),
   each value being the binary64 nearest to the decimal *)
Definition near (x : R) (d : R) : Prop := Rabs (x - d) <= 1e-15 * d.
Lemma hk_builtin_parameter_sets_l :
  map fst (adsorbent_models RNum) = ["Carbon(HK)"%string; "AlSiOxideIon"%string; "AlPhOxideIon"%string] /\
  Forall2 (fun (m : hkmat RNum) (v : R * R * R * R) =>
             let '(d, a, x, n) := v in
             near (m_molecular_diameter _ m) d /\ near (m_polarizability _ m) a /\
             near (m_magnetic_susceptibility _ m) x /\ near (m_surface_density _ m) n)
          (map snd (adsorbent_models RNum))
          [ (0.34, 1.02e-3, 1.35e-7, 3.845e19); (0.276, 2.5e-3, 1.3e-8, 1.315e19); (0.260, 2.5e-3, 1.3e-8, 1.000e19) ].
Proof.
  split; [reflexivity|].
  cbv [adsorbent_models map snd PROPERTIES_CARBON PROPERTIES_AlSi_OXIDE_ION PROPERTIES_AlPh_OXIDE_ION].
  repeat constructor; unfold near; cbv [m_molecular_diameter m_polarizability m_magnetic_susceptibility m_surface_density nofQ RNum Q2R Qnum Qden];
    interval with (i_prec 120).
Qed.

(* ------------------------------------------------------------------ the distribution tail (generated hk_tail / ry_tail) *)
Lemma upto_all : forall (a : list R), upto (N:=RNum) (length a) a = a.
Proof. intros; apply firstn_all. Qed.
Lemma upto_nth : forall n (a : list R) i d, (i < n)%nat -> nth i (upto (N:=RNum) n a) d = nth i a d.
Proof.
  unfold upto. induction n; intros a i d H; [lia|].
  destruct a; [destruct i; reflexivity|]. destruct i; simpl; auto. apply IHn; lia.
Qed.
Lemma upto_length : forall n (a : list R), (n <= length a)%nat -> length (upto (N:=RNum) n a) = n.
Proof. intros; unfold upto; apply firstn_length_le; auto. Qed.

Definition liquid_volume (ads : hkads RNum) (n : R) : R :=
  n * a_adsorbate_molar_mass _ ads / a_liquid_density _ ads / 1000.

Section Tail.
Variable ads : hkads RNum.
Variables W P Ld : list R.     (* post-processed solved widths, pressures, loadings *)
Hypothesis Hlen : (length W <= length Ld)%nat.

Let vol := map (fun x_ : R => x_ / 1000) (map (fun x_ : R => x_ / a_liquid_density _ ads) (map (fun x_ : R => x_ * a_adsorbate_molar_mass _ ads) (upto (N:=RNum) (length W) Ld))).

Lemma vol_length : length vol = length W.
Proof. unfold vol. rewrite !map_length. apply upto_length; auto. Qed.
Lemma vol_nth : forall i, (i < length W)%nat -> nth i vol 0 = liquid_volume ads (nth i Ld 0).
Proof.
  intros i Hi. unfold vol.
  rewrite map_nth_R by (rewrite !map_length, upto_length; auto).
  rewrite map_nth_R by (rewrite !map_length, upto_length; auto).
  rewrite map_nth_R by (rewrite upto_length; auto).
  rewrite upto_nth by auto. reflexivity.
Qed.

Lemma hk_tail_unfold :
  hk_tail RNum ads W P Ld =
  (map (fun x_ : R => x_ / 2) (amap2 (N:=RNum) Rplus (but_last (N:=RNum) W) (from_1 (N:=RNum) W)),
   amap2 (N:=RNum) Rdiv (adiff (N:=RNum) vol) (adiff (N:=RNum) W), from_1 (N:=RNum) vol).
Proof.
  unfold hk_tail, vol. cbv zeta. rewrite !upto_all. cbv [nadd ndiv nmul nofQ RNum]. rewrite Q2R_2, Q2R_1000. reflexivity.
Qed.
Lemma ry_tail_is_hk_tail : ry_tail RNum ads W P Ld = hk_tail RNum ads W P Ld.
Proof. reflexivity. Qed.

Lemma tail_lengths :
  let '(w, d, v) := hk_tail RNum ads W P Ld in
  length w = (length W - 1)%nat /\ length d = (length W - 1)%nat /\ length v = (length W - 1)%nat.
Proof.
  rewrite hk_tail_unfold. unfold but_last, from_1.
  repeat split.
  - rewrite map_length, amap2_length; rewrite removelast_length; auto. rewrite tl_length; auto.
  - rewrite amap2_length; rewrite adiff_length, ?adiff_length, vol_length; auto.
  - rewrite tl_length, vol_length; auto.
Qed.

Lemma tail_midpoint : forall i, (i + 1 < length W)%nat ->
  nth i (fst (fst (hk_tail RNum ads W P Ld))) 0 = (nth i W 0 + nth (i + 1) W 0) / 2.
Proof.
  intros i Hi. rewrite hk_tail_unfold; simpl. unfold but_last, from_1.
  rewrite map_nth_R.
  - rewrite amap2_nth; [| rewrite removelast_length; lia | rewrite tl_length; lia].
    rewrite removelast_nth by auto. rewrite tl_nth. reflexivity.
  - rewrite amap2_length; rewrite removelast_length; [lia | rewrite tl_length; lia].
Qed.

Lemma tail_cumulative : forall i, (i + 1 < length W)%nat ->
  nth i (snd (hk_tail RNum ads W P Ld)) 0 = liquid_volume ads (nth (i + 1) Ld 0).
Proof.
  intros i Hi. rewrite hk_tail_unfold; simpl. unfold from_1. rewrite tl_nth. apply vol_nth; lia.
Qed.

Lemma tail_difference_quotient : forall i, (i + 1 < length W)%nat ->
  nth i (snd (fst (hk_tail RNum ads W P Ld))) 0 =
  (liquid_volume ads (nth (i + 1) Ld 0) - liquid_volume ads (nth i Ld 0)) / (nth (i + 1) W 0 - nth i W 0).
Proof.
  intros i Hi. rewrite hk_tail_unfold; simpl.
  rewrite amap2_nth; [| rewrite adiff_length, vol_length; lia | rewrite adiff_length; lia].
  rewrite !adiff_nth by (rewrite ?vol_length; lia).
  rewrite !vol_nth by lia. reflexivity.
Qed.
End Tail.

(* definedness of the tail (what numpy needs: equal lengths, non-zero denominators) follows from: as many loadings as widths,
   non-zero liquid density, consecutive solved widths distinct *)
Lemma Forall_nth_R : forall (Pp : R -> Prop) (l : list R), (forall i, (i < length l)%nat -> Pp (nth i l 0)) -> Forall Pp l.
Proof.
  intros Pp l; induction l as [|x l IH]; intros H; constructor.
  - apply (H O); simpl; lia.
  - apply IH. intros i Hi. apply (H (S i)); simpl; lia.
Qed.

Lemma hk_tail_defined : forall (ads : hkads RNum) W P Ld,
  length W = length Ld -> a_liquid_density _ ads <> 0 ->
  (forall i, (i + 1 < length W)%nat -> nth (i + 1) W 0 <> nth i W 0) ->
  hk_tail_def RNum ads W P Ld.
Proof.
  intros ads W P Ld Hl Hrho Hd.
  unfold hk_tail_def. cbv zeta. rewrite !upto_all. change (t RNum) with R. rewrite Hl, upto_all.
  cbv [nofQ RNum t]. rewrite Q2R_0, Q2R_2, Q2R_1000.
  unfold but_last, from_1.
  repeat split; try lra; auto.
  - rewrite removelast_length, tl_length; reflexivity.
  - rewrite !adiff_length, !map_length. rewrite Hl; reflexivity.
  - apply Forall_nth_R. intros i Hi. rewrite adiff_length in Hi.
    rewrite adiff_nth by lia. specialize (Hd i ltac:(lia)). lra.
Qed.

(* ------------------------------------------------------------------ the solver: scipy.optimize.minimize_scalar as an oracle *)
Lemma solve_loop_length : forall {A} (sol : A -> R) pmax pts, (length (solve_loop (N:=RNum) sol pmax pts) <= length pts)%nat.
Proof. intros A sol pmax pts; induction pts as [|a r IH]; simpl; [lia|]. match goal with |- context [if ?c then _ else _] => destruct c end; simpl; change (t RNum) with R in *; lia. Qed.

Lemma solve_loop_nth : forall {A} (sol : A -> R) pmax pts i (da : A) d,
  (i < length (solve_loop (N:=RNum) sol pmax pts))%nat ->
  nth i (solve_loop (N:=RNum) sol pmax pts) d = sol (nth i pts da).
Proof.
  intros A sol pmax pts; induction pts as [|p r IH]; intros i da d Hi; simpl in *; [lia|].
  destruct i; [reflexivity|].
  match goal with H : context [if ?c then _ else _] |- _ => destruct c end; simpl in *; [lia|]. apply IH; lia.
Qed.

(* the loop stops after the first solved width above p_w_max: every width before the last one is <= p_w_max *)
Lemma solve_loop_cut : forall {A} (sol : A -> R) pmax pts i d,
  (i + 1 < length (solve_loop (N:=RNum) sol pmax pts))%nat -> nth i (solve_loop (N:=RNum) sol pmax pts) d <= pmax.
Proof.
  intros A sol pmax pts; induction pts as [|p r IH]; intros i d Hi; simpl in *; [lia|].
  match goal with H : context [if ?c then _ else _] |- _ => destruct c eqn:E end; simpl in *; [lia|].
  destruct i.
  - apply Rltb_false in E. lra.
  - apply IH; lia.
Qed.

Fixpoint list_max (l : list R) : R :=
  match l with [] => 0 | [x] => x | x :: r => Rmax x (list_max r) end.

(* CONTRACT ASSUMED of optimize.minimize_scalar(fun, method='bounded', bounds=(a, b)).x: a global minimiser of fun on [a, b] *)
Definition minimiser_contract (minimise : (R -> R) -> R -> R -> R) : Prop :=
  forall f a b, a < b -> a <= minimise f a b <= b /\ forall x, a <= x <= b -> f (minimise f a b) <= f x.

Section Solver.
(* optimize.minimize_scalar(fun, method='bounded', bounds=(a, b)).x.  CONTRACT ASSUMED (not what Brent's method guarantees in
   general: it returns a LOCAL minimiser to a tolerance xatol=1e-5): a global minimiser of fun on [a, b]. The check validates
   the consequence |exp(phi(x)) - p| ~ 0 on every solved width of every run (residual certificate). *)
Variable minimise : (R -> R) -> R -> R -> R.
Hypothesis minimise_spec : minimiser_contract minimise.

Definition solve_hk (hk_fun : R -> R) (bound geo : R) (pressure : list R) : list R :=
  solve_loop (N:=RNum) (fun p => minimise (solve_hk_objective hk_fun p) bound (solve_hk_upper RNum))
             (solve_hk_p_w_max RNum geo) pressure.

Definition solve_hk_cy (hk_fun : R -> R) (bound geo : R) (pressure loading : list R) : list R :=
  solve_loop (N:=RNum)
    (fun pc : R * R => minimise (solve_hk_cy_objective hk_fun (solve_hk_cy_sf_corr (snd pc)) (fst pc)) bound (solve_hk_upper RNum))
    (solve_hk_p_w_max RNum geo)
    (combine pressure (map (solve_hk_cy_coverage RNum (list_max loading)) loading)).

Lemma upper_50 : solve_hk_upper RNum = 50.
Proof. unfold solve_hk_upper; simpl. apply Q2R_50. Qed.

(* if the equation has a solution in the search bracket, the returned width solves it *)
Lemma solved_width_solves_l : forall hk_fun bound p,
  bound < 50 -> (exists L, bound <= L <= 50 /\ exp (hk_fun L) = p) ->
  let x := minimise (solve_hk_objective hk_fun p) bound (solve_hk_upper RNum) in
  bound <= x <= 50 /\ exp (hk_fun x) = p.
Proof.
  intros hk_fun bound p Hb (L & HL & HLp) x. unfold x. rewrite upper_50.
  destruct (minimise_spec (solve_hk_objective hk_fun p) bound 50 Hb) as [Hin Hmin].
  split; [exact Hin|].
  specialize (Hmin L HL). unfold solve_hk_objective in Hmin. rewrite HLp in Hmin.
  replace ((p - p) ^ 2) with 0 in Hmin by ring.
  set (e := exp (hk_fun (minimise (fun l => (exp (hk_fun l) - p) ^ 2) bound 50)) - p) in *.
  assert (0 <= e ^ 2) by (simpl; nra).
  assert (e = 0) by (simpl in *; nra). unfold e in *. unfold solve_hk_objective. lra.
Qed.

Lemma solved_width_solves_cy_l : forall hk_fun bound p sf,
  bound < 50 -> (exists L, bound <= L <= 50 /\ exp (hk_fun L - sf) = p) ->
  let x := minimise (solve_hk_cy_objective hk_fun sf p) bound (solve_hk_upper RNum) in
  bound <= x <= 50 /\ exp (hk_fun x - sf) = p.
Proof.
  intros hk_fun bound p sf Hb (L & HL & HLp) x. unfold x. rewrite upper_50.
  destruct (minimise_spec (solve_hk_cy_objective hk_fun sf p) bound 50 Hb) as [Hin Hmin].
  split; [exact Hin|].
  specialize (Hmin L HL). unfold solve_hk_cy_objective in Hmin. rewrite HLp in Hmin.
  replace ((p - p) ^ 2) with 0 in Hmin by ring.
  set (e := exp (hk_fun (minimise (fun l => (exp (hk_fun l - sf) - p) ^ 2) bound 50) - sf) - p) in *.
  assert (0 <= e ^ 2) by (simpl; nra).
  assert (e = 0) by (simpl in *; nra). unfold e in *. unfold solve_hk_cy_objective. lra.
Qed.

(* every solved width of the list (any pressure list, any length) solves the equation at ITS pressure *)
Lemma solve_hk_each_l : forall hk_fun bound geo pressure i,
  bound < 50 ->
  (i < length (solve_hk hk_fun bound geo pressure))%nat ->
  (exists L, bound <= L <= 50 /\ exp (hk_fun L) = nth i pressure 0) ->
  bound <= nth i (solve_hk hk_fun bound geo pressure) 0 <= 50 /\
  exp (hk_fun (nth i (solve_hk hk_fun bound geo pressure) 0)) = nth i pressure 0.
Proof.
  intros hk_fun bound geo pressure i Hb Hi Hex. unfold solve_hk in *.
  pose proof (solve_loop_nth _ _ _ _ 0 0 Hi) as E. change (t RNum) with R in *. rewrite E. apply solved_width_solves_l; auto.
Qed.

(* widths are non-decreasing in pressure: two exact solutions on a branch where phi is strictly increasing are ordered
   like their pressures; PARTIAL: which branch the minimiser lands on is not modelled *)
Lemma widths_nondecreasing_l : forall (phi : R -> R) a b L1 L2 p1 p2,
  (forall x y, a <= x -> x < y -> y <= b -> phi x < phi y) ->
  a <= L1 <= b -> a <= L2 <= b -> exp (phi L1) = p1 -> exp (phi L2) = p2 -> p1 <= p2 -> L1 <= L2.
Proof.
  intros phi a b L1 L2 p1 p2 Hm H1 H2 E1 E2 Hp.
  destruct (Rle_lt_dec L1 L2) as [|Hlt]; auto. exfalso.
  assert (phi L2 < phi L1) by (apply Hm; lra).
  assert (exp (phi L2) < exp (phi L1)) by (apply exp_increasing; auto). lra.
Qed.

(* the sense in which a REPORTED width solves the equation: it is the midpoint of two consecutive solved widths, so on a branch
   where phi is increasing the pressure it corresponds to lies between the two pressures (N-1 reported widths for N pressures) *)
Lemma midpoint_brackets_l : forall (phi : R -> R) a b L1 L2 p1 p2,
  (forall x y, a <= x -> x < y -> y <= b -> phi x < phi y) ->
  a <= L1 <= b -> a <= L2 <= b -> exp (phi L1) = p1 -> exp (phi L2) = p2 -> p1 <= p2 ->
  L1 <= (L1 + L2) / 2 <= L2 /\ p1 <= exp (phi ((L1 + L2) / 2)) <= p2.
Proof.
  intros phi a b L1 L2 p1 p2 Hm H1 H2 E1 E2 Hp.
  assert (H12 : L1 <= L2) by (eapply widths_nondecreasing_l; eauto).
  split; [lra|].
  assert (Hmono : forall x y, a <= x -> x <= y -> y <= b -> exp (phi x) <= exp (phi y)).
  { intros x y Hx Hxy Hy. destruct (Req_dec x y) as [->|Hne]; [lra|].
    left. apply exp_increasing. apply Hm; lra. }
  rewrite <- E1, <- E2. split; apply Hmono; lra.
Qed.

(* the whole slit pipeline of psd_horvath_kawazoe(use_cy=False): solve every pressure, subtract d_mat, hand over to the tail *)
Definition hk_slit_pipeline (T : R) (ads : hkads RNum) (mat : hkmat RNum) (pressure loading : list R) :=
  let solved := solve_hk (hk_slit_potential RNum T ads mat) (hk_slit_bound RNum T ads mat) (hk_slit_geo RNum) pressure in
  hk_tail RNum ads (map (hk_slit_post RNum T ads mat) solved) pressure loading.

Lemma reported_width_brackets_l : forall T (ads : hkads RNum) (mat : hkmat RNum) pressure loading i a b,
  let phi := hk_published_phi RNum (py_const RNum) T
      (a_molecular_diameter _ ads) (a_polarizability _ ads) (a_magnetic_susceptibility _ ads) (a_surface_density _ ads)
      (m_molecular_diameter _ mat) (m_polarizability _ mat) (m_magnetic_susceptibility _ mat) (m_surface_density _ mat) in
  let d_min := a_molecular_diameter _ ads + m_molecular_diameter _ mat in
  let solved := solve_hk (hk_slit_potential RNum T ads mat) (hk_slit_bound RNum T ads mat) (hk_slit_geo RNum) pressure in
  let reported := fst (fst (hk_slit_pipeline T ads mat pressure loading)) in
  0 < T -> physical_ads ads -> physical_mat mat -> d_min < 50 ->
  length pressure = length loading ->
  (i + 1 < length solved)%nat ->
  (* the two pressures are attained inside the search bracket, on a branch [a, b] where the potential increases, and the
     minimiser returned points of that branch *)
  d_min < a -> b <= 50 ->
  (forall x y, a <= x -> x < y -> y <= b -> phi x < phi y) ->
  (exists L, a <= L <= b /\ exp (phi L) = nth i pressure 0) ->
  (exists L, a <= L <= b /\ exp (phi L) = nth (i + 1) pressure 0) ->
  a <= nth i solved 0 <= b -> a <= nth (i + 1) solved 0 <= b ->
  nth i pressure 0 <= nth (i + 1) pressure 0 ->
  let w := nth i reported 0 in
  (* midpoint of the two solved widths (as widths: minus d_mat) ... *)
  w = (nth i solved 0 + nth (i + 1) solved 0) / 2 - m_molecular_diameter _ mat /\
  nth i solved 0 - m_molecular_diameter _ mat <= w <= nth (i + 1) solved 0 - m_molecular_diameter _ mat /\
  (* ... at which the published equation gives a pressure between the two measured ones *)
  nth i pressure 0 <= exp (phi (w + m_molecular_diameter _ mat)) <= nth (i + 1) pressure 0.
Proof.
  intros T ads mat pressure loading i a b phi d_min solved reported HT Ha Hm Hd50 Hlen Hi Hda Hb50 Hmono Hex1 Hex2 Hs1 Hs2 Hp w.
  assert (Hbound : hk_slit_bound RNum T ads mat = d_min) by (apply (hk_slit_bound_post_l T ads mat 0)).
  assert (Hphi : forall L, d_min < L -> hk_slit_potential RNum T ads mat L = phi L).
  { intros L HL. exact (proj2 (hk_slit_matches_published_l T ads mat L HT Ha Hm HL)). }
  (* each of the two solved widths solves the equation at its pressure *)
  assert (S1 : exp (phi (nth i solved 0)) = nth i pressure 0).
  { rewrite <- Hphi by lra. apply solve_hk_each_l; [rewrite Hbound; lra | fold solved; lia |].
    destruct Hex1 as (L & HL & E). exists L. rewrite Hbound, Hphi by lra. split; [lra | exact E]. }
  assert (S2 : exp (phi (nth (i + 1) solved 0)) = nth (i + 1) pressure 0).
  { rewrite <- Hphi by lra. apply solve_hk_each_l; [rewrite Hbound; lra | fold solved; lia |].
    destruct Hex2 as (L & HL & E). exists L. rewrite Hbound, Hphi by lra. split; [lra | exact E]. }
  destruct (midpoint_brackets_l phi a b _ _ _ _ Hmono Hs1 Hs2 S1 S2 Hp) as [Hmid Hbr].
  assert (Hw : w = (nth i solved 0 + nth (i + 1) solved 0) / 2 - m_molecular_diameter _ mat).
  { unfold w, reported, hk_slit_pipeline. fold solved.
    assert (Hsl : (length solved <= length pressure)%nat) by apply solve_loop_length.
    rewrite tail_midpoint by (change (t RNum) with R in *; rewrite map_length; lia).
    rewrite !map_nth_R by lia.
    destruct (hk_slit_bound_post_l T ads mat (nth i solved 0)) as (_ & -> & _).
    destruct (hk_slit_bound_post_l T ads mat (nth (i + 1) solved 0)) as (_ & -> & _). change (t RNum) with R in *. lra. }
  split; [exact Hw|]. split; [lra|].
  replace (w + m_molecular_diameter _ mat) with ((nth i solved 0 + nth (i + 1) solved 0) / 2) by lra.
  exact Hbr.
Qed.

(* N pressures give at most N solved widths and (number of solved widths - 1) reported widths / distribution / volume values *)
Lemma hk_slit_pipeline_lengths_l : forall T (ads : hkads RNum) (mat : hkmat RNum) pressure loading,
  length pressure = length loading ->
  let solved := solve_hk (hk_slit_potential RNum T ads mat) (hk_slit_bound RNum T ads mat) (hk_slit_geo RNum) pressure in
  let '(w, d, v) := hk_slit_pipeline T ads mat pressure loading in
  (length solved <= length pressure)%nat /\
  length w = (length solved - 1)%nat /\ length d = (length solved - 1)%nat /\ length v = (length solved - 1)%nat.
Proof.
  intros T ads mat pressure loading Hl solved.
  assert (Hs : (length solved <= length pressure)%nat) by apply solve_loop_length.
  unfold hk_slit_pipeline. fold solved.
  pose proof (tail_lengths ads (map (hk_slit_post RNum T ads mat) solved) pressure loading) as HT.
  change (t RNum) with R in *. rewrite map_length in HT. specialize (HT ltac:(lia)).
  destruct (hk_tail RNum ads (map (hk_slit_post RNum T ads mat) solved) pressure loading) as [[w d] v].
  split; [exact Hs | exact HT].
Qed.
End Solver.

(* ------------------------------------------------------------------ satisfiability of the hypotheses *)
(* nitrogen on the HK carbon at 77 K *)
Definition ex_ads : hkads RNum := mk_hkads RNum 0.3 1.46e-3 2e-8 6.7e18 0.808 28.0134.
Lemma ex_physical : physical_ads ex_ads /\ physical_mat (PROPERTIES_CARBON RNum) /\
  a_molecular_diameter _ ex_ads + m_molecular_diameter _ (PROPERTIES_CARBON RNum) < 1.
Proof.
  unfold physical_ads, physical_mat; simpl. unfold Q2R; simpl. repeat split; lra.
Qed.
(* a strictly convex objective has a global minimiser on every bracket: the contract of the oracle is satisfiable *)
Lemma ex_minimise_contract : exists minimise : (R -> R) -> R -> R -> R,
  forall a b, a < b -> a <= minimise (fun x => (x - 1) ^ 2) a b <= b /\
    forall x, a <= x <= b -> (minimise (fun x => (x - 1) ^ 2) a b - 1) ^ 2 <= (x - 1) ^ 2.
Proof.
  exists (fun _ a b => if Rle_dec 1 a then a else if Rle_dec b 1 then b else 1).
  intros a b Hab.
  destruct (Rle_dec 1 a); [|destruct (Rle_dec b 1)]; (split; [lra|]); intros x Hx; simpl.
  - assert (0 <= (x - a) * (x + a - 2)) by (apply Rmult_le_pos; lra). lra.
  - assert (0 <= (b - x) * (2 - x - b)) by (apply Rmult_le_pos; lra). lra.
  - assert (0 <= (x - 1) * (x - 1)) by (apply Rle_0_sqr). lra.
Qed.
Lemma ex_tail :
  hk_tail_def RNum ex_ads [0.4; 0.5; 0.7] [1e-6; 1e-5; 1e-4] [1; 2; 4] /\
  fst (fst (hk_tail RNum ex_ads [0.4; 0.5; 0.7] [1e-6; 1e-5; 1e-4] [1; 2; 4])) = [(0.4 + 0.5) / 2; (0.5 + 0.7) / 2].
Proof.
  split.
  - apply hk_tail_defined; simpl; auto; try lra.
    intros [|[|i]] Hi; simpl in *; try lra; lia.
  - rewrite hk_tail_unfold by (simpl; lia). simpl. reflexivity.
Qed.
