(* C18 correspondence: run the glue model of Charact/Kernel.v on QNum with the implementation's recorded oracle answers
   (interpolator values, SLSQP weights, bspline output) and compare with what psd_dft returned, inside Coq. *)
From Coq Require Import QArith Qabs ZArith List Bool.
From PG Require Import Lib.Num Lib.Py Lib.Show Charact.Kernel.
Import ListNotations.

(* |q - p| <= atol + rtol * max(|q|,|p|) ; tolerances as fractions *)
Definition close_ar (an ad rn rd : Z) (q p : Q) : bool :=
  Qle_bool (Qabs (q - p))
           (inject_Z an / inject_Z ad + (inject_Z rn / inject_Z rd) * (if Qle_bool (Qabs q) (Qabs p) then Qabs p else Qabs q)).
Fixpoint all_close_ar (an ad rn rd : Z) (qs ps : list Q) : bool :=
  match qs, ps with
  | [], [] => true
  | q :: qr, p :: pr => close_ar an ad rn rd q p && all_close_ar an ad rn rd qr pr
  | _, _ => false end.

Fixpoint lookup (p : Q) (keys vals : list Q) : res Q :=
  match keys, vals with
  | k :: kr, v :: vr => if Qeq_bool k p then Ok v else lookup p kr vr
  | _, _ => Err KeyError end.
(* an interp1d object as the model sees it: refuses outside [lo,hi], otherwise the value the REAL interpolator gave *)
Definition tbl_column (lo hi : Q) (keys : list Q) (c : Q * list Q) : column QNum :=
  (fst c, fun p : Q => if Qle_bool lo p && Qle_bool p hi then lookup p keys (snd c) else Err ValueError).

Definition b2z (b : bool) : Z := if b then 1%Z else 0%Z.

Record impl_out := mkImpl { i_widths : list Q; i_dist : list Q; i_cum : list Q; i_kl : list Q }.

(* result: [model outcome code; minimum; maximum; widths agree; distribution agrees; cumulative agrees; kernel_loading agrees;
            the model's sum_squares at the solver's answer agrees with the objective value SLSQP reported (result.fun)]
   the spline oracle answers only for the degree the implementation really passed to bspline *)
Definition run_case (klo khi : Q) (keys : list Q) (cols : list (Q * list Q)) (ps ls : list Q) (lo hi : option Q) (degree : nat)
    (solver_answer : res (list Q)) (objective : Q) (spline_degree : nat) (spline_answer : list Q * list Q) (exp : impl_out) : list Z :=
  let k := map (tbl_column klo khi keys) cols in
  let spl := fun (d : nat) (_ _ : list Q) => if Nat.eqb d spline_degree then spline_answer else ([], []) in
  match psd_dft QNum (fun _ _ => solver_answer) spl k ps ls lo hi degree with
  | Err e => [exn_code e; 0; 0; 0; 0; 0; 0; 0]%Z
  | Ok (o, (mn, mx)) =>
      [0%Z; mn; mx;
       b2z (all_close_ar 0 1 1 1000000000000 (o_widths o) (i_widths exp));
       b2z (all_close_ar 1 1000000000000000 1 1000000000 (o_dist o) (i_dist exp));
       b2z (all_close_ar 1 1000000000000000 1 1000000000 (o_cum o) (i_cum exp));
       b2z (all_close_ar 1 1000000000000000 1 1000000000 (o_kl o) (i_kl exp));
       b2z (match kernel_points QNum k (slice mn mx ps), solver_answer with
            | Ok KP, Ok x => close_ar 1 1000000000000000000 1 1000000 (sum_squares QNum (length (slice mn mx ps)) KP (slice mn mx ls) x) objective
            | _, _ => false end)]
  end.
