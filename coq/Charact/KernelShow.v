(* C18 correspondence: run the glue model of Charact/Kernel.v on rationals (QD = QNum with normalised fractions) with the implementation's recorded oracle answers
   (interpolator values, SLSQP weights, bspline output) and compare with what psd_dft returned, inside Coq. *)
From Coq Require Import QArith Qabs ZArith NArith Lia List Bool.
From PG Require Import Lib.Num Lib.Py Lib.Show Charact.Kernel.
Import ListNotations.

(* vm_compute has no machine integers: Coq's binary Z makes unreduced fractions very expensive (denominators multiply at every
   addition). Every input is a binary64 value m*2^e, so almost all intermediate values have a power of two as denominator; QD is
   QNum with the SAME rational operations followed by a cheap normalisation: power-of-two denominators are aligned by shifts, every
   other result is reduced with Qred. All operations return a rational Qeq to what QNum returns. *)
Fixpoint pow2_log (p : positive) : option N :=
  match p with xH => Some 0%N | xO q => option_map N.succ (pow2_log q) | xI _ => None end.
Fixpoint strip2 (n d : positive) : positive * positive :=
  match n, d with xO n', xO d' => strip2 n' d' | _, _ => (n, d) end.
Definition norm2 (q : Q) : Q :=
  match Qnum q with
  | Z0 => 0
  | Zpos n => let '(n', d') := strip2 n (Qden q) in Zpos n' # d'
  | Zneg n => let '(n', d') := strip2 n (Qden q) in Zneg n' # d' end.
Definition dadd (a b : Q) : Q :=
  match pow2_log (Qden a), pow2_log (Qden b) with
  | Some ka, Some kb =>
      if (ka <=? kb)%N then norm2 ((Z.shiftl (Qnum a) (Z.of_N (kb - ka)) + Qnum b) # Qden b)
      else norm2 ((Qnum a + Z.shiftl (Qnum b) (Z.of_N (ka - kb))) # Qden a)
  | _, _ => Qred (Qplus a b) end.
Definition dmul (a b : Q) : Q :=
  match pow2_log (Qden a), pow2_log (Qden b) with
  | Some _, Some _ => norm2 (Qmult a b)
  | _, _ => Qred (Qmult a b) end.
Definition QD : Num :=
  mkNum Q (fun q => q) dadd (fun a b => dadd a (Qopp b)) dmul Qdiv Qopp Qinv Qeq_bool Qltb Qle_bool.

(* QD computes the same rationals as QNum *)
Lemma strip2_spec n : forall d n' d', strip2 n d = (n', d') -> (Zpos n * Zpos d' = Zpos n' * Zpos d)%Z.
Proof.
  induction n; intros d n' d' H; simpl in H; try (inversion H; subst; reflexivity).
  destruct d; try (inversion H; subst; reflexivity).
  apply IHn in H. rewrite (Pos2Z.inj_xO n), (Pos2Z.inj_xO d). lia.
Qed.
Lemma norm2_eq q : norm2 q == q.
Proof.
  destruct q as [[|n|n] d]; unfold norm2; simpl; [reflexivity| |]; destruct (strip2 n d) eqn:E; apply strip2_spec in E;
    unfold Qeq; simpl; lia.
Qed.
Lemma pow2_log_spec p : forall k, pow2_log p = Some k -> Zpos p = (2 ^ Z.of_N k)%Z.
Proof.
  induction p; intros k H; simpl in H; try discriminate.
  - destruct (pow2_log p) as [k0|]; simpl in H; [|discriminate]. inversion H; subst.
    rewrite Pos2Z.inj_xO, (IHp k0 eq_refl), N2Z.inj_succ, Z.pow_succ_r by lia. reflexivity.
  - inversion H; subst. reflexivity.
Qed.
Lemma dmul_eq a b : dmul a b == a * b.
Proof. unfold dmul. destruct (pow2_log (Qden a)), (pow2_log (Qden b)); try apply Qred_correct. apply norm2_eq. Qed.
Lemma dadd_eq a b : dadd a b == a + b.
Proof.
  unfold dadd. destruct (pow2_log (Qden a)) as [ka|] eqn:Ea; [|apply Qred_correct].
  destruct (pow2_log (Qden b)) as [kb|] eqn:Eb; [|apply Qred_correct].
  apply pow2_log_spec in Ea. apply pow2_log_spec in Eb.
  destruct (N.leb_spec ka kb) as [Hle|Hlt]; rewrite norm2_eq; unfold Qeq, Qplus; simpl; rewrite Z.shiftl_mul_pow2 by lia;
    rewrite Pos2Z.inj_mul, Ea, Eb.
  - assert (E : (2 ^ Z.of_N kb = 2 ^ Z.of_N (kb - ka) * 2 ^ Z.of_N ka)%Z) by (rewrite <- Z.pow_add_r by lia; f_equal; lia).
    rewrite E. ring.
  - assert (E : (2 ^ Z.of_N ka = 2 ^ Z.of_N (ka - kb) * 2 ^ Z.of_N kb)%Z) by (rewrite <- Z.pow_add_r by lia; f_equal; lia).
    rewrite E. ring.
Qed.

(* |q - p| <= atol + rtol * max(|q|,|p|) ; tolerances as fractions *)
Definition close_ar (an ad rn rd : Z) (q p : Q) : bool :=
  Qle_bool (Qabs (q - p))
           (inject_Z an / inject_Z ad + (inject_Z rn / inject_Z rd) * (if Qle_bool (Qabs q) (Qabs p) then Qabs p else Qabs q)).
Fixpoint all_close_ar (an ad rn rd : Z) (qs ps : list Q) : bool :=
  match qs, ps with
  | [], [] => true
  | q :: qr, p :: pr => close_ar an ad rn rd q p && all_close_ar an ad rn rd qr pr
  | _, _ => false end.

(* keys and query pressures are the same literals: structural equality (no multiplications) *)
Fixpoint lookup (p : Q) (keys vals : list Q) : res Q :=
  match keys, vals with
  | k :: kr, v :: vr => if (Z.eqb (Qnum k) (Qnum p) && Pos.eqb (Qden k) (Qden p))%bool then Ok v else lookup p kr vr
  | _, _ => Err KeyError end.
(* an interp1d object as the model sees it: refuses outside [lo,hi], otherwise the value the REAL interpolator gave *)
Definition tbl_column (lo hi : Q) (keys : list Q) (c : Q * list Q) : column QD :=
  (fst c, fun p : Q => if Qle_bool lo p && Qle_bool p hi then lookup p keys (snd c) else Err ValueError).

Definition b2z (b : bool) : Z := if b then 1%Z else 0%Z.

Record impl_out := mkImpl { i_widths : list Q; i_dist : list Q; i_cum : list Q; i_kl : list Q }.

(* result: [model outcome code; minimum; maximum; widths agree; distribution agrees; cumulative agrees; kernel_loading agrees;
            the model's sum_squares at the solver's answer agrees with the objective value SLSQP reported (result.fun)]
   the spline oracle answers only for the degree the implementation really passed to bspline *)
Definition run_case (klo khi : Q) (keys : list Q) (cols : list (Q * list Q)) (ps ls : list Q) (lo hi : option Q) (degree : nat)
    (solver_answer : res (list Q)) (objective : Q) (spline_degree : nat) (spline_answer : list Q * list Q) (exp : impl_out) : list Z :=
  let k := map (tbl_column klo khi keys) cols in
  let spl := fun (d : nat) (_ _ : list Q) => if Nat.eqb d spline_degree then spline_answer else ([], []) in
  match psd_dft QD (fun _ _ => solver_answer) spl k ps ls lo hi degree with
  | Err e => [exn_code e; 0; 0; 0; 0; 0; 0; 0]%Z
  | Ok (o, (mn, mx)) =>
      [0%Z; mn; mx;
       b2z (all_close_ar 0 1 1 1000000000000 (o_widths o) (i_widths exp));
       b2z (all_close_ar 1 1000000000000000 1 1000000000 (o_dist o) (i_dist exp));
       b2z (all_close_ar 1 1000000000000000 1 1000000000 (o_cum o) (i_cum exp));
       b2z (all_close_ar 1 1000000000000000 1 1000000000 (o_kl o) (i_kl exp));
       b2z (match kernel_points QD k (slice mn mx ps), solver_answer with
            | Ok KP, Ok x => close_ar 1 100000000000000 1 10000 (sum_squares QD (length (slice mn mx ps)) KP (slice mn mx ls) x) objective
            | _, _ => false end)]
  end.
