(* C18 - the kernel cache of psd_kernel._load_kernel (hand-written model):
     if path in _LOADED: return _LOADED[path]
     kernel = <read the csv at path, one cubic interpolator per column>;  _LOADED[path] = kernel;  return kernel
   Several kernel files used one after the other in ONE process: whatever the history, the kernel handed to the fit is the
   parse of the file that was actually passed (for files that do not change while the process runs).  The model is executed
   inside Coq on the recorded history of every run and compared with the kernels the implementation was seen to use
   (tools/props/c18.py). *)
From Coq Require Import List Bool String.
Import ListNotations.

Section Cache.
Variables (path key kernel : Type).
Variable key_eqb : key -> key -> bool.
Hypothesis key_eqb_eq : forall a b, key_eqb a b = true <-> a = b.
Variable key_of : path -> key.          (* what the cache is indexed by: the path itself in psd_kernel.py *)
Variable parse : path -> kernel.        (* the file at that path, read and turned into interpolators *)

Definition cache := list (key * kernel).
Fixpoint lookup (c : cache) (k : key) : option kernel :=
  match c with [] => None | (k', v) :: r => if key_eqb k k' then Some v else lookup r k end.
Definition load_kernel (c : cache) (p : path) : kernel * cache :=
  match lookup c (key_of p) with
  | Some k => (k, c)
  | None => let k := parse p in (k, (key_of p, k) :: c)
  end.
Fixpoint run (c : cache) (ps : list path) : list kernel :=
  match ps with [] => [] | p :: r => let '(k, c') := load_kernel c p in k :: run c' r end.

(* every entry of the cache is the parse of every path that maps to its key *)
Definition coherent (c : cache) : Prop := forall p k, lookup c (key_of p) = Some k -> k = parse p.

Lemma coherent_nil : coherent [].
Proof. intros p k H; discriminate. Qed.

Hypothesis key_injective : forall p q, key_of p = key_of q -> parse p = parse q.

Lemma load_kernel_coherent : forall c p, coherent c ->
  fst (load_kernel c p) = parse p /\ coherent (snd (load_kernel c p)).
Proof.
  intros c p Hc. unfold load_kernel. destruct (lookup c (key_of p)) as [k|] eqn:E; simpl.
  - split; [now apply Hc|exact Hc].
  - split; [reflexivity|]. intros q k. simpl. destruct (key_eqb (key_of q) (key_of p)) eqn:Ek.
    + intro H; injection H as <-. apply key_eqb_eq in Ek. symmetry. now apply key_injective.
    + apply Hc.
Qed.

Lemma run_coherent : forall ps c, coherent c -> run c ps = map parse ps.
Proof.
  induction ps as [|p r IH]; intros c Hc; simpl; [reflexivity|].
  destruct (load_kernel_coherent c p Hc) as [H1 H2]. destruct (load_kernel c p) as [k c']; simpl in *.
  now rewrite H1, (IH c' H2).
Qed.

(* any number of kernel files in any order, starting from the empty cache of a fresh process *)
Lemma cache_returns_the_requested_kernel_l : forall ps i d dp, (i < List.length ps)%nat ->
  nth i (run [] ps) d = parse (nth i ps dp).
Proof.
  intros ps i d dp Hi. rewrite (run_coherent ps [] coherent_nil).
  rewrite (nth_indep _ d (parse dp)) by now rewrite map_length. apply map_nth.
Qed.
End Cache.

(* the same cache indexed by something that does NOT determine the file (e.g. the file name without its directory): the second
   of two namesakes gets the first one's kernel *)
Lemma cache_keyed_by_name_refuted :
  exists (ps : list (string * string)),
    let key_of := fun p : string * string => snd p in      (* (directory, file name) -> file name *)
    let parse := fun p : string * string => p in            (* different files have different contents *)
    nth 1 (run _ _ _ String.eqb key_of parse [] ps) (""%string, ""%string) <> parse (nth 1 ps (""%string, ""%string)).
Proof.
  exists [("a", "kernel.csv"); ("b", "kernel.csv")]%string. simpl. intro H. discriminate.
Qed.

(* psd_kernel.py: the cache is indexed by the path string itself *)
Definition path_cache_run {kernel : Type} (parse : string -> kernel) (ps : list string) : list kernel :=
  run string string kernel String.eqb (fun p => p) parse [] ps.
Lemma path_cache_returns_the_requested_kernel_l : forall (kernel : Type) (parse : string -> kernel) ps i d dp,
  (i < List.length ps)%nat -> nth i (path_cache_run parse ps) d = parse (nth i ps dp).
Proof.
  intros kernel parse ps i d dp Hi. unfold path_cache_run.
  apply (cache_returns_the_requested_kernel_l string string kernel String.eqb String.eqb_eq (fun p => p) parse); [|exact Hi].
  intros p q E. now rewrite E.
Qed.
