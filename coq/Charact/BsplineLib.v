(* list helpers used by the GENERATED Gen/BsplineGen.v (python `[v] * n`, numpy.arange(n)) and their basic facts *)
From Coq Require Import ZArith List Lia.
Import ListNotations. Open Scope Z_scope.

Definition zrepeat (v n : Z) : list Z := repeat v (Z.to_nat n).
Definition zarange (n : Z) : list Z := map Z.of_nat (seq 0 (Z.to_nat n)).

Lemma zrepeat_length v n : 0 <= n -> Z.of_nat (length (zrepeat v n)) = n.
Proof. intros. unfold zrepeat. rewrite repeat_length. lia. Qed.

Lemma zarange_length n : 0 <= n -> Z.of_nat (length (zarange n)) = n.
Proof. intros. unfold zarange. rewrite map_length, seq_length. lia. Qed.

Lemma zrepeat_forall (P : Z -> Prop) v n : P v -> Forall P (zrepeat v n).
Proof. intros. unfold zrepeat. apply Forall_forall. intros x Hx. apply repeat_spec in Hx. now subst. Qed.

Lemma zarange_forall n : Forall (fun x => 0 <= x < n) (zarange n).
Proof.
  unfold zarange. apply Forall_forall. intros x Hx. apply in_map_iff in Hx. destruct Hx as [i [<- Hi]].
  apply in_seq in Hi. lia.
Qed.
