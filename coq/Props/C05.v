(* C05 - isotherm identity is determined by content, and only by content.
   Model: Ident/Prehash.v = what utilities/hashgen.py feeds to md5, over the isotherm content of Codec/JsonDoc.v and the
   generated tables; md5, the per-row hash of hash_pandas_object, str(int) and json.dumps are oracles (Section variables).
   PARTIAL: "equal identifier <=> equal prehash" is the collision-freeness of those oracles, which is not proved. *)
From Coq Require Import QArith ZArith String List Bool Permutation.
From PG Require Import Lib.Num Lib.Py Codec.PyVal Gen.TablesGen Codec.JsonDoc Codec.JsonRoundtrip Ident.Prehash Codec.Census.
Import ListNotations.
Open Scope string_scope.

(* reading data / filling the interpolator caches never changes the identifier (all oracles arbitrary) *)
Theorem id_ignores_caches :
  forall (rowhash : pyval -> Z) (zshow : Z -> string) (dumps : dict -> string) (md5 : string -> string) rt i,
  length (i_units i) = length unit_params -> iso_id rowhash zshow dumps md5 rt (clear_caches i) = iso_id rowhash zshow dumps md5 rt i.
Proof. exact Prehash.id_ignores_caches. Qed.
Print Assumptions id_ignores_caches.

(* the identifier is a function of to_dict, the model dictionary and the multiset of row tokens: isotherms of equal content built by
   routes giving the same tokens (rows in any order) have the same identifier; nothing else (session, hash seed, caches) enters *)
Theorem id_determined_by_content_partial :
  forall (rowhash : pyval -> Z) (zshow : Z -> string) (dumps : dict -> string) (md5 : string -> string) rt1 rt2 i j,
  to_dict i = to_dict j ->
  match i_body i, i_body j with
  | BBase, BBase => True
  | BPoint _ _ _ _ _, BPoint _ _ _ _ _ => Permutation (tokens rt1 i) (tokens rt2 j)
  | BModel _ m, BModel _ m' => m = m'
  | _, _ => False end ->
  iso_id rowhash zshow dumps md5 rt1 i = iso_id rowhash zshow dumps md5 rt2 j.
Proof. exact Prehash.id_determined_by_content. Qed.
Print Assumptions id_determined_by_content_partial.

(* sensitivity: every content component reaches the prehash - two well-formed isotherms of one class with equal to_dict have equal
   unit labels, material, material properties, adsorbate, temperature and metadata (keys, values, types); partial: that different
   prehashes give different identifiers is the collision-freeness of md5 / json.dumps / the row hash *)
Theorem prehash_sensitive_partial :
  forall ads_canon labels_ok i j,
  wf ads_canon labels_ok i -> wf ads_canon labels_ok j ->
  match i_body i, i_body j with BBase, BBase | BPoint _ _ _ _ _, BPoint _ _ _ _ _ | BModel _ _, BModel _ _ => True | _, _ => False end ->
  to_dict i = to_dict j ->
  i_units i = i_units j /\ i_mat i = i_mat j /\ i_mprops i = i_mprops j /\ i_ads i = i_ads j /\ i_temp i = i_temp j /\ i_meta i = i_meta j
  /\ match i_body i, i_body j with BModel b _, BModel b' _ => b = b' | _, _ => True end.
Proof. exact to_dict_injective. Qed.
Print Assumptions prehash_sensitive_partial.

(* data values: the 8-decimal rounding merges values closer than the threshold and separates values one threshold apart *)
Theorem rounding_merges_below_threshold : round8 (VFloat (123456789 # 100000000)) = round8 (VFloat (1234567891 # 1000000000)).
Proof. exact round8_same. Qed.
Print Assumptions rounding_merges_below_threshold.
Theorem rounding_separates_above_threshold : round8 (VFloat (123456789 # 100000000)) <> round8 (VFloat (123456791 # 100000000)).
Proof. exact round8_differs. Qed.
Print Assumptions rounding_separates_above_threshold.

(* REFUTED parts of the property: the same content reached by another route has other row tokens *)
Theorem id_int_vs_float_literals_refuted : ~ Permutation (tokens rt_a w_pt) (tokens rt_int w_pt).
Proof. exact route_int_vs_float. Qed.
Print Assumptions id_int_vs_float_literals_refuted.
Theorem id_row_labels_refuted : ~ Permutation (tokens rt_a w_pt) (tokens rt_idx w_pt).
Proof. exact route_row_labels. Qed.
Print Assumptions id_row_labels_refuted.
Theorem id_branch_column_dtype_refuted : ~ Permutation (tokens rt_a w_pt) (tokens rt_obj w_pt).
Proof. exact route_branch_dtype. Qed.
Print Assumptions id_branch_column_dtype_refuted.

(* the to_dict of the model (on which all theorems above are stated) is the interpretation of BaseIsotherm.to_dict as translated
   statement by statement from the current source (Gen/TablesGen.v to_dict_program): vars(self), the three pops (the adsorbate as
   text, the material as text or dictionary, the temperature AS STORED, i.e. in the isotherm's own temperature unit), reserved
   names removed, metadata merged last. A statement reading anything else (a property, another attribute) breaks this proof. *)
Theorem to_dict_model_is_source_program :
  forall i, length (i_units i) = length unit_params -> td_run i ([], []) to_dict_program = Some (to_dict i).
Proof. exact to_dict_is_source_program. Qed.
Print Assumptions to_dict_model_is_source_program.

(* reading never changes the identifier, part 2: every read-only query of the three classes (any method or property that is not a
   constructor, a property setter or a convert_* method; table generated from the source) binds only names that to_dict discards,
   and to_dict does not depend on the values stored under discarded names *)
Theorem queries_bind_only_discarded_names :
  forall c m k l a, In (c, m, k, l) method_assigns -> is_query m k = true -> In a l ->
  In a (class_reserved_of c) /\ ~ In a popped_sources /\ a <> "properties[]".
Proof. exact queries_bind_only_discarded. Qed.
Print Assumptions queries_bind_only_discarded_names.
Theorem to_dict_ignores_discarded_names :
  forall i env env', (forall a, mem a (discarded (class_reserved (i_body i))) = false -> env a = env' a) ->
  to_dict_env i env = to_dict_env i env'.
Proof. exact to_dict_ignores_discarded. Qed.
Print Assumptions to_dict_ignores_discarded_names.

(* the hypotheses of the sensitivity theorem are satisfiable *)
Example wf_satisfiable : wf (fun s => s) (fun _ => true) w_iso.
Proof. exact w_iso_wf. Qed.
Print Assumptions wf_satisfiable.

(* reading never changes the identifier, part 3: the objects an isotherm holds. Generated table (Gen/TablesGen.v holder_methods):
   for every method of Material and Adsorbate the names it writes on the object and the methods of the class it reaches. No getter
   (property or plain method; not the constructor, not a property setter) writes - directly or through a helper it calls - the name,
   the aliases, the property dictionary or an entry of it, i.e. anything material.to_dict() / str(adsorbate) are read from. *)
Theorem holder_getters_write_no_content :
  forall c m k w calls a, In (c, m, k, w, calls) holder_methods -> is_getter k = true ->
  In a (hlookup c (hkey m k) holder_writes) -> ~ In a content_names.
Proof. exact holder_getters_pure. Qed.
Print Assumptions holder_getters_write_no_content.
Example holder_write_table_closed : hstep holder_writes = holder_writes.
Proof. exact holder_writes_closed. Qed.
Print Assumptions holder_write_table_closed.
Example holder_writes_are_seen :
  hlookup "Material" "set:density" holder_writes = ["properties[]"] /\
  mem "_state" (hlookup "Adsorbate" "backend" holder_writes) = true /\
  mem "_state" (hlookup "Adsorbate" "molar_mass" holder_writes) = true /\
  existsb (fun e : hentry => let '(_, _, k, _, _) := e in is_getter k) holder_methods = true.
Proof. exact holder_writes_seen. Qed.
Print Assumptions holder_writes_are_seen.
