(* C13 - IAST results satisfy the IAST equations and known closed forms.  PARTIAL proof:
   Iast/IastGlue.v is a hand-written model of pygaps/iast/pgiast.py (tied to the code by the correspondence part of
   tools/props/c13.py on every run); scipy.optimize.root is NOT modelled: it is the variable `root`, and its post-condition
   (a result flagged successful is a zero of the residual function and has the shape of the start vector) is an explicit
   premise.  That premise, and the IAST equations themselves, are checked on every result the implementation returns.
   Property theorems only, each closed by `exact` + Print Assumptions. *)
From Coq Require Import Reals Lra List Bool QArith Permutation.
From PG Require Import Lib.Num Lib.Py Iast.IastSpec Iast.IastGlue Iast.IastTheorems Iast.IastInverse Iast.IastExamples Iast.IastWrapPre Gen.IastWrapGen Iast.IastWrappers Iast.PointPL.
Import ListNotations.
Open Scope R_scope.

(* the code's residual vector (differences of neighbouring spreading pressures, last fraction = 1 - sum) is zero
   exactly when all spreading pressures are equal; any number of components *)
Theorem residual_zero_iff_equal_spreading : forall l : list R, Forall (fun d => d = 0) (adj RNum l) <-> all_equal l.
Proof. exact adj_zero_iff_all_equal. Qed.
Print Assumptions residual_zero_iff_equal_spreading.

(* iast_point, whenever it returns: fractions in [0,1] summing to one, equal spreading pressures at p_i/x_i, ideal mixing,
   returned loadings n_i = x_i n_t.  Partial: premise on scipy's root finder; x_i = 0 / zero mixing sum excluded (inf/nan in numpy) *)
Theorem post_satisfies_spec_partial :
  forall root : (list R -> list R) -> list R -> bool * list R,
  (forall f x0, fst (root f x0) = true -> Forall (fun d => d = 0) (f (snd (root f x0)))) ->
  (forall f x0, length (snd (root f x0)) = length x0) ->
  forall (cs : list (icomp RNum)) (ps : list R) (g : option (list R)) (ns : list R),
    cs <> [] -> (forall gu, g = Some gu -> length gu = length cs) ->
    iast_point RNum root cs ps g = Ok ns ->
    exists xf, length xf = length cs /\ length ps = length cs
      /\ Forall (fun x => 0 <= x <= 1) xf /\ sumR xf = 1
      /\ all_equal (map e_sp (entries cs ps xf))
      /\ (sumR (map e_term (entries cs ps xf)) <> 0 ->
          is_iast (entries cs ps xf) (sumR ns) /\ ns = loadings (entries cs ps xf) (sumR ns)).
Proof. exact iast_point_satisfies_iast. Qed.
Print Assumptions post_satisfies_spec_partial.

(* reverse_iast, whenever it returns: gas fractions in [0,1] summing to one; the requested adsorbed fractions with the partial
   pressures P*y satisfy the same equations *)
Theorem reverse_satisfies_spec_partial :
  forall root : (list R -> list R) -> list R -> bool * list R,
  (forall f x0, fst (root f x0) = true -> Forall (fun d => d = 0) (f (snd (root f x0)))) ->
  (forall f x0, length (snd (root f x0)) = length x0) ->
  forall (cs : list (icomp RNum)) (xs : list R) (P : R) (g : option (list R)) (yf ns : list R),
    cs <> [] -> (forall gu, g = Some gu -> length gu = length cs) ->
    reverse_iast RNum root cs xs P g = Ok (yf, ns) ->
    length yf = length cs /\ length xs = length cs
    /\ Forall (fun y => 0 <= y <= 1) yf /\ sumR yf = 1 /\ sumR xs = 1
    /\ all_equal (map e_sp (entries cs (map (fun y => P * y) yf) xs))
    /\ (Forall (fun x => 0 <= x <= 1) xs -> sumR (map e_term (entries cs (map (fun y => P * y) yf) xs)) <> 0 ->
        is_iast (entries cs (map (fun y => P * y) yf) xs) (sumR ns)
        /\ ns = loadings (entries cs (map (fun y => P * y) yf) xs) (sumR ns)).
Proof. exact reverse_iast_satisfies_iast. Qed.
Print Assumptions reverse_satisfies_spec_partial.

(* permuting the components permutes the solution *)
Theorem iast_permutation : forall es es' nt, Permutation es es' ->
  is_iast es nt -> is_iast es' nt /\ Permutation (loadings es nt) (loadings es' nt).
Proof. intros es es' nt P H. split; [exact (is_iast_perm es es' nt P H) | exact (loadings_perm es es' nt P)]. Qed.
Print Assumptions iast_permutation.

(* at most one solution with positive fractions when every spreading pressure is strictly increasing and every partial
   pressure positive: together with the two theorems above this is why results do not depend on the component order or the
   starting guess, and why forward and reverse IAST invert each other *)
Theorem iast_unique : forall (cps : list cp) xs xs' nt nt',
  Forall good_cp cps -> length xs = length cps -> length xs' = length cps ->
  Forall (fun x => 0 < x) xs -> Forall (fun x => 0 < x) xs' ->
  is_iast (combine cps xs) nt -> is_iast (combine cps xs') nt' -> xs = xs' /\ nt = nt'.
Proof. exact iast_unique_pos. Qed.
Print Assumptions iast_unique.

(* forward and reverse IAST invert each other: what reverse_iast returns for requested adsorbed fractions xs at total pressure P (gas
   fractions yf, loadings ns), fed back as partial pressures P*yf into iast_point, gives the same loadings - hence the requested fractions.
   Consequence of iast_unique and the two post-condition theorems; for strictly increasing spreading pressures, positive pure-component
   loadings, positive fractions; any start vectors; both root finders are premises (partial for that reason) *)
Theorem reverse_forward_inverse_partial :
  forall root root' : (list R -> list R) -> list R -> bool * list R,
  (forall f x0, fst (root f x0) = true -> Forall (fun d => d = 0) (f (snd (root f x0)))) ->
  (forall f x0, length (snd (root f x0)) = length x0) ->
  (forall f x0, fst (root' f x0) = true -> Forall (fun d => d = 0) (f (snd (root' f x0)))) ->
  (forall f x0, length (snd (root' f x0)) = length x0) ->
  forall (cs : list (icomp RNum)) (xs : list R) (P : R) (g g' : option (list R)) (yf ns ns' : list R),
    cs <> [] -> (forall gu, g = Some gu -> length gu = length cs) -> (forall gu, g' = Some gu -> length gu = length cs) ->
    Forall (fun c => increasing_pos (i_sp RNum c)) cs -> Forall (fun c => forall p, 0 < p -> 0 < i_ld RNum c p) cs ->
    0 < P -> Forall (fun x => 0 < x <= 1) xs ->
    reverse_iast RNum root cs xs P g = Ok (yf, ns) -> Forall (fun y => 0 < y) yf ->
    iast_point RNum root' cs (map (fun y => P * y) yf) g' = Ok ns' -> Forall (fun n => n <> 0) ns' ->
    ns' = ns
    /\ exists nt, is_iast (entries cs (map (fun y => P * y) yf) xs) nt /\ ns = loadings (entries cs (map (fun y => P * y) yf) xs) nt.
Proof. exact reverse_then_forward. Qed.
Print Assumptions reverse_forward_inverse_partial.

(* closed forms *)
Theorem henry_closed_form : forall (kps : list kp) xs nt,
  length xs = length kps -> Forall (fun x => 0 < x) xs -> Forall (fun k => 0 < fst k /\ 0 < snd k) kps ->
  is_iast (combine (map (fun k => (henry (fst k), snd k)) kps) xs) nt ->
  xs = map (fun k => fst k * snd k / csum kps) kps
  /\ loadings (combine (map (fun k => (henry (fst k), snd k)) kps) xs) nt = map (fun k => fst k * snd k) kps.
Proof. exact henry_closed. Qed.
Print Assumptions henry_closed_form.
Theorem langmuir_equal_capacity_closed_form : forall M (kps : list kp) xs nt,
  M <> 0 -> length xs = length kps -> Forall (fun x => 0 < x) xs -> Forall (fun k => 0 < fst k /\ 0 < snd k) kps ->
  is_iast (combine (map (fun k => (langmuir M (fst k), snd k)) kps) xs) nt ->
  xs = map (fun k => fst k * snd k / csum kps) kps
  /\ loadings (combine (map (fun k => (langmuir M (fst k), snd k)) kps) xs) nt = map (fun k => M * (fst k * snd k) / (1 + csum kps)) kps.
Proof. exact langmuir_equal_capacity_closed. Qed.
Print Assumptions langmuir_equal_capacity_closed_form.

(* the helpers return exactly what the point calculation gives. The statements are about the definitions GENERATED from the source of
   iast_point_fraction / iast_binary_svp / iast_binary_vle (Gen/IastWrapGen.v, tools/py2v_iastwrap.py); `point` is iast_point with the
   isotherms, branch, warningoff and starting guess handed through unchanged (checked by the translator), `linspace` is numpy.linspace *)
(* the fraction helper IS the point calculation at partial pressures y_i * P, for EVERY fraction vector (summing to one or not) *)
Theorem fraction_helper_is_point : forall (point : list R -> res (list R)) ys P,
  G_iast_point_fraction RNum point ys P = point (map (fun y => y * P) ys).
Proof. exact gen_fraction_is_point. Qed.
Print Assumptions fraction_helper_is_point.
(* the selectivity sweep IS the map of the point calculation over the requested pressures followed by (n1/y1)/(n2/y2) per row *)
Theorem selectivity_helper_is_map_of_point : forall (point : list R -> res (list R)) cs ys Ps,
  G_iast_binary_svp RNum point cs ys Ps =
  if svp_refused cs ys then Err ParameterError
  else res_map (fun rows => (Ps, map (sel_of ys) rows)) (mapM (fun P => point (map (fun y => y * P) ys)) Ps).
Proof. exact gen_svp_is_map_of_point. Qed.
Print Assumptions selectivity_helper_is_map_of_point.
(* ... hence, per point: whenever it returns, entry k is the selectivity of the loadings the point calculation returns at pressure k;
   it returns exactly when the point calculation returns at EVERY requested pressure; otherwise it fails with the error of the FIRST
   pressure the point calculation refuses (no value is reported for a point without a solution) *)
Theorem selectivity_helper_returns_point_values : forall (point : list R -> res (list R)) cs ys Ps ps sel,
  G_iast_binary_svp RNum point cs ys Ps = Ok (ps, sel) ->
  svp_refused cs ys = false /\ ps = Ps
  /\ Forall2 (fun P s => exists ns, point (map (fun y => y * P) ys) = Ok ns /\ s = sel_of ys ns) Ps sel.
Proof. exact gen_svp_returns_point_values. Qed.
Print Assumptions selectivity_helper_returns_point_values.
Theorem selectivity_helper_returns_iff_every_point_returns : forall (point : list R -> res (list R)) cs ys Ps, svp_refused cs ys = false ->
  ((exists r, G_iast_binary_svp RNum point cs ys Ps = Ok r) <-> Forall (fun P => exists ns, point (map (fun y => y * P) ys) = Ok ns) Ps).
Proof. exact gen_svp_returns_iff_every_point_returns. Qed.
Print Assumptions selectivity_helper_returns_iff_every_point_returns.
Theorem selectivity_helper_fails_with_first_refused_point : forall (point : list R -> res (list R)) cs ys Ps e, svp_refused cs ys = false ->
  (G_iast_binary_svp RNum point cs ys Ps = Err e <->
   exists pre P post, (Ps = pre ++ P :: post)%list /\ Forall (fun P' => exists ns, point (map (fun y => y * P') ys) = Ok ns) pre
                      /\ point (map (fun y => y * P) ys) = Err e).
Proof. exact gen_svp_fails_with_first_refused_point. Qed.
Print Assumptions selectivity_helper_fails_with_first_refused_point.
(* the vapour-liquid helper IS the map of the point calculation over the compositions (y, 1 - y) of the grid, n1/(n1+n2) per row, with
   the end points (0,0) and (1,1) added; it fails with the error of the first composition the point calculation refuses *)
Theorem vle_helper_is_map_of_point : forall (point : list R -> res (list R)) linspace cs P npoints,
  G_iast_binary_vle RNum point linspace cs P npoints =
  if vle_refused cs then Err ParameterError
  else res_map (fun rows => (0 :: map x1_of rows ++ [1], 0 :: vle_grid linspace npoints ++ [1])%list)
               (mapM (fun y => point [y * P; (1 - y) * P]) (vle_grid linspace npoints)).
Proof. exact gen_vle_is_map_of_point. Qed.
Print Assumptions vle_helper_is_map_of_point.
Theorem vle_helper_returns_point_values : forall (point : list R -> res (list R)) linspace cs P npoints xs ys,
  G_iast_binary_vle RNum point linspace cs P npoints = Ok (xs, ys) ->
  vle_refused cs = false
  /\ exists mid, (xs = 0 :: mid ++ [1])%list /\ (ys = 0 :: vle_grid linspace npoints ++ [1])%list
     /\ Forall2 (fun y x => exists ns, point [y * P; (1 - y) * P] = Ok ns /\ x = x1_of ns) (vle_grid linspace npoints) mid.
Proof. exact gen_vle_returns_point_values. Qed.
Print Assumptions vle_helper_returns_point_values.
Theorem vle_helper_fails_with_first_refused_point : forall (point : list R -> res (list R)) linspace cs P npoints e, vle_refused cs = false ->
  (G_iast_binary_vle RNum point linspace cs P npoints = Err e <->
   exists pre y post, (vle_grid linspace npoints = pre ++ y :: post)%list /\ Forall (fun y' => exists ns, point [y' * P; (1 - y') * P] = Ok ns) pre
                      /\ point [y * P; (1 - y) * P] = Err e).
Proof. exact gen_vle_fails_with_first_refused_point. Qed.
Print Assumptions vle_helper_fails_with_first_refused_point.
(* the hand-written wrappers of Iast/IastGlue.v are the generated ones *)
Theorem generated_helpers_are_the_hand_model : forall point : list R -> res (list R),
  (forall ys P, G_iast_point_fraction RNum point ys P = iast_point_fraction RNum point ys P)
  /\ (forall cs ys Ps, res_map snd (G_iast_binary_svp RNum point cs ys Ps) = iast_binary_svp RNum point cs ys Ps).
Proof. exact generated_wrappers_are_the_hand_model. Qed.
Print Assumptions generated_helpers_are_the_hand_model.

(* the hypotheses are satisfiable: the Henry mixture K = (2, 1), p = (1, 2) has the solution x = (1/2, 1/2), n_t = 4 *)
Example iast_equations_satisfiable :
  is_iast (combine (map (fun k => (henry (fst k), snd k)) [(2, 1); (1, 2)]) [1/2; 1/2]) 4.
Proof. exact henry_example. Qed.
(* the model executes: with a root finder that proposes x = 1/2 and reports success iff the residual vanishes there,
   the model of iast_point returns the closed form n = (2, 2) for that mixture *)
Example model_runs_on_henry_mixture : henry_run = true.
Proof. vm_compute. reflexivity. Qed.
(* ... and reverse_iast followed by iast_point on it returns the same loadings (hypotheses of reverse_forward_inverse_partial satisfiable) *)
Example model_runs_reverse_then_forward : reverse_forward_run = true.
Proof. vm_compute. reflexivity. Qed.
(* a sweep crossing the range in which the point calculation is defined fails with the point calculation's error at the refused point *)
Example sweep_fails_at_the_refused_point :
  G_iast_binary_svp RNum demo_point demo_cs [1 / 2; 1 / 2] [2; 4; 20; 6] = Err CalculationError.
Proof. exact demo_sweep_fails_at_the_refused_point. Qed.

(* ---- the pure-component isotherm GIVEN BY THE DATA of a point isotherm (what IAST must use whatever was asked of the object before):
   the piecewise-linear interpolant of the measured rows, Iast/PointPL.v; executed (QNum) beside loading_at on objects with a history *)
(* a segment passes through the two measured points it joins *)
Theorem point_isotherm_segment_through_rows : forall p1 l1 p2 l2 : R, p1 < p2 -> seg RNum p1 l1 p2 l2 p1 = l1 /\ seg RNum p1 l1 p2 l2 p2 = l2.
Proof. exact seg_ends. Qed.
Print Assumptions point_isotherm_segment_through_rows.
(* between two measured points the loading is monotone when the two measured loadings are *)
Theorem point_isotherm_segment_monotone : forall p1 l1 p2 l2 p q : R, p1 < p2 -> l1 <= l2 -> p <= q -> seg RNum p1 l1 p2 l2 p <= seg RNum p1 l1 p2 l2 q.
Proof. exact seg_monotone. Qed.
Print Assumptions point_isotherm_segment_monotone.
(* for rows in increasing pressure: whenever the interpolant is defined its value lies within any bounds of the measured loadings
   (no overshoot - unlike a cubic or quadratic spline through the same rows) *)
Theorem point_isotherm_interpolant_within_data : forall (d : list (R * R)) a b p v,
  increasing d -> Forall (fun r => a <= snd r <= b) d -> pl_at RNum d p = Some v -> a <= v <= b.
Proof. exact pl_at_hull. Qed.
Print Assumptions point_isotherm_interpolant_within_data.
(* at the first measured pressure it returns the measured loading (unless the next row does not lie at a higher pressure) *)
Theorem point_isotherm_interpolant_first_row : forall (p1 l1 : R) r,
  pl_at RNum ((p1, l1) :: r) p1 = Some l1 \/ exists p2 l2 r', r = (p2, l2) :: r' /\ ~ p1 < p2.
Proof. exact pl_at_first_row. Qed.
Print Assumptions point_isotherm_interpolant_first_row.
(* the hypotheses are satisfiable; outside the measured range there is no value *)
Example point_isotherm_interpolant_example : pl_at RNum [(1, 2); (3, 6); (4, 7)] 2 = Some 4 /\ pl_at RNum [(1, 2); (3, 6); (4, 7)] 5 = None.
Proof. exact pl_example. Qed.
