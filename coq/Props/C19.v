(* C19 - Enthalpy methods recover the enthalpy built into consistent synthetic data.
   iso_enthalpy_of_slope and whittaker_point are GENERATED from isosteric_enth.py / enth_sorp_whittaker.py (Gen/CharactGen.v);
   the loop over loadings, the Whittaker skip conditions and initial_enthalpy_point are hand-written (Charact/Enthalpy.v) and
   compared with the implementation on every run. Property theorems only, each closed by `exact` + Print Assumptions. *)
From Coq Require Import Reals Lra QArith ZArith String List Bool.
From PG Require Import Lib.Num Lib.Py Gen.CharactGen Charact.Ols Charact.ListAux Charact.Enthalpy.
Import ListNotations.
Open Scope R_scope.

(* Clausius-Clapeyron on van 't Hoff data ln p = a(n) - dH*1000/(R T): ANY number >= 2 of distinct temperatures, ANY order and
   spacing, every loading returns dH (kJ/mol, positive for adsorption) *)
Theorem clausius_clapeyron_recovers : forall (temps : list R) (pressures : list (list R)) (dH : R),
  two_distinct temps -> pressures <> [] ->
  Forall (fun row => exists a, Forall2 (fun T p => vant_hoff a dH T (ln p)) temps row) pressures ->
  exists rows, isosteric_enthalpy_raw RNum ln pressures temps = Ok rows /\ length rows = length pressures /\
               Forall (fun r : enth_row RNum => e_enthalpy r = dH /\ (dH <> 0 -> e_rsq r = 1)) rows.
Proof. exact clausius_clapeyron_recovers_all. Qed.
Print Assumptions clausius_clapeyron_recovers.
(* a common multiplicative pressure unit leaves every enthalpy unchanged (any positive data) *)
Theorem cc_unit_invariant : forall (temps : list R) (pressures : list (list R)) (c : R), 0 < c ->
  two_distinct temps -> (forall T, In T temps -> T <> 0) ->
  Forall (fun row => length row = length temps /\ Forall (fun p => 0 < p) row) pressures ->
  map e_enthalpy (isosteric_from_logs RNum (map (map ln) (map (map (Rmult c)) pressures)) temps)
  = map e_enthalpy (isosteric_from_logs RNum (map (map ln) pressures) temps).
Proof. exact cc_unit_invariant_all. Qed.
Print Assumptions cc_unit_invariant.
(* generators satisfying the premise: p(n,T) = f(n)/K(T) with K(T) = K0 exp(dH*1000/(R T)); Langmuir explicitly *)
Theorem vant_hoff_generators : forall (f K0 dH T : R), 0 < f -> 0 < K0 -> T <> 0 ->
  vant_hoff (ln (f / K0)) dH T (ln (f / (K0 * exp (dH * 1000 / (gas_const * T))))).
Proof. exact vant_hoff_family. Qed.
Print Assumptions vant_hoff_generators.
Theorem vant_hoff_langmuir_pressures : forall (nm K0 dH T n : R), 0 < n < nm -> 0 < K0 -> T <> 0 ->
  let K := K0 * exp (dH * 1000 / (gas_const * T)) in
  let p := n / (K * (nm - n)) in
  n = nm * K * p / (1 + K * p) /\ vant_hoff (ln (n / (nm - n) / K0)) dH T (ln p).
Proof. exact vant_hoff_langmuir. Qed.
Print Assumptions vant_hoff_langmuir_pressures.

(* Whittaker: lambda + dh_vap + RT with lambda = RT ln(p_sat K (theta^t/(1-theta^t))^((t-1)/t)); Langmuir is t = 1 *)
Theorem whittaker_closed_form : forall (T K t p_sat n n_m hvap : R), 0 < K -> 0 < t -> 0 < p_sat -> 0 < n -> n < n_m ->
  whittaker_point RNum ln Rpower T K t p_sat n n_m hvap =
  (gas_const * T * ln (p_sat * K * Rpower (Rpower (n / n_m) t / (1 - Rpower (n / n_m) t)) ((t - 1) / t)) + hvap * 1000 + gas_const * T) / 1000.
Proof. exact whittaker_closed_form_all. Qed.
Print Assumptions whittaker_closed_form.
Theorem whittaker_langmuir : forall (T K p_sat n n_m hvap : R), 0 < K -> 0 < p_sat -> 0 < n -> n < n_m ->
  whittaker_point RNum ln Rpower T K 1 p_sat n n_m hvap = (gas_const * T * ln (p_sat * K) + hvap * 1000 + gas_const * T) / 1000.
Proof. exact whittaker_langmuir_all. Qed.
Print Assumptions whittaker_langmuir.
Theorem whittaker_omits_exactly : forall (pts : list (R * option R)) (T K t p_sat p_c p_t n_m : R) (hvap : R -> R) (n : R),
  In n (map fst (whittaker_loop RNum ln Rpower pts T K t p_sat p_c p_t n_m hvap)) <->
  exists p, In (n, Some p) pts /\ n <> 0 /\ 0 <= p /\ p <= p_c /\ p <= p_sat.
Proof. exact whittaker_omits_exactly_all. Qed.
Print Assumptions whittaker_omits_exactly.
(* initial_enthalpy_point: the first measured enthalpy of the chosen branch *)
Theorem initial_point_is_first : forall (pre post : list (bool * R)) (des : bool) (x : R),
  Forall (fun r => fst r = negb des) pre ->
  initial_enthalpy_point RNum (Some (pre ++ (des, x) :: post)%list) des = Ok x.
Proof. exact initial_point_is_first_all. Qed.
Print Assumptions initial_point_is_first.

Example vant_hoff_data_satisfiable : two_distinct [300; 250; 280] /\
  Forall2 (fun T p => vant_hoff 1 25 T (ln p)) [300; 250; 280]
          (map (fun T => exp (1 - 25 * 1000 / (gas_const * T))) [300; 250; 280]).
Proof. exact vant_hoff_example. Qed.
