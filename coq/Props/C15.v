(* C15 - Characterisation results do not depend on the units the isotherm is stored in.
   Property theorems only. c_pressure / c_loading are GENERATED (Gen/UnitsGen2.v); the acquisition table `acquisitions` is
   GENERATED from the AST of pygaps/characterisation (Gen/AcquireGen.v, tools/py2v_static.py); the accessor model
   acc_pressure / acc_loading / arg_pressure is hand-written (Charact/Invariance.v) and executed against
   PointIsotherm.pressure() / loading() / loading_at() on real isotherms by tools/props/c15.py on every run. *)
From Coq Require Import Reals Lra QArith ZArith String List Bool.
From PG Require Import Lib.Num Lib.Py Gen.UnitsGen1 Units.AdsOracle Gen.UnitsGen2 Units.UnitsSpec Units.C01Theorems
  Charact.Acquire Gen.AcquireGen Charact.PsdMeso Charact.PsdScale Charact.HkLib Gen.HkGen Charact.HkScale Gen.CharactGen Charact.Window Charact.ListAux Charact.BetLang Charact.BetScale Charact.OlsScale Charact.Invariance
  Registry.Backend Gen.AdsMethodsGen Registry.AdsMethods Charact.InvKinds.
Import ListNotations.
Open Scope string_scope.
Open Scope R_scope.

(* a read that names pressure mode (+ unit if absolute) returns the same numbers for each of the 10 stored representations *)
Theorem acquire_invariant_pressure : forall (a : adsorbate RNum) T psat, a_psat_Pa a (Some T) = Some psat -> 0 < psat -> T <> 0 ->
  forall (P : list R) (r rt : prep),
  acc_pressure RNum (p_mode r) (p_unit r) a (Some T) (stored_p psat r P) (p_mode rt) (p_unit rt) = Ok (stored_p psat rt P).
Proof. exact acquire_invariant_pressure. Qed.
Print Assumptions acquire_invariant_pressure.

(* a read that names loading basis and unit returns the same numbers for each of the 25 stored non-fractional representations *)
Theorem acquire_invariant_loading : forall (a : adsorbate RNum) temp M rml rmg, ads_at a temp M rml rmg -> 0 < M -> 0 < rml -> 0 < rmg ->
  forall (Lc : list R) (bm um : option string) (r rt : lrep), l_is_phys r = true -> l_is_phys rt = true ->
  acc_loading RNum (l_basis r) (l_unit r) bm um a temp (stored_l M rml rmg r Lc) (l_basis rt) (l_unit rt) = Ok (stored_l M rml rmg rt Lc).
Proof. exact acquire_invariant_loading. Qed.
Print Assumptions acquire_invariant_loading.

(* loading_at(p, named representation): the argument lands on the same physical pressure for every stored representation *)
Theorem loading_at_argument_invariant : forall (a : adsorbate RNum) T psat, a_psat_Pa a (Some T) = Some psat -> 0 < psat -> T <> 0 ->
  forall p (r rt : prep),
  arg_pressure RNum (p_mode r) (p_unit r) a (Some T) p (p_mode rt) (p_unit rt) = Ok (spec_conv (p_canon psat rt) (p_canon psat r) p).
Proof. exact loading_at_argument_invariant. Qed.
Print Assumptions loading_at_argument_invariant.

(* adsorbate KINDS: the record `a` above instantiated with the adsorbate built from the GENERATED property methods of Adsorbate
   (Gen/AdsMethodsGen.v, from the bodies in adsorbate.py) - a backend that answers (whatever is stored beside it), no backend + stored
   property, a backend failing at the isotherm temperature + stored property: the converter receives the pascal value divided ONCE by the
   unit, and the named reads are invariant for every kind *)
Theorem saturation_pressure_unit_by_kind : forall (b : backend RNum) (props : list (string * R)) T psat (u : punit),
  psat_source b props T psat -> saturation_pressure RNum b props T (Some (punit_name u)) true = Ok (psat / pa_per u).
Proof. exact saturation_pressure_unit_by_kind. Qed.
Print Assumptions saturation_pressure_unit_by_kind.
Theorem converter_reads_generated_method : forall (b : backend RNum) (props : list (string * R)) T u,
  ads_saturation_pressure (ads_of b props) (Some T) u = saturation_pressure RNum b props T u true.
Proof. exact converter_reads_generated_method. Qed.
Print Assumptions converter_reads_generated_method.
Theorem acquire_invariant_pressure_by_kind : forall (b : backend RNum) (props : list (string * R)) T psat,
  psat_source b props T psat -> 0 < psat -> T <> 0 -> forall (P : list R) (r rt : prep),
  acc_pressure RNum (p_mode r) (p_unit r) (ads_of b props) (Some T) (stored_p psat r P) (p_mode rt) (p_unit rt) = Ok (stored_p psat rt P).
Proof. exact acquire_invariant_pressure_by_kind. Qed.
Print Assumptions acquire_invariant_pressure_by_kind.
Theorem loading_at_argument_invariant_by_kind : forall (b : backend RNum) (props : list (string * R)) T psat,
  psat_source b props T psat -> 0 < psat -> T <> 0 -> forall p (r rt : prep),
  arg_pressure RNum (p_mode r) (p_unit r) (ads_of b props) (Some T) p (p_mode rt) (p_unit rt) = Ok (spec_conv (p_canon psat rt) (p_canon psat r) p).
Proof. exact loading_at_argument_invariant_by_kind. Qed.
Print Assumptions loading_at_argument_invariant_by_kind.

(* the generated acquisition table: every read of area_BET, area_langmuir, t_plot, dr_plot, da_plot, psd_mesoporous,
   psd_microporous and of alpha_s on the sample names its representation, hence is invariant *)
Theorem entry_points_read_invariantly : forall q, In q acquisitions ->
  (In (q_entry q) invariant_entries \/ (q_entry q = "alpha_s" /\ q_recv q = "isotherm")) ->
  (q_call q = "pressure" \/ q_call q = "loading") /\ reads_invariantly q.
Proof. exact entry_points_read_invariantly. Qed.
Print Assumptions entry_points_read_invariantly.

Theorem acquisition_table_complete : table_chk = true.
Proof. exact table_chk_true. Qed.
Print Assumptions acquisition_table_complete.

(* entry points that do not name what they read *)
Theorem alphas_reference_units_refuted : exists q, In q acquisitions /\ q_entry q = "alpha_s" /\ q_recv q = "reference_isotherm"
  /\ q_call q = "loading_at" /\ assoc "pressure_mode" (q_args q) = None /\ assoc "pressure_unit" (q_args q) = Some (VIso "isotherm.pressure_unit")
  /\ assoc "loading_basis" (q_args q) = None /\ row_ok q = false.
Proof. exact alphas_reference_units_refuted. Qed.
Print Assumptions alphas_reference_units_refuted.

Theorem alphas_reference_lookup_depends_on_storage_refuted : forall (a : adsorbate RNum) (T psat p : R), 0 < p -> psat <> 100000 ->
  exists x y,
    arg_pressure RNum (p_mode PRel) (p_unit PRel) a (Some T) p None (Some "bar") = Ok x
    /\ arg_pressure RNum (p_mode (PAbs bar)) (p_unit (PAbs bar)) a (Some T) p None (Some "bar") = Ok y
    /\ x * p_canon psat PRel <> y * p_canon psat (PAbs bar).
Proof. exact alphas_reference_lookup_depends_on_storage. Qed.
Print Assumptions alphas_reference_lookup_depends_on_storage_refuted.

Theorem isosteric_pressure_units_refuted : exists q, In q acquisitions /\ q_entry q = "isosteric_enthalpy" /\ q_call q = "pressure_at"
  /\ assoc "pressure_mode" (q_args q) = None /\ assoc "pressure_unit" (q_args q) = None /\ row_ok q = false.
Proof. exact isosteric_pressure_units_refuted. Qed.
Print Assumptions isosteric_pressure_units_refuted.

Theorem isosteric_pressure_read_depends_on_storage_refuted : forall (a : adsorbate RNum) (T psat : R) (P : list R) (r1 r2 : prep),
  0 < psat -> P <> [] -> (forall p, In p P -> p <> 0) -> p_canon psat r1 <> p_canon psat r2 ->
  exists c1 c2, acc_pressure RNum (p_mode r1) (p_unit r1) a (Some T) (stored_p psat r1 P) None None = Ok c1
    /\ acc_pressure RNum (p_mode r2) (p_unit r2) a (Some T) (stored_p psat r2 P) None None = Ok c2 /\ c1 <> c2.
Proof. exact isosteric_pressure_read_depends_on_storage. Qed.
Print Assumptions isosteric_pressure_read_depends_on_storage_refuted.

Theorem isosteric_common_unit_cancels : forall c p1 p2, 0 < c -> 0 < p1 -> 0 < p2 -> ln (c * p2) - ln (c * p1) = ln p2 - ln p1.
Proof. exact log_difference_common_factor. Qed.
Print Assumptions isosteric_common_unit_cancels.
Theorem isosteric_mixed_units_shift_refuted : forall c p1 p2, 0 < c -> c <> 1 -> 0 < p1 -> 0 < p2 -> ln (c * p2) - ln p1 <> ln p2 - ln p1.
Proof. exact isosteric_mixed_units_shift. Qed.
Print Assumptions isosteric_mixed_units_shift_refuted.

(* initial Henry constants: native reads, covariant with the exact factor *)
Theorem henry_reads_native : forall q, In q acquisitions -> (q_entry q = "initial_henry_slope" \/ q_entry q = "initial_henry_virial") -> q_args q = [].
Proof. exact henry_reads_native. Qed.
Print Assumptions henry_reads_native.
Theorem native_pressure_covariant : forall (a : adsorbate RNum) T psat, 0 < psat -> forall (P : list R) (r1 r2 : prep),
  acc_pressure RNum (p_mode r1) (p_unit r1) a (Some T) (stored_p psat r1 P) None None = Ok (stored_p psat r1 P)
  /\ stored_p psat r2 P = map (fun v => v * (p_canon psat r1 / p_canon psat r2)) (stored_p psat r1 P).
Proof. exact native_pressure_covariant. Qed.
Print Assumptions native_pressure_covariant.
Theorem native_loading_covariant : forall (a : adsorbate RNum) temp M rml rmg, 0 < M -> 0 < rml -> 0 < rmg ->
  forall (Lc : list R) (bm um : option string) (r1 r2 : lrep), l_is_phys r1 = true -> l_is_phys r2 = true ->
  acc_loading RNum (l_basis r1) (l_unit r1) bm um a temp (stored_l M rml rmg r1 Lc) None None = Ok (stored_l M rml rmg r1 Lc)
  /\ stored_l M rml rmg r2 Lc = map (fun v => v * (l_canon_phys M rml rmg r1 / l_canon_phys M rml rmg r2)) (stored_l M rml rmg r1 Lc).
Proof. exact native_loading_covariant. Qed.
Print Assumptions native_loading_covariant.
Theorem henry_covariant : forall (pf lf : R) (d : list (R * R)), pf <> 0 -> sxx d <> 0 -> den d <> 0 -> nn d <> 0 ->
  slope0 (scale pf lf d) = lf / pf * slope0 d /\ slope (scale pf lf d) = lf / pf * slope d.
Proof. exact henry_covariant. Qed.
Print Assumptions henry_covariant.

(* scaling clause *)
Theorem ols_scale : forall a b d, a <> 0 -> den d <> 0 -> nn d <> 0 ->
  slope (scale a b d) = b / a * slope d /\ intercept (scale a b d) = b * intercept d.
Proof. exact ols_scale. Qed.
Print Assumptions ols_scale.
Theorem ols_scale_loading : forall c d, den d <> 0 -> nn d <> 0 ->
  slope (scale 1 c d) = c * slope d /\ intercept (scale 1 c d) = c * intercept d.
Proof. exact ols_scale_loading. Qed.
Print Assumptions ols_scale_loading.
Theorem intensive_constants_unchanged : forall c d, c <> 0 -> den d <> 0 -> nn d <> 0 -> intercept d <> 0 ->
  slope (scale 1 c d) / intercept (scale 1 c d) = slope d / intercept d.
Proof. exact slope_over_intercept_scale. Qed.
Print Assumptions intensive_constants_unchanged.
Theorem correlation_unchanged : forall a b d, a <> 0 -> b <> 0 -> den d <> 0 -> nn d * syy d - sy d * sy d <> 0 -> r2 (scale a b d) = r2 d.
Proof. exact r2_scale. Qed.
Print Assumptions correlation_unchanged.

(* scaling clause for the classical mesopore methods (the recurrences of Charact/PsdMeso.v, tied to psd_meso.py by the correspondence of
   tools/props/c16.py): multiplying every loading by c multiplies pore volumes, pore areas, the distribution and the cumulative curve by c
   and leaves the pore widths and the selected window unchanged; lists of any length, every method / geometry / thickness and Kelvin array /
   limits. No denominator is scaled, so no definedness hypothesis is needed. *)
Theorem psd_meso_scale : forall (c : R) (vol thick kr : list R) (g : string) (r : psd_result RNum),
  let scaled r' := p_widths r' = p_widths r /\ p_volumes r' = map (Rmult c) (p_volumes r) /\
                   p_areas r' = map (Rmult c) (p_areas r) /\ p_dist r' = map (Rmult c) (p_dist r) in
  (psd_pygapsdh RNum vol thick kr g = Ok r -> exists r', psd_pygapsdh RNum (map (Rmult c) vol) thick kr g = Ok r' /\ scaled r') /\
  (psd_bjh RNum vol thick kr g = Ok r -> exists r', psd_bjh RNum (map (Rmult c) vol) thick kr g = Ok r' /\ scaled r') /\
  (psd_dollimore_heal RNum vol thick kr g = Ok r -> exists r', psd_dollimore_heal RNum (map (Rmult c) vol) thick kr g = Ok r' /\ scaled r').
Proof. exact PsdScale.psd_meso_scale_explicit. Qed.
Print Assumptions psd_meso_scale.
Theorem psd_mesoporous_scale : forall (c : R) (method g : string) (pressure vol thick kr : list R) limits r cum w,
  psd_mesoporous RNum method g pressure vol thick kr limits = Ok (r, cum, w) ->
  exists r', psd_mesoporous RNum method g pressure (map (Rmult c) vol) thick kr limits = Ok (r', map (Rmult c) cum, w) /\
    p_widths r' = p_widths r /\ p_volumes r' = map (Rmult c) (p_volumes r) /\
    p_areas r' = map (Rmult c) (p_areas r) /\ p_dist r' = map (Rmult c) (p_dist r).
Proof. exact PsdScale.psd_mesoporous_scale_explicit. Qed.
Print Assumptions psd_mesoporous_scale.

(* scaling clause for area_BET_raw (model Charact/BetLang.v over the GENERATED BET formulas, tied to the code by the C14 correspondence):
   the selected window - manual or automatic (Rouquerol) - does not depend on a positive scale factor of the loadings (the loop only
   compares n(1-p) values with each other), and the results scale: n_m and area x c, slope and intercept / c, C and p_m unchanged *)
Theorem bet_window_scale : forall (c : R) (p l : list R) limits, 0 < c ->
  bet_window RNum p (map (Rmult c) l) limits = bet_window RNum p l limits.
Proof. exact BetScale.bet_window_scale. Qed.
Print Assumptions bet_window_scale.
Theorem bet_scale : forall (c cs : R) (p l : list R) limits r, 0 < c -> Sorted.StronglySorted Rlt p -> length l = length p ->
  Forall (fun x => x <> 0) (map2 (roq_transform RNum) p l) ->
  area_BET_raw RNum sqrt p l cs limits = Ok r -> b_intercept r <> 0 -> b_c r <> 0 ->
  exists r', area_BET_raw RNum sqrt p (map (Rmult c) l) cs limits = Ok r' /\
    b_window r' = b_window r /\ b_c r' = b_c r /\ b_pm r' = b_pm r /\
    b_nm r' = c * b_nm r /\ b_area r' = c * b_area r /\ b_slope r' = b_slope r / c /\ b_intercept r' = b_intercept r / c.
Proof. exact BetScale.bet_scale. Qed.
Print Assumptions bet_scale.

(* scaling clause for the Horvath-Kawazoe family (psd_microporous): widths are solved from the pressures (Cheng-Yang variants: and from the
   coverages l / (1.01 max l), unchanged by a positive factor); the loadings enter through the GENERATED distribution tail only, which is
   homogeneous of degree 1: distribution and cumulative volume x c, reported widths unchanged. *)
Theorem hk_tail_scale : forall (c : R) (ads : hkads RNum) (W P Ld : list R),
  hk_tail RNum ads W P (map (Rmult c) Ld) =
  (fst (fst (hk_tail RNum ads W P Ld)), map (Rmult c) (snd (fst (hk_tail RNum ads W P Ld))), map (Rmult c) (snd (hk_tail RNum ads W P Ld)))
  /\ ry_tail RNum ads W P (map (Rmult c) Ld) =
  (fst (fst (ry_tail RNum ads W P Ld)), map (Rmult c) (snd (fst (ry_tail RNum ads W P Ld))), map (Rmult c) (snd (ry_tail RNum ads W P Ld))).
Proof. exact HkScale.hk_tail_scale. Qed.
Print Assumptions hk_tail_scale.
Theorem hk_cheng_yang_coverage_scale : forall (c : R) (loading : list R), 0 < c -> lmax loading <> 0 ->
  map (solve_hk_cy_coverage RNum (lmax (map (Rmult c) loading))) (map (Rmult c) loading)
  = map (solve_hk_cy_coverage RNum (lmax loading)) loading.
Proof. exact HkScale.coverage_scale. Qed.
Print Assumptions hk_cheng_yang_coverage_scale.

Example invariance_hypotheses_satisfiable :
  exists (a : adsorbate RNum), a_psat_Pa a (Some 77.355) = Some 101325 /\ ads_at a (Some 77.355) 28.0134 0.0288 0.000165
    /\ 0 < 101325 /\ 77.355 <> 0 /\ 0 < 28.0134 /\ 0 < 0.0288 /\ 0 < 0.000165.
Proof. exact invariance_hypotheses_satisfiable. Qed.
Example adsorbate_kinds_satisfiable :
  (exists b : backend RNum, psat_source b [("saturation_pressure", 98000)] 77 101325)
  /\ psat_source no_backend [("saturation_pressure", 98000)] 90 98000
  /\ (exists b : backend RNum, b "molar_mass" (@NoInput RNum) = Some 0.028 /\ psat_source b [("saturation_pressure", 98000)] 150 98000).
Proof. exact kinds_satisfiable. Qed.
Example psd_scale_hypotheses_satisfiable :
  (exists r, psd_pygapsdh RNum [1; 2; 4] [0; 0; 0] [1; 2; 3] "sphere" = Ok r) /\
  (exists r, psd_bjh RNum [1; 2; 4] [0; 0; 0] [1; 2; 3] "cylinder" = Ok r) /\
  (exists r, psd_dollimore_heal RNum [1; 2; 4] [0; 0; 0] [1; 2; 3] "cylinder" = Ok r).
Proof. exact PsdScale.psd_scale_example. Qed.
Example rouquerol_loop_ignores_a_tiny_scale_factor : first_decrease RNum (map (Rmult (/ 1000000)) [1; 2; 1.5]) 0 = Some 2%nat.
Proof. exact BetScale.bet_scale_example. Qed.
Example hk_scale_hypotheses_satisfiable : lmax [1; 3; 2] <> 0.
Proof. exact HkScale.hk_scale_hypotheses_satisfiable. Qed.
Example ols_hypotheses_satisfiable : let d := [(1, 2); (2, 3); (4, 8)] in den d <> 0 /\ nn d <> 0 /\ intercept d <> 0 /\ sxx d <> 0.
Proof. exact ols_hypotheses_satisfiable. Qed.
