(* C04 - Read-only queries and analyses are pure and independent of query history.
   Model: Iso/IsoAccess.v (hand-written, tied by correspondence) threading the interpolator caches of PointIsotherm;
   convert_* are GENERATED from the source. *)
From Coq Require Import Reals Lra QArith ZArith String List Bool.
From PG Require Import Lib.Num Lib.Py Gen.UnitsGen1 Units.AdsOracle Gen.UnitsGen2 Iso.IsoState Gen.IsoGen Iso.IsoAccess Iso.Purity Gen.PurityGen.
Import ListNotations.
Open Scope list_scope.

(* purity, for ALL states and ALL arguments: the observable content (everything but the caches) is unchanged *)
Theorem loading_at_is_pure : forall (s : iso RNum) ps b k f pu pm lu lb mu mb,
  obs RNum (res_state RNum (iso_loading_at RNum s ps b k f pu pm lu lb mu mb)) = obs RNum s.
Proof. exact (loading_at_pure RNum). Qed.
Print Assumptions loading_at_is_pure.
Theorem pressure_at_is_pure : forall (s : iso RNum) ls b k f pu pm lu lb mu mb,
  obs RNum (res_state RNum (iso_pressure_at RNum s ls b k f pu pm lu lb mu mb)) = obs RNum s.
Proof. exact (pressure_at_pure RNum). Qed.
Print Assumptions pressure_at_is_pure.
Theorem spreading_pressure_at_is_pure : forall (s : iso RNum) p b f pu pm lu lb mu mb,
  obs RNum (res_state RNum (iso_spreading_outcome RNum s p b f pu pm lu lb mu mb)) = obs RNum s.
Proof. exact (spreading_pure RNum). Qed.
Print Assumptions spreading_pressure_at_is_pure.
Theorem histories_of_queries_are_pure : forall (s : iso RNum) (acts : list act),
  forallb is_query acts = true -> obs RNum (fold_left do_act acts s) = obs RNum s.
Proof. exact query_histories_are_pure. Qed.
Print Assumptions histories_of_queries_are_pure.

(* caches are invisible: a cached interpolator always equals what a fresh build from the current data gives,
   after ANY history of queries and permanent conversions with ANY arguments *)
Theorem cache_invariant_holds_after_any_history : forall (s0 : iso RNum) (acts : list act),
  cache_ok RNum (fold_left do_act acts (clear RNum s0)).
Proof. exact cache_ok_reachable. Qed.
Print Assumptions cache_invariant_holds_after_any_history.
Theorem permanent_conversions_keep_cache_invariant : forall (s : iso RNum) a b vb, cache_ok RNum s ->
  cache_ok RNum (state_after (convert_pressure RNum s a b vb)) /\ cache_ok RNum (state_after (convert_loading RNum s a b vb))
  /\ cache_ok RNum (state_after (convert_material RNum s a b vb)).
Proof.
  exact (fun s a b vb H => conj (convert_pressure_keeps_cache_ok s a b vb H)
                          (conj (convert_loading_keeps_cache_ok s a b vb H) (convert_material_keeps_cache_ok s a b vb H))).
Qed.
Print Assumptions permanent_conversions_keep_cache_invariant.
(* the outcome (values or kind of error) of an interpolation query after any history = its outcome on an identical fresh object *)
Theorem interpolation_queries_are_history_independent : forall (s0 : iso RNum) (acts : list act) ps b k f pu pm lu lb mu mb,
  let s := fold_left do_act acts (clear RNum s0) in
  res_out RNum (iso_loading_at RNum s ps b k f pu pm lu lb mu mb) = res_out RNum (iso_loading_at RNum (clear RNum s) ps b k f pu pm lu lb mu mb)
  /\ res_out RNum (iso_pressure_at RNum s ps b k f pu pm lu lb mu mb) = res_out RNum (iso_pressure_at RNum (clear RNum s) ps b k f pu pm lu lb mu mb).
Proof. exact queries_history_independent. Qed.
Print Assumptions interpolation_queries_are_history_independent.
(* value-returning accessors do not even read the caches *)
Theorem accessors_ignore_caches : forall (s s' : iso RNum) b pu pm lim lu lb mu mb,
  obs RNum s = obs RNum s' ->
  iso_pressure RNum s b pu pm lim = iso_pressure RNum s' b pu pm lim /\ iso_loading RNum s b lu lb mu mb lim = iso_loading RNum s' b lu lb mu mb lim.
Proof. exact (fun s s' b pu pm lim lu lb mu mb H => conj (iso_pressure_obs RNum s s' b pu pm lim H) (iso_loading_obs RNum s s' b lu lb mu mb lim H)). Qed.
Print Assumptions accessors_ignore_caches.

(* spreading_pressure_at: the outcome (value / kind of error) after any history = the outcome on an identical fresh object
   (C04-F1, repaired in /repo: the range guard used to read the cached interpolator) *)
Theorem spreading_pressure_outcome_is_history_independent : forall (s0 : iso RNum) (acts : list act) p b f pu pm lu lb mu mb,
  let s := fold_left do_act acts (clear RNum s0) in
  out_unit (iso_spreading_outcome RNum s p b f pu pm lu lb mu mb) = out_unit (iso_spreading_outcome RNum (clear RNum s) p b f pu pm lu lb mu mb).
Proof. exact spreading_history_independent_reachable. Qed.
Print Assumptions spreading_pressure_outcome_is_history_independent.

(* characterisation / IAST / fitting / exporters are not modelled; the source census (generated on every run, 112 functions scanned)
   shows NO entry point that calls a mutating method on, or assigns into, an isotherm it was given (C04-F2 Whittaker, repaired) *)
Theorem analyses_never_mutate_their_arguments : mutating_sites = [].
Proof. exact no_analysis_mutates_its_argument. Qed.
Print Assumptions analyses_never_mutate_their_arguments.

Example reachable_state_example :
  cache_ok RNum (fold_left do_act [ALoadingAt [1%R] (Some "ads"%string) (Some "linear"%string) (@FNone RNum) None None None None None None;
                                   AConvP (Some "relative"%string) None] (clear RNum (mkIso RNum None None None None None None None 0%R
                                     (@ads_const RNum None None None None None None) (mkMat RNum None None) [] [] [] None None))).
Proof. apply cache_ok_reachable. Qed.
