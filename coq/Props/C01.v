(* C01 - Unit, pressure-mode and basis conversions are physically correct and consistent.
   Property theorems only: each is closed by `exact <lemma>` and followed by Print Assumptions.
   The functions c_pressure / c_loading / c_material / c_temperature / c_unit are the GENERATED
   translation of pygaps/units/converter_{unit,mode}.py (Gen/UnitsGen{1,2}.v). *)
From Coq Require Import Reals Lra QArith ZArith String List Bool.
From PG Require Import Lib.Num Lib.Py Gen.UnitsGen1 Units.AdsOracle Gen.UnitsGen2 Units.UnitsSpec
  Units.PressureProofs Units.LoadingPhys Units.MaterialProofs Units.C01Theorems Units.Refusal.
Open Scope R_scope.

Theorem c_pressure_factor : forall psat T v (r1 r2 : prep), 0 < psat -> T <> 0 ->
  c_pressure RNum v (p_mode r1) (p_mode r2) (p_unit r1) (p_unit r2) (ads_p psat) (Some T)
  = Ok (spec_conv (p_canon psat r1) (p_canon psat r2) v).
Proof. exact c_pressure_factor_all. Qed.
Print Assumptions c_pressure_factor.

Theorem c_loading_factor : forall M rml rmg temp v (mat : mrep) (r1 r2 : lrep), 0 < M -> 0 < rml -> 0 < rmg ->
  c_loading RNum v (l_basis r1) (l_basis r2) (l_unit r1) (l_unit r2) (ads_l M rml rmg) temp (m_basis mat) (m_unit mat)
  = Ok (spec_conv (l_canon M rml rmg mat r1) (l_canon M rml rmg mat r2) v).
Proof. exact c_loading_factor_all. Qed.
Print Assumptions c_loading_factor.

Theorem c_material_factor : forall dens mm v (r1 r2 : mrep), 0 < dens -> 0 < mm ->
  c_material RNum v (m_basis r1) (m_basis r2) (m_unit r1) (m_unit r2) (mat_of dens mm)
  = Ok (spec_conv (m_canon dens mm r2) (m_canon dens mm r1) v).
Proof. exact c_material_factor_all. Qed.
Print Assumptions c_material_factor.

Theorem representations_complete :
  (forall r, In r all_preps) /\ (forall r, In r all_lreps) /\ (forall r, In r all_mreps)
  /\ length all_preps = 10%nat /\ length all_lreps = 27%nat /\ length all_mreps = 19%nat.
Proof. exact (conj all_preps_complete (conj all_lreps_complete (conj all_mreps_complete rep_counts))). Qed.
Print Assumptions representations_complete.

Theorem pressure_same_is_identity : forall psat T, 0 < psat -> T <> 0 -> forall v r,
  c_pressure RNum v (p_mode r) (p_mode r) (p_unit r) (p_unit r) (ads_p psat) (Some T) = Ok v.
Proof. exact c_pressure_same_is_identity. Qed.
Print Assumptions pressure_same_is_identity.
Theorem pressure_there_and_back : forall psat T, 0 < psat -> T <> 0 -> forall v r1 r2,
  bind (c_pressure RNum v (p_mode r1) (p_mode r2) (p_unit r1) (p_unit r2) (ads_p psat) (Some T))
       (fun w => c_pressure RNum w (p_mode r2) (p_mode r1) (p_unit r2) (p_unit r1) (ads_p psat) (Some T)) = Ok v.
Proof. exact c_pressure_there_and_back. Qed.
Print Assumptions pressure_there_and_back.
Theorem pressure_via_intermediate_is_direct : forall psat T, 0 < psat -> T <> 0 -> forall v r1 r2 r3,
  bind (c_pressure RNum v (p_mode r1) (p_mode r2) (p_unit r1) (p_unit r2) (ads_p psat) (Some T))
       (fun w => c_pressure RNum w (p_mode r2) (p_mode r3) (p_unit r2) (p_unit r3) (ads_p psat) (Some T))
  = c_pressure RNum v (p_mode r1) (p_mode r3) (p_unit r1) (p_unit r3) (ads_p psat) (Some T).
Proof. exact c_pressure_compose. Qed.
Print Assumptions pressure_via_intermediate_is_direct.
Theorem pressure_pointwise : forall psat T, 0 < psat -> T <> 0 -> forall vs r1 r2,
  map (fun v => c_pressure RNum v (p_mode r1) (p_mode r2) (p_unit r1) (p_unit r2) (ads_p psat) (Some T)) vs
  = map (fun v => Ok (spec_conv (p_canon psat r1) (p_canon psat r2) v)) vs.
Proof. exact c_pressure_pointwise. Qed.
Print Assumptions pressure_pointwise.

Theorem loading_same_is_identity : forall M rml rmg, 0 < M -> 0 < rml -> 0 < rmg -> forall temp mat v r,
  c_loading RNum v (l_basis r) (l_basis r) (l_unit r) (l_unit r) (ads_l M rml rmg) temp (m_basis mat) (m_unit mat) = Ok v.
Proof. exact c_loading_same_is_identity. Qed.
Print Assumptions loading_same_is_identity.
Theorem loading_there_and_back : forall M rml rmg, 0 < M -> 0 < rml -> 0 < rmg -> forall temp mat v r1 r2,
  bind (c_loading RNum v (l_basis r1) (l_basis r2) (l_unit r1) (l_unit r2) (ads_l M rml rmg) temp (m_basis mat) (m_unit mat))
       (fun w => c_loading RNum w (l_basis r2) (l_basis r1) (l_unit r2) (l_unit r1) (ads_l M rml rmg) temp (m_basis mat) (m_unit mat)) = Ok v.
Proof. exact c_loading_there_and_back. Qed.
Print Assumptions loading_there_and_back.
Theorem loading_via_intermediate_is_direct : forall M rml rmg, 0 < M -> 0 < rml -> 0 < rmg -> forall temp mat v r1 r2 r3,
  bind (c_loading RNum v (l_basis r1) (l_basis r2) (l_unit r1) (l_unit r2) (ads_l M rml rmg) temp (m_basis mat) (m_unit mat))
       (fun w => c_loading RNum w (l_basis r2) (l_basis r3) (l_unit r2) (l_unit r3) (ads_l M rml rmg) temp (m_basis mat) (m_unit mat))
  = c_loading RNum v (l_basis r1) (l_basis r3) (l_unit r1) (l_unit r3) (ads_l M rml rmg) temp (m_basis mat) (m_unit mat).
Proof. exact c_loading_compose. Qed.
Print Assumptions loading_via_intermediate_is_direct.
Theorem loading_needs_consistent_densities_refuted : exists a : adsorbate RNum,
    c_loading RNum 1 (Some "mass") (Some "volume_liquid") (Some "g") (Some "cm3") a None None None
    <> bind (c_loading RNum 1 (Some "mass") (Some "molar") (Some "g") (Some "mol") a None None None)
            (fun w => c_loading RNum w (Some "molar") (Some "volume_liquid") (Some "mol") (Some "cm3") a None None None).
Proof. exact c_loading_inconsistent_ads_refuted. Qed.
Print Assumptions loading_needs_consistent_densities_refuted.

Theorem material_same_is_identity : forall dens mm, 0 < dens -> 0 < mm -> forall v r,
  c_material RNum v (m_basis r) (m_basis r) (m_unit r) (m_unit r) (mat_of dens mm) = Ok v.
Proof. exact c_material_same_is_identity. Qed.
Print Assumptions material_same_is_identity.
Theorem material_there_and_back : forall dens mm, 0 < dens -> 0 < mm -> forall v r1 r2,
  bind (c_material RNum v (m_basis r1) (m_basis r2) (m_unit r1) (m_unit r2) (mat_of dens mm))
       (fun w => c_material RNum w (m_basis r2) (m_basis r1) (m_unit r2) (m_unit r1) (mat_of dens mm)) = Ok v.
Proof. exact c_material_there_and_back. Qed.
Print Assumptions material_there_and_back.
Theorem material_via_intermediate_is_direct : forall dens mm, 0 < dens -> 0 < mm -> forall v r1 r2 r3,
  bind (c_material RNum v (m_basis r1) (m_basis r2) (m_unit r1) (m_unit r2) (mat_of dens mm))
       (fun w => c_material RNum w (m_basis r2) (m_basis r3) (m_unit r2) (m_unit r3) (mat_of dens mm))
  = c_material RNum v (m_basis r1) (m_basis r3) (m_unit r1) (m_unit r3) (mat_of dens mm).
Proof. exact c_material_compose. Qed.
Print Assumptions material_via_intermediate_is_direct.

Theorem temperature_K_to_C : forall v s, is_celsius s = true -> c_temperature RNum v (Some "K"%string) (Some s) = Ok (v - 273.15).
Proof. exact c_temperature_K_to_C. Qed.
Print Assumptions temperature_K_to_C.
Theorem temperature_C_to_K : forall v s, is_celsius s = true -> c_temperature RNum v (Some s) (Some "K"%string) = Ok (v + 273.15).
Proof. exact c_temperature_C_to_K. Qed.
Print Assumptions temperature_C_to_K.
Theorem temperature_there_and_back : forall v s, is_celsius s = true ->
  bind (c_temperature RNum v (Some "K"%string) (Some s)) (fun w => c_temperature RNum w (Some s) (Some "K"%string)) = Ok v.
Proof. exact c_temperature_there_and_back. Qed.
Print Assumptions temperature_there_and_back.

(* refusal clause, for all strings *)
Theorem pressure_refuses_unknown_mode : forall v m1 m2 u1 u2 a T,
  known_pmode m1 = false \/ known_pmode m2 = false -> c_pressure RNum v m1 m2 u1 u2 a T = Err ParameterError.
Proof. exact c_pressure_refuses_unknown_mode. Qed.
Print Assumptions pressure_refuses_unknown_mode.
Theorem pressure_refuses_unknown_unit_to : forall v rel u1 u2 a T,
  rel = Some "relative"%string \/ rel = Some "relative%"%string -> known_punit u2 = false ->
  c_pressure RNum v rel (Some "absolute"%string) u1 u2 a T = Err ParameterError.
Proof. exact c_pressure_refuses_unknown_unit_to. Qed.
Print Assumptions pressure_refuses_unknown_unit_to.
Theorem pressure_refuses_unknown_unit_from : forall v rel u1 u2 a T,
  rel = Some "relative"%string \/ rel = Some "relative%"%string -> known_punit u1 = false ->
  c_pressure RNum v (Some "absolute"%string) rel u1 u2 a T = Err ParameterError.
Proof. exact c_pressure_refuses_unknown_unit_from. Qed.
Print Assumptions pressure_refuses_unknown_unit_from.
Theorem pressure_refuses_unknown_unit_abs : forall v u1 u2 a T,
  ostr_truthy u2 = true -> known_punit u1 = false \/ known_punit u2 = false ->
  c_pressure RNum v (Some "absolute"%string) (Some "absolute"%string) u1 u2 a T = Err ParameterError.
Proof. exact c_pressure_refuses_unknown_unit_abs. Qed.
Print Assumptions pressure_refuses_unknown_unit_abs.
Theorem pressure_refuses_missing_temperature : forall v u a, known_punit u = true ->
  c_pressure RNum v (Some "relative"%string) (Some "absolute"%string) None u a None = Err ParameterError.
Proof. exact c_pressure_refuses_missing_temp. Qed.
Print Assumptions pressure_refuses_missing_temperature.
Theorem loading_refuses_unknown_basis : forall v b1 b2 u1 u2 a T bm um,
  known_lbasis b1 = false -> c_loading RNum v b1 b2 u1 u2 a T bm um = Err ParameterError.
Proof. exact c_loading_refuses_unknown_basis. Qed.
Print Assumptions loading_refuses_unknown_basis.
Theorem material_refuses_unknown_basis : forall v b1 b2 u1 u2 m,
  known_mbasis b1 = false -> c_material RNum v b1 b2 u1 u2 m = Err ParameterError.
Proof. exact c_material_refuses_unknown_basis. Qed.
Print Assumptions material_refuses_unknown_basis.

(* deviations from the refusal clause on the unchanged tree (known findings C01-F1..F3) *)
Theorem same_representation_skips_label_checks_refuted :
  (forall v a T, c_pressure RNum v (Some "relative") (Some "relative") (Some "bogus") (Some "bogus") a T = Ok v)
  /\ (forall v a T, c_pressure RNum v (Some "absolute") (Some "absolute") (Some "bogus") None a T = Ok v)
  /\ (forall v a T bm um, c_loading RNum v (Some "molar") (Some "molar") (Some "bogus") (Some "bogus") a T bm um = Ok v)
  /\ (forall v m, c_material RNum v (Some "mass") (Some "mass") (Some "bogus") None m = Ok v).
Proof. exact same_repr_skips_checks_refuted. Qed.
Print Assumptions same_representation_skips_label_checks_refuted.
Theorem fraction_without_material_is_KeyError_refuted :
  forall v a T, c_loading RNum v (Some "molar") (Some "fraction") (Some "mmol") None a T None None = Err KeyError.
Proof. exact fraction_without_material_refuted. Qed.
Print Assumptions fraction_without_material_is_KeyError_refuted.
Theorem material_without_density_is_TypeError_refuted :
  forall v, c_material RNum v (Some "mass") (Some "volume") (Some "g") (Some "cm3") (mkMat RNum None None) = Err TypeError.
Proof. exact material_without_density_refuted. Qed.
Print Assumptions material_without_density_is_TypeError_refuted.

(* non-vacuity: nitrogen at 77.355 K (rational constants) meets every hypothesis above *)
Example hypotheses_satisfiable :
  0 < 101325 /\ 77.355 <> 0 /\ 0 < 28.0134 /\ 0 < 0.0288 /\ 0 < 0.000165 /\ 0 < 2.1 /\ 0 < 60.08.
Proof. repeat split; lra. Qed.
