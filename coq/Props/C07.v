(* C07 - CSV, Excel and AIF round trips preserve the isotherm.
   PARTIAL: the machine-checked part is the string codec shared by the CSV and AIF parsers (cast_string / _to_string,
   Codec/CastString.v, tied to the code by a 20 000-string differential run per check) and the isotherm dictionary the three
   writers start from (to_dict, Codec/JsonDoc.v, C06). The document containers (pandas to_csv/read_csv, xlwt/xlrd, gemmi) are
   oracles; the document-level round trips are validated on the implementation by the property oracle of ./check C07. *)
From Coq Require Import ZArith NArith String List Bool.
From PG Require Import Lib.Py Codec.CastString.
Import ListNotations.
Open Scope string_scope.

(* every non-negative int, printed by str() and read by cast_string, is the same int (induction over decimal numerals) *)
Theorem cast_roundtrip_int : forall n : N, cast_string (print_nat n) = CInt n.
Proof. exact cast_int_roundtrip. Qed.
Print Assumptions cast_roundtrip_int.
(* None and the booleans *)
Theorem cast_roundtrip_none : cast_string "None" = CNone.
Proof. exact cast_none. Qed.
Print Assumptions cast_roundtrip_none.
Theorem cast_roundtrip_true : cast_string "True" = CBool true.
Proof. exact cast_true. Qed.
Print Assumptions cast_roundtrip_true.
Theorem cast_roundtrip_false : cast_string "False" = CBool false.
Proof. exact cast_false. Qed.
Print Assumptions cast_roundtrip_false.
(* plain text: whatever is not the spelling of none / a boolean / a number / a list comes back unchanged *)
Theorem cast_roundtrip_text : forall s,
  is_none s = false -> is_bool s = false -> isnumeric s = false -> is_float s = false -> is_list s = false -> cast_string s = CStr s.
Proof. exact cast_text_roundtrip. Qed.
Print Assumptions cast_roundtrip_text.
(* floats: a string with the shape of repr(float) is handed to float() *)
Theorem cast_roundtrip_float_partial : forall s,
  is_float s = true -> isnumeric s = false -> is_none s = false -> is_bool s = false -> cast_string s = CFloat s.
Proof. exact cast_float_roundtrip. Qed.
Print Assumptions cast_roundtrip_float_partial.
(* REFUTED: negative ints come back as floats; numeric / boolean / none-looking text changes type; tuples come back as text *)
Theorem cast_negative_int_refuted : cast_string "-5" = CFloat "-5".
Proof. exact cast_negative_int. Qed.
Print Assumptions cast_negative_int_refuted.
Theorem cast_numeric_text_refuted :
  cast_string "12" = CInt 12 /\ cast_string "1e5" = CFloat "1e5" /\ cast_string "true" = CBool true /\ cast_string "none" = CNone /\ cast_string "" = CNone.
Proof. exact cast_numeric_text. Qed.
Print Assumptions cast_numeric_text_refuted.
Theorem cast_tuple_refuted : cast_string "(1 2)" = CStr "(1 2)" /\ cast_string "[1 2]" = CList "[1 2]".
Proof. exact cast_tuple. Qed.
Print Assumptions cast_tuple_refuted.
Example float_grammar :
  map is_float ["1.5"; "-1.5e-07"; "1e+308"; "1e-320"; "inf"; "-Infinity"; "nan"; " 2.0 "; "5."; ".5"; "1_000.0"; "1e5"; "+4"]
  = [true; true; true; true; true; true; true; true; true; true; true; true; true] /\
  map is_float ["1__0"; "_1"; "1_"; "."; "e5"; "1e"; "0x10"; "1,5"; "1 2"; "abc"; "--1"; "1.5.2"; "infin"]
  = [false; false; false; false; false; false; false; false; false; false; false; false; false].
Proof. exact float_grammar_examples. Qed.
Print Assumptions float_grammar.
