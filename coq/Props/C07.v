(* C07 - CSV, Excel and AIF round trips preserve the isotherm.
   PARTIAL: the machine-checked part is the string codec shared by the CSV and AIF parsers (cast_string / _to_string,
   Codec/CastString.v, tied to the code by a 20 000-string differential run per check) and the isotherm dictionary the three
   writers start from (to_dict, Codec/JsonDoc.v, C06). The document containers (pandas to_csv/read_csv, xlwt/xlrd, gemmi) are
   oracles; the document-level round trips are validated on the implementation by the property oracle of ./check C07.
   Round 2: the CSV DOCUMENT is modelled (Codec/CsvDoc.v: writer lines, `_material_` flattening, markers, table with 8-decimal
   texts and 'ads'/'des' marks, model lines; reader with rstrip / split / ParsingError / cast_string / regrouping / table rows),
   tied to csv.py by a per-run comparison inside Coq (model document vs isotherm_to_csv line by line, model import vs the
   re-imported object). csv_roundtrip_*_partial: PARTIAL because (i) they stop at the constructor call (keyword dictionary, column
   names, rows; the constructors are the model of C06), (ii) the separator is one character, (iii) repr / float() / _from_list /
   pandas' cell reader enter through the value-domain premise item_ok / the result row_back (instances are proved for None,
   booleans, every non-negative int, plain text, and floats under the oracles' contract), (iv) pandas quoting is outside the
   modelled fragment.
   Round 3: the EXCEL DOCUMENT is modelled (Codec/XlDoc.v: the two worksheets as abstract cell grids, writer and reader; the cell
   tests of the reader's scanning loops, the guard of the header value and the field table are GENERATED from excel.py into
   Gen/XlGen.v), tied to excel.py by a per-run comparison inside Coq (the model's cells vs the cells xlrd reads from the file
   isotherm_to_xl wrote, cell by cell; the model's import vs the re-imported object). xl_*_partial: PARTIAL because they stop at
   the constructor call, take the library (xlwt + xlrd) through the explicit premise `store (VStr s) = Ok (XText s)` and the
   value-domain premises item_ok / pressure_ok (instances are proved for the library as it behaves: every number cell - 0, 0.0,
   denormals, NaN, infinities - keeps the row scan going; floats, booleans, None and non-empty text are in the 'otherdata' domain),
   and take pandas (dtype names, astype) as oracles inside row_back.
   The AIF DOCUMENT is modelled (Codec/AifDoc.v: the block as an abstract item list - pairs and loops -, writer and reader; gemmi is
   the identity on item lists whose values are single CIF tokens), tied to aif.py by a per-run comparison inside Coq (the model's
   items vs the items gemmi parses from the text isotherm_to_aif wrote, item by item; the model's import vs the re-imported object).
   aif_*_partial: the `_pygaps_` metadata pairs only (writer: appended in dictionary order; reader: read back as the dictionary for
   values in the domain cast_string(str(v).strip("'")) = v); the named tags, unit strings, loops and the model pairs are covered by
   the per-run comparison and by witnesses, not by a general theorem. *)
From Coq Require Import QArith ZArith NArith String List Bool Ascii.
From PG Require Import Lib.Py Codec.PyVal Codec.JsonDoc Codec.CastString Codec.CsvDoc.
Import ListNotations.
Open Scope string_scope.

(* every non-negative int, printed by str() and read by cast_string, is the same int (induction over decimal numerals) *)
Theorem cast_roundtrip_int : forall n : N, cast_string (print_nat n) = CInt n.
Proof. exact cast_int_roundtrip. Qed.
Print Assumptions cast_roundtrip_int.
(* None and the booleans *)
Theorem cast_roundtrip_none : cast_string "None" = CNone.
Proof. exact cast_none. Qed.
Print Assumptions cast_roundtrip_none.
Theorem cast_roundtrip_true : cast_string "True" = CBool true.
Proof. exact cast_true. Qed.
Print Assumptions cast_roundtrip_true.
Theorem cast_roundtrip_false : cast_string "False" = CBool false.
Proof. exact cast_false. Qed.
Print Assumptions cast_roundtrip_false.
(* plain text: whatever is not the spelling of none / a boolean / a number / a list comes back unchanged *)
Theorem cast_roundtrip_text : forall s,
  is_none s = false -> is_bool s = false -> isnumeric s = false -> is_float s = false -> is_list s = false -> cast_string s = CStr s.
Proof. exact cast_text_roundtrip. Qed.
Print Assumptions cast_roundtrip_text.
(* floats: a string with the shape of repr(float) is handed to float() *)
Theorem cast_roundtrip_float_partial : forall s,
  is_float s = true -> isnumeric s = false -> is_none s = false -> is_bool s = false -> cast_string s = CFloat s.
Proof. exact cast_float_roundtrip. Qed.
Print Assumptions cast_roundtrip_float_partial.
(* REFUTED: negative ints come back as floats; numeric / boolean / none-looking text changes type; tuples come back as text *)
Theorem cast_negative_int_refuted : cast_string "-5" = CFloat "-5".
Proof. exact cast_negative_int. Qed.
Print Assumptions cast_negative_int_refuted.
Theorem cast_numeric_text_refuted :
  cast_string "12" = CInt 12 /\ cast_string "1e5" = CFloat "1e5" /\ cast_string "true" = CBool true /\ cast_string "none" = CNone /\ cast_string "" = CNone.
Proof. exact cast_numeric_text. Qed.
Print Assumptions cast_numeric_text_refuted.
Theorem cast_tuple_refuted : cast_string "(1 2)" = CStr "(1 2)" /\ cast_string "[1 2]" = CList "[1 2]".
Proof. exact cast_tuple. Qed.
Print Assumptions cast_tuple_refuted.
Example float_grammar :
  map is_float ["1.5"; "-1.5e-07"; "1e+308"; "1e-320"; "inf"; "-Infinity"; "nan"; " 2.0 "; "5."; ".5"; "1_000.0"; "1e5"; "+4"]
  = [true; true; true; true; true; true; true; true; true; true; true; true; true] /\
  map is_float ["1__0"; "_1"; "1_"; "."; "e5"; "1e"; "0x10"; "1,5"; "1 2"; "abc"; "--1"; "1.5.2"; "infin"]
  = [false; false; false; false; false; false; false; false; false; false; false; false; false].
Proof. exact float_grammar_examples. Qed.
Print Assumptions float_grammar.

(* ================================================================ the CSV document (Codec/CsvDoc.v) *)
(* induction over the metadata list: the lines the writer produces for a dictionary whose keys are not blank-led / marker-spelled /
   separator-carrying and whose values are in the domain cast_string (_to_string v) = v are read back as that dictionary *)
Theorem csv_metadata_roundtrip_partial :
  forall (sep : ascii) (repr_float : Q -> string) (float_of : string -> pyval) (from_list : string -> res pyval),
  is_space sep = false -> has_char sep "data" = false -> has_char sep "model" = false ->
  forall (d : list (string * pyval)) (ls rest : list string) (acc : dict),
  Forall (item_ok sep repr_float float_of from_list) d -> meta_lines sep repr_float d = Ok ls ->
  read_meta sep float_of from_list (ls ++ rest)%list acc = read_meta sep float_of from_list rest (dict_update acc d).
Proof. exact read_meta_lines. Qed.
Print Assumptions csv_metadata_roundtrip_partial.
(* a value whose text contains the separator (after any number of good lines) is REFUSED with ParsingError, never changed *)
Theorem csv_refuses_separator_in_value :
  forall (sep : ascii) (repr_float : Q -> string) (float_of : string -> pyval) (from_list : string -> res pyval)
         (ads_canon : string -> string) (labels_ok : dict -> bool),
  is_space sep = false -> has_char sep "data" = false -> has_char sep "model" = false ->
  forall (d1 : list (string * pyval)) (k : string) (v : pyval) (d2 : list (string * pyval)) (t : string) (ls rest : list string),
  Forall (item_ok sep repr_float float_of from_list) d1 -> key_ok sep k = true ->
  to_string repr_float v = Ok t -> has_char sep t = true ->
  meta_lines sep repr_float (d1 ++ (k, v) :: d2)%list = Ok ls ->
  csv_import sep float_of from_list ads_canon labels_ok (ls ++ rest)%list = Err ParsingError.
Proof. exact refuses_separator_in_value. Qed.
Print Assumptions csv_refuses_separator_in_value.
(* induction over the row list: every written row is read back, in order, with its adsorption / desorption mark and with every
   cell text (the value rounded to 8 decimals, see cell_text) passed through the cell reader *)
Theorem csv_rows_roundtrip_partial :
  forall (sep : ascii) (float_of : string -> pyval), has_char sep "ads" = false -> has_char sep "des" = false ->
  forall (a b : string) (rest : list string) (rows : list row) (ls : list string),
  Forall (row_wf sep (a :: b :: rest)) rows -> mapM (row_line sep) rows = Ok ls ->
  read_rows sep float_of (a :: b :: "branch" :: rest) (ls ++ [""])%list = mapM (row_back sep float_of) rows.
Proof. exact read_rows_lines. Qed.
Print Assumptions csv_rows_roundtrip_partial.
(* the reader applied to the writer's document, up to the constructor call: metadata-only and point isotherms *)
Theorem csv_roundtrip_base_partial :
  forall (sep : ascii) (repr_float : Q -> string) (float_of : string -> pyval) (from_list : string -> res pyval),
  is_space sep = false -> has_char sep "data" = false -> has_char sep "model" = false ->
  forall (d : list (string * pyval)) (ml : list string),
  Forall (item_ok sep repr_float float_of from_list) d -> meta_lines sep repr_float d = Ok ml ->
  csv_parse sep float_of from_list (ml ++ [""])%list =
  bind (pop_version (dict_update [] d)) (fun raw => bind (regroup raw) (fun raw0 => Ok (raw0, SBase))).
Proof. exact csv_parse_base. Qed.
Print Assumptions csv_roundtrip_base_partial.
Theorem csv_roundtrip_partial :
  forall (sep : ascii) (repr_float : Q -> string) (float_of : string -> pyval) (from_list : string -> res pyval),
  is_space sep = false -> has_char sep "data" = false -> has_char sep "model" = false ->
  has_char sep "ads" = false -> has_char sep "des" = false -> has_char sep "branch" = false ->
  forall (d : list (string * pyval)) (ml : list string) (a b : string) (rest : list string) (rows : list row) (tl : list string),
  Forall (item_ok sep repr_float float_of from_list) d -> meta_lines sep repr_float d = Ok ml ->
  Forall (row_wf sep (a :: b :: rest)) rows -> forallb (plain_field sep) (a :: b :: rest) = true ->
  table_lines sep rows = Ok tl ->
  csv_parse sep float_of from_list (ml ++ data_marker :: tl ++ [""])%list =
  bind (pop_version (dict_update [] d)) (fun raw => bind (regroup raw) (fun raw0 =>
  bind (mapM (row_back sep float_of) rows) (fun rows' => Ok (raw0, SPoint a b rows')))).
Proof. exact csv_parse_point. Qed.
Print Assumptions csv_roundtrip_partial.
(* the value domain contains every non-negative int (induction over numerals, from cast_roundtrip_int), plain text, and floats
   under the contract of repr / float() *)
Theorem csv_value_domain_int : forall (repr_float : Q -> string) (float_of : string -> pyval) (from_list : string -> res pyval) (n : N),
  to_string repr_float (VInt (Z.of_N n)) = Ok (print_nat n) /\ cast float_of from_list (print_nat n) = Ok (VInt (Z.of_N n)).
Proof. exact castable_nat. Qed.
Print Assumptions csv_value_domain_int.
Theorem csv_value_domain_text : forall (repr_float : Q -> string) (float_of : string -> pyval) (from_list : string -> res pyval) (s : string),
  CastString.is_none s = false -> is_bool s = false -> isnumeric s = false -> is_float s = false -> is_list s = false ->
  to_string repr_float (VStr s) = Ok s /\ cast float_of from_list s = Ok (VStr s).
Proof. exact castable_text. Qed.
Print Assumptions csv_value_domain_text.
Theorem csv_value_domain_float_partial : forall (repr_float : Q -> string) (float_of : string -> pyval) (from_list : string -> res pyval) (q : Q),
  is_float (repr_float q) = true -> isnumeric (repr_float q) = false -> CastString.is_none (repr_float q) = false ->
  is_bool (repr_float q) = false -> float_of (repr_float q) = VFloat q ->
  to_string repr_float (VFloat q) = Ok (repr_float q) /\ cast float_of from_list (repr_float q) = Ok (VFloat q).
Proof. exact castable_float. Qed.
Print Assumptions csv_value_domain_float_partial.
Theorem csv_cell_int : forall (sep : ascii) (float_of : string -> pyval) (n : N),
  exists t : string, cell_text sep (VInt (Z.of_N n)) = Ok t /\ cell_of float_of t = VInt (Z.of_N n).
Proof. exact cell_nat. Qed.
Print Assumptions csv_cell_int.
(* the hypotheses are satisfiable: the default separator, a metadata list in the domain, its full round trip, a written table *)
Example csv_separator_comma : is_space comma = false /\ has_char comma "data" = false /\ has_char comma "model" = false /\
                 has_char comma "ads" = false /\ has_char comma "des" = false /\ has_char comma "branch" = false.
Proof. exact comma_ok. Qed.
Example csv_domain_inhabited : Forall (item_ok comma w_repr w_float_of w_from_list) w_csv_meta.
Proof. exact w_csv_meta_ok. Qed.
Example csv_witness_roundtrip :
  exists ml, meta_lines comma w_repr w_csv_meta = Ok ml /\
             csv_parse comma w_float_of w_from_list (ml ++ [""])%list = Ok (w_csv_meta, SBase).
Proof. exact w_csv_meta_roundtrip. Qed.
Example csv_witness_table : table_lines comma w_rows = Ok ["pressure,loading,branch,flag"; "0.5,3,ads,True"; "0.00123457,4,des,False"].
Proof. exact w_table. Qed.
(* REFUTED (silent changes, each replayed on the implementation by ./check C07): negative int -> float(); trailing blank stripped;
   a key spelled like a section marker ends the metadata; a material property key containing "_material_" is mangled (KeyError);
   the fit error of a model comes back as text *)
Theorem csv_negative_int_refuted : to_string w_repr (VInt (-5)) = Ok "-5" /\ cast w_float_of w_from_list "-5" = Ok (w_float_of "-5").
Proof. exact w_negative_int. Qed.
Print Assumptions csv_negative_int_refuted.
Theorem csv_trailing_blank_refuted :
  read_meta comma w_float_of w_from_list ["comment,trail "; ""] [] = Ok ([("comment", VStr "trail")], "", []).
Proof. exact w_trailing_blank. Qed.
Print Assumptions csv_trailing_blank_refuted.
Theorem csv_marker_key_refuted :
  read_meta comma w_float_of w_from_list ["k1,2"; "datafile,x1"; "k2,3"] [] = Ok ([("k1", VInt 2)], "datafile,x1", ["k2,3"]).
Proof. exact w_marker_key. Qed.
Print Assumptions csv_marker_key_refuted.
Theorem csv_material_key_refuted : regroup [("material", VStr "m"); ("_material_raw_material_id", VInt 7)] = Err KeyError.
Proof. exact w_material_key. Qed.
Print Assumptions csv_material_key_refuted.
Theorem csv_model_rmse_text_refuted :
  read_model comma w_float_of w_from_list ["name,Henry"; "rmse,0.5"; "pressure range,(0 1)"; "loading range,(0 2)"; "K,2.0"; ""]
  = Ok (SModel (VDict [("name", VStr "Henry"); ("rmse", VStr "0.5"); ("pressure_range", VStr "list:(0 1)");
                       ("loading_range", VStr "list:(0 2)"); ("parameters", VDict [("K", VStr "float:2.0")])])).
Proof. exact w_rmse_text. Qed.
Print Assumptions csv_model_rmse_text_refuted.

(* ================================================================ the Excel document (Codec/XlDoc.v, Gen/XlGen.v) *)
From PG Require Import Codec.XlCell Gen.XlGen Codec.XlDoc Codec.XlProofs.
(* the GENERATED cell tests of the reader: a NUMBER cell - whatever its value, in particular a pressure of exactly 0 - never ends the
   scan for the last data row, for the last model parameter, for the last header column or for the last 'otherdata' row *)
Theorem xl_number_cell_never_ends_a_scan : forall v : pyval, numeric v = true ->
  xl_data_stop (XNum v) = false /\ xl_param_stop (XNum v) = false /\ xl_col_stop (XNum v) = false /\ xl_other_stop (XNum v) = false.
Proof. exact number_never_stops. Qed.
Print Assumptions xl_number_cell_never_ends_a_scan.
(* the row scan counts every leading row whose first cell does not stop it *)
Theorem xl_row_scan : forall (stop : xcell -> bool) (drs rest : list (list xcell)),
  Forall (fun r : list xcell => stop (at_col 0 r) = false) drs ->
  scan_rows stop (drs ++ rest)%list = (length drs + scan_rows stop rest)%nat.
Proof. exact scan_rows_all. Qed.
Print Assumptions xl_row_scan.
(* induction over the metadata list: the rows of the 'otherdata' sheet written for a dictionary in the value domain are read back as
   that dictionary *)
Theorem xl_metadata_roundtrip_partial : forall store : pyval -> res xcell,
  (forall s : string, s <> "" -> store (VStr s) = Ok (XText s)) ->
  forall (d : list (string * pyval)) (rows rest : list (list xcell)) (acc : dict),
  Forall (item_ok store) d -> mapM (pair_row store) d = Ok rows ->
  read_other (rows ++ rest)%list acc = read_other rest (dict_update acc d).
Proof. exact read_other_rows. Qed.
Print Assumptions xl_metadata_roundtrip_partial.
(* induction over the parameter list of a model *)
Theorem xl_parameters_roundtrip_partial : forall store : pyval -> res xcell,
  (forall s : string, s <> "" -> store (VStr s) = Ok (XText s)) ->
  forall (ps : list (string * pyval)) (rows rest : list (list xcell)) (acc : dict),
  Forall (param_ok store) ps -> mapM (pair_row store) ps = Ok rows ->
  read_params (rows ++ rest)%list acc = read_params rest (dict_update acc ps).
Proof. exact read_params_rows. Qed.
Print Assumptions xl_parameters_roundtrip_partial.
(* induction over the row list: the reader's table on the sheet the writer produced gives back the column names and EVERY row, in
   order, with its adsorption / desorption mark and with every value through the library and the recorded dtype (row_back) *)
Theorem xl_rows_roundtrip_partial :
  forall (store : pyval -> res xcell) (dtype_of : string -> string) (astype1 : string -> pyval -> res pyval),
  (forall s : string, s <> "" -> store (VStr s) = Ok (XText s)) ->
  forall (pk lk : string) (r0 : row) (rs : list row) (hs : list (list xcell)) (tl : sheet),
  length hs = xl_type_row -> pk <> "" -> lk <> "" -> pk <> "branch" -> lk <> "branch" ->
  Forall (fun k : string => k <> "" /\ k <> "branch" /\ dtype_of k <> "") (other_keys pk lk r0) ->
  Forall (pressure_ok store pk) (r0 :: rs) ->
  point_rows store dtype_of pk lk (r0 :: rs) = Ok tl ->
  read_table astype1 (hs ++ tl)%list =
  bind (mapM (row_back store dtype_of astype1 pk lk (other_keys pk lk r0)) (r0 :: rs)) (fun rows' : list row => Ok (SPoint pk lk rows')).
Proof. exact read_table_written. Qed.
Print Assumptions xl_rows_roundtrip_partial.
(* the reader applied to the writer's workbook, up to the constructor call: metadata-only and point isotherms *)
Theorem xl_roundtrip_base_partial :
  forall (store : pyval -> res xcell) (literal : string -> res pyval) (astype1 : string -> pyval -> res pyval),
  (forall s : string, s <> "" -> store (VStr s) = Ok (XText s)) ->
  forall (d : dict) (hs os : sheet),
  header_rows store d = Ok hs -> other_rows store d = Ok os -> Forall (item_ok store) (other_items d) ->
  xl_parse literal astype1 ((hs ++ [[XText type_label; XText "metadata"]])%list, os) =
  bind (header_back store d) (fun hd : dict =>
  bind (xl_pop_version (dict_update (hd ++ [("isotherm_data", VStr "metadata")])%list (other_items d))) (fun raw : dict =>
  bind (regroup (ddel "iso_id" (ddel "isotherm_data" raw))) (fun raw0 : dict => Ok (raw0, SBase)))).
Proof. exact xl_parse_base. Qed.
Print Assumptions xl_roundtrip_base_partial.
Theorem xl_roundtrip_partial :
  forall (store : pyval -> res xcell) (dtype_of : string -> string) (literal : string -> res pyval) (astype1 : string -> pyval -> res pyval),
  (forall s : string, s <> "" -> store (VStr s) = Ok (XText s)) ->
  forall (d : dict) (hs os : sheet) (pk lk : string) (r0 : row) (rs : list row) (tl : sheet),
  header_rows store d = Ok hs -> other_rows store d = Ok os -> Forall (item_ok store) (other_items d) ->
  pk <> "" -> lk <> "" -> pk <> "branch" -> lk <> "branch" ->
  Forall (fun k : string => k <> "" /\ k <> "branch" /\ dtype_of k <> "") (other_keys pk lk r0) ->
  Forall (pressure_ok store pk) (r0 :: rs) ->
  point_rows store dtype_of pk lk (r0 :: rs) = Ok tl ->
  xl_parse literal astype1 ((hs ++ tl)%list, os) =
  bind (header_back store d) (fun hd : dict =>
  bind (mapM (row_back store dtype_of astype1 pk lk (other_keys pk lk r0)) (r0 :: rs)) (fun rows' : list row =>
  bind (xl_pop_version (dict_update (hd ++ [("isotherm_data", VStr "data")])%list (other_items d))) (fun raw : dict =>
  bind (regroup (ddel "iso_id" (ddel "isotherm_data" raw))) (fun raw0 : dict => Ok (raw0, SPoint pk lk rows'))))).
Proof. exact xl_parse_point. Qed.
Print Assumptions xl_roundtrip_partial.
(* the premises hold for the library as it behaves (xl_store is compared with xlwt + xlrd cell by cell on every run): non-empty text is
   stored as text; a row whose pressure is ANY number satisfies pressure_ok; floats / nan / inf / booleans / None / non-empty text
   are in the value domain of the 'otherdata' sheet; float parameters are in the domain of the model block *)
Theorem xl_library_text : forall (big : list (Z * Q)) (s : string), s <> "" -> xl_store big (VStr s) = Ok (XText s).
Proof. exact xl_store_text. Qed.
Print Assumptions xl_library_text.
Theorem xl_any_number_pressure_ok : forall (big : list (Z * Q)) (pk : string) (r : row),
  (forall v : pyval, dget pk (r_cells r) = Some v -> is_number v = true) -> pressure_ok (xl_store big) pk r.
Proof. exact xl_pressure_number_ok. Qed.
Print Assumptions xl_any_number_pressure_ok.
Theorem xl_value_domain : forall (big : list (Z * Q)) (k : string) (v : pyval), k <> "" -> xl_scalar v = true -> item_ok (xl_store big) (k, v).
Proof. exact xl_item_ok. Qed.
Print Assumptions xl_value_domain.
Theorem xl_parameter_domain : forall (big : list (Z * Q)) (k : string) (q : Q), k <> "" -> param_ok (xl_store big) (k, VFloat q).
Proof. exact xl_param_ok. Qed.
Print Assumptions xl_parameter_domain.
(* the hypotheses are satisfiable: the generated layout is the one the writer model assumes; a table that goes back to vacuum (pressure
   exactly 0 in the first, a middle and the last row) with falsy metadata (0.0, False) is written and read back completely *)
Example xl_layout_canonical : fields_canonical = true.
Proof. exact canonical. Qed.
Example xl_witness_zero_pressure :
  exists (wb : sheet * sheet) (raw : dict),
    xl_book (xl_store []) w_dtype w_str w_xl_iso = Ok wb /\
    xl_parse w_lit xl_astype1 wb = Ok (raw, SPoint "pressure" "loading" w_xl_rows) /\
    dget "leak" raw = Some (VFloat 0) /\ dget "checked" raw = Some (VBool false) /\ dget "temperature" raw = Some (VFloat 77).
Proof. exact w_xl_zero_pressure. Qed.
Example xl_witness_rows_ok : Forall (pressure_ok (xl_store []) "pressure") w_xl_rows.
Proof. exact w_xl_rows_ok. Qed.
(* REFUTED (silent changes, replayed on the implementation by ./check C07): an int comes back as a float; an empty text comes back as
   None; a falsy header value (temperature 0) is not written and is read as None (the import is then refused) *)
Theorem xl_int_becomes_float_refuted : exists c : xcell, xl_store [] (VInt 7) = Ok c /\ other_value c = VFloat 7 /\ cell_value c = VFloat 7.
Proof. exact xl_int_becomes_float. Qed.
Print Assumptions xl_int_becomes_float_refuted.
Theorem xl_empty_text_becomes_none_refuted : exists c : xcell, xl_store [] (VStr "") = Ok c /\ other_value c = VNone.
Proof. exact xl_empty_text_becomes_none. Qed.
Print Assumptions xl_empty_text_becomes_none_refuted.
Theorem xl_zero_temperature_dropped_refuted :
  header_cell (xl_store []) [("temperature", VFloat 0)] ("temperature", "Experiment temperature (K)", 1%nat, 0%nat) = Ok XEmpty /\ header_value XEmpty = VNone.
Proof. exact xl_zero_temperature_dropped. Qed.
Print Assumptions xl_zero_temperature_dropped_refuted.

(* ================================================================ the AIF document (Codec/AifDoc.v) *)
From PG Require Import Codec.AifDoc Codec.AifProofs.
(* val.strip("'") undoes the quoting of a text that neither begins nor ends with a quote *)
Theorem aif_strip_undoes_quote : forall t : string, first_not_q t = true -> last_not_q t = true -> strip_q (quote t) = t.
Proof. exact strip_quote. Qed.
Print Assumptions aif_strip_undoes_quote.
(* induction over the metadata list: the `_pygaps_<key> '<str(value)>'` pairs of a dictionary in the value domain are read back as that
   dictionary, whatever items follow and whatever was read before *)
Theorem aif_metadata_roundtrip_partial :
  forall (repr_float : Q -> string) (float_of : string -> pyval) (from_list : string -> res pyval) (to_numeric : list string -> list pyval)
         (d : list (string * pyval)) (ps rest : list item) (st : rstate),
  Forall (aif_item_ok repr_float float_of from_list) d -> mapM (meta_item repr_float) d = Ok ps ->
  read_items float_of from_list to_numeric (ps ++ rest)%list st =
  read_items float_of from_list to_numeric rest (with_raw st (dict_update (st_raw st) d)).
Proof. exact read_meta_pairs. Qed.
Print Assumptions aif_metadata_roundtrip_partial.
(* the writer appends exactly these pairs, in dictionary order, when the keys have no blank, are distinct and their tags are new *)
Theorem aif_metadata_written_partial : forall (repr_float : Q -> string) (d : list (string * pyval)) (items ps : list item),
  Forall (fun kv : string * pyval => no_space (fst kv) = true) d -> nodup_keys d = true ->
  forallb (fun k : string => negb (mem ("_pygaps_" ++ k) (pair_tags items))) (keys d) = true ->
  mapM (meta_item repr_float) d = Ok ps -> meta_pairs repr_float d items = Ok (items ++ ps)%list.
Proof. exact meta_pairs_appended. Qed.
Print Assumptions aif_metadata_written_partial.
(* the value domain: every non-negative int (induction over numerals), booleans, None, plain text without outer quotes, floats under
   the contract of repr / float() *)
Theorem aif_value_domain_int : forall (repr_float : Q -> string) (float_of : string -> pyval) (from_list : string -> res pyval) (k : string) (n : N),
  aif_item_ok repr_float float_of from_list (k, VInt (Z.of_N n)).
Proof. exact aif_item_nat. Qed.
Print Assumptions aif_value_domain_int.
Theorem aif_value_domain_bool_none : forall (repr_float : Q -> string) (float_of : string -> pyval) (from_list : string -> res pyval) (k : string),
  (forall b : bool, aif_item_ok repr_float float_of from_list (k, VBool b)) /\ aif_item_ok repr_float float_of from_list (k, VNone).
Proof. exact aif_item_bool_none. Qed.
Print Assumptions aif_value_domain_bool_none.
Theorem aif_value_domain_text : forall (repr_float : Q -> string) (float_of : string -> pyval) (from_list : string -> res pyval) (k s : string),
  first_not_q s = true -> last_not_q s = true ->
  CastString.is_none s = false -> is_bool s = false -> isnumeric s = false -> is_float s = false -> is_list s = false ->
  aif_item_ok repr_float float_of from_list (k, VStr s).
Proof. exact aif_item_text. Qed.
Print Assumptions aif_value_domain_text.
Theorem aif_value_domain_float_partial : forall (repr_float : Q -> string) (float_of : string -> pyval) (from_list : string -> res pyval) (k : string) (q : Q),
  first_not_q (repr_float q) = true -> last_not_q (repr_float q) = true ->
  is_float (repr_float q) = true -> isnumeric (repr_float q) = false -> CastString.is_none (repr_float q) = false ->
  is_bool (repr_float q) = false -> float_of (repr_float q) = VFloat q ->
  aif_item_ok repr_float float_of from_list (k, VFloat q).
Proof. exact aif_item_float. Qed.
Print Assumptions aif_value_domain_float_partial.
(* witness: a table that starts and ends at a pressure of exactly 0, with falsy metadata (0.0, False, 0), is written and read back *)
Example aif_witness_zero_roundtrip :
  exists (items : list item) (raw : dict),
    aif_items w_arepr (w_aif_iso w_aif_rows) = Ok items /\
    aif_parse w_afloat w_alist w_anum items = Ok (raw, SPoint "pressure" "loading" w_aif_rows) /\
    dget "leak" raw = Some (VFloat 0) /\ dget "checked" raw = Some (VBool false) /\ dget "count" raw = Some (VInt 0) /\
    dget "temperature" raw = Some (VFloat 77).
Proof. exact w_aif_zero_roundtrip. Qed.
(* REFUTED (silent changes, replayed on the implementation by ./check C07): desorption-marked points that are not all after the
   adsorption-marked ones come back re-ordered; outer quotes of a text are lost; a negative int is read through float() *)
Theorem aif_interleaved_marks_refuted :
  exists (items : list item) (raw : dict),
    aif_items w_arepr (w_aif_iso w_aif_interleaved) = Ok items /\
    aif_parse w_afloat w_alist w_anum items = Ok (raw, SPoint "pressure" "loading" [w_arow 0 0 false; w_arow (1 # 2) 2 false; w_arow 2 2 true]).
Proof. exact w_aif_regrouped. Qed.
Print Assumptions aif_interleaved_marks_refuted.
Theorem aif_outer_quotes_refuted : strip_q (quote "'quoted'") = "quoted".
Proof. exact w_aif_quotes_lost. Qed.
Print Assumptions aif_outer_quotes_refuted.
Theorem aif_negative_int_refuted : fstr w_arepr (VInt (-5)) = Ok "-5" /\ AifDoc.cast w_afloat w_alist (strip_q (quote "-5")) = Ok (w_afloat "-5").
Proof. exact w_aif_negative_int. Qed.
Print Assumptions aif_negative_int_refuted.
