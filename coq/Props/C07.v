(* C07 - CSV, Excel and AIF round trips preserve the isotherm.
   PARTIAL: the machine-checked part is the string codec shared by the CSV and AIF parsers (cast_string / _to_string,
   Codec/CastString.v, tied to the code by a 20 000-string differential run per check) and the isotherm dictionary the three
   writers start from (to_dict, Codec/JsonDoc.v, C06). The document containers (pandas to_csv/read_csv, xlwt/xlrd, gemmi) are
   oracles; the document-level round trips are validated on the implementation by the property oracle of ./check C07.
   Round 2: the CSV DOCUMENT is modelled (Codec/CsvDoc.v: writer lines, `_material_` flattening, markers, table with 8-decimal
   texts and 'ads'/'des' marks, model lines; reader with rstrip / split / ParsingError / cast_string / regrouping / table rows),
   tied to csv.py by a per-run comparison inside Coq (model document vs isotherm_to_csv line by line, model import vs the
   re-imported object). csv_roundtrip_*_partial: PARTIAL because (i) they stop at the constructor call (keyword dictionary, column
   names, rows; the constructors are the model of C06), (ii) the separator is one character, (iii) repr / float() / _from_list /
   pandas' cell reader enter through the value-domain premise item_ok / the result row_back (instances are proved for None,
   booleans, every non-negative int, plain text, and floats under the oracles' contract), (iv) pandas quoting is outside the
   modelled fragment. *)
From Coq Require Import QArith ZArith NArith String List Bool Ascii.
From PG Require Import Lib.Py Codec.PyVal Codec.JsonDoc Codec.CastString Codec.CsvDoc.
Import ListNotations.
Open Scope string_scope.

(* every non-negative int, printed by str() and read by cast_string, is the same int (induction over decimal numerals) *)
Theorem cast_roundtrip_int : forall n : N, cast_string (print_nat n) = CInt n.
Proof. exact cast_int_roundtrip. Qed.
Print Assumptions cast_roundtrip_int.
(* None and the booleans *)
Theorem cast_roundtrip_none : cast_string "None" = CNone.
Proof. exact cast_none. Qed.
Print Assumptions cast_roundtrip_none.
Theorem cast_roundtrip_true : cast_string "True" = CBool true.
Proof. exact cast_true. Qed.
Print Assumptions cast_roundtrip_true.
Theorem cast_roundtrip_false : cast_string "False" = CBool false.
Proof. exact cast_false. Qed.
Print Assumptions cast_roundtrip_false.
(* plain text: whatever is not the spelling of none / a boolean / a number / a list comes back unchanged *)
Theorem cast_roundtrip_text : forall s,
  is_none s = false -> is_bool s = false -> isnumeric s = false -> is_float s = false -> is_list s = false -> cast_string s = CStr s.
Proof. exact cast_text_roundtrip. Qed.
Print Assumptions cast_roundtrip_text.
(* floats: a string with the shape of repr(float) is handed to float() *)
Theorem cast_roundtrip_float_partial : forall s,
  is_float s = true -> isnumeric s = false -> is_none s = false -> is_bool s = false -> cast_string s = CFloat s.
Proof. exact cast_float_roundtrip. Qed.
Print Assumptions cast_roundtrip_float_partial.
(* REFUTED: negative ints come back as floats; numeric / boolean / none-looking text changes type; tuples come back as text *)
Theorem cast_negative_int_refuted : cast_string "-5" = CFloat "-5".
Proof. exact cast_negative_int. Qed.
Print Assumptions cast_negative_int_refuted.
Theorem cast_numeric_text_refuted :
  cast_string "12" = CInt 12 /\ cast_string "1e5" = CFloat "1e5" /\ cast_string "true" = CBool true /\ cast_string "none" = CNone /\ cast_string "" = CNone.
Proof. exact cast_numeric_text. Qed.
Print Assumptions cast_numeric_text_refuted.
Theorem cast_tuple_refuted : cast_string "(1 2)" = CStr "(1 2)" /\ cast_string "[1 2]" = CList "[1 2]".
Proof. exact cast_tuple. Qed.
Print Assumptions cast_tuple_refuted.
Example float_grammar :
  map is_float ["1.5"; "-1.5e-07"; "1e+308"; "1e-320"; "inf"; "-Infinity"; "nan"; " 2.0 "; "5."; ".5"; "1_000.0"; "1e5"; "+4"]
  = [true; true; true; true; true; true; true; true; true; true; true; true; true] /\
  map is_float ["1__0"; "_1"; "1_"; "."; "e5"; "1e"; "0x10"; "1,5"; "1 2"; "abc"; "--1"; "1.5.2"; "infin"]
  = [false; false; false; false; false; false; false; false; false; false; false; false; false].
Proof. exact float_grammar_examples. Qed.
Print Assumptions float_grammar.

(* ================================================================ the CSV document (Codec/CsvDoc.v) *)
(* induction over the metadata list: the lines the writer produces for a dictionary whose keys are not blank-led / marker-spelled /
   separator-carrying and whose values are in the domain cast_string (_to_string v) = v are read back as that dictionary *)
Theorem csv_metadata_roundtrip_partial :
  forall (sep : ascii) (repr_float : Q -> string) (float_of : string -> pyval) (from_list : string -> res pyval),
  is_space sep = false -> has_char sep "data" = false -> has_char sep "model" = false ->
  forall (d : list (string * pyval)) (ls rest : list string) (acc : dict),
  Forall (item_ok sep repr_float float_of from_list) d -> meta_lines sep repr_float d = Ok ls ->
  read_meta sep float_of from_list (ls ++ rest)%list acc = read_meta sep float_of from_list rest (dict_update acc d).
Proof. exact read_meta_lines. Qed.
Print Assumptions csv_metadata_roundtrip_partial.
(* a value whose text contains the separator (after any number of good lines) is REFUSED with ParsingError, never changed *)
Theorem csv_refuses_separator_in_value :
  forall (sep : ascii) (repr_float : Q -> string) (float_of : string -> pyval) (from_list : string -> res pyval)
         (ads_canon : string -> string) (labels_ok : dict -> bool),
  is_space sep = false -> has_char sep "data" = false -> has_char sep "model" = false ->
  forall (d1 : list (string * pyval)) (k : string) (v : pyval) (d2 : list (string * pyval)) (t : string) (ls rest : list string),
  Forall (item_ok sep repr_float float_of from_list) d1 -> key_ok sep k = true ->
  to_string repr_float v = Ok t -> has_char sep t = true ->
  meta_lines sep repr_float (d1 ++ (k, v) :: d2)%list = Ok ls ->
  csv_import sep float_of from_list ads_canon labels_ok (ls ++ rest)%list = Err ParsingError.
Proof. exact refuses_separator_in_value. Qed.
Print Assumptions csv_refuses_separator_in_value.
(* induction over the row list: every written row is read back, in order, with its adsorption / desorption mark and with every
   cell text (the value rounded to 8 decimals, see cell_text) passed through the cell reader *)
Theorem csv_rows_roundtrip_partial :
  forall (sep : ascii) (float_of : string -> pyval), has_char sep "ads" = false -> has_char sep "des" = false ->
  forall (a b : string) (rest : list string) (rows : list row) (ls : list string),
  Forall (row_wf sep (a :: b :: rest)) rows -> mapM (row_line sep) rows = Ok ls ->
  read_rows sep float_of (a :: b :: "branch" :: rest) (ls ++ [""])%list = mapM (row_back sep float_of) rows.
Proof. exact read_rows_lines. Qed.
Print Assumptions csv_rows_roundtrip_partial.
(* the reader applied to the writer's document, up to the constructor call: metadata-only and point isotherms *)
Theorem csv_roundtrip_base_partial :
  forall (sep : ascii) (repr_float : Q -> string) (float_of : string -> pyval) (from_list : string -> res pyval),
  is_space sep = false -> has_char sep "data" = false -> has_char sep "model" = false ->
  forall (d : list (string * pyval)) (ml : list string),
  Forall (item_ok sep repr_float float_of from_list) d -> meta_lines sep repr_float d = Ok ml ->
  csv_parse sep float_of from_list (ml ++ [""])%list =
  bind (pop_version (dict_update [] d)) (fun raw => bind (regroup raw) (fun raw0 => Ok (raw0, SBase))).
Proof. exact csv_parse_base. Qed.
Print Assumptions csv_roundtrip_base_partial.
Theorem csv_roundtrip_partial :
  forall (sep : ascii) (repr_float : Q -> string) (float_of : string -> pyval) (from_list : string -> res pyval),
  is_space sep = false -> has_char sep "data" = false -> has_char sep "model" = false ->
  has_char sep "ads" = false -> has_char sep "des" = false -> has_char sep "branch" = false ->
  forall (d : list (string * pyval)) (ml : list string) (a b : string) (rest : list string) (rows : list row) (tl : list string),
  Forall (item_ok sep repr_float float_of from_list) d -> meta_lines sep repr_float d = Ok ml ->
  Forall (row_wf sep (a :: b :: rest)) rows -> forallb (plain_field sep) (a :: b :: rest) = true ->
  table_lines sep rows = Ok tl ->
  csv_parse sep float_of from_list (ml ++ data_marker :: tl ++ [""])%list =
  bind (pop_version (dict_update [] d)) (fun raw => bind (regroup raw) (fun raw0 =>
  bind (mapM (row_back sep float_of) rows) (fun rows' => Ok (raw0, SPoint a b rows')))).
Proof. exact csv_parse_point. Qed.
Print Assumptions csv_roundtrip_partial.
(* the value domain contains every non-negative int (induction over numerals, from cast_roundtrip_int), plain text, and floats
   under the contract of repr / float() *)
Theorem csv_value_domain_int : forall (repr_float : Q -> string) (float_of : string -> pyval) (from_list : string -> res pyval) (n : N),
  to_string repr_float (VInt (Z.of_N n)) = Ok (print_nat n) /\ cast float_of from_list (print_nat n) = Ok (VInt (Z.of_N n)).
Proof. exact castable_nat. Qed.
Print Assumptions csv_value_domain_int.
Theorem csv_value_domain_text : forall (repr_float : Q -> string) (float_of : string -> pyval) (from_list : string -> res pyval) (s : string),
  CastString.is_none s = false -> is_bool s = false -> isnumeric s = false -> is_float s = false -> is_list s = false ->
  to_string repr_float (VStr s) = Ok s /\ cast float_of from_list s = Ok (VStr s).
Proof. exact castable_text. Qed.
Print Assumptions csv_value_domain_text.
Theorem csv_value_domain_float_partial : forall (repr_float : Q -> string) (float_of : string -> pyval) (from_list : string -> res pyval) (q : Q),
  is_float (repr_float q) = true -> isnumeric (repr_float q) = false -> CastString.is_none (repr_float q) = false ->
  is_bool (repr_float q) = false -> float_of (repr_float q) = VFloat q ->
  to_string repr_float (VFloat q) = Ok (repr_float q) /\ cast float_of from_list (repr_float q) = Ok (VFloat q).
Proof. exact castable_float. Qed.
Print Assumptions csv_value_domain_float_partial.
Theorem csv_cell_int : forall (sep : ascii) (float_of : string -> pyval) (n : N),
  exists t : string, cell_text sep (VInt (Z.of_N n)) = Ok t /\ cell_of float_of t = VInt (Z.of_N n).
Proof. exact cell_nat. Qed.
Print Assumptions csv_cell_int.
(* the hypotheses are satisfiable: the default separator, a metadata list in the domain, its full round trip, a written table *)
Example csv_separator_comma : is_space comma = false /\ has_char comma "data" = false /\ has_char comma "model" = false /\
                 has_char comma "ads" = false /\ has_char comma "des" = false /\ has_char comma "branch" = false.
Proof. exact comma_ok. Qed.
Example csv_domain_inhabited : Forall (item_ok comma w_repr w_float_of w_from_list) w_csv_meta.
Proof. exact w_csv_meta_ok. Qed.
Example csv_witness_roundtrip :
  exists ml, meta_lines comma w_repr w_csv_meta = Ok ml /\
             csv_parse comma w_float_of w_from_list (ml ++ [""])%list = Ok (w_csv_meta, SBase).
Proof. exact w_csv_meta_roundtrip. Qed.
Example csv_witness_table : table_lines comma w_rows = Ok ["pressure,loading,branch,flag"; "0.5,3,ads,True"; "0.00123457,4,des,False"].
Proof. exact w_table. Qed.
(* REFUTED (silent changes, each replayed on the implementation by ./check C07): negative int -> float(); trailing blank stripped;
   a key spelled like a section marker ends the metadata; a material property key containing "_material_" is mangled (KeyError);
   the fit error of a model comes back as text *)
Theorem csv_negative_int_refuted : to_string w_repr (VInt (-5)) = Ok "-5" /\ cast w_float_of w_from_list "-5" = Ok (w_float_of "-5").
Proof. exact w_negative_int. Qed.
Print Assumptions csv_negative_int_refuted.
Theorem csv_trailing_blank_refuted :
  read_meta comma w_float_of w_from_list ["comment,trail "; ""] [] = Ok ([("comment", VStr "trail")], "", []).
Proof. exact w_trailing_blank. Qed.
Print Assumptions csv_trailing_blank_refuted.
Theorem csv_marker_key_refuted :
  read_meta comma w_float_of w_from_list ["k1,2"; "datafile,x1"; "k2,3"] [] = Ok ([("k1", VInt 2)], "datafile,x1", ["k2,3"]).
Proof. exact w_marker_key. Qed.
Print Assumptions csv_marker_key_refuted.
Theorem csv_material_key_refuted : regroup [("material", VStr "m"); ("_material_raw_material_id", VInt 7)] = Err KeyError.
Proof. exact w_material_key. Qed.
Print Assumptions csv_material_key_refuted.
Theorem csv_model_rmse_text_refuted :
  read_model comma w_float_of w_from_list ["name,Henry"; "rmse,0.5"; "pressure range,(0 1)"; "loading range,(0 2)"; "K,2.0"; ""]
  = Ok (SModel (VDict [("name", VStr "Henry"); ("rmse", VStr "0.5"); ("pressure_range", VStr "list:(0 1)");
                       ("loading_range", VStr "list:(0 2)"); ("parameters", VDict [("K", VStr "float:2.0")])])).
Proof. exact w_rmse_text. Qed.
Print Assumptions csv_model_rmse_text_refuted.
