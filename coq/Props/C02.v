(* C02 - Permanent isotherm conversions stay consistent over any conversion history.
   convert / convert_pressure / convert_loading / convert_material / convert_temperature below are the
   GENERATED translation (Gen/IsoGen.v) of the methods of pointisotherm.py / baseisotherm.py; they call the
   generated converters of C01. Property theorems only, each closed by `exact` + Print Assumptions. *)
From Coq Require Import Reals Lra QArith ZArith String List Bool.
From PG Require Import Lib.Num Lib.Py Gen.UnitsGen1 Units.AdsOracle Gen.UnitsGen2 Units.UnitsSpec Units.LoadingPhys Units.C01Theorems
  Iso.IsoState Gen.IsoGen Iso.IsoSpec Iso.ConvPressure Iso.ConvLoading Iso.ConvMaterial Iso.ConvMaterialFrac Iso.C02Theorems.
Import ListNotations.
Open Scope R_scope.

(* single steps on a well-labelled state: new labels = the requested representation, data = old data times the SI factor,
   nothing else touched (branch marks, the other column, adsorbate, material); caches reset *)
Theorem pressure_step : forall (a : adsorbate RNum) psat T tk rl rm m cp cl cb li pi vb (rp rp' : prep),
  a_psat_Pa a (Some (kelvin_of tk T)) = Some psat -> 0 < psat -> kelvin_of tk T <> 0 ->
  convert_pressure RNum (mk_state rp rl rm tk T a m cp cl cb li pi) (p_mode rp') (p_unit rp') vb
  = SOk (if prep_eqb rp' rp then mk_state rp rl rm tk T a m cp cl cb li pi
         else mk_state rp' rl rm tk T a m
                (map (spec_conv (p_canon psat rp) (p_canon psat rp')) cp) cl cb None None).
Proof. exact convert_pressure_step. Qed.
Print Assumptions pressure_step.
Theorem loading_step : forall (a : adsorbate RNum) M rml rmg T tk rp rm m cp cl cb li pi vb (rl rl' : lrep),
  ads_at a (Some (kelvin_of tk T)) M rml rmg -> 0 < M -> 0 < rml -> 0 < rmg ->
  convert_loading RNum (mk_state rp rl rm tk T a m cp cl cb li pi) (l_basis rl') (l_unit rl') vb
  = SOk (if lrep_eqb rl' rl then mk_state rp rl rm tk T a m cp cl cb li pi
         else mk_state rp rl' rm tk T a m cp
                (map (spec_conv (l_canon M rml rmg rm rl) (l_canon M rml rmg rm rl')) cl) cb None None).
Proof. exact convert_loading_step. Qed.
Print Assumptions loading_step.
Theorem material_step_physical_loading : forall (a : adsorbate RNum) dens mm T tk rp cp cl cb li pi vb (rl : lrep) (rm rm' : mrep),
  0 < dens -> 0 < mm -> l_is_phys rl = true ->
  convert_material RNum (mk_state rp rl rm tk T a (mat_full dens mm) cp cl cb li pi) (m_basis rm') (m_unit rm') vb
  = SOk (if mrep_eqb rm' rm then mk_state rp rl rm tk T a (mat_full dens mm) cp cl cb li pi
         else mk_state rp rl rm' tk T a (mat_full dens mm) cp
                (map (spec_conv (m_canon dens mm rm') (m_canon dens mm rm)) cl) cb None None).
Proof. exact convert_material_step_phys. Qed.
Print Assumptions material_step_physical_loading.
Theorem material_step_fraction_loading : forall (a : adsorbate RNum) M rml rmg dens mm T tk rp cp cl cb li pi vb (rl : lrep) (rm rm' : mrep),
  ads_at a (Some (kelvin_of tk T)) M rml rmg -> 0 < dens -> 0 < mm -> 0 < M -> 0 < rml -> 0 < rmg -> l_is_phys rl = false ->
  convert_material RNum (mk_state rp rl rm tk T a (mat_full dens mm) cp cl cb li pi) (m_basis rm') (m_unit rm') vb
  = SOk (if mrep_eqb rm' rm then mk_state rp rl rm tk T a (mat_full dens mm) cp cl cb li pi
         else if same_mbasis rm' rm then mk_state rp rl rm' tk T a (mat_full dens mm) cp cl cb li pi
         else mk_state rp rl rm' tk T a (mat_full dens mm) cp
                (map (spec_conv (l_canon_phys M rml rmg (l_of_m rm)) (l_canon_phys M rml rmg (l_of_m rm')))
                   (map (spec_conv (m_canon dens mm rm') (m_canon dens mm rm)) cl)) cb None None).
Proof. exact convert_material_step_frac. Qed.
Print Assumptions material_step_fraction_loading.

(* a refused single-quantity conversion changes nothing: for ALL states and ALL argument strings *)
Theorem refused_pressure_conversion_changes_nothing : forall (s : iso RNum) m u vb e,
  outcome (convert_pressure RNum s m u vb) = Some e -> state_after (convert_pressure RNum s m u vb) = s.
Proof. exact convert_pressure_refusal_changes_nothing. Qed.
Print Assumptions refused_pressure_conversion_changes_nothing.
Theorem refused_loading_conversion_changes_nothing : forall (s : iso RNum) b u vb e,
  outcome (convert_loading RNum s b u vb) = Some e -> state_after (convert_loading RNum s b u vb) = s.
Proof. exact convert_loading_refusal_changes_nothing. Qed.
Print Assumptions refused_loading_conversion_changes_nothing.
(* repaired by "fix: convert_material in fraction/percent mode assigns the converted loading once" *)
Theorem refused_material_conversion_changes_nothing : forall (s : iso RNum) b u vb e,
  outcome (convert_material RNum s b u vb) = Some e -> state_after (convert_material RNum s b u vb) = s.
Proof. exact convert_material_refusal_changes_nothing. Qed.
Print Assumptions refused_material_conversion_changes_nothing.
Theorem refused_temperature_conversion_changes_nothing : forall (s : iso RNum) u vb e,
  outcome (convert_temperature RNum s u vb) = Some e -> state_after (convert_temperature RNum s u vb) = s.
Proof. exact convert_temperature_refusal_changes_nothing. Qed.
Print Assumptions refused_temperature_conversion_changes_nothing.

(* the combined conversion is pressure; material; loading, stopping at the first refusal with the earlier steps kept *)
Theorem combined_conversion_is_sequence : forall (s : iso RNum) pm pu lb lu mb mu vb,
  convert RNum s pm pu lb lu mb mu vb =
  mbind (if ostr_truthy pm || ostr_truthy pu then convert_pressure RNum s pm pu vb else SOk s) (fun s1 =>
  mbind (if ostr_truthy mb || ostr_truthy mu then convert_material RNum s1 mb mu vb else SOk s1) (fun s2 =>
        (if ostr_truthy lb || ostr_truthy lu then convert_loading RNum s2 lb lu vb else SOk s2))).
Proof. exact convert_is_sequence. Qed.
Print Assumptions combined_conversion_is_sequence.

(* histories of calls that name a representation (mode+unit / basis+unit / temperature unit K or degC):
   partial with respect to the property's quantifier, which also admits calls omitting the unit - see the refuted items *)
Theorem history_direct_partial : forall psat M rml rmg dens mm TK,
  0 < psat -> 0 < M -> 0 < rml -> 0 < rmg -> 0 < dens -> 0 < mm -> TK <> 0 ->
  forall (r0 : rs) (cp0 cl0 : list R) (cb : list bool) (a : adsorbate RNum), ads_full_at a TK psat M rml rmg ->
  forall (T : R) (li pi : option (cache RNum)) (ops : list op),
  kelvin_of (r_k r0) T = TK ->
  let s0 := mk_state (r_p r0) (r_l r0) (r_m r0) (r_k r0) T a (mat_full dens mm) cp0 cl0 cb li pi in
  all_ok s0 ops /\
  Rep psat M rml rmg dens mm TK r0 cp0 cl0 cb a (fold_left rs_step ops r0) (run_ops s0 ops) /\
  valid_labels (run_ops s0 ops) = true.
Proof. exact history_direct. Qed.
Print Assumptions history_direct_partial.
Theorem history_back_restores_partial : forall psat M rml rmg dens mm TK,
  0 < psat -> 0 < M -> 0 < rml -> 0 < rmg -> 0 < dens -> 0 < mm -> TK <> 0 ->
  forall (r0 : rs) (cp0 cl0 : list R) (cb : list bool) (a : adsorbate RNum), ads_full_at a TK psat M rml rmg ->
  forall (T : R) (li pi : option (cache RNum)) (ops : list op),
  kelvin_of (r_k r0) T = TK ->
  let s0 := mk_state (r_p r0) (r_l r0) (r_m r0) (r_k r0) T a (mat_full dens mm) cp0 cl0 cb li pi in
  let back := [OpP (r_p r0); OpM (r_m r0); OpL (r_l r0); OpT (r_k r0)] in
  col_p (run_ops s0 (ops ++ back)%list) = cp0 /\ col_l (run_ops s0 (ops ++ back)%list) = cl0
  /\ col_branch (run_ops s0 (ops ++ back)%list) = cb.
Proof. exact history_back_restores. Qed.
Print Assumptions history_back_restores_partial.

(* calls that omit the unit while keeping (or omitting) the mode / basis: a no-op for ALL states
   (repaired in /repo by "fix: omitting the unit ..."; before the fix the unit label became None) *)
Theorem omitted_unit_with_unchanged_basis_is_noop : forall (s : iso RNum) vb,
  (forall m, m = None \/ m = pressure_mode s -> ostr_truthy (pressure_mode s) = true -> convert_pressure RNum s m None vb = SOk s)
  /\ (forall b, b = None \/ b = loading_basis s -> ostr_truthy (loading_basis s) = true -> convert_loading RNum s b None vb = SOk s)
  /\ (forall b, b = None \/ b = material_basis s -> ostr_truthy (material_basis s) = true -> convert_material RNum s b None vb = SOk s).
Proof. exact omitted_unit_is_noop. Qed.
Print Assumptions omitted_unit_with_unchanged_basis_is_noop.
(* repaired by "fix: convert_temperature stores the normalised unit label" *)
Theorem temperature_label_is_normalised : forall (s : iso RNum) u vb s',
  is_celsius u = true -> convert_temperature RNum s (Some u) vb = SOk s' -> temperature_unit s' = Some "°C"%string.
Proof. exact temperature_label_normalised. Qed.
Print Assumptions temperature_label_is_normalised.

Example history_hypotheses_satisfiable :
  0 < 101325 /\ 0 < 28 /\ 0 < 0.03 /\ 0 < 0.0002 /\ 0 < 2 /\ 0 < 60 /\ kelvin_of true 77 <> 0
  /\ fold_left rs_step [OpP PRel; OpL (LMass mg); OpM (MVol cm3); OpL LPercent; OpT false; OpP (PAbs torr)]
       (mkRS (PAbs bar) (LMolar mmol) (MMass g) true) = mkRS (PAbs torr) LPercent (MVol cm3) false.
Proof. unfold kelvin_of. repeat split; try lra. Qed.
