(* C02 - Permanent isotherm conversions stay consistent over any conversion history.
   convert / convert_pressure / convert_loading / convert_material / convert_temperature below are the
   GENERATED translation (Gen/IsoGen.v) of the methods of pointisotherm.py / baseisotherm.py; they call the
   generated converters of C01. Property theorems only, each closed by `exact` + Print Assumptions. *)
From Coq Require Import Reals Lra QArith ZArith String List Bool.
From PG Require Import Lib.Num Lib.Py Gen.UnitsGen1 Units.AdsOracle Gen.UnitsGen2 Units.UnitsSpec Units.LoadingPhys Units.C01Theorems
  Iso.IsoState Gen.IsoGen Iso.IsoSpec Iso.ConvPressure Iso.ConvLoading Iso.ConvMaterial Iso.ConvMaterialFrac Iso.C02Theorems
  Iso.C02Strings Iso.C02GenSteps Iso.C02General.
Import ListNotations.
Open Scope R_scope.

(* single steps on a well-labelled state: new labels = the requested representation, data = old data times the SI factor,
   nothing else touched (branch marks, the other column, adsorbate, material); caches reset *)
Theorem pressure_step : forall (a : adsorbate RNum) psat T tk rl rm m cp cl cb li pi vb (rp rp' : prep),
  a_psat_Pa a (Some (kelvin_of tk T)) = Some psat -> 0 < psat -> kelvin_of tk T <> 0 ->
  convert_pressure RNum (mk_state rp rl rm tk T a m cp cl cb li pi) (p_mode rp') (p_unit rp') vb
  = SOk (if prep_eqb rp' rp then mk_state rp rl rm tk T a m cp cl cb li pi
         else mk_state rp' rl rm tk T a m
                (map (spec_conv (p_canon psat rp) (p_canon psat rp')) cp) cl cb None None).
Proof. exact convert_pressure_step. Qed.
Print Assumptions pressure_step.
Theorem loading_step : forall (a : adsorbate RNum) M rml rmg T tk rp rm m cp cl cb li pi vb (rl rl' : lrep),
  ads_at a (Some (kelvin_of tk T)) M rml rmg -> 0 < M -> 0 < rml -> 0 < rmg ->
  convert_loading RNum (mk_state rp rl rm tk T a m cp cl cb li pi) (l_basis rl') (l_unit rl') vb
  = SOk (if lrep_eqb rl' rl then mk_state rp rl rm tk T a m cp cl cb li pi
         else mk_state rp rl' rm tk T a m cp
                (map (spec_conv (l_canon M rml rmg rm rl) (l_canon M rml rmg rm rl')) cl) cb None None).
Proof. exact convert_loading_step. Qed.
Print Assumptions loading_step.
Theorem material_step_physical_loading : forall (a : adsorbate RNum) dens mm T tk rp cp cl cb li pi vb (rl : lrep) (rm rm' : mrep),
  0 < dens -> 0 < mm -> l_is_phys rl = true ->
  convert_material RNum (mk_state rp rl rm tk T a (mat_full dens mm) cp cl cb li pi) (m_basis rm') (m_unit rm') vb
  = SOk (if mrep_eqb rm' rm then mk_state rp rl rm tk T a (mat_full dens mm) cp cl cb li pi
         else mk_state rp rl rm' tk T a (mat_full dens mm) cp
                (map (spec_conv (m_canon dens mm rm') (m_canon dens mm rm)) cl) cb None None).
Proof. exact convert_material_step_phys. Qed.
Print Assumptions material_step_physical_loading.
Theorem material_step_fraction_loading : forall (a : adsorbate RNum) M rml rmg dens mm T tk rp cp cl cb li pi vb (rl : lrep) (rm rm' : mrep),
  ads_at a (Some (kelvin_of tk T)) M rml rmg -> 0 < dens -> 0 < mm -> 0 < M -> 0 < rml -> 0 < rmg -> l_is_phys rl = false ->
  convert_material RNum (mk_state rp rl rm tk T a (mat_full dens mm) cp cl cb li pi) (m_basis rm') (m_unit rm') vb
  = SOk (if mrep_eqb rm' rm then mk_state rp rl rm tk T a (mat_full dens mm) cp cl cb li pi
         else if same_mbasis rm' rm then mk_state rp rl rm' tk T a (mat_full dens mm) cp cl cb li pi
         else mk_state rp rl rm' tk T a (mat_full dens mm) cp
                (map (spec_conv (l_canon_phys M rml rmg (l_of_m rm)) (l_canon_phys M rml rmg (l_of_m rm')))
                   (map (spec_conv (m_canon dens mm rm') (m_canon dens mm rm)) cl)) cb None None).
Proof. exact convert_material_step_frac. Qed.
Print Assumptions material_step_fraction_loading.

(* a refused single-quantity conversion changes nothing: for ALL states and ALL argument strings *)
Theorem refused_pressure_conversion_changes_nothing : forall (s : iso RNum) m u vb e,
  outcome (convert_pressure RNum s m u vb) = Some e -> state_after (convert_pressure RNum s m u vb) = s.
Proof. exact convert_pressure_refusal_changes_nothing. Qed.
Print Assumptions refused_pressure_conversion_changes_nothing.
Theorem refused_loading_conversion_changes_nothing : forall (s : iso RNum) b u vb e,
  outcome (convert_loading RNum s b u vb) = Some e -> state_after (convert_loading RNum s b u vb) = s.
Proof. exact convert_loading_refusal_changes_nothing. Qed.
Print Assumptions refused_loading_conversion_changes_nothing.
(* repaired by "fix: convert_material in fraction/percent mode assigns the converted loading once" *)
Theorem refused_material_conversion_changes_nothing : forall (s : iso RNum) b u vb e,
  outcome (convert_material RNum s b u vb) = Some e -> state_after (convert_material RNum s b u vb) = s.
Proof. exact convert_material_refusal_changes_nothing. Qed.
Print Assumptions refused_material_conversion_changes_nothing.
Theorem refused_temperature_conversion_changes_nothing : forall (s : iso RNum) u vb e,
  outcome (convert_temperature RNum s u vb) = Some e -> state_after (convert_temperature RNum s u vb) = s.
Proof. exact convert_temperature_refusal_changes_nothing. Qed.
Print Assumptions refused_temperature_conversion_changes_nothing.

(* the combined conversion is pressure; material; loading, stopping at the first refusal with the earlier steps kept *)
Theorem combined_conversion_is_sequence : forall (s : iso RNum) pm pu lb lu mb mu vb,
  convert RNum s pm pu lb lu mb mu vb =
  mbind (if ostr_truthy pm || ostr_truthy pu then convert_pressure RNum s pm pu vb else SOk s) (fun s1 =>
  mbind (if ostr_truthy mb || ostr_truthy mu then convert_material RNum s1 mb mu vb else SOk s1) (fun s2 =>
        (if ostr_truthy lb || ostr_truthy lu then convert_loading RNum s2 lb lu vb else SOk s2))).
Proof. exact convert_is_sequence. Qed.
Print Assumptions combined_conversion_is_sequence.

(* histories of calls that name a representation (mode+unit / basis+unit / temperature unit K or degC): no call is refused.
   Partial with respect to the property's quantifier; the full quantifier is history_arbitrary_strings below *)
Theorem history_direct_partial : forall psat M rml rmg dens mm TK,
  0 < psat -> 0 < M -> 0 < rml -> 0 < rmg -> 0 < dens -> 0 < mm -> TK <> 0 ->
  forall (r0 : rs) (cp0 cl0 : list R) (cb : list bool) (a : adsorbate RNum), ads_full_at a TK psat M rml rmg ->
  forall (T : R) (li pi : option (cache RNum)) (ops : list op),
  kelvin_of (r_k r0) T = TK ->
  let s0 := mk_state (r_p r0) (r_l r0) (r_m r0) (r_k r0) T a (mat_full dens mm) cp0 cl0 cb li pi in
  all_ok s0 ops /\
  Rep psat M rml rmg dens mm TK r0 cp0 cl0 cb a (fold_left rs_step ops r0) (run_ops s0 ops) /\
  valid_labels (run_ops s0 ops) = true.
Proof. exact history_direct. Qed.
Print Assumptions history_direct_partial.
Theorem history_back_restores_partial : forall psat M rml rmg dens mm TK,
  0 < psat -> 0 < M -> 0 < rml -> 0 < rmg -> 0 < dens -> 0 < mm -> TK <> 0 ->
  forall (r0 : rs) (cp0 cl0 : list R) (cb : list bool) (a : adsorbate RNum), ads_full_at a TK psat M rml rmg ->
  forall (T : R) (li pi : option (cache RNum)) (ops : list op),
  kelvin_of (r_k r0) T = TK ->
  let s0 := mk_state (r_p r0) (r_l r0) (r_m r0) (r_k r0) T a (mat_full dens mm) cp0 cl0 cb li pi in
  let back := [OpP (r_p r0); OpM (r_m r0); OpL (r_l r0); OpT (r_k r0)] in
  col_p (run_ops s0 (ops ++ back)%list) = cp0 /\ col_l (run_ops s0 (ops ++ back)%list) = cl0
  /\ col_branch (run_ops s0 (ops ++ back)%list) = cb.
Proof. exact history_back_restores. Qed.
Print Assumptions history_back_restores_partial.

(* ---------------------------------------------------------------------------------------------------------------------
   Histories of calls with ARBITRARY argument strings (the property's full quantifier: omitted / empty / repeated / impossible
   / garbage arguments, single-quantity calls and the combined convert()).  Iso/C02General.v:
     gop        a call with its raw `option string` arguments (GP GL GM GT, GC = convert());  apply_gop = the GENERATED method
     resolve    the explicit reference semantics on representations (rs), by string matching: which calls are refused, what the
                accepted ones name (omitted / empty mode or basis = current; omitted unit with unchanged basis = current;
                relative / relative% / fraction / percent ignore the unit argument; 'c' in the lower-cased string = Celsius;
                a material unit must always be a unit of the target basis; ...)
     Rep r s    (Iso/C02Theorems.v) s holds the ORIGINAL data converted directly to the representation r and its labels name r *)
Theorem history_arbitrary_strings : forall psat M rml rmg dens mm TK,
  0 < psat -> 0 < M -> 0 < rml -> 0 < rmg -> 0 < dens -> 0 < mm -> TK <> 0 ->
  forall (a : adsorbate RNum), ads_full_at a TK psat M rml rmg ->
  forall (r0 : rs) (cp0 cl0 : list R) (cb : list bool) (T : R) (li pi : option (cache RNum)) (ops : list gop),
  kelvin_of (r_k r0) T = TK ->
  let s0 := mk_state (r_p r0) (r_l r0) (r_m r0) (r_k r0) T a (mat_full dens mm) cp0 cl0 cb li pi in
  (* every call of the history: refused exactly when the reference semantics says so; a refused single-quantity call changes
     nothing; every call is the sequence of its steps (convert(): pressure, material, loading) run until the first refusal *)
  (forall pre o post, ops = (pre ++ o :: post)%list ->
     let s := run_gops s0 pre in let r := ref_gops r0 pre in
     (outcome (apply_gop s o) = None <-> snd (resolve r o) = true)
     /\ (is_single o = true -> forall e, outcome (apply_gop s o) = Some e -> state_after (apply_gop s o) = s)
     /\ apply_gop s o = run_seq s (steps o))
  (* the final state: original data converted directly to the resolved representation, labels naming it, constructor-valid *)
  /\ Rep psat M rml rmg dens mm TK r0 cp0 cl0 cb a (ref_gops r0 ops) (run_gops s0 ops)
  /\ valid_labels (run_gops s0 ops) = true.
Proof. exact history_general. Qed.
Print Assumptions history_arbitrary_strings.
(* one call (single or combined) from ANY state of the invariant: the induction step *)
Theorem one_call_arbitrary_strings : forall psat M rml rmg dens mm TK,
  0 < psat -> 0 < M -> 0 < rml -> 0 < rmg -> 0 < dens -> 0 < mm -> TK <> 0 ->
  forall (a : adsorbate RNum), ads_full_at a TK psat M rml rmg ->
  forall (r0 : rs) (cp0 cl0 : list R) (cb : list bool) (r : rs) (s : iso RNum) (o : gop),
  Rep psat M rml rmg dens mm TK r0 cp0 cl0 cb a r s ->
  Rep psat M rml rmg dens mm TK r0 cp0 cl0 cb a (fst (resolve r o)) (state_after (apply_gop s o))
  /\ (outcome (apply_gop s o) = None <-> snd (resolve r o) = true).
Proof. exact gstep. Qed.
Print Assumptions one_call_arbitrary_strings.
(* converting back to the starting representation restores the original numbers, after ANY history of calls with ANY strings *)
Theorem history_arbitrary_strings_back_restores : forall psat M rml rmg dens mm TK,
  0 < psat -> 0 < M -> 0 < rml -> 0 < rmg -> 0 < dens -> 0 < mm -> TK <> 0 ->
  forall (a : adsorbate RNum), ads_full_at a TK psat M rml rmg ->
  forall (r0 : rs) (cp0 cl0 : list R) (cb : list bool) (T : R) (li pi : option (cache RNum)) (ops : list gop),
  kelvin_of (r_k r0) T = TK ->
  let s0 := mk_state (r_p r0) (r_l r0) (r_m r0) (r_k r0) T a (mat_full dens mm) cp0 cl0 cb li pi in
  let back := [OpP (r_p r0); OpM (r_m r0); OpL (r_l r0); OpT (r_k r0)] in
  col_p (run_ops (run_gops s0 ops) back) = cp0 /\ col_l (run_ops (run_gops s0 ops) back) = cl0
  /\ col_branch (run_ops (run_gops s0 ops) back) = cb.
Proof. exact history_general_back_restores. Qed.
Print Assumptions history_arbitrary_strings_back_restores.
(* repaired by "fix: convert_material checks the unit it stores on a fraction/percent isotherm" (before, the string was stored
   unchecked and the isotherm could not be converted back): on a fraction / percent isotherm, naming the current material basis
   (or none) with a string that is no unit of it is refused and changes nothing - for ALL such states and ALL strings *)
Theorem unknown_material_unit_is_refused_on_fraction_isotherms : forall (s : iso RNum) (t : mbasis) b u vb,
  ostr_in (loading_basis s) [Some "percent"; Some "fraction"]%string = true -> material_basis s = mb_label t ->
  ostr_truthy b = false \/ b = material_basis s ->
  ostr_truthy u = true -> ostr_eqb u (material_unit s) = false -> tbl_mem u (munits t) = false ->
  convert_material RNum s b u vb = SErr ParameterError s.
Proof. exact unknown_material_unit_refused_on_fraction. Qed.
Print Assumptions unknown_material_unit_is_refused_on_fraction_isotherms.
(* convert(): a refusal leaves exactly the effect of the steps completed before it - for ALL states and ALL strings *)
Theorem combined_refusal_keeps_completed_steps : forall (s : iso RNum) pm pu lb lu mb mu e,
  outcome (convert RNum s pm pu lb lu mb mu false) = Some e ->
  exists pre o post s', steps (GC pm pu lb lu mb mu) = (pre ++ o :: post)%list /\ run_seq s pre = SOk s'
     /\ outcome (apply_gop s' o) = Some e /\ state_after (convert RNum s pm pu lb lu mb mu false) = s'.
Proof. exact convert_refusal_keeps_completed. Qed.
Print Assumptions combined_refusal_keeps_completed_steps.

(* strings that name no representation and are accepted nevertheless (explicit in `resolve`; the label is normalised);
   a material unit, on the contrary, is always checked *)
Example accepted_strings_naming_nothing :
  (resolve_t (Some "kcal") = Some false
  /\ resolve_p PRel (Some "relative%") (Some "bogus") = Some PRelPct
  /\ resolve_p PRel None (Some "torr") = Some PRel
  /\ resolve_l (LMolar mmol) (Some "fraction") (Some "bogus") = Some LFraction
  /\ resolve_l LFraction None (Some "bogus") = Some LFraction
  /\ resolve_m (MMass g) (Some "") (Some "bogus") = None)%string.
Proof. exact accepted_strings_that_name_nothing. Qed.
(* the history that used to end in an isotherm that could not be converted back is now stopped at its third call *)
Example formerly_unchecked_history :
  accepted (mkRS (PAbs bar) (LMolar mmol) (MMass g) true)
    [GL (Some "fraction") None; GM (Some "volume") (Some "cm3"); GM None (Some "bogus")]%string = [true; true; false]
  /\ ref_gops (mkRS (PAbs bar) (LMolar mmol) (MMass g) true)
    [GL (Some "fraction") None; GM (Some "volume") (Some "cm3"); GM None (Some "bogus")]%string = mkRS (PAbs bar) LFraction (MVol cm3) true.
Proof. exact former_unchecked_history. Qed.
(* a concrete mixed history (no-op, ignored unit, refused, empty basis, Celsius alias, garbage, refused material unit in percent
   mode, convert() stopping at its material step, full convert()) evaluated by the reference semantics *)
Example mixed_history :
  let ops := [GP None None; GP (Some "relative") (Some "bogus"); GL (Some "mass") None; GL (Some "mass") (Some "mg");
              GM (Some "") (Some "kg"); GT (Some "Celsius"); GT (Some "bogus"); GL (Some "percent") (Some "bogus");
              GM None (Some "furlong"); GL (Some "molar") (Some "mmol"); GM (Some "mass") (Some "g");
              GC None (Some "torr") (Some "molar") (Some "mol") (Some "volume") (Some "furlong");
              GC (Some "absolute") (Some "torr") (Some "molar") (Some "mol") (Some "volume") (Some "cm3")]%string in
  accepted (mkRS (PAbs bar) (LMolar mmol) (MMass g) true) ops
    = [true; true; false; true; true; true; false; true; false; true; true; false; true]
  /\ ref_gops (mkRS (PAbs bar) (LMolar mmol) (MMass g) true) ops = mkRS (PAbs torr) (LMolar mol) (MVol cm3) false.
Proof. exact mixed_history_resolved. Qed.
Example arbitrary_strings_hypotheses_satisfiable :
  0 < 101325 /\ 0 < 28 /\ 0 < 0.03 /\ 0 < 0.0002 /\ 0 < 2 /\ 0 < 60 /\ 77 <> 0 /\ kelvin_of true 77 = 77
  /\ ads_full_at (ads_full 101325 28 0.03 0.0002) 77 101325 28 0.03 0.0002.
Proof. exact general_hypotheses_satisfiable. Qed.

(* calls that omit the unit while keeping (or omitting) the mode / basis: a no-op for ALL states
   (repaired in /repo by "fix: omitting the unit ..."; before the fix the unit label became None) *)
Theorem omitted_unit_with_unchanged_basis_is_noop : forall (s : iso RNum) vb,
  (forall m, m = None \/ m = pressure_mode s -> ostr_truthy (pressure_mode s) = true -> convert_pressure RNum s m None vb = SOk s)
  /\ (forall b, b = None \/ b = loading_basis s -> ostr_truthy (loading_basis s) = true -> convert_loading RNum s b None vb = SOk s)
  /\ (forall b, b = None \/ b = material_basis s -> ostr_truthy (material_basis s) = true -> convert_material RNum s b None vb = SOk s).
Proof. exact omitted_unit_is_noop. Qed.
Print Assumptions omitted_unit_with_unchanged_basis_is_noop.
(* repaired by "fix: convert_temperature stores the normalised unit label" *)
Theorem temperature_label_is_normalised : forall (s : iso RNum) u vb s',
  is_celsius u = true -> convert_temperature RNum s (Some u) vb = SOk s' -> temperature_unit s' = Some "°C"%string.
Proof. exact temperature_label_normalised. Qed.
Print Assumptions temperature_label_is_normalised.

Example history_hypotheses_satisfiable :
  0 < 101325 /\ 0 < 28 /\ 0 < 0.03 /\ 0 < 0.0002 /\ 0 < 2 /\ 0 < 60 /\ kelvin_of true 77 <> 0
  /\ fold_left rs_step [OpP PRel; OpL (LMass mg); OpM (MVol cm3); OpL LPercent; OpT false; OpP (PAbs torr)]
       (mkRS (PAbs bar) (LMolar mmol) (MMass g) true) = mkRS (PAbs torr) LPercent (MVol cm3) false.
Proof. unfold kelvin_of. repeat split; try lra. Qed.
