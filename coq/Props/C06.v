(* C06 - JSON export and import are exact inverses.
   Model: Codec/JsonDoc.v (to_dict, isotherm_to_json, isotherm_from_json, the constructors) over the GENERATED tables of
   Gen/TablesGen.v; tied to the implementation by the correspondence part of ./check C06. Property theorems only. *)
From Coq Require Import QArith ZArith String List Bool.
From PG Require Import Lib.Num Lib.Py Codec.PyVal Gen.TablesGen Codec.JsonDoc Codec.JsonRoundtrip Codec.Census.
Import ListNotations.
Open Scope string_scope.

(* for every isotherm of the three classes (arbitrary metadata list outside the reserved names, arbitrary row list, any model):
   the export succeeds, importing what the json library gives back yields the same isotherm (every label, the material and its
   properties, adsorbate, temperature, every metadata key/value/type, every cell, every branch mark, the model dictionary; caches
   reset) and exporting that isotherm gives the same document. Partial: the branch marks must contain a desorption mark or be what
   the guess yields (see the refuted theorem), and the identifier is not covered (C05). *)
Theorem json_roundtrip_partial :
  forall (ads_canon : string -> string) (labels_ok : dict -> bool) (dumps : pyval -> string) (loads : string -> option pyval),
  (forall v, serialisable v = true -> loads (dumps v) = Some (jnorm v)) ->
  forall i pk lk, wf ads_canon labels_ok i -> body_keys i pk lk -> tuple_free (VDict (export_doc i)) = true ->
  exists doc doc', export i = Ok doc /\ loads (dumps doc) = Some doc' /\
    import ads_canon labels_ok pk lk doc' = Ok (clear_caches i) /\
    export (clear_caches i) = Ok doc /\ loads (dumps doc) = Some doc.
Proof. exact json_roundtrip_oracle. Qed.
Print Assumptions json_roundtrip_partial.

(* the model-level core without the oracle: import (export i) = i, for all well-formed isotherms *)
Theorem import_inverts_export :
  forall ads_canon labels_ok i pk lk, wf ads_canon labels_ok i -> body_keys i pk lk ->
  import ads_canon labels_ok pk lk (VDict (export_doc i)) = Ok (clear_caches i).
Proof. exact import_export_doc. Qed.
Print Assumptions import_inverts_export.

(* reserved attributes (data frame, interpolators, model object, private fields) never reach the document; metadata is untouched *)
Theorem document_shape :
  forall ads_canon labels_ok i, wf ads_canon labels_ok i ->
  export i = Ok (VDict (fixed i ++ i_meta i ++ tail i)).
Proof. exact export_shape_ok. Qed.
Print Assumptions document_shape.

(* exporting does not see the interpolator caches *)
Theorem document_ignores_caches :
  forall i, length (i_units i) = length unit_params -> export_doc (clear_caches i) = export_doc i.
Proof. exact export_doc_ignores_caches. Qed.
Print Assumptions document_ignores_caches.

(* the to_dict of the model is the interpretation of BaseIsotherm.to_dict as translated statement by statement from the current
   source (Gen/TablesGen.v to_dict_program) *)
Theorem to_dict_model_is_source_program :
  forall i, length (i_units i) = length unit_params -> td_run i ([], []) to_dict_program = Some (to_dict i).
Proof. exact to_dict_is_source_program. Qed.
Print Assumptions to_dict_model_is_source_program.

(* the attribute census of the model is closed: no method of the three classes binds a name on the isotherm object outside the
   census of its class (the attributes the model's vars(self) ranges over) and its reserved list (table generated from the source:
   assignments, augmented assignments, deletions, loop / with targets, setattr with a literal name; computed names abort) *)
Theorem attribute_census_closed :
  forall c m k l a, In (c, m, k, l) method_assigns -> In a l -> In a (class_census c ++ class_reserved_of c).
Proof. exact census_closed. Qed.
Print Assumptions attribute_census_closed.

(* a read-only query performed BEFORE the export cannot change the document: every query (method or property that is not a
   constructor, a property setter or a convert_* method) binds only names that to_dict discards (reserved, and not the source of
   one of its pops) and does not write into the metadata dictionary; to_dict is independent of the values of discarded names *)
Theorem queries_bind_only_discarded_names :
  forall c m k l a, In (c, m, k, l) method_assigns -> is_query m k = true -> In a l ->
  In a (class_reserved_of c) /\ ~ In a popped_sources /\ a <> "properties[]".
Proof. exact queries_bind_only_discarded. Qed.
Print Assumptions queries_bind_only_discarded_names.
Theorem to_dict_ignores_discarded_names :
  forall i env env', (forall a, mem a (discarded (class_reserved (i_body i))) = false -> env a = env' a) ->
  to_dict_env i env = to_dict_env i env'.
Proof. exact to_dict_ignores_discarded. Qed.
Print Assumptions to_dict_ignores_discarded_names.
Example to_dict_env_is_the_model : forall i, to_dict_env i (attr_val i) = to_dict i.
Proof. exact to_dict_env_model. Qed.
Print Assumptions to_dict_env_is_the_model.
Example discarded_names_witnesses :
  mem "l_interpolator" (discarded point_reserved) = true /\ mem "p_interpolator" (discarded point_reserved) = true /\
  mem "_temperature" (discarded point_reserved) = false /\ mem "properties" (discarded point_reserved) = false.
Proof. exact caches_are_discarded. Qed.
Print Assumptions discarded_names_witnesses.
Example queries_binding_something_exist :
  existsb (fun e => let '(_, m, k, l) := e in is_query m k && match l with [] => false | _ => true end) method_assigns = true.
Proof. exact queries_exist. Qed.
Print Assumptions queries_binding_something_exist.

(* user-assigned all-adsorption marks on data whose pressure maximum is not last come back with a guessed desorption branch *)
Theorem json_all_ads_user_branch_refuted :
  exists doc i', export w_allads = Ok doc /\ import (fun s => s) (fun _ => true) "pressure" "loading" (jnorm doc) = Ok i' /\
    i_body i' = BPoint "pressure" "loading" [w_row 1 1 false; w_row 3 2 false; w_row 2 (3 # 2) true] VNone VNone.
Proof. exact w_allads_reguessed. Qed.
Print Assumptions json_all_ads_user_branch_refuted.

(* the hypotheses are satisfiable: a point isotherm with hysteresis, typed metadata and material properties; a model isotherm *)
Example wf_point_satisfiable : wf (fun s => s) (fun _ => true) w_iso.
Proof. exact w_iso_wf. Qed.
Print Assumptions wf_point_satisfiable.
Example wf_model_satisfiable : wf (fun s => s) (fun _ => true) w_model.
Proof. exact w_model_wf. Qed.
Print Assumptions wf_model_satisfiable.
