(* C10 - isotherm model equations are mutually inverse, monotonic and physically bounded.
   Property theorems only; every statement is about the definitions GENERATED from /repo/src/pygaps/modelling (Gen/FormulasGen.v);
   proofs live in coq/Models/*.v. *)
From Coq Require Import Reals Lra List.
From Coquelicot Require Import Coquelicot.
From PG Require Import Models.PyReal Gen.FormulasGen Models.Henry Models.Langmuir Models.DSLangmuir Models.TSLangmuir Models.BET Models.GAB Models.Quadratic Models.TemkinApprox Models.Freundlich Models.Toth Models.DR Models.DA Models.JensenSeaton Models.Virial Models.VST Models.ZeroPoint.
Import ListNotations.
Open Scope R_scope.

(* ======== Henry ======== *)
(* ---------------- C10 *)
Theorem Henry_inverse_lp : forall K p,
  K <> 0 ->
  Henry_loading_def K p /\ Henry_pressure_def K (Henry_loading K p) /\
  Henry_pressure K (Henry_loading K p) = p.
Proof. exact Henry_inverse_lp. Qed.
Print Assumptions Henry_inverse_lp.

Theorem Henry_inverse_pl : forall K n,
  K <> 0 ->
  Henry_pressure_def K n /\ Henry_loading_def K (Henry_pressure K n) /\
  Henry_loading K (Henry_pressure K n) = n.
Proof. exact Henry_inverse_pl. Qed.
Print Assumptions Henry_inverse_pl.

Theorem Henry_zero : forall K,
  Henry_loading K 0 = 0.
Proof. exact Henry_zero. Qed.
Print Assumptions Henry_zero.

Theorem Henry_nonneg : forall K p,
  Henry_bounds K -> 0 <= p -> 0 <= Henry_loading K p.
Proof. exact Henry_nonneg. Qed.
Print Assumptions Henry_nonneg.

Theorem Henry_monotone : forall K p q,
  Henry_bounds K -> 0 <= p -> p <= q ->
  Henry_loading K p <= Henry_loading K q.
Proof. exact Henry_monotone. Qed.
Print Assumptions Henry_monotone.

Theorem Henry_strictly_monotone : forall K p q,
  0 < K -> 0 <= p -> p < q ->
  Henry_loading K p < Henry_loading K q.
Proof. exact Henry_strictly_monotone. Qed.
Print Assumptions Henry_strictly_monotone.

(* Henry slope: the derivative of the loading at zero pressure is K *)
Theorem Henry_henry : forall K,
  is_derive (Henry_loading K) 0 K.
Proof. exact Henry_henry. Qed.
Print Assumptions Henry_henry.

Theorem Henry_spread_zero : forall K,
  Henry_spreading_pressure K 0 = 0.
Proof. exact Henry_spread_zero. Qed.
Print Assumptions Henry_spread_zero.

Theorem Henry_spread_from_zero : forall K p,
  0 <= p ->
  is_RInt (fun x => Henry_loading K x / x) 0 p (Henry_spreading_pressure K p).
Proof. exact Henry_spread_from_zero. Qed.
Print Assumptions Henry_spread_from_zero.

(* ======== Langmuir ======== *)
(* ---------------- C10 *)
Theorem Langmuir_inverse_lp : forall K n_m p,
  Langmuir_bounds K n_m -> K <> 0 -> n_m <> 0 -> 0 <= p ->
  Langmuir_loading_def K n_m p /\ Langmuir_pressure_def K n_m (Langmuir_loading K n_m p) /\
  Langmuir_pressure K n_m (Langmuir_loading K n_m p) = p.
Proof. exact Langmuir_inverse_lp. Qed.
Print Assumptions Langmuir_inverse_lp.

Theorem Langmuir_inverse_pl : forall K n_m n,
  Langmuir_bounds K n_m -> K <> 0 -> 0 <= n < n_m ->
  Langmuir_pressure_def K n_m n /\ Langmuir_loading_def K n_m (Langmuir_pressure K n_m n) /\
  Langmuir_loading K n_m (Langmuir_pressure K n_m n) = n.
Proof. exact Langmuir_inverse_pl. Qed.
Print Assumptions Langmuir_inverse_pl.

Theorem Langmuir_zero : forall K n_m,
  Langmuir_loading K n_m 0 = 0.
Proof. exact Langmuir_zero. Qed.
Print Assumptions Langmuir_zero.

Theorem Langmuir_nonneg : forall K n_m p,
  Langmuir_bounds K n_m -> 0 <= p -> 0 <= Langmuir_loading K n_m p.
Proof. exact Langmuir_nonneg. Qed.
Print Assumptions Langmuir_nonneg.

Theorem Langmuir_saturation : forall K n_m p,
  Langmuir_bounds K n_m -> 0 < n_m -> 0 <= p -> Langmuir_loading K n_m p < n_m.
Proof. exact Langmuir_saturation. Qed.
Print Assumptions Langmuir_saturation.

Theorem Langmuir_monotone : forall K n_m p q,
  Langmuir_bounds K n_m -> 0 <= p -> p <= q ->
  Langmuir_loading K n_m p <= Langmuir_loading K n_m q.
Proof. exact Langmuir_monotone. Qed.
Print Assumptions Langmuir_monotone.

Theorem Langmuir_strictly_monotone : forall K n_m p q,
  0 < K -> 0 < n_m -> 0 <= p -> p < q ->
  Langmuir_loading K n_m p < Langmuir_loading K n_m q.
Proof. exact Langmuir_strictly_monotone. Qed.
Print Assumptions Langmuir_strictly_monotone.

(* Henry slope: the derivative of the loading at zero pressure is K n_m *)
Theorem Langmuir_henry : forall K n_m,
  is_derive (Langmuir_loading K n_m) 0 (n_m * K).
Proof. exact Langmuir_henry. Qed.
Print Assumptions Langmuir_henry.

Theorem Langmuir_spread_zero : forall K n_m,
  Langmuir_spreading_pressure K n_m 0 = 0.
Proof. exact Langmuir_spread_zero. Qed.
Print Assumptions Langmuir_spread_zero.

Theorem Langmuir_spread_from_zero : forall K n_m p,
  0 <= K -> 0 <= p ->
  is_RInt (fun x => Langmuir_loading K n_m x / x) 0 p (Langmuir_spreading_pressure K n_m p).
Proof. exact Langmuir_spread_from_zero. Qed.
Print Assumptions Langmuir_spread_from_zero.

(* ======== DSLangmuir ======== *)
(* ---------------- C10 *)
Theorem DSLangmuir_zero : forall n_m1 K1 n_m2 K2,
  DSLangmuir_loading n_m1 K1 n_m2 K2 0 = 0.
Proof. exact DSLangmuir_zero. Qed.
Print Assumptions DSLangmuir_zero.

Theorem DSLangmuir_nonneg : forall n_m1 K1 n_m2 K2 p,
  DSLangmuir_bounds n_m1 K1 n_m2 K2 -> 0 <= p ->
  0 <= DSLangmuir_loading n_m1 K1 n_m2 K2 p.
Proof. exact DSLangmuir_nonneg. Qed.
Print Assumptions DSLangmuir_nonneg.

(* strictly below the total capacity as soon as one site has positive capacity *)
Theorem DSLangmuir_saturation : forall n_m1 K1 n_m2 K2 p,
  DSLangmuir_bounds n_m1 K1 n_m2 K2 ->
  0 < n_m1 \/ 0 < n_m2 -> 0 <= p ->
  DSLangmuir_loading n_m1 K1 n_m2 K2 p < n_m1 + n_m2.
Proof. exact DSLangmuir_saturation. Qed.
Print Assumptions DSLangmuir_saturation.

Theorem DSLangmuir_monotone : forall n_m1 K1 n_m2 K2 p q,
  DSLangmuir_bounds n_m1 K1 n_m2 K2 -> 0 <= p -> p <= q ->
  DSLangmuir_loading n_m1 K1 n_m2 K2 p <= DSLangmuir_loading n_m1 K1 n_m2 K2 q.
Proof. exact DSLangmuir_monotone. Qed.
Print Assumptions DSLangmuir_monotone.

Theorem DSLangmuir_strictly_monotone : forall n_m1 K1 n_m2 K2 p q,
  0 < n_m1 -> 0 < K1 -> 0 < n_m2 -> 0 < K2 ->
  0 <= p -> p < q ->
  DSLangmuir_loading n_m1 K1 n_m2 K2 p < DSLangmuir_loading n_m1 K1 n_m2 K2 q.
Proof. exact DSLangmuir_strictly_monotone. Qed.
Print Assumptions DSLangmuir_strictly_monotone.

(* Henry slope: the derivative of the loading at zero pressure is n_m1 K1 + n_m2 K2 *)
Theorem DSLangmuir_henry : forall n_m1 K1 n_m2 K2,
    is_derive (DSLangmuir_loading n_m1 K1 n_m2 K2) 0 (n_m1 * K1 + n_m2 * K2).
Proof. exact DSLangmuir_henry. Qed.
Print Assumptions DSLangmuir_henry.

Theorem DSLangmuir_inverse_lp : forall n_m1 K1 n_m2 K2 p,
  DSLangmuir_bounds n_m1 K1 n_m2 K2 ->
  0 < n_m1 -> 0 < n_m2 -> 0 < K1 -> 0 < K2 -> 0 <= p ->
  DSLangmuir_loading_def n_m1 K1 n_m2 K2 p /\
  DSLangmuir_pressure_def n_m1 K1 n_m2 K2 (DSLangmuir_loading n_m1 K1 n_m2 K2 p) /\
  DSLangmuir_pressure n_m1 K1 n_m2 K2 (DSLangmuir_loading n_m1 K1 n_m2 K2 p) = p.
Proof. exact DSLangmuir_inverse_lp. Qed.
Print Assumptions DSLangmuir_inverse_lp.

(* the converse on the image of the loading function *)
Theorem DSLangmuir_inverse_pl_partial : forall n_m1 K1 n_m2 K2 p,
  DSLangmuir_bounds n_m1 K1 n_m2 K2 ->
  0 < n_m1 -> 0 < n_m2 -> 0 < K1 -> 0 < K2 -> 0 <= p ->
  let n := DSLangmuir_loading n_m1 K1 n_m2 K2 p in
  DSLangmuir_loading n_m1 K1 n_m2 K2 (DSLangmuir_pressure n_m1 K1 n_m2 K2 n) = n.
Proof. exact DSLangmuir_inverse_pl_partial. Qed.
Print Assumptions DSLangmuir_inverse_pl_partial.

(* full converse: every loading below the total capacity is attained, at the non-negative pressure the formula returns *)
Theorem DSLangmuir_inverse_pl : forall n_m1 K1 n_m2 K2 n,
  DSLangmuir_bounds n_m1 K1 n_m2 K2 ->
  0 < n_m1 -> 0 < n_m2 -> 0 < K1 -> 0 < K2 -> 0 <= n < n_m1 + n_m2 ->
  DSLangmuir_pressure_def n_m1 K1 n_m2 K2 n /\
  0 <= DSLangmuir_pressure n_m1 K1 n_m2 K2 n /\
  DSLangmuir_loading_def n_m1 K1 n_m2 K2 (DSLangmuir_pressure n_m1 K1 n_m2 K2 n) /\
  DSLangmuir_loading n_m1 K1 n_m2 K2 (DSLangmuir_pressure n_m1 K1 n_m2 K2 n) = n.
Proof. exact DSLangmuir_inverse_pl. Qed.
Print Assumptions DSLangmuir_inverse_pl.

Theorem DSLangmuir_spread_zero : forall n_m1 K1 n_m2 K2,
  DSLangmuir_spreading_pressure n_m1 K1 n_m2 K2 0 = 0.
Proof. exact DSLangmuir_spread_zero. Qed.
Print Assumptions DSLangmuir_spread_zero.

Theorem DSLangmuir_spread_from_zero : forall n_m1 K1 n_m2 K2 p,
  0 <= K1 -> 0 <= K2 -> 0 <= p ->
  is_RInt (fun x => DSLangmuir_loading n_m1 K1 n_m2 K2 x / x) 0 p (DSLangmuir_spreading_pressure n_m1 K1 n_m2 K2 p).
Proof. exact DSLangmuir_spread_from_zero. Qed.
Print Assumptions DSLangmuir_spread_from_zero.

(* ======== TSLangmuir ======== *)
(* ---------------- C10 *)
Theorem TSLangmuir_zero : forall n_m1 n_m2 n_m3 K1 K2 K3,
  TSLangmuir_loading n_m1 n_m2 n_m3 K1 K2 K3 0 = 0.
Proof. exact TSLangmuir_zero. Qed.
Print Assumptions TSLangmuir_zero.

Theorem TSLangmuir_nonneg : forall n_m1 n_m2 n_m3 K1 K2 K3 p,
  TSLangmuir_bounds n_m1 n_m2 n_m3 K1 K2 K3 -> 0 <= p ->
  0 <= TSLangmuir_loading n_m1 n_m2 n_m3 K1 K2 K3 p.
Proof. exact TSLangmuir_nonneg. Qed.
Print Assumptions TSLangmuir_nonneg.

(* strictly below the total capacity as soon as one site has positive capacity *)
Theorem TSLangmuir_saturation : forall n_m1 n_m2 n_m3 K1 K2 K3 p,
  TSLangmuir_bounds n_m1 n_m2 n_m3 K1 K2 K3 ->
  0 < n_m1 \/ 0 < n_m2 \/ 0 < n_m3 -> 0 <= p ->
  TSLangmuir_loading n_m1 n_m2 n_m3 K1 K2 K3 p < n_m1 + n_m2 + n_m3.
Proof. exact TSLangmuir_saturation. Qed.
Print Assumptions TSLangmuir_saturation.

Theorem TSLangmuir_monotone : forall n_m1 n_m2 n_m3 K1 K2 K3 p q,
  TSLangmuir_bounds n_m1 n_m2 n_m3 K1 K2 K3 ->
  0 <= p -> p <= q ->
  TSLangmuir_loading n_m1 n_m2 n_m3 K1 K2 K3 p <= TSLangmuir_loading n_m1 n_m2 n_m3 K1 K2 K3 q.
Proof. exact TSLangmuir_monotone. Qed.
Print Assumptions TSLangmuir_monotone.

Theorem TSLangmuir_strictly_monotone : forall n_m1 n_m2 n_m3 K1 K2 K3 p q,
    0 < n_m1 -> 0 < n_m2 -> 0 < n_m3 -> 0 < K1 -> 0 < K2 -> 0 < K3 -> 0 <= p -> p < q ->
  TSLangmuir_loading n_m1 n_m2 n_m3 K1 K2 K3 p < TSLangmuir_loading n_m1 n_m2 n_m3 K1 K2 K3 q.
Proof. exact TSLangmuir_strictly_monotone. Qed.
Print Assumptions TSLangmuir_strictly_monotone.

(* Henry slope: the derivative of the loading at zero pressure is n_m1 K1 + n_m2 K2 + n_m3 K3 *)
Theorem TSLangmuir_henry : forall n_m1 n_m2 n_m3 K1 K2 K3,
    is_derive (TSLangmuir_loading n_m1 n_m2 n_m3 K1 K2 K3) 0 (n_m1 * K1 + n_m2 * K2 + n_m3 * K3).
Proof. exact TSLangmuir_henry. Qed.
Print Assumptions TSLangmuir_henry.

(* the numerical inverse: any non-negative root the solver returns is THE root, and it inverts the loading *)
Theorem TSLangmuir_root_unique : forall n_m1 n_m2 n_m3 K1 K2 K3 n x1 x2,
    0 < n_m1 -> 0 < n_m2 -> 0 < n_m3 -> 0 < K1 -> 0 < K2 -> 0 < K3 -> 0 <= x1 -> 0 <= x2 ->
  TSLangmuir_pressure_spec n_m1 n_m2 n_m3 K1 K2 K3 n x1 ->
  TSLangmuir_pressure_spec n_m1 n_m2 n_m3 K1 K2 K3 n x2 -> x1 = x2.
Proof. exact TSLangmuir_root_unique. Qed.
Print Assumptions TSLangmuir_root_unique.

Theorem TSLangmuir_root_is_inverse : forall n_m1 n_m2 n_m3 K1 K2 K3 p x,
    0 < n_m1 -> 0 < n_m2 -> 0 < n_m3 -> 0 < K1 -> 0 < K2 -> 0 < K3 -> 0 <= p -> 0 <= x ->
  TSLangmuir_pressure_spec n_m1 n_m2 n_m3 K1 K2 K3 (TSLangmuir_loading n_m1 n_m2 n_m3 K1 K2 K3 p) x -> x = p.
Proof. exact TSLangmuir_root_is_inverse. Qed.
Print Assumptions TSLangmuir_root_is_inverse.

Theorem TSLangmuir_spread_zero : forall n_m1 n_m2 n_m3 K1 K2 K3,
  TSLangmuir_spreading_pressure n_m1 n_m2 n_m3 K1 K2 K3 0 = 0.
Proof. exact TSLangmuir_spread_zero. Qed.
Print Assumptions TSLangmuir_spread_zero.

Theorem TSLangmuir_spread_from_zero : forall n_m1 n_m2 n_m3 K1 K2 K3 p,
  0 <= K1 -> 0 <= K2 -> 0 <= K3 -> 0 <= p ->
  is_RInt (fun x => TSLangmuir_loading n_m1 n_m2 n_m3 K1 K2 K3 x / x) 0 p
          (TSLangmuir_spreading_pressure n_m1 n_m2 n_m3 K1 K2 K3 p).
Proof. exact TSLangmuir_spread_from_zero. Qed.
Print Assumptions TSLangmuir_spread_from_zero.

(* ======== BET ======== *)
(* ---------------- C10 *)
Theorem BET_inverse_lp : forall n_m C N p,
  BET_bounds n_m C N -> 0 < n_m -> 0 < C -> 0 < N -> N <> C -> 0 < p -> N * p < 1 ->
  BET_loading_def n_m C N p /\ BET_pressure_def n_m C N (BET_loading n_m C N p) /\
  BET_pressure n_m C N (BET_loading n_m C N p) = p.
Proof. exact BET_inverse_lp. Qed.
Print Assumptions BET_inverse_lp.

(* covers every loading in the image of the validity range {p | 0 < p, N p < 1};
   surjectivity of the loading onto (0, +inf) is not proved here *)
Theorem BET_inverse_pl_partial : forall n_m C N p,
  BET_bounds n_m C N -> 0 < n_m -> 0 < C -> 0 < N -> N <> C -> 0 < p -> N * p < 1 ->
  let n := BET_loading n_m C N p in
  BET_pressure_def n_m C N n /\ BET_loading_def n_m C N (BET_pressure n_m C N n) /\
  BET_loading n_m C N (BET_pressure n_m C N n) = n.
Proof. exact BET_inverse_pl_partial. Qed.
Print Assumptions BET_inverse_pl_partial.

(* zero loading: x = 0, y = - n_m C, numerator 0: the 0/0 is turned into 0 by nan_to_num *)
Theorem BET_zero_point : forall n_m C N,
  0 <= n_m -> 0 <= C ->
  BET_pressure n_m C N 0 = 0 /\ BET_pressure_def n_m C N 0.
Proof. exact BET_zero_point. Qed.
Print Assumptions BET_zero_point.

(* C = N (inside the parameter bounds): x = 0 and the formula returns 0 for EVERY loading *)
Theorem BET_pressure_C_eq_N : forall n_m C N n,
  C = N -> 0 <= n -> 0 <= n_m -> 0 <= C ->
  BET_pressure_def n_m C N n /\ BET_pressure n_m C N n = 0.
Proof. exact BET_pressure_C_eq_N. Qed.
Print Assumptions BET_pressure_C_eq_N.

Theorem BET_pressure_C_eq_N_refuted : exists n_m C N n p,
  BET_bounds n_m C N /\ 0 < p /\ N * p < 1 /\ n = BET_loading n_m C N p /\ BET_pressure n_m C N n = 0 /\ p <> 0.
Proof. exact BET_pressure_C_eq_N_refuted. Qed.
Print Assumptions BET_pressure_C_eq_N_refuted.

Theorem BET_zero : forall n_m C N,
  BET_loading n_m C N 0 = 0.
Proof. exact BET_zero. Qed.
Print Assumptions BET_zero.

Theorem BET_nonneg : forall n_m C N p,
  BET_bounds n_m C N -> 0 <= p -> N * p < 1 -> 0 <= BET_loading n_m C N p.
Proof. exact BET_nonneg. Qed.
Print Assumptions BET_nonneg.

Theorem BET_monotone : forall n_m C N p q,
  BET_bounds n_m C N -> 0 <= p -> p <= q -> N * q < 1 ->
  BET_loading n_m C N p <= BET_loading n_m C N q.
Proof. exact BET_monotone. Qed.
Print Assumptions BET_monotone.

Theorem BET_strictly_monotone : forall n_m C N p q,
  0 < n_m -> 0 < C -> 0 <= N -> 0 <= p -> p < q -> N * q < 1 ->
  BET_loading n_m C N p < BET_loading n_m C N q.
Proof. exact BET_strictly_monotone. Qed.
Print Assumptions BET_strictly_monotone.

(* Henry slope: the derivative of the loading at zero pressure is n_m C *)
Theorem BET_henry : forall n_m C N,
  is_derive (BET_loading n_m C N) 0 (n_m * C).
Proof. exact BET_henry. Qed.
Print Assumptions BET_henry.

Theorem BET_spread_zero : forall n_m C N,
  BET_spreading_pressure n_m C N 0 = 0.
Proof. exact BET_spread_zero. Qed.
Print Assumptions BET_spread_zero.

Theorem BET_spread_from_zero : forall n_m C N p,
  0 <= N -> 0 <= C -> 0 <= p -> N * p < 1 ->
  is_RInt (fun x => BET_loading n_m C N x / x) 0 p (BET_spreading_pressure n_m C N p).
Proof. exact BET_spread_from_zero. Qed.
Print Assumptions BET_spread_from_zero.

(* the hypotheses of the main theorems are satisfiable *)
Example BET_inverse_example : BET_pressure 5 2 (1/2) (BET_loading 5 2 (1/2) 1) = 1.
Proof. exact BET_inverse_example. Qed.
Print Assumptions BET_inverse_example.

(* ======== GAB ======== *)
(* ---------------- C10 *)
Theorem GAB_inverse_lp : forall n_m C K p,
  GAB_bounds n_m C K -> 0 < n_m -> 0 < C -> 0 < K -> C <> 1 -> 0 < p -> K * p < 1 ->
  GAB_loading_def n_m C K p /\ GAB_pressure_def n_m C K (GAB_loading n_m C K p) /\
  GAB_pressure n_m C K (GAB_loading n_m C K p) = p.
Proof. exact GAB_inverse_lp. Qed.
Print Assumptions GAB_inverse_lp.

(* covers every loading in the image of the validity range {p | 0 < p, K p < 1};
   surjectivity of the loading onto (0, +inf) is not proved here *)
Theorem GAB_inverse_pl_partial : forall n_m C K p,
  GAB_bounds n_m C K -> 0 < n_m -> 0 < C -> 0 < K -> C <> 1 -> 0 < p -> K * p < 1 ->
  let n := GAB_loading n_m C K p in
  GAB_pressure_def n_m C K n /\ GAB_loading_def n_m C K (GAB_pressure n_m C K n) /\
  GAB_loading n_m C K (GAB_pressure n_m C K n) = n.
Proof. exact GAB_inverse_pl_partial. Qed.
Print Assumptions GAB_inverse_pl_partial.

(* zero loading: x = 0, y = - n_m C K, numerator 0: the 0/0 is turned into 0 by nan_to_num *)
Theorem GAB_zero_point : forall n_m C K,
  0 <= n_m -> 0 <= C -> 0 <= K ->
  GAB_pressure n_m C K 0 = 0 /\ GAB_pressure_def n_m C K 0.
Proof. exact GAB_zero_point. Qed.
Print Assumptions GAB_zero_point.

(* C = 1 (inside the parameter bounds; the model is then n_m K p / (1 - K p)): x = 0 and the formula returns 0
   for EVERY loading *)
Theorem GAB_pressure_C_eq_1 : forall n_m C K n,
  C = 1 -> 0 <= n -> 0 <= n_m -> 0 <= K ->
  GAB_pressure_def n_m C K n /\ GAB_pressure n_m C K n = 0.
Proof. exact GAB_pressure_C_eq_1. Qed.
Print Assumptions GAB_pressure_C_eq_1.

Theorem GAB_pressure_C_eq_1_refuted : exists n_m C K n p,
  GAB_bounds n_m C K /\ 0 < p /\ K * p < 1 /\ n = GAB_loading n_m C K p /\ GAB_pressure n_m C K n = 0 /\ p <> 0.
Proof. exact GAB_pressure_C_eq_1_refuted. Qed.
Print Assumptions GAB_pressure_C_eq_1_refuted.

(* K = 0: the loading is identically zero and the formula returns 0 for every loading *)
Theorem GAB_pressure_K_eq_0 : forall n_m C K n,
  K = 0 -> 0 <= n -> 0 <= n_m ->
  GAB_pressure_def n_m C K n /\ GAB_pressure n_m C K n = 0.
Proof. exact GAB_pressure_K_eq_0. Qed.
Print Assumptions GAB_pressure_K_eq_0.

Theorem GAB_zero : forall n_m C K,
  GAB_loading n_m C K 0 = 0.
Proof. exact GAB_zero. Qed.
Print Assumptions GAB_zero.

Theorem GAB_nonneg : forall n_m C K p,
  GAB_bounds n_m C K -> 0 <= p -> K * p < 1 -> 0 <= GAB_loading n_m C K p.
Proof. exact GAB_nonneg. Qed.
Print Assumptions GAB_nonneg.

Theorem GAB_monotone : forall n_m C K p q,
  GAB_bounds n_m C K -> 0 <= p -> p <= q -> K * q < 1 ->
  GAB_loading n_m C K p <= GAB_loading n_m C K q.
Proof. exact GAB_monotone. Qed.
Print Assumptions GAB_monotone.

Theorem GAB_strictly_monotone : forall n_m C K p q,
  0 < n_m -> 0 < C -> 0 < K -> 0 <= p -> p < q -> K * q < 1 ->
  GAB_loading n_m C K p < GAB_loading n_m C K q.
Proof. exact GAB_strictly_monotone. Qed.
Print Assumptions GAB_strictly_monotone.

(* Henry slope: the derivative of the loading at zero pressure is n_m C K *)
Theorem GAB_henry : forall n_m C K,
  is_derive (GAB_loading n_m C K) 0 (n_m * C * K).
Proof. exact GAB_henry. Qed.
Print Assumptions GAB_henry.

Theorem GAB_spread_zero : forall n_m C K,
  GAB_spreading_pressure n_m C K 0 = 0.
Proof. exact GAB_spread_zero. Qed.
Print Assumptions GAB_spread_zero.

Theorem GAB_spread_from_zero : forall n_m C K p,
  0 <= K -> 0 <= C -> 0 <= p -> K * p < 1 ->
  is_RInt (fun x => GAB_loading n_m C K x / x) 0 p (GAB_spreading_pressure n_m C K p).
Proof. exact GAB_spread_from_zero. Qed.
Print Assumptions GAB_spread_from_zero.

(* the hypotheses of the main theorems are satisfiable *)
Example GAB_inverse_example : GAB_pressure 5 2 (1/2) (GAB_loading 5 2 (1/2) 1) = 1.
Proof. exact GAB_inverse_example. Qed.
Print Assumptions GAB_inverse_example.

(* ======== Quadratic ======== *)
Theorem Quadratic_saturation : forall n_m Ka Kb p,
  Quadratic_bounds n_m Ka Kb -> 0 < n_m -> 0 <= Ka -> 0 <= Kb -> 0 <= p ->
  Quadratic_loading n_m Ka Kb p < 2 * n_m.
Proof. exact Quadratic_saturation. Qed.
Print Assumptions Quadratic_saturation.

(* ---------------- C10 *)
Theorem Quadratic_inverse_lp : forall n_m Ka Kb p,
  Quadratic_bounds n_m Ka Kb -> 0 < n_m -> 0 <= Ka -> 0 < Kb -> 0 < p ->
  Quadratic_loading_def n_m Ka Kb p /\ Quadratic_pressure_def n_m Ka Kb (Quadratic_loading n_m Ka Kb p) /\
  Quadratic_pressure n_m Ka Kb (Quadratic_loading n_m Ka Kb p) = p.
Proof. exact Quadratic_inverse_lp. Qed.
Print Assumptions Quadratic_inverse_lp.

(* covers every loading in the image of {p | 0 < p}; surjectivity of the loading onto (0, 2 n_m) is not proved here *)
Theorem Quadratic_inverse_pl_partial : forall n_m Ka Kb p,
  Quadratic_bounds n_m Ka Kb -> 0 < n_m -> 0 <= Ka -> 0 < Kb -> 0 < p ->
  let n := Quadratic_loading n_m Ka Kb p in
  Quadratic_pressure_def n_m Ka Kb n /\ Quadratic_loading_def n_m Ka Kb (Quadratic_pressure n_m Ka Kb n) /\
  Quadratic_loading n_m Ka Kb (Quadratic_pressure n_m Ka Kb n) = n.
Proof. exact Quadratic_inverse_pl_partial. Qed.
Print Assumptions Quadratic_inverse_pl_partial.

(* zero loading: x = - 2 n_m Kb <> 0, y = - n_m Ka <= 0: (- y - |y|) / (2 x) = 0 *)
Theorem Quadratic_zero_point : forall n_m Ka Kb,
  0 < n_m -> 0 <= Ka -> Kb <> 0 ->
  Quadratic_pressure n_m Ka Kb 0 = 0 /\ Quadratic_pressure_def n_m Ka Kb 0.
Proof. exact Quadratic_zero_point. Qed.
Print Assumptions Quadratic_zero_point.

(* with a NEGATIVE Ka (allowed by the library bounds) zero loading is mapped to - Ka / (2 Kb), not to 0 *)
Theorem Quadratic_zero_point_negKa : forall n_m Ka Kb,
  0 < n_m -> Ka <= 0 -> Kb <> 0 ->
  Quadratic_pressure_def n_m Ka Kb 0 /\ Quadratic_pressure n_m Ka Kb 0 = - Ka / (2 * Kb).
Proof. exact Quadratic_zero_point_negKa. Qed.
Print Assumptions Quadratic_zero_point_negKa.

(* Kb = 0 (the model is then a Langmuir isotherm): x = 0 and the formula returns 0 for every loading n <= n_m *)
Theorem Quadratic_pressure_Kb_eq_0 : forall n_m Ka n,
  0 <= Ka -> n <= n_m ->
  Quadratic_pressure_def n_m Ka 0 n /\ Quadratic_pressure n_m Ka 0 n = 0.
Proof. exact Quadratic_pressure_Kb_eq_0. Qed.
Print Assumptions Quadratic_pressure_Kb_eq_0.

Theorem Quadratic_pressure_Kb_eq_0_refuted : exists n_m Ka Kb n p,
  Quadratic_bounds n_m Ka Kb /\ 0 <= Ka /\ 0 <= Kb /\ 0 < p /\ n = Quadratic_loading n_m Ka Kb p /\
  Quadratic_pressure_def n_m Ka Kb n /\ Quadratic_pressure n_m Ka Kb n = 0 /\ p <> 0.
Proof. exact Quadratic_pressure_Kb_eq_0_refuted. Qed.
Print Assumptions Quadratic_pressure_Kb_eq_0_refuted.

Theorem Quadratic_zero : forall n_m Ka Kb,
  Quadratic_loading n_m Ka Kb 0 = 0.
Proof. exact Quadratic_zero. Qed.
Print Assumptions Quadratic_zero.

Theorem Quadratic_nonneg : forall n_m Ka Kb p,
  Quadratic_bounds n_m Ka Kb -> 0 <= Ka -> 0 <= Kb -> 0 <= p ->
  0 <= Quadratic_loading n_m Ka Kb p.
Proof. exact Quadratic_nonneg. Qed.
Print Assumptions Quadratic_nonneg.

Theorem Quadratic_monotone : forall n_m Ka Kb p q,
  Quadratic_bounds n_m Ka Kb -> 0 <= Ka -> 0 <= Kb -> 0 <= p -> p <= q ->
  Quadratic_loading n_m Ka Kb p <= Quadratic_loading n_m Ka Kb q.
Proof. exact Quadratic_monotone. Qed.
Print Assumptions Quadratic_monotone.

Theorem Quadratic_strictly_monotone : forall n_m Ka Kb p q,
  0 < n_m -> 0 <= Ka -> 0 <= Kb -> 0 < Ka + Kb -> 0 <= p -> p < q ->
  Quadratic_loading n_m Ka Kb p < Quadratic_loading n_m Ka Kb q.
Proof. exact Quadratic_strictly_monotone. Qed.
Print Assumptions Quadratic_strictly_monotone.

(* Henry slope: the derivative of the loading at zero pressure is n_m Ka *)
Theorem Quadratic_henry : forall n_m Ka Kb,
  is_derive (Quadratic_loading n_m Ka Kb) 0 (n_m * Ka).
Proof. exact Quadratic_henry. Qed.
Print Assumptions Quadratic_henry.

Theorem Quadratic_spread_zero : forall n_m Ka Kb,
  Quadratic_spreading_pressure n_m Ka Kb 0 = 0.
Proof. exact Quadratic_spread_zero. Qed.
Print Assumptions Quadratic_spread_zero.

Theorem Quadratic_spread_from_zero : forall n_m Ka Kb p,
  0 <= Ka -> 0 <= Kb -> 0 <= p ->
  is_RInt (fun x => Quadratic_loading n_m Ka Kb x / x) 0 p (Quadratic_spreading_pressure n_m Ka Kb p).
Proof. exact Quadratic_spread_from_zero. Qed.
Print Assumptions Quadratic_spread_from_zero.

(* the hypotheses of the main theorems are satisfiable *)
Example Quadratic_inverse_example : Quadratic_pressure 5 1 2 (Quadratic_loading 5 1 2 1) = 1.
Proof. exact Quadratic_inverse_example. Qed.
Print Assumptions Quadratic_inverse_example.

(* ======== TemkinApprox ======== *)
(* L (1 - L) <= 1/4 *)
Theorem Temkin_cubic_nonneg : forall tht l,
  tht <= 4 -> 0 <= l -> l < 1 -> 0 <= l + tht * l ^ 2 * (l - 1).
Proof. exact Temkin_cubic_nonneg. Qed.
Print Assumptions Temkin_cubic_nonneg.

(* ---------------- C10 *)
Theorem TemkinApprox_zero : forall n_m K tht,
  TemkinApprox_loading n_m K tht 0 = 0.
Proof. exact TemkinApprox_zero. Qed.
Print Assumptions TemkinApprox_zero.

(* non-negativity needs tht <= 4 (L (1 - L) <= 1/4); the library bounds only say 0 <= tht *)
Theorem TemkinApprox_nonneg : forall n_m K tht p,
  TemkinApprox_bounds n_m K tht -> tht <= 4 -> 0 <= p ->
  0 <= TemkinApprox_loading n_m K tht p.
Proof. exact TemkinApprox_nonneg. Qed.
Print Assumptions TemkinApprox_nonneg.

Theorem TemkinApprox_saturation : forall n_m K tht p,
  TemkinApprox_bounds n_m K tht -> 0 < n_m -> 0 <= p ->
  TemkinApprox_loading n_m K tht p < n_m.
Proof. exact TemkinApprox_saturation. Qed.
Print Assumptions TemkinApprox_saturation.

Theorem TemkinApprox_monotone : forall n_m K tht p q,
  TemkinApprox_bounds n_m K tht -> tht <= 3 -> 0 <= p -> p <= q ->
  TemkinApprox_loading n_m K tht p <= TemkinApprox_loading n_m K tht q.
Proof. exact TemkinApprox_monotone. Qed.
Print Assumptions TemkinApprox_monotone.

(* strict also at tht = 3: dn/dL = 1 + tht (3 L^2 - 2 L) vanishes at the single point L = 1/3 only *)
Theorem TemkinApprox_strictly_monotone : forall n_m K tht p q,
  0 < n_m -> 0 < K -> 0 <= tht -> tht <= 3 -> 0 <= p -> p < q ->
  TemkinApprox_loading n_m K tht p < TemkinApprox_loading n_m K tht q.
Proof. exact TemkinApprox_strictly_monotone. Qed.
Print Assumptions TemkinApprox_strictly_monotone.

(* Henry slope *)
Theorem TemkinApprox_henry : forall n_m K tht,
  is_derive (TemkinApprox_loading n_m K tht) 0 (n_m * K).
Proof. exact TemkinApprox_henry. Qed.
Print Assumptions TemkinApprox_henry.

(* any two non-negative roots the solver may return for the same loading coincide *)
Theorem TemkinApprox_root_unique : forall n_m K tht n x1 x2,
  0 < n_m -> 0 < K -> 0 <= tht -> tht <= 3 ->
  0 <= x1 -> 0 <= x2 ->
  TemkinApprox_pressure_spec n_m K tht n x1 -> TemkinApprox_pressure_spec n_m K tht n x2 -> x1 = x2.
Proof. exact TemkinApprox_root_unique. Qed.
Print Assumptions TemkinApprox_root_unique.

(* the exact root is a fixed point of loading-after-pressure and pressure-after-loading *)
Theorem TemkinApprox_inverse_lp : forall n_m K tht p x,
  0 < n_m -> 0 < K -> 0 <= tht -> tht <= 3 -> 0 <= p -> 0 <= x ->
  TemkinApprox_pressure_spec n_m K tht (TemkinApprox_loading n_m K tht p) x -> x = p.
Proof. exact TemkinApprox_inverse_lp. Qed.
Print Assumptions TemkinApprox_inverse_lp.

(* ... but the closed form does not vanish at zero pressure: the integration constant n_m tht / 2 is kept *)
Theorem TemkinApprox_spread_at_zero : forall n_m K tht,
  TemkinApprox_spreading_pressure n_m K tht 0 = n_m * tht / 2.
Proof. exact TemkinApprox_spread_at_zero. Qed.
Print Assumptions TemkinApprox_spread_at_zero.

(* what the integral from zero really is: closed form minus the constant *)
Theorem TemkinApprox_spread_from_zero : forall n_m K tht p,
  0 <= K -> 0 <= p ->
  is_RInt (fun x => TemkinApprox_loading n_m K tht x / x) 0 p
          (TemkinApprox_spreading_pressure n_m K tht p - n_m * tht / 2).
Proof. exact TemkinApprox_spread_from_zero. Qed.
Print Assumptions TemkinApprox_spread_from_zero.

(* the hypotheses of the main theorems are satisfiable *)
Example TemkinApprox_monotone_example : TemkinApprox_loading 5 5 3 1 < TemkinApprox_loading 5 5 3 2.
Proof. exact TemkinApprox_monotone_example. Qed.
Print Assumptions TemkinApprox_monotone_example.

(* the declared bounds leave tht unbounded above; beyond 4 the approximation yields NEGATIVE loadings (L (1 - tht L (1 - L)) with L (1-L) <= 1/4):
   the non-negativity clause of the property is refuted for such in-bounds parameters (TemkinApprox_nonneg above needs tht <= 4) *)
Theorem TemkinApprox_nonneg_refuted : exists n_m K tht p,
  TemkinApprox_bounds n_m K tht /\ 0 <= p /\ TemkinApprox_loading_def n_m K tht p /\ TemkinApprox_loading n_m K tht p < 0.
Proof. exact TemkinApprox_nonneg_refuted. Qed.
Print Assumptions TemkinApprox_nonneg_refuted.

(* ======== Freundlich ======== *)
(* ---------------- C10 *)
Theorem Freundlich_inverse_lp : forall K m p,
  Freundlich_bounds K m -> 0 < K -> 0 < m -> 0 < p ->
  Freundlich_loading_def K m p /\ Freundlich_pressure_def K m (Freundlich_loading K m p) /\
  Freundlich_pressure K m (Freundlich_loading K m p) = p.
Proof. exact Freundlich_inverse_lp. Qed.
Print Assumptions Freundlich_inverse_lp.

Theorem Freundlich_inverse_pl : forall K m n,
  Freundlich_bounds K m -> 0 < K -> 0 < m -> 0 < n ->
  Freundlich_pressure_def K m n /\ Freundlich_loading_def K m (Freundlich_pressure K m n) /\
  Freundlich_loading K m (Freundlich_pressure K m n) = n.
Proof. exact Freundlich_inverse_pl. Qed.
Print Assumptions Freundlich_inverse_pl.

(* zero pressure: 0 ** (1/m) is defined (and 0) exactly because 1/m > 0 *)
Theorem Freundlich_zero : forall K m,
  0 < m -> Freundlich_loading_def K m 0 /\ Freundlich_loading K m 0 = 0.
Proof. exact Freundlich_zero. Qed.
Print Assumptions Freundlich_zero.

Theorem Freundlich_zero_point_inverse : forall K m,
  K <> 0 -> 0 < m ->
  Freundlich_pressure_def K m 0 /\ Freundlich_pressure K m 0 = 0.
Proof. exact Freundlich_zero_point_inverse. Qed.
Print Assumptions Freundlich_zero_point_inverse.

Theorem Freundlich_nonneg : forall K m p,
  Freundlich_bounds K m -> 0 < m -> 0 <= p -> 0 <= Freundlich_loading K m p.
Proof. exact Freundlich_nonneg. Qed.
Print Assumptions Freundlich_nonneg.

Theorem Freundlich_strictly_monotone : forall K m p q,
  0 < K -> 0 < m -> 0 <= p -> p < q ->
  Freundlich_loading K m p < Freundlich_loading K m q.
Proof. exact Freundlich_strictly_monotone. Qed.
Print Assumptions Freundlich_strictly_monotone.

Theorem Freundlich_monotone : forall K m p q,
  Freundlich_bounds K m -> 0 < m -> 0 <= p -> p <= q ->
  Freundlich_loading K m p <= Freundlich_loading K m q.
Proof. exact Freundlich_monotone. Qed.
Print Assumptions Freundlich_monotone.

Theorem Freundlich_spread_zero : forall K m,
  0 < m ->
  Freundlich_spreading_pressure_def K m 0 /\ Freundlich_spreading_pressure K m 0 = 0.
Proof. exact Freundlich_spread_zero. Qed.
Print Assumptions Freundlich_spread_zero.

Example Freundlich_hyps_sat : Freundlich_bounds 2 3 /\ Freundlich_loading_def 2 3 1 /\ Freundlich_loading 2 3 1 = 2.
Proof. exact Freundlich_hyps_sat. Qed.
Print Assumptions Freundlich_hyps_sat.

(* ======== Toth ======== *)
(* ---------------- C10 *)
Theorem Toth_inverse_lp : forall n_m K t p,
  Toth_bounds n_m K t -> 0 < n_m -> 0 < K -> 0 < t -> 0 < p ->
  Toth_loading_def n_m K t p /\ Toth_pressure_def n_m K t (Toth_loading n_m K t p) /\
  Toth_pressure n_m K t (Toth_loading n_m K t p) = p.
Proof. exact Toth_inverse_lp. Qed.
Print Assumptions Toth_inverse_lp.

Theorem Toth_inverse_pl : forall n_m K t n,
  Toth_bounds n_m K t -> 0 < n_m -> 0 < K -> 0 < t -> 0 < n < n_m ->
  Toth_pressure_def n_m K t n /\ Toth_loading_def n_m K t (Toth_pressure n_m K t n) /\
  Toth_loading n_m K t (Toth_pressure n_m K t n) = n.
Proof. exact Toth_inverse_pl. Qed.
Print Assumptions Toth_inverse_pl.

Theorem Toth_zero : forall n_m K t,
  0 < t -> Toth_loading_def n_m K t 0 /\ Toth_loading n_m K t 0 = 0.
Proof. exact Toth_zero. Qed.
Print Assumptions Toth_zero.

Theorem Toth_zero_point_inverse : forall n_m K t,
  n_m <> 0 -> K <> 0 -> 0 < t ->
  Toth_pressure_def n_m K t 0 /\ Toth_pressure n_m K t 0 = 0.
Proof. exact Toth_zero_point_inverse. Qed.
Print Assumptions Toth_zero_point_inverse.

Theorem Toth_nonneg : forall n_m K t p,
  Toth_bounds n_m K t -> 0 < t -> 0 <= p -> 0 <= Toth_loading n_m K t p.
Proof. exact Toth_nonneg. Qed.
Print Assumptions Toth_nonneg.

Theorem Toth_saturation : forall n_m K t p,
  Toth_bounds n_m K t -> 0 < n_m -> 0 < t -> 0 <= p -> Toth_loading n_m K t p < n_m.
Proof. exact Toth_saturation. Qed.
Print Assumptions Toth_saturation.

Theorem Toth_strictly_monotone : forall n_m K t p q,
  0 < n_m -> 0 < K -> 0 < t -> 0 <= p -> p < q ->
  Toth_loading n_m K t p < Toth_loading n_m K t q.
Proof. exact Toth_strictly_monotone. Qed.
Print Assumptions Toth_strictly_monotone.

Theorem Toth_monotone : forall n_m K t p q,
  Toth_bounds n_m K t -> 0 < t -> 0 <= p -> p <= q ->
  Toth_loading n_m K t p <= Toth_loading n_m K t q.
Proof. exact Toth_monotone. Qed.
Print Assumptions Toth_monotone.

Example Toth_hyps_sat : Toth_bounds 2 1 1 /\ Toth_loading 2 1 1 1 = 1.
Proof. exact Toth_hyps_sat. Qed.
Print Assumptions Toth_hyps_sat.

(* ======== DR ======== *)
(* the adsorption potential over e: A/e = minus_rt ln p / e is non-negative on 0 < p <= 1 and decreasing in p *)
Theorem DR_potential_nonneg : forall minus_rt e p,
  minus_rt < 0 -> 0 < e -> 0 < p <= 1 -> 0 <= minus_rt * ln p / e.
Proof. exact DR_potential_nonneg. Qed.
Print Assumptions DR_potential_nonneg.

(* ---------------- C10 *)
Theorem DR_inverse_lp : forall minus_rt n_m e p,
  DR_bounds n_m e -> minus_rt < 0 -> 0 < n_m -> 0 < e -> 0 < p <= 1 ->
  DR_loading_def minus_rt n_m e p /\ DR_pressure_def minus_rt n_m e (DR_loading minus_rt n_m e p) /\
  DR_pressure minus_rt n_m e (DR_loading minus_rt n_m e p) = p.
Proof. exact DR_inverse_lp. Qed.
Print Assumptions DR_inverse_lp.

Theorem DR_inverse_pl : forall minus_rt n_m e n,
  DR_bounds n_m e -> minus_rt < 0 -> 0 < n_m -> 0 < e -> 0 < n <= n_m ->
  DR_pressure_def minus_rt n_m e n /\ DR_loading_def minus_rt n_m e (DR_pressure minus_rt n_m e n) /\
  DR_loading minus_rt n_m e (DR_pressure minus_rt n_m e n) = n.
Proof. exact DR_inverse_pl. Qed.
Print Assumptions DR_inverse_pl.

Theorem DR_nonneg : forall minus_rt n_m e p,
  DR_bounds n_m e -> DR_loading_def minus_rt n_m e p ->
  0 <= DR_loading minus_rt n_m e p.
Proof. exact DR_nonneg. Qed.
Print Assumptions DR_nonneg.

Theorem DR_saturation : forall minus_rt n_m e p,
  DR_bounds n_m e -> DR_loading_def minus_rt n_m e p ->
  DR_loading minus_rt n_m e p <= n_m.
Proof. exact DR_saturation. Qed.
Print Assumptions DR_saturation.

Theorem DR_monotone : forall minus_rt n_m e p q,
  DR_bounds n_m e -> minus_rt < 0 -> 0 < e -> 0 < p -> p <= q -> q <= 1 ->
  DR_loading minus_rt n_m e p <= DR_loading minus_rt n_m e q.
Proof. exact DR_monotone. Qed.
Print Assumptions DR_monotone.

Theorem DR_strictly_monotone : forall minus_rt n_m e p q,
  minus_rt < 0 -> 0 < n_m -> 0 < e -> 0 < p -> p < q -> q <= 1 ->
  DR_loading minus_rt n_m e p < DR_loading minus_rt n_m e q.
Proof. exact DR_strictly_monotone. Qed.
Print Assumptions DR_strictly_monotone.

Theorem DR_at_one : forall minus_rt n_m e,
  e <> 0 ->
  DR_loading_def minus_rt n_m e 1 /\ DR_loading minus_rt n_m e 1 = n_m.
Proof. exact DR_at_one. Qed.
Print Assumptions DR_at_one.

Example DR_hyps_sat : DR_bounds 2 3 /\ DR_loading (-1) 2 3 1 = 2.
Proof. exact DR_hyps_sat. Qed.
Print Assumptions DR_hyps_sat.

(* ======== DA ======== *)
(* ---------------- C10 *)
Theorem DA_inverse_lp : forall minus_rt n_m e m p,
  DA_bounds n_m e m -> minus_rt < 0 -> 0 < n_m -> 0 < e -> 0 < p <= 1 ->
  DA_loading_def minus_rt n_m e m p /\ DA_pressure_def minus_rt n_m e m (DA_loading minus_rt n_m e m p) /\
  DA_pressure minus_rt n_m e m (DA_loading minus_rt n_m e m p) = p.
Proof. exact DA_inverse_lp. Qed.
Print Assumptions DA_inverse_lp.

Theorem DA_inverse_pl : forall minus_rt n_m e m n,
  DA_bounds n_m e m -> minus_rt < 0 -> 0 < n_m -> 0 < e -> 0 < n <= n_m ->
  DA_pressure_def minus_rt n_m e m n /\ DA_loading_def minus_rt n_m e m (DA_pressure minus_rt n_m e m n) /\
  DA_loading minus_rt n_m e m (DA_pressure minus_rt n_m e m n) = n.
Proof. exact DA_inverse_pl. Qed.
Print Assumptions DA_inverse_pl.

Theorem DA_nonneg : forall minus_rt n_m e m p,
  DA_bounds n_m e m -> DA_loading_def minus_rt n_m e m p ->
  0 <= DA_loading minus_rt n_m e m p.
Proof. exact DA_nonneg. Qed.
Print Assumptions DA_nonneg.

Theorem DA_saturation : forall minus_rt n_m e m p,
  DA_bounds n_m e m -> DA_loading_def minus_rt n_m e m p ->
  DA_loading minus_rt n_m e m p <= n_m.
Proof. exact DA_saturation. Qed.
Print Assumptions DA_saturation.

Theorem DA_monotone : forall minus_rt n_m e m p q,
  DA_bounds n_m e m -> minus_rt < 0 -> 0 < e -> 0 < p -> p <= q -> q <= 1 ->
  DA_loading minus_rt n_m e m p <= DA_loading minus_rt n_m e m q.
Proof. exact DA_monotone. Qed.
Print Assumptions DA_monotone.

Theorem DA_strictly_monotone : forall minus_rt n_m e m p q,
  DA_bounds n_m e m -> minus_rt < 0 -> 0 < n_m -> 0 < e ->
  0 < p -> p < q -> q <= 1 ->
  DA_loading minus_rt n_m e m p < DA_loading minus_rt n_m e m q.
Proof. exact DA_strictly_monotone. Qed.
Print Assumptions DA_strictly_monotone.

Theorem DA_at_one : forall minus_rt n_m e m,
  DA_bounds n_m e m -> e <> 0 ->
  DA_loading_def minus_rt n_m e m 1 /\ DA_loading minus_rt n_m e m 1 = n_m.
Proof. exact DA_at_one. Qed.
Print Assumptions DA_at_one.

Example DA_hyps_sat : DA_bounds 2 3 2 /\ DA_loading (-1) 2 3 2 1 = 2.
Proof. exact DA_hyps_sat. Qed.
Print Assumptions DA_hyps_sat.

(* ======== JensenSeaton ======== *)
Theorem JensenSeaton_zero : forall K a b c,
  0 < a -> 0 < c ->
  JensenSeaton_loading_def K a b c 0 /\ JensenSeaton_loading K a b c 0 = 0.
Proof. exact JensenSeaton_zero. Qed.
Print Assumptions JensenSeaton_zero.

Theorem JensenSeaton_nonneg : forall K a b c p,
  JensenSeaton_bounds K a b c -> 0 < a -> 0 < c -> 0 <= p ->
  0 <= JensenSeaton_loading K a b c p.
Proof. exact JensenSeaton_nonneg. Qed.
Print Assumptions JensenSeaton_nonneg.

Theorem JensenSeaton_below_henry : forall K a b c p,
  JensenSeaton_bounds K a b c -> 0 < a -> 0 < c -> 0 <= p ->
  JensenSeaton_loading K a b c p <= K * p.
Proof. exact JensenSeaton_below_henry. Qed.
Print Assumptions JensenSeaton_below_henry.

Theorem JensenSeaton_strictly_monotone : forall K a b c p q,
  JensenSeaton_bounds K a b c -> 0 < K -> 0 < a -> 0 < c ->
  0 <= p -> p < q -> JensenSeaton_loading K a b c p < JensenSeaton_loading K a b c q.
Proof. exact JensenSeaton_strictly_monotone. Qed.
Print Assumptions JensenSeaton_strictly_monotone.

Theorem JensenSeaton_monotone : forall K a b c p q,
  JensenSeaton_bounds K a b c -> 0 < K -> 0 < a -> 0 < c ->
  0 <= p -> p <= q -> JensenSeaton_loading K a b c p <= JensenSeaton_loading K a b c q.
Proof. exact JensenSeaton_monotone. Qed.
Print Assumptions JensenSeaton_monotone.

(* any two non-negative roots the solver may return coincide, given strict monotonicity of the loading *)
Theorem JensenSeaton_root_unique_from_monotone : forall K a b c n x y,
    (forall u v, 0 <= u -> u < v -> JensenSeaton_loading K a b c u < JensenSeaton_loading K a b c v) ->
  0 <= x -> 0 <= y ->
  JensenSeaton_pressure_spec K a b c n x -> JensenSeaton_pressure_spec K a b c n y -> x = y.
Proof. exact JensenSeaton_root_unique_from_monotone. Qed.
Print Assumptions JensenSeaton_root_unique_from_monotone.

Theorem JensenSeaton_root_unique : forall K a b c n x y,
  JensenSeaton_bounds K a b c -> 0 < K -> 0 < a -> 0 < c ->
  0 <= x -> 0 <= y ->
  JensenSeaton_pressure_spec K a b c n x -> JensenSeaton_pressure_spec K a b c n y -> x = y.
Proof. exact JensenSeaton_root_unique. Qed.
Print Assumptions JensenSeaton_root_unique.

Example JensenSeaton_hyps_sat : JensenSeaton_bounds 1 1 0 1 /\ JensenSeaton_loading 1 1 0 1 1 = 1 / 2.
Proof. exact JensenSeaton_hyps_sat. Qed.
Print Assumptions JensenSeaton_hyps_sat.

(* ======== Virial ======== *)
Theorem Virial_zero : forall K A B C,
  0 < K -> Virial_pressure_def K A B C 0 /\ Virial_pressure K A B C 0 = 0.
Proof. exact Virial_zero. Qed.
Print Assumptions Virial_zero.

Theorem Virial_nonneg : forall K A B C n,
  0 < K -> 0 <= n -> 0 <= Virial_pressure K A B C n.
Proof. exact Virial_nonneg. Qed.
Print Assumptions Virial_nonneg.

(* Henry slope: dp/dn at zero loading is 1/K, i.e. the loading has initial slope K *)
Theorem Virial_henry : forall K A B C,
  0 < K -> is_derive (Virial_pressure K A B C) 0 (1 / K).
Proof. exact Virial_henry. Qed.
Print Assumptions Virial_henry.

Theorem Virial_monotone_when_nonneg : forall K A B C u v,
  Virial_bounds K A B C -> 0 < K -> 0 <= A -> 0 <= B -> 0 <= C ->
  0 <= u -> u < v -> Virial_pressure K A B C u < Virial_pressure K A B C v.
Proof. exact Virial_monotone_when_nonneg. Qed.
Print Assumptions Virial_monotone_when_nonneg.

Theorem Virial_root_unique : forall K A B C p x y,
  Virial_bounds K A B C -> 0 < K -> 0 <= A -> 0 <= B -> 0 <= C ->
  0 <= x -> 0 <= y ->
  Virial_loading_spec K A B C p x -> Virial_loading_spec K A B C p y -> x = y.
Proof. exact Virial_root_unique. Qed.
Print Assumptions Virial_root_unique.

Theorem Virial_root_unique_from_monotone : forall K A B C p x y,
    (forall u v, 0 <= u -> u < v -> Virial_pressure K A B C u < Virial_pressure K A B C v) ->
  0 <= x -> 0 <= y ->
  Virial_loading_spec K A B C p x -> Virial_loading_spec K A B C p y -> x = y.
Proof. exact Virial_root_unique_from_monotone. Qed.
Print Assumptions Virial_root_unique_from_monotone.

Example Virial_hyps_sat : Virial_bounds 1 0 0 0 /\ Virial_pressure_def 1 0 0 0 2 /\ Virial_pressure 1 0 0 0 2 = 2.
Proof. exact Virial_hyps_sat. Qed.
Print Assumptions Virial_hyps_sat.

(* ======== VST ======== *)
(* ---------------- FHVST *)
Theorem FHVST_zero : forall n_m K a1v,
  n_m <> 0 -> K <> 0 ->
  FHVST_pressure_def n_m K a1v 0 /\ FHVST_pressure n_m K a1v 0 = 0.
Proof. exact FHVST_zero. Qed.
Print Assumptions FHVST_zero.

Theorem FHVST_nonneg : forall n_m K a1v n,
  FHVST_bounds n_m K a1v -> 0 < n_m -> 0 < K -> 0 <= n < n_m ->
  0 <= FHVST_pressure n_m K a1v n.
Proof. exact FHVST_nonneg. Qed.
Print Assumptions FHVST_nonneg.

Theorem FHVST_strictly_monotone : forall n_m K a1v u v,
  FHVST_bounds n_m K a1v -> 0 < n_m -> 0 < K -> -1 < a1v ->
  0 <= u -> u < v -> v < n_m -> FHVST_pressure n_m K a1v u < FHVST_pressure n_m K a1v v.
Proof. exact FHVST_strictly_monotone. Qed.
Print Assumptions FHVST_strictly_monotone.

Theorem FHVST_root_unique_from_monotone : forall n_m K a1v p x y,
    (forall u v, 0 <= u -> u < v -> v < n_m -> FHVST_pressure n_m K a1v u < FHVST_pressure n_m K a1v v) ->
  0 <= x < n_m -> 0 <= y < n_m ->
  FHVST_loading_spec n_m K a1v p x -> FHVST_loading_spec n_m K a1v p y -> x = y.
Proof. exact FHVST_root_unique_from_monotone. Qed.
Print Assumptions FHVST_root_unique_from_monotone.

Theorem FHVST_root_unique : forall n_m K a1v p x y,
  FHVST_bounds n_m K a1v -> 0 < n_m -> 0 < K -> -1 < a1v ->
  0 <= x < n_m -> 0 <= y < n_m ->
  FHVST_loading_spec n_m K a1v p x -> FHVST_loading_spec n_m K a1v p y -> x = y.
Proof. exact FHVST_root_unique. Qed.
Print Assumptions FHVST_root_unique.

(* ---------------- WVST *)
Theorem WVST_zero : forall n_m K L1v Lv1,
  n_m <> 0 -> K <> 0 -> L1v <> 0 ->
  WVST_pressure_def n_m K L1v Lv1 0 /\ WVST_pressure n_m K L1v Lv1 0 = 0.
Proof. exact WVST_zero. Qed.
Print Assumptions WVST_zero.

Theorem WVST_root_unique_from_monotone : forall n_m K L1v Lv1 p x y,
    (forall u v, 0 <= u -> u < v -> v < n_m -> WVST_pressure n_m K L1v Lv1 u < WVST_pressure n_m K L1v Lv1 v) ->
  0 <= x < n_m -> 0 <= y < n_m ->
  WVST_loading_spec n_m K L1v Lv1 p x -> WVST_loading_spec n_m K L1v Lv1 p y -> x = y.
Proof. exact WVST_root_unique_from_monotone. Qed.
Print Assumptions WVST_root_unique_from_monotone.

Example FHVST_hyps_sat : FHVST_bounds 2 1 0 /\ FHVST_pressure_def 2 1 0 1 /\ FHVST_pressure 2 1 0 1 = 2.
Proof. exact FHVST_hyps_sat. Qed.
Print Assumptions FHVST_hyps_sat.

(* loading obtained by numerical inversion is strictly increasing in the pressure (any roots in the physical range) *)
Theorem FHVST_loading_increasing : forall n_m K a1v p q x y,
  FHVST_bounds n_m K a1v -> 0 < n_m -> 0 < K -> -1 < a1v ->
  0 <= x < n_m -> 0 <= y < n_m ->
  FHVST_loading_spec n_m K a1v p x -> FHVST_loading_spec n_m K a1v q y -> p < q -> x < y.
Proof. exact FHVST_loading_increasing. Qed.
Print Assumptions FHVST_loading_increasing.

Theorem Virial_loading_increasing : forall K A B C p q x y,
  Virial_bounds K A B C -> 0 < K -> 0 <= A -> 0 <= B -> 0 <= C ->
  0 <= x -> 0 <= y ->
  Virial_loading_spec K A B C p x -> Virial_loading_spec K A B C q y -> p < q -> x < y.
Proof. exact Virial_loading_increasing. Qed.
Print Assumptions Virial_loading_increasing.

(* ======== ZeroPoint: the four models whose pressure() ends with the nan_to_num guard ======== *)
(* For EVERY parameter vector inside the declared bounds - including the degenerate points C = N, C = 1, Kb = 0, K = 0, n_m = 0 where
   the quotient is 0/0 - the zero point is mapped to itself in both orders, with all sqrt / denominator side conditions proved.
   (Since c2b035c the guard is `nan_to_num(res)` without copy=False and works for Python floats, numpy scalars and 0-d arrays too; the
   translator refuses the old spelling, and the harness evaluates the zero point with every input kind.) *)
Theorem BET_zero_roundtrip : forall n_m C N, BET_bounds n_m C N ->
  BET_loading_def n_m C N 0 /\ BET_pressure_def n_m C N (BET_loading n_m C N 0) /\
  BET_pressure n_m C N (BET_loading n_m C N 0) = 0 /\
  BET_loading n_m C N (BET_pressure n_m C N 0) = 0.
Proof. exact BET_zero_roundtrip. Qed.
Print Assumptions BET_zero_roundtrip.
Theorem GAB_zero_roundtrip : forall n_m C K, GAB_bounds n_m C K ->
  GAB_loading_def n_m C K 0 /\ GAB_pressure_def n_m C K (GAB_loading n_m C K 0) /\
  GAB_pressure n_m C K (GAB_loading n_m C K 0) = 0 /\
  GAB_loading n_m C K (GAB_pressure n_m C K 0) = 0.
Proof. exact GAB_zero_roundtrip. Qed.
Print Assumptions GAB_zero_roundtrip.
Theorem DSLangmuir_zero_point : forall n_m1 K1 n_m2 K2, DSLangmuir_bounds n_m1 K1 n_m2 K2 ->
  DSLangmuir_pressure n_m1 K1 n_m2 K2 0 = 0 /\ DSLangmuir_pressure_def n_m1 K1 n_m2 K2 0.
Proof. exact DSLangmuir_zero_point. Qed.
Print Assumptions DSLangmuir_zero_point.
Theorem DSLangmuir_zero_roundtrip : forall n_m1 K1 n_m2 K2, DSLangmuir_bounds n_m1 K1 n_m2 K2 ->
  DSLangmuir_loading_def n_m1 K1 n_m2 K2 0 /\ DSLangmuir_pressure_def n_m1 K1 n_m2 K2 (DSLangmuir_loading n_m1 K1 n_m2 K2 0) /\
  DSLangmuir_pressure n_m1 K1 n_m2 K2 (DSLangmuir_loading n_m1 K1 n_m2 K2 0) = 0 /\
  DSLangmuir_loading n_m1 K1 n_m2 K2 (DSLangmuir_pressure n_m1 K1 n_m2 K2 0) = 0.
Proof. exact DSLangmuir_zero_roundtrip. Qed.
Print Assumptions DSLangmuir_zero_roundtrip.
(* Quadratic: the library bounds only say 0 <= n_m; 0 <= Ka is the model's own domain (for Ka < 0 see Quadratic_zero_point_negKa) *)
Theorem Quadratic_zero_point_all : forall n_m Ka Kb, Quadratic_bounds n_m Ka Kb -> 0 <= Ka ->
  Quadratic_pressure n_m Ka Kb 0 = 0 /\ Quadratic_pressure_def n_m Ka Kb 0.
Proof. exact Quadratic_zero_point_all. Qed.
Print Assumptions Quadratic_zero_point_all.
Theorem Quadratic_zero_roundtrip : forall n_m Ka Kb, Quadratic_bounds n_m Ka Kb -> 0 <= Ka ->
  Quadratic_loading_def n_m Ka Kb 0 /\ Quadratic_pressure_def n_m Ka Kb (Quadratic_loading n_m Ka Kb 0) /\
  Quadratic_pressure n_m Ka Kb (Quadratic_loading n_m Ka Kb 0) = 0 /\
  Quadratic_loading n_m Ka Kb (Quadratic_pressure n_m Ka Kb 0) = 0.
Proof. exact Quadratic_zero_roundtrip. Qed.
Print Assumptions Quadratic_zero_roundtrip.
Example BET_zero_roundtrip_degenerate_example :
  BET_bounds 5 (1/2) (1/2) /\ BET_pressure 5 (1/2) (1/2) (BET_loading 5 (1/2) (1/2) 0) = 0.
Proof. exact BET_zero_roundtrip_degenerate_example. Qed.

(* ======== ownership of the parameter dictionary (bindings GENERATED from IsothermBaseModel.__init__ / to_dict(): Gen/ModelInitGen.v) ======== *)
From Coq Require Import String.
From PG Require Import Models.ParamHeap Gen.ModelInitGen Models.ParamOwnership.
Open Scope string_scope.

Theorem model_parameters_are_a_copy : forall names h src, live h src ->
  let r := construct Base_init_params names h src in
  snd r <> src /\ ~ live h (snd r) /\ live (fst r) (snd r) /\
  (forall k, In k names -> cell (fst r) (snd r) k = cell h src k) /\
  (forall i, live h i -> cell (fst r) i = cell h i).
Proof. exact model_parameters_are_a_copy. Qed.
Print Assumptions model_parameters_are_a_copy.

Theorem model_unaffected_by_stores_elsewhere : forall names h src ws,
  live h src -> (forall w, In w ws -> live h (target w)) ->
  let r := construct Base_init_params names h src in
  forall k, In k names -> cell (writes (fst r) ws) (snd r) k = cell h src k.
Proof. exact model_unaffected_by_stores_elsewhere. Qed.
Print Assumptions model_unaffected_by_stores_elsewhere.

Theorem parameter_sweep_keeps_earlier_models : forall names h src ws,
  live h src -> (forall w, In w ws -> target w = src) ->
  let r1 := construct Base_init_params names h src in
  let h2 := writes (fst r1) ws in
  let r2 := construct Base_init_params names h2 src in
  forall k, In k names ->
    cell (fst r2) (snd r1) k = cell h src k /\ cell (fst r2) (snd r2) k = cell h2 src k.
Proof. exact parameter_sweep_keeps_earlier_models. Qed.
Print Assumptions parameter_sweep_keeps_earlier_models.

Theorem refitting_a_clone_keeps_the_original : forall names h src ws,
  live h src ->
  let r1 := construct Base_init_params names h src in
  let r2 := to_dict_parameters Base_to_dict_parameters (fst r1) (snd r1) in
  let r3 := construct Base_init_params names (fst r2) (snd r2) in
  (forall w, In w ws -> target w = snd r3) ->
  forall k, In k names -> cell (writes (fst r3) ws) (snd r1) k = cell h src k /\ snd r3 <> snd r1.
Proof. exact refitting_a_clone_keeps_the_original. Qed.
Print Assumptions refitting_a_clone_keeps_the_original.

Theorem aliasing_constructor_shares_refuted :
  exists names h src ws k, live h src /\ (forall w, In w ws -> target w = src) /\ In k names /\
    let r := construct Alias names h src in cell (writes (fst r) ws) (snd r) k <> cell h src k.
Proof. exact aliasing_constructor_shares_refuted. Qed.
Print Assumptions aliasing_constructor_shares_refuted.

Example sweep_example :
  let r1 := construct Base_init_params ["K"] demo_heap 0%nat in
  let h2 := writes (fst r1) [(0%nat, "K", 1%R)] in
  let r2 := construct Base_init_params ["K"] h2 0%nat in
  cell (fst r2) (snd r1) "K" = Some 0%R /\ cell (fst r2) (snd r2) "K" = Some 1%R.
Proof. exact sweep_example. Qed.
