(* C17 - Horvath-Kawazoe pore widths solve the method's potential equation.   PARTIAL proof.
   hk_slit_potential / hk_*_bound / hk_*_post / hk_tail / solve_hk_objective ... are the GENERATED translation (Gen/HkGen.v,
   tools/py2v_hk.py) of psd_micro.py / models_hk.py; hk_published_phi is the slit equation of Horvath & Kawazoe written by hand
   from the literature formula; scipy.optimize.minimize_scalar is the function `minimise`, whose assumed contract
   `minimiser_contract` (a GLOBAL minimiser on the bracket) is an explicit premise.  Not covered by any theorem: that Brent's
   bounded method meets this contract (local minima, xatol), the cylinder/sphere and multi-layer Rege-Yang potentials, binary64
   rounding.  Property theorems only, each closed by `exact` + Print Assumptions. *)
From Coq Require Import String Reals Lra QArith ZArith List Bool.
From PG Require Import Lib.Num Charact.HkLib Gen.HkGen Charact.Hk Charact.HkDispatch Charact.HkMono Charact.HkRyLayers.
Import ListNotations.
Open Scope R_scope.

(* the generated slit closure is defined and equals the published equation: every parameter set, temperature, L > d_g + d_h *)
Theorem hk_slit_matches_published : forall T (ads : hkads RNum) (mat : hkmat RNum) L,
  0 < T -> physical_ads ads -> physical_mat mat ->
  a_molecular_diameter _ ads + m_molecular_diameter _ mat < L ->
  hk_slit_potential_def RNum T ads mat L /\
  hk_slit_potential RNum T ads mat L =
    hk_published_phi RNum (py_const RNum) T
      (a_molecular_diameter _ ads) (a_polarizability _ ads) (a_magnetic_susceptibility _ ads) (a_surface_density _ ads)
      (m_molecular_diameter _ mat) (m_polarizability _ mat) (m_magnetic_susceptibility _ mat) (m_surface_density _ mat) L.
Proof. exact hk_slit_matches_published_l. Qed.
Print Assumptions hk_slit_matches_published.

(* the constants the code inlines are the literature values; sigma/d0 = (2/5)^(1/6) to 5e-8 *)
Theorem hk_constants_are_literature :
  Rabs (c_NA _ (py_const RNum) - 6.02214076e23) <= 1e-15 * 6.02214076e23 /\
  Rabs (c_R _ (py_const RNum) - 8.314462618) <= 1e-9 /\
  Rabs (c_me _ (py_const RNum) - 9.1093837e-31) <= 1e-8 * 9.1093837e-31 /\
  c_c _ (py_const RNum) = 299792458 /\
  Rabs (k_m3 _ (py_const RNum) - 1e-27) <= 1e-15 * 1e-27 /\
  Rabs (k_m _ (py_const RNum) - 1e-9) <= 1e-15 * 1e-9 /\
  Rabs (k_sigma _ (py_const RNum) - Rpower (2 / 5) (1 / 6)) <= 5e-8.
Proof. exact py_const_literature. Qed.
Print Assumptions hk_constants_are_literature.

Theorem hk_builtin_parameter_sets :
  map fst (adsorbent_models RNum) = ["Carbon(HK)"%string; "AlSiOxideIon"%string; "AlPhOxideIon"%string] /\
  Forall2 (fun (m : hkmat RNum) (v : R * R * R * R) =>
             let '(d, a, x, n) := v in
             near (m_molecular_diameter _ m) d /\ near (m_polarizability _ m) a /\
             near (m_magnetic_susceptibility _ m) x /\ near (m_surface_density _ m) n)
          (map snd (adsorbent_models RNum))
          [ (0.34, 1.02e-3, 1.35e-7, 3.845e19); (0.276, 2.5e-3, 1.3e-8, 1.315e19); (0.260, 2.5e-3, 1.3e-8, 1.000e19) ].
Proof. exact hk_builtin_parameter_sets_l. Qed.
Print Assumptions hk_builtin_parameter_sets.

(* search bracket and width post-processing per geometry: slit [d_g + d_h, 50], width = L - d_h;
   cylinder / sphere [d_eff, 50], width = 2 L - d_h (HK and RY) *)
Theorem hk_slit_bracket_and_width : forall T (ads : hkads RNum) (mat : hkmat RNum) w,
  hk_slit_bound RNum T ads mat = a_molecular_diameter _ ads + m_molecular_diameter _ mat /\
  hk_slit_post RNum T ads mat w = w - m_molecular_diameter _ mat /\
  ry_slit_bound RNum T ads mat = a_molecular_diameter _ ads + m_molecular_diameter _ mat /\
  ry_slit_post RNum T ads mat w = w - m_molecular_diameter _ mat /\
  hk_slit_geo RNum = 1 /\ ry_slit_geo RNum = 1.
Proof. exact hk_slit_bound_post_l. Qed.
Print Assumptions hk_slit_bracket_and_width.
Theorem hk_round_bracket_and_width : forall T (ads : hkads RNum) (mat : hkmat RNum) w,
  let d_eff := (a_molecular_diameter _ ads + m_molecular_diameter _ mat) / 2 in
  let post := 2 * w - m_molecular_diameter _ mat in
  (hk_cylinder_bound RNum T ads mat = d_eff /\ hk_cylinder_post RNum T ads mat w = post) /\
  (hk_sphere_bound RNum T ads mat = d_eff /\ hk_sphere_post RNum T ads mat w = post) /\
  (ry_cylinder_bound RNum T ads mat = d_eff /\ ry_cylinder_post RNum T ads mat w = post) /\
  (ry_sphere_bound RNum T ads mat = d_eff /\ ry_sphere_post RNum T ads mat w = post).
Proof. exact hk_round_bound_post_l. Qed.
Print Assumptions hk_round_bracket_and_width.

(* the distribution tail (same generated code for HK and RY), for data lists of ANY length; W = post-processed solved widths *)
Theorem hk_reported_width_is_midpoint : forall (ads : hkads RNum) (W P Ld : list R),
  (length W <= length Ld)%nat -> forall i, (i + 1 < length W)%nat ->
  nth i (fst (fst (hk_tail RNum ads W P Ld))) 0 = (nth i W 0 + nth (i + 1) W 0) / 2.
Proof. exact tail_midpoint. Qed.
Print Assumptions hk_reported_width_is_midpoint.
Theorem hk_cumulative_is_liquid_volume : forall (ads : hkads RNum) (W P Ld : list R),
  (length W <= length Ld)%nat -> forall i, (i + 1 < length W)%nat ->
  nth i (snd (hk_tail RNum ads W P Ld)) 0 = nth (i + 1) Ld 0 * a_adsorbate_molar_mass _ ads / a_liquid_density _ ads / 1000.
Proof. exact tail_cumulative. Qed.
Print Assumptions hk_cumulative_is_liquid_volume.
Theorem hk_distribution_is_difference_quotient : forall (ads : hkads RNum) (W P Ld : list R),
  (length W <= length Ld)%nat -> forall i, (i + 1 < length W)%nat ->
  nth i (snd (fst (hk_tail RNum ads W P Ld))) 0 =
  (liquid_volume ads (nth (i + 1) Ld 0) - liquid_volume ads (nth i Ld 0)) / (nth (i + 1) W 0 - nth i W 0).
Proof. exact tail_difference_quotient. Qed.
Print Assumptions hk_distribution_is_difference_quotient.
Theorem hk_tail_is_defined : forall (ads : hkads RNum) W P Ld,
  length W = length Ld -> a_liquid_density _ ads <> 0 ->
  (forall i, (i + 1 < length W)%nat -> nth (i + 1) W 0 <> nth i W 0) ->
  hk_tail_def RNum ads W P Ld.
Proof. exact hk_tail_defined. Qed.
Print Assumptions hk_tail_is_defined.
Theorem hk_tail_lengths : forall (ads : hkads RNum) (W P Ld : list R), (length W <= length Ld)%nat ->
  let '(w, d, v) := hk_tail RNum ads W P Ld in
  length w = (length W - 1)%nat /\ length d = (length W - 1)%nat /\ length v = (length W - 1)%nat.
Proof. exact tail_lengths. Qed.
Print Assumptions hk_tail_lengths.
Theorem ry_tail_is_the_same : forall (ads : hkads RNum) (W P Ld : list R), ry_tail RNum ads W P Ld = hk_tail RNum ads W P Ld.
Proof. exact ry_tail_is_hk_tail. Qed.
Print Assumptions ry_tail_is_the_same.

(* solver: under the assumed contract, every solved width (any number of pressures) solves the equation at its pressure whenever
   the equation has a solution inside the bracket; PARTIAL: the contract itself is validated numerically, not proved *)
Theorem solved_widths_solve_equation_partial : forall minimise, minimiser_contract minimise ->
  forall hk_fun bound geo pressure i,
  bound < 50 -> (i < length (solve_hk minimise hk_fun bound geo pressure))%nat ->
  (exists L, bound <= L <= 50 /\ exp (hk_fun L) = nth i pressure 0) ->
  bound <= nth i (solve_hk minimise hk_fun bound geo pressure) 0 <= 50 /\
  exp (hk_fun (nth i (solve_hk minimise hk_fun bound geo pressure) 0)) = nth i pressure 0.
Proof. exact solve_hk_each_l. Qed.
Print Assumptions solved_widths_solve_equation_partial.
Theorem solved_width_solves_cheng_yang_equation_partial : forall minimise, minimiser_contract minimise ->
  forall hk_fun bound p sf,
  bound < 50 -> (exists L, bound <= L <= 50 /\ exp (hk_fun L - sf) = p) ->
  let x := minimise (solve_hk_cy_objective hk_fun sf p) bound (solve_hk_upper RNum) in
  bound <= x <= 50 /\ exp (hk_fun x - sf) = p.
Proof. exact solved_width_solves_cy_l. Qed.
Print Assumptions solved_width_solves_cheng_yang_equation_partial.

(* the Cheng-Yang loop, list level: solved width i solves the corrected equation with the coverage of point i,
   theta_i = n_i / (1.01 max n), sf_i = 1 + ln(1 - theta_i) / theta_i *)
Theorem cheng_yang_widths_solve_equation_partial : forall minimise, minimiser_contract minimise ->
  forall hk_fun bound geo pressure loading i,
  bound < 50 -> length pressure = length loading ->
  (i < length (solve_hk_cy minimise hk_fun bound geo pressure loading))%nat ->
  let sf := solve_hk_cy_sf_corr (solve_hk_cy_coverage RNum (list_max loading) (nth i loading 0)) in
  (exists L, bound <= L <= 50 /\ exp (hk_fun L - sf) = nth i pressure 0) ->
  bound <= nth i (solve_hk_cy minimise hk_fun bound geo pressure loading) 0 <= 50 /\
  exp (hk_fun (nth i (solve_hk_cy minimise hk_fun bound geo pressure loading) 0) - sf) = nth i pressure 0.
Proof. exact solve_hk_cy_each_l. Qed.
Print Assumptions cheng_yang_widths_solve_equation_partial.

(* the HIGH-LEVEL entry point psd_microporous: the dispatch (GENERATED by evaluating psd_microporous for every accepted model
   name) is the documented one: 4 names -> (low-level function, use_cy) *)
Theorem psd_microporous_dispatch_is_documented :
  micro_psd_models = ["HK"; "HK-CY"; "RY"; "RY-CY"]%string /\
  pore_geometries = ["slit"; "cylinder"; "sphere"]%string /\
  psd_microporous_dispatch =
    [("HK", (FamHK, false)); ("HK-CY", (FamHK, true)); ("RY", (FamRY, false)); ("RY-CY", (FamRY, true))]%string.
Proof. exact dispatch_documented_l. Qed.
Print Assumptions psd_microporous_dispatch_is_documented.
Theorem psd_microporous_dispatch_by_name :
  map fst psd_microporous_dispatch = micro_psd_models /\
  (forall name f cy, dispatch_lookup name psd_microporous_dispatch = Some (f, cy) <-> name = (family_name f ++ cy_suffix cy)%string).
Proof. exact dispatch_by_name_l. Qed.
Print Assumptions psd_microporous_dispatch_by_name.
Theorem psd_microporous_solver_per_name : forall minimise phi_hk phi_ry bound geo pressure loading,
  micro_solve minimise "HK" phi_hk phi_ry bound geo pressure loading = Some (solve_hk minimise phi_hk bound geo pressure) /\
  micro_solve minimise "HK-CY" phi_hk phi_ry bound geo pressure loading = Some (solve_hk_cy minimise phi_hk bound geo pressure loading) /\
  micro_solve minimise "RY" phi_hk phi_ry bound geo pressure loading = Some (solve_hk minimise phi_ry bound geo pressure) /\
  micro_solve minimise "RY-CY" phi_hk phi_ry bound geo pressure loading = Some (solve_hk_cy minimise phi_ry bound geo pressure loading) /\
  (forall name, ~ In name micro_psd_models -> micro_solve minimise name phi_hk phi_ry bound geo pressure loading = None).
Proof. exact micro_solve_table_l. Qed.
Print Assumptions psd_microporous_solver_per_name.
(* a width obtained through psd_microporous(name) solves the equation NAMED by `name`: potential of the family the name starts
   with, Cheng-Yang term iff the name ends in "-CY" (PARTIAL: minimiser contract assumed, as above) *)
Theorem psd_microporous_widths_solve_named_equation_partial : forall minimise, minimiser_contract minimise ->
  forall name phi_hk phi_ry bound geo pressure loading solved i,
  micro_solve minimise name phi_hk phi_ry bound geo pressure loading = Some solved ->
  bound < 50 -> length pressure = length loading -> (i < length solved)%nat ->
  (exists L, bound <= L <= 50 /\ exp (named_phi name phi_hk phi_ry L - named_sf name loading i) = nth i pressure 0) ->
  bound <= nth i solved 0 <= 50 /\
  exp (named_phi name phi_hk phi_ry (nth i solved 0) - named_sf name loading i) = nth i pressure 0.
Proof. exact micro_widths_solve_named_equation_l. Qed.
Print Assumptions psd_microporous_widths_solve_named_equation_partial.

(* psd_microporous called WITHOUT an adsorbate_model: the parameter record is assigned in exactly one place, from the isotherm's own
   adsorbate - four stored properties, liquid_density(isotherm.temperature), molar_mass() - and no function of psd_micro.py writes to
   anything that outlives the call (module-level names, function attributes, arguments; no memoising decorator). Both tables are
   GENERATED from the source on every run. *)
Theorem psd_microporous_default_adsorbate_is_documented :
  psd_microporous_adsorbate_model =
    [("adsorbate_model is None",
      [("molecular_diameter", FromProperty "molecular_diameter"); ("polarizability", FromProperty "polarizability");
       ("magnetic_susceptibility", FromProperty "magnetic_susceptibility"); ("surface_density", FromProperty "surface_density");
       ("liquid_density", FromMethodAtIsothermTemperature "liquid_density"); ("adsorbate_molar_mass", FromMethod "molar_mass")])]%string.
Proof. exact adsorbate_model_documented_l. Qed.
Print Assumptions psd_microporous_default_adsorbate_is_documented.
Theorem psd_micro_keeps_no_state_between_calls : psd_micro_module_writes = [].
Proof. exact module_keeps_no_state_l. Qed.
Print Assumptions psd_micro_keeps_no_state_between_calls.
(* hence the record of a default call is a function of THIS call's adsorbate reads and temperature only, and its cumulative pore volume
   is the loading as liquid volume at the isotherm's own temperature *)
Theorem psd_microporous_default_adsorbate_record : forall (prop method0 : string -> R) (methodT : string -> R -> R) T,
  default_hkads prop method0 methodT T =
    Some (mk_hkads RNum (prop "molecular_diameter"%string) (prop "polarizability"%string) (prop "magnetic_susceptibility"%string)
                   (prop "surface_density"%string) (methodT "liquid_density"%string T) (method0 "molar_mass"%string)).
Proof. exact default_hkads_l. Qed.
Print Assumptions psd_microporous_default_adsorbate_record.
Theorem psd_microporous_default_cumulative_is_liquid_volume_at_isotherm_temperature :
  forall (prop method0 : string -> R) (methodT : string -> R -> R) T ads (W P Ld : list R),
  default_hkads prop method0 methodT T = Some ads -> (length W <= length Ld)%nat -> forall i, (i + 1 < length W)%nat ->
  nth i (snd (hk_tail RNum ads W P Ld)) 0 = nth (i + 1) Ld 0 * method0 "molar_mass"%string / methodT "liquid_density"%string T / 1000.
Proof. exact default_cumulative_l. Qed.
Print Assumptions psd_microporous_default_cumulative_is_liquid_volume_at_isotherm_temperature.

(* widths are non-decreasing in pressure on a branch where the potential increases; PARTIAL: which branch Brent lands on *)
Theorem widths_nondecreasing_partial : forall (phi : R -> R) a b L1 L2 p1 p2,
  (forall x y, a <= x -> x < y -> y <= b -> phi x < phi y) ->
  a <= L1 <= b -> a <= L2 <= b -> exp (phi L1) = p1 -> exp (phi L2) = p2 -> p1 <= p2 -> L1 <= L2.
Proof. exact widths_nondecreasing_l. Qed.
Print Assumptions widths_nondecreasing_partial.

(* the whole slit pipeline: reported width i = midpoint of solved widths i, i+1 (minus d_h), and the PUBLISHED equation at that
   width gives a pressure between p_i and p_{i+1} *)
Theorem reported_width_brackets_partial : forall minimise, minimiser_contract minimise ->
  forall T (ads : hkads RNum) (mat : hkmat RNum) pressure loading i a b,
  let phi := hk_published_phi RNum (py_const RNum) T
      (a_molecular_diameter _ ads) (a_polarizability _ ads) (a_magnetic_susceptibility _ ads) (a_surface_density _ ads)
      (m_molecular_diameter _ mat) (m_polarizability _ mat) (m_magnetic_susceptibility _ mat) (m_surface_density _ mat) in
  let d_min := a_molecular_diameter _ ads + m_molecular_diameter _ mat in
  let solved := solve_hk minimise (hk_slit_potential RNum T ads mat) (hk_slit_bound RNum T ads mat) (hk_slit_geo RNum) pressure in
  let reported := fst (fst (hk_slit_pipeline minimise T ads mat pressure loading)) in
  0 < T -> physical_ads ads -> physical_mat mat -> d_min < 50 ->
  length pressure = length loading ->
  (i + 1 < length solved)%nat ->
  d_min < a -> b <= 50 ->
  (forall x y, a <= x -> x < y -> y <= b -> phi x < phi y) ->
  (exists L, a <= L <= b /\ exp (phi L) = nth i pressure 0) ->
  (exists L, a <= L <= b /\ exp (phi L) = nth (i + 1) pressure 0) ->
  a <= nth i solved 0 <= b -> a <= nth (i + 1) solved 0 <= b ->
  nth i pressure 0 <= nth (i + 1) pressure 0 ->
  let w := nth i reported 0 in
  w = (nth i solved 0 + nth (i + 1) solved 0) / 2 - m_molecular_diameter _ mat /\
  nth i solved 0 - m_molecular_diameter _ mat <= w <= nth (i + 1) solved 0 - m_molecular_diameter _ mat /\
  nth i pressure 0 <= exp (phi (w + m_molecular_diameter _ mat)) <= nth (i + 1) pressure 0.
Proof. exact reported_width_brackets_l. Qed.
Print Assumptions reported_width_brackets_partial.

(* MONOTONICITY of the slit potential on the whole attractive branch: the generated HK slit closure (and the published equation)
   is strictly increasing in the slit distance beyond the geometric minimum d_g + d_h, for every temperature and every positive
   parameter set (sigma = 0.8583742 d0 <= (2/5)^(1/6) d0 makes the wall potential convex from d0 on) *)
Theorem hk_slit_potential_strictly_increasing : forall T (ads : hkads RNum) (mat : hkmat RNum),
  0 < T -> physical_ads ads -> physical_mat mat ->
  0 < a_surface_density _ ads -> 0 < m_surface_density _ mat ->
  forall x y, a_molecular_diameter _ ads + m_molecular_diameter _ mat < x -> x < y ->
  hk_slit_potential RNum T ads mat x < hk_slit_potential RNum T ads mat y.
Proof. exact hk_slit_potential_increasing. Qed.
Print Assumptions hk_slit_potential_strictly_increasing.

(* hence: exact solutions of the HK slit equation are ordered like their pressures and a pressure has at most one solution
   (no monotonicity premise; what remains un-modelled is only that Brent's minimiser finds the solution) *)
Theorem hk_slit_widths_nondecreasing_in_pressure : forall T (ads : hkads RNum) (mat : hkmat RNum),
  0 < T -> physical_ads ads -> physical_mat mat ->
  0 < a_surface_density _ ads -> 0 < m_surface_density _ mat ->
  forall L1 L2 p1 p2,
  a_molecular_diameter _ ads + m_molecular_diameter _ mat < L1 ->
  a_molecular_diameter _ ads + m_molecular_diameter _ mat < L2 ->
  exp (hk_slit_potential RNum T ads mat L1) = p1 -> exp (hk_slit_potential RNum T ads mat L2) = p2 ->
  (p1 <= p2 -> L1 <= L2) /\ (p1 < p2 -> L1 < L2) /\ (p1 = p2 -> L1 = L2).
Proof. exact hk_slit_widths_ordered_l. Qed.
Print Assumptions hk_slit_widths_nondecreasing_in_pressure.

(* reported_width_brackets_partial with its monotonicity premise discharged (PARTIAL only through the minimiser contract) *)
Theorem reported_width_brackets_hk_slit_partial : forall minimise, minimiser_contract minimise ->
  forall T (ads : hkads RNum) (mat : hkmat RNum) pressure loading i a b,
  let phi := hk_published_phi RNum (py_const RNum) T
      (a_molecular_diameter _ ads) (a_polarizability _ ads) (a_magnetic_susceptibility _ ads) (a_surface_density _ ads)
      (m_molecular_diameter _ mat) (m_polarizability _ mat) (m_magnetic_susceptibility _ mat) (m_surface_density _ mat) in
  let d_min := a_molecular_diameter _ ads + m_molecular_diameter _ mat in
  let solved := solve_hk minimise (hk_slit_potential RNum T ads mat) (hk_slit_bound RNum T ads mat) (hk_slit_geo RNum) pressure in
  let reported := fst (fst (hk_slit_pipeline minimise T ads mat pressure loading)) in
  0 < T -> physical_ads ads -> physical_mat mat ->
  0 < a_surface_density _ ads -> 0 < m_surface_density _ mat -> d_min < 50 ->
  length pressure = length loading ->
  (i + 1 < length solved)%nat ->
  d_min < a -> b <= 50 ->
  (exists L, a <= L <= b /\ exp (phi L) = nth i pressure 0) ->
  (exists L, a <= L <= b /\ exp (phi L) = nth (i + 1) pressure 0) ->
  a <= nth i solved 0 <= b -> a <= nth (i + 1) solved 0 <= b ->
  nth i pressure 0 <= nth (i + 1) pressure 0 ->
  let w := nth i reported 0 in
  w = (nth i solved 0 + nth (i + 1) solved 0) / 2 - m_molecular_diameter _ mat /\
  nth i solved 0 - m_molecular_diameter _ mat <= w <= nth (i + 1) solved 0 - m_molecular_diameter _ mat /\
  nth i pressure 0 <= exp (phi (w + m_molecular_diameter _ mat)) <= nth (i + 1) pressure 0.
Proof. exact reported_width_brackets_nomono_l. Qed.
Print Assumptions reported_width_brackets_hk_slit_partial.

(* N pressures: at most N solved widths (the loop stops after the first width above 10/geo), one value fewer in each output *)
Theorem hk_pipeline_lengths : forall minimise T (ads : hkads RNum) (mat : hkmat RNum) pressure loading,
  length pressure = length loading ->
  let solved := solve_hk minimise (hk_slit_potential RNum T ads mat) (hk_slit_bound RNum T ads mat) (hk_slit_geo RNum) pressure in
  let '(w, d, v) := hk_slit_pipeline minimise T ads mat pressure loading in
  (length solved <= length pressure)%nat /\
  length w = (length solved - 1)%nat /\ length d = (length solved - 1)%nat /\ length v = (length solved - 1)%nat.
Proof. exact hk_slit_pipeline_lengths_l. Qed.
Print Assumptions hk_pipeline_lengths.

(* ---- Rege-Yang cylinder: the layer rule GENERATED from the closure `potential` of psd_horvath_kawazoe_ry (count, width, population,
   weighted average) is the PUBLISHED one (ry_published_* are written by hand in Charact/HkRyLayers.v), for all real inputs *)
Theorem ry_cylinder_layers_match_published : forall d_g d_h L i k ns es,
  ry_cylinder_layer_count_arg d_g d_h ((d_g + d_h) / 2) L = ry_published_layer_count_arg d_g d_h L /\
  ry_cylinder_layer_population d_g d_h ((d_g + d_h) / 2) L i = ry_published_population d_g (ry_ring_radius d_g d_h L i) /\
  ry_cylinder_average k ns es = k * ry_published_average ns es.
Proof. exact (fun d_g d_h L i k ns es => conj (ry_cylinder_layer_count_published_l d_g d_h _ L)
               (conj (ry_cylinder_population_published_l d_g d_h L i) (ry_cylinder_average_published_l k ns es))). Qed.
Print Assumptions ry_cylinder_layers_match_published.

(* the innermost of the M = int(c) + 1 layers is ONE molecule on the pore axis, counted once, exactly when frac(c) < 1/2; otherwise it is
   a ring of at least two molecules (c = ((2L - d_h)/d_g - 1)/2, the argument of int() in the code) *)
Theorem ry_cylinder_innermost_layer_weight : forall d_g d_h L, 0 < d_g ->
  let d_eff := (d_g + d_h) / 2 in
  let c := ry_cylinder_layer_count_arg d_g d_h d_eff L in
  let M := IZR (Int_part c) + 1 in
  (frac_part c < 1 / 2 -> ry_cylinder_layer_population d_g d_h d_eff L M = 1) /\
  (1 / 2 <= frac_part c -> 2 <= ry_cylinder_layer_population d_g d_h d_eff L M).
Proof. exact ry_cylinder_innermost_layer_weight_l. Qed.
Print Assumptions ry_cylinder_innermost_layer_weight.

(* any layer whose ring radius is below d_g/2 has weight 1; two touching molecules (2 r = d_g) have weight 2 *)
Theorem ry_cylinder_axial_molecule_counts_once : forall d_g d_h L i,
  (2 * ry_ring_radius d_g d_h L i < d_g -> ry_cylinder_layer_population d_g d_h ((d_g + d_h) / 2) L i = 1) /\
  (0 < d_g -> 2 * ry_ring_radius d_g d_h L i = d_g -> ry_cylinder_layer_population d_g d_h ((d_g + d_h) / 2) L i = 2).
Proof. exact (fun d_g d_h L i => conj (ry_cylinder_axial_molecule_counts_once_l d_g d_h L i) (ry_cylinder_two_molecules_at_contact_l d_g d_h L i)). Qed.
Print Assumptions ry_cylinder_axial_molecule_counts_once.

(* two layers, the inner one axial: the averaged potential has the weights n_1 and 1 *)
Theorem ry_cylinder_two_layers_axial : forall k d_g d_h L e1 e2,
  2 * ry_ring_radius d_g d_h L 2 < d_g ->
  let n i := ry_cylinder_layer_population d_g d_h ((d_g + d_h) / 2) L i in
  ry_cylinder_average k [n 1; n 2] [e1; e2] = k * (n 1 * e1 + e2) / (n 1 + 1).
Proof. exact ry_cylinder_two_layers_axial_l. Qed.
Print Assumptions ry_cylinder_two_layers_axial.

(* satisfiability of the hypotheses *)
Example hypotheses_satisfiable_parameters : physical_ads ex_ads /\ physical_mat (PROPERTIES_CARBON RNum) /\
  a_molecular_diameter _ ex_ads + m_molecular_diameter _ (PROPERTIES_CARBON RNum) < 1.
Proof. exact ex_physical. Qed.
Example hypotheses_satisfiable_minimiser : exists minimise : (R -> R) -> R -> R -> R,
  forall a b, a < b -> a <= minimise (fun x => (x - 1) ^ 2) a b <= b /\
    forall x, a <= x <= b -> (minimise (fun x => (x - 1) ^ 2) a b - 1) ^ 2 <= (x - 1) ^ 2.
Proof. exact ex_minimise_contract. Qed.
Example hypotheses_satisfiable_tail :
  hk_tail_def RNum ex_ads [0.4; 0.5; 0.7] [1e-6; 1e-5; 1e-4] [1; 2; 4] /\
  fst (fst (hk_tail RNum ex_ads [0.4; 0.5; 0.7] [1e-6; 1e-5; 1e-4] [1; 2; 4])) = [(0.4 + 0.5) / 2; (0.5 + 0.7) / 2].
Proof. exact ex_tail. Qed.
Example hypotheses_satisfiable_ry_axial :
  2 * ry_ring_radius 0.3 0.34 0.7 2 < 0.3 /\ ry_cylinder_layer_population 0.3 0.34 ((0.3 + 0.34) / 2) 0.7 2 = 1.
Proof. exact ry_cylinder_axial_example. Qed.
