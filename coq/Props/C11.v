(* C11 - spreading pressure equals the integral of loading over ln p.
   Property theorems only; every statement is about the definitions GENERATED from /repo/src/pygaps/modelling (Gen/FormulasGen.v);
   proofs live in coq/Models/*.v. *)
From Coq Require Import Reals Lra List.
From Coquelicot Require Import Coquelicot.
From PG Require Import Models.SpreadPoint Models.PyReal Gen.FormulasGen Models.Henry Models.Langmuir Models.DSLangmuir Models.TSLangmuir Models.Quadratic Models.BET Models.GAB Models.TemkinApprox Models.Freundlich Models.QuadSpread.
Import ListNotations.
Open Scope R_scope.

(* ======== Henry ======== *)
(* ---------------- C11 *)
Theorem Henry_gibbs : forall K p,
  0 < p ->
  Henry_spreading_pressure_def K p /\
  is_derive (Henry_spreading_pressure K) p (Henry_loading K p / p).
Proof. exact Henry_gibbs. Qed.
Print Assumptions Henry_gibbs.

Theorem Henry_spread_zero : forall K,
  Henry_spreading_pressure K 0 = 0.
Proof. exact Henry_spread_zero. Qed.
Print Assumptions Henry_spread_zero.

(* integral form, from 0: the integrand n(x)/x is singular as an expression at 0 only *)
Theorem Henry_spread_is_RInt : forall K a p,
  0 <= a -> a <= p ->
  is_RInt (fun x => Henry_loading K x / x) a p
          (Henry_spreading_pressure K p - Henry_spreading_pressure K a).
Proof. exact Henry_spread_is_RInt. Qed.
Print Assumptions Henry_spread_is_RInt.

Theorem Henry_spread_from_zero : forall K p,
  0 <= p ->
  is_RInt (fun x => Henry_loading K x / x) 0 p (Henry_spreading_pressure K p).
Proof. exact Henry_spread_from_zero. Qed.
Print Assumptions Henry_spread_from_zero.

Theorem Henry_spread_incr : forall K p q,
  Henry_bounds K -> 0 <= p -> p <= q ->
  Henry_spreading_pressure K p <= Henry_spreading_pressure K q.
Proof. exact Henry_spread_incr. Qed.
Print Assumptions Henry_spread_incr.

(* ======== Langmuir ======== *)
(* ---------------- C11 *)
Theorem Langmuir_gibbs : forall K n_m p,
  0 <= K -> 0 < p ->
  Langmuir_spreading_pressure_def K n_m p /\
  is_derive (Langmuir_spreading_pressure K n_m) p (Langmuir_loading K n_m p / p).
Proof. exact Langmuir_gibbs. Qed.
Print Assumptions Langmuir_gibbs.

Theorem Langmuir_spread_zero : forall K n_m,
  Langmuir_spreading_pressure K n_m 0 = 0.
Proof. exact Langmuir_spread_zero. Qed.
Print Assumptions Langmuir_spread_zero.

(* integral form, from 0: the integrand n(x)/x is singular as an expression at 0 only *)
Theorem Langmuir_spread_is_RInt : forall K n_m a p,
  0 <= K -> 0 <= a -> a <= p ->
  is_RInt (fun x => Langmuir_loading K n_m x / x) a p
          (Langmuir_spreading_pressure K n_m p - Langmuir_spreading_pressure K n_m a).
Proof. exact Langmuir_spread_is_RInt. Qed.
Print Assumptions Langmuir_spread_is_RInt.

Theorem Langmuir_spread_from_zero : forall K n_m p,
  0 <= K -> 0 <= p ->
  is_RInt (fun x => Langmuir_loading K n_m x / x) 0 p (Langmuir_spreading_pressure K n_m p).
Proof. exact Langmuir_spread_from_zero. Qed.
Print Assumptions Langmuir_spread_from_zero.

Theorem Langmuir_spread_incr : forall K n_m p q,
  Langmuir_bounds K n_m -> 0 <= p -> p <= q ->
  Langmuir_spreading_pressure K n_m p <= Langmuir_spreading_pressure K n_m q.
Proof. exact Langmuir_spread_incr. Qed.
Print Assumptions Langmuir_spread_incr.

(* ======== DSLangmuir ======== *)
(* ---------------- C11 *)
Theorem DSLangmuir_gibbs : forall n_m1 K1 n_m2 K2 p,
  0 <= K1 -> 0 <= K2 -> 0 < p ->
  DSLangmuir_spreading_pressure_def n_m1 K1 n_m2 K2 p /\
  is_derive (DSLangmuir_spreading_pressure n_m1 K1 n_m2 K2) p (DSLangmuir_loading n_m1 K1 n_m2 K2 p / p).
Proof. exact DSLangmuir_gibbs. Qed.
Print Assumptions DSLangmuir_gibbs.

Theorem DSLangmuir_spread_zero : forall n_m1 K1 n_m2 K2,
  DSLangmuir_spreading_pressure n_m1 K1 n_m2 K2 0 = 0.
Proof. exact DSLangmuir_spread_zero. Qed.
Print Assumptions DSLangmuir_spread_zero.

(* integral form, from 0: the integrand n(x)/x is singular as an expression at 0 only *)
Theorem DSLangmuir_spread_is_RInt : forall n_m1 K1 n_m2 K2 a p,
  0 <= K1 -> 0 <= K2 -> 0 <= a -> a <= p ->
  is_RInt (fun x => DSLangmuir_loading n_m1 K1 n_m2 K2 x / x) a p
          (DSLangmuir_spreading_pressure n_m1 K1 n_m2 K2 p - DSLangmuir_spreading_pressure n_m1 K1 n_m2 K2 a).
Proof. exact DSLangmuir_spread_is_RInt. Qed.
Print Assumptions DSLangmuir_spread_is_RInt.

Theorem DSLangmuir_spread_from_zero : forall n_m1 K1 n_m2 K2 p,
  0 <= K1 -> 0 <= K2 -> 0 <= p ->
  is_RInt (fun x => DSLangmuir_loading n_m1 K1 n_m2 K2 x / x) 0 p (DSLangmuir_spreading_pressure n_m1 K1 n_m2 K2 p).
Proof. exact DSLangmuir_spread_from_zero. Qed.
Print Assumptions DSLangmuir_spread_from_zero.

Theorem DSLangmuir_spread_incr : forall n_m1 K1 n_m2 K2 p q,
  DSLangmuir_bounds n_m1 K1 n_m2 K2 -> 0 <= p -> p <= q ->
  DSLangmuir_spreading_pressure n_m1 K1 n_m2 K2 p <= DSLangmuir_spreading_pressure n_m1 K1 n_m2 K2 q.
Proof. exact DSLangmuir_spread_incr. Qed.
Print Assumptions DSLangmuir_spread_incr.

(* ======== TSLangmuir ======== *)
(* ---------------- C11 *)
Theorem TSLangmuir_gibbs : forall n_m1 n_m2 n_m3 K1 K2 K3 p,
  0 <= K1 -> 0 <= K2 -> 0 <= K3 -> 0 < p ->
  TSLangmuir_spreading_pressure_def n_m1 n_m2 n_m3 K1 K2 K3 p /\
  is_derive (TSLangmuir_spreading_pressure n_m1 n_m2 n_m3 K1 K2 K3) p
            (TSLangmuir_loading n_m1 n_m2 n_m3 K1 K2 K3 p / p).
Proof. exact TSLangmuir_gibbs. Qed.
Print Assumptions TSLangmuir_gibbs.

Theorem TSLangmuir_spread_zero : forall n_m1 n_m2 n_m3 K1 K2 K3,
  TSLangmuir_spreading_pressure n_m1 n_m2 n_m3 K1 K2 K3 0 = 0.
Proof. exact TSLangmuir_spread_zero. Qed.
Print Assumptions TSLangmuir_spread_zero.

(* integral form, from 0: the integrand n(x)/x is singular as an expression at 0 only *)
Theorem TSLangmuir_spread_is_RInt : forall n_m1 n_m2 n_m3 K1 K2 K3 a p,
  0 <= K1 -> 0 <= K2 -> 0 <= K3 -> 0 <= a -> a <= p ->
  is_RInt (fun x => TSLangmuir_loading n_m1 n_m2 n_m3 K1 K2 K3 x / x) a p
          (TSLangmuir_spreading_pressure n_m1 n_m2 n_m3 K1 K2 K3 p - TSLangmuir_spreading_pressure n_m1 n_m2 n_m3 K1 K2 K3 a).
Proof. exact TSLangmuir_spread_is_RInt. Qed.
Print Assumptions TSLangmuir_spread_is_RInt.

Theorem TSLangmuir_spread_from_zero : forall n_m1 n_m2 n_m3 K1 K2 K3 p,
  0 <= K1 -> 0 <= K2 -> 0 <= K3 -> 0 <= p ->
  is_RInt (fun x => TSLangmuir_loading n_m1 n_m2 n_m3 K1 K2 K3 x / x) 0 p
          (TSLangmuir_spreading_pressure n_m1 n_m2 n_m3 K1 K2 K3 p).
Proof. exact TSLangmuir_spread_from_zero. Qed.
Print Assumptions TSLangmuir_spread_from_zero.

Theorem TSLangmuir_spread_incr : forall n_m1 n_m2 n_m3 K1 K2 K3 p q,
  TSLangmuir_bounds n_m1 n_m2 n_m3 K1 K2 K3 ->
  0 <= p -> p <= q ->
  TSLangmuir_spreading_pressure n_m1 n_m2 n_m3 K1 K2 K3 p <= TSLangmuir_spreading_pressure n_m1 n_m2 n_m3 K1 K2 K3 q.
Proof. exact TSLangmuir_spread_incr. Qed.
Print Assumptions TSLangmuir_spread_incr.

(* ======== Quadratic ======== *)
Theorem Quadratic_gibbs : forall n_m Ka Kb p,
  0 <= Ka -> 0 <= Kb -> 0 < p ->
  Quadratic_spreading_pressure_def n_m Ka Kb p /\
  is_derive (Quadratic_spreading_pressure n_m Ka Kb) p (Quadratic_loading n_m Ka Kb p / p).
Proof. exact Quadratic_gibbs. Qed.
Print Assumptions Quadratic_gibbs.

Theorem Quadratic_spread_zero : forall n_m Ka Kb,
  Quadratic_spreading_pressure n_m Ka Kb 0 = 0.
Proof. exact Quadratic_spread_zero. Qed.
Print Assumptions Quadratic_spread_zero.

(* integral form: the integrand n(x)/x is singular as an expression at 0 only *)
Theorem Quadratic_spread_is_RInt : forall n_m Ka Kb a p,
  0 <= Ka -> 0 <= Kb -> 0 <= a -> a <= p ->
  is_RInt (fun x => Quadratic_loading n_m Ka Kb x / x) a p
          (Quadratic_spreading_pressure n_m Ka Kb p - Quadratic_spreading_pressure n_m Ka Kb a).
Proof. exact Quadratic_spread_is_RInt. Qed.
Print Assumptions Quadratic_spread_is_RInt.

Theorem Quadratic_spread_from_zero : forall n_m Ka Kb p,
  0 <= Ka -> 0 <= Kb -> 0 <= p ->
  is_RInt (fun x => Quadratic_loading n_m Ka Kb x / x) 0 p (Quadratic_spreading_pressure n_m Ka Kb p).
Proof. exact Quadratic_spread_from_zero. Qed.
Print Assumptions Quadratic_spread_from_zero.

Theorem Quadratic_spread_incr : forall n_m Ka Kb p q,
  Quadratic_bounds n_m Ka Kb -> 0 <= Ka -> 0 <= Kb -> 0 <= p -> p <= q ->
  Quadratic_spreading_pressure n_m Ka Kb p <= Quadratic_spreading_pressure n_m Ka Kb q.
Proof. exact Quadratic_spread_incr. Qed.
Print Assumptions Quadratic_spread_incr.

(* ======== BET ======== *)
(* ---------------- C11 *)
Theorem BET_gibbs : forall n_m C N p,
  0 <= N -> 0 <= C -> 0 < p -> N * p < 1 ->
  BET_spreading_pressure_def n_m C N p /\
  is_derive (BET_spreading_pressure n_m C N) p (BET_loading n_m C N p / p).
Proof. exact BET_gibbs. Qed.
Print Assumptions BET_gibbs.

Theorem BET_spread_zero : forall n_m C N,
  BET_spreading_pressure n_m C N 0 = 0.
Proof. exact BET_spread_zero. Qed.
Print Assumptions BET_spread_zero.

(* integral form: the integrand n(x)/x is singular as an expression at 0 only *)
Theorem BET_spread_is_RInt : forall n_m C N a p,
  0 <= N -> 0 <= C -> 0 <= a -> a <= p -> N * p < 1 ->
  is_RInt (fun x => BET_loading n_m C N x / x) a p
          (BET_spreading_pressure n_m C N p - BET_spreading_pressure n_m C N a).
Proof. exact BET_spread_is_RInt. Qed.
Print Assumptions BET_spread_is_RInt.

Theorem BET_spread_from_zero : forall n_m C N p,
  0 <= N -> 0 <= C -> 0 <= p -> N * p < 1 ->
  is_RInt (fun x => BET_loading n_m C N x / x) 0 p (BET_spreading_pressure n_m C N p).
Proof. exact BET_spread_from_zero. Qed.
Print Assumptions BET_spread_from_zero.

Theorem BET_spread_incr : forall n_m C N p q,
  BET_bounds n_m C N -> 0 <= p -> p <= q -> N * q < 1 ->
  BET_spreading_pressure n_m C N p <= BET_spreading_pressure n_m C N q.
Proof. exact BET_spread_incr. Qed.
Print Assumptions BET_spread_incr.

(* ======== GAB ======== *)
(* ---------------- C11 *)
Theorem GAB_gibbs : forall n_m C K p,
  0 <= K -> 0 <= C -> 0 < p -> K * p < 1 ->
  GAB_spreading_pressure_def n_m C K p /\
  is_derive (GAB_spreading_pressure n_m C K) p (GAB_loading n_m C K p / p).
Proof. exact GAB_gibbs. Qed.
Print Assumptions GAB_gibbs.

Theorem GAB_spread_zero : forall n_m C K,
  GAB_spreading_pressure n_m C K 0 = 0.
Proof. exact GAB_spread_zero. Qed.
Print Assumptions GAB_spread_zero.

(* integral form: the integrand n(x)/x is singular as an expression at 0 only *)
Theorem GAB_spread_is_RInt : forall n_m C K a p,
  0 <= K -> 0 <= C -> 0 <= a -> a <= p -> K * p < 1 ->
  is_RInt (fun x => GAB_loading n_m C K x / x) a p
          (GAB_spreading_pressure n_m C K p - GAB_spreading_pressure n_m C K a).
Proof. exact GAB_spread_is_RInt. Qed.
Print Assumptions GAB_spread_is_RInt.

Theorem GAB_spread_from_zero : forall n_m C K p,
  0 <= K -> 0 <= C -> 0 <= p -> K * p < 1 ->
  is_RInt (fun x => GAB_loading n_m C K x / x) 0 p (GAB_spreading_pressure n_m C K p).
Proof. exact GAB_spread_from_zero. Qed.
Print Assumptions GAB_spread_from_zero.

Theorem GAB_spread_incr : forall n_m C K p q,
  GAB_bounds n_m C K -> 0 <= p -> p <= q -> K * q < 1 ->
  GAB_spreading_pressure n_m C K p <= GAB_spreading_pressure n_m C K q.
Proof. exact GAB_spread_incr. Qed.
Print Assumptions GAB_spread_incr.

(* ======== TemkinApprox ======== *)
(* the Gibbs identity HOLDS: d Pi / d p = n / p *)
Theorem TemkinApprox_gibbs : forall n_m K tht p,
  0 <= K -> 0 < p ->
  TemkinApprox_spreading_pressure_def n_m K tht p /\
  is_derive (TemkinApprox_spreading_pressure n_m K tht) p (TemkinApprox_loading n_m K tht p / p).
Proof. exact TemkinApprox_gibbs. Qed.
Print Assumptions TemkinApprox_gibbs.

(* ... but the closed form does not vanish at zero pressure: the integration constant n_m tht / 2 is kept *)
Theorem TemkinApprox_spread_at_zero : forall n_m K tht,
  TemkinApprox_spreading_pressure n_m K tht 0 = n_m * tht / 2.
Proof. exact TemkinApprox_spread_at_zero. Qed.
Print Assumptions TemkinApprox_spread_at_zero.

Theorem TemkinApprox_spread_zero_refuted : exists n_m K tht,
  TemkinApprox_bounds n_m K tht /\ TemkinApprox_spreading_pressure n_m K tht 0 <> 0.
Proof. exact TemkinApprox_spread_zero_refuted. Qed.
Print Assumptions TemkinApprox_spread_zero_refuted.

(* differences of the closed form are right: only the constant is off *)
Theorem TemkinApprox_spread_is_RInt : forall n_m K tht a p,
  0 <= K -> 0 <= a -> a <= p ->
  is_RInt (fun x => TemkinApprox_loading n_m K tht x / x) a p
          (TemkinApprox_spreading_pressure n_m K tht p - TemkinApprox_spreading_pressure n_m K tht a).
Proof. exact TemkinApprox_spread_is_RInt. Qed.
Print Assumptions TemkinApprox_spread_is_RInt.

(* what the integral from zero really is: closed form minus the constant *)
Theorem TemkinApprox_spread_from_zero : forall n_m K tht p,
  0 <= K -> 0 <= p ->
  is_RInt (fun x => TemkinApprox_loading n_m K tht x / x) 0 p
          (TemkinApprox_spreading_pressure n_m K tht p - n_m * tht / 2).
Proof. exact TemkinApprox_spread_from_zero. Qed.
Print Assumptions TemkinApprox_spread_from_zero.

Theorem TemkinApprox_spread_incr : forall n_m K tht p q,
  TemkinApprox_bounds n_m K tht -> tht <= 4 -> 0 <= p -> p <= q ->
  TemkinApprox_spreading_pressure n_m K tht p <= TemkinApprox_spreading_pressure n_m K tht q.
Proof. exact TemkinApprox_spread_incr. Qed.
Print Assumptions TemkinApprox_spread_incr.

(* ======== Freundlich ======== *)
(* ---------------- C11 *)
Theorem Freundlich_gibbs : forall K m p,
  m <> 0 -> 0 < p ->
  Freundlich_spreading_pressure_def K m p /\
  is_derive (Freundlich_spreading_pressure K m) p (Freundlich_loading K m p / p).
Proof. exact Freundlich_gibbs. Qed.
Print Assumptions Freundlich_gibbs.

Theorem Freundlich_spread_zero : forall K m,
  0 < m ->
  Freundlich_spreading_pressure_def K m 0 /\ Freundlich_spreading_pressure K m 0 = 0.
Proof. exact Freundlich_spread_zero. Qed.
Print Assumptions Freundlich_spread_zero.

(* integral form.  Only from a > 0: for m > 1 the integrand n(x)/x = K x^(1/m - 1) is unbounded near 0
   (the improper integral from 0 converges to Pi(p), but it is not a Riemann integral on [0, p]). *)
Theorem Freundlich_spread_is_RInt : forall K m a p,
  m <> 0 -> 0 < a -> a <= p ->
  is_RInt (fun x => Freundlich_loading K m x / x) a p
          (Freundlich_spreading_pressure K m p - Freundlich_spreading_pressure K m a).
Proof. exact Freundlich_spread_is_RInt. Qed.
Print Assumptions Freundlich_spread_is_RInt.

Theorem Freundlich_spread_incr : forall K m p q,
  Freundlich_bounds K m -> 0 < m -> 0 <= p -> p <= q ->
  Freundlich_spreading_pressure K m p <= Freundlich_spreading_pressure K m q.
Proof. exact Freundlich_spread_incr. Qed.
Print Assumptions Freundlich_spread_incr.

(* ======== models whose spreading pressure is computed by scipy.integrate.quad ======== *)
(* The generated definition IS the integral of the model's own generated loading over x from 0 (quad is an oracle, validated on every run against
   coq-interval enclosures of this very integrand); a change of the integrand or of the limits in the source changes the generated term and breaks these. *)
Theorem Toth_spreading_is_quad_of_own_loading : forall n_m K t p,
  Toth_spreading_pressure n_m K t p = RInt (fun x => Toth_loading n_m K t x / x) 0 p.
Proof. exact Toth_spreading_is_quad_of_own_loading. Qed.
Print Assumptions Toth_spreading_is_quad_of_own_loading.
Theorem JensenSeaton_spreading_is_quad_of_own_loading : forall K a b c p,
  JensenSeaton_spreading_pressure K a b c p = RInt (fun x => JensenSeaton_loading K a b c x / x) 0 p.
Proof. exact JensenSeaton_spreading_is_quad_of_own_loading. Qed.
Print Assumptions JensenSeaton_spreading_is_quad_of_own_loading.
Theorem DR_spreading_is_quad_of_own_loading : forall minus_rt n_m e p,
  DR_spreading_pressure minus_rt n_m e p = RInt (fun x => DR_loading minus_rt n_m e x / x) 0 p.
Proof. exact DR_spreading_is_quad_of_own_loading. Qed.
Print Assumptions DR_spreading_is_quad_of_own_loading.
Theorem DA_spreading_is_quad_of_own_loading : forall minus_rt n_m e m p,
  DA_spreading_pressure minus_rt n_m e m p = RInt (fun x => DA_loading minus_rt n_m e m x / x) 0 p.
Proof. exact DA_spreading_is_quad_of_own_loading. Qed.
Print Assumptions DA_spreading_is_quad_of_own_loading.

(* ======== point isotherms (hand-written model Models/SpreadPoint.v, executed against PointIsotherm.spreading_pressure_at on every run) ======== *)
(* for ANY rows with strictly increasing positive pressures and any 0 <= p <= highest pressure: the computed value is the integral from 0 to p of
   interpolant(x)/x, the interpolant being Henry's line l1/p1 * x up to the first point and the linear interpolation of the data above it *)
Theorem point_isotherm_spreading_is_integral : forall rows p, sp_point_def rows p ->
  is_RInt (fun x => interp rows x / x) 0 p (sp_point rows p).
Proof. exact sp_point_is_RInt. Qed.
Print Assumptions point_isotherm_spreading_is_integral.
Theorem point_isotherm_spreading_zero : forall rows, increasing rows -> sp_point rows 0 = 0.
Proof. exact sp_point_zero. Qed.
Print Assumptions point_isotherm_spreading_zero.
Theorem point_isotherm_spreading_below_first_point : forall p1 l1 rest p, p <= p1 -> sp_point ((p1, l1) :: rest) p = l1 / p1 * p.
Proof. exact sp_point_below_first. Qed.
Print Assumptions point_isotherm_spreading_below_first_point.
Theorem point_isotherm_spreading_additive : forall rows p q, sp_point_def rows p -> sp_point_def rows q -> p < q ->
  is_RInt (fun x => interp rows x / x) p q (sp_point rows q - sp_point rows p).
Proof. exact sp_point_additive. Qed.
Print Assumptions point_isotherm_spreading_additive.
Example point_isotherm_hypotheses_satisfiable : sp_point_def [(1, 2); (2, 3)] (3 / 2) /\
  sp_point [(1, 2); (2, 3)] (3 / 2) = 2 + ((lin 1 2 2 3 (3/2) - 2) / (3/2 - 1) * (3/2 - 1) + (2 - (lin 1 2 2 3 (3/2) - 2) / (3/2 - 1) * 1) * ln (3/2 / 1)).
Proof. exact sp_point_example. Qed.

(* ---- the CALL spreading_pressure_at(p) without interp_fill, with its range guard `pressure > pressures.max()` (fix 797ce8e):
   a function of the rows and p alone. Above the highest data pressure it is ALWAYS refused with CalculationError; up to the highest
   pressure it is ALWAYS answered with the integral; below the first point it is always the Henry value (never refused). *)
Theorem point_isotherm_call_spec : forall rows p, increasing rows -> 0 <= p ->
  (last_pressure rows < p /\ sp_point_at rows p = CalculationError) \/
  (p <= last_pressure rows /\ exists v, sp_point_at rows p = Value v /\ is_RInt (fun x => interp rows x / x) 0 p v).
Proof. exact sp_point_at_spec. Qed.
Print Assumptions point_isotherm_call_spec.
Theorem point_isotherm_call_answers_iff : forall rows p, increasing rows ->
  (exists v, sp_point_at rows p = Value v) <-> p <= last_pressure rows.
Proof. exact sp_point_at_answers_iff. Qed.
Print Assumptions point_isotherm_call_answers_iff.
Theorem point_isotherm_call_above_range_refused : forall rows p, increasing rows -> last_pressure rows < p ->
  sp_point_at rows p = CalculationError.
Proof. exact sp_point_at_above. Qed.
Print Assumptions point_isotherm_call_above_range_refused.
Theorem point_isotherm_call_below_first_point_is_henry : forall p1 l1 rest p, increasing ((p1, l1) :: rest) -> p <= p1 ->
  sp_point_at ((p1, l1) :: rest) p = Value (l1 / p1 * p).
Proof. exact sp_point_at_below_first. Qed.
Print Assumptions point_isotherm_call_below_first_point_is_henry.
(* the guard's pressures.max() is the last pressure of increasing data *)
Theorem point_isotherm_max_is_last : forall rows, increasing rows -> max_pressure rows = last_pressure rows.
Proof. exact max_pressure_increasing. Qed.
Print Assumptions point_isotherm_max_is_last.
Example point_isotherm_call_example :
  sp_point_at [(1, 2); (2, 3)] (5 / 2) = CalculationError /\ sp_point_at [(1, 2); (2, 3)] (1 / 2) = Value (2 / 1 * (1 / 2)).
Proof. exact sp_point_at_example. Qed.
