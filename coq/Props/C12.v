(* C12 - Model fitting is self-consistent.  PARTIAL proof:
   Fit/FitLogic.v is a hand-written model of the decision logic around scipy.optimize.least_squares (tied to the code by the
   correspondence part of tools/props/c12.py on every run). The optimiser is NOT modelled: it is the variable `lsq`, and its
   contract (opt_res.fun is the residual vector at opt_res.x; opt_res.x lies within the bounds) is an explicit premise. Whether the
   optimiser FINDS the global minimum (recovery of the generating parameters, re-fitting, unit covariance of the fitted curve) is
   validated on the implementation, not proved; the theorems state what a minimiser must satisfy.
   Property theorems only, each closed by `exact` + Print Assumptions. *)
From Coq Require Import String.
From Coq Require Import Reals Lra List Bool QArith Permutation.
From PG Require Import Lib.Num Lib.Py Fit.FitLogic Fit.FitTheorems Fit.FitCovariance Fit.FitPre Gen.FitGlueGen Fit.FitGlue Fit.FitBranch.
Import ListNotations.
Open Scope R_scope.

(* initial_guess_bounds puts every starting value inside its bounds and leaves values already inside untouched *)
Theorem clamp_in_bounds : forall (bounds : list (R * R)) (guess : list R),
  Forall (fun b => fst b <= snd b) bounds -> length guess = length bounds ->
  length (clamp_all RNum bounds guess) = length bounds
  /\ Forall2 (fun b v => fst b <= v <= snd b) bounds (clamp_all RNum bounds guess).
Proof. exact clamp_all_in_bounds. Qed.
Print Assumptions clamp_in_bounds.
Theorem clamp_keeps_values_in_bounds : forall lo hi v : R, lo <= v <= hi -> clamp RNum lo hi v = v.
Proof. exact clamp_identity_R. Qed.
Print Assumptions clamp_keeps_values_in_bounds.

(* whenever fit succeeds, the parameters respect the bounds in force and the reported error is the root-mean-square deviation
   between the fitted model and the data at those parameters, divided by the range. Partial: premise on least_squares *)
Theorem rmse_is_rms_partial :
  forall (calc_loading : bool) (M : list R -> R -> R)
         (lsq : (list R -> list R) -> list R -> list (R * R) -> option (list R * list R)),
  (forall f x0 b x fv, lsq f x0 b = Some (x, fv) -> fv = f x /\ in_bounds b x) ->
  forall (data : list (R * R)) x0 b x fv range,
    fit RNum calc_loading M lsq data x0 b = Ok (x, fv) ->
    in_bounds b x
    /\ fv = resid RNum calc_loading M x data
    /\ rmse fv (length data) range
       = sqrt (sumsqR (map (fun d => if calc_loading then M x (fst d) - snd d else M x (snd d) - fst d) data) / INR (length data)) / range.
Proof. exact fit_reports_rms. Qed.
Print Assumptions rmse_is_rms_partial.
(* the executed model computes the square of that quantity (what the correspondence compares with the reported rmse^2) *)
Theorem rmse_sq_is_rmse_squared : forall f n range, (0 < n)%nat -> range <> 0 ->
  rmse_sq RNum f n range = rmse f n range * rmse f n range.
Proof. exact rmse_sq_is_square. Qed.
Print Assumptions rmse_sq_is_rmse_squared.

(* the same for the expression GENERATED from the source line `self.rmse = ...` of IsothermBaseModel.fit / Virial.fit (Gen/FitGlueGen.v, by
   tools/py2v_fitglue.py; the rest of fit is checked statement by statement by the translator): it is the documented error of the residual
   vector, whatever cost / optimality the optimiser reports - so it stays the actual deviation under every `optimization_params` (robust
   losses make opt_res.cost differ from half the sum of squares) *)
Theorem generated_rmse_expression_is_documented :
  (forall fv x cost opt pr ld range, BaseFit_rmse fv x cost opt pr ld range = sqrt (sumsqR fv / INR (length ld)) / range)
  /\ (forall fv x cost opt pr ld, VirialFit_rmse fv x cost opt pr ld = sqrt (sumsqR fv / INR (length ld))).
Proof. exact (conj base_rmse_is_documented virial_rmse_is_documented). Qed.
Print Assumptions generated_rmse_expression_is_documented.
(* fit assembled from the generated residual, range and error expressions: whenever it succeeds the parameters respect the bounds and the
   reported error is the root-mean-square deviation between the fitted model at the RETURNED parameters and the data, divided by the range.
   Partial: premise on least_squares (fun = residual(x), x within bounds; nothing is assumed about cost) *)
Theorem generated_fit_reports_rms_partial :
  forall (calc : bool) (L P : list R -> R -> R)
         (lsq : (list R -> list R) -> list R -> list (R * R) -> option (list R * list R * R * R)),
  (forall f x0 b x fv c o, lsq f x0 b = Some (x, fv, c, o) -> fv = f x /\ in_bounds b x) ->
  forall pressure loading lr prr x0 b x e,
    gen_fit calc L P lsq pressure loading lr prr x0 b = Ok (x, e) ->
    in_bounds b x
    /\ e = sqrt (sumsqR (map (fun d => if calc then L x (fst d) - snd d else P x (snd d) - fst d) (combine pressure loading)) / INR (length loading))
           / (if calc then snd lr - fst lr else snd prr - fst prr).
Proof. exact gen_fit_reports_rms. Qed.
Print Assumptions generated_fit_reports_rms_partial.
(* the hand-written model executed beside the implementation on every run (rmse_sq / resid of Fit/FitLogic.v) agrees with the generated glue *)
Theorem executed_model_is_generated_glue :
  (forall fv x cost opt pr ld range, ld <> [] -> range <> 0 ->
     rmse_sq RNum fv (length ld) range = BaseFit_rmse fv x cost opt pr ld range * BaseFit_rmse fv x cost opt pr ld range)
  /\ (forall calc (L P : list R -> R -> R) x pr ld,
       rows2 (BaseFit_residual calc (L x) (P x)) pr ld = resid RNum calc (if calc then L else P) x (combine pr ld))
  /\ (forall calc (lr prr : R * R), BaseFit_model_range calc lr prr = if calc then snd lr - fst lr else snd prr - fst prr).
Proof. exact (conj base_rmse_squared_is_executed_model (conj generated_residual_is_executed_model generated_range_is_max_minus_min)). Qed.
Print Assumptions executed_model_is_generated_glue.

(* bounds (and start values) are dictionaries keyed by parameter NAME. The vector handed to the optimiser at position i is the entry of
   param_names[i], for ANY order in which the user wrote the dictionary (and a missing name is a KeyError, never another parameter's entry) *)
Theorem bound_vector_is_by_name : forall (names : list String.string) (d : list (String.string * (R * R))) v,
  by_name names d = Ok v ->
  length v = length names /\ forall i n, nth_error names i = Some n -> exists b, assoc n d = Some b /\ nth_error v i = Some b.
Proof. exact (@by_name_spec (R * R)). Qed.
Print Assumptions bound_vector_is_by_name.
Theorem bound_vector_ignores_key_order : forall (names : list String.string) (d d' : list (String.string * (R * R))),
  Permutation d d' -> NoDup (map fst d) -> by_name names d = by_name names d'.
Proof. exact (@by_name_perm (R * R)). Qed.
Print Assumptions bound_vector_ignores_key_order.
Theorem default_bounds_by_position : forall (names : list String.string) (defaults : list (R * R)),
  NoDup names -> length defaults = length names -> by_name names (combine names defaults) = Ok defaults.
Proof. exact (@by_name_defaults (R * R)). Qed.
Print Assumptions default_bounds_by_position.
Theorem user_bounds_are_the_bounds_in_force : forall names defaults user d,
  bounds_in_force RNum names defaults user = Ok d ->
  (user = [] /\ d = combine names defaults) \/ (user <> [] /\ d = user /\ Forall (fun kv => In (fst kv) names) user).
Proof. exact bounds_in_force_spec. Qed.
Print Assumptions user_bounds_are_the_bounds_in_force.
(* fitted parameters respect the bounds in force, BY NAME. Partial: premise on least_squares *)
Theorem fitted_parameters_respect_named_bounds_partial :
  forall (calc_loading : bool) (M : list R -> R -> R)
         (lsq : (list R -> list R) -> list R -> list (R * R) -> option (list R * list R)),
  (forall f x0 b x fv, lsq f x0 b = Some (x, fv) -> fv = f x /\ in_bounds b x) ->
  forall names d guess data x fv,
    fit_named RNum calc_loading M lsq names d guess data = Ok (x, fv) ->
    length x = length names
    /\ forall i n, nth_error names i = Some n ->
       exists b v, assoc n d = Some b /\ nth_error x i = Some v /\ fst b <= v <= snd b.
Proof. exact fit_named_respects_named_bounds. Qed.
Print Assumptions fitted_parameters_respect_named_bounds_partial.
Theorem fit_ignores_dictionary_key_order :
  forall (calc_loading : bool) (M : list R -> R -> R) lsq names d d' guess guess' data,
    Permutation d d' -> NoDup (map fst d) -> Permutation guess guess' -> NoDup (map fst guess) ->
    fit_named RNum calc_loading M lsq names d guess data = fit_named RNum calc_loading M lsq names d' guess' data.
Proof. exact fit_named_key_order_irrelevant. Qed.
Print Assumptions fit_ignores_dictionary_key_order.
Theorem guess_dictionary_is_trimmed_by_name : forall d guess out, clamp_named RNum d guess = Ok out ->
  map fst out = map fst guess
  /\ Forall2 (fun g o => exists b, assoc (fst g) d = Some b /\ snd o = clamp RNum (fst b) (snd b) (snd g)
                          /\ (fst b <= snd b -> fst b <= snd o <= snd b)) guess out.
Proof. exact clamp_named_spec. Qed.
Print Assumptions guess_dictionary_is_trimmed_by_name.

(* the normalisation "as documented": the range is max - min of the fitted rows - non-negative, positive as soon as two values differ, and
   the same for ANY order of the rows (increasing, a desorption branch running from high to low pressure, unsorted arrays); hence the
   reported error is non-negative and order independent, and so is the best-of-list choice *)
Theorem range_is_max_minus_min : forall l : list R, l <> [] ->
  exists mx mn, In mx l /\ In mn l /\ (forall v, In v l -> mn <= v <= mx) /\ range_of RNum l = mx - mn.
Proof. exact range_of_is_max_minus_min. Qed.
Print Assumptions range_is_max_minus_min.
Theorem range_positive : forall (l : list R) a b, In a l -> In b l -> a < b -> 0 < range_of RNum l.
Proof. exact range_of_pos. Qed.
Print Assumptions range_positive.
Theorem range_ignores_row_order : forall l l' : list R, Permutation l l' -> range_of RNum l = range_of RNum l'.
Proof. exact range_of_perm. Qed.
Print Assumptions range_ignores_row_order.
Theorem reported_error_is_documented_and_nonnegative : forall calc_loading (data : list (R * R)) fv,
  data <> [] -> 0 < model_range RNum calc_loading data ->
  reported_rmse_sq RNum calc_loading data fv
  = rmse fv (length data) (model_range RNum calc_loading data) * rmse fv (length data) (model_range RNum calc_loading data)
  /\ 0 <= rmse fv (length data) (model_range RNum calc_loading data).
Proof. exact reported_rmse_sq_is_documented. Qed.
Print Assumptions reported_error_is_documented_and_nonnegative.
Theorem reported_error_ignores_row_order : forall calc_loading (data data' : list (R * R)) fv fv',
  Permutation data data' -> Permutation fv fv' ->
  reported_rmse_sq RNum calc_loading data fv = reported_rmse_sq RNum calc_loading data' fv'.
Proof. exact reported_rmse_order_independent. Qed.
Print Assumptions reported_error_ignores_row_order.

(* best of several candidate models: converged, minimal reported error, earliest among ties; for any list of attempts *)
Theorem guess_is_argmin : forall (att : list (option R)) (p : nat),
  best_of RNum att = Ok p ->
  exists e, nth_error att p = Some (Some e)
    /\ (forall q e', nth_error att q = Some (Some e') -> e <= e')
    /\ (forall q e', (q < p)%nat -> nth_error att q = Some (Some e') -> e < e').
Proof. exact best_of_is_argmin. Qed.
Print Assumptions guess_is_argmin.

(* only the requested branch is used *)
Theorem fit_uses_branch_only :
  forall (calc_loading : bool) (M : list R -> R -> R) lsq des (rows rows' : list (R * R * bool)) x0 b,
    select RNum des rows = select RNum des rows' ->
    init_fit RNum calc_loading M lsq des rows x0 b = init_fit RNum calc_loading M lsq des rows' x0 b.
Proof. exact init_fit_uses_branch_only. Qed.
Print Assumptions fit_uses_branch_only.
Theorem other_branch_rows_are_ignored : forall des (r : R * R * bool),
  snd r = negb des -> forall pre post, select RNum des (pre ++ r :: post) = select RNum des (pre ++ post).
Proof. intros des r H. exact (select_ignores_other_branch des [] r H). Qed.
Print Assumptions other_branch_rows_are_ignored.

(* data generated exactly from the model: cost 0 at the generating parameters, nothing does better, and every parameter
   vector of cost 0 reproduces the data (partial: that least_squares reaches cost 0 is validated, not proved) *)
Theorem exact_data_zero_is_global_min_partial : forall (M : list R -> R -> R) (xs : list R) (ps : list R),
  let data := map (fun p => (p, M xs p)) ps in
  sumsqR (resid RNum true M xs data) = 0
  /\ (forall x, 0 <= sumsqR (resid RNum true M x data))
  /\ (forall x, sumsqR (resid RNum true M x data) = 0 -> Forall (fun p => M x p = M xs p) ps).
Proof. exact exact_data_zero_is_global_min_R. Qed.
Print Assumptions exact_data_zero_is_global_min_partial.

(* expressing loading or pressure in another unit maps least-squares minimisers to minimisers and changes the fitted curve
   only by that unit change (Langmuir and Henry families; partial: other families and the temperature unit are validated only) *)
Theorem langmuir_unit_covariance_partial : forall c K nm data, 0 < c ->
  is_minimiser langmuirM data [K; nm] ->
  is_minimiser langmuirM (map (fun d => (fst d, c * snd d)) data) [K; c * nm]
  /\ is_minimiser langmuirM (map (fun d => (c * fst d, snd d)) data) [K / c; nm]
  /\ (forall p, langmuirM [K; c * nm] p = c * langmuirM [K; nm] p)
  /\ (forall p, langmuirM [K / c; nm] (c * p) = langmuirM [K; nm] p).
Proof. exact langmuir_unit_covariance. Qed.
Print Assumptions langmuir_unit_covariance_partial.
Theorem henry_unit_covariance_partial : forall c K data, 0 < c ->
  is_minimiser henryM data [K] ->
  is_minimiser henryM (map (fun d => (fst d, c * snd d)) data) [c * K]
  /\ is_minimiser henryM (map (fun d => (c * fst d, snd d)) data) [K / c].
Proof. exact henry_unit_covariance. Qed.
Print Assumptions henry_unit_covariance_partial.

(* the same for ANY model family whose parameter vector can absorb the unit change by entry-wise factors fs, with the bounds in force B
   transported along - and the formulas GENERATED from pygaps/modelling/*.py (Gen/FormulasGen.v) have that shape: loading unit for Henry,
   Langmuir, DSLangmuir, TSLangmuir, BET, GAB, Quadratic, TemkinApprox, Toth, Freundlich, DR, DA; pressure unit for the first nine
   (partial: minimisers, not what least_squares finds; Jensen-Seaton, Virial, FHVST, WVST and the temperature unit are validated only) *)
Theorem loading_unit_maps_minimisers_partial : forall (M : list R -> R -> R) (fs : list R) (c : R),
  Forall (fun f => f <> 0) fs -> (forall y p, length y = length fs -> M (scale fs y) p = c * M y p) ->
  forall (B : list R -> Prop) data x, length x = length fs -> is_minimiser_in B M data x ->
    is_minimiser_in (fun z => B (scale (map Rinv fs) z)) M (map (fun d => (fst d, c * snd d)) data) (scale fs x)
    /\ forall p, M (scale fs x) p = c * M x p.
Proof. exact loading_unit_maps_minimisers. Qed.
Print Assumptions loading_unit_maps_minimisers_partial.
Theorem pressure_unit_maps_minimisers_partial : forall (M : list R -> R -> R) (fs : list R) (c : R),
  Forall (fun f => f <> 0) fs -> (forall y p, length y = length fs -> M (scale fs y) (c * p) = M y p) ->
  forall (B : list R -> Prop) data x, length x = length fs -> is_minimiser_in B M data x ->
    is_minimiser_in (fun z => B (scale (map Rinv fs) z)) M (map (fun d => (c * fst d, snd d)) data) (scale fs x)
    /\ forall p, M (scale fs x) (c * p) = M x p.
Proof. exact pressure_unit_maps_minimisers. Qed.
Print Assumptions pressure_unit_maps_minimisers_partial.
Theorem generated_model_formulas_absorb_unit_changes : forall c, 0 < c ->
  (forall y p, length y = 1%nat -> M_Henry (scale [c] y) p = c * M_Henry y p)
  /\ (forall y p, length y = 2%nat -> M_Langmuir (scale [1; c] y) p = c * M_Langmuir y p)
  /\ (forall y p, length y = 4%nat -> M_DSLangmuir (scale [c; 1; c; 1] y) p = c * M_DSLangmuir y p)
  /\ (forall y p, length y = 6%nat -> M_TSLangmuir (scale [c; c; c; 1; 1; 1] y) p = c * M_TSLangmuir y p)
  /\ (forall y p, length y = 3%nat -> M_BET (scale [c; 1; 1] y) p = c * M_BET y p)
  /\ (forall y p, length y = 3%nat -> M_GAB (scale [c; 1; 1] y) p = c * M_GAB y p)
  /\ (forall y p, length y = 3%nat -> M_Quadratic (scale [c; 1; 1] y) p = c * M_Quadratic y p)
  /\ (forall y p, length y = 3%nat -> M_TemkinApprox (scale [c; 1; 1] y) p = c * M_TemkinApprox y p)
  /\ (forall y p, length y = 3%nat -> M_Toth (scale [c; 1; 1] y) p = c * M_Toth y p)
  /\ (forall y p, length y = 2%nat -> M_Freundlich (scale [c; 1] y) p = c * M_Freundlich y p)
  /\ (forall rt y p, length y = 2%nat -> M_DR rt (scale [c; 1] y) p = c * M_DR rt y p)
  /\ (forall rt y p, length y = 3%nat -> M_DA rt (scale [c; 1; 1] y) p = c * M_DA rt y p)
  /\ (forall y p, length y = 1%nat -> M_Henry (scale [/ c] y) (c * p) = M_Henry y p)
  /\ (forall y p, length y = 2%nat -> M_Langmuir (scale [/ c; 1] y) (c * p) = M_Langmuir y p)
  /\ (forall y p, length y = 4%nat -> M_DSLangmuir (scale [1; / c; 1; / c] y) (c * p) = M_DSLangmuir y p)
  /\ (forall y p, length y = 6%nat -> M_TSLangmuir (scale [1; 1; 1; / c; / c; / c] y) (c * p) = M_TSLangmuir y p)
  /\ (forall y p, length y = 3%nat -> M_BET (scale [1; / c; / c] y) (c * p) = M_BET y p)
  /\ (forall y p, length y = 3%nat -> M_GAB (scale [1; 1; / c] y) (c * p) = M_GAB y p)
  /\ (forall y p, length y = 3%nat -> M_Quadratic (scale [1; / c; / (c * c)] y) (c * p) = M_Quadratic y p)
  /\ (forall y p, length y = 3%nat -> M_TemkinApprox (scale [1; / c; 1] y) (c * p) = M_TemkinApprox y p)
  /\ (forall y p, length y = 3%nat -> M_Toth (scale [1; / c; 1] y) (c * p) = M_Toth y p).
Proof. exact generated_formulas_absorb_unit_changes. Qed.
Print Assumptions generated_model_formulas_absorb_unit_changes.
(* spelled out for one family with its bounds (all parameters >= 0): Toth *)
Theorem toth_unit_covariance_partial : forall c data x, 0 < c -> length x = 3%nat ->
  is_minimiser_in (Forall (fun v => 0 <= v)) M_Toth data x ->
  is_minimiser_in (Forall (fun v => 0 <= v)) M_Toth (map (fun d => (fst d, c * snd d)) data) (scale [c; 1; 1] x)
  /\ is_minimiser_in (Forall (fun v => 0 <= v)) M_Toth (map (fun d => (c * fst d, snd d)) data) (scale [1; / c; 1] x)
  /\ (forall p, M_Toth (scale [c; 1; 1] x) p = c * M_Toth x p)
  /\ (forall p, M_Toth (scale [1; / c; 1] x) (c * p) = M_Toth x p).
Proof. exact toth_unit_covariance. Qed.
Print Assumptions toth_unit_covariance_partial.

(* hypotheses are satisfiable / the model executes: three attempts (one failed, two tied) -> the first of the tied ones *)
Example best_of_example : best_of QNum [None; Some (3 # 2); Some (1 # 2); Some (1 # 2)]%Q = Ok 2%nat.
Proof. vm_compute. reflexivity. Qed.
Example named_bounds_example :
  by_name ["K"; "n_m"]%string [("n_m", (0, 4)); ("K", (0, 100))]%string = Ok [(0, 100); (0, 4)].
Proof. reflexivity. Qed.
Example range_example_decreasing_rows : range_of QNum [5; 3; 4; 1]%Q = 4%Q.
Proof. vm_compute. reflexivity. Qed.
Example minimiser_exists : is_minimiser henryM [(1, 2); (2, 4)] [2].
Proof.
  intros y Ly. destruct y as [|a [|? ?]]; try discriminate. unfold sse, henryM; simpl.
  pose proof (Rle_0_sqr (a * 1 - 2)). pose proof (Rle_0_sqr (a * 2 - 4)). unfold Rsqr in *. lra.
Qed.
(* the generated fit runs: an optimiser returning the start vector and a cost unrelated to the residuals; Henry-like model on two rows *)
Example generated_fit_example :
  let lsq := fun (f : list R -> list R) (x0 : list R) (b : list (R * R)) => Some (x0, f x0, 123, 0) in
  gen_fit true (fun x p => nth 0 x 0 * p) (fun _ l => l) lsq [1; 2] [3; 5] (3, 5) (1, 2) [2] []
  = Ok ([2], sqrt (((2 * 1 - 3) * (2 * 1 - 3) + ((2 * 2 - 5) * (2 * 2 - 5) + 0)) / INR 2) / (5 - 3)).
Proof. exact gen_fit_example. Qed.

(* ---- only the requested branch is used, for ANY pressure sequence: the rows fitted are decided by the MARKS alone (Fit/FitBranch.v) *)
(* a point is fitted iff it is a row marked with the requested branch *)
Theorem fitted_rows_are_exactly_the_marked_rows : forall des (rows : list (row RNum)) pt, In pt (select RNum des rows) <-> In (pt, des) rows.
Proof. exact (select_in_iff RNum). Qed.
Print Assumptions fitted_rows_are_exactly_the_marked_rows.
(* every row belongs to exactly one branch: nothing is dropped, nothing is used twice *)
Theorem branches_partition_the_table : forall rows : list (row RNum), (length (select RNum false rows) + length (select RNum true rows) = length rows)%nat.
Proof. exact (select_partition RNum). Qed.
Print Assumptions branches_partition_the_table.
(* the branch guess (rows after the first pressure maximum are desorption) is for tables WITHOUT marks: applied a second time to the rows of one
   branch it is not the identity - a desorption run whose pressure creeps up once (1.00 | 0.93 0.95 0.80 0.50) would lose 2 of its 4 rows *)
Example reguessing_marks_on_one_branch_loses_rows :
  length (select QNum true creep_table) = 4%nat /\ length (reguessed QNum true creep_table) = 2%nat.
Proof. exact reguessing_one_branch_loses_rows. Qed.
(* the guess on the whole table gives the marks of that table, and on a monotone branch a second guess is harmless *)
Example guess_on_the_whole_table_and_on_a_monotone_branch :
  map snd (marked_by_guess QNum (map fst creep_table)) = map snd creep_table /\ reguessed QNum false creep_table = select QNum false creep_table.
Proof. exact (conj marks_guessed_for_the_whole_table_agree reguessing_a_monotone_branch_is_harmless). Qed.
