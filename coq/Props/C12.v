(* C12 - Model fitting is self-consistent.  PARTIAL proof:
   Fit/FitLogic.v is a hand-written model of the decision logic around scipy.optimize.least_squares (tied to the code by the
   correspondence part of tools/props/c12.py on every run). The optimiser is NOT modelled: it is the variable `lsq`, and its
   contract (opt_res.fun is the residual vector at opt_res.x; opt_res.x lies within the bounds) is an explicit premise. Whether the
   optimiser FINDS the global minimum (recovery of the generating parameters, re-fitting, unit covariance of the fitted curve) is
   validated on the implementation, not proved; the theorems state what a minimiser must satisfy.
   Property theorems only, each closed by `exact` + Print Assumptions. *)
From Coq Require Import Reals Lra List Bool QArith.
From PG Require Import Lib.Num Lib.Py Fit.FitLogic Fit.FitTheorems.
Import ListNotations.
Open Scope R_scope.

(* initial_guess_bounds puts every starting value inside its bounds and leaves values already inside untouched *)
Theorem clamp_in_bounds : forall (bounds : list (R * R)) (guess : list R),
  Forall (fun b => fst b <= snd b) bounds -> length guess = length bounds ->
  length (clamp_all RNum bounds guess) = length bounds
  /\ Forall2 (fun b v => fst b <= v <= snd b) bounds (clamp_all RNum bounds guess).
Proof. exact clamp_all_in_bounds. Qed.
Print Assumptions clamp_in_bounds.
Theorem clamp_keeps_values_in_bounds : forall lo hi v : R, lo <= v <= hi -> clamp RNum lo hi v = v.
Proof. exact clamp_identity_R. Qed.
Print Assumptions clamp_keeps_values_in_bounds.

(* whenever fit succeeds, the parameters respect the bounds in force and the reported error is the root-mean-square deviation
   between the fitted model and the data at those parameters, divided by the range. Partial: premise on least_squares *)
Theorem rmse_is_rms_partial :
  forall (calc_loading : bool) (M : list R -> R -> R)
         (lsq : (list R -> list R) -> list R -> list (R * R) -> option (list R * list R)),
  (forall f x0 b x fv, lsq f x0 b = Some (x, fv) -> fv = f x /\ in_bounds b x) ->
  forall (data : list (R * R)) x0 b x fv range,
    fit RNum calc_loading M lsq data x0 b = Ok (x, fv) ->
    in_bounds b x
    /\ fv = resid RNum calc_loading M x data
    /\ rmse fv (length data) range
       = sqrt (sumsqR (map (fun d => if calc_loading then M x (fst d) - snd d else M x (snd d) - fst d) data) / INR (length data)) / range.
Proof. exact fit_reports_rms. Qed.
Print Assumptions rmse_is_rms_partial.
(* the executed model computes the square of that quantity (what the correspondence compares with the reported rmse^2) *)
Theorem rmse_sq_is_rmse_squared : forall f n range, (0 < n)%nat -> range <> 0 ->
  rmse_sq RNum f n range = rmse f n range * rmse f n range.
Proof. exact rmse_sq_is_square. Qed.
Print Assumptions rmse_sq_is_rmse_squared.

(* best of several candidate models: converged, minimal reported error, earliest among ties; for any list of attempts *)
Theorem guess_is_argmin : forall (att : list (option R)) (p : nat),
  best_of RNum att = Ok p ->
  exists e, nth_error att p = Some (Some e)
    /\ (forall q e', nth_error att q = Some (Some e') -> e <= e')
    /\ (forall q e', (q < p)%nat -> nth_error att q = Some (Some e') -> e < e').
Proof. exact best_of_is_argmin. Qed.
Print Assumptions guess_is_argmin.

(* only the requested branch is used *)
Theorem fit_uses_branch_only :
  forall (calc_loading : bool) (M : list R -> R -> R) lsq des (rows rows' : list (R * R * bool)) x0 b,
    select RNum des rows = select RNum des rows' ->
    init_fit RNum calc_loading M lsq des rows x0 b = init_fit RNum calc_loading M lsq des rows' x0 b.
Proof. exact init_fit_uses_branch_only. Qed.
Print Assumptions fit_uses_branch_only.
Theorem other_branch_rows_are_ignored : forall des (r : R * R * bool),
  snd r = negb des -> forall pre post, select RNum des (pre ++ r :: post) = select RNum des (pre ++ post).
Proof. intros des r H. exact (select_ignores_other_branch des [] r H). Qed.
Print Assumptions other_branch_rows_are_ignored.

(* data generated exactly from the model: cost 0 at the generating parameters, nothing does better, and every parameter
   vector of cost 0 reproduces the data (partial: that least_squares reaches cost 0 is validated, not proved) *)
Theorem exact_data_zero_is_global_min_partial : forall (M : list R -> R -> R) (xs : list R) (ps : list R),
  let data := map (fun p => (p, M xs p)) ps in
  sumsqR (resid RNum true M xs data) = 0
  /\ (forall x, 0 <= sumsqR (resid RNum true M x data))
  /\ (forall x, sumsqR (resid RNum true M x data) = 0 -> Forall (fun p => M x p = M xs p) ps).
Proof. exact exact_data_zero_is_global_min_R. Qed.
Print Assumptions exact_data_zero_is_global_min_partial.

(* expressing loading or pressure in another unit maps least-squares minimisers to minimisers and changes the fitted curve
   only by that unit change (Langmuir and Henry families; partial: other families and the temperature unit are validated only) *)
Theorem langmuir_unit_covariance_partial : forall c K nm data, 0 < c ->
  is_minimiser langmuirM data [K; nm] ->
  is_minimiser langmuirM (map (fun d => (fst d, c * snd d)) data) [K; c * nm]
  /\ is_minimiser langmuirM (map (fun d => (c * fst d, snd d)) data) [K / c; nm]
  /\ (forall p, langmuirM [K; c * nm] p = c * langmuirM [K; nm] p)
  /\ (forall p, langmuirM [K / c; nm] (c * p) = langmuirM [K; nm] p).
Proof. exact langmuir_unit_covariance. Qed.
Print Assumptions langmuir_unit_covariance_partial.
Theorem henry_unit_covariance_partial : forall c K data, 0 < c ->
  is_minimiser henryM data [K] ->
  is_minimiser henryM (map (fun d => (fst d, c * snd d)) data) [c * K]
  /\ is_minimiser henryM (map (fun d => (c * fst d, snd d)) data) [K / c].
Proof. exact henry_unit_covariance. Qed.
Print Assumptions henry_unit_covariance_partial.

(* hypotheses are satisfiable / the model executes: three attempts (one failed, two tied) -> the first of the tied ones *)
Example best_of_example : best_of QNum [None; Some (3 # 2); Some (1 # 2); Some (1 # 2)]%Q = Ok 2%nat.
Proof. vm_compute. reflexivity. Qed.
Example minimiser_exists : is_minimiser henryM [(1, 2); (2, 4)] [2].
Proof.
  intros y Ly. destruct y as [|a [|? ?]]; try discriminate. unfold sse, henryM; simpl.
  pose proof (Rle_0_sqr (a * 1 - 2)). pose proof (Rle_0_sqr (a * 2 - 4)). unfold Rsqr in *. lra.
Qed.
