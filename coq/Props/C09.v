(* C09 - database operations are atomic under statement failures and process death. Property theorems only.
   Model: Db/DbModel.v (every public function of parsing/sqlite.py as a tree of statements, with_connection as one transaction,
   fault = statement number k raises IntegrityError / InterfaceError / OperationalError / any other Exception (EExc) / a BaseException such as
   KeyboardInterrupt (EBase) or the process dies there; death around commit; COMMIT itself raising (CCommitRaises)).
   The theorems below quantify over `flt : option (nat * err)` and `cf : cfault`, i.e. over ALL these kinds. *)
From Coq Require Import ZArith List Bool.
From PG Require Import Db.DbModel Db.DbAtomic Db.DbInv Db.DbConn Db.DbConnProofs.
Import ListNotations.
Open Scope Z_scope.

(* every public function, every prior content d and registry r, every statement position k, every fault kind, death before / after
   commit: the file afterwards is the pre-state or the complete post-state of the un-faulted call *)
Theorem every_public_call_is_atomic_partial : forall o d r flt cf,
  (match flt with Some (k, e) => e <> EIntegrity \/ is_overwrite_upload o = false | None => True end) ->
  db_of (with_conn flt cf (body o) d r) = d \/ db_of (with_conn flt cf (body o) d r) = db_of (run_op o d r).
Proof. exact public_call_atomic. Qed.
Print Assumptions every_public_call_is_atomic_partial.
(* the same for ANY statement program run under with_connection (so for any future public function written in the same style) *)
Theorem with_connection_is_atomic : forall (p : prog ret) d r flt cf,
  (match flt with Some (k, e) => e <> EIntegrity \/ tryfree p | None => True end) ->
  db_of (with_conn flt cf p d r) = d \/ db_of (with_conn flt cf p d r) = db_of (with_conn None CNone p d r).
Proof. exact with_conn_atomic. Qed.
Print Assumptions with_connection_is_atomic.
(* a call that reports an error, or dies before commit returned, wrote nothing: everything stored before is intact *)
Theorem failed_call_leaves_file_intact : forall (p : prog ret) d r flt cf,
  cf <> CAfterCommit -> (forall a, oc_of (with_conn flt cf p d r) <> OOk a) -> db_of (with_conn flt cf p d r) = d.
Proof. exact failed_call_writes_nothing. Qed.
Print Assumptions failed_call_leaves_file_intact.
Theorem death_after_commit_keeps_complete_effect : forall (p : prog ret) d r,
  db_of (with_conn None CAfterCommit p d r) = db_of (with_conn None CNone p d r).
Proof. exact death_after_commit_is_post_state. Qed.
Print Assumptions death_after_commit_keeps_complete_effect.
(* repeating the call from the restored file repeats the un-faulted call - provided the registries are those of the start *)
Theorem retry_repeats_the_call_partial : forall o d r flt cf,
  db_of (with_conn flt cf (body o) d r) = d -> snd (fst (with_conn flt cf (body o) d r)) = r ->
  run_op o (db_of (with_conn flt cf (body o) d r)) (snd (fst (with_conn flt cf (body o) d r))) = run_op o d r.
Proof. exact retry_succeeds_partial. Qed.
Print Assumptions retry_repeats_the_call_partial.
(* refuted: IntegrityError inside the try/except of overwrite is swallowed: old AND new properties committed *)
Theorem overwrite_swallows_integrity_error_refuted :
  let d' := db_of (with_conn (Some (4%nat, EIntegrity)) CNone (body wit_op) wit_db (mkReg [10] [])) in
  oc_of (with_conn (Some (4%nat, EIntegrity)) CNone (body wit_op) wit_db (mkReg [10] [])) = OOk RUnit
  /\ map p_val (props (ads d')) = [VNum 5; VNum 6]
  /\ map p_val (props (ads wit_db)) = [VNum 5]
  /\ map p_val (props (ads (db_of (run_op wit_op wit_db (mkReg [10] []))))) = [VNum 6].
Proof. exact DbAtomic.overwrite_swallows_integrity_error_refuted. Qed.
Print Assumptions overwrite_swallows_integrity_error_refuted.
(* refuted: the registries are not rolled back; the retry of an isotherm upload whose auto-insert was rolled back is refused *)
Theorem retry_after_rolled_back_autoinsert_refuted :
  let r0 := mkReg [10] [] in
  let x := with_conn (Some (4%nat, EOperational)) CNone (body (IsoUp wit_iso true true)) wit_db2 r0 in
  oc_of (run_op (IsoUp wit_iso true true) wit_db2 r0) = OOk RUnit
  /\ oc_of x = OOther EOperational /\ db_of x = wit_db2
  /\ r_mat (snd (fst x)) = [30]
  /\ oc_of (run_op (IsoUp wit_iso true true) (db_of x) (snd (fst x))) = OParsing.
Proof. exact DbAtomic.retry_after_rolled_back_autoinsert_refuted. Qed.
Print Assumptions retry_after_rolled_back_autoinsert_refuted.

(* ---- no orphans (Db/DbInv.v): "never an isotherm without its data or properties ... or properties of a deleted item".  The invariant
   wf (unique keys + every property row has its owner and type, every isotherm its material / adsorbate / type, every isotherm property and
   data row its isotherm) holds for a fresh file and is preserved by EVERY statement program run under with_connection - whatever statement
   fails with whatever error, wherever the process dies, before or after commit - hence by every public operation and every history *)
Theorem with_connection_preserves_well_formedness : forall (p : prog ret) flt cf d r, wfprog p -> wf d -> wf (DbInv.db_after (with_conn flt cf p d r)).
Proof. exact with_conn_wf. Qed.
Print Assumptions with_connection_preserves_well_formedness.
Theorem every_public_function_is_built_from_constraint_preserving_statements : forall o, wfprog (body o).
Proof. exact wfprog_body. Qed.
Print Assumptions every_public_function_is_built_from_constraint_preserving_statements.
Theorem faulted_call_preserves_well_formedness : forall o flt cf d r, wf d -> wf (DbInv.db_after (with_conn flt cf (body o) d r)).
Proof. exact faulted_op_wf. Qed.
Print Assumptions faulted_call_preserves_well_formedness.
Theorem well_formed_has_no_orphans : forall d, wf d -> no_orphans d.
Proof. exact wf_no_orphans. Qed.
Print Assumptions well_formed_has_no_orphans.
(* any history of calls on a fresh file, each with its own fault and crash point, the registries of each (possibly new) process arbitrary *)
Theorem faulty_history_preserves_well_formedness : forall h d regs, wf d -> wf (run_faulty d regs h).
Proof. exact faulty_history_wf. Qed.
Print Assumptions faulty_history_preserves_well_formedness.
Theorem no_orphans_after_any_faulty_history : forall h regs, no_orphans (run_faulty empty_db regs h).
Proof. exact faulty_history_no_orphans. Qed.
Print Assumptions no_orphans_after_any_faulty_history.

(* ---- the connection protocol (Db/DbConn.v).  Gen/DbShapeGen.v wc_source is the try / except / else / finally statement of with_connection
   transcribed from the source on every run; Db/DbConn.v interprets it with the semantics of Python's try statement.
   (1) the with_conn of the model, about which everything above is stated, IS that interpretation: same outcome, file, registries and
   statement count for every program, every fault kind at every position and every crash point *)
Theorem with_connection_model_is_the_source_skeleton : forall flt cf (p : prog ret) d r,
  fst (with_conn_gen wc_source flt cf p d r) = Some (with_conn flt cf p d r).
Proof. exact with_conn_is_source_skeleton. Qed.
Print Assumptions with_connection_model_is_the_source_skeleton.
(* (2) whatever is raised wherever (any of the exception kinds, a failing COMMIT): if the process survives, the connection is CLOSED when the
   call returns or raises - exactly one close, as the last call made on the connection, so neither a write lock nor an open transaction is left
   behind and the operation can be repeated at once; COMMIT was issued iff the caller sees a normal return; an error seen by the caller
   means nothing reached the file *)
Theorem connection_is_closed_on_every_path : forall flt cf (p : prog ret) d r,
  let res := with_conn_gen wc_source flt cf p d r in
  survives (fst res) ->
  x_closed (snd res) = true
  /\ hd_error (x_ev (snd res)) = Some EvConnect
  /\ last (x_ev (snd res)) EvConnect = EvClose
  /\ count EvClose (x_ev (snd res)) = 1%nat /\ count EvConnect (x_ev (snd res)) = 1%nat
  /\ (returns_normally (fst res) = true -> x_ev (snd res) = [EvConnect; EvCommit; EvClose])
  /\ (returns_normally (fst res) = false -> x_file (snd res) = d).
Proof. exact connection_closed_on_every_path. Qed.
Print Assumptions connection_is_closed_on_every_path.
(* (3) the calls made on the connection per kind of exception that leaves the body (compared with the implementation on every faulted call) *)
Theorem connection_events_by_fault_kind : forall k e (p : prog ret) d r a s,
  run (Some (k, e)) (seqP (ex pragma_fk) p) (mkSt d r 0) = (Bad a, s) ->
  conn_events (Some (k, e)) CNone p d r =
  match a with
  | EIntegrity | EInterface => [EvConnect; EvRollback; EvClose]
  | ECrash => [EvConnect]
  | _ => [EvConnect; EvClose] end.
Proof. exact events_by_kind. Qed.
Print Assumptions connection_events_by_fault_kind.
(* a wrapper that closes only in its handlers and after the try statement (no finally) leaks the connection for every kind it does not name *)
Theorem wrapper_without_finally_leaks_connection_refuted : forall k d r,
  let res := with_conn_gen wc_no_finally (Some (1%nat, EExc k)) CNone (Ret RUnit) d r in
  fst res = Some (OOther (EExc k), d, r, 1%nat) /\ x_closed (snd res) = false /\ x_ev (snd res) = [EvConnect].
Proof. exact no_finally_leaks_connection. Qed.
Print Assumptions wrapper_without_finally_leaks_connection_refuted.
Example other_fault_kinds_are_covered :
  fst (with_conn_gen wc_source (Some (3%nat, EExc 7)) CNone (body k_op) k_db (mkReg [] [])) = Some (OOther (EExc 7), k_db, mkReg [] [], 3%nat)
  /\ conn_events (Some (3%nat, EExc 7)) CNone (body k_op) k_db (mkReg [] []) = [EvConnect; EvClose]
  /\ fst (with_conn_gen wc_source (Some (3%nat, EBase 1)) CNone (body k_op) k_db (mkReg [] [])) = Some (OOther (EBase 1), k_db, mkReg [] [], 3%nat)
  /\ conn_events (Some (3%nat, EBase 1)) CNone (body k_op) k_db (mkReg [] []) = [EvConnect; EvClose]
  /\ fst (fst (fst (with_conn None (CCommitRaises EOperational) (body k_op) k_db (mkReg [] [])))) = OOther EOperational
  /\ snd (fst (fst (with_conn None (CCommitRaises EOperational) (body k_op) k_db (mkReg [] [])))) = k_db
  /\ conn_events None (CCommitRaises EOperational) (body k_op) k_db (mkReg [] []) = [EvConnect; EvCommit; EvClose]
  /\ names (mat (snd (fst (fst (run_op k_op k_db (mkReg [] [])))))) = [30].
Proof. exact other_fault_kinds_example. Qed.
