(* C09 - database operations are atomic under statement failures and process death. Property theorems only.
   Model: Db/DbModel.v (every public function of parsing/sqlite.py as a tree of statements, with_connection as one transaction,
   fault = statement number k raises IntegrityError / InterfaceError / OperationalError or the process dies there; death around commit). *)
From Coq Require Import ZArith List Bool.
From PG Require Import Db.DbModel Db.DbAtomic Db.DbInv.
Import ListNotations.
Open Scope Z_scope.

(* every public function, every prior content d and registry r, every statement position k, every fault kind, death before / after
   commit: the file afterwards is the pre-state or the complete post-state of the un-faulted call *)
Theorem every_public_call_is_atomic_partial : forall o d r flt cf,
  (match flt with Some (k, e) => e <> EIntegrity \/ is_overwrite_upload o = false | None => True end) ->
  db_of (with_conn flt cf (body o) d r) = d \/ db_of (with_conn flt cf (body o) d r) = db_of (run_op o d r).
Proof. exact public_call_atomic. Qed.
Print Assumptions every_public_call_is_atomic_partial.
(* the same for ANY statement program run under with_connection (so for any future public function written in the same style) *)
Theorem with_connection_is_atomic : forall (p : prog ret) d r flt cf,
  (match flt with Some (k, e) => e <> EIntegrity \/ tryfree p | None => True end) ->
  db_of (with_conn flt cf p d r) = d \/ db_of (with_conn flt cf p d r) = db_of (with_conn None CNone p d r).
Proof. exact with_conn_atomic. Qed.
Print Assumptions with_connection_is_atomic.
(* a call that reports an error, or dies before commit returned, wrote nothing: everything stored before is intact *)
Theorem failed_call_leaves_file_intact : forall (p : prog ret) d r flt cf,
  cf <> CAfterCommit -> (forall a, oc_of (with_conn flt cf p d r) <> OOk a) -> db_of (with_conn flt cf p d r) = d.
Proof. exact failed_call_writes_nothing. Qed.
Print Assumptions failed_call_leaves_file_intact.
Theorem death_after_commit_keeps_complete_effect : forall (p : prog ret) d r,
  db_of (with_conn None CAfterCommit p d r) = db_of (with_conn None CNone p d r).
Proof. exact death_after_commit_is_post_state. Qed.
Print Assumptions death_after_commit_keeps_complete_effect.
(* repeating the call from the restored file repeats the un-faulted call - provided the registries are those of the start *)
Theorem retry_repeats_the_call_partial : forall o d r flt cf,
  db_of (with_conn flt cf (body o) d r) = d -> snd (fst (with_conn flt cf (body o) d r)) = r ->
  run_op o (db_of (with_conn flt cf (body o) d r)) (snd (fst (with_conn flt cf (body o) d r))) = run_op o d r.
Proof. exact retry_succeeds_partial. Qed.
Print Assumptions retry_repeats_the_call_partial.
(* refuted: IntegrityError inside the try/except of overwrite is swallowed: old AND new properties committed *)
Theorem overwrite_swallows_integrity_error_refuted :
  let d' := db_of (with_conn (Some (4%nat, EIntegrity)) CNone (body wit_op) wit_db (mkReg [10] [])) in
  oc_of (with_conn (Some (4%nat, EIntegrity)) CNone (body wit_op) wit_db (mkReg [10] [])) = OOk RUnit
  /\ map p_val (props (ads d')) = [VNum 5; VNum 6]
  /\ map p_val (props (ads wit_db)) = [VNum 5]
  /\ map p_val (props (ads (db_of (run_op wit_op wit_db (mkReg [10] []))))) = [VNum 6].
Proof. exact DbAtomic.overwrite_swallows_integrity_error_refuted. Qed.
Print Assumptions overwrite_swallows_integrity_error_refuted.
(* refuted: the registries are not rolled back; the retry of an isotherm upload whose auto-insert was rolled back is refused *)
Theorem retry_after_rolled_back_autoinsert_refuted :
  let r0 := mkReg [10] [] in
  let x := with_conn (Some (4%nat, EOperational)) CNone (body (IsoUp wit_iso true true)) wit_db2 r0 in
  oc_of (run_op (IsoUp wit_iso true true) wit_db2 r0) = OOk RUnit
  /\ oc_of x = OOther EOperational /\ db_of x = wit_db2
  /\ r_mat (snd (fst x)) = [30]
  /\ oc_of (run_op (IsoUp wit_iso true true) (db_of x) (snd (fst x))) = OParsing.
Proof. exact DbAtomic.retry_after_rolled_back_autoinsert_refuted. Qed.
Print Assumptions retry_after_rolled_back_autoinsert_refuted.

(* ---- no orphans (Db/DbInv.v): "never an isotherm without its data or properties ... or properties of a deleted item".  The invariant
   wf (unique keys + every property row has its owner and type, every isotherm its material / adsorbate / type, every isotherm property and
   data row its isotherm) holds for a fresh file and is preserved by EVERY statement program run under with_connection - whatever statement
   fails with whatever error, wherever the process dies, before or after commit - hence by every public operation and every history *)
Theorem with_connection_preserves_well_formedness : forall (p : prog ret) flt cf d r, wfprog p -> wf d -> wf (DbInv.db_after (with_conn flt cf p d r)).
Proof. exact with_conn_wf. Qed.
Print Assumptions with_connection_preserves_well_formedness.
Theorem every_public_function_is_built_from_constraint_preserving_statements : forall o, wfprog (body o).
Proof. exact wfprog_body. Qed.
Print Assumptions every_public_function_is_built_from_constraint_preserving_statements.
Theorem faulted_call_preserves_well_formedness : forall o flt cf d r, wf d -> wf (DbInv.db_after (with_conn flt cf (body o) d r)).
Proof. exact faulted_op_wf. Qed.
Print Assumptions faulted_call_preserves_well_formedness.
Theorem well_formed_has_no_orphans : forall d, wf d -> no_orphans d.
Proof. exact wf_no_orphans. Qed.
Print Assumptions well_formed_has_no_orphans.
(* any history of calls on a fresh file, each with its own fault and crash point, the registries of each (possibly new) process arbitrary *)
Theorem faulty_history_preserves_well_formedness : forall h d regs, wf d -> wf (run_faulty d regs h).
Proof. exact faulty_history_wf. Qed.
Print Assumptions faulty_history_preserves_well_formedness.
Theorem no_orphans_after_any_faulty_history : forall h regs, no_orphans (run_faulty empty_db regs h).
Proof. exact faulty_history_no_orphans. Qed.
Print Assumptions no_orphans_after_any_faulty_history.
