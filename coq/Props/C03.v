(* C03 - Data accessors in requested units agree with permanent conversion; branch / limit selection; interpolation.
   iso_pressure / iso_loading / interp_one are the hand-written model Iso/IsoAccess.v (tied to pointisotherm.py by the
   correspondence run of the check); c_pressure / c_loading / convert_* inside them are GENERATED from the source. *)
From Coq Require Import Reals Lra QArith ZArith String List Bool Sorted.
From PG Require Import Lib.Num Lib.Py Gen.UnitsGen1 Units.AdsOracle Gen.UnitsGen2 Units.UnitsSpec Units.LoadingPhys Units.C01Theorems
  Iso.IsoState Gen.IsoGen Iso.IsoSpec Iso.IsoAccess Iso.C03Theorems Iso.InterpScale Units.MaterialProofs Gen.ModelIsoGen Iso.ModelAccess.
Import ListNotations.
Open Scope list_scope.
Open Scope R_scope.

(* pressure(branch, unit, mode): the stored rows of the branch, in order, times the SI factor - for EVERY data list,
   every stored / requested representation, any adsorbate with the given constants at the kelvin temperature *)
Theorem pressure_accessor_returns_branch_rows_times_factor :
  forall (a : adsorbate RNum) psat dens mm T tk, a_psat_Pa a (Some (kelvin_of tk T)) = Some psat -> 0 < psat -> kelvin_of tk T <> 0 ->
  forall rp rl rm cp cl cb li pi b (rp' : prep), std_branch b ->
  let s := mk_state rp rl rm tk T a (mat_full dens mm) cp cl cb li pi in
  iso_pressure RNum s b (p_unit rp') (p_mode rp') None
  = Ok (map (spec_conv (p_canon psat rp) (p_canon psat rp')) (map (p_of RNum) (filter (keep b) (rows RNum s)))).
Proof. exact pressure_accessor_factor. Qed.
Print Assumptions pressure_accessor_returns_branch_rows_times_factor.
Theorem pressure_accessor_equals_permanent_conversion_then_native_read :
  forall (a : adsorbate RNum) psat dens mm T tk, a_psat_Pa a (Some (kelvin_of tk T)) = Some psat -> 0 < psat -> kelvin_of tk T <> 0 ->
  forall rp rl rm cp cl cb li pi b (rp' : prep), std_branch b ->
  let s := mk_state rp rl rm tk T a (mat_full dens mm) cp cl cb li pi in
  iso_pressure RNum s b (p_unit rp') (p_mode rp') None
  = iso_pressure RNum (state_after (convert_pressure RNum s (p_mode rp') (p_unit rp') false)) b None None None.
Proof. exact pressure_accessor_is_convert_then_read. Qed.
Print Assumptions pressure_accessor_equals_permanent_conversion_then_native_read.
Theorem loading_accessor_returns_branch_rows_times_factor :
  forall (a : adsorbate RNum) M rml rmg dens mm T tk, ads_at a (Some (kelvin_of tk T)) M rml rmg -> 0 < M -> 0 < rml -> 0 < rmg ->
  forall rp rl rm cp cl cb li pi b (rl' : lrep), std_branch b ->
  let s := mk_state rp rl rm tk T a (mat_full dens mm) cp cl cb li pi in
  iso_loading RNum s b (l_unit rl') (l_basis rl') None None None
  = Ok (map (spec_conv (l_canon M rml rmg rm rl) (l_canon M rml rmg rm rl')) (map (l_of RNum) (filter (keep b) (rows RNum s)))).
Proof. exact loading_accessor_factor. Qed.
Print Assumptions loading_accessor_returns_branch_rows_times_factor.
Theorem loading_accessor_equals_permanent_conversion_then_native_read :
  forall (a : adsorbate RNum) M rml rmg dens mm T tk, ads_at a (Some (kelvin_of tk T)) M rml rmg -> 0 < M -> 0 < rml -> 0 < rmg ->
  forall rp rl rm cp cl cb li pi b (rl' : lrep), std_branch b ->
  let s := mk_state rp rl rm tk T a (mat_full dens mm) cp cl cb li pi in
  iso_loading RNum s b (l_unit rl') (l_basis rl') None None None
  = iso_loading RNum (state_after (convert_loading RNum s (l_basis rl') (l_unit rl') false)) b None None None None None.
Proof. exact loading_accessor_is_convert_then_read. Qed.
Print Assumptions loading_accessor_equals_permanent_conversion_then_native_read.
(* stored fraction/percent with a material argument: accessor x1000, permanent conversion x1 (known finding C03-F1) *)
Theorem accessor_with_material_argument_on_stored_fraction_refuted :
  iso_loading RNum st_fr None None None (Some "kg"%string) None None = Ok [0.028 * 1000]
  /\ iso_loading RNum (state_after (convert_material RNum st_fr None (Some "kg"%string) false)) None None None None None None = Ok [0.028].
Proof. exact accessor_fraction_material_refuted. Qed.
Print Assumptions accessor_with_material_argument_on_stored_fraction_refuted.

(* limits: exactly the order-preserving filter of the rows inside [lo, hi] (inclusive), for ALL states and arguments *)
Theorem limit_selection_is_filter : forall (s : iso RNum) b pu pm lo hi,
  limits_active RNum (Some (lo, hi)) = true ->
  iso_pressure RNum s b pu pm (Some (lo, hi)) = res_map (filter (between RNum lo hi)) (iso_pressure RNum s b pu pm None).
Proof. exact limits_select_is_filter. Qed.
Print Assumptions limit_selection_is_filter.
Theorem limits_without_bounds_select_all : forall (s : iso RNum) b pu pm r,
  iso_pressure RNum s b pu pm None = Ok r -> iso_pressure RNum s b pu pm (Some (None, None)) = Ok r.
Proof. exact limits_none_selects_all. Qed.
Print Assumptions limits_without_bounds_select_all.
(* a bound equal to 0 is a bound (C03-F2, repaired in /repo) *)
Theorem zero_limits_select_the_points_inside : forall (s : iso RNum) b pu pm,
  iso_pressure RNum s b pu pm (Some (Some 0, Some 0)) = res_map (filter (between RNum (Some 0) (Some 0))) (iso_pressure RNum s b pu pm None).
Proof. exact zero_limits_are_limits. Qed.
Print Assumptions zero_limits_select_the_points_inside.

(* linear interpolation over ANY increasing list of knots *)
Theorem interpolant_lies_on_the_chord : forall pre p q post fill x,
  increasing (pre ++ p :: q :: post) -> fst p < x <= fst q ->
  interp_one RNum (pre ++ p :: q :: post) fill x = Ok (chord RNum p q x).
Proof. exact interp_on_chord. Qed.
Print Assumptions interpolant_lies_on_the_chord.
Theorem interpolant_passes_through_the_knots : forall p q post pre fill,
  increasing (pre ++ p :: q :: post) ->
  interp_one RNum (pre ++ p :: q :: post) fill (fst q) = Ok (snd q)
  /\ (pre = [] -> interp_one RNum (p :: q :: post) fill (fst p) = Ok (snd p)).
Proof. exact interp_at_knots. Qed.
Print Assumptions interpolant_passes_through_the_knots.
Theorem outside_the_measured_range_is_refused_without_fill : forall (k : list (R * R)) a0 b0 t0 y z x,
  k = a0 :: b0 :: t0 -> last_two RNum k = Some (y, z) -> x < fst a0 \/ fst z < x ->
  interp_one RNum k (@FNone RNum) x = Err ValueError.
Proof. exact interp_outside_refused. Qed.
Print Assumptions outside_the_measured_range_is_refused_without_fill.
Theorem outside_the_measured_range_takes_the_fill_values : forall (k : list (R * R)) a0 b0 t0 y z x lo hi,
  k = a0 :: b0 :: t0 -> last_two RNum k = Some (y, z) ->
  (x < fst a0 -> interp_one RNum k (@FPair RNum lo hi) x = Ok lo)
  /\ (fst a0 <= x -> fst z < x -> interp_one RNum k (@FPair RNum lo hi) x = Ok hi).
Proof. exact interp_outside_filled. Qed.
Print Assumptions outside_the_measured_range_takes_the_fill_values.
(* a unit change of both axes commutes with interpolation on a segment: foreign-unit queries = convert first *)
Theorem interpolation_commutes_with_rescaling : forall c d (p q : R * R) x, c <> 0 -> fst p <> fst q ->
  chord RNum (c * fst p, d * snd p) (c * fst q, d * snd q) (c * x) = d * chord RNum p q x.
Proof. exact chord_scale. Qed.
Print Assumptions interpolation_commutes_with_rescaling.

(* ... and for whole knot lists and query lists: rescaled knots (a unit change of the stored data), rescaled query points and fill
   values give the rescaled answers and exactly the same refusals: interpolating in foreign units = converting first *)
Theorem interpolation_of_rescaled_knots : forall c d (k : list (R * R)) f x, 0 < c -> increasing k ->
  interp_one RNum (scale_knots c d k) (scale_fill d f) (c * x) = res_map (Rmult d) (interp_one RNum k f x).
Proof. exact interp_scale. Qed.
Print Assumptions interpolation_of_rescaled_knots.
Theorem interpolation_of_rescaled_knots_pointwise : forall c d (k : list (R * R)) f xs, 0 < c -> increasing k ->
  mapM (N:=RNum) (interp_one RNum (scale_knots c d k) (scale_fill d f)) (map (Rmult c) xs)
  = res_map (map (Rmult d)) (mapM (N:=RNum) (interp_one RNum k f) xs).
Proof. exact interp_list_scale. Qed.
Print Assumptions interpolation_of_rescaled_knots_pointwise.

(* the branch guess is a function of the pressure sequence alone (C03-F3, repaired in /repo): shape and the two extreme cases *)
Theorem branch_guess_depends_only_on_the_pressures : forall ps : list R, ps <> [] ->
  (split_point ps <= length ps)%nat /\ length (split_model ps) = length ps.
Proof. exact split_shape. Qed.
Print Assumptions branch_guess_depends_only_on_the_pressures.
Theorem branch_guess_extreme_cases : split_model [1; 2; 3] = [false; false; false] /\ split_model [3; 2; 1] = [true; true; true].
Proof. exact (conj split_maximum_last_is_all_adsorption split_maximum_first_is_all_desorption). Qed.
Print Assumptions branch_guess_extreme_cases.

Example knots_example : increasing [(1, 10); (2, 20); (4, 30)] /\ interp_one RNum [(1, 10); (2, 20); (4, 30)] (@FNone RNum) 2 = Ok 20.
Proof.
  assert (H : increasing ([] ++ (1, 10) :: (2, 20) :: [(4, 30)])).
  { repeat constructor; simpl; lra. }
  split; [exact H|]. exact (proj1 (interp_at_knots (1, 10) (2, 20) [(4, 30)] [] (@FNone RNum) H)).
Qed.

(* ------------------------------------------------------------------ MODEL isotherms (the other isotherm class of the property).
   model_loading_at / model_pressure_at are GENERATED from core/modelisotherm.py (Gen/ModelIsoGen.v); f and g are ANY fitted model
   functions loading(p) / pressure(n); br is the branch the model was fitted on. *)
Theorem model_loading_at_in_any_representation_is_convert_evaluate_convert :
  forall (a : adsorbate RNum) psat M rml rmg dens mm T tk,
  a_psat_Pa a (Some (kelvin_of tk T)) = Some psat -> ads_at a (Some (kelvin_of tk T)) M rml rmg ->
  0 < psat -> 0 < M -> 0 < rml -> 0 < rmg -> 0 < dens -> 0 < mm -> kelvin_of tk T <> 0 ->
  forall (rp : prep) (rl : lrep) (rm : mrep) (br : option string) (f g : R -> res R),
  let s := mk_state rp rl rm tk T a (mat_of dens mm) [] [] [] None None in
  forall p (rp' : prep) (rl' : lrep) (rm' : mrep),
  model_loading_at RNum br f s p None (p_unit rp') (p_mode rp') (l_unit rl') (l_basis rl') (m_unit rm') (m_basis rm')
  = bind (f (spec_conv (p_canon psat rp') (p_canon psat rp) p)) (fun n =>
      Ok (spec_conv (l_canon M rml rmg rm' rl) (l_canon M rml rmg rm' rl') (spec_conv (m_canon dens mm rm') (m_canon dens mm rm) n))).
Proof. exact model_loading_at_in_any_representation_is_convert_evaluate_convert_u. Qed.
Print Assumptions model_loading_at_in_any_representation_is_convert_evaluate_convert.
Theorem model_pressure_at_in_any_representation_is_convert_evaluate_convert :
  forall (a : adsorbate RNum) psat M rml rmg dens mm T tk,
  a_psat_Pa a (Some (kelvin_of tk T)) = Some psat -> ads_at a (Some (kelvin_of tk T)) M rml rmg ->
  0 < psat -> 0 < M -> 0 < rml -> 0 < rmg -> 0 < dens -> 0 < mm -> kelvin_of tk T <> 0 ->
  forall (rp : prep) (rl : lrep) (rm : mrep) (br : option string) (f g : R -> res R),
  let s := mk_state rp rl rm tk T a (mat_of dens mm) [] [] [] None None in
  forall n (rp' : prep) (rl' : lrep) (rm' : mrep), l_is_phys rl' = true ->
  model_pressure_at RNum br g s n None (p_unit rp') (p_mode rp') (l_unit rl') (l_basis rl') (m_unit rm') (m_basis rm')
  = bind (g (spec_conv (l_canon M rml rmg rm' rl') (l_canon M rml rmg rm' rl) (spec_conv (m_canon dens mm rm) (m_canon dens mm rm') n))) (fun p =>
      Ok (spec_conv (p_canon psat rp) (p_canon psat rp') p)).
Proof. exact model_pressure_at_in_any_representation_is_convert_evaluate_convert_u. Qed.
Print Assumptions model_pressure_at_in_any_representation_is_convert_evaluate_convert.
Theorem model_queries_without_unit_arguments_are_the_model :
  forall (a : adsorbate RNum) psat M rml rmg dens mm T tk,
  a_psat_Pa a (Some (kelvin_of tk T)) = Some psat -> ads_at a (Some (kelvin_of tk T)) M rml rmg ->
  0 < psat -> 0 < M -> 0 < rml -> 0 < rmg -> 0 < dens -> 0 < mm -> kelvin_of tk T <> 0 ->
  forall (rp : prep) (rl : lrep) (rm : mrep) (br : option string) (f g : R -> res R),
  let s := mk_state rp rl rm tk T a (mat_of dens mm) [] [] [] None None in
  forall x, model_loading_at RNum br f s x None None None None None None None = f x
         /\ model_pressure_at RNum br g s x None None None None None None None = g x.
Proof. exact model_queries_without_unit_arguments_are_the_model_u. Qed.
Print Assumptions model_queries_without_unit_arguments_are_the_model.
Theorem model_loading_at_with_pressure_representation_only :
  forall (a : adsorbate RNum) psat M rml rmg dens mm T tk,
  a_psat_Pa a (Some (kelvin_of tk T)) = Some psat -> ads_at a (Some (kelvin_of tk T)) M rml rmg ->
  0 < psat -> 0 < M -> 0 < rml -> 0 < rmg -> 0 < dens -> 0 < mm -> kelvin_of tk T <> 0 ->
  forall (rp : prep) (rl : lrep) (rm : mrep) (br : option string) (f g : R -> res R),
  let s := mk_state rp rl rm tk T a (mat_of dens mm) [] [] [] None None in
  forall p (rp' : prep),
  model_loading_at RNum br f s p None (p_unit rp') (p_mode rp') None None None None = f (spec_conv (p_canon psat rp') (p_canon psat rp) p).
Proof. exact model_loading_at_with_pressure_representation_only_u. Qed.
Print Assumptions model_loading_at_with_pressure_representation_only.
Theorem model_loading_at_with_loading_representation_only :
  forall (a : adsorbate RNum) psat M rml rmg dens mm T tk,
  a_psat_Pa a (Some (kelvin_of tk T)) = Some psat -> ads_at a (Some (kelvin_of tk T)) M rml rmg ->
  0 < psat -> 0 < M -> 0 < rml -> 0 < rmg -> 0 < dens -> 0 < mm -> kelvin_of tk T <> 0 ->
  forall (rp : prep) (rl : lrep) (rm : mrep) (br : option string) (f g : R -> res R),
  let s := mk_state rp rl rm tk T a (mat_of dens mm) [] [] [] None None in
  forall p (rl' : lrep),
  model_loading_at RNum br f s p None None None (l_unit rl') (l_basis rl') None None
  = bind (f p) (fun n => Ok (spec_conv (l_canon M rml rmg rm rl) (l_canon M rml rmg rm rl') n)).
Proof. exact model_loading_at_with_loading_representation_only_u. Qed.
Print Assumptions model_loading_at_with_loading_representation_only.
Theorem model_queries_refuse_another_branch :
  forall (a : adsorbate RNum) psat M rml rmg dens mm T tk,
  a_psat_Pa a (Some (kelvin_of tk T)) = Some psat -> ads_at a (Some (kelvin_of tk T)) M rml rmg ->
  0 < psat -> 0 < M -> 0 < rml -> 0 < rmg -> 0 < dens -> 0 < mm -> kelvin_of tk T <> 0 ->
  forall (rp : prep) (rl : lrep) (rm : mrep) (br : option string) (f g : R -> res R),
  let s := mk_state rp rl rm tk T a (mat_of dens mm) [] [] [] None None in
  forall b x pu pm lu lb mu mb, ostr_truthy b = true -> ostr_eqb b br = false ->
  model_loading_at RNum br f s x b pu pm lu lb mu mb = Err ParameterError /\ model_pressure_at RNum br g s x b pu pm lu lb mu mb = Err ParameterError.
Proof. exact model_queries_refuse_another_branch_u. Qed.
Print Assumptions model_queries_refuse_another_branch.
Theorem model_queries_refuse_unitless_arguments :
  forall (a : adsorbate RNum) psat M rml rmg dens mm T tk,
  a_psat_Pa a (Some (kelvin_of tk T)) = Some psat -> ads_at a (Some (kelvin_of tk T)) M rml rmg ->
  0 < psat -> 0 < M -> 0 < rml -> 0 < rmg -> 0 < dens -> 0 < mm -> kelvin_of tk T <> 0 ->
  forall (rp : prep) (rl : lrep) (rm : mrep) (br : option string) (f g : R -> res R),
  let s := mk_state rp rl rm tk T a (mat_of dens mm) [] [] [] None None in
  (forall p pu lu lb mu mb, ostr_truthy pu = false -> model_loading_at RNum br f s p None pu (Some "absolute"%string) lu lb mu mb = Err ParameterError)
  /\ (forall n pu pm lb mu mb, ostr_truthy lb = true -> ostr_truthy mb = false -> ostr_truthy mu = false ->
       model_pressure_at RNum br g s n None pu pm None lb mu mb = Err ParameterError).
Proof. exact model_queries_refuse_unitless_arguments_u. Qed.
Print Assumptions model_queries_refuse_unitless_arguments.
Theorem model_round_trip_through_any_foreign_representation :
  forall (a : adsorbate RNum) psat M rml rmg dens mm T tk,
  a_psat_Pa a (Some (kelvin_of tk T)) = Some psat -> ads_at a (Some (kelvin_of tk T)) M rml rmg ->
  0 < psat -> 0 < M -> 0 < rml -> 0 < rmg -> 0 < dens -> 0 < mm -> kelvin_of tk T <> 0 ->
  forall (rp : prep) (rl : lrep) (rm : mrep) (br : option string) (f g : R -> res R),
  let s := mk_state rp rl rm tk T a (mat_of dens mm) [] [] [] None None in
  forall p n (rp' : prep) (rl' : lrep) (rm' : mrep), l_is_phys rl' = true ->
  f (spec_conv (p_canon psat rp') (p_canon psat rp) p) = Ok n -> g n = Ok (spec_conv (p_canon psat rp') (p_canon psat rp) p) ->
  bind (model_loading_at RNum br f s p None (p_unit rp') (p_mode rp') (l_unit rl') (l_basis rl') (m_unit rm') (m_basis rm'))
       (fun y => model_pressure_at RNum br g s y None (p_unit rp') (p_mode rp') (l_unit rl') (l_basis rl') (m_unit rm') (m_basis rm')) = Ok p.
Proof. exact model_round_trip_through_any_foreign_representation_u. Qed.
Print Assumptions model_round_trip_through_any_foreign_representation.
(* the stored material representation is the context when none is passed (true since the fix: commit 1ff1900 in /repo; before, a
   model isotherm stored as a fraction raised KeyError here) *)
Theorem model_pressure_at_with_loading_representation_only :
  forall (a : adsorbate RNum) psat M rml rmg dens mm T tk,
  a_psat_Pa a (Some (kelvin_of tk T)) = Some psat -> ads_at a (Some (kelvin_of tk T)) M rml rmg ->
  0 < psat -> 0 < M -> 0 < rml -> 0 < rmg -> 0 < dens -> 0 < mm -> kelvin_of tk T <> 0 ->
  forall (rp : prep) (rl : lrep) (rm : mrep) (br : option string) (f g : R -> res R),
  let s := mk_state rp rl rm tk T a (mat_of dens mm) [] [] [] None None in
  forall n (rl' : lrep), l_is_phys rl' = true ->
  model_pressure_at RNum br g s n None None None (l_unit rl') (l_basis rl') None None
  = g (spec_conv (l_canon M rml rmg rm rl') (l_canon M rml rmg rm rl) n).
Proof. exact model_pressure_at_with_loading_representation_only_u. Qed.
Print Assumptions model_pressure_at_with_loading_representation_only.
