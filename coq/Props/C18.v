(* C18 - Kernel (DFT) fitting is non-negative and reproduces the isotherm.   PARTIAL proof.
   kernel_fit / psd_dft below are the hand-written model (Charact/Kernel.v) of the glue of psd_dft_kernel_fit / psd_dft
   (psd_kernel.py); tools/props/c18.py executes that model (QNum, vm_compute) on every run with the answers the real
   interpolators / SLSQP / bspline gave and compares all outputs with the implementation.
   Not proved (named oracles, validated on the implementation's outputs on every run): that SLSQP converges to a
   minimiser within its tolerance, what the cubic interpolators return inside their range, what bspline (degree > 0)
   returns (in particular that smoothing keeps the distribution non-negative).
   `solver` = scipy.optimize.minimize(SLSQP, bounds (0, None)); its post-condition is an explicit premise. *)
From Coq Require Import Reals Lra QArith ZArith List Bool Arith.
From Coq Require String.
From PG Require Import Lib.Num Lib.Py Charact.Kernel Charact.KernelTheorems Charact.KernelCache.
From PG Require Charact.BsplineLib Gen.BsplineGen Charact.Bspline.
Import ListNotations.
Open Scope R_scope.

(* the reported fitted isotherm is the kernel applied to the weights the solver returned, which are non-negative; without
   smoothing (degree 0) the reported distribution is non-negative and its kernel-weighted sum (dist * dw) is the reported isotherm.
   partial: for degree > 0 the reported distribution is bspline's output, about which nothing is proved *)
Theorem fitted_is_kernel_combination_partial :
  forall (solver : list (list R) -> list R -> res (list R)) (spline : nat -> list R -> list R -> list R * list R),
  (forall KP l x, solver KP l = Ok x -> length x = length KP /\ Forall (Rle 0) x) ->
  forall (k : kernel RNum) ps ls deg o, kernel_fit RNum solver spline k ps ls deg = Ok o ->
    exists KP x, kernel_points RNum k ps = Ok KP /\ solver KP ls = Ok x /\
      length x = length k /\ Forall (Rle 0) x /\
      o_kl o = kernel_loading RNum (length ps) KP x /\
      (deg = 0%nat -> widths_increasing (map fst k) ->
         o_widths o = map fst k /\ Forall (Rle 0) (o_dist o) /\
         vmul RNum (o_dist o) (ediff1d_begin RNum (o_widths o)) = x /\
         o_kl o = kernel_loading RNum (length ps) KP (vmul RNum (o_dist o) (ediff1d_begin RNum (o_widths o)))).
Proof. exact fitted_is_kernel_combination. Qed.
Print Assumptions fitted_is_kernel_combination_partial.

(* an isotherm that is an exact non-negative combination of the kernel rows makes the objective's minimum 0, and every
   feasible minimiser of the objective reproduces the isotherm exactly.
   partial: that SLSQP returns such a minimiser is the oracle's business *)
Theorem exact_combination_has_zero_residual_partial :
  forall n (KP : list (list R)) (w : list R),
  Forall (fun K => length K = n) KP -> length w = length KP -> Forall (Rle 0) w ->
  let l := kernel_loading RNum n KP w in
  sum_squares RNum n KP l w = 0 /\
  (forall x, 0 <= sum_squares RNum n KP l x) /\
  (forall x, (forall y, length y = length KP -> Forall (Rle 0) y -> sum_squares RNum n KP l x <= sum_squares RNum n KP l y) ->
             kernel_loading RNum n KP x = l).
Proof. exact exact_combination_minimiser. Qed.
Print Assumptions exact_combination_has_zero_residual_partial.

(* what "within the optimiser tolerance" means point by point: an objective value <= eps bounds every squared residual by eps *)
Theorem objective_bounds_every_residual :
  forall n (KP : list (list R)) (l x : list R) eps, sum_squares RNum n KP l x <= eps ->
  Forall (fun u => u * u <= eps) (vsub RNum (kernel_loading RNum n KP x) l).
Proof. exact residual_bound. Qed.
Print Assumptions objective_bounds_every_residual.

Theorem cumulative_is_running_integral :
  forall (solver : list (list R) -> list R -> res (list R)) (spline : nat -> list R -> list R -> list R * list R)
         (k : kernel RNum) ps ls deg o, kernel_fit RNum solver spline k ps ls deg = Ok o ->
    length (o_cum o) = Nat.min (length (o_dist o)) (length (o_widths o)) /\
    forall i, (i < length (o_cum o))%nat ->
      nth i (o_cum o) 0 = Rsum (firstn (S i) (vmul RNum (o_dist o) (ediff1d_begin RNum (o_widths o)))).
Proof. exact cumulative_is_running_integral. Qed.
Print Assumptions cumulative_is_running_integral.

(* partial: non-negativity of the REPORTED distribution is a premise (it follows from the solver contract only for degree 0) *)
Theorem cumulative_monotone_if_nonneg_partial :
  forall (solver : list (list R) -> list R -> res (list R)) (spline : nat -> list R -> list R -> list R * list R)
         (k : kernel RNum) ps ls deg o, kernel_fit RNum solver spline k ps ls deg = Ok o ->
    Forall (Rle 0) (o_dist o) -> widths_nondecreasing (o_widths o) ->
    forall i, (S i < length (o_cum o))%nat -> nth i (o_cum o) 0 <= nth (S i) (o_cum o) 0.
Proof. exact cumulative_monotone_if_nonneg. Qed.
Print Assumptions cumulative_monotone_if_nonneg_partial.

Theorem degree0_cumulative_is_weight_sum :
  forall (solver : list (list R) -> list R -> res (list R)) (spline : nat -> list R -> list R -> list R * list R),
  (forall KP l x, solver KP l = Ok x -> length x = length KP /\ Forall (Rle 0) x) ->
  forall (k : kernel RNum) ps ls o, kernel_fit RNum solver spline k ps ls 0%nat = Ok o -> widths_increasing (map fst k) ->
    exists KP x, kernel_points RNum k ps = Ok KP /\ solver KP ls = Ok x /\ o_cum o = cumsum RNum x /\
      length (o_cum o) = length k /\
      (forall i, (i < length k)%nat -> nth i (o_cum o) 0 = Rsum (firstn (S i) x)) /\
      (forall i, (S i < length k)%nat -> nth i (o_cum o) 0 <= nth (S i) (o_cum o) 0).
Proof. exact degree0_cumulative_is_weight_sum. Qed.
Print Assumptions degree0_cumulative_is_weight_sum.

(* the result is a function of the points inside [lo, hi) only: points before the first one >= lo and from the first one >= hi on
   (any number, any pressures, any loadings) do not enter; fewer than 3 points inside -> CalculationError *)
Theorem only_window_influences :
  forall (solver : list (list R) -> list R -> res (list R)) (spline : nat -> list R -> list R -> list R * list R)
         (k : kernel RNum) pre mid post lpre lmid lpost lo hi deg,
    length lpre = length pre -> length lmid = length mid ->
    lo <> 0 -> hi <> 0 -> lo <= hi ->
    Forall (fun p => p < lo) pre -> Forall (fun p => lo <= p < hi) mid -> head_ge hi post ->
    psd_dft RNum solver spline k (pre ++ mid ++ post) (lpre ++ lmid ++ lpost) (Some lo) (Some hi) deg =
      if (length mid <? 3)%nat then Err CalculationError
      else res_map (fun o => (o, (Z.of_nat (length pre), Z.of_nat (length pre + length mid) - 1)%Z))
                   (kernel_fit RNum solver spline k mid lmid deg).
Proof. exact only_window_influences. Qed.
Print Assumptions only_window_influences.

Theorem no_limits_whole_isotherm :
  forall (solver : list (list R) -> list R -> res (list R)) (spline : nat -> list R -> list R -> list R * list R)
         (k : kernel RNum) ps ls deg, length ls = length ps ->
    psd_dft RNum solver spline k ps ls None None deg =
      if (length ps <? 3)%nat then Err CalculationError
      else res_map (fun o => (o, (0, Z.of_nat (length ps) - 1)%Z)) (kernel_fit RNum solver spline k ps ls deg).
Proof. exact no_limits_whole_isotherm. Qed.
Print Assumptions no_limits_whole_isotherm.

(* a pressure outside the range of the kernel's interpolators (each raises ValueError there) is refused with CalculationError *)
Theorem out_of_range_refused :
  forall (solver : list (list R) -> list R -> res (list R)) (spline : nat -> list R -> list R -> list R * list R)
         (inr : R -> bool) (k : kernel RNum) ps ls deg p,
    k <> [] -> range_contract inr k -> length ps = length ls -> In p ps -> inr p = false ->
    kernel_fit RNum solver spline k ps ls deg = Err CalculationError.
Proof. exact out_of_range_refused. Qed.
Print Assumptions out_of_range_refused.

(* ---- the premises are satisfiable *)
(* several kernel files in ONE process (model of _load_kernel's cache, Charact/KernelCache.v): whatever was loaded before, the
   kernel handed to the i-th fit is the parse of the i-th requested file; for ANY number of files, any order, any repetition.
   `parse` = reading the csv at that path into interpolators (files do not change while the process runs). *)
Theorem kernel_cache_returns_the_requested_kernel : forall (kernel : Type) (parse : String.string -> kernel) ps i d dp,
  (i < List.length ps)%nat -> nth i (path_cache_run parse ps) d = parse (nth i ps dp).
Proof. exact path_cache_returns_the_requested_kernel_l. Qed.
Print Assumptions kernel_cache_returns_the_requested_kernel.

(* the same for a cache indexed by any key that determines the file content *)
Theorem keyed_cache_returns_the_requested_kernel : forall (path key kernel : Type) (key_eqb : key -> key -> bool),
  (forall a b, key_eqb a b = true <-> a = b) ->
  forall (key_of : path -> key) (parse : path -> kernel),
  (forall p q, key_of p = key_of q -> parse p = parse q) ->
  forall ps i d dp, (i < List.length ps)%nat ->
  nth i (run path key kernel key_eqb key_of parse [] ps) d = parse (nth i ps dp).
Proof. exact cache_returns_the_requested_kernel_l. Qed.
Print Assumptions keyed_cache_returns_the_requested_kernel.

(* ... and why the key matters: indexed by the file name without its directory, the second of two namesakes gets the first
   one's kernel *)
Theorem cache_keyed_by_file_name_refuted :
  exists (ps : list (String.string * String.string)),
    let key_of := fun p : String.string * String.string => snd p in
    let parse := fun p : String.string * String.string => p in
    nth 1 (run _ _ _ String.eqb key_of parse [] ps) (String.EmptyString, String.EmptyString) <> parse (nth 1 ps (String.EmptyString, String.EmptyString)).
Proof. exact cache_keyed_by_name_refuted. Qed.
Print Assumptions cache_keyed_by_file_name_refuted.


(* math_utilities.bspline, open curve (GENERATED integer bookkeeping, Gen/BsplineGen.v, tools/py2v_bspline.py): for a kernel of ANY number
   of pore widths count >= 1 and ANY requested spline order d >= 1 (order 0 returns the data as they are) the degree handed to scipy's splev
   is min(d, count-1) (the order asked for unless the points do not suffice; at least 1 from two widths on), the knot vector has
   count + degree + 1 entries, all inside [0, count - degree], and the parameter range [0, count - degree] on which the spline is sampled
   is NOT degenerate (a degenerate one makes splev return 0/0 = NaN for every width, distribution and cumulative volume).
   partial: what splev returns on that well-formed input is scipy's (oracle, validated on the outputs on every run) *)
Theorem bspline_knot_vector_well_formed_partial : forall count d : Z,
  (1 <= count)%Z -> (1 <= d)%Z ->
  let k := BsplineGen.bspline_open_degree count d in
  let kv := BsplineGen.bspline_open_knots count k in
  d <> BsplineGen.bspline_identity_degree /\
  k = Z.min d (count - 1) /\ (0 <= k)%Z /\ ((2 <= count)%Z -> (1 <= k)%Z) /\
  Z.of_nat (length kv) = (count + k + 1)%Z /\
  Forall (fun t => (0 <= t <= BsplineGen.bspline_open_range_end count k)%Z) kv /\
  (0 < BsplineGen.bspline_open_range_end count k)%Z.
Proof. exact Bspline.bspline_plan_well_formed_lemma. Qed.
Print Assumptions bspline_knot_vector_well_formed_partial.

Example solver_contract_satisfiable :
  exists solver : list (list R) -> list R -> res (list R),
    (forall KP l x, solver KP l = Ok x -> length x = length KP /\ Forall (Rle 0) x) /\
    forall spline, exists o, kernel_fit RNum solver spline demo_kernel [1; 2; 3] [3; 6; 9] 0%nat = Ok o /\ o_widths o = [1; 3] /\ length (o_cum o) = 2%nat.
Proof. exists demo_solver. split; [exact demo_solver_post | exact demo_fit_succeeds]. Qed.
Example range_contract_satisfiable :
  forall lo hi (cols : list (R * (R -> R))),
    range_contract (fun q => Rleb lo q && Rleb q hi) (map (fun c => (fst c, ranged RNum lo hi (snd c))) cols).
Proof. exact ranged_contract. Qed.
Example increasing_widths_satisfiable : widths_increasing (map fst demo_kernel).
Proof. exact demo_widths. Qed.
Example bspline_small_kernels_evaluated :
  map (fun cd : Z * Z => BsplineGen.bspline_open_knots (fst cd) (BsplineGen.bspline_open_degree (fst cd) (snd cd))) [(1, 3); (2, 2); (2, 3); (3, 3); (4, 3)]%Z
  = [[0; 1]; [0; 0; 1; 1]; [0; 0; 1; 1]; [0; 0; 0; 1; 1; 1]; [0; 0; 0; 0; 1; 1; 1; 1]]%Z.
Proof. exact Bspline.bspline_small_kernels. Qed.
