(* C20 - Shipped adsorbates resolve uniquely; their thermodynamic data are consistent.
   Property theorems only. Registry data (ads_json, ads_db) are GENERATED from data/adsorbates.json and data/default.db
   (Gen/AdsorbatesGen.v); the property methods are GENERATED from core/adsorbate.py (Gen/AdsMethodsGen.v); the
   alias normalisation / __eq__ / find / setter model is hand-written (Registry/Adsorbates.v) and executed against the
   implementation on every run. CoolProp is an oracle `b : backend` (Registry/Backend.v). *)
From Coq Require Import Reals Lra QArith ZArith String List Bool.
From PG Require Import Lib.Num Lib.Py Gen.UnitsGen1 Units.AdsOracle Gen.UnitsGen2 Units.UnitsSpec Units.C01Theorems
  Registry.AliasArg Gen.AdsorbatesGen Registry.Adsorbates Registry.Backend Gen.AdsMethodsGen Registry.AdsMethods.
Import ListNotations.
Open Scope string_scope.

(* ------------------------------------------------------------ registry: all registries, all strings *)
Theorem find_case_insensitive : forall L s1 s2, lower s1 = lower s2 -> find L s1 = find L s2.
Proof. exact find_depends_only_on_lower. Qed.
Print Assumptions find_case_insensitive.

Theorem find_returns_the_unique_owner : forall L s a,
  In a L -> In (lower s) (a_alias a) -> (forall b, In b L -> In (lower s) (a_alias b) -> b = a) -> find L s = Some a.
Proof. exact find_unique. Qed.
Print Assumptions find_returns_the_unique_owner.

Theorem find_is_first_match : forall L1 a L2 s,
  (forall b, In b L1 -> eq_str b s = false) -> eq_str a s = true -> find (L1 ++ a :: L2) s = Some a.
Proof. exact find_first_match. Qed.
Print Assumptions find_is_first_match.

Theorem isotherm_links_adsorbate : forall L s a,
  In a L -> In (lower s) (a_alias a) -> (forall b, In b L -> In (lower s) (a_alias b) -> b = a) -> set_adsorbate L s = a.
Proof. exact set_adsorbate_links. Qed.
Print Assumptions isotherm_links_adsorbate.

Theorem constructed_adsorbate_answers_to_its_name : forall n a b s, lower s = lower n -> eq_str (new_ads n a b) s = true.
Proof. exact new_ads_eq_own_name. Qed.
Print Assumptions constructed_adsorbate_answers_to_its_name.

(* ------------------------------------------------------------ registry: THIS tree (176 adsorbates, 817 alias strings, 81 with backend) *)
Theorem registry_size : length reg_db = 176%nat /\ length reg_json = 176%nat
  /\ length (concat (map a_alias reg_db)) = 817%nat /\ length (filter a_backend reg_db) = 81%nat.
Proof. exact reg_counts. Qed.
Print Assumptions registry_size.

Theorem json_db_agree : reg_json = reg_db.
Proof. exact json_db_agree_lem. Qed.
Print Assumptions json_db_agree.

Theorem names_distinct : NoDup (map a_name reg_db).
Proof. exact names_distinct_lem. Qed.
Print Assumptions names_distinct.

Theorem all_ascii : forall a, In a reg_db -> str_ascii7 (a_name a) = true /\ forall al, In al (a_alias a) -> str_ascii7 al = true.
Proof. exact all_ascii_lem. Qed.
Print Assumptions all_ascii.

(* every alias of every shipped adsorbate, written in ANY letter case, resolves to that adsorbate and an isotherm created
   with it is linked to it (no string is exempted: C20-F1 is fixed in the data) *)
Theorem alias_resolves : forall a al s, In a reg_db -> In al (a_alias a) ->
  lower s = al -> find reg_db s = Some a /\ set_adsorbate reg_db s = a.
Proof. exact alias_resolves_lem. Qed.
Print Assumptions alias_resolves.

Theorem name_resolves : forall a s, In a reg_db -> lower s = lower (a_name a) ->
  find reg_db s = Some a /\ set_adsorbate reg_db s = a.
Proof. exact name_resolves_lem. Qed.
Print Assumptions name_resolves.

(* every name or alias designates exactly one adsorbate *)
Theorem alias_unique : forall a b al, In a reg_db -> In b reg_db -> In al (a_alias a) -> In al (a_alias b) -> a = b.
Proof. exact alias_unique_lem. Qed.
Print Assumptions alias_unique.

(* ... also in the implementation's own terms: for ANY string, at most one registry entry compares equal (__eq__) to it *)
Theorem string_designates_at_most_one : forall a b s, In a reg_db -> In b reg_db ->
  eq_str a s = true -> eq_str b s = true -> a = b.
Proof. exact string_designates_at_most_one_lem. Qed.
Print Assumptions string_designates_at_most_one.

Example cyclopentane_resolves : exists a, In a reg_db /\ a_name a = "cyclopentane" /\ find reg_db "CycloPentane" = Some a
  /\ set_adsorbate reg_db "CYCLOPENTANE" = a.
Proof. exact alias_resolves_example. Qed.

(* ------------------------------------------------------------ thermodynamic methods (generated), backend = oracle *)
Open Scope R_scope.
Local Notation QT := (@QT RNum).
Local Notation PQ := (@PQ RNum).
Local Notation NoInput := (@NoInput RNum).
Theorem property_methods_meet_spec : forall (b : backend RNum) (props : list (string * R)),
  molar_mass RNum b props true = three_way (b "molar_mass" NoInput) 1000 (assoc "molar_mass" props) 1
  /\ p_triple RNum b props true = three_way (b "PropsSI:PTRIPLE" NoInput) 1 (assoc "p_triple" props) 100000
  /\ t_triple RNum b props true = three_way (b "Ttriple" NoInput) 1 (assoc "t_triple" props) 1
  /\ p_critical RNum b props true = three_way (b "p_critical" NoInput) 1 (assoc "p_critical" props) 100000
  /\ t_critical RNum b props true = three_way (b "T_critical" NoInput) 1 (assoc "t_critical" props) 1
  /\ (forall T, saturation_pressure RNum b props T None true = three_way (b "p" (QT 0 T)) 1 (assoc "saturation_pressure" props) 1)
  /\ (forall T, surface_tension RNum b props T true = three_way (b "surface_tension" (QT 0 T)) 1000 (assoc "surface_tension" props) 1)
  /\ (forall T, liquid_density RNum b props T true = three_way (b "rhomass" (QT 0 T)) (/1000) (assoc "liquid_density" props) 1)
  /\ (forall T, liquid_molar_density RNum b props T true = three_way (b "rhomolar" (QT 0 T)) (/1000000) (assoc "liquid_molar_density" props) 1)
  /\ (forall T, gas_density RNum b props T true = three_way (b "rhomass" (QT 1 T)) (/1000) (assoc "gas_density" props) 1)
  /\ (forall T, gas_molar_density RNum b props T true = three_way (b "rhomolar" (QT 1 T)) (/1000000) (assoc "gas_molar_density" props) 1)
  /\ (forall T, T <> 0 -> enthalpy_liquefaction RNum b props (Some T) None true
                 = three_way (hvap_backend b (QT 0 T) (QT 1 T)) (/1000) (assoc "enthalpy_liquefaction" props) 1)
  /\ (forall p, p <> 0 -> enthalpy_liquefaction RNum b props None (Some p) true
                 = three_way (hvap_backend b (PQ p 0) (PQ p 1)) (/1000) (assoc "enthalpy_liquefaction" props) 1).
Proof. exact methods_meet_spec. Qed.
Print Assumptions property_methods_meet_spec.

Theorem fallback_never_silent : forall bv bf uv uf r, three_way bv bf uv uf = r ->
  (exists x, bv = Some x /\ r = Ok (x * bf)) \/ (bv = None /\ exists u, uv = Some u /\ r = Ok (u * uf))
  \/ (bv = None /\ uv = None /\ r = Err CalculationError).
Proof. exact three_way_cases. Qed.
Print Assumptions fallback_never_silent.

Theorem fallback_never_silent_liquid_density : forall (b : backend RNum) props T r,
  liquid_density RNum b props T true = r ->
  (exists x, b "rhomass" (QT 0 T) = Some x /\ r = Ok (x * / 1000))
  \/ (b "rhomass" (QT 0 T) = None /\ exists u, assoc "liquid_density" props = Some u /\ r = Ok (u * 1))
  \/ (b "rhomass" (QT 0 T) = None /\ assoc "liquid_density" props = None /\ r = Err CalculationError).
Proof. exact fallback_never_silent_density. Qed.
Print Assumptions fallback_never_silent_liquid_density.

Theorem adsorbate_without_backend_reads_dictionary : forall props T,
  liquid_density RNum no_backend props T true = match assoc "liquid_density" props with Some v => Ok v | None => Err CalculationError end
  /\ saturation_pressure RNum no_backend props T None true = match assoc "saturation_pressure" props with Some v => Ok v | None => Err CalculationError end
  /\ molar_mass RNum no_backend props true = match assoc "molar_mass" props with Some v => Ok v | None => Err CalculationError end
  /\ p_critical RNum no_backend props true = match assoc "p_critical" props with Some v => Ok (v * 100000) | None => Err CalculationError end.
Proof. exact no_backend_is_dictionary. Qed.
Print Assumptions adsorbate_without_backend_reads_dictionary.

Theorem unit_argument_honoured : forall (b : backend RNum) props T (u : punit) p,
  saturation_pressure RNum b props T None true = Ok p ->
  saturation_pressure RNum b props T (Some (punit_name u)) true = Ok (p / pa_per u).
Proof. exact unit_argument_honoured. Qed.
Print Assumptions unit_argument_honoured.

Theorem unit_argument_unknown_is_refused : forall (b : backend RNum) props T (u : string) p,
  saturation_pressure RNum b props T None true = Ok p -> tbl_mem (Some u) (_PRESSURE_UNITS RNum) = false ->
  saturation_pressure RNum b props T (Some u) true = Err ParameterError.
Proof. exact unit_argument_refused. Qed.
Print Assumptions unit_argument_unknown_is_refused.

(* the adsorbate oracle of C01/C02 (Units/AdsOracle.v) IS the generated method *)
Theorem c01_oracle_is_generated_method : forall (b : backend RNum) props T u,
  ads_saturation_pressure (ads_of b props) (Some T) u = saturation_pressure RNum b props T u true.
Proof. exact oracle_is_generated_method. Qed.
Print Assumptions c01_oracle_is_generated_method.

Theorem backend_consistency_transfer : forall (b : backend RNum) props T mm yl yg,
  b "molar_mass" NoInput = Some mm ->
  b "rhomolar" (QT 0 T) = Some yl -> b "rhomolar" (QT 1 T) = Some yg ->
  b "rhomass" (QT 0 T) = Some (yl * mm) -> b "rhomass" (QT 1 T) = Some (yg * mm) ->
  exists M rml rmg,
    molar_mass RNum b props true = Ok M /\ liquid_molar_density RNum b props T true = Ok rml
    /\ gas_molar_density RNum b props T true = Ok rmg
    /\ liquid_density RNum b props T true = Ok (rml * M) /\ gas_density RNum b props T true = Ok (rmg * M)
    /\ ads_at (ads_of b props) (Some T) M rml rmg
    /\ M = mm * 1000 /\ rml = yl / 1000000 /\ rmg = yg / 1000000.
Proof. exact backend_consistency_transfer. Qed.
Print Assumptions backend_consistency_transfer.

Theorem backend_adsorbate_converts_by_SI_factor : forall (b : backend RNum) props T mm yl yg v (mat : mrep) (r1 r2 : lrep),
  b "molar_mass" NoInput = Some mm ->
  b "rhomolar" (QT 0 T) = Some yl -> b "rhomolar" (QT 1 T) = Some yg ->
  b "rhomass" (QT 0 T) = Some (yl * mm) -> b "rhomass" (QT 1 T) = Some (yg * mm) ->
  0 < mm -> 0 < yl -> 0 < yg ->
  c_loading RNum v (l_basis r1) (l_basis r2) (l_unit r1) (l_unit r2) (ads_of b props) (Some T) (m_basis mat) (m_unit mat)
  = Ok (spec_conv (l_canon (mm * 1000) (yl / 1000000) (yg / 1000000) mat r1) (l_canon (mm * 1000) (yl / 1000000) (yg / 1000000) mat r2) v).
Proof. exact backend_adsorbate_converts_by_SI_factor. Qed.
Print Assumptions backend_adsorbate_converts_by_SI_factor.

Example consistent_backend_exists :
  exists b : backend RNum,
    b "molar_mass" NoInput = Some 0.0280134 /\ b "rhomolar" (QT 0 77) = Some 28800 /\ b "rhomolar" (QT 1 77) = Some 165
    /\ b "rhomass" (QT 0 77) = Some (28800 * 0.0280134) /\ b "rhomass" (QT 1 77) = Some (165 * 0.0280134)
    /\ 0 < 0.0280134 /\ 0 < 28800 /\ 0 < 165.
Proof. exact consistent_backend_exists. Qed.
