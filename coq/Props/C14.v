(* C14 - Linearised characterisation methods recover the generating parameters.
   bet_transform / roq_transform / bet_parameters / simple_bet / langmuir_* / t_plot_* / alpha_s_* / log_v_adj / log_p_exp /
   da_* below are the GENERATED translation (Gen/CharactGen.v) of pygaps/characterisation; ols, the window selection and the
   *_raw assemblies are hand-written models (Charact/*.v) compared with the implementation on every run.
   Property theorems only, each closed by `exact` + Print Assumptions. *)
From Coq Require Import Reals Lra QArith ZArith String List Bool Sorted.
From PG Require Import Lib.Num Lib.Py Gen.CharactGen Charact.Ols Charact.Window Charact.ListAux Charact.BetLang Charact.TPlot Charact.DrDa Charact.BetAuto Charact.DaSearch.
From PG Require Import Gen.EntryGlueGen Charact.EntryGlue.
Import ListNotations.
Open Scope R_scope.

(* least squares (scipy.stats.linregress) on exactly collinear data: ANY number >= 2 of points, any order *)
Theorem ols_exact : forall (xs ys : list R) (a b : R), Forall2 (affine a b) xs ys -> two_distinct xs ->
  slope (ols RNum xs ys) = b /\ intercept (ols RNum xs ys) = a /\ (b <> 0 -> rsq (ols RNum xs ys) = 1).
Proof. exact Ols.ols_exact. Qed.
Print Assumptions ols_exact.
Theorem ols_affine_change_of_ordinates : forall (xs ys ys' : list R) (c k : R), Forall2 (affine k c) ys ys' -> length xs = length ys -> two_distinct xs ->
  slope (ols RNum xs ys') = c * slope (ols RNum xs ys) /\
  intercept (ols RNum xs ys') = c * intercept (ols RNum xs ys) + k.
Proof. exact Ols.ols_affine_y. Qed.
Print Assumptions ols_affine_change_of_ordinates.
Theorem ols_scale : forall (xs xs' ys : list R) (c : R), Forall2 (affine 0 c) xs xs' -> length ys = length xs -> c <> 0 -> two_distinct xs ->
  slope (ols RNum xs' ys) = slope (ols RNum xs ys) / c /\ intercept (ols RNum xs' ys) = intercept (ols RNum xs ys).
Proof. exact Ols.ols_scale. Qed.
Print Assumptions ols_scale.

(* the fitted region = the points inside the user's limits (lower limit inclusive, upper exclusive), on any sorted grid *)
Theorem window_exact : forall (p : list R) (lo hi : R), StronglySorted Rle p -> lo <> 0 -> hi <> 0 ->
  forall i, (i < length p)%nat ->
  ((fst (manual_window RNum p (Some lo) (Some hi)) <= Z.of_nat i <= snd (manual_window RNum p (Some lo) (Some hi)))%Z
   <-> lo <= nth i p 0 < hi).
Proof. exact Window.window_exact. Qed.
Print Assumptions window_exact.
Theorem too_few_points_refused : forall (p : list R) (lo hi : R), StronglySorted Rle p -> lo <> 0 -> hi <> 0 ->
  (check3 (manual_window RNum p (Some lo) (Some hi)) = Err CalculationError
   <-> (length (filter (inside lo hi) p) < 3)%nat)
  /\ (forall w, check3 (manual_window RNum p (Some lo) (Some hi)) = Ok w ->
        w = manual_window RNum p (Some lo) (Some hi) /\
        length (slice w p) = length (filter (inside lo hi) p)).
Proof. exact Window.too_few_refused. Qed.
Print Assumptions too_few_points_refused.
Theorem bet_langmuir_too_few_refused : forall (p l : list R) cs (lo hi : R), StronglySorted Rlt p -> length l = length p -> (0 < length p)%nat ->
  lo <> 0 -> hi <> 0 -> (length (filter (inside lo hi) p) < 3)%nat ->
  area_BET_raw RNum sqrt p l cs (Some (Some lo, Some hi)) = Err CalculationError /\
  area_langmuir_raw RNum p l cs (Some (Some lo, Some hi)) = Err CalculationError.
Proof. exact bet_too_few_refused. Qed.
Print Assumptions bet_langmuir_too_few_refused.
(* the automatic BET window (Rouquerol), as the loop of area_BET_raw computes it *)
Theorem rouquerol_window_rule : forall (p roq : list R), StronglySorted Rle p -> length roq = length p -> (0 < length p)%nat ->
  exists m M : nat, rouquerol_window RNum p roq = (Z.of_nat m, Z.of_nat M) /\ (M < length p)%nat /\
    (forall j, (j + 1 < M)%nat -> nth j roq 0 <= nth (j + 1) roq 0) /\
    ((1 <= M)%nat /\ nth M roq 0 < nth (M - 1) roq 0
     \/ M = (length p - 1)%nat /\ forall j, (j + 1 < length p)%nat -> nth j roq 0 <= nth (j + 1) roq 0) /\
    (forall i, (i < length p)%nat -> ((m <= i)%nat <-> nth M p 0 / 10 <= nth i p 0)).
Proof. exact Window.rouquerol_window_rule. Qed.
Print Assumptions rouquerol_window_rule.

(* ... and area_BET_raw with p_limits = None never widens it: fewer than three points in [p_M / 10, p_M] -> CalculationError, otherwise
   the returned window is exactly [m, M] (any grid, however sparse) *)
Theorem bet_automatic_window_is_never_widened : forall (p l : list R) (cs : R), StronglySorted Rlt p -> length l = length p -> (0 < length p)%nat ->
  exists m M : nat,
    (M < length p)%nat /\
    (forall j, (j + 1 < M)%nat -> nth j (map2 (roq_transform RNum) p l) 0 <= nth (j + 1) (map2 (roq_transform RNum) p l) 0) /\
    (forall i, (i < length p)%nat -> ((m <= i)%nat <-> nth M p 0 / 10 <= nth i p 0)) /\
    ((M < m + 2)%nat -> area_BET_raw RNum sqrt p l cs None = Err CalculationError) /\
    ((m + 2 <= M)%nat -> exists r, area_BET_raw RNum sqrt p l cs None = Ok r /\ b_window r = (Z.of_nat m, Z.of_nat M)).
Proof. exact BetAuto.bet_auto_window. Qed.
Print Assumptions bet_automatic_window_is_never_widened.

(* BET / Langmuir on data generated by the code's own simple_bet / simple_lang: every limit choice (None = automatic) *)
Theorem bet_recovers : forall (nm C cs : R) (p l : list R) limits r, 0 < nm -> 0 < C ->
  StronglySorted Rlt p -> Forall2 (bet_data nm C) p l ->
  area_BET_raw RNum sqrt p l cs limits = Ok r ->
  b_nm r = nm /\ b_c r = C /\ b_pm r = 1 / (sqrt C + 1) /\ b_area r = nm * cs * / 10 ^ 18 * avogadro /\
  b_slope r = (C - 1) / (nm * C) /\ b_intercept r = 1 / (nm * C) /\ b_window r = bet_window RNum p l limits /\
  (C <> 1 -> b_rsq r = 1).
Proof. exact bet_recovers_all. Qed.
Print Assumptions bet_recovers.
Theorem langmuir_recovers : forall (nt K cs : R) (p l : list R) limits r, 0 < nt -> 0 < K ->
  StronglySorted Rlt p -> Forall2 (lang_data nt K) p l ->
  area_langmuir_raw RNum p l cs limits = Ok r ->
  l_nm r = nt /\ l_k r = K /\ l_area r = nt * cs * / 10 ^ 18 * avogadro /\
  l_slope r = 1 / nt /\ l_intercept r = 1 / (nt * K) /\ l_window r = lang_window RNum p limits /\ l_rsq r = 1.
Proof. exact langmuir_recovers_all. Qed.
Print Assumptions langmuir_recovers.

(* t-plot: loading = s * t + i, any thickness curve, manual thickness limits (open interval), when the slope test passes *)
Theorem tplot_recovers : forall (ts ls : list R) (s i M rho lo hi : R),
  Forall2 (affine i s) ts ls -> (0 < length ts)%nat ->
  two_distinct (take_idx 0 (flatnonzero_open RNum lo hi ts 0) ts) ->
  s * (nmax RNum ts / nmax RNum ls) < 3 ->
  exists r, t_plot_raw RNum ls ts rho M lo hi = Ok (Some r) /\
    tp_slope r = s /\ tp_intercept r = i /\ tp_area r = s * M / rho /\ tp_volume r = i * M / rho / 1000 /\
    (s <> 0 -> tp_rsq r = 1) /\
    (forall k, In k (tp_section r) <-> (k < length ts)%nat /\ lo < nth k ts 0 < hi).
Proof. exact tplot_recovers_all. Qed.
Print Assumptions tplot_recovers.
Theorem alphas_recovers : forall (refl ls : list R) (s i apt aref M rho lo hi : R), apt <> 0 ->
  let alpha := map (fun r => r / apt) refl in
  Forall2 (affine i s) alpha ls -> (0 < length ls)%nat ->
  two_distinct (take_idx 0 (flatnonzero_open RNum lo hi alpha 0) alpha) ->
  s * (nmax RNum alpha / nmax RNum ls) < 3 ->
  exists r, alpha_s_raw RNum ls refl apt aref rho M lo hi = Ok (Some r, alpha) /\
    tp_slope r = s /\ tp_intercept r = i /\ tp_area r = aref / apt * s /\ tp_volume r = i * M / rho / 1000 /\
    (forall k, In k (tp_section r) <-> (k < length ls)%nat /\ lo < nth k alpha 0 < hi).
Proof. exact alphas_recovers_all. Qed.
Print Assumptions alphas_recovers.
Theorem alphas_against_itself_returns_reference_area : forall (ls : list R) (apt aref M rho lo hi : R), apt <> 0 ->
  let alpha := map (fun r => r / apt) ls in
  (0 < length ls)%nat -> two_distinct (take_idx 0 (flatnonzero_open RNum lo hi alpha 0) alpha) ->
  apt * (nmax RNum alpha / nmax RNum ls) < 3 ->
  exists r, alpha_s_raw RNum ls ls apt aref rho M lo hi = Ok (Some r, alpha) /\ tp_area r = aref /\ tp_slope r = apt /\ tp_intercept r = 0.
Proof. exact alphas_self_reference_area. Qed.
Print Assumptions alphas_against_itself_returns_reference_area.

(* Dubinin-Radushkevich / Astakhov with the exponent given (dr_plot: 2) *)
Theorem da_recovers_given_exponent : forall (V0 E m T M rho : R) (p l : list R) limits r,
  0 < V0 -> 0 < E -> 0 < m -> 0 < T -> 0 < M -> 0 < rho ->
  StronglySorted Rlt p -> Forall2 (da_data V0 E m T M rho) p l ->
  da_plot_raw RNum ln exp Rpower p l T M rho m limits = Ok r ->
  da_volume r = V0 /\ da_energy r = E /\ da_slope r = - Rpower (gas_R * T / (1000 * E)) m /\ da_intercept r = ln V0 /\
  da_window r = da_window_of RNum p limits /\ da_rsq r = 1.
Proof. exact DrDa.da_recovers_given_exponent. Qed.
Print Assumptions da_recovers_given_exponent.

(* ... and with the exponent searched (exp = None). The objective the code minimises over [1, 3] is GENERATED from the nested dr_fit
   (da_search_objective = stderr / abs(slope), da_search_lower / upper); stderr is linregress's standard error of the slope
   sqrt((1 - r^2) ssym / ssxm / (n - 2)) (hand-written, Charact/DaSearch.v). On exact data with at least three points the generating
   exponent is THE global minimiser: the objective is 0 there and positive at every other exponent e > 0. *)
Theorem da_generating_exponent_is_the_global_minimiser : forall (V0 E m T M rho : R) (ps ls : list R),
  0 < V0 -> 0 < E -> 0 < m -> 0 < T -> 0 < M -> 0 < rho ->
  StronglySorted Rlt ps -> Forall2 (da_data V0 E m T M rho) ps ls -> (3 <= length ps)%nat ->
  da_objective ps ls M rho m = 0 /\ forall e, 0 < e -> e <> m -> 0 < da_objective ps ls M rho e.
Proof. exact DaSearch.da_generating_exponent_is_the_global_minimiser. Qed.
Print Assumptions da_generating_exponent_is_the_global_minimiser.
(* the optimiser (scipy.optimize.minimize_scalar, bounded Brent) is an oracle; its CONTRACT - the returned exponent e is a global minimiser
   of the objective on the bracket - is the explicit premise. Then e is the generating exponent and V0, E are recovered.
   PARTIAL in this sense only: that Brent's local search meets the contract is validated on the implementation, not proved. *)
Theorem da_search_recovers_given_global_minimiser_partial : forall (V0 E m T M rho : R) (p l : list R) limits w (e : R),
  0 < V0 -> 0 < E -> 0 < T -> 0 < M -> 0 < rho -> da_search_lower RNum <= m <= da_search_upper RNum ->
  StronglySorted Rlt p -> Forall2 (da_data V0 E m T M rho) p l ->
  check3 (da_window_of RNum p limits) = Ok w ->
  da_search_lower RNum <= e <= da_search_upper RNum ->
  (forall x, da_search_lower RNum <= x <= da_search_upper RNum ->
     da_objective (slice w p) (slice w l) M rho e <= da_objective (slice w p) (slice w l) M rho x) ->
  e = m /\
  forall r, da_plot_raw RNum ln exp Rpower p l T M rho e limits = Ok r -> da_volume r = V0 /\ da_energy r = E /\ da_rsq r = 1.
Proof. exact DaSearch.da_search_recovers. Qed.
Print Assumptions da_search_recovers_given_global_minimiser_partial.
Theorem da_search_bracket : da_search_lower RNum = 1 /\ da_search_upper RNum = 3.
Proof. exact DaSearch.search_bounds. Qed.
Print Assumptions da_search_bracket.


(* ---- the isotherm ENTRY POINTS (area_BET, area_langmuir, t_plot, alpha_s, da_plot; dr_plot delegates to da_plot). Gen/EntryGlueGen.v is
   GENERATED from the statements before the call of the raw function (tools/py2v_entryglue.py, fail-closed: a scalar handed over must be
   assigned once, unconditionally, from isotherm.temperature / adsorbate.molar_mass() / adsorbate.liquid_density(.) / get_prop). Tk is the
   isotherm's `temperature` property - kelvin whatever the stored temperature_unit (C02) -, rho the adsorbate's liquid density as a FUNCTION of
   the temperature it is asked at. The scalars handed over are Tk itself and the properties at Tk, under the raw function's own parameter names *)
Theorem entry_points_hand_over_the_kelvin_temperature_and_the_properties_at_it : forall (Tk M cs : R) (rho : R -> R),
  da_plot_scalars R Tk M rho = [("iso_temp", Tk); ("molar_mass", M); ("liquid_density", rho Tk)]%string /\
  t_plot_scalars R Tk M rho = [("liquid_density", rho Tk); ("adsorbate_molar_mass", M)]%string /\
  alpha_s_scalars R Tk M rho = [("liquid_density", rho Tk); ("adsorbate_molar_mass", M)]%string /\
  area_BET_scalars R cs = [("cross_section", cs)]%string /\ area_langmuir_scalars R cs = [("cross_section", cs)]%string.
Proof. exact glue_scalars. Qed.
Print Assumptions entry_points_hand_over_the_kelvin_temperature_and_the_properties_at_it.
Theorem entry_points_read_relative_pressure_and_molar_loading :
  (area_BET_loading_units, area_langmuir_loading_units, da_plot_loading_units) =
    (let u := [("loading_basis", "molar"); ("loading_unit", "mol")]%string in (u, u, u)) /\
  (t_plot_loading_units, alpha_s_loading_units) = (let u := [("loading_basis", "molar"); ("loading_unit", "mmol")]%string in (u, u)) /\
  Forall (fun u => u = [("pressure_mode", "relative")]%string)
    [area_BET_pressure_units; area_langmuir_pressure_units; t_plot_pressure_units; alpha_s_pressure_units; da_plot_pressure_units].
Proof. exact glue_units. Qed.
Print Assumptions entry_points_read_relative_pressure_and_molar_loading.
(* hence the recovery theorems carry over to the entry points: da_plot / dr_plot return V0, the characteristic ENERGY E and the slope for data
   that follow the DA equation at the isotherm's kelvin temperature (p, l = the relative pressures / mol loadings the isotherm yields) *)
Theorem da_plot_entry_point_recovers : forall (Tk M : R) (rho : R -> R) (V0 E m : R) (p l : list R) limits r,
  0 < V0 -> 0 < E -> 0 < m -> 0 < Tk -> 0 < M -> 0 < rho Tk ->
  StronglySorted Rlt p -> Forall2 (da_data V0 E m Tk M (rho Tk)) p l ->
  (let a := fun n => arg n (da_plot_scalars R Tk M rho) 0 in
   da_plot_raw RNum ln exp Rpower p l (a "iso_temp"%string) (a "molar_mass"%string) (a "liquid_density"%string) m limits) = Ok r ->
  da_volume r = V0 /\ da_energy r = E /\ da_slope r = - Rpower (gas_R * Tk / (1000 * E)) m /\ da_intercept r = ln V0 /\
  da_window r = da_window_of RNum p limits /\ da_rsq r = 1.
Proof. exact da_plot_entry_recovers. Qed.
Print Assumptions da_plot_entry_point_recovers.
Theorem t_plot_entry_point_recovers : forall (Tk M : R) (rho : R -> R) (ts ls : list R) (s i lo hi : R),
  Forall2 (affine i s) ts ls -> (0 < length ts)%nat ->
  two_distinct (take_idx 0 (flatnonzero_open RNum lo hi ts 0) ts) ->
  s * (nmax RNum ts / nmax RNum ls) < 3 ->
  let a := fun n => arg n (t_plot_scalars R Tk M rho) 0 in
  exists r, t_plot_raw RNum ls ts (a "liquid_density"%string) (a "adsorbate_molar_mass"%string) lo hi = Ok (Some r) /\
    tp_slope r = s /\ tp_intercept r = i /\ tp_area r = s * M / rho Tk /\ tp_volume r = i * M / rho Tk / 1000.
Proof. exact t_plot_entry_recovers. Qed.
Print Assumptions t_plot_entry_point_recovers.
Theorem area_BET_entry_point_recovers : forall (cs nm C : R) (p l : list R) limits r, 0 < nm -> 0 < C ->
  StronglySorted Rlt p -> Forall2 (bet_data nm C) p l ->
  area_BET_raw RNum sqrt p l (arg "cross_section"%string (area_BET_scalars R cs) 0) limits = Ok r ->
  b_nm r = nm /\ b_c r = C /\ b_pm r = 1 / (sqrt C + 1) /\ b_area r = nm * cs * / 10 ^ 18 * avogadro.
Proof. exact area_BET_entry_recovers. Qed.
Print Assumptions area_BET_entry_point_recovers.

Example ols_hypotheses_satisfiable : Forall2 (affine 1 2) [0; 1; 3] [1; 3; 7] /\ two_distinct [0; 1; 3].
Proof. exact ols_exact_satisfiable. Qed.
Example bet_data_satisfiable :
  StronglySorted Rlt [0.1; 0.2; 0.3] /\
  Forall2 (bet_data 1 100) [0.1; 0.2; 0.3] (map (fun p => simple_bet RNum p 1 100) [0.1; 0.2; 0.3]).
Proof. exact bet_hypotheses_satisfiable. Qed.
Example window_on_grid : manual_window RNum [0.1; 0.2; 0.3; 0.4; 0.5] (Some 0.2) (Some 0.5) = (1, 3)%Z.
Proof. exact window_example. Qed.
Example sparse_grid_automatic_window :
  let p := [0.001; 0.005; 0.01; 0.2; 0.3] in
  StronglySorted Rlt p /\ count_lt RNum (nth 4 p 0 * Q2R (1 # 10)) p = 3%nat.
Proof. exact BetAuto.sparse_grid_window. Qed.
Example da_search_contract_satisfiable : forall (V0 E m T M rho : R) (ps ls : list R),
  0 < V0 -> 0 < E -> 0 < T -> 0 < M -> 0 < rho -> da_search_lower RNum <= m <= da_search_upper RNum ->
  StronglySorted Rlt ps -> Forall2 (da_data V0 E m T M rho) ps ls -> (3 <= length ps)%nat ->
  forall x, da_search_lower RNum <= x <= da_search_upper RNum -> da_objective ps ls M rho m <= da_objective ps ls M rho x.
Proof. exact DaSearch.da_search_contract_satisfiable. Qed.
Example da_data_satisfiable : let k := gas_R * 77 / (1000 * 10) in
  Forall2 (da_data 1 10 2 77 28 0.8) [/ 8; / 4; / 2]
    (map (fun p => 1 * exp (- Rpower (k * - ln p) 2) * 0.8 / 28) [/ 8; / 4; / 2]) /\ StronglySorted Rlt [/ 8; / 4; / 2].
Proof. exact DaSearch.da_data_example. Qed.
