(* C16 - Mesopore size distributions conserve volume and follow the Kelvin equation.
   psd_pygapsdh / psd_bjh / psd_dollimore_heal / psd_mesoporous are hand-written models of psd_meso.py (Charact/PsdMeso.v),
   compared with the implementation on every run; the three recurrences are also GENERATED from their source (psd_*_gen, Gen/PsdMesoGen.v,
   tools/py2v_psdmeso.py) and PROVED equal to the hand-written ones (recurrences_are_the_generated_ones); kelvin_radius, kelvin_radius_kjs, get_meniscus_geometry, thickness_halsey,
   thickness_harkins_jura are GENERATED from models_kelvin.py / models_thickness.py (Gen/CharactGen.v).
   Property theorems only, each closed by `exact` + Print Assumptions. *)
From Coq Require Import Reals Lra QArith ZArith String List Bool Sorted.
From PG Require Import Lib.Num Lib.Py Gen.CharactGen Charact.Ols Charact.Window Charact.ListAux Charact.PsdMeso Charact.Kelvin Gen.PsdMesoGen Charact.PsdMesoTie.
Import ListNotations.
Open Scope R_scope.
Open Scope string_scope.

(* widths = 2 (r_K + t) at the measured pressures (all but the highest), for the three methods, lists of any length *)
Theorem widths_are_2_r_plus_t : forall (vol thick kr : list R) (g : string) (r : psd_result RNum),
  length vol = length thick -> length thick = length kr ->
  (psd_pygapsdh RNum vol thick kr g = Ok r \/ psd_bjh RNum vol thick kr g = Ok r \/ psd_dollimore_heal RNum vol thick kr g = Ok r) ->
  p_widths r = removelast (map2 (fun t k => 2 * (t + k)) thick kr).
Proof. exact PsdMeso.widths_are_2_r_plus_t. Qed.
Print Assumptions widths_are_2_r_plus_t.
Theorem widths_increasing : forall thick kr : list R, StronglySorted Rlt thick -> StronglySorted Rlt kr ->
  StronglySorted Rlt (map2 (fun t k => 2 * (t + k)) thick kr).
Proof. exact PsdMeso.widths_increasing. Qed.
Print Assumptions widths_increasing.
(* zero thickness (and positive Kelvin radii): pore volumes = successive changes of the adsorbed volume; they telescope *)
Theorem zero_thickness_volumes_are_increments : forall (vol thick kr : list R) (g : string) (r : psd_result RNum),
  zero_thick (desc RNum vol thick kr) ->
  (psd_pygapsdh RNum vol thick kr g = Ok r \/ psd_bjh RNum vol thick kr g = Ok r \/ psd_dollimore_heal RNum vol thick kr g = Ok r) ->
  p_volumes r = rev (incr (desc RNum vol thick kr)) /\
  Rsum (p_volumes r) = match desc RNum vol thick kr with [] => 0 | x :: _ => fst x - fst (last (desc RNum vol thick kr) x) end.
Proof. exact zero_thickness_volumes. Qed.
Print Assumptions zero_thickness_volumes_are_increments.
(* the three recurrences GENERATED from the bodies of psd_pygapsdh / psd_bjh / psd_dollimore_heal (vectorised prelude as stencils, loop bodies
   in source order, returned arrays) ARE the hand-written ones, for every carrier, input and geometry string: every theorem of this file is a
   theorem about the translated source *)
Theorem recurrences_are_the_generated_ones : forall (N : Num) (vol thick kr : list N) (g : string),
  psd_pygapsdh_gen N vol thick kr g = psd_pygapsdh N vol thick kr g /\ psd_bjh_gen N vol thick kr g = psd_bjh N vol thick kr g /\
  psd_dollimore_heal_gen N vol thick kr g = psd_dollimore_heal N vol thick kr g.
Proof. exact (fun N vol thick kr g => conj (psd_pygapsdh_gen_eq N vol thick kr g) (conj (psd_bjh_gen_eq N vol thick kr g) (psd_dollimore_heal_gen_eq N vol thick kr g))). Qed.
Print Assumptions recurrences_are_the_generated_ones.
(* ... in particular: with zero thickness the pore volumes of the TRANSLATED functions are exactly the successive volume changes - every one
   of them, however small beside the others - and sum to the total change *)
Theorem zero_thickness_volumes_are_increments_generated : forall (vol thick kr : list R) (g : string) (r : psd_result RNum),
  zero_thick (desc RNum vol thick kr) ->
  (psd_pygapsdh_gen RNum vol thick kr g = Ok r \/ psd_bjh_gen RNum vol thick kr g = Ok r \/ psd_dollimore_heal_gen RNum vol thick kr g = Ok r) ->
  p_volumes r = rev (incr (desc RNum vol thick kr)) /\
  Rsum (p_volumes r) = match desc RNum vol thick kr with [] => 0 | x :: _ => fst x - fst (last (desc RNum vol thick kr) x) end.
Proof. exact zero_thickness_volumes_gen. Qed.
Print Assumptions zero_thickness_volumes_are_increments_generated.
Theorem widths_are_2_r_plus_t_generated : forall (vol thick kr : list R) (g : string) (r : psd_result RNum),
  length vol = length thick -> length thick = length kr ->
  (psd_pygapsdh_gen RNum vol thick kr g = Ok r \/ psd_bjh_gen RNum vol thick kr g = Ok r \/ psd_dollimore_heal_gen RNum vol thick kr g = Ok r) ->
  p_widths r = removelast (map2 (fun t k => 2 * (t + k)) thick kr).
Proof. exact widths_are_2_r_plus_t_gen. Qed.
Print Assumptions widths_are_2_r_plus_t_generated.
(* psd_mesoporous hands the Kelvin model THIS call's temperature and adsorbate reads, and psd_meso.py keeps nothing between calls (generated tables) *)
Theorem psd_mesoporous_kelvin_inputs_are_documented :
  psd_mesoporous_kelvin_inputs =
    [("temperature", IsothermTemperature); ("liquid_density", AdsorbateMethodAtIsothermTemperature "liquid_density");
     ("adsorbate_molar_mass", AdsorbateMethod "molar_mass"); ("adsorbate_surface_tension", AdsorbateMethodAtIsothermTemperature "surface_tension")].
Proof. exact kelvin_inputs_documented_l. Qed.
Print Assumptions psd_mesoporous_kelvin_inputs_are_documented.
Theorem psd_meso_keeps_no_state_between_calls : psd_meso_module_writes = [].
Proof. exact psd_meso_keeps_no_state_l. Qed.
Print Assumptions psd_meso_keeps_no_state_between_calls.
(* distribution x width increment = pore volume (descending-pressure order; BJH / DH work with radii, width = 2 radius) *)
Theorem distribution_times_dwidth_pygapsdh : forall (vol thick kr : list R) (g : string) (r : psd_result RNum),
  psd_pygapsdh RNum vol thick kr g = Ok r ->
  Forall (fun x => x <> 0) (map r_dw (rows RNum (width_of RNum) (desc RNum vol thick kr))) ->
  map2 Rmult (rev (p_dist r)) (map r_dw (rows RNum (width_of RNum) (desc RNum vol thick kr))) = rev (p_volumes r).
Proof. exact distribution_times_dwidth_dh. Qed.
Print Assumptions distribution_times_dwidth_pygapsdh.
Theorem distribution_times_dwidth_bjh_dh : forall (vol thick kr : list R) (g : string) (r : psd_result RNum),
  psd_bjh RNum vol thick kr g = Ok r \/ psd_dollimore_heal RNum vol thick kr g = Ok r ->
  Forall (fun x => x <> 0) (map r_dw (rows RNum (radius_of RNum) (desc RNum vol thick kr))) ->
  map2 Rmult (rev (p_dist r)) (map (fun dr => 2 * dr) (map r_dw (rows RNum (radius_of RNum) (desc RNum vol thick kr)))) = rev (p_volumes r).
Proof. exact distribution_times_dwidth_radial. Qed.
Print Assumptions distribution_times_dwidth_bjh_dh.
Theorem cumulative_ends_at_last_volume : forall (pv : list R) (vlast : R), pv <> [] -> last (cumulative RNum pv vlast) 0 = vlast.
Proof. exact cumulative_ends_at_last. Qed.
Print Assumptions cumulative_ends_at_last_volume.

(* Kelvin equation per meniscus geometry, over the generated kelvin_radius *)
Theorem kelvin_equation : forall (m : string) (g p T rho M gamma : R), geometry_factor m = Some g ->
  0 < p < 1 -> 0 < T -> 0 < rho ->
  exists r, kelvin_radius RNum ln p m T rho M gamma = Ok r /\ r * (g * gasR * T) * ln (/ p) = 2 * gamma * (M / rho).
Proof. exact Kelvin.kelvin_equation. Qed.
Print Assumptions kelvin_equation.
Theorem kelvin_radius_increasing : forall (m : string) (g p q T rho M gamma : R), geometry_factor m = Some g ->
  0 < p -> p < q -> q < 1 -> 0 < T -> 0 < rho -> 0 < M -> 0 < gamma ->
  exists r r', kelvin_radius RNum ln p m T rho M gamma = Ok r /\ kelvin_radius RNum ln q m T rho M gamma = Ok r' /\ 0 < r < r'.
Proof. exact kelvin_increasing. Qed.
Print Assumptions kelvin_radius_increasing.
Theorem kelvin_kjs_offset : forall (m : string) (p T rho M gamma : R),
  kelvin_radius_kjs RNum ln p m T rho M gamma =
  if String.eqb m "cylindrical" then Ok (- (2 * gamma * (M / rho)) / (gasR * T * ln p) + 3 / 10) else Err ParameterError.
Proof. exact kjs_offset. Qed.
Print Assumptions kelvin_kjs_offset.
Theorem meniscus_geometry_table :
  map (fun bg => get_meniscus_geometry (fst bg) (snd bg))
      [("ads", "slit"); ("ads", "cylinder"); ("ads", "halfopen-cylinder"); ("ads", "sphere");
       ("des", "slit"); ("des", "cylinder"); ("des", "halfopen-cylinder"); ("des", "sphere"); ("ads", "cone"); ("both", "slit")]
  = [Ok "hemicylindrical"; Ok "cylindrical"; Ok "hemispherical"; Ok "hemispherical";
     Ok "hemicylindrical"; Ok "hemispherical"; Ok "hemispherical"; Ok "hemispherical"; Err ParameterError; Err ParameterError].
Proof. exact meniscus_table. Qed.
Print Assumptions meniscus_geometry_table.
Theorem halsey_thickness_increasing : forall p q : R, 0 < p -> p < q -> q < 1 ->
  0 < thickness_halsey RNum ln Rpower p < thickness_halsey RNum ln Rpower q.
Proof. exact halsey_increasing. Qed.
Print Assumptions halsey_thickness_increasing.
Theorem harkins_jura_thickness_increasing : forall p q : R, 0 < p -> p < q -> q < 1 ->
  0 < thickness_harkins_jura RNum ln Rpower p < thickness_harkins_jura RNum ln Rpower q.
Proof. exact harkins_jura_increasing. Qed.
Print Assumptions harkins_jura_thickness_increasing.

Example zero_thickness_hypothesis_satisfiable : zero_thick (desc RNum [1; 2; 4] [0; 0; 0] [1; 2; 3]).
Proof. exact zero_thick_example. Qed.
