(* C08 - the SQLite store behaves as a keyed collection over any operation history. Property theorems only.
   Model (hand-written, compared with the implementation on every run): Db/DbModel.v = the ten tables with their UNIQUE / NOT NULL /
   FOREIGN KEY constraints, every public function of parsing/sqlite.py as the statements it issues, ADSORBATE_LIST / MATERIAL_LIST as
   state, with_connection as one transaction.  Dictionary model: Db/DbSpec.v.
   PARTIAL: the per-operation refinement tables -> dictionary is proved here for isotherm deletion and for the retrievals; for the other
   operations it is evaluated inside Coq on every step of every history of the run (Db/DbShow.v spec_verdict), not proved. *)
From Coq Require Import ZArith List Bool.
From PG Require Import Db.DbModel Db.DbSpec Db.DbRefine.
Import ListNotations.
Open Scope Z_scope.

(* a refused operation changes nothing in the file: every operation, every content, every registry *)
Theorem refused_operation_changes_nothing : forall o d r oc d' r' n,
  run_op o d r = (oc, d', r', n) -> (forall a, oc <> OOk a) -> d' = d.
Proof. exact refused_op_unchanged. Qed.
Print Assumptions refused_operation_changes_nothing.
(* retrievals (with and without criteria) change neither the file nor the registries *)
Theorem retrieval_changes_nothing : forall o d r oc d' r' n,
  is_get o = true -> run_op o d r = (oc, d', r', n) -> d' = d /\ r' = r.
Proof. exact DbRefine.retrieval_changes_nothing. Qed.
Print Assumptions retrieval_changes_nothing.
(* deleting an isotherm refines the dictionary's delete: absent -> parsing error and nothing changes; present -> exactly that item
   (row, properties, data) disappears from the abstraction, everything else is untouched; for arbitrary table contents *)
Theorem isotherm_deletion_refines_dictionary : forall i d r,
  match s_iso_delete i (abs d) with
  | Some s' => fst (fst (fst (run_op (IsoDel i) d r))) = OOk RUnit /\ abs (snd (fst (fst (run_op (IsoDel i) d r)))) = s'
  | None => fst (fst (fst (run_op (IsoDel i) d r))) = OParsing /\ snd (fst (fst (run_op (IsoDel i) d r))) = d end.
Proof. exact iso_delete_refines. Qed.
Print Assumptions isotherm_deletion_refines_dictionary.
(* the outcome and the content afterwards depend on the target file only - not on the registries, i.e. not on earlier uploads of the
   session or on other files - for every operation except isotherm uploads with auto-insert *)
Theorem outcome_depends_on_target_file_only_partial : forall o d r1 r2,
  uses_registry o = false ->
  fst (fst (fst (run_op o d r1))) = fst (fst (fst (run_op o d r2)))
  /\ snd (fst (fst (run_op o d r1))) = snd (fst (fst (run_op o d r2))).
Proof. exact outcome_depends_on_target_file_only. Qed.
Print Assumptions outcome_depends_on_target_file_only_partial.
Theorem other_files_untouched : forall fs r fo j, j <> fst fo -> nth j (files_after (step fs r fo)) empty_db = nth j fs empty_db.
Proof. exact DbRefine.other_files_untouched. Qed.
Print Assumptions other_files_untouched.
(* arbitrary histories over several files: the final content of file i is what the operations aimed at file i produce on that file
   alone, whatever happened on the other files and whatever the registries held (histories without auto-inserting isotherm uploads) *)
Theorem history_files_independent_partial : forall h fs r r2 i,
  forallb (fun fo => negb (uses_registry (snd fo))) h = true -> (i < length fs)%nat ->
  nth i (final_files (run_hist fs r h)) empty_db = run_file (nth i fs empty_db) r2 (proj i h).
Proof. exact history_files_independent. Qed.
Print Assumptions history_files_independent_partial.

(* ---- refuted items (each witness is replayed on the implementation by the check) *)
Theorem registry_cross_file_refuted :
  outcomes (run_hist [w_db; w_db] (mkReg [10] []) [(0%nat, IsoUp w_iso true true); (1%nat, IsoUp w_iso true true)]) = [OOk RUnit; OParsing]
  /\ fst (sstep plain (IsoUp w_iso true true) (abs w_db)) = true.
Proof. exact registry_cross_file_w. Qed.
Print Assumptions registry_cross_file_refuted.
Theorem numeric_text_property_refuted :
  let d' := db_after (run_op (EntUp EMat 30 [(20, [VNumText 7 8])] true false) w_db (mkReg [] [])) in
  s_items (smat (abs d')) = [(30, [(20, VNum 8)])]
  /\ s_items (smat (snd (sstep plain (EntUp EMat 30 [(20, [VNumText 7 8])] true false) (abs w_db)))) = [(30, [(20, VNumText 7 8)])]
  /\ vcode (VNum 8) <> vcode (VNumText 7 8).
Proof. exact numeric_text_w. Qed.
Print Assumptions numeric_text_property_refuted.
Theorem retrieved_isotherm_has_extra_key_refuted :
  let d' := db_after (run_op (IsoUp w_iso true true) w_db (mkReg [10] [])) in
  match oc_after (run_op (IsoGet (mkC None None None None)) d' (mkReg [10] [30])) with
  | OOk (RIsos [x]) => o_props x = (A_iso_type, VText A_point) :: n_props w_iso /\ o_data x = n_data w_iso
  | _ => False end.
Proof. exact retrieved_iso_extra_key_w. Qed.
Print Assumptions retrieved_isotherm_has_extra_key_refuted.
Theorem isotherm_property_types_unsupported_refuted : forall d r ty u ds w,
  fst (fst (fst (run_op (TyUp TIsoProp ty u ds w) d r))) = OOther EOperational.
Proof. exact iso_property_types_w. Qed.
Print Assumptions isotherm_property_types_unsupported_refuted.
Theorem material_list_property_collapsed_refuted :
  let d' := db_after (run_op (EntUp EMat 30 [(20, [VText 1; VText 2])] true false) w_db (mkReg [] [])) in
  s_items (smat (abs d')) = [(30, [(20, VText 1); (20, VText 2)])]
  /\ oc_after (run_op (EntGet EMat) d' (mkReg [] [30])) = OOk (REnts [(1, 30, [(20, VText 2)])]).
Proof. exact material_list_collapsed_w. Qed.
Print Assumptions material_list_property_collapsed_refuted.

Example history_hypotheses_satisfiable :
  forallb (fun fo => negb (uses_registry (snd fo)))
    [(0%nat, EntUp EMat 30 [] true false); (1%nat, IsoUp w_iso false false); (0%nat, IsoDel 100); (1%nat, EntGet EAds)] = true
  /\ (1 < length [w_db; w_db])%nat.
Proof. vm_compute. split; [reflexivity|]. repeat constructor. Qed.
