(* C08 - the SQLite store behaves as a keyed collection over any operation history. Property theorems only. *)
From Coq Require Import ZArith List Bool.
From PG Require Import Db.DbModel Db.DbSpec Db.DbRefine.
Import ListNotations.
Open Scope Z_scope.

Theorem refused_operation_changes_nothing : forall o d r oc d' r' n,
  run_op o d r = (oc, d', r', n) -> (forall a, oc <> OOk a) -> d' = d.
Proof. intros. eapply with_conn_refused_unchanged; eauto. discriminate. Qed.
Print Assumptions refused_operation_changes_nothing.
