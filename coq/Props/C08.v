(* C08 - the SQLite store behaves as a keyed collection over any operation history. Property theorems only.
   Model (hand-written, compared with the implementation on every run): Db/DbModel.v = the ten tables with their UNIQUE / NOT NULL /
   FOREIGN KEY constraints, every public function of parsing/sqlite.py as the statements it issues, ADSORBATE_LIST / MATERIAL_LIST as
   state, with_connection as one transaction.  Dictionary model: Db/DbSpec.v.
   The per-operation refinement tables -> dictionary is PROVED for adsorbate / material upload (new and overwrite, with and without
   auto-insert of property types), adsorbate / material deletion, property-type / isotherm-type upload, overwrite and deletion, isotherm
   upload without auto-insert, isotherm deletion and the retrievals, under the well-formedness
   invariant of the tables (Db/DbInv.v: unique names / ids / type names, counters above the ids in use, every property row has its owner
   and type, every isotherm its material / adsorbate / type, every isotherm property / data row its isotherm), which EVERY operation
   preserves - so the refinement composes over arbitrary histories of these operations (history_refines_partial).
   PARTIAL: isotherm uploads WITH auto-insert of the material / adsorbate read the per-process registries (refuted items below; their
   steps are judged inside Coq at run time, Db/DbShow.v spec_verdict); the isotherm PROPERTY types have no table at all (refuted item). *)
From Coq Require Import ZArith List Bool.
From PG Require Import Db.DbModel Db.DbSpec Db.DbRefine Db.DbInv Db.DbRefine2 Db.DbRefine3 Db.DbRefine4 Db.DbBatch Db.DbAtomic Db.DbPy Db.DbConn Db.DbPyProofs Db.DbConvIso.
Import ListNotations.
Open Scope Z_scope.

(* a refused operation changes nothing in the file: every operation, every content, every registry *)
Theorem refused_operation_changes_nothing : forall o d r oc d' r' n,
  run_op o d r = (oc, d', r', n) -> (forall a, oc <> OOk a) -> d' = d.
Proof. exact refused_op_unchanged. Qed.
Print Assumptions refused_operation_changes_nothing.
(* retrievals (with and without criteria) change neither the file nor the registries *)
Theorem retrieval_changes_nothing : forall o d r oc d' r' n,
  is_get o = true -> run_op o d r = (oc, d', r', n) -> d' = d /\ r' = r.
Proof. exact DbRefine.retrieval_changes_nothing. Qed.
Print Assumptions retrieval_changes_nothing.
(* deleting an isotherm refines the dictionary's delete: absent -> parsing error and nothing changes; present -> exactly that item
   (row, properties, data) disappears from the abstraction, everything else is untouched; for arbitrary table contents *)
Theorem isotherm_deletion_refines_dictionary : forall i d r,
  match s_iso_delete i (abs d) with
  | Some s' => fst (fst (fst (run_op (IsoDel i) d r))) = OOk RUnit /\ abs (snd (fst (fst (run_op (IsoDel i) d r)))) = s'
  | None => fst (fst (fst (run_op (IsoDel i) d r))) = OParsing /\ snd (fst (fst (run_op (IsoDel i) d r))) = d end.
Proof. exact iso_delete_refines. Qed.
Print Assumptions isotherm_deletion_refines_dictionary.
(* the outcome and the content afterwards depend on the target file only - not on the registries, i.e. not on earlier uploads of the
   session or on other files - for every operation except isotherm uploads with auto-insert *)
Theorem outcome_depends_on_target_file_only_partial : forall o d r1 r2,
  uses_registry o = false ->
  fst (fst (fst (run_op o d r1))) = fst (fst (fst (run_op o d r2)))
  /\ snd (fst (fst (run_op o d r1))) = snd (fst (fst (run_op o d r2))).
Proof. exact outcome_depends_on_target_file_only. Qed.
Print Assumptions outcome_depends_on_target_file_only_partial.
Theorem other_files_untouched : forall fs r fo j, j <> fst fo -> nth j (files_after (step fs r fo)) empty_db = nth j fs empty_db.
Proof. exact DbRefine.other_files_untouched. Qed.
Print Assumptions other_files_untouched.
(* arbitrary histories over several files: the final content of file i is what the operations aimed at file i produce on that file
   alone, whatever happened on the other files and whatever the registries held (histories without auto-inserting isotherm uploads) *)
Theorem history_files_independent_partial : forall h fs r r2 i,
  forallb (fun fo => negb (uses_registry (snd fo))) h = true -> (i < length fs)%nat ->
  nth i (final_files (run_hist fs r h)) empty_db = run_file (nth i fs empty_db) r2 (proj i h).
Proof. exact history_files_independent. Qed.
Print Assumptions history_files_independent_partial.

(* ---- refuted items (each witness is replayed on the implementation by the check) *)
Theorem registry_cross_file_refuted :
  outcomes (run_hist [w_db; w_db] (mkReg [10] []) [(0%nat, IsoUp w_iso true true); (1%nat, IsoUp w_iso true true)]) = [OOk RUnit; OParsing]
  /\ fst (sstep plain (IsoUp w_iso true true) (abs w_db)) = true.
Proof. exact registry_cross_file_w. Qed.
Print Assumptions registry_cross_file_refuted.
Theorem numeric_text_property_refuted :
  let d' := db_after (run_op (EntUp EMat 30 [(20, [VNumText 7 8])] true false) w_db (mkReg [] [])) in
  s_items (smat (abs d')) = [(30, [(20, VNum 8)])]
  /\ s_items (smat (snd (sstep plain (EntUp EMat 30 [(20, [VNumText 7 8])] true false) (abs w_db)))) = [(30, [(20, VNumText 7 8)])]
  /\ vcode (VNum 8) <> vcode (VNumText 7 8).
Proof. exact numeric_text_w. Qed.
Print Assumptions numeric_text_property_refuted.
Theorem retrieved_isotherm_has_extra_key_refuted :
  let d' := db_after (run_op (IsoUp w_iso true true) w_db (mkReg [10] [])) in
  match oc_after (run_op (IsoGet (mkC None None None None)) d' (mkReg [10] [30])) with
  | OOk (RIsos [x]) => o_props x = (A_iso_type, VText A_point) :: n_props w_iso /\ o_data x = n_data w_iso
  | _ => False end.
Proof. exact retrieved_iso_extra_key_w. Qed.
Print Assumptions retrieved_isotherm_has_extra_key_refuted.
Theorem isotherm_property_types_unsupported_refuted : forall d r ty u ds w,
  fst (fst (fst (run_op (TyUp TIsoProp ty u ds w) d r))) = OOther EOperational.
Proof. exact iso_property_types_w. Qed.
Print Assumptions isotherm_property_types_unsupported_refuted.
Theorem material_list_property_collapsed_refuted :
  let d' := db_after (run_op (EntUp EMat 30 [(20, [VText 1; VText 2])] true false) w_db (mkReg [] [])) in
  s_items (smat (abs d')) = [(30, [(20, VText 1); (20, VText 2)])]
  /\ oc_after (run_op (EntGet EMat) d' (mkReg [] [30])) = OOk (REnts [(1, 30, [(20, VText 2)])]).
Proof. exact material_list_collapsed_w. Qed.
Print Assumptions material_list_property_collapsed_refuted.

Example history_hypotheses_satisfiable :
  forallb (fun fo => negb (uses_registry (snd fo)))
    [(0%nat, EntUp EMat 30 [] true false); (1%nat, IsoUp w_iso false false); (0%nat, IsoDel 100); (1%nat, EntGet EAds)] = true
  /\ (1 < length [w_db; w_db])%nat.
Proof. vm_compute. split; [reflexivity|]. repeat constructor. Qed.

(* ---- the well-formedness invariant of the tables and its preservation (Db/DbInv.v) *)
Theorem fresh_database_is_well_formed : wf empty_db.
Proof. exact empty_db_wf. Qed.
Print Assumptions fresh_database_is_well_formed.
(* the decision procedure the harness evaluates on the content db_create ships (the files every history starts from) is sound *)
Theorem well_formedness_check_is_sound : forall d, wfb d = true -> wf d.
Proof. exact wfb_sound. Qed.
Print Assumptions well_formedness_check_is_sound.
(* every public operation, on any well-formed content, with any registries - also when a statement fails or the process dies anywhere *)
Theorem every_operation_preserves_well_formedness : forall o flt cf d r, wf d -> wf (DbInv.db_after (with_conn flt cf (body o) d r)).
Proof. exact faulted_op_wf. Qed.
Print Assumptions every_operation_preserves_well_formedness.
(* ... hence every history over several files (induction over the history) *)
Theorem every_history_preserves_well_formedness : forall h fs r, Forall wf fs -> Forall wf (snd (fst (run_hist fs r h))).
Proof. exact run_hist_wf. Qed.
Print Assumptions every_history_preserves_well_formedness.

(* ---- refinement of the dictionary by the entity operations (Db/DbRefine2.v); the dictionary keeps a value as the REAL-affinity column
   does (conv = store_real; the difference to the plain dictionary is numeric_text_property_refuted); the property names of one upload are
   distinct (keys of a Python dict) *)
Theorem entity_deletion_refines_dictionary : forall e name d r, wf d ->
  match s_ent_delete e name (abs d) with
  | Some s' => DbRefine2.oc_of (run_op (EntDel e name) d r) = OOk RUnit /\ abs (DbInv.db_after (run_op (EntDel e name) d r)) = s'
  | None => DbRefine2.oc_of (run_op (EntDel e name) d r) = OParsing /\ DbInv.db_after (run_op (EntDel e name) d r) = d end.
Proof. exact ent_delete_refines. Qed.
Print Assumptions entity_deletion_refines_dictionary.
Theorem entity_upload_refines_dictionary : forall e name ps a d r, wf d -> NoDup (map fst ps) ->
  match s_ent_upload store_real e name ps a false (abs d) with
  | Some s' => DbRefine2.oc_of (run_op (EntUp e name ps a false) d r) = OOk RUnit /\ abs (DbInv.db_after (run_op (EntUp e name ps a false) d r)) = s'
  | None => DbRefine2.oc_of (run_op (EntUp e name ps a false) d r) = OParsing /\ DbInv.db_after (run_op (EntUp e name ps a false) d r) = d end.
Proof. exact ent_upload_new_refines. Qed.
Print Assumptions entity_upload_refines_dictionary.
Theorem entity_overwrite_refines_dictionary : forall e name ps a d r, wf d -> NoDup (map fst ps) ->
  match s_ent_upload store_real e name ps a true (abs d) with
  | Some s' => DbRefine2.oc_of (run_op (EntUp e name ps a true) d r) = OOk RUnit /\ abs (DbInv.db_after (run_op (EntUp e name ps a true) d r)) = s'
  | None => DbRefine2.oc_of (run_op (EntUp e name ps a true) d r) = OParsing /\ DbInv.db_after (run_op (EntUp e name ps a true) d r) = d end.
Proof. exact ent_upload_overwrite_refines. Qed.
Print Assumptions entity_overwrite_refines_dictionary.
(* property types of adsorbates / materials and isotherm types (every type table the schema has): upload, overwrite, deletion *)
Theorem type_upload_refines_dictionary : forall t ty u ds w d r, missing t = false ->
  match s_type_upload t ty u ds w (abs d) with
  | Some s' => DbRefine2.oc_of (run_op (TyUp t ty u ds w) d r) = OOk RUnit /\ abs (DbInv.db_after (run_op (TyUp t ty u ds w) d r)) = s'
  | None => DbRefine2.oc_of (run_op (TyUp t ty u ds w) d r) = OParsing /\ DbInv.db_after (run_op (TyUp t ty u ds w) d r) = d end.
Proof. exact type_upload_refines. Qed.
Print Assumptions type_upload_refines_dictionary.
(* a type still used by a property (an isotherm) cannot be deleted: "in use" in the tables = "in use" in the dictionary needs the invariant *)
Theorem type_deletion_refines_dictionary : forall t ty d r, wf d -> missing t = false ->
  match s_type_delete t ty (abs d) with
  | Some s' => DbRefine2.oc_of (run_op (TyDel t ty) d r) = OOk RUnit /\ abs (DbInv.db_after (run_op (TyDel t ty) d r)) = s'
  | None => DbRefine2.oc_of (run_op (TyDel t ty) d r) = OParsing /\ DbInv.db_after (run_op (TyDel t ty) d r) = d end.
Proof. exact type_delete_refines. Qed.
Print Assumptions type_deletion_refines_dictionary.
(* one statement for the proved write operations: content afterwards, accepted / refused, and a refusal is a parsing error that changes nothing *)
Theorem write_operation_refines_dictionary_partial : forall o d r, wf d -> refined_write o = true ->
  abs (DbInv.db_after (run_op o d r)) = snd (sstep store_real o (abs d))
  /\ accepted (DbRefine2.oc_of (run_op o d r)) = fst (sstep store_real o (abs d))
  /\ (fst (sstep store_real o (abs d)) = false -> DbRefine2.oc_of (run_op o d r) = OParsing /\ DbInv.db_after (run_op o d r) = d).
Proof. exact write_op_refines. Qed.
Print Assumptions write_operation_refines_dictionary_partial.
(* any history of entity uploads / overwrites / deletions, type uploads / overwrites / deletions, isotherm deletions and retrievals on a file,
   from any well-formed content and any registries: the abstraction of the file is what the dictionary predicts step after step.
   Missing: isotherm uploads (and the table-less isotherm property types) *)
Theorem history_refines_partial : forall l d r, wf d -> forallb covered l = true ->
  wf (run_file d r l) /\ abs (run_file d r l) = spec_file (abs d) l.
Proof. exact DbRefine3.history_refines_partial. Qed.
Print Assumptions history_refines_partial.
Example history_refines_hypotheses_satisfiable :
  forallb covered [EntUp EMat 30 [(20, [VNum 1; VNum 2]); (21, [VText 5])] true false; EntGet EMat; EntUp EMat 30 [(20, [VNum 3])] false true;
                   TyUp TMat 22 (VText 8) VNull false; TyDel TMat 22; EntDel EMat 30; IsoDel 7; IsoGet (mkC None None None None)] = true
  /\ wf empty_db.
Proof. exact DbRefine3.history_refines_hypotheses_satisfiable. Qed.

(* ---- isotherm upload without auto-insert (Db/DbRefine4.v); conv_iso = how an isotherm property comes back from the store (REAL affinity;
   booleans as 'TRUE'/'FALSE' text read back as booleans); the temperature is a number *)
Theorem isotherm_upload_refines_dictionary : forall x d r, wf d -> temp_plain (n_temp x) ->
  match s_iso_upload conv_iso x false false (abs d) with
  | Some s' => DbRefine2.oc_of (run_op (IsoUp x false false) d r) = OOk RUnit /\ abs (DbInv.db_after (run_op (IsoUp x false false) d r)) = s'
  | None => DbRefine2.oc_of (run_op (IsoUp x false false) d r) = OParsing /\ DbInv.db_after (run_op (IsoUp x false false) d r) = d end.
Proof. exact iso_upload_plain_refines. Qed.
Print Assumptions isotherm_upload_refines_dictionary.
(* ---- what an isotherm property comes back as, by kind of value (Db/DbConvIso.v).  Text comes back as the same text - whatever it looks like
   ('true', 'False', 'None', 'nan', '0x10' ... are atoms other than the two storage tokens of booleans) - EXACTLY when it is not one of the two
   tokens 'TRUE' / 'FALSE'; numeric-looking text (VNumText, finding C08-F3) is not covered by this statement *)
Theorem isotherm_text_property_comes_back_verbatim_iff : forall t, conv_iso (VText t) = VText t <-> (t <> A_TRUE /\ t <> A_FALSE).
Proof. exact conv_iso_text_iff. Qed.
Print Assumptions isotherm_text_property_comes_back_verbatim_iff.
Theorem isotherm_bool_property_comes_back_as_bool : forall b, conv_iso (VBool b) = VBool b.
Proof. exact conv_iso_bool. Qed.
Print Assumptions isotherm_bool_property_comes_back_as_bool.
(* finding C08-F8: the text 'TRUE' is stored verbatim and read back as the boolean *)
Theorem isotherm_text_property_roundtrip_refuted : exists t, conv_iso (VText t) <> VText t /\ conv_iso (VText t) = VBool true.
Proof. exact conv_iso_booltoken_refuted. Qed.
Print Assumptions isotherm_text_property_roundtrip_refuted.
(* every write operation except auto-inserting isotherm uploads and the table-less isotherm property types *)
Theorem operation_refines_dictionary_partial : forall o d r, wf d -> refined_write o || plain_iso_upload o = true ->
  abs (DbInv.db_after (run_op o d r)) = snd (dict_step o (abs d))
  /\ accepted (DbRefine2.oc_of (run_op o d r)) = fst (dict_step o (abs d))
  /\ (fst (dict_step o (abs d)) = false -> DbRefine2.oc_of (run_op o d r) = OParsing /\ DbInv.db_after (run_op o d r) = d).
Proof. exact op_refines. Qed.
Print Assumptions operation_refines_dictionary_partial.
(* ARBITRARY histories of these operations and retrievals on a file, from any well-formed content, with any registries: what can be
   retrieved (the abstraction of the tables) is what the dictionary predicts, step after step *)
Theorem history_refines_all_but_autoinsert_partial : forall l d r, wf d -> forallb covered_all l = true ->
  wf (run_file d r l) /\ abs (run_file d r l) = dict_file (abs d) l.
Proof. exact history_refines_all. Qed.
Print Assumptions history_refines_all_but_autoinsert_partial.
Example history_refines_all_hypotheses_satisfiable :
  forallb covered_all [TyUp TIso A_point VNull VNull false; EntUp EMat 30 [(20, [VNum 1; VNum 2])] true false; EntUp EAds 10 [] true false;
                       IsoUp (mkIn 100 A_point 30 [] 10 [] (VNum 77) [(40, VBool true); (41, VText 9)] [(50, 51, 52)]) false false;
                       IsoGet (mkC None None None None); IsoDel 100; EntDel EMat 30; TyDel TIso A_point] = true
  /\ wf empty_db.
Proof. exact DbRefine4.history_refines_all_hypotheses_satisfiable. Qed.

(* ---- the batching of isotherms_from_db (Db/DbBatch.v).  The model's isotherms_from_db has the structure of the code: one SELECT on
   `isotherms`, then per batch of n rows one SELECT on isotherm_properties and one on isotherm_data.  For EVERY batch size n >= 1, every
   criteria, every table content (any number of rows, below, at and above any multiple of the batch size) the batched retrieval returns the
   plain retrieval - every matching row, in order, with ITS properties and data - and issues 1 + 2 * ceil(rows / n) statements (the count the
   harness compares with the cursor.execute calls of every retrieval, on stores larger than the batch size too) *)
Theorem batched_retrieval_is_plain_retrieval : forall n c d r k, (1 <= n)%nat ->
  run None (iso_get_n n c) (mkSt d r k)
  = (Good (retrieve c d), mkSt d r (k + 1 + 2 * nbatches n (length (filter (crit_ok c) (isos d))))).
Proof. exact DbBatch.batched_retrieval_is_plain_retrieval. Qed.
Print Assumptions batched_retrieval_is_plain_retrieval.
(* the skeleton found in the source (Gen/DbShapeGen.v, generated on every run): batch size >= 1, grouped() runs over the rows materialised
   by fetchall() and not over the live cursor the loop body re-uses, one execute before the loop and two per batch *)
Example source_batching_hypotheses_hold :
  (1 <= iso_batch)%nat /\ iso_batch_operand = Materialised /\ iso_stmts_before_loop = 1%nat /\ iso_stmts_per_batch = 2%nat.
Proof. exact source_batching_hypotheses. Qed.
(* hence the public function, with the batch size of the source: what it returns is the dictionary's isotherms that satisfy the criteria
   (insertion order, own properties and data; plus the iso_type key of retrieved_isotherm_has_extra_key_refuted), nothing changes, and
   2 + 2 * ceil(rows / batch) statements are issued *)
Theorem isotherm_retrieval_refines_dictionary : forall c d r,
  run_op (IsoGet c) d r = (OOk (RIsos (dict_retrieve c (abs d))), d, r, statements_of_retrieval c d).
Proof. exact source_isotherms_from_db_refines_dictionary. Qed.
Print Assumptions isotherm_retrieval_refines_dictionary.
(* the hypothesis 1 <= n is needed (batch size 0: three rows match, nothing comes back); three rows in batches of two: 1 + 2 * 2 statements *)
Theorem zero_batch_size_retrieves_nothing_refuted :
  fst (run None (iso_get_n 0 (mkC None None None None)) (mkSt b_db (mkReg [] []) 0)) = Good []
  /\ length (retrieve (mkC None None None None) b_db) = 3%nat.
Proof. exact zero_batch_retrieves_nothing. Qed.
Print Assumptions zero_batch_size_retrieves_nothing_refuted.
Example store_larger_than_the_batch :
  run None (iso_get_n 2 (mkC None None None None)) (mkSt b_db (mkReg [] []) 0)
  = (Good (retrieve (mkC None None None None) b_db), mkSt b_db (mkReg [] []) 5)
  /\ map o_props (retrieve (mkC None None None None) b_db)
     = [[(A_iso_type, VText A_base)]; [(A_iso_type, VText A_base); (40, VNum 5)]; [(A_iso_type, VText A_base)]].
Proof. exact batches_of_two_example. Qed.

(* ---- operations refused PART-WAY by Python-level code (Db/DbPy.v: a value sqlite3 cannot bind - dict, nested list, object, integer beyond
   64 bits, text with a lone surrogate -, an extra data column whose element type has no SQL name, an argument that is no isotherm), i.e.
   by exceptions with_connection has no handler for, raised after the first rows of the call were written.  pyop = the operations as Python
   hands them over; for storable input they are the operations above (plain_of).  Every upload of every history of the run goes through
   these programs (outcome, statement count, every table row compared with the implementation). *)
(* a call that does not return normally - whatever was handed over, whatever fails, wherever - leaves the file as it was *)
Theorem python_level_refusal_changes_nothing : forall po flt cf d r oc d' r' n,
  with_conn flt cf (body_py po) d r = (oc, d', r', n) -> (forall a, oc <> OOk a) -> cf <> CAfterCommit -> d' = d.
Proof. exact py_refused_unchanged. Qed.
Print Assumptions python_level_refusal_changes_nothing.
(* ... and for the wrapper AS FOUND IN THE SOURCE (Gen/DbShapeGen.v wc_source, regenerated on every run; Db/DbConn.v interprets Python's try
   statement, the open transaction holding what the body wrote before it raised): nothing of a call the caller gets no result from reaches
   the file.  A commit on an error path (a handler, `finally`) breaks this theorem. *)
Theorem refused_call_changes_nothing_in_source_wrapper : forall flt cf (p : prog ret) d r oc d' r' n,
  fst (with_conn_gen wc_source flt cf p d r) = Some (oc, d', r', n) -> (forall a, oc <> OOk a) -> cf <> CAfterCommit ->
  d' = d /\ x_file (snd (with_conn_gen wc_source flt cf p d r)) = d'.
Proof. exact source_wrapper_refused_unchanged. Qed.
Print Assumptions refused_call_changes_nothing_in_source_wrapper.
(* all or nothing under every fault that no try of the body swallows *)
Theorem python_level_call_is_atomic : forall po d r flt cf,
  (match flt with Some (k, e) => e <> EIntegrity \/ tryfree (body_py po) | None => True end) ->
  db_of (with_conn flt cf (body_py po) d r) = d \/ db_of (with_conn flt cf (body_py po) d r) = db_of (run_pyop po d r).
Proof. exact py_call_atomic. Qed.
Print Assumptions python_level_call_is_atomic.
(* the invariant of the tables survives every such call, under every fault *)
Theorem python_level_call_preserves_well_formedness : forall po flt cf d r, wf d -> wf (DbInv.db_after (with_conn flt cf (body_py po) d r)).
Proof. exact py_operation_preserves_wf. Qed.
Print Assumptions python_level_call_preserves_well_formedness.
(* the refusal nodes are reached after rows were written (not vacuous): a material upload refused at its 7th statement with the name row,
   two type rows and one property row written; a PointIsotherm refused by the body after the isotherm row, a property and three data rows *)
Example python_level_refusals_happen_after_writes :
  run_pyop e_mat e_db (mkReg [] []) = (OOther (EExc K_Programming), e_db, mkReg [] [], 7%nat)
  /\ names (mat (s_db (snd (run None (body_py e_mat) (mkSt e_db (mkReg [] []) 0))))) = [30; 31]
  /\ length (props (mat (s_db (snd (run None (body_py e_mat) (mkSt e_db (mkReg [] []) 0)))))) = 1%nat
  /\ run_pyop e_iso e_db (mkReg [] []) = (OOther (EExc K_Parsing), e_db, mkReg [] [], 6%nat)
  /\ length (idata (s_db (snd (run None (body_py e_iso) (mkSt e_db (mkReg [] []) 0))))) = 3%nat
  /\ plain_of e_mat = None /\ plain_of e_iso = None.
Proof. exact py_refusal_witnesses. Qed.
(* a wrapper that commits in `finally` stores the half-written isotherm although the caller gets the ParsingError *)
Theorem commit_in_finally_half_commits_refuted :
  match fst (with_conn_gen wc_commit_in_finally None CNone (body_py e_iso) e_db (mkReg [] [])) with
  | Some (oc, d', _, _) => oc = OOther (EExc K_Parsing) /\ iso_ids d' = [100] /\ length (idata d') = 3%nat
  | None => False end.
Proof. exact commit_in_finally_half_commits. Qed.
Print Assumptions commit_in_finally_half_commits_refuted.
(* on storable input the programs with refusal nodes ARE the programs of Db/DbModel.v (program trees equal): the refinement theorems above
   speak about what the harness executes for every upload *)
Theorem storable_python_call_is_the_plain_operation : forall o : op,
  body_py (match o with
           | EntUp e n ps a w => PEntUp e n (inj_plist ps) a w
           | TyUp t ty u ds w => PTyUp t ty (PV u) (PV ds) w
           | IsoUp x am aa => PIsoUp (inj_iso x) am aa
           | _ => POp o end) = body o.
Proof. exact storable_pyop_is_plain_op. Qed.
Print Assumptions storable_python_call_is_the_plain_operation.
