(* The three shapes the `alias` keyword of Adsorbate.__init__ takes (adsorbate.py:119-127): absent/None, one string, a list. *)
From Coq Require Import String List.
Inductive alias_arg := ANone | AStr (s : string) | AList (l : list string).
